import MosnVerif.Model.UpdatesSpec
/-! Helper lemmas for property C12 (core Lean only). -/
namespace MosnVerif.Model.Updates
open MosnVerif

/-! ## finite maps -/
@[simp] theorem FMap.set_same {α} (m : FMap α) (k : String) (v : α) : (m.set k v) k = some v := by simp [FMap.set]
theorem FMap.set_other {α} (m : FMap α) {k k' : String} (v : α) (h : k' ≠ k) : (m.set k v) k' = m k' := by simp [FMap.set, h]
@[simp] theorem FMap.del_same {α} (m : FMap α) (k : String) : (m.del k) k = none := by simp [FMap.del]
theorem FMap.del_other {α} (m : FMap α) {k k' : String} (h : k' ≠ k) : (m.del k) k' = m k' := by simp [FMap.del, h]

/-! ## regenerated facts (break ⇒ the dependent proofs stop checking) -/
theorem gen_recordsAddOrUpdate : recordsAddOrUpdate = true := by decide
theorem gen_addRoute : Gen.Updates.addRoute_recordsRouter = true := by decide
theorem gen_removeAll : Gen.Updates.removeAllRoutes_recordsRouter = true := by decide
theorem gen_setRouterStores : Gen.Updates.setRouter_storesRouter = true := by decide
/-- `SetRouter` copies the path of the router it is given into `conf.routerConfigPath` UNCONDITIONALLY (an empty path included) -/
theorem gen_setRouterRemembers : Gen.Updates.setRouter_rememberPath = some .always := by decide

/-! ## the stored copy of a router configuration -/
@[simp] theorem storedCfg_name (c : RouterCfg) : (storedCfg c).name = c.name := by unfold storedCfg; split <;> rfl
@[simp] theorem storedCfg_vhosts (c : RouterCfg) : (storedCfg c).vhosts = c.vhosts := by unfold storedCfg; split <;> rfl
@[simp] theorem storedCfg_static (c : RouterCfg) : (storedCfg c).static = c.static := by unfold storedCfg; split <;> rfl
theorem build_congr (o : Oracle) {c c' : RouterCfg} (h : c.vhosts = c'.vhosts) : build o c = build o c' := by
  unfold build; rw [h]
@[simp] theorem build_storedCfg (o : Oracle) (c : RouterCfg) : build o (storedCfg c) = build o c := build_congr o (by simp)
@[simp] theorem build_withPath (o : Oracle) (c : RouterCfg) (p : String) : build o { c with path := p } = build o c :=
  build_congr o rfl
theorem rememberedPath_eq (old : String) (c : RouterCfg) : rememberedPath old c = c.path := by
  simp [rememberedPath, gen_setRouterRemembers, condHolds]
theorem gen_updCfg : Gen.Updates.updateCluster_recordsClusterConfig = true := by decide
theorem gen_updRefresh : Gen.Updates.updateCluster_refreshesHosts = true := by decide
theorem gen_hostsRefresh : Gen.Updates.updateHosts_refreshesHosts = true := by decide
theorem gen_remove : Gen.Updates.removePrimaryCluster_removesClusterConfig = true := by decide
theorem gen_setHosts : Gen.Updates.refreshHostsConfig_setsHosts = true := by decide
theorem gen_inside : Gen.Updates.endpointUpdatesInsideLocalityLoop = 0 := by decide
theorem gen_after : Gen.Updates.endpointUpdatesAfterLocalityLoop = 1 := by decide
theorem gen_acc : Gen.Updates.localityLoopAccumulates = true := by decide
theorem gen_lrec : Gen.Updates.addOrUpdateListener_recordsListenerConfig = true := by decide
theorem gen_lrem : Gen.Updates.removeListeners_removesListenerConfig = true := by decide
theorem gen_idleLive : Gen.Updates.updateListener_idleLive = true := by decide
theorem gen_idleCfg : Gen.Updates.updateListener_idleConfig = true := by decide
theorem gen_late : Gen.Updates.updateListener_lateErrorReturns = 0 := by decide

/-! ## modifyAt -/
theorem modifyAt_length {α} (f : α → α) (l : List α) (i : Nat) : (modifyAt f l i).length = l.length := by
  induction l generalizing i with
  | nil => simp [modifyAt]
  | cons x r ih => cases i <;> simp [modifyAt, ih]

theorem modifyAt_map {α β} (f : α → α) (g : β → β) (p : α → β) (hp : ∀ x, p (f x) = g (p x)) (l : List α) (i : Nat) :
    (modifyAt f l i).map p = modifyAt g (l.map p) i := by
  induction l generalizing i with
  | nil => simp [modifyAt]
  | cons x r ih => cases i <;> simp [modifyAt, ih, hp]

theorem modifyAt_map_id {α β} (f : α → α) (p : α → β) (hp : ∀ x, p (f x) = p x) (l : List α) (i : Nat) :
    (modifyAt f l i).map p = l.map p := by
  induction l generalizing i with
  | nil => simp [modifyAt]
  | cons x r ih => cases i <;> simp [modifyAt, ih, hp]

theorem modifyAt_all {α} (f : α → α) (q : α → Bool) (l : List α) (i : Nat) (hq : ∀ x, q x = true → q (f x) = true)
    (hl : l.all q = true) : (modifyAt f l i).all q = true := by
  induction l generalizing i with
  | nil => simp [modifyAt]
  | cons x r ih =>
    simp only [List.all_cons, Bool.and_eq_true] at hl
    cases i with
    | zero => simp only [modifyAt, List.all_cons, Bool.and_eq_true]; exact ⟨hq x hl.1, hl.2⟩
    | succ j => simp only [modifyAt, List.all_cons, Bool.and_eq_true]; exact ⟨hl.1, ih j hl.2⟩

theorem modifyAt_getElem? {α} (f : α → α) (l : List α) (i j : Nat) :
    (modifyAt f l i)[j]? = if j = i then l[j]?.map f else l[j]? := by
  induction l generalizing i j with
  | nil => simp [modifyAt]
  | cons x r ih =>
    cases i with
    | zero => cases j <;> simp [modifyAt]
    | succ i' =>
      cases j with
      | zero => simp [modifyAt]
      | succ j' => simp [modifyAt, ih]

/-! ## NewRouters -/

theorem build_eq_some {o : Oracle} {cfg : RouterCfg} {t : Table} (h : build o cfg = some t) :
    cfg.vhosts.isEmpty = false ∧ cfg.vhosts.any (fun vh => vh.routes.any (fun r => !r.valid)) = false ∧
    o.domainsOk (cfg.vhosts.map (·.domains)) = true ∧
    t = ⟨cfg.vhosts.map (·.domains), cfg.vhosts.map (fun vh => ⟨vh.name, vh.routes⟩)⟩ := by
  unfold build at h
  split at h
  · cases h
  · split at h
    · cases h
    · split at h
      · cases h
      · rename_i h1 h2 h3
        refine ⟨by simpa using h1, by simpa using h2, by simpa using h3, ?_⟩
        cases h; rfl

theorem build_some_of {o : Oracle} {cfg : RouterCfg} (h1 : cfg.vhosts.isEmpty = false)
    (h2 : cfg.vhosts.any (fun vh => vh.routes.any (fun r => !r.valid)) = false)
    (h3 : o.domainsOk (cfg.vhosts.map (·.domains)) = true) :
    build o cfg = some ⟨cfg.vhosts.map (·.domains), cfg.vhosts.map (fun vh => ⟨vh.name, vh.routes⟩)⟩ := by
  unfold build
  simp [h1, h2, h3]

/-- the validity test of `build` as an `all` -/
theorem any_invalid_false_iff (l : List VHost) :
    l.any (fun vh => vh.routes.any (fun r => !r.valid)) = false ↔ l.all (fun vh => vh.routes.all (fun r => r.valid)) = true := by
  induction l with
  | nil => simp
  | cons x r ih =>
    simp only [List.any_cons, List.all_cons, Bool.or_eq_false_iff, Bool.and_eq_true, ih]
    constructor
    · rintro ⟨h1, h2⟩
      refine ⟨?_, h2⟩
      simpa using h1
    · rintro ⟨h1, h2⟩
      refine ⟨?_, h2⟩
      simpa using h1

/-- a successful `AddRoute` on a table built from `cfg` yields the table built from `cfg` with the route appended at the
same index. -/
theorem build_addRoute {o : Oracle} {cfg : RouterCfg} {t t' : Table} {d : String} {r : Route} {i : Nat}
    (hb : build o cfg = some t) (ha : t.addRoute o d r = some (i, t')) :
    build o { cfg with vhosts := modifyAt (fun vh => { vh with routes := vh.routes ++ [r] }) cfg.vhosts i } = some t' := by
  obtain ⟨h1, h2, h3, rfl⟩ := build_eq_some hb
  unfold Table.addRoute at ha
  split at ha
  · cases ha
  · rename_i j hj
    split at ha
    · split at ha
      · rename_i hlt hv
        simp only [Option.some.injEq, Prod.mk.injEq] at ha
        obtain ⟨rfl, rfl⟩ := ha
        have e1 : ∀ (l : List VHost), (modifyAt (fun vh : VHost => { vh with routes := vh.routes ++ [r] }) l j).map (·.domains)
            = l.map (·.domains) := by
          intro l; apply modifyAt_map_id; intro x; rfl
        rw [build_some_of]
        · simp only [e1]
          congr 1
          simp only [Table.mk.injEq, true_and]
          exact modifyAt_map _ (fun vh : LiveVH => { vh with routes := vh.routes ++ [r] }) _ (fun _ => rfl) _ _
        · cases hc : cfg.vhosts with
          | nil => simp [hc] at h1
          | cons x rest => cases j <;> simp [modifyAt]
        · rw [any_invalid_false_iff] at h2 ⊢
          apply modifyAt_all _ _ _ _ _ h2
          intro x hx
          simp only [List.all_append, hx, List.all_cons, hv, List.all_nil, Bool.and_self]
        · simp only [e1]; exact h3
      · cases ha
    · cases ha

theorem build_removeAll {o : Oracle} {cfg : RouterCfg} {t t' : Table} {d : String} {i : Nat}
    (hb : build o cfg = some t) (ha : t.removeAll o d = some (i, t')) :
    build o { cfg with vhosts := modifyAt (fun vh => { vh with routes := [] }) cfg.vhosts i } = some t' := by
  obtain ⟨h1, h2, h3, rfl⟩ := build_eq_some hb
  unfold Table.removeAll at ha
  split at ha
  · cases ha
  · rename_i j hj
    split at ha
    · simp only [Option.some.injEq, Prod.mk.injEq] at ha
      obtain ⟨rfl, rfl⟩ := ha
      have e1 : ∀ (l : List VHost), (modifyAt (fun vh : VHost => { vh with routes := [] }) l j).map (·.domains)
          = l.map (·.domains) := by
        intro l; apply modifyAt_map_id; intro x; rfl
      rw [build_some_of]
      · simp only [e1]
        congr 1
        simp only [Table.mk.injEq, true_and]
        exact modifyAt_map _ (fun vh : LiveVH => { vh with routes := [] }) _ (fun _ => rfl) _ _
      · cases hc : cfg.vhosts with
        | nil => simp [hc] at h1
        | cons x rest => cases j <;> simp [modifyAt]
      · rw [any_invalid_false_iff] at h2 ⊢
        apply modifyAt_all _ _ _ _ _ h2
        intro x _
        simp
      · simp only [e1]; exact h3
    · cases ha

/-! ## NewHostSet: distinct by address -/

theorem dedupAux_spec (seen : List String) (l : List Host) :
    ((dedupAux seen l).map (·.addr)).Nodup ∧ ∀ a ∈ (dedupAux seen l).map (·.addr), a ∉ seen := by
  induction l generalizing seen with
  | nil => simp [dedupAux]
  | cons h t ih =>
    unfold dedupAux
    split
    · exact ih seen
    · rename_i hns
      obtain ⟨h1, h2⟩ := ih (h.addr :: seen)
      refine ⟨?_, ?_⟩
      · simp only [List.map_cons, List.nodup_cons]
        refine ⟨fun hm => ?_, h1⟩
        exact (h2 _ hm) (by simp)
      · intro a ha
        simp only [List.map_cons, List.mem_cons] at ha
        rcases ha with rfl | ha
        · exact hns
        · intro hs; exact (h2 a ha) (by simp [hs])

theorem dedup_nodup (l : List Host) : ((dedup l).map (·.addr)).Nodup := (dedupAux_spec [] l).1

theorem dedupAux_id (seen : List String) (l : List Host) (hnd : (l.map (·.addr)).Nodup)
    (hs : ∀ a ∈ l.map (·.addr), a ∉ seen) : dedupAux seen l = l := by
  induction l generalizing seen with
  | nil => simp [dedupAux]
  | cons h t ih =>
    simp only [List.map_cons, List.nodup_cons] at hnd
    unfold dedupAux
    have : h.addr ∉ seen := hs _ (by simp)
    simp only [this, if_false]
    congr 1
    apply ih _ hnd.2
    intro a ha hm
    simp only [List.mem_cons] at hm
    rcases hm with rfl | hm
    · exact hnd.1 ha
    · exact hs a (by simp [ha]) hm

/-- `NewHostSet` of an address-distinct list is that list. -/
theorem dedup_id (l : List Host) (hnd : (l.map (·.addr)).Nodup) : dedup l = l :=
  dedupAux_id [] l hnd (by simp)

theorem mem_dedupAux {seen : List String} {l : List Host} {h : Host} (hm : h ∈ dedupAux seen l) : h ∈ l := by
  induction l generalizing seen with
  | nil => simp [dedupAux] at hm
  | cons x t ih =>
    unfold dedupAux at hm
    split at hm
    · exact List.mem_cons_of_mem _ (ih hm)
    · simp only [List.mem_cons] at hm ⊢
      rcases hm with rfl | hm
      · left; rfl
      · right; exact ih hm

theorem mem_dedup {l : List Host} {h : Host} (hm : h ∈ dedup l) : h ∈ l := mem_dedupAux hm

theorem addr_mem_dedupAux {seen : List String} {l : List Host} {a : String} (hm : a ∈ l.map (·.addr)) (hs : a ∉ seen) :
    a ∈ (dedupAux seen l).map (·.addr) := by
  induction l generalizing seen with
  | nil => simp at hm
  | cons x t ih =>
    simp only [List.map_cons, List.mem_cons] at hm
    unfold dedupAux
    split
    · rename_i hx
      rcases hm with rfl | hm
      · exact absurd hx hs
      · exact ih hm hs
    · simp only [List.map_cons, List.mem_cons]
      by_cases hax : a = x.addr
      · left; exact hax
      · right
        rcases hm with rfl | hm
        · exact absurd rfl hax
        · apply ih hm
          simp only [List.mem_cons, not_or]
          exact ⟨hax, hs⟩

/-- every address of the input survives `NewHostSet`. -/
theorem addr_mem_dedup {l : List Host} {a : String} (hm : a ∈ l.map (·.addr)) : a ∈ (dedup l).map (·.addr) :=
  addr_mem_dedupAux hm (by simp)

@[simp] theorem clampHost_addr (h : Host) : (clampHost h).addr = h.addr := rfl

theorem map_clamp_addr (l : List Host) : (l.map clampHost).map (·.addr) = l.map (·.addr) := by
  simp [List.map_map, Function.comp_def]

/-! ## sorted removal -/

/-- strictly ascending by address -/
def StrictSorted (l : List Host) : Prop := l.Pairwise (fun a b => a.addr < b.addr)

theorem removeSorted_eq_filter (l : List Host) (a : String) (hs : StrictSorted l) :
    removeSorted l a = l.filter (fun h => !decide (h.addr = a)) := by
  induction l with
  | nil => simp [removeSorted]
  | cons h t ih =>
    unfold StrictSorted at hs
    rw [List.pairwise_cons] at hs
    obtain ⟨hh, ht⟩ := hs
    unfold removeSorted
    by_cases hle : a ≤ h.addr
    · simp only [hle, if_true]
      have htail : t.filter (fun x => !decide (x.addr = a)) = t := by
        rw [List.filter_eq_self]
        intro x hx
        have h1 : h.addr < x.addr := hh x hx
        have : x.addr ≠ a := by
          intro e; subst e
          exact (String.not_lt.mpr hle) h1
        simp [this]
      by_cases he : h.addr = a
      · rw [List.filter_cons]; simp only [he, decide_true, Bool.not_true, if_true]
        simp only [Bool.false_eq_true, if_false]; exact htail.symm
      · rw [List.filter_cons]; simp only [he, decide_false, Bool.not_false, if_true, if_false]
        rw [htail]
    · simp only [hle, if_false]
      have hne : h.addr ≠ a := by
        intro e; subst e; exact hle (String.le_refl _)
      rw [List.filter_cons]; simp only [hne, decide_false, Bool.not_false, if_true]
      congr 1
      exact ih ht

theorem strictSorted_filter (l : List Host) (p : Host → Bool) (hs : StrictSorted l) : StrictSorted (l.filter p) :=
  List.Pairwise.sublist List.filter_sublist hs

theorem foldl_removeSorted_eq_filter (addrs : List String) (l : List Host) (hs : StrictSorted l) :
    addrs.foldl removeSorted l = l.filter (fun h => !decide (h.addr ∈ addrs)) := by
  induction addrs generalizing l with
  | nil =>
    simp only [List.foldl_nil, List.not_mem_nil, decide_false, Bool.not_false]
    exact (List.filter_eq_self.mpr (fun _ _ => rfl)).symm
  | cons a r ih =>
    simp only [List.foldl_cons]
    rw [removeSorted_eq_filter l a hs, ih _ (strictSorted_filter l _ hs), List.filter_filter]
    congr 1
    funext h
    by_cases h1 : h.addr = a <;> by_cases h2 : h.addr ∈ r <;> simp [h1, h2]

theorem insertByAddr_perm (h : Host) (l : List Host) : (insertByAddr h l).Perm (h :: l) := by
  induction l with
  | nil => exact List.Perm.refl _
  | cons x t ih =>
    unfold insertByAddr
    split
    · exact List.Perm.refl _
    · exact ((List.Perm.cons x ih).trans (List.Perm.swap h x t))

theorem sortByAddr_perm (l : List Host) : (sortByAddr l).Perm l := by
  induction l with
  | nil => exact List.Perm.refl _
  | cons x t ih =>
    show (insertByAddr x (sortByAddr t)).Perm (x :: t)
    exact (insertByAddr_perm x _).trans (List.Perm.cons x ih)

theorem insertByAddr_sorted (h : Host) (l : List Host) (hs : l.Pairwise (fun a b => a.addr ≤ b.addr)) :
    (insertByAddr h l).Pairwise (fun a b => a.addr ≤ b.addr) := by
  induction l with
  | nil => simp [insertByAddr]
  | cons x t ih =>
    rw [List.pairwise_cons] at hs
    unfold insertByAddr
    split
    · rename_i hle
      rw [List.pairwise_cons]
      refine ⟨?_, List.pairwise_cons.mpr hs⟩
      intro y hy
      simp only [List.mem_cons] at hy
      rcases hy with rfl | hy
      · exact hle
      · exact String.le_trans hle (hs.1 y hy)
    · rename_i hnle
      have hxh : x.addr ≤ h.addr := by
        rcases String.le_total h.addr x.addr with h' | h'
        · exact absurd h' hnle
        · exact h'
      rw [List.pairwise_cons]
      refine ⟨?_, ih hs.2⟩
      intro y hy
      have := (insertByAddr_perm h t).mem_iff.mp hy
      simp only [List.mem_cons] at this
      rcases this with rfl | hy'
      · exact hxh
      · exact hs.1 y hy'

theorem sortByAddr_sorted (l : List Host) : (sortByAddr l).Pairwise (fun a b => a.addr ≤ b.addr) := by
  induction l with
  | nil => exact List.Pairwise.nil
  | cons x t ih => exact insertByAddr_sorted x _ ih

theorem sortByAddr_strict (l : List Host) (hnd : (l.map (·.addr)).Nodup) : StrictSorted (sortByAddr l) := by
  have hsorted := sortByAddr_sorted l
  have hnd' : ((sortByAddr l).map (·.addr)).Nodup := ((sortByAddr_perm l).map _).nodup_iff.mpr hnd
  unfold StrictSorted
  generalize sortByAddr l = s at hsorted hnd'
  induction s with
  | nil => exact List.Pairwise.nil
  | cons x t ih =>
    rw [List.pairwise_cons] at hsorted ⊢
    simp only [List.map_cons, List.nodup_cons] at hnd'
    refine ⟨?_, ih hsorted.2 hnd'.2⟩
    intro y hy
    have hle : x.addr ≤ y.addr := hsorted.1 y hy
    have hne : x.addr ≠ y.addr := fun e => hnd'.1 (by rw [e]; exact List.mem_map_of_mem hy)
    rcases Std.le_iff_lt_or_eq.mp hle with h | h
    · exact h
    · exact absurd h hne

/-! ## the removal loop as written (binary search, regenerated guard and deletion) refines `removeSorted` -/

theorem goSearchAux_spec (f : Nat → Bool) (n : Nat) (hmono : ∀ a b, a ≤ b → b < n → f a = true → f b = true) :
    ∀ fuel i j, i ≤ j → j ≤ n → j - i < fuel → (∀ k, k < i → f k = false) → (j < n → f j = true) →
      goSearchAux f fuel i j ≤ n ∧ (∀ k, k < goSearchAux f fuel i j → f k = false) ∧
      (goSearchAux f fuel i j < n → f (goSearchAux f fuel i j) = true) := by
  intro fuel
  induction fuel with
  | zero => intro i j _ _ h; omega
  | succ fuel ih =>
    intro i j hij hjn hfuel hlo hhi
    unfold goSearchAux
    by_cases hlt : i < j
    · simp only [hlt, if_true]
      have h1 : i ≤ (i + j) / 2 := by omega
      have h2 : (i + j) / 2 < j := by omega
      cases hf : f ((i + j) / 2) with
      | false =>
        simp only [Bool.not_false, if_true]
        apply ih _ _ (by omega) hjn (by omega) _ hhi
        intro k hk
        cases hk' : f k with
        | false => rfl
        | true =>
          have := hmono k ((i + j) / 2) (by omega) (by omega) hk'
          rw [hf] at this; cases this
      | true =>
        simp only [Bool.not_true, Bool.false_eq_true, if_false]
        exact ih _ _ h1 (by omega) (by omega) hlo (fun _ => hf)
    · simp only [hlt, if_false]
      have : i = j := by omega
      subst this
      exact ⟨hjn, hlo, hhi⟩

theorem goSearch_spec (f : Nat → Bool) (n : Nat) (hmono : ∀ a b, a ≤ b → b < n → f a = true → f b = true) :
    goSearch n f ≤ n ∧ (∀ k, k < goSearch n f → f k = false) ∧ (goSearch n f < n → f (goSearch n f) = true) := by
  unfold goSearch
  exact goSearchAux_spec f n hmono (n + 1) 0 n (Nat.zero_le _) (Nat.le_refl _) (by omega) (fun k hk => by omega) (fun h => by omega)

theorem removeSorted_of_spec (l : List Host) (a : String) (i : Nat)
    (hlt : ∀ k (hk : k < l.length), k < i → ¬ a ≤ l[k].addr) (hge : ∀ (h : i < l.length), a ≤ l[i].addr) :
    removeSorted l a = if h : i < l.length then (if l[i].addr = a then l.eraseIdx i else l) else l := by
  induction l generalizing i with
  | nil => simp [removeSorted]
  | cons x t ih =>
    cases i with
    | zero =>
      have := hge (by simp)
      simp only [List.getElem_cons_zero] at this
      simp [removeSorted, this]
    | succ k =>
      have h0 := hlt 0 (by simp) (by omega)
      simp only [List.getElem_cons_zero] at h0
      unfold removeSorted
      simp only [h0, if_false]
      rw [ih k (fun j hj hjk => by have := hlt (j + 1) (by simp; omega) (by omega); simpa using this)
        (fun h => by have := hge (by simp; omega); simpa using this)]
      by_cases hk : k < t.length
      · simp only [hk, dite_true, List.length_cons, Nat.add_lt_add_iff_right, List.getElem_cons_succ, List.eraseIdx_cons_succ]
        split <;> rfl
      · simp [hk]

theorem addrAt_lt (l : List Host) (k : Nat) (hk : k < l.length) : addrAt l k = l[k].addr := by
  simp [addrAt, List.getElem?_eq_getElem hk]

theorem removeStep_eq_removeSorted (l : List Host) (a : String) (hs : l.Pairwise (fun x y => x.addr ≤ y.addr)) :
    removeStep l a = removeSorted l a := by
  have hmono : ∀ p q, p ≤ q → q < l.length →
      Gen.Updates.removeSearchPred l.length (addrAt l) a p = true → Gen.Updates.removeSearchPred l.length (addrAt l) a q = true := by
    intro p q hpq hq hp
    simp only [Gen.Updates.removeSearchPred, decide_eq_true_eq, ge_iff_le] at hp ⊢
    rw [addrAt_lt l q hq]
    rw [addrAt_lt l p (by omega)] at hp
    rcases Nat.lt_or_eq_of_le hpq with h | h
    · exact String.le_trans hp ((List.pairwise_iff_getElem.mp hs) p q (by omega) hq h)
    · subst h; exact hp
  obtain ⟨hle, hlo, hhi⟩ := goSearch_spec _ l.length hmono
  unfold removeStep removeStepWith
  generalize goSearch l.length (Gen.Updates.removeSearchPred l.length (addrAt l) a) = i at hle hlo hhi
  rw [removeSorted_of_spec l a i
    (fun k hk hki => by
      have := hlo k hki
      simp only [Gen.Updates.removeSearchPred, decide_eq_false_iff_not, ge_iff_le] at this
      rwa [addrAt_lt l k hk] at this)
    (fun h => by
      have := hhi h
      simp only [Gen.Updates.removeSearchPred, decide_eq_true_eq, ge_iff_le] at this
      rwa [addrAt_lt l i h] at this)]
  by_cases hi : i < l.length
  · simp only [Gen.Updates.removeFound, hi, decide_true, Bool.true_and, decide_eq_true_eq, dite_true, addrAt_lt l i hi]
    split
    · simp [Gen.Updates.removeDelete, List.eraseIdx_eq_take_drop_succ]
    · rfl
  · simp [Gen.Updates.removeFound, hi]

theorem removeSorted_sublist (l : List Host) (a : String) : (removeSorted l a).Sublist l := by
  induction l with
  | nil => simp [removeSorted]
  | cons x t ih =>
    unfold removeSorted
    split
    · split
      · exact List.sublist_cons_self x t
      · exact List.Sublist.refl _
    · exact List.Sublist.cons₂ x ih

theorem foldl_removeStep_eq (addrs : List String) (l : List Host) (hs : l.Pairwise (fun x y => x.addr ≤ y.addr)) :
    addrs.foldl removeStep l = addrs.foldl removeSorted l := by
  induction addrs generalizing l with
  | nil => rfl
  | cons a r ih =>
    simp only [List.foldl_cons]
    rw [removeStep_eq_removeSorted l a hs]
    exact ih _ (List.Pairwise.sublist (removeSorted_sublist l a) hs)

/-- `RemoveClusterHosts`' handler as written = `NewHostSet` of the specification fold over the sorted hosts — for every
address list (any order, duplicates, absent addresses) and every old host list. -/
theorem removeHosts_unfold (addrs : List String) (old : List Host) :
    removeHosts addrs old = dedup (addrs.foldl removeSorted (sortByAddr old)) := by
  unfold removeHosts removeHostsWith
  simp only [show Gen.Updates.removeHosts_sorts = true from rfl, if_true]
  rw [show removeStepWith Gen.Updates.removeDelete = removeStep from rfl, foldl_removeStep_eq _ _ (sortByAddr_sorted old)]

/-- the host set after `RemoveClusterHosts`: exactly the hosts whose address is not listed (sorted by address). -/
theorem removeHosts_eq (addrs : List String) (old : List Host) (hnd : (old.map (·.addr)).Nodup) :
    removeHosts addrs old = (sortByAddr old).filter (fun h => !decide (h.addr ∈ addrs)) := by
  rw [removeHosts_unfold]
  rw [foldl_removeSorted_eq_filter _ _ (sortByAddr_strict old hnd)]
  apply dedup_id
  have hnd' : ((sortByAddr old).map (·.addr)).Nodup := ((sortByAddr_perm old).map _).nodup_iff.mpr hnd
  exact List.Nodup.sublist (List.Sublist.map _ List.filter_sublist) hnd'

/-! ## the invariant tying the live side to the stored side -/

structure Inv (o : Oracle) (s : State) : Prop where
  r_some : ∀ n w, s.wrappers n = some w → w.cfg.name = n ∧ s.rstore n = some (storedCfg w.cfg) ∧ w.routers = build o w.cfg
  r_none : ∀ n, s.wrappers n = none → s.rstore n = none
  c_some : ∀ n lc, s.clusters n = some lc → s.cstore n = some ⟨lc.tag, lc.hosts⟩ ∧ (lc.hosts.map (·.addr)).Nodup
  c_none : ∀ n, s.clusters n = none → s.cstore n = none
  /-- the remembered path of a router is the path of the configuration its wrapper holds -/
  r_path : ∀ n w, s.wrappers n = some w → s.rpath n = w.cfg.path

theorem inv_init (o : Oracle) : Inv o init := by
  constructor <;> intros <;> simp_all [init, FMap.empty]

/-- installing a wrapper whose tables are those built from its configuration, and recording that configuration -/
theorem inv_setRouter {o : Oracle} {s : State} (hI : Inv o s) (cfg : RouterCfg) (t : Option Table) (ht : t = build o cfg) :
    Inv o (recordRouter true { s with wrappers := s.wrappers.set cfg.name ⟨t, cfg⟩ } cfg) := by
  simp only [recordRouter, if_true, gen_setRouterStores]
  constructor
  · intro n w hw
    by_cases hn : n = cfg.name
    · subst hn
      simp only [FMap.set_same, Option.some.injEq] at hw
      subst hw
      exact ⟨rfl, by simp, ht⟩
    · simp only [FMap.set_other _ _ hn] at hw ⊢
      exact hI.r_some n w hw
  · intro n hw
    by_cases hn : n = cfg.name
    · subst hn; simp at hw
    · simp only [FMap.set_other _ _ hn] at hw ⊢
      exact hI.r_none n hw
  · exact hI.c_some
  · exact hI.c_none
  · intro n w hw
    by_cases hn : n = cfg.name
    · subst hn
      simp only [FMap.set_same, Option.some.injEq] at hw
      subst hw
      simp [rememberedPath_eq]
    · simp only [FMap.set_other _ _ hn] at hw
      simp only [hn, if_false]
      exact hI.r_path n w hw

theorem refreshHosts_some (s : State) (name : String) (hosts : List Host) (c : StoredCluster) (hc : s.cstore name = some c) :
    refreshHosts true s name hosts = { s with cstore := s.cstore.set name { c with hosts := hosts } } := by
  simp [refreshHosts, gen_setHosts, hc]

theorem refreshHosts_none (s : State) (name : String) (hosts : List Host) (hc : s.cstore name = none) :
    refreshHosts true s name hosts = s := by
  simp [refreshHosts, gen_setHosts, hc]

theorem inv_updateCluster {o : Oracle} {s : State} (hI : Inv o s) (name : String) (tag : Nat) (cfgHosts : List Host)
    (handler : Option LiveCluster → List Host) (hN : ((handler (s.clusters name)).map (·.addr)).Nodup) :
    Inv o (updateCluster s name tag cfgHosts handler).1 := by
  simp only [updateCluster, gen_updCfg, gen_updRefresh, if_true]
  rw [refreshHosts_some _ _ _ ⟨tag, cfgHosts⟩ (by simp)]
  constructor
  · exact hI.r_some
  · exact hI.r_none
  · intro n lc hl
    by_cases hn : n = name
    · subst hn
      simp only [FMap.set_same, Option.some.injEq] at hl ⊢
      subst hl
      exact ⟨rfl, hN⟩
    · simp only [FMap.set_other _ _ hn] at hl ⊢
      exact hI.c_some n lc hl
  · intro n hl
    by_cases hn : n = name
    · subst hn; simp at hl
    · simp only [FMap.set_other _ _ hn] at hl ⊢
      exact hI.c_none n hl
  · exact hI.r_path

theorem inv_updateHosts {o : Oracle} {s : State} (hI : Inv o s) (name : String) (f : List Host → List Host)
    (hf : ∀ l, ((f l).map (·.addr)).Nodup) : Inv o (updateHosts s name f).1 := by
  unfold updateHosts
  split
  · exact hI
  · rename_i lc hlc
    have hst := (hI.c_some name lc hlc).1
    simp only [gen_hostsRefresh]
    rw [refreshHosts_some _ _ _ ⟨lc.tag, lc.hosts⟩ (by simpa using hst)]
    constructor
    · exact hI.r_some
    · exact hI.r_none
    · intro n lc' hl
      by_cases hn : n = name
      · subst hn
        simp only [FMap.set_same, Option.some.injEq] at hl ⊢
        subst hl
        exact ⟨rfl, hf _⟩
      · simp only [FMap.set_other _ _ hn] at hl ⊢
        exact hI.c_some n lc' hl
    · intro n hl
      by_cases hn : n = name
      · subst hn; simp at hl
      · simp only [FMap.set_other _ _ hn] at hl ⊢
        exact hI.c_none n hl
    · exact hI.r_path

theorem inv_removeCluster {o : Oracle} {s : State} (hI : Inv o s) (name : String) : Inv o (removeCluster s name) := by
  unfold removeCluster
  split
  · exact hI
  · simp only [gen_remove, if_true]
    constructor
    · exact hI.r_some
    · exact hI.r_none
    · intro n lc hl
      by_cases hn : n = name
      · subst hn; simp at hl
      · simp only [FMap.del_other _ hn] at hl ⊢
        exact hI.c_some n lc hl
    · intro n hl
      by_cases hn : n = name
      · subst hn; simp
      · simp only [FMap.del_other _ hn] at hl ⊢
        exact hI.c_none n hl
    · exact hI.r_path

theorem inv_foldl_removeCluster {o : Oracle} (names : List String) {s : State} (hI : Inv o s) :
    Inv o (names.foldl removeCluster s) := by
  induction names generalizing s with
  | nil => exact hI
  | cons n r ih => exact ih (inv_removeCluster hI n)

theorem replaceHosts_nodup (hs old : List Host) : ((replaceHosts hs old).map (·.addr)).Nodup := dedup_nodup _
theorem appendHosts_nodup (hs old : List Host) : ((appendHosts hs old).map (·.addr)).Nodup := dedup_nodup _
theorem removeHosts_nodup (addrs : List String) (old : List Host) : ((removeHosts addrs old).map (·.addr)).Nodup := dedup_nodup _

theorem inv_xdsAssign {o : Oracle} {s : State} (hI : Inv o s) (cname : String) (locs : List (List XHost)) :
    Inv o (xdsAssign s cname locs).1 := by
  unfold xdsAssign
  split
  · exact inv_updateHosts hI _ _ (replaceHosts_nodup _)
  · simp only [gen_inside, gen_after, Nat.lt_irrefl, if_false, Nat.zero_lt_one, if_true]
    exact inv_updateHosts hI _ _ (replaceHosts_nodup _)

theorem inv_foldl_xds {o : Oracle} (as : List (String × List (List XHost))) {acc : State × Bool} (hI : Inv o acc.1) :
    Inv o (as.foldl (fun (acc : State × Bool) a =>
      let r := xdsAssign acc.1 a.1 a.2
      (r.1, acc.2 && r.2)) acc).1 := by
  induction as generalizing acc with
  | nil => exact hI
  | cons a r ih => exact ih (inv_xdsAssign hI a.1 a.2)

/-! ## listeners -/

theorem effName_eff (lc : ListenerCfg) : effName { lc with name := effName lc } = effName lc := by
  unfold effName
  by_cases h : lc.name.isEmpty
  · simp [h]
  · simp [h]

/-- the listener invariant: every live listener serves exactly what its stored config describes. -/
structure LInv (s : State) : Prop where
  l_some : ∀ n al, s.listeners n = some al →
    s.lstore n = some al.cfg ∧ al.cfg.name = n ∧ effName al.cfg = n ∧ al.cfg.chains = 1 ∧ al.cfg.tlsOk = true ∧
    al.sf = al.cfg.sf ∧ al.nf = al.cfg.nf ∧ al.idle = al.cfg.idle
  l_none : ∀ n, s.listeners n = none → s.lstore n = none

theorem linv_init : LInv init := by
  constructor <;> intros <;> simp_all [init, FMap.empty]

theorem linv_congr {s s' : State} (h1 : s'.listeners = s.listeners) (h2 : s'.lstore = s.lstore) (hL : LInv s) : LInv s' := by
  constructor
  · intro n al h; rw [h1] at h; rw [h2]; exact hL.l_some n al h
  · intro n h; rw [h1] at h; rw [h2]; exact hL.l_none n h

theorem inv_congr {o : Oracle} {s s' : State} (h1 : s'.wrappers = s.wrappers) (h2 : s'.rstore = s.rstore)
    (h3 : s'.clusters = s.clusters) (h4 : s'.cstore = s.cstore) (h5 : s'.rpath = s.rpath) (hI : Inv o s) : Inv o s' := by
  constructor
  · intro n w h; rw [h1] at h; rw [h2]; exact hI.r_some n w h
  · intro n h; rw [h1] at h; rw [h2]; exact hI.r_none n h
  · intro n lc h; rw [h3] at h; rw [h4]; exact hI.c_some n lc h
  · intro n h; rw [h3] at h; rw [h4]; exact hI.c_none n h
  · intro n w h; rw [h1] at h; rw [h5]; exact hI.r_path n w h

/-- what `AddOrUpdateListener` does, case by case (with the regenerated facts plugged in). -/
theorem addOrUpdateListener_cases (s : State) (lc0 : ListenerCfg) :
    (lc0.chains ≠ 1 ∧ addOrUpdateListener s lc0 = (s, false)) ∨
    (∃ al, lc0.chains = 1 ∧ s.listeners (effName lc0) = some al ∧ (al.cfg.addr ≠ lc0.addr ∨ lc0.tlsOk = false) ∧
      addOrUpdateListener s lc0 = (s, false)) ∨
    (∃ al, lc0.chains = 1 ∧ s.listeners (effName lc0) = some al ∧ al.cfg.addr = lc0.addr ∧ lc0.tlsOk = true ∧
      addOrUpdateListener s lc0 =
        ({ s with listeners := s.listeners.set (effName lc0)
                    ⟨{ al.cfg with sf := lc0.sf, nf := lc0.nf, tlsOk := lc0.tlsOk, idle := lc0.idle }, lc0.sf, lc0.nf, lc0.idle⟩,
                  lstore := s.lstore.set al.cfg.name { al.cfg with sf := lc0.sf, nf := lc0.nf, tlsOk := lc0.tlsOk, idle := lc0.idle } }, true)) ∨
    (lc0.chains = 1 ∧ s.listeners (effName lc0) = none ∧ lc0.tlsOk = false ∧ addOrUpdateListener s lc0 = (s, false)) ∨
    (lc0.chains = 1 ∧ s.listeners (effName lc0) = none ∧ lc0.tlsOk = true ∧
      addOrUpdateListener s lc0 =
        ({ s with listeners := s.listeners.set (effName lc0) ⟨{ lc0 with name := effName lc0 }, lc0.sf, lc0.nf, lc0.idle⟩,
                  lstore := s.lstore.set (effName lc0) { lc0 with name := effName lc0 } }, true)) := by
  by_cases hc : lc0.chains = 1
  · right
    cases hl : s.listeners (effName lc0) with
    | some al =>
      by_cases hbad : al.cfg.addr ≠ lc0.addr ∨ lc0.tlsOk = false
      · left
        refine ⟨al, hc, rfl, hbad, ?_⟩
        simp only [addOrUpdateListener, hc, hl, gen_late, ne_eq, not_true_eq_false, if_false, if_true]
        have : (decide (¬ al.cfg.addr = lc0.addr) || !lc0.tlsOk) = true := by
          rcases hbad with h | h
          · simp [h]
          · simp [h]
        simp only [this, if_true]
      · right; left
        have h1 : al.cfg.addr = lc0.addr := by
          by_cases e : al.cfg.addr = lc0.addr
          · exact e
          · exact absurd (Or.inl e) hbad
        have h2 : lc0.tlsOk = true := by
          cases e : lc0.tlsOk
          · exact absurd (Or.inr e) hbad
          · rfl
        refine ⟨al, hc, rfl, h1, h2, ?_⟩
        simp [addOrUpdateListener, hc, hl, h1, h2, gen_idleCfg, gen_idleLive, recordListener, gen_lrec]
    | none =>
      right; right
      cases ht : lc0.tlsOk with
      | false => left; exact ⟨hc, rfl, rfl, by simp [addOrUpdateListener, hc, hl, ht]⟩
      | true => right; exact ⟨hc, rfl, rfl, by simp [addOrUpdateListener, hc, hl, ht, recordListener, gen_lrec]⟩
  · left
    exact ⟨hc, by simp [addOrUpdateListener, hc]⟩

theorem linv_addOrUpdateListener {s : State} (hL : LInv s) (lc0 : ListenerCfg) : LInv (addOrUpdateListener s lc0).1 := by
  rcases addOrUpdateListener_cases s lc0 with ⟨_, h⟩ | ⟨al, _, _, _, h⟩ | ⟨al, hc, hl, ha, ht, h⟩ | ⟨_, _, _, h⟩ | ⟨hc, hl, ht, h⟩
  · rw [h]; exact hL
  · rw [h]; exact hL
  · rw [h]
    obtain ⟨h1, h2, h3, h4, h5, h6, h7, h8⟩ := hL.l_some _ al hl
    dsimp only
    constructor
    · intro n al' hn
      by_cases e : n = effName lc0
      · subst e
        simp only [FMap.set_same, Option.some.injEq] at hn
        subst hn
        refine ⟨by simp [h2], h2, ?_, h4, ht, rfl, rfl, rfl⟩
        simpa [effName, h2] using h3
      · simp only [FMap.set_other _ _ e] at hn
        simp only [h2, FMap.set_other _ _ e]
        exact hL.l_some n al' hn
    · intro n hn
      by_cases e : n = effName lc0
      · subst e; simp at hn
      · simp only [FMap.set_other _ _ e] at hn
        simp only [h2, FMap.set_other _ _ e]
        exact hL.l_none n hn
  · rw [h]; exact hL
  · rw [h]
    dsimp only
    constructor
    · intro n al' hn
      by_cases e : n = effName lc0
      · subst e
        simp only [FMap.set_same, Option.some.injEq] at hn
        subst hn
        exact ⟨by simp, rfl, effName_eff lc0, hc, ht, rfl, rfl, rfl⟩
      · simp only [FMap.set_other _ _ e] at hn
        simp only [FMap.set_other _ _ e]
        exact hL.l_some n al' hn
    · intro n hn
      by_cases e : n = effName lc0
      · subst e; simp at hn
      · simp only [FMap.set_other _ _ e] at hn
        simp only [FMap.set_other _ _ e]
        exact hL.l_none n hn

theorem addOrUpdateListener_others (s : State) (lc0 : ListenerCfg) :
    (addOrUpdateListener s lc0).1.wrappers = s.wrappers ∧ (addOrUpdateListener s lc0).1.rstore = s.rstore ∧
    (addOrUpdateListener s lc0).1.clusters = s.clusters ∧ (addOrUpdateListener s lc0).1.cstore = s.cstore ∧
    (addOrUpdateListener s lc0).1.rpath = s.rpath := by
  rcases addOrUpdateListener_cases s lc0 with ⟨_, h⟩ | ⟨al, _, _, _, h⟩ | ⟨al, _, _, _, _, h⟩ | ⟨_, _, _, h⟩ | ⟨_, _, _, h⟩ <;>
    rw [h] <;> exact ⟨rfl, rfl, rfl, rfl, rfl⟩

theorem deleteListener_eq (s : State) (name : String) :
    (s.listeners name = none ∧ deleteListener s name = (s, true)) ∨
    (∃ al, s.listeners name = some al ∧
      deleteListener s name = ({ s with listeners := s.listeners.del name, lstore := s.lstore.del name }, true)) := by
  cases h : s.listeners name with
  | none => left; exact ⟨rfl, by simp [deleteListener, h]⟩
  | some al => right; exact ⟨al, rfl, by simp [deleteListener, h, gen_lrem]⟩

theorem linv_deleteListener {s : State} (hL : LInv s) (name : String) : LInv (deleteListener s name).1 := by
  rcases deleteListener_eq s name with ⟨_, h⟩ | ⟨al, _, h⟩
  · rw [h]; exact hL
  · rw [h]
    dsimp only
    constructor
    · intro n al' hn
      by_cases e : n = name
      · subst e; simp at hn
      · simp only [FMap.del_other _ e] at hn ⊢
        exact hL.l_some n al' hn
    · intro n hn
      by_cases e : n = name
      · subst e; simp
      · simp only [FMap.del_other _ e] at hn ⊢
        exact hL.l_none n hn

theorem deleteListener_others (s : State) (name : String) :
    (deleteListener s name).1.wrappers = s.wrappers ∧ (deleteListener s name).1.rstore = s.rstore ∧
    (deleteListener s name).1.clusters = s.clusters ∧ (deleteListener s name).1.cstore = s.cstore ∧
    (deleteListener s name).1.rpath = s.rpath := by
  rcases deleteListener_eq s name with ⟨_, h⟩ | ⟨al, _, h⟩ <;> rw [h] <;> exact ⟨rfl, rfl, rfl, rfl, rfl⟩

/-- every operation preserves the invariant (successful, failed, repeated or no-op alike). -/
theorem inv_step {o : Oracle} {s : State} (hI : Inv o s) (op : Op) : Inv o (step o s op).1 := by
  cases op with
  | routersNil => exact hI
  | addOrUpdateRouters cfg =>
    simp only [step]
    split
    · split
      · exact hI
      · rename_i t ht
        rw [gen_recordsAddOrUpdate]
        exact inv_setRouter hI cfg (some t) ht.symm
    · rw [gen_recordsAddOrUpdate]
      exact inv_setRouter hI cfg _ rfl
  | addRoute rname domain r =>
    simp only [step]
    split
    · exact hI
    · rename_i w hw
      obtain ⟨hname, _, hb⟩ := hI.r_some rname w hw
      split
      · exact hI
      · rename_i t ht
        split
        · exact hI
        · rename_i i t' ha
          rw [gen_addRoute]
          rw [ht] at hb
          have hb' := build_addRoute hb.symm ha
          have := inv_setRouter hI
            { w.cfg with vhosts := modifyAt (fun vh => { vh with routes := vh.routes ++ [r] }) w.cfg.vhosts i } (some t') hb'.symm
          simpa only [hname] using this
  | removeAllRoutes rname domain =>
    simp only [step]
    split
    · exact hI
    · rename_i w hw
      obtain ⟨hname, _, hb⟩ := hI.r_some rname w hw
      split
      · exact hI
      · rename_i t ht
        split
        · exact hI
        · rename_i i t' ha
          rw [gen_removeAll]
          rw [ht] at hb
          have hb' := build_removeAll hb.symm ha
          have := inv_setRouter hI
            { w.cfg with vhosts := modifyAt (fun vh => { vh with routes := [] }) w.cfg.vhosts i } (some t') hb'.symm
          simpa only [hname] using this
  | addOrUpdateCluster name tag cfgHosts =>
    simp only [step]
    apply inv_updateCluster hI
    cases hc : s.clusters name with
    | none => simp [inheritHosts]
    | some oc => simpa [inheritHosts] using (hI.c_some name oc hc).2
  | addOrUpdateClusterAndHost name tag cfgHosts hosts =>
    simp only [step]
    exact inv_updateCluster hI _ _ _ _ (replaceHosts_nodup _ _)
  | addClusterNil name => exact hI
  | updateHosts name hosts => exact inv_updateHosts hI _ _ (replaceHosts_nodup _)
  | appendHosts name hosts => exact inv_updateHosts hI _ _ (appendHosts_nodup _)
  | removeHosts name addrs => exact inv_updateHosts hI _ _ (removeHosts_nodup _)
  | removeClusters names =>
    simp only [step]
    split
    · exact inv_foldl_removeCluster names hI
    · exact hI
  | xdsEndpoints assignments =>
    simp only [step]
    exact inv_foldl_xds assignments hI
  | addOrUpdateListener lc =>
    obtain ⟨h1, h2, h3, h4, h5⟩ := addOrUpdateListener_others s lc
    exact inv_congr h1 h2 h3 h4 h5 hI
  | deleteListener n =>
    obtain ⟨h1, h2, h3, h4, h5⟩ := deleteListener_others s n
    exact inv_congr h1 h2 h3 h4 h5 hI

theorem inv_runFrom {o : Oracle} (ops : List Op) {s : State} (hI : Inv o s) : Inv o (runFrom o s ops) := by
  induction ops generalizing s with
  | nil => exact hI
  | cons op r ih => exact ih (inv_step hI op)

theorem inv_run (o : Oracle) (ops : List Op) : Inv o (run o ops) := inv_runFrom ops (inv_init o)

theorem run_append (o : Oracle) (ops : List Op) (op : Op) : run o (ops ++ [op]) = (step o (run o ops) op).1 := by
  simp [run, List.foldl_append]

/-! ## what single operations do to the cluster side -/

@[simp] theorem refreshHosts_clusters (b : Bool) (s : State) (n : String) (h : List Host) :
    (refreshHosts b s n h).clusters = s.clusters := by
  unfold refreshHosts
  split
  · split <;> rfl
  · rfl

@[simp] theorem refreshHosts_wrappers (b : Bool) (s : State) (n : String) (h : List Host) :
    (refreshHosts b s n h).wrappers = s.wrappers := by
  unfold refreshHosts
  split
  · split <;> rfl
  · rfl

@[simp] theorem refreshHosts_rstore (b : Bool) (s : State) (n : String) (h : List Host) :
    (refreshHosts b s n h).rstore = s.rstore := by
  unfold refreshHosts
  split
  · split <;> rfl
  · rfl

theorem updateHosts_none {s : State} {c : String} (f : List Host → List Host) (h : s.clusters c = none) :
    updateHosts s c f = (s, false) := by
  simp [updateHosts, h]

theorem updateHosts_some {s : State} {c : String} {lc : LiveCluster} (f : List Host → List Host) (h : s.clusters c = some lc) :
    (updateHosts s c f).2 = true ∧ (updateHosts s c f).1.clusters c = some ⟨lc.tag, f lc.hosts⟩ ∧
    ∀ n, n ≠ c → (updateHosts s c f).1.clusters n = s.clusters n := by
  simp only [updateHosts, h, refreshHosts_clusters, FMap.set_same, true_and]
  intro n hn
  exact FMap.set_other _ _ hn

theorem updateHosts_ok {s : State} {c : String} {f : List Host → List Host} (h : (updateHosts s c f).2 = true) :
    ∃ lc, s.clusters c = some lc := by
  cases hc : s.clusters c with
  | none => rw [updateHosts_none f hc] at h; cases h
  | some lc => exact ⟨lc, rfl⟩

theorem updateHosts_failed {s : State} {c : String} {f : List Host → List Host} (h : (updateHosts s c f).2 = false) :
    (updateHosts s c f).1 = s := by
  cases hc : s.clusters c with
  | none => rw [updateHosts_none f hc]
  | some lc => rw [(updateHosts_some f hc).1] at h; cases h

theorem updateCluster_clusters (s : State) (name : String) (tag : Nat) (cfgHosts : List Host)
    (handler : Option LiveCluster → List Host) :
    (updateCluster s name tag cfgHosts handler).2 = true ∧
    (updateCluster s name tag cfgHosts handler).1.clusters name = some ⟨tag, handler (s.clusters name)⟩ := by
  simp [updateCluster]

/-- `ConvertUpdateEndpoints` on one assignment, with the regenerated shape: ONE replacement by the concatenation of all
localities (the empty assignment included). -/
theorem xdsAssign_eq (s : State) (c : String) (locs : List (List XHost)) :
    xdsAssign s c locs = updateHosts s c (replaceHosts ((locs.map (·.map convHost)).flatten)) := by
  unfold xdsAssign
  split
  · rename_i h
    have : locs = [] := by simpa using h
    subst this; rfl
  · simp only [gen_inside, gen_after, gen_acc, Nat.lt_irrefl, if_false, Nat.zero_lt_one, if_true, Bool.true_and]

theorem removeCluster_none {s : State} {n : String} (m : String) (h : s.clusters n = none) :
    (removeCluster s m).clusters n = none := by
  unfold removeCluster
  split
  · exact h
  · by_cases e : n = m
    · subst e; simp
    · simp only [FMap.del_other _ e]; exact h

theorem removeCluster_self (s : State) (n : String) : (removeCluster s n).clusters n = none := by
  unfold removeCluster
  split
  · assumption
  · simp

theorem foldl_removeCluster_none (names : List String) {s : State} {n : String} (h : s.clusters n = none) :
    (names.foldl removeCluster s).clusters n = none := by
  induction names generalizing s with
  | nil => exact h
  | cons m r ih => exact ih (removeCluster_none m h)

theorem foldl_removeCluster_gone (names : List String) (s : State) {n : String} (hn : n ∈ names) :
    (names.foldl removeCluster s).clusters n = none := by
  induction names generalizing s with
  | nil => cases hn
  | cons m r ih =>
    simp only [List.mem_cons] at hn
    simp only [List.foldl_cons]
    rcases hn with rfl | hn
    · exact foldl_removeCluster_none r (removeCluster_self s n)
    · exact ih _ hn

/-! ## the declarative address-set predicate on `NewHostSet` outputs -/

theorem filter_beq_length_one {l : List String} (hnd : l.Nodup) {a : String} (ha : a ∈ l) :
    (l.filter (· == a)).length = 1 := by
  induction l with
  | nil => cases ha
  | cons x t ih =>
    rw [List.nodup_cons] at hnd
    simp only [List.mem_cons] at ha
    by_cases hx : x = a
    · subst hx
      have : t.filter (· == x) = [] := by
        rw [List.filter_eq_nil_iff]
        intro y hy
        simp only [beq_iff_eq]
        intro e; subst e; exact hnd.1 hy
      simp [List.filter_cons, this]
    · have hx' : (x == a) = false := by simpa using hx
      rcases ha with rfl | ha
      · exact absurd rfl hx
      · simp only [List.filter_cons, hx', Bool.false_eq_true, if_false]
        exact ih hnd.2 ha

theorem isAddrSet_dedup (l : List Host) : Spec.isAddrSet (dedup l) (Spec.addrs l) = true := by
  unfold Spec.isAddrSet Spec.addrs
  simp only [Bool.and_eq_true, List.all_eq_true, List.contains_iff_mem, beq_iff_eq]
  refine ⟨⟨?_, ?_⟩, ?_⟩
  · intro a ha
    obtain ⟨h, hm, rfl⟩ := List.mem_map.mp ha
    exact List.mem_map_of_mem (mem_dedup hm)
  · intro a ha
    exact addr_mem_dedup ha
  · intro a ha
    exact filter_beq_length_one (dedup_nodup l) ha

theorem convHost_addrs (locs : List (List XHost)) :
    Spec.addrs ((locs.map (·.map convHost)).flatten) = locs.flatten.map (·.addr) := by
  unfold Spec.addrs
  induction locs with
  | nil => rfl
  | cons x r ih =>
    simp only [List.map_cons, List.flatten_cons, List.map_append, ih, List.map_map]
    congr 1

theorem zip_map_lookup {α} (f : String → α) (names : List String) {n : String} (hn : n ∈ names) :
    (names.zip (names.map f)).lookup n = some (f n) := by
  induction names with
  | nil => cases hn
  | cons m r ih =>
    simp only [List.map_cons, List.zip_cons_cons, List.lookup_cons]
    by_cases e : n = m
    · subst e; simp
    · have : (n == m) = false := by simpa using e
      simp only [this]
      simp only [List.mem_cons] at hn
      rcases hn with rfl | hn
      · exact absurd rfl e
      · exact ih hn

/-! router / cluster operations do not touch the listener side -/

theorem recordRouter_listeners (b : Bool) (s : State) (cfg : RouterCfg) :
    (recordRouter b s cfg).listeners = s.listeners ∧ (recordRouter b s cfg).lstore = s.lstore := by
  unfold recordRouter; split <;> exact ⟨rfl, rfl⟩

theorem refreshHosts_listeners (b : Bool) (s : State) (n : String) (h : List Host) :
    (refreshHosts b s n h).listeners = s.listeners ∧ (refreshHosts b s n h).lstore = s.lstore := by
  unfold refreshHosts
  split
  · split <;> exact ⟨rfl, rfl⟩
  · exact ⟨rfl, rfl⟩

theorem updateHosts_listeners (s : State) (c : String) (f : List Host → List Host) :
    (updateHosts s c f).1.listeners = s.listeners ∧ (updateHosts s c f).1.lstore = s.lstore := by
  unfold updateHosts
  split
  · exact ⟨rfl, rfl⟩
  · exact refreshHosts_listeners _ _ _ _

theorem updateCluster_listeners (s : State) (name : String) (tag : Nat) (cfgHosts : List Host)
    (handler : Option LiveCluster → List Host) :
    (updateCluster s name tag cfgHosts handler).1.listeners = s.listeners ∧
    (updateCluster s name tag cfgHosts handler).1.lstore = s.lstore := by
  unfold updateCluster
  refine ⟨((refreshHosts_listeners _ _ _ _).1).trans ?_, ((refreshHosts_listeners _ _ _ _).2).trans ?_⟩
  · split <;> rfl
  · split <;> rfl

theorem removeCluster_listeners (s : State) (name : String) :
    (removeCluster s name).listeners = s.listeners ∧ (removeCluster s name).lstore = s.lstore := by
  unfold removeCluster; split <;> exact ⟨rfl, rfl⟩

theorem foldl_removeCluster_listeners (names : List String) (s : State) :
    (names.foldl removeCluster s).listeners = s.listeners ∧ (names.foldl removeCluster s).lstore = s.lstore := by
  induction names generalizing s with
  | nil => exact ⟨rfl, rfl⟩
  | cons n r ih =>
    simp only [List.foldl_cons]
    rw [(ih _).1, (ih _).2]
    exact removeCluster_listeners s n

theorem foldl_xds_listeners (as : List (String × List (List XHost))) (acc : State × Bool) :
    (as.foldl (fun (acc : State × Bool) a =>
      let r := xdsAssign acc.1 a.1 a.2
      (r.1, acc.2 && r.2)) acc).1.listeners = acc.1.listeners ∧
    (as.foldl (fun (acc : State × Bool) a =>
      let r := xdsAssign acc.1 a.1 a.2
      (r.1, acc.2 && r.2)) acc).1.lstore = acc.1.lstore := by
  induction as generalizing acc with
  | nil => exact ⟨rfl, rfl⟩
  | cons a r ih =>
    simp only [List.foldl_cons]
    rw [(ih _).1, (ih _).2]
    simp only [xdsAssign_eq]
    exact updateHosts_listeners _ _ _

/-- the operation is one of the two listener operations -/
def isListenerOp : Op → Bool
  | .addOrUpdateListener _ => true
  | .deleteListener _ => true
  | _ => false

theorem step_listeners (o : Oracle) (s : State) (op : Op) (h : isListenerOp op = false) :
    (step o s op).1.listeners = s.listeners ∧ (step o s op).1.lstore = s.lstore := by
  cases op with
  | routersNil => exact ⟨rfl, rfl⟩
  | addOrUpdateRouters cfg =>
    simp only [step]
    split
    · split
      · exact ⟨rfl, rfl⟩
      · exact recordRouter_listeners _ _ _
    · exact recordRouter_listeners _ _ _
  | addRoute rname domain r =>
    simp only [step]
    split
    · exact ⟨rfl, rfl⟩
    · split
      · exact ⟨rfl, rfl⟩
      · split
        · exact ⟨rfl, rfl⟩
        · exact recordRouter_listeners _ _ _
  | removeAllRoutes rname domain =>
    simp only [step]
    split
    · exact ⟨rfl, rfl⟩
    · split
      · exact ⟨rfl, rfl⟩
      · split
        · exact ⟨rfl, rfl⟩
        · exact recordRouter_listeners _ _ _
  | addOrUpdateCluster m tag cfgHosts => exact updateCluster_listeners _ _ _ _ _
  | addOrUpdateClusterAndHost m tag cfgHosts hosts => exact updateCluster_listeners _ _ _ _ _
  | addClusterNil m => exact ⟨rfl, rfl⟩
  | updateHosts c hs => exact updateHosts_listeners _ _ _
  | appendHosts c hs => exact updateHosts_listeners _ _ _
  | removeHosts c as => exact updateHosts_listeners _ _ _
  | removeClusters names =>
    simp only [step]
    split
    · exact foldl_removeCluster_listeners names s
    · exact ⟨rfl, rfl⟩
  | xdsEndpoints as =>
    simp only [step]
    exact foldl_xds_listeners as (s, true)
  | addOrUpdateListener lc => simp [isListenerOp] at h
  | deleteListener n => simp [isListenerOp] at h

theorem linv_step (o : Oracle) {s : State} (hL : LInv s) (op : Op) : LInv (step o s op).1 := by
  cases hop : isListenerOp op with
  | false => exact linv_congr (step_listeners o s op hop).1 (step_listeners o s op hop).2 hL
  | true =>
    cases op with
    | addOrUpdateListener lc => exact linv_addOrUpdateListener hL lc
    | deleteListener n => exact linv_deleteListener hL n
    | _ => simp [isListenerOp] at hop

theorem linv_runFrom (o : Oracle) (ops : List Op) {s : State} (hL : LInv s) : LInv (runFrom o s ops) := by
  induction ops generalizing s with
  | nil => exact hL
  | cons op r ih => exact ih (linv_step o hL op)

theorem linv_run (o : Oracle) (ops : List Op) : LInv (run o ops) := linv_runFrom o ops linv_init

/-! ## absent clusters stay absent -/

@[simp] theorem recordRouter_clusters (b : Bool) (s : State) (cfg : RouterCfg) : (recordRouter b s cfg).clusters = s.clusters := by
  unfold recordRouter; split <;> rfl

theorem updateHosts_keeps_absent {s : State} {n : String} (c : String) (f : List Host → List Host)
    (h : s.clusters n = none) : (updateHosts s c f).1.clusters n = none := by
  cases hc : s.clusters c with
  | none => rw [updateHosts_none f hc]; exact h
  | some lc =>
    obtain ⟨_, h2, h3⟩ := updateHosts_some f hc
    by_cases e : n = c
    · subst e; rw [h] at hc; cases hc
    · rw [h3 n e]; exact h

theorem foldl_xds_keeps_absent (as : List (String × List (List XHost))) {acc : State × Bool} {n : String}
    (h : acc.1.clusters n = none) :
    (as.foldl (fun (acc : State × Bool) a =>
      let r := xdsAssign acc.1 a.1 a.2
      (r.1, acc.2 && r.2)) acc).1.clusters n = none := by
  induction as generalizing acc with
  | nil => exact h
  | cons a r ih =>
    apply ih
    simp only [xdsAssign_eq]
    exact updateHosts_keeps_absent _ _ h

theorem step_keeps_absent (o : Oracle) {s : State} {n : String} (op : Op) (h : s.clusters n = none)
    (hno : addsCluster n op = false) : (step o s op).1.clusters n = none := by
  cases op with
  | routersNil => exact h
  | addOrUpdateRouters cfg =>
    simp only [step]
    split
    · split
      · exact h
      · simpa using h
    · simpa using h
  | addRoute rname domain r =>
    simp only [step]
    split
    · exact h
    · split
      · exact h
      · split
        · exact h
        · simpa using h
  | removeAllRoutes rname domain =>
    simp only [step]
    split
    · exact h
    · split
      · exact h
      · split
        · exact h
        · simpa using h
  | addOrUpdateCluster m tag cfgHosts =>
    have e : n ≠ m := by
      intro e; subst e; simp [addsCluster] at hno
    simp only [step, updateCluster, refreshHosts_clusters]
    rw [FMap.set_other _ _ e]
    split <;> exact h
  | addOrUpdateClusterAndHost m tag cfgHosts hosts =>
    have e : n ≠ m := by
      intro e; subst e; simp [addsCluster] at hno
    simp only [step, updateCluster, refreshHosts_clusters]
    rw [FMap.set_other _ _ e]
    split <;> exact h
  | addClusterNil m => exact h
  | updateHosts c hs => exact updateHosts_keeps_absent _ _ h
  | appendHosts c hs => exact updateHosts_keeps_absent _ _ h
  | removeHosts c as => exact updateHosts_keeps_absent _ _ h
  | removeClusters names =>
    simp only [step]
    split
    · exact foldl_removeCluster_none names h
    · exact h
  | xdsEndpoints as =>
    simp only [step]
    exact foldl_xds_keeps_absent as h
  | addOrUpdateListener lc => simp only [step]; rw [(addOrUpdateListener_others s lc).2.2.1]; exact h
  | deleteListener m => simp only [step]; rw [(deleteListener_others s m).2.2.1]; exact h

theorem runFrom_keeps_absent (o : Oracle) (ops : List Op) {s : State} {n : String} (h : s.clusters n = none)
    (hno : ∀ op ∈ ops, addsCluster n op = false) : (runFrom o s ops).clusters n = none := by
  induction ops generalizing s with
  | nil => exact h
  | cons op r ih =>
    simp only [runFrom, List.foldl_cons]
    exact ih (step_keeps_absent o op h (hno op (by simp))) (fun op' hm => hno op' (by simp [hm]))

/-! ## failed operations change nothing -/

theorem step_failed_unchanged (o : Oracle) (s : State) (op : Op) (hs : single op = true)
    (h : (step o s op).2 = false) : (step o s op).1 = s := by
  cases op with
  | routersNil => rfl
  | addOrUpdateRouters cfg =>
    simp only [step] at h ⊢
    cases hw : s.wrappers cfg.name with
    | none => simp [hw] at h
    | some w =>
      cases hb : build o cfg with
      | none => simp [hw, hb]
      | some t => simp [hw, hb] at h
  | addRoute rname domain r =>
    simp only [step] at h ⊢
    cases hw : s.wrappers rname with
    | none => simp [hw] at h
    | some w =>
      cases ht : w.routers with
      | none => simp [hw, ht]
      | some t =>
        cases ha : t.addRoute o domain r with
        | none => simp [hw, ht, ha]
        | some p => simp [hw, ht, ha] at h
  | removeAllRoutes rname domain =>
    simp only [step] at h ⊢
    cases hw : s.wrappers rname with
    | none => simp [hw] at h
    | some w =>
      cases ht : w.routers with
      | none => simp [hw, ht]
      | some t =>
        cases ha : t.removeAll o domain with
        | none => simp [hw, ht, ha]
        | some p => simp [hw, ht, ha] at h
  | addOrUpdateCluster m tag cfgHosts => simp [step, updateCluster] at h
  | addOrUpdateClusterAndHost m tag cfgHosts hosts => simp [step, updateCluster] at h
  | addClusterNil m => rfl
  | updateHosts c hs' => exact updateHosts_failed h
  | appendHosts c hs' => exact updateHosts_failed h
  | removeHosts c as => exact updateHosts_failed h
  | removeClusters names =>
    simp only [step] at h ⊢
    split at h
    · cases h
    · rename_i h1; simp [h1]
  | xdsEndpoints as =>
    match as, hs with
    | [], _ => simp [step] at h
    | [a], _ =>
      simp only [step, List.foldl_cons, List.foldl_nil, Bool.true_and, xdsAssign_eq] at h ⊢
      exact updateHosts_failed h
    | _ :: _ :: _, hs => simp [single] at hs
  | addOrUpdateListener lc =>
    simp only [step] at h ⊢
    rcases addOrUpdateListener_cases s lc with ⟨_, e⟩ | ⟨al, _, _, _, e⟩ | ⟨al, _, _, _, _, e⟩ | ⟨_, _, _, e⟩ | ⟨_, _, _, e⟩
    · rw [e]
    · rw [e]
    · rw [e] at h; cases h
    · rw [e]
    · rw [e] at h; cases h
  | deleteListener m =>
    simp only [step] at h
    rcases deleteListener_eq s m with ⟨_, e⟩ | ⟨al, _, e⟩ <;> rw [e] at h <;> cases h

/-! ## the executable predicate on model observations -/

theorem clampHost_eq_eff (h : Host) : clampHost h = { h with weight := Spec.effWeight h.weight } := by
  unfold clampHost Spec.effWeight Gen.Updates.transHostWeight Gen.Updates.maxHostWeight Gen.Updates.minHostWeight
  congr 1
  by_cases h1 : h.weight < 1
  · have : h.weight = 0 := by omega
    simp [this]
  · by_cases h2 : h.weight > 128
    · have e1 : ((h.weight : Int) > 128) := by omega
      simp [h1, h2, e1]
    · have e1 : ¬ ((h.weight : Int) > 128) := by omega
      have e2 : ¬ ((h.weight : Int) < 1) := by omega
      simp [h1, h2, e1, e2]

theorem normalize_eq_eff (lc : LiveCluster) : normalize lc = Spec.effCluster lc := by
  unfold normalize Spec.effCluster
  congr 1
  apply List.map_congr_left
  intro h _
  exact clampHost_eq_eff h

theorem listeners_coherent {s : State} (hL : LInv s) (n : String) : s.listeners n = rebuildListeners (dump s) n := by
  simp only [rebuildListeners, dump]
  cases hl : s.listeners n with
  | none => simp [hL.l_none n hl]
  | some al =>
    obtain ⟨h1, h2, h3, h4, h5, h6, h7, h8⟩ := hL.l_some n al hl
    obtain ⟨cfg, sf, nf, idle⟩ := al
    simp only at h1 h2 h3 h4 h5 h6 h7 h8
    subst h6 h7 h8
    simp only [h1, Option.bind_some, buildListener, h4, h5, ne_eq, not_true_eq_false, if_false, Bool.not_true,
      Bool.false_eq_true, h3, Option.some.injEq, LiveListener.mk.injEq, and_true]
    obtain ⟨name, addr, chains, sf', nf', idle', keep, tlsOk⟩ := cfg
    simp only at h2 h4 h5
    subst h2 h4 h5
    rfl

theorem spec_coherent_on_model (o : Oracle) (ops : List Op) (rnames cnames lnames : List String) (res : List Bool) :
    Spec.coherent (observe o rnames cnames lnames res (run o ops)) = true := by
  have hR : liveRouters (run o ops) = rebuildRouters o (dump (run o ops)) := by
    funext n
    have hI := inv_run o ops
    simp only [liveRouters, rebuildRouters, dump, dumpRouter]
    cases hw : (run o ops).wrappers n with
    | none => simp [hI.r_none n hw]
    | some w =>
      obtain ⟨_, hs, hb⟩ := hI.r_some n w hw
      simp [hs, hb]
  have hC : ∀ n, ((run o ops).clusters n).map Spec.effCluster = rebuildClusters (dump (run o ops)) n := by
    intro n
    have hI := inv_run o ops
    simp only [rebuildClusters, dump]
    cases hc : (run o ops).clusters n with
    | none => simp [hI.c_none n hc]
    | some lc =>
      obtain ⟨hs, hnd⟩ := hI.c_some n lc hc
      simp only [hs, Option.map_some, ← normalize_eq_eff, normalize, buildCluster, Option.some.injEq, LiveCluster.mk.injEq, true_and]
      exact (dedup_id _ (by rw [map_clamp_addr]; exact hnd)).symm
  unfold Spec.coherent observe
  simp only [Bool.and_eq_true, beq_iff_eq, hR, List.map_map, true_and]
  constructor
  · apply List.map_congr_left
    intro n _
    exact hC n
  · apply List.map_congr_left
    intro n _
    exact listeners_coherent (linv_run o ops) n

theorem spec_lastOp_on_model (o : Oracle) (s : State) (hI : Inv o s) (hL : LInv s) (op : Op)
    (rnames cnames lnames : List String) (res : List Bool)
    (hcov : ∀ n ∈ clusterNames op, n ∈ cnames) (hcovL : ∀ n ∈ listenerNames op, n ∈ lnames) :
    Spec.lastOp op (step o s op).2
      (fun n => ((cnames.zip (observe o rnames cnames lnames res (step o s op).1).liveC).lookup n).join)
      (fun n => ((lnames.zip (observe o rnames cnames lnames res (step o s op).1).liveL).lookup n).join) = true := by
  have hlook : ∀ n ∈ clusterNames op,
      ((cnames.zip (observe o rnames cnames lnames res (step o s op).1).liveC).lookup n).join = (step o s op).1.clusters n := by
    intro n hn
    simp only [observe]
    rw [zip_map_lookup _ cnames (hcov n hn)]
    rfl
  have hlookL : ∀ n ∈ listenerNames op,
      ((lnames.zip (observe o rnames cnames lnames res (step o s op).1).liveL).lookup n).join = (step o s op).1.listeners n := by
    intro n hn
    simp only [observe]
    rw [zip_map_lookup _ lnames (hcovL n hn)]
    rfl
  unfold Spec.lastOp
  cases hok : (step o s op).2 with
  | false => rfl
  | true =>
    simp only [Bool.not_true, Bool.false_eq_true, if_false]
    cases op with
    | routersNil => rfl
    | addOrUpdateRouters cfg => rfl
    | addRoute rname domain r => rfl
    | removeAllRoutes rname domain => rfl
    | addClusterNil m => rfl
    | appendHosts c hs => rfl
    | addOrUpdateCluster c tag cfgHosts =>
      simp only [hlook c (by simp [clusterNames])]
      simp only [step, (updateCluster_clusters s c tag cfgHosts inheritHosts).2, beq_self_eq_true]
    | addOrUpdateClusterAndHost c tag cfgHosts hosts =>
      simp only [hlook c (by simp [clusterNames])]
      simp only [step, (updateCluster_clusters s c tag cfgHosts _).2, beq_self_eq_true, Bool.true_and, replaceHosts]
      exact isAddrSet_dedup hosts
    | updateHosts c hs =>
      simp only [hlook c (by simp [clusterNames])]
      obtain ⟨lc, hc⟩ := updateHosts_ok (f := replaceHosts hs) hok
      have := (updateHosts_some (replaceHosts hs) hc).2.1
      simp only [step, this, replaceHosts]
      exact isAddrSet_dedup hs
    | removeHosts c as =>
      simp only [hlook c (by simp [clusterNames])]
      obtain ⟨lc, hc⟩ := updateHosts_ok (f := removeHosts as) hok
      have := (updateHosts_some (removeHosts as) hc).2.1
      simp only [step, this]
      rw [removeHosts_eq as lc.hosts (hI.c_some c lc hc).2]
      simp only [Spec.addrs, List.all_eq_true, List.mem_map, Bool.not_eq_true', forall_exists_index, and_imp]
      intro a h hm e
      subst e
      have := (List.mem_filter.mp hm).2
      simpa using this
    | removeClusters names =>
      simp only [List.all_eq_true]
      intro n hn
      rw [hlook n (by simpa [clusterNames] using hn)]
      simp only [step] at hok ⊢
      split
      · simp [foldl_removeCluster_gone names s hn]
      · rename_i h; simp [h] at hok
    | xdsEndpoints as =>
      match as with
      | [] => rfl
      | _ :: _ :: _ => rfl
      | [(c, locs)] =>
        simp only [hlook c (by simp [clusterNames])]
        have hstep : step o s (.xdsEndpoints [(c, locs)]) =
            ((updateHosts s c (replaceHosts ((locs.map (·.map convHost)).flatten))).1,
             (updateHosts s c (replaceHosts ((locs.map (·.map convHost)).flatten))).2) := by
          simp [step, xdsAssign_eq]
        rw [hstep] at hok ⊢
        obtain ⟨lc, hc⟩ := updateHosts_ok hok
        have := (updateHosts_some (replaceHosts ((locs.map (·.map convHost)).flatten)) hc).2.1
        simp only [this, replaceHosts]
        rw [← convHost_addrs]
        exact isAddrSet_dedup _
    | deleteListener n =>
      simp only [hlookL n (by simp [listenerNames])]
      simp only [step]
      rcases deleteListener_eq s n with ⟨h0, e⟩ | ⟨al, _, e⟩
      · rw [e]; simp [h0]
      · rw [e]; simp
    | addOrUpdateListener lc =>
      have hn : (if lc.name.isEmpty then lc.addr else lc.name) = effName lc := rfl
      simp only [hn, hlookL (effName lc) (by simp [listenerNames])]
      simp only [step] at hok ⊢
      rcases addOrUpdateListener_cases s lc with ⟨_, e⟩ | ⟨al, _, _, _, e⟩ | ⟨al, _, hl, ha, _, e⟩ | ⟨_, _, _, e⟩ | ⟨_, _, _, e⟩
      · rw [e] at hok; cases hok
      · rw [e] at hok; cases hok
      · rw [e]; simp [ha]
      · rw [e] at hok; cases hok
      · rw [e]; simp

/-- router operations do not touch the cluster side -/
def isRouterOp : Op → Bool
  | .addOrUpdateRouters _ => true
  | .addRoute _ _ _ => true
  | .removeAllRoutes _ _ => true
  | _ => false

theorem step_clusters_router (o : Oracle) (s : State) (op : Op) (h : isRouterOp op = true) :
    (step o s op).1.clusters = s.clusters := by
  cases op with
  | addOrUpdateRouters cfg =>
    simp only [step]
    split
    · split
      · rfl
      · simp
    · simp
  | addRoute rname domain r =>
    simp only [step]
    split
    · rfl
    · split
      · rfl
      · split
        · rfl
        · simp
  | removeAllRoutes rname domain =>
    simp only [step]
    split
    · rfl
    · split
      · rfl
      · split
        · rfl
        · simp
  | _ => simp [isRouterOp] at h

/-! ## exact coherence when every supplied weight is inside the configured bounds -/

/-- a weight inside the regenerated bounds `[MinHostWeight, MaxHostWeight]` -/
def inRange (w : Nat) : Prop := Gen.Updates.minHostWeight ≤ (w : Int) ∧ (w : Int) ≤ Gen.Updates.maxHostWeight

def hostsOk (l : List Host) : Prop := ∀ h ∈ l, inRange h.weight

/-- the fresh-start clamp is the identity inside the bounds -/
theorem clampHost_id {h : Host} (hr : inRange h.weight) : clampHost h = h := by
  obtain ⟨h1, h2⟩ := hr
  unfold clampHost Gen.Updates.transHostWeight
  have e1 : ¬ ((h.weight : Int) > Gen.Updates.maxHostWeight) := by omega
  have e2 : ¬ ((h.weight : Int) < Gen.Updates.minHostWeight) := by omega
  simp [e1, e2]

/-- the xDS endpoint clamp lands inside the bounds the fresh-start clamp preserves (the two code sites agree) -/
theorem xds_inRange (w : Nat) : inRange (Gen.Updates.xdsEndpointWeight (w : Int)).toNat := by
  unfold inRange Gen.Updates.xdsEndpointWeight Gen.Updates.minHostWeight Gen.Updates.maxHostWeight
  by_cases h1 : (w : Int) < 1
  · simp [h1]
  · by_cases h2 : (w : Int) > 128
    · simp [h1, h2]
    · simp only [h1, h2, decide_false, Bool.false_eq_true, if_false]
      omega

theorem map_clamp_id {l : List Host} (h : hostsOk l) : l.map clampHost = l := by
  induction l with
  | nil => rfl
  | cons x t ih =>
    simp only [List.map_cons]
    rw [clampHost_id (h x (by simp)), ih (fun y hy => h y (by simp [hy]))]

theorem mem_removeSorted {l : List Host} {a : String} {h : Host} (hm : h ∈ removeSorted l a) : h ∈ l := by
  induction l with
  | nil => simp [removeSorted] at hm
  | cons x t ih =>
    unfold removeSorted at hm
    split at hm
    · split at hm
      · exact List.mem_cons_of_mem _ hm
      · exact hm
    · simp only [List.mem_cons] at hm ⊢
      rcases hm with rfl | hm
      · left; rfl
      · right; exact ih hm

theorem mem_foldl_removeSorted (addrs : List String) {l : List Host} {h : Host}
    (hm : h ∈ addrs.foldl removeSorted l) : h ∈ l := by
  induction addrs generalizing l with
  | nil => exact hm
  | cons a r ih => exact mem_removeSorted (ih hm)

theorem hostsOk_replace {hs : List Host} (h : hostsOk hs) (old : List Host) : hostsOk (replaceHosts hs old) :=
  fun x hx => h x (mem_dedup hx)

theorem hostsOk_append {hs old : List Host} (h : hostsOk hs) (ho : hostsOk old) : hostsOk (appendHosts hs old) := by
  intro x hx
  have := mem_dedup hx
  simp only [List.mem_append] at this
  rcases this with h1 | h1
  · exact h x h1
  · exact ho x h1

theorem hostsOk_remove (addrs : List String) {old : List Host} (ho : hostsOk old) : hostsOk (removeHosts addrs old) := by
  intro x hx
  rw [removeHosts_unfold] at hx
  have := mem_foldl_removeSorted addrs (mem_dedup hx)
  exact ho x ((sortByAddr_perm old).mem_iff.mp this)

/-- every live host weight is inside the bounds -/
def WInv (s : State) : Prop := ∀ n lc, s.clusters n = some lc → hostsOk lc.hosts

theorem winv_init : WInv init := by
  intro n lc h; simp [init, FMap.empty] at h

theorem winv_updateHosts {s : State} (hW : WInv s) (c : String) (f : List Host → List Host)
    (hf : ∀ old, hostsOk old → hostsOk (f old)) : WInv (updateHosts s c f).1 := by
  cases hc : s.clusters c with
  | none => rw [updateHosts_none f hc]; exact hW
  | some lc =>
    obtain ⟨_, h2, h3⟩ := updateHosts_some f hc
    intro n lc' hn
    by_cases e : n = c
    · subst e
      rw [h2] at hn
      cases hn
      exact hf _ (hW n lc hc)
    · rw [h3 n e] at hn
      exact hW n lc' hn

theorem winv_updateCluster {s : State} (hW : WInv s) (name : String) (tag : Nat) (cfgHosts : List Host)
    (handler : Option LiveCluster → List Host) (hh : hostsOk (handler (s.clusters name))) :
    WInv (updateCluster s name tag cfgHosts handler).1 := by
  intro n lc hn
  simp only [updateCluster, refreshHosts_clusters] at hn
  by_cases e : n = name
  · subst e
    have : (if Gen.Updates.updateCluster_recordsClusterConfig = true then
        { s with cstore := s.cstore.set n ⟨tag, cfgHosts⟩ } else s).clusters = s.clusters := by split <;> rfl
    simp only [FMap.set_same, Option.some.injEq] at hn
    subst hn
    exact hh
  · rw [FMap.set_other _ _ e] at hn
    have : (if Gen.Updates.updateCluster_recordsClusterConfig = true then
        { s with cstore := s.cstore.set name ⟨tag, cfgHosts⟩ } else s).clusters = s.clusters := by split <;> rfl
    rw [this] at hn
    exact hW n lc hn

theorem winv_removeCluster {s : State} (hW : WInv s) (name : String) : WInv (removeCluster s name) := by
  intro n lc hn
  unfold removeCluster at hn
  split at hn
  · exact hW n lc hn
  · by_cases e : n = name
    · subst e; simp at hn
    · simp only [FMap.del_other _ e] at hn
      exact hW n lc hn

theorem winv_foldl_removeCluster (names : List String) {s : State} (hW : WInv s) : WInv (names.foldl removeCluster s) := by
  induction names generalizing s with
  | nil => exact hW
  | cons n r ih => exact ih (winv_removeCluster hW n)

/-- the hosts an operation supplies at run time have weights inside the bounds (xDS endpoints: carry a weight at all) -/
def opOk : Op → Prop
  | .addOrUpdateClusterAndHost _ _ _ hosts => hostsOk hosts
  | .updateHosts _ hosts => hostsOk hosts
  | .appendHosts _ hosts => hostsOk hosts
  | .xdsEndpoints as => ∀ a ∈ as, ∀ loc ∈ a.2, ∀ x ∈ loc, x.lbWeight.isSome
  | _ => True

theorem hostsOk_conv {locs : List (List XHost)} (h : ∀ loc ∈ locs, ∀ x ∈ loc, x.lbWeight.isSome) :
    hostsOk ((locs.map (·.map convHost)).flatten) := by
  intro y hy
  simp only [List.mem_flatten, List.mem_map] at hy
  obtain ⟨l, ⟨loc, hl, rfl⟩, hh⟩ := hy
  obtain ⟨x, hx, rfl⟩ := List.mem_map.mp hh
  have := h loc hl x hx
  cases hw : x.lbWeight with
  | none => simp [hw] at this
  | some w => simp only [convHost, hw]; exact xds_inRange w

theorem winv_foldl_xds (as : List (String × List (List XHost))) {acc : State × Bool} (hW : WInv acc.1)
    (h : ∀ a ∈ as, ∀ loc ∈ a.2, ∀ x ∈ loc, x.lbWeight.isSome) :
    WInv (as.foldl (fun (acc : State × Bool) a =>
      let r := xdsAssign acc.1 a.1 a.2
      (r.1, acc.2 && r.2)) acc).1 := by
  induction as generalizing acc with
  | nil => exact hW
  | cons a r ih =>
    simp only [List.foldl_cons]
    apply ih
    · simp only [xdsAssign_eq]
      exact winv_updateHosts hW _ _ (fun old _ => hostsOk_replace (hostsOk_conv (h a (by simp))) old)
    · intro b hb; exact h b (by simp [hb])

theorem winv_step (o : Oracle) {s : State} (hW : WInv s) (op : Op) (hop : opOk op) : WInv (step o s op).1 := by
  cases op with
  | routersNil => exact hW
  | addOrUpdateRouters cfg =>
    intro n lc hn; rw [step_clusters_router o s (.addOrUpdateRouters cfg) rfl] at hn; exact hW n lc hn
  | addRoute rname domain r =>
    intro n lc hn; rw [step_clusters_router o s (.addRoute rname domain r) rfl] at hn; exact hW n lc hn
  | removeAllRoutes rname domain =>
    intro n lc hn; rw [step_clusters_router o s (.removeAllRoutes rname domain) rfl] at hn; exact hW n lc hn
  | addOrUpdateCluster m tag cfgHosts =>
    apply winv_updateCluster hW
    cases hc : s.clusters m with
    | none => intro x hx; simp [inheritHosts] at hx
    | some oc => exact hW m oc hc
  | addOrUpdateClusterAndHost m tag cfgHosts hosts => exact winv_updateCluster hW _ _ _ _ (hostsOk_replace hop [])
  | addClusterNil m => exact hW
  | updateHosts c hs => exact winv_updateHosts hW _ _ (fun old _ => hostsOk_replace hop old)
  | appendHosts c hs => exact winv_updateHosts hW _ _ (fun old ho => hostsOk_append hop ho)
  | removeHosts c as => exact winv_updateHosts hW _ _ (fun old ho => hostsOk_remove as ho)
  | removeClusters names =>
    simp only [step]
    split
    · exact winv_foldl_removeCluster names hW
    · exact hW
  | xdsEndpoints as =>
    simp only [step]
    exact winv_foldl_xds as hW hop
  | addOrUpdateListener lc =>
    intro n c hn; simp only [step] at hn; rw [(addOrUpdateListener_others s lc).2.2.1] at hn; exact hW n c hn
  | deleteListener m =>
    intro n c hn; simp only [step] at hn; rw [(deleteListener_others s m).2.2.1] at hn; exact hW n c hn

theorem winv_run (o : Oracle) (ops : List Op) (hops : ∀ op ∈ ops, opOk op) : WInv (run o ops) := by
  suffices h : ∀ (s : State), WInv s → WInv (runFrom o s ops) from h init winv_init
  induction ops with
  | nil => intro s hW; exact hW
  | cons op r ih =>
    intro s hW
    simp only [runFrom, List.foldl_cons]
    exact ih (fun op' h' => hops op' (by simp [h'])) _ (winv_step o hW op (hops op (by simp)))

end MosnVerif.Model.Updates
