import MosnVerif.Model.EncodeState
/-!
Lemmas for `Model/EncodeState`: an encode whose regenerated effect is benign (peek-only accesses, only derived fields
assigned) leaves the object's view unchanged; hence every later encode sees what the first one saw.
-/
namespace MosnVerif.Model.EncodeState
open MosnVerif.Model MosnVerif.Gen.C01EncodeEffect

theorem useOn_peek {F : Type} (o : Obj F) (u : Use) (h : u.acc = .peek) : useOn o u = o := by
  unfold useOn; rw [h]

theorem foldl_useOn_peek {F : Type} (us : List Use) (o : Obj F) (h : ∀ u ∈ us, u.acc = .peek) :
    us.foldl useOn o = o := by
  induction us generalizing o with
  | nil => rfl
  | cons u us ih =>
    simp only [List.foldl_cons]
    rw [useOn_peek o u (h u (by simp))]
    exact ih o (fun u' hu' => h u' (by simp [hu']))

theorem assignOn_derived_view {F : Type} (l : Nat × Nat × Nat) (o : Obj F) (n : String) (h : derivedFields.contains n = true) :
    (assignOn l o n).view = o.view := by
  simp only [derivedFields, List.contains_cons, List.contains_nil, Bool.or_false, Bool.or_eq_true, beq_iff_eq] at h
  rcases h with h | h | h <;> subst h <;> simp [assignOn, Obj.view]

theorem foldl_assignOn_view {F : Type} (l : Nat × Nat × Nat) (ns : List String) (o : Obj F)
    (h : ∀ n ∈ ns, derivedFields.contains n = true) : (ns.foldl (assignOn l) o).view = o.view := by
  induction ns generalizing o with
  | nil => rfl
  | cons n ns ih =>
    simp only [List.foldl_cons]
    rw [ih _ (fun n' hn' => h n' (by simp [hn']))]
    exact assignOn_derived_view l o n (h n (by simp))

theorem benign_uses {e : Effect} (h : benign e = true) :
    (∀ u ∈ e.fast, u.acc = .peek) ∧ (∀ u ∈ e.slow, u.acc = .peek) ∧
    (∀ n ∈ e.fastAssigns, derivedFields.contains n = true) ∧ (∀ n ∈ e.slowAssigns, derivedFields.contains n = true) := by
  simp only [benign, Bool.and_eq_true, List.all_eq_true, List.mem_append, beq_iff_eq] at h
  exact ⟨fun u hu => h.1 u (Or.inl hu), fun u hu => h.1 u (Or.inr hu),
         fun n hn => h.2 n (Or.inl hn), fun n hn => h.2 n (Or.inr hn)⟩

/-- a benign encode leaves everything the next encode can see as it was -/
theorem encode_view {F : Type} (C : Codec F) (o : Obj F) (h : benign C.eff = true) : (encode C o).1.view = o.view := by
  obtain ⟨hf, hs, haf, has⟩ := benign_uses h
  unfold encode
  simp only
  cases C.isFast o.view with
  | true =>
    simp only [if_true]
    rw [foldl_assignOn_view _ _ _ haf, foldl_useOn_peek _ _ hf]
  | false =>
    simp only [Bool.false_eq_true, if_false]
    rw [foldl_assignOn_view _ _ _ has, foldl_useOn_peek _ _ hs]

theorem encode_bytes {F : Type} (C : Codec F) (o : Obj F) : (encode C o).2 = C.enc o.view := rfl

/-- the view of the object after `SetRequestId` -/
def viewWithId {F : Type} (C : Codec F) (v : View F) (i : Nat) : View F := { v with fx := C.setId v.fx i }

theorem view_setId {F : Type} (C : Codec F) (o : Obj F) (i : Nat) :
    ({ o with fx := C.setId o.fx i } : Obj F).view = viewWithId C o.view i := rfl

theorem viewWithId_absorb {F : Type} (C : Codec F) (hid : ∀ f a b, C.setId (C.setId f a) b = C.setId f b)
    (v : View F) (i j : Nat) : viewWithId C (viewWithId C v i) j = viewWithId C v j := by
  simp only [viewWithId, hid]

/-- with a benign effect the k-th try writes what a FIRST encode of the object with the k-th id would have written -/
theorem tries_stable {F : Type} (C : Codec F) (h : benign C.eff = true)
    (hid : ∀ f a b, C.setId (C.setId f a) b = C.setId f b) (ids : List Nat) (o : Obj F) :
    tries C ids o = ids.map (fun i => C.enc (viewWithId C o.view i)) := by
  induction ids generalizing o with
  | nil => rfl
  | cons i is ih =>
    simp only [tries, List.map_cons]
    rw [encode_bytes, view_setId, ih, encode_view C _ h, view_setId]
    congr 1
    apply List.map_congr_left
    intro j _
    rw [viewWithId_absorb C hid]

/-! ### the bridge to the byte-level models -/

theorem viewToBolt_ofBolt (f : Bolt.Frame) : viewToBolt (ofBolt f).view = f := by
  cases f with
  | mk kind fx classLen headerLen contentLen cls kvs content raw hdrChanged contentChanged =>
    cases raw <;> simp [viewToBolt, ofBolt, Obj.view, Buf.visible]

theorem viewToBolt_applyMod (e : Effect) (o : Obj BoltFx) (op : Bolt.Op) :
    viewToBolt (applyMod (boltCodec e) o (modOfOp op)).view = Bolt.applyOp (viewToBolt o.view) op := by
  cases op <;>
    simp [modOfOp, applyMod, Bolt.applyOp, Bolt.setHeader, Bolt.delHeader, Bolt.setData, viewToBolt, Obj.view, boltCodec,
      Buf.visible]

theorem viewToBolt_mods (e : Effect) (ops : List Bolt.Op) (o : Obj BoltFx) :
    viewToBolt ((ops.map modOfOp).foldl (applyMod (boltCodec e)) o).view = Bolt.modify ops (viewToBolt o.view) := by
  induction ops generalizing o with
  | nil => rfl
  | cons op ops ih =>
    simp only [List.map_cons, List.foldl_cons, Bolt.modify]
    rw [ih, viewToBolt_applyMod]
    rfl

theorem viewToBolt_withId (e : Effect) (v : View BoltFx) (i : Nat) :
    viewToBolt (viewWithId (boltCodec e) v i) = Bolt.setId (viewToBolt v) i := rfl

theorem boltCodec_setId_absorb (e : Effect) (f : BoltFx) (a b : Nat) :
    (boltCodec e).setId ((boltCodec e).setId f a) b = (boltCodec e).setId f b := rfl

theorem viewToDubbo_ofDubbo (f : Dubbo.Frame) : viewToDubbo (ofDubbo f).view = f := by
  cases f with
  | mk magic0 magic1 flag status id dataLen payload raw =>
    cases raw <;> simp [viewToDubbo, ofDubbo, Obj.view, Buf.visible]

theorem viewToDubbo_setData (e : Effect) (o : Obj DubboFx) (d : Bytes) :
    viewToDubbo (applyMod (dubboCodec e) o (.data d)).view = Dubbo.setData (viewToDubbo o.view) d := by
  simp [applyMod, Dubbo.setData, viewToDubbo, Obj.view, dubboCodec, Buf.visible]

theorem viewToDubbo_withId (e : Effect) (v : View DubboFx) (i : Nat) :
    viewToDubbo (viewWithId (dubboCodec e) v i) = Dubbo.setId (viewToDubbo v) i := rfl

theorem dubboCodec_setId_absorb (e : Effect) (f : DubboFx) (a b : Nat) :
    (dubboCodec e).setId ((dubboCodec e).setId f a) b = (dubboCodec e).setId f b := rfl

/-- every encode function of the five codecs, as regenerated: peek-only, only derived fields assigned -/
theorem all_benign : ∀ p ∈ all, benign p.2 = true := by decide

end MosnVerif.Model.EncodeState
