import MosnVerif.Model.DownstreamSpec
import MosnVerif.Lemmas.ReplyWrite
/-!
The downstream machine's infallible reply steps (`Model/Downstream.lean`: `dsAppendHeaders`, `dsAppendData`,
`dsAppendTrailers`) ARE the all-writes-succeed, nobody-interferes runs of the regenerated append programs of
`Model/ReplyWrite.lean`: on the write path's view of a machine state (its flags, one `clean` per access-log event) both
produce the same `upstreamProcessDone`, `downstreamCleaned`, `downstreamReset`, the same number of clean-up bodies, the same
gauge movement.  So `Model/ReplyWrite.lean` extends the machine's steps to failing writes and interleaved resets; it does not
replace them.  (Self-contained: unfolds the machine's definitions, uses none of its lemma files.)
-/
namespace MosnVerif.Model.ReplyWrite
open MosnVerif.Model.Downstream (S Cfg nLog isLog)

/-- the write path's view of a machine state -/
def viewS (s : S) : RW := viewOf s.procDone s.cleaned s.downReset s.downLive (nLog s.trace)

def okOuts : Outs := ⟨true, true, true⟩

/-- run the regenerated body of the append function of part `p` with endStream argument `eos`, every write succeeding -/
def okPart (p : Part) (eos : Bool) (v : RW) : RW :=
  exec okOuts { v with part := p, eos := eos } ((genProgs.prog p).map (fun ga => Op.stmt ga.1 ga.2))

/-- the fields both models have -/
def common (v : RW) : Bool × Bool × Bool × Nat × Int := (v.procDone, v.cleaned, v.downReset, cleans v, v.active)
def commonS (s : S) : Bool × Bool × Bool × Nat × Int := (s.procDone, s.cleaned, s.downReset, nLog s.trace, 1 - (nLog s.trace : Int))

theorem nLog_snoc (t : List Downstream.Ev) (e : Downstream.Ev) : nLog (t ++ [e]) = nLog t + (if isLog e then 1 else 0) := by
  simp only [nLog, List.filter_append, List.length_append]
  cases h : isLog e <;> simp [List.filter, h]

theorem machine_clean_common (c : Cfg) (s : S) (hd : s.procDone = true) (hc : s.cleaned = false) (h0 : nLog s.trace = 0) :
    commonS (Downstream.cleanStream c s) = (true, true, s.downReset, 1, 0) := by
  simp only [Downstream.cleanStream, hc, Bool.false_eq_true, if_false, Downstream.cleanBody, hd, Bool.not_true, Bool.and_false,
    Bool.false_and, Bool.or_false, commonS, Downstream.cleanUp, Downstream.rsReset, nLog_snoc, isLog, if_true, h0]
  simp

theorem cleans_replicate (n : Nat) : (List.filter isClean (List.replicate n Ev.clean)).length = n := by
  induction n with
  | zero => rfl
  | succ n ih => simp [List.replicate_succ, List.filter_cons, isClean, ih]

/-- **the machine's `dsAppendHeaders` is the successful run of the regenerated `appendHeaders`** -/
theorem ok_headers_is_machine_step (c : Cfg) (s : S) (eos : Bool) (hc : s.cleaned = false) (h0 : nLog s.trace = 0) :
    common (okPart .headers eos (viewS s)) = commonS (Downstream.dsAppendHeaders c s eos) := by
  cases eos
  · simp [Downstream.dsAppendHeaders, Downstream.emit, commonS, nLog_snoc, isLog, h0]
    simp [okPart, genProgs, Progs.prog, Gen.ProxyReplyWrite.appendHeaders, exec, step, evalC, act, okOuts, Outs.of, common, viewS, viewOf,
      cleans, h0, isClean]
  · have := machine_clean_common c ({ ({ s with procDone := true } : S) with trace := s.trace ++ [.dh (s.statusVar.getD 0) true], downLive := false })
      rfl hc (by simp [nLog_snoc, isLog, h0])
    simp only [Downstream.dsAppendHeaders, Downstream.emit, Downstream.endStream, if_true]
    rw [this]
    simp [okPart, genProgs, Progs.prog, Gen.ProxyReplyWrite.appendHeaders, exec, step, evalC, act, okOuts, Outs.of, common, viewS, viewOf,
      cleans, h0, isClean, gen_clean_facts, cleanStream, cleanBody, hc, hasStep]
    exact ⟨rfl, by decide⟩

/-- … `dsAppendData` of `appendData` … -/
theorem ok_data_is_machine_step (c : Cfg) (s : S) (eos : Bool) (hc : s.cleaned = false) (h0 : nLog s.trace = 0) :
    common (okPart .data eos (viewS s)) = commonS (Downstream.dsAppendData c s eos) := by
  cases eos
  · simp [Downstream.dsAppendData, Downstream.emit, commonS, nLog_snoc, isLog, h0]
    simp [okPart, genProgs, Progs.prog, Gen.ProxyReplyWrite.appendData, exec, step, evalC, act, okOuts, Outs.of, common, viewS, viewOf,
      cleans, h0, isClean]
  · have := machine_clean_common c ({ ({ s with procDone := true } : S) with trace := s.trace ++ [.dd true], downLive := false })
      rfl hc (by simp [nLog_snoc, isLog, h0])
    simp only [Downstream.dsAppendData, Downstream.emit, Downstream.endStream, if_true]
    rw [this]
    simp [okPart, genProgs, Progs.prog, Gen.ProxyReplyWrite.appendData, exec, step, evalC, act, okOuts, Outs.of, common, viewS, viewOf,
      cleans, h0, isClean, gen_clean_facts, cleanStream, cleanBody, hc, hasStep]
    exact ⟨rfl, by decide⟩

/-- … `dsAppendTrailers` of `appendTrailers` -/
theorem ok_trailers_is_machine_step (c : Cfg) (s : S) (hc : s.cleaned = false) (h0 : nLog s.trace = 0) :
    common (okPart .trailers true (viewS s)) = commonS (Downstream.dsAppendTrailers c s) := by
  have := machine_clean_common c ({ ({ s with procDone := true } : S) with trace := s.trace ++ [.dt], downLive := false })
    rfl hc (by simp [nLog_snoc, isLog, h0])
  simp only [Downstream.dsAppendTrailers, Downstream.emit, Downstream.endStream]
  rw [this]
  simp [okPart, genProgs, Progs.prog, Gen.ProxyReplyWrite.appendTrailers, exec, step, evalC, act, okOuts, Outs.of, common, viewS, viewOf,
    cleans, h0, isClean, gen_clean_facts, cleanStream, cleanBody, hc, hasStep]
  exact ⟨rfl, by decide⟩

end MosnVerif.Model.ReplyWrite
