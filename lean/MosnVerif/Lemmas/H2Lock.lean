import MosnVerif.Model.H2Lock
/-! Goroutines that each follow a disciplined path never wedge on the connection mutex. -/
namespace MosnVerif.Lemmas.H2Lock
open MosnVerif.Gen.H2Lock MosnVerif.Model.H2Lock

/-- every goroutine is somewhere on a disciplined path: what it still has to do checks out from what it holds -/
def Good (s : Sys) : Prop := ∀ (j : Nat) (t : Thread), s.threads[j]? = some t → checkOps t.holds t.ops = none

theorem good_start (paths : List (List Op)) (h : ∀ p ∈ paths, checkOps none p = none) : Good (Sys.start paths) := by
  intro j t ht
  simp only [Sys.start, List.getElem?_map] at ht
  cases hp : paths[j]? with
  | none => simp [hp] at ht
  | some p =>
    simp only [hp, Option.map_some, Option.some.injEq] at ht
    subst ht
    exact h p (List.mem_of_getElem? hp)

theorem thread_step_good (t : Thread) (h : checkOps t.holds t.ops = none) : checkOps t.step.holds t.step.ops = none := by
  obtain ⟨ops, holds⟩ := t
  cases ops with
  | nil => exact h
  | cons o r =>
    cases o with
    | acq w =>
      cases holds with
      | none => simpa [Thread.step, checkOps] using h
      | some x => simp [checkOps] at h
    | rel w =>
      cases holds with
      | none => simp [checkOps] at h
      | some x =>
        simp only [checkOps] at h
        by_cases hx : x = w
        · simpa [Thread.step, hx] using h
        · simp [hx] at h

theorem step_good (s : Sys) (i : Nat) (h : Good s) : Good (s.step i) := by
  unfold Sys.step
  split
  · intro j t ht
    simp only [List.getElem?_modify] at ht
    cases hj : s.threads[j]? with
    | none => simp [hj] at ht
    | some u =>
      rw [hj] at ht
      by_cases hij : i = j
      · simp only [hij, if_true, Option.map_eq_map, Option.map_some, Option.some.injEq] at ht
        subst ht
        exact thread_step_good u (h j u hj)
      · simp only [hij, if_false, Option.map_eq_map, Option.map_some, Option.some.injEq] at ht
        subst ht
        exact h j u hj
  · exact h

theorem run_good (sched : List Nat) : ∀ (s : Sys), Good s → Good (s.run sched) := by
  induction sched with
  | nil => intro s h; exact h
  | cons i r ih => intro s h; exact ih _ (step_good s i h)

/-- a goroutine that holds the mutex (in either mode) can always perform its next operation: it is a release -/
theorem holder_enabled (s : Sys) (h : Good s) (j : Nat) (t : Thread) (ht : s.threads[j]? = some t) (x : Bool)
    (hh : t.holds = some x) : s.enabled j = true := by
  have hg := h j t ht
  simp only [Sys.enabled, ht]
  obtain ⟨ops, holds⟩ := t
  simp only at hh
  subst hh
  cases ops with
  | nil => simp [checkOps] at hg
  | cons o r =>
    cases o with
    | acq w => simp [checkOps] at hg
    | rel w => rfl

/-- **progress**: in a system of goroutines on disciplined paths, as long as one of them is not finished one of them can
move — no state is stuck. -/
theorem progress (s : Sys) (h : Good s) (hnd : s.allDone = false) : ∃ j, j < s.threads.length ∧ s.enabled j = true := by
  by_cases hw : s.writer = true ∨ s.readers = true
  · have : ∃ t ∈ s.threads, ∃ x, t.holds = some x := by
      rcases hw with hw | hw
      · simp only [Sys.writer, List.any_eq_true] at hw
        obtain ⟨t, ht, hx⟩ := hw
        exact ⟨t, ht, true, by simpa using hx⟩
      · simp only [Sys.readers, List.any_eq_true] at hw
        obtain ⟨t, ht, hx⟩ := hw
        exact ⟨t, ht, false, by simpa using hx⟩
    obtain ⟨t, ht, x, hx⟩ := this
    obtain ⟨j, hj, hjt⟩ := List.getElem_of_mem ht
    have hget : s.threads[j]? = some t := by rw [List.getElem?_eq_getElem hj, hjt]
    exact ⟨j, hj, holder_enabled s h j t hget x hx⟩
  · have hw' : s.writer = false ∧ s.readers = false := by
      constructor
      · cases hh : s.writer <;> simp_all
      · cases hh : s.readers <;> simp_all
    have : ∃ t ∈ s.threads, t.done = false := by
      simp only [Sys.allDone] at hnd
      have := List.all_eq_false.1 hnd
      obtain ⟨t, ht, hd⟩ := this
      exact ⟨t, ht, by simpa using hd⟩
    obtain ⟨t, ht, hd⟩ := this
    obtain ⟨j, hj, hjt⟩ := List.getElem_of_mem ht
    have hget : s.threads[j]? = some t := by rw [List.getElem?_eq_getElem hj, hjt]
    refine ⟨j, hj, ?_⟩
    simp only [Sys.enabled, hget]
    obtain ⟨ops, holds⟩ := t
    cases ops with
    | nil => simp [Thread.done] at hd
    | cons o r =>
      cases o with
      | acq w => cases w <;> simp [opEnabled, hw'.1, hw'.2]
      | rel w => rfl

theorem not_stuck (s : Sys) (h : Good s) : s.stuck = false := by
  cases hd : s.allDone with
  | true => simp [Sys.stuck, hd]
  | false =>
    obtain ⟨j, hj, he⟩ := progress s h hd
    simp only [Sys.stuck, hd, Bool.not_false, Bool.true_and]
    apply Bool.eq_false_iff.2
    intro hall
    have := List.all_eq_true.1 hall j (List.mem_range.2 hj)
    simp [he] at this


theorem modify_sum (l : List Thread) : ∀ (i : Nat) (t : Thread), l[i]? = some t → t.ops ≠ [] →
    ((l.modify i Thread.step).map (fun t => t.ops.length)).sum + 1 = (l.map (fun t => t.ops.length)).sum := by
  induction l with
  | nil => intro i t h; simp at h
  | cons a r ih =>
    intro i t h hne
    cases i with
    | zero =>
      simp only [List.getElem?_cons_zero, Option.some.injEq] at h
      subst h
      simp only [List.modify_cons, if_true, List.map_cons, List.sum_cons]
      obtain ⟨ops, holds⟩ := a
      cases ops with
      | nil => exact absurd rfl hne
      | cons o r' => cases o <;> simp [Thread.step] <;> omega
    | succ k =>
      simp only [List.getElem?_cons_succ] at h
      have := ih k t h hne
      simp only [List.modify_succ_cons, List.map_cons, List.sum_cons]
      omega

theorem mem_le_sum : ∀ (l : List Nat) (x : Nat), x ∈ l → x ≤ l.sum := by
  intro l
  induction l with
  | nil => intro x h; cases h
  | cons a r ih =>
    intro x h
    simp only [List.sum_cons]
    rcases List.mem_cons.1 h with rfl | h
    · omega
    · have := ih x h; omega

theorem sum_zero_of_all_zero : ∀ (l : List Nat), (∀ x ∈ l, x = 0) → l.sum = 0 := by
  intro l
  induction l with
  | nil => intro _; rfl
  | cons a r ih =>
    intro h
    simp only [List.sum_cons]
    have h1 := h a (List.mem_cons_self ..)
    have h2 := ih (fun x hx => h x (List.mem_cons_of_mem _ hx))
    omega

/-- every operation performed brings the system one step closer to completion: with `progress`, every execution that
keeps scheduling goroutines that can move ends, after exactly `remaining` operations, with all of them finished -/
theorem step_measure (s : Sys) (i : Nat) (he : s.enabled i = true) : (s.step i).remaining + 1 = s.remaining := by
  simp only [Sys.step, he, if_true, Sys.remaining]
  simp only [Sys.enabled] at he
  cases ht : s.threads[i]? with
  | none => simp [ht] at he
  | some t =>
    simp only [ht] at he
    have hne : t.ops ≠ [] := by
      intro h0; simp [h0] at he
    exact modify_sum s.threads i t ht hne

/-- all goroutines finish: from every state of goroutines on disciplined paths there is a completion of exactly
`remaining` operations, and it is found by always picking a goroutine that can move -/
theorem completes : ∀ (n : Nat) (s : Sys), Good s → s.remaining = n → ∃ sched, sched.length = n ∧ (s.run sched).allDone = true := by
  intro n
  induction n with
  | zero =>
    intro s _ hr
    refine ⟨[], rfl, ?_⟩
    simp only [Sys.run, List.foldl_nil, Sys.allDone, List.all_eq_true]
    intro t ht
    cases hd : t.done with
    | true => rfl
    | false =>
      exfalso
      have hlen : 0 < t.ops.length := by
        cases hops : t.ops with
        | nil => simp [Thread.done, hops] at hd
        | cons o r => simp
      have hle : t.ops.length ≤ s.remaining := by
        unfold Sys.remaining
        exact mem_le_sum _ _ (List.mem_map.2 ⟨t, ht, rfl⟩)
      omega
  | succ n ih =>
    intro s hg hr
    cases hd : s.allDone with
    | true =>
      exfalso
      have : s.remaining = 0 := by
        unfold Sys.remaining
        apply sum_zero_of_all_zero
        intro x hx
        obtain ⟨t, ht, rfl⟩ := List.mem_map.1 hx
        have := List.all_eq_true.1 hd t ht
        simp only [Thread.done, List.isEmpty_iff] at this
        simp [this]
      omega
    | false =>
      obtain ⟨j, _, he⟩ := progress s hg hd
      have hm := step_measure s j he
      obtain ⟨sched, hl, hdone⟩ := ih (s.step j) (step_good s j hg) (by omega)
      exact ⟨j :: sched, by simp [hl], by simpa [Sys.run] using hdone⟩

end MosnVerif.Lemmas.H2Lock
