import MosnVerif.Model.FilterInst
/-! Invariants of the many-stream model (filter instances, manager): helper lemmas of C14. -/
namespace MosnVerif.Lemmas.FilterInst
open MosnVerif.Model.FilterInst

theorem setAt_same {β : Type} (f : Nat → β) (a : Nat) (b : β) : setAt f a b a = b := by simp [setAt]
theorem setAt_other {β : Type} (f : Nat → β) (a x : Nat) (b : β) (h : x ≠ a) : setAt f a b x = f x := by simp [setAt, h]

/-! ### manager -/

def lc (l : Nat) (acc : Option (List Nat)) (e : Ev) : Option (List Nat) :=
  match e with
  | .upd l' cfg => if l' = l then some cfg else acc
  | _ => acc

theorem lastCfg_eq (l : Nat) (evs : List Ev) : lastCfg l evs = evs.foldl (lc l) none := rfl

theorem step_pub (p : P) (hupd : ∀ o n, p.upd o n = n) (w : W) (e : Ev) (l : Nat) (acc : Option (List Nat))
    (h : w.pub l = acc.map (fun c => c.filter p.known)) :
    (step p w e).pub l = (lc l acc e).map (fun c => c.filter p.known) := by
  cases e with
  | upd l' cfg =>
    simp only [step, stepPub, lc]
    by_cases hl : l' = l
    · subst hl
      cases hp : w.pub l' <;> simp [setAt, hupd]
    · have hl' : l ≠ l' := fun h => hl h.symm
      cases hp : w.pub l' <;> simp [setAt, hl, hl', h]
  | create s l' => simpa [step, stepPub, lc] using h
  | run s => simpa [step, stepPub, lc] using h

theorem foldl_pub (p : P) (hupd : ∀ o n, p.upd o n = n) (l : Nat) :
    ∀ (evs : List Ev) (w : W) (acc : Option (List Nat)), w.pub l = acc.map (fun c => c.filter p.known) →
      (evs.foldl (step p) w).pub l = (evs.foldl (lc l) acc).map (fun c => c.filter p.known) := by
  intro evs
  induction evs with
  | nil => intro w acc h; simpa using h
  | cons e r ih =>
    intro w acc h
    simp only [List.foldl_cons]
    exact ih _ _ (step_pub p hupd w e l acc h)

/-! ### instances -/

theorem filter_map_fst (f : Nat → Bool) (ch : List (Nat × Nat)) :
    (ch.filter (fun ko => f ko.1)).map (·.1) = (ch.map (·.1)).filter f := by
  induction ch with
  | nil => rfl
  | cons a r ih =>
    by_cases h : f a.1 <;> simp [h, ih]

/-- with allocating factories: the chain is the configuration, every object of it is new (index in [n, n')), holds the
handler of `s`, and no older object is touched -/
theorem inst_fresh (p : P) (hf : ∀ k, p.fresh k = true) (s : Nat) :
    ∀ (ks : List Nat) (n : Nat) (h : Nat → Nat),
      (inst p s ks n h).1.map (·.1) = ks ∧ n ≤ (inst p s ks n h).2.1 ∧
      (∀ ko ∈ (inst p s ks n h).1, (inst p s ks n h).2.2 ko.2 = s ∧ ∃ m, ko.2 = 2 * m + 1 ∧ n ≤ m ∧ m < (inst p s ks n h).2.1) ∧
      (∀ m, m < n → (inst p s ks n h).2.2 (2 * m + 1) = h (2 * m + 1)) := by
  intro ks
  induction ks with
  | nil => intro n h; simp [inst]
  | cons k r ih =>
    intro n h
    have ih' := ih (n + 1) (setAt h (2 * n + 1) s)
    obtain ⟨i1, i2, i3, i4⟩ := ih'
    simp only [inst, hf, if_true]
    refine ⟨by simp [i1], by omega, ?_, ?_⟩
    · intro ko hko
      simp only [List.mem_cons] at hko
      rcases hko with rfl | hko
      · refine ⟨?_, n, rfl, Nat.le_refl _, by omega⟩
        rw [i4 n (by omega)]
        exact setAt_same _ _ _
      · obtain ⟨a, m, b, c, d⟩ := i3 ko hko
        exact ⟨a, m, b, by omega, d⟩
    · intro m hm
      rw [i4 m (by omega)]
      apply setAt_other
      omega

theorem runPhase_fresh (p : P) (s : Nat) (handler : Nat → Nat) :
    ∀ (g : List (Nat × Nat)) (log : List Nat), (∀ ko ∈ g, handler ko.2 = s) →
      runPhase p s handler g log =
        (match expPhase (p.deny s) (g.map (·.1)) log with
         | (l', some c) => (some (s, c), l')
         | (l', none) => (none, l')) := by
  intro g
  induction g with
  | nil => intro log _; simp [runPhase, expPhase]
  | cons ko r ih =>
    intro log hh
    have h1 : handler ko.2 = s := hh ko (by simp)
    have h2 : ∀ x ∈ r, handler x.2 = s := fun x hx => hh x (by simp [hx])
    simp only [runPhase, List.map_cons, expPhase]
    cases hd : p.deny s ko.1 with
    | some c => simp [h1]
    | none => simpa using ih (log ++ [ko.1]) h2

/-- a stream whose objects all hold its own handler: the outcome is the reference outcome, and only its own pending slot
is written -/
theorem runFrom_fresh (p : P) (s : Nat) (handler : Nat → Nat) (ch : List (Nat × Nat))
    (hh : ∀ ko ∈ ch, handler ko.2 = s) :
    ∀ (phs : List Nat) (pend : Nat → Option Nat) (log : List Nat), pend s = none →
      (runFrom p s handler ch phs pend log).2 = expFrom p (p.deny s) (ch.map (·.1)) phs log ∧
      ∀ t, t ≠ s → (runFrom p s handler ch phs pend log).1 t = pend t := by
  intro phs
  induction phs with
  | nil => intro pend log _; simp [runFrom, expFrom]
  | cons ph r ih =>
    intro pend log hp
    have hg : ∀ ko ∈ ch.filter (fun ko => p.phase ko.1 == ph), handler ko.2 = s :=
      fun ko hko => hh ko (List.mem_filter.mp hko).1
    have hfm := filter_map_fst (fun k => p.phase k == ph) ch
    simp only [runFrom, expFrom]
    rw [runPhase_fresh p s handler _ log hg, hfm]
    cases he : expPhase (p.deny s) (List.filter (fun k => p.phase k == ph) (ch.map (·.1))) log with
    | mk l' oc =>
      cases oc with
      | some c =>
        simp only [setAt_same]
        exact ⟨by first | rfl | trivial, fun t ht => setAt_other _ _ _ _ ht⟩
      | none =>
        simp only [hp]
        exact ih pend l' hp

/-- the invariant of the stream part under allocating factories -/
structure Inv (p : P) (st : S) : Prop where
  own : ∀ s ch ko, st.chain s = some ch → ko ∈ ch → st.handler ko.2 = s ∧ ∃ m, ko.2 = 2 * m + 1 ∧ m < st.next
  pend : ∀ s, st.out s = none → st.pending s = none
  outc : ∀ s r, st.out s = some r → ∃ ch, st.chain s = some ch ∧ r = expect p s (ch.map (·.1))

theorem inv_init (p : P) : Inv p {} := ⟨by intro s ch ko h; simp at h, by intro s _; rfl, by intro s r h; simp at h⟩

theorem inv_step (p : P) (hf : ∀ k, p.fresh k = true) (pub : Nat → Option (List Nat)) (st : S) (e : Ev)
    (hi : Inv p st) : Inv p (stepS p pub st e) := by
  cases e with
  | upd l cfg => exact hi
  | create s l =>
    simp only [stepS]
    cases hc : st.chain s with
    | some ch => simpa [hc] using hi
    | none =>
      simp only
      obtain ⟨j1, j2, j3, j4⟩ := inst_fresh p hf s ((pub l).getD []) st.next st.handler
      refine ⟨?_, hi.pend, ?_⟩
      · intro s' ch ko hch hko
        dsimp only at hch ⊢
        by_cases hs : s' = s
        · subst hs
          simp only [setAt_same, Option.some.injEq] at hch
          subst hch
          obtain ⟨a, m, b, _, d⟩ := j3 ko hko
          exact ⟨a, m, b, d⟩
        · simp only [setAt_other _ _ _ _ hs] at hch
          obtain ⟨a, m, b, c⟩ := hi.own s' ch ko hch hko
          refine ⟨?_, m, b, by omega⟩
          rw [b, j4 m c, ← b]
          exact a
      · intro s' r hr
        obtain ⟨ch, h1, h2⟩ := hi.outc s' r hr
        have hs : s' ≠ s := by
          intro h; subst h; rw [hc] at h1; cases h1
        exact ⟨ch, by simp only [setAt_other _ _ _ _ hs]; exact h1, h2⟩
  | run s =>
    simp only [stepS]
    cases hc : st.chain s with
    | none => simpa [hc] using hi
    | some ch =>
      cases ho : st.out s with
      | some r => simpa [hc, ho] using hi
      | none =>
        simp only
        have hh : ∀ ko ∈ ch, st.handler ko.2 = s := fun ko hko => (hi.own s ch ko hc hko).1
        obtain ⟨r1, r2⟩ := runFrom_fresh p s st.handler ch hh phases st.pending [] (hi.pend s ho)
        refine ⟨hi.own, ?_, ?_⟩
        · intro s' hs'
          have hne : s' ≠ s := by
            intro h; subst h; simp [setAt_same] at hs'
          simp only [setAt_other _ _ _ _ hne] at hs'
          simp only
          rw [r2 s' hne]
          exact hi.pend s' hs'
        · intro s' r hr
          by_cases hs : s' = s
          · subst hs
            simp only [setAt_same, Option.some.injEq] at hr
            exact ⟨ch, hc, by rw [← hr, r1]; rfl⟩
          · simp only [setAt_other _ _ _ _ hs] at hr
            exact hi.outc s' r hr

theorem inv_foldl (p : P) (hf : ∀ k, p.fresh k = true) :
    ∀ (evs : List Ev) (w : W), Inv p w.st → Inv p (evs.foldl (step p) w).st := by
  intro evs
  induction evs with
  | nil => intro w h; exact h
  | cons e r ih =>
    intro w h
    simp only [List.foldl_cons]
    exact ih _ (by simpa [step] using inv_step p hf w.pub w.st e h)

/-! ### the reference outcome -/

theorem expPhase_deny (d : Nat → Option Nat) :
    ∀ (g log : List Nat) (c : Nat), (expPhase d g log).2 = some c → ∃ k ∈ g, d k = some c := by
  intro g
  induction g with
  | nil => intro log c h; simp [expPhase] at h
  | cons k r ih =>
    intro log c h
    simp only [expPhase] at h
    cases hd : d k with
    | some c' =>
      simp only [hd, Option.some.injEq] at h
      exact ⟨k, by simp, by rw [hd, h]⟩
    | none =>
      simp only [hd] at h
      obtain ⟨k', h1, h2⟩ := ih _ c h
      exact ⟨k', by simp [h1], h2⟩

theorem expPhase_none (d : Nat → Option Nat) :
    ∀ (g log : List Nat), (expPhase d g log).2 = none → ∀ k ∈ g, d k = none := by
  intro g
  induction g with
  | nil => intro log _ k hk; simp at hk
  | cons k r ih =>
    intro log h k' hk'
    simp only [expPhase] at h
    cases hd : d k with
    | some c' => simp [hd] at h
    | none =>
      simp only [hd] at h
      simp only [List.mem_cons] at hk'
      rcases hk' with rfl | hk'
      · exact hd
      · exact ih _ h k' hk'

theorem expFrom_deny (p : P) (d : Nat → Option Nat) (ids : List Nat) :
    ∀ (phs log : List Nat) (c : Nat), (expFrom p d ids phs log).2 = some c → ∃ k ∈ ids, d k = some c := by
  intro phs
  induction phs with
  | nil => intro log c h; simp [expFrom] at h
  | cons ph r ih =>
    intro log c h
    simp only [expFrom] at h
    cases he : expPhase d (ids.filter (fun k => p.phase k == ph)) log with
    | mk l' oc =>
      cases oc with
      | some c' =>
        simp only [he, Option.some.injEq] at h
        obtain ⟨k, h1, h2⟩ := expPhase_deny d _ log c' (by rw [he])
        exact ⟨k, (List.mem_filter.mp h1).1, by rw [h2, h]⟩
      | none =>
        simp only [he] at h
        exact ih _ c h

theorem expFrom_none (p : P) (d : Nat → Option Nat) (ids : List Nat) :
    ∀ (phs log : List Nat), (expFrom p d ids phs log).2 = none →
      ∀ k ∈ ids, p.phase k ∈ phs → d k = none := by
  intro phs
  induction phs with
  | nil => intro log _ k _ hk; simp at hk
  | cons ph r ih =>
    intro log h k hk hph
    simp only [expFrom] at h
    cases he : expPhase d (ids.filter (fun k => p.phase k == ph)) log with
    | mk l' oc =>
      cases oc with
      | some c' => simp [he] at h
      | none =>
        simp only [he] at h
        by_cases hk2 : p.phase k = ph
        · exact expPhase_none d _ log (by rw [he]) k (List.mem_filter.mpr ⟨hk, by simp [hk2]⟩)
        · simp only [List.mem_cons] at hph
          rcases hph with h' | h'
          · exact absurd h' hk2
          · exact ih _ h k hk h'

/-! ### a stream keeps the chain it was created with -/

theorem chain_persist (p : P) (pub : Nat → Option (List Nat)) (st : S) (e : Ev) (s : Nat) (ch : List (Nat × Nat))
    (h : st.chain s = some ch) : (stepS p pub st e).chain s = some ch := by
  cases e with
  | upd l cfg => exact h
  | create s' l =>
    simp only [stepS]
    cases hc : st.chain s' with
    | some ch' => simpa [hc] using h
    | none =>
      have hs : s ≠ s' := by intro hh; subst hh; rw [hc] at h; cases h
      dsimp only
      rw [setAt_other _ _ _ _ hs]; exact h
  | run s' =>
    simp only [stepS]
    cases hc : st.chain s' with
    | none => simpa [hc] using h
    | some ch' =>
      cases ho : st.out s' with
      | some r => simpa [hc, ho] using h
      | none => simpa [hc, ho] using h

theorem chain_persist_foldl (p : P) (s : Nat) (ch : List (Nat × Nat)) :
    ∀ (evs : List Ev) (w : W), w.st.chain s = some ch → (evs.foldl (step p) w).st.chain s = some ch := by
  intro evs
  induction evs with
  | nil => intro w h; exact h
  | cons e r ih =>
    intro w h
    simp only [List.foldl_cons]
    exact ih _ (by simpa [step] using chain_persist p w.pub w.st e s ch h)

theorem phase_mem (n : Nat) (h : n < 3) : n ∈ phases := by
  have : n = 0 ∨ n = 1 ∨ n = 2 := by omega
  rcases this with rfl | rfl | rfl <;> simp [phases]

end MosnVerif.Lemmas.FilterInst
