import MosnVerif.Model.Snapshot
/-! Snapshot publication: every record is coherent and every lookup reads one record, under every schedule. -/
namespace MosnVerif.Model.Snapshot
open MosnVerif.Gen.Snapshot

/-- per-thread part of the invariant. -/
def ThreadOk (cl : Cluster) : Thread → Prop
  | .rd .start => True
  | .rd (.loaded a) => a < cl.next
  | .rd (.gotLB a x) => a < cl.next ∧ x = (cl.recs a).lb
  | .rd (.done x y) => x = y ∧ x ∈ cl.published
  | .upd v lb todo => ∃ b, okFrom b todo = true ∧ (b = true → lb = v)

structure Inv (c : Conf) : Prop where
  coh : ∀ a, (c.cl.recs a).lb = (c.cl.recs a).hs
  pub : ∀ a, (c.cl.recs a).hs ∈ c.cl.published
  cur : c.cl.cur < c.cl.next
  thr : ∀ t, ThreadOk c.cl (c.threads t)

theorem setThread_same (th : Nat → Thread) (t : Nat) (v : Thread) : setThread th t v t = v := by simp [setThread]
theorem setThread_other (th : Nat → Thread) (t u : Nat) (v : Thread) (h : u ≠ t) : setThread th t v u = th u := by
  simp [setThread, h]

/-- a cluster change that keeps every used record, only allocates and only adds to `published` keeps every thread ok. -/
theorem threadOk_mono {cl cl' : Cluster} (hn : cl.next ≤ cl'.next) (hr : ∀ a, a < cl.next → cl'.recs a = cl.recs a)
    (hp : ∀ x, x ∈ cl.published → x ∈ cl'.published) {th : Thread} (h : ThreadOk cl th) : ThreadOk cl' th := by
  cases th with
  | upd v lb todo => exact h
  | rd st =>
    cases st with
    | start => trivial
    | loaded a => exact Nat.lt_of_lt_of_le h hn
    | gotLB a x => exact ⟨Nat.lt_of_lt_of_le h.1 hn, by rw [hr a h.1]; exact h.2⟩
    | done x y => exact ⟨h.1, hp x h.2⟩

/-- all threads: one thread replaced, the cluster changed monotonically. -/
theorem thr_update {c : Conf} (I : Inv c) (cl' : Cluster) (t : Nat) (v : Thread)
    (hn : c.cl.next ≤ cl'.next) (hr : ∀ a, a < c.cl.next → cl'.recs a = c.cl.recs a)
    (hp : ∀ x, x ∈ c.cl.published → x ∈ cl'.published) (hv : ThreadOk cl' v) :
    ∀ u, ThreadOk cl' (setThread c.threads t v u) := by
  intro u
  by_cases hu : u = t
  · subst hu; rw [setThread_same]; exact hv
  · rw [setThread_other _ _ _ _ hu]; exact threadOk_mono hn hr hp (I.thr u)

theorem inv_step (c : Conf) (t : Nat) (I : Inv c) : Inv (step c t) := by
  unfold step
  have ht := I.thr t
  split
  · -- load
    exact ⟨I.coh, I.pub, I.cur, thr_update I c.cl t _ (Nat.le_refl _) (fun _ _ => rfl) (fun _ h => h) I.cur⟩
  · -- LoadBalancer()
    rename_i a heq
    rw [heq] at ht
    exact ⟨I.coh, I.pub, I.cur, thr_update I c.cl t _ (Nat.le_refl _) (fun _ _ => rfl) (fun _ h => h) ⟨ht, rfl⟩⟩
  · -- HostSet()
    rename_i a x heq
    rw [heq] at ht
    refine ⟨I.coh, I.pub, I.cur, thr_update I c.cl t _ (Nat.le_refl _) (fun _ _ => rfl) (fun _ h => h) ?_⟩
    exact ⟨by rw [ht.2, I.coh a], by rw [ht.2, I.coh a]; exact I.pub a⟩
  · exact I
  · exact I
  · rename_i v lb a r heq
    rw [heq] at ht
    obtain ⟨b, hok, hb⟩ := ht
    -- the cluster changes of the non-publishing steps keep recs / next / published
    cases a with
    | buildLB =>
      exact ⟨I.coh, I.pub, I.cur, thr_update I c.cl t _ (Nat.le_refl _) (fun _ _ => rfl) (fun _ h => h)
        ⟨true, by simpa [okFrom] using hok, fun _ => rfl⟩⟩
    | lock =>
      simp only
      split
      · exact ⟨I.coh, I.pub, I.cur, thr_update I _ t _ (Nat.le_refl _) (fun _ _ => rfl) (fun _ h => h)
          ⟨b, by simpa [okFrom] using hok, hb⟩⟩
      · exact I
    | unlock =>
      exact ⟨I.coh, I.pub, I.cur, thr_update I _ t _ (Nat.le_refl _) (fun _ _ => rfl) (fun _ h => h)
        ⟨b, by simpa [okFrom] using hok, hb⟩⟩
    | setLbInstance =>
      exact ⟨I.coh, I.pub, I.cur, thr_update I _ t _ (Nat.le_refl _) (fun _ _ => rfl) (fun _ h => h)
        ⟨b, by simpa [okFrom] using hok, hb⟩⟩
    | setHostSet =>
      exact ⟨I.coh, I.pub, I.cur, thr_update I _ t _ (Nat.le_refl _) (fun _ _ => rfl) (fun _ h => h)
        ⟨b, by simpa [okFrom] using hok, hb⟩⟩
    | notifyHC =>
      exact ⟨I.coh, I.pub, I.cur, thr_update I c.cl t _ (Nat.le_refl _) (fun _ _ => rfl) (fun _ h => h)
        ⟨b, by simpa [okFrom] using hok, hb⟩⟩
    | mutLb s => simp [okFrom] at hok
    | mutHs s => simp [okFrom] at hok
    | publish l h =>
      simp only [okFrom, Bool.and_eq_true, beq_iff_eq] at hok
      obtain ⟨⟨⟨hbt, rfl⟩, rfl⟩, hrest⟩ := hok
      have hlb := hb hbt
      subst hlb
      simp only [pick]
      refine ⟨?_, ?_, by simp, ?_⟩
      · intro a
        simp only [setRec]
        split
        · rfl
        · exact I.coh a
      · intro a
        simp only [setRec]
        split
        · simp
        · exact List.mem_append_left _ (I.pub a)
      · apply thr_update I
        · simp
        · intro a ha
          simp only [setRec]
          have : a ≠ c.cl.next := by omega
          simp [this]
        · intro x hx; exact List.mem_append_left _ hx
        · exact ⟨b, hrest, fun _ => rfl⟩

theorem inv_run (sched : List Nat) (c : Conf) (I : Inv c) : Inv (run c sched) := by
  induction sched generalizing c with
  | nil => exact I
  | cons t r ih => exact ih _ (inv_step c t I)

theorem inv_init (prog : List UStep) (h : publishOk prog = true) (n : Nat) : Inv (initConf prog n) := by
  refine ⟨fun _ => rfl, fun _ => by simp [initConf], by simp [initConf], ?_⟩
  intro t
  simp only [initConf]
  split
  · exact ⟨false, h, by simp⟩
  · trivial

/-- ghost list of stored host-set numbers: only the initial one and numbers of updaters. -/
def PubBound (n : Nat) (c : Conf) : Prop :=
  (∀ x ∈ c.cl.published, x ≤ n) ∧ c.cl.hostSet ≤ n ∧
  ∀ t, match c.threads t with
    | .upd v _ _ => v ≤ n
    | .rd _ => True

theorem pubBound_step (n : Nat) (c : Conf) (t : Nat) (B : PubBound n c) : PubBound n (step c t) := by
  obtain ⟨b1, b2, b3⟩ := B
  have keep : ∀ (v : Thread), (match v with | .upd w _ _ => w ≤ n | .rd _ => True) →
      ∀ u, match setThread c.threads t v u with | .upd w _ _ => w ≤ n | .rd _ => True := by
    intro v hv u
    by_cases hu : u = t
    · subst hu; rw [setThread_same]; exact hv
    · rw [setThread_other _ _ _ _ hu]; exact b3 u
  unfold step
  have ht := b3 t
  split
  · exact ⟨b1, b2, keep _ trivial⟩
  · exact ⟨b1, b2, keep _ trivial⟩
  · exact ⟨b1, b2, keep _ trivial⟩
  · exact ⟨b1, b2, b3⟩
  · exact ⟨b1, b2, b3⟩
  · rename_i v lb a r heq
    rw [heq] at ht
    simp only at ht
    cases a with
    | lock =>
      simp only
      split
      · exact ⟨b1, b2, keep _ ht⟩
      · exact ⟨b1, b2, b3⟩
    | setHostSet => exact ⟨b1, ht, keep _ ht⟩
    | publish l h =>
      refine ⟨?_, b2, keep _ ht⟩
      intro x hx
      simp only [List.mem_append, List.mem_singleton] at hx
      rcases hx with hx | rfl
      · exact b1 x hx
      · cases h <;> simp [pick, ht, b2]
    | mutHs s =>
      refine ⟨?_, b2, keep _ ht⟩
      intro x hx
      simp only [List.mem_append, List.mem_singleton] at hx
      rcases hx with hx | rfl
      · exact b1 x hx
      · cases s <;> simp [pick, ht, b2]
    | buildLB => exact ⟨b1, b2, keep _ ht⟩
    | unlock => exact ⟨b1, b2, keep _ ht⟩
    | setLbInstance => exact ⟨b1, b2, keep _ ht⟩
    | mutLb s => exact ⟨b1, b2, keep _ ht⟩
    | notifyHC => exact ⟨b1, b2, keep _ ht⟩

theorem pubBound_run (n : Nat) (sched : List Nat) (c : Conf) (B : PubBound n c) : PubBound n (run c sched) := by
  induction sched generalizing c with
  | nil => exact B
  | cons t r ih => exact ih _ (pubBound_step n c t B)

theorem pubBound_init (prog : List UStep) (n : Nat) : PubBound n (initConf prog n) := by
  refine ⟨by simp [initConf], by simp [initConf], ?_⟩
  intro t
  simp only [initConf]
  by_cases h : 1 ≤ t ∧ t ≤ n
  · simp only [h, and_self, if_true]
  · simp only [h, if_false]

end MosnVerif.Model.Snapshot
