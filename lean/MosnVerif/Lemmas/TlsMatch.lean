import MosnVerif.Lemmas.TlsSelect
import MosnVerif.Gen.TlsMatch
/-!
The regenerated selection code (`Gen/TlsMatch.lean`: buildMatch, MatchedServerName, MatchedALPN, the ALPN filter of
tlsConfigTemplate, GetConfigForClient — translated statement by statement) equals the hand-written model of
`Model/TlsSelect.lean`, for every input and every amount of extra loop fuel.  Core Lean only.
-/
namespace MosnVerif.Lemmas.TlsMatch
open MosnVerif MosnVerif.Model MosnVerif.Model.TlsSelect MosnVerif.Gen.TlsPolicy
open MosnVerif.Model.TlsMatchBase (Flow rangeLoop whileLoop idxRange len listAt byteAt sliceFrom sliceTo setAt mapHas mapInsert X509 Prov)

/-! ### loops -/

theorem rangeLoop_fold {α ρ σ : Type} (f : σ → α → σ) (body : α → σ → Flow ρ σ)
    (h : ∀ x s, body x s = Flow.next (f s x)) (xs : List α) (s : σ) :
    rangeLoop xs body s = Flow.next (xs.foldl f s) := by
  induction xs generalizing s with
  | nil => rfl
  | cons x r ih => simp only [rangeLoop, h, List.foldl_cons]; exact ih _

theorem rangeLoop_any {α ρ σ : Type} (p : α → Bool) (v : ρ) (body : α → σ → Flow ρ σ)
    (h : ∀ x s, body x s = if p x then Flow.ret v else Flow.next s) (xs : List α) (s : σ) :
    rangeLoop xs body s = if xs.any p then Flow.ret v else Flow.next s := by
  induction xs with
  | nil => rfl
  | cons x r ih =>
    simp only [rangeLoop, h, List.any_cons]
    by_cases hp : p x = true <;> simp [hp, ih]

theorem rangeLoop_idx_aux {α ρ σ : Type} [Inhabited α] (body : α → σ → Flow ρ σ) (xs pre : List α) (s : σ) :
    rangeLoop ((List.range' pre.length xs.length).map (fun (n : Nat) => (n : Int))) (fun i st => body (listAt (pre ++ xs) i) st) s =
      rangeLoop xs body s := by
  induction xs generalizing pre s with
  | nil => rfl
  | cons x r ih =>
    simp only [List.length_cons, List.range'_succ, List.map_cons, rangeLoop]
    have hx : listAt (pre ++ x :: r) (pre.length : Int) = x := by simp [listAt]
    rw [hx]
    cases body x s with
    | ret v => rfl
    | next s' =>
      simp only []
      have := ih (pre ++ [x]) s'
      simp only [List.length_append, List.length_singleton, List.append_assoc, List.singleton_append] at this
      exact this

/-- `for i := range xs { x := xs[i]; … }` is `for _, x := range xs { … }` -/
theorem rangeLoop_idx {α ρ σ : Type} [Inhabited α] (xs : List α) (body : α → σ → Flow ρ σ) (body' : Int → σ → Flow ρ σ)
    (h : ∀ i s, body' i s = body (listAt xs i) s) (s : σ) :
    rangeLoop (idxRange xs) body' s = rangeLoop xs body s := by
  have e : body' = fun i st => body (listAt xs i) st := by funext i st; exact h i st
  have := rangeLoop_idx_aux body xs [] s
  simp only [List.length_nil, List.nil_append] at this
  rw [e, idxRange, List.range_eq_range']
  exact this

/-! ### strings: the two vocabularies agree -/

theorem toLower_eq (s : Name) : TlsMatchBase.toLower s = lower s := rfl
theorem toLower_fun : TlsMatchBase.toLower = lower := rfl

theorem splitOn_eq (c : Char) (s : Name) : TlsMatchBase.splitOn c s = splitOn c s := by
  induction s with
  | nil => rfl
  | cons a r ih =>
    rw [TlsMatchBase.splitOn, splitOn, ih]
    split
    · rfl
    · cases splitOn c r <;> rfl

theorem join_eq (l : List Name) : TlsMatchBase.join l ['.'] = joinDot l := by
  induction l with
  | nil => rfl
  | cons a r ih =>
    cases r with
    | nil => rfl
    | cons b t => simp only [TlsMatchBase.join, joinDot, ih, List.append_assoc, List.singleton_append]

theorem foldl_insert (f : Name → Name) (xs : List Name) (m : List Name) :
    xs.foldl (fun m x => mapInsert m (f x)) m = m ++ xs.map f := by
  induction xs generalizing m with
  | nil => simp
  | cons x r ih =>
    rw [List.foldl_cons, ih]; simp [mapInsert]

theorem foldl_insert_nonempty (f : Name → Name) (xs : List Name) (m : List Name) :
    xs.foldl (fun m x => if decide (len x > (0 : Int)) then mapInsert m (f x) else m) m =
      m ++ (xs.filter (fun s => s.length > 0)).map f := by
  induction xs generalizing m with
  | nil => simp
  | cons x r ih =>
    rw [List.foldl_cons, ih]
    cases x <;> simp [mapInsert, len]

theorem foldl_append_flat {α : Type} (g : α → List Name) (xs : List α) (m : List Name) :
    xs.foldl (fun m x => m ++ g x) m = m ++ xs.flatMap g := by
  induction xs generalizing m with
  | nil => simp
  | cons x r ih => simp [ih]

theorem foldl_filter (q : Name → Bool) (xs : List Name) (acc : List Name) :
    xs.foldl (fun acc p => if q p then acc ++ [p] else acc) acc = acc ++ xs.filter q := by
  induction xs generalizing acc with
  | nil => simp
  | cons x r ih =>
    simp only [List.foldl_cons, List.filter_cons]
    cases q x <;> simp [ih]

/-! ### the ALPN filter of tlsConfigTemplate -/

theorem gen_alpnFilter_eq (cfg : Name) : Gen.TlsMatch.alpnFilter cfg = parseALPN cfg := by
  unfold Gen.TlsMatch.alpnFilter parseALPN
  cases cfg with
  | nil => rfl
  | cons a r =>
    have hne : ((a :: r) != ([] : Name)) = true := by simp
    simp only [hne, ↓reduceIte, List.isEmpty_cons, Bool.false_eq_true]
    rw [rangeLoop_fold (fun acc p => if (Gen.TlsMatch.alpnTable.contains (lower p)) then acc ++ [p] else acc)]
    · simp only [foldl_filter, List.nil_append, splitOn_eq]
      rfl
    · intro p acc
      simp only [mapHas, toLower_eq]
      by_cases hq : (Gen.TlsMatch.alpnTable.contains (lower p)) = true
      · simp only [hq] <;> rfl
      · have hq' := Bool.eq_false_iff.mpr hq
        simp only [hq'] <;> rfl

/-! ### buildMatch -/

/-- the keys one certificate contributes -/
def certKeys : Option X509 → List Name
  | none => []
  | some x => (if x.cn.length > 0 then [lower x.cn] else []) ++ (x.dnsNames.filter (fun s => s.length > 0)).map lower

theorem len_pos {α : Type} (l : List α) : decide (len l > (0 : Int)) = decide (l.length > 0) := by
  simp [len]

/-- `buildMatch` for any certificate list: the keys of every certificate that parses (CN if non-empty, then the SANs), the
NextProtos, the server_name if non-empty — all lower-cased, in this order -/
theorem gen_buildMatch_spec (certs : List (Option X509)) (protos : List Name) (sn : Name) :
    Gen.TlsMatch.buildMatch certs protos sn =
      certs.flatMap certKeys ++ protos.map lower ++ (if sn.length > 0 then [lower sn] else []) := by
  unfold Gen.TlsMatch.buildMatch
  dsimp only
  rw [rangeLoop_idx certs (fun cert m => Flow.next (m ++ certKeys cert))]
  · rw [rangeLoop_fold (fun m c => m ++ certKeys c) _ (fun _ _ => rfl)]
    dsimp only
    rw [rangeLoop_fold (fun m x => mapInsert m (TlsMatchBase.toLower x)) _ (fun _ _ => rfl)]
    dsimp only
    rw [foldl_append_flat, foldl_insert, len_pos]
    by_cases h : sn.length > 0 <;> simp [h, mapInsert, toLower_eq, toLower_fun]
  · intro i m
    cases hc : listAt certs i with
    | none => simp [certKeys]
    | some x =>
      simp only [Option.isNone_some, Bool.false_eq_true, ↓reduceIte, Option.getD_some, certKeys]
      rw [rangeLoop_fold (fun m x => if decide (len x > (0 : Int)) then mapInsert m (TlsMatchBase.toLower x) else m) _
        (fun _ _ => rfl)]
      dsimp only
      rw [foldl_insert_nonempty, len_pos]
      by_cases h : x.cn.length > 0 <;> simp [h, mapInsert, toLower_fun]

theorem gen_buildMatch_eq (c : Ctx) :
    Gen.TlsMatch.buildMatch [some ⟨c.cn, c.sans⟩] (Gen.TlsMatch.alpnFilter c.alpnCfg) c.serverName = buildMatch c := by
  rw [gen_buildMatch_spec, gen_alpnFilter_eq]
  simp [certKeys, buildMatch, Ctx.alpn]

/-! ### MatchedALPN -/

theorem gen_matchedALPN_eq (m : List Name) (protos : List Name) :
    Gen.TlsMatch.matchedALPN m protos = matchedALPN m protos := by
  unfold Gen.TlsMatch.matchedALPN matchedALPN
  rw [rangeLoop_any (fun p => m.contains (lower p)) true]
  · cases protos.any (fun p => m.contains (lower p)) <;> rfl
  · intro p s
    simp only [mapHas, toLower_eq]
    by_cases hq : m.contains (lower p) = true
    · simp only [hq]
    · have hq' := Bool.eq_false_iff.mpr hq
      simp only [hq']

/-! ### MatchedServerName -/

theorem stripDots_concat (init : Name) (c : Char) :
    stripDots (init ++ [c]) = if c == '.' then stripDots init else init ++ [c] := by
  unfold stripDots
  simp only [List.reverse_append, List.reverse_cons, List.reverse_nil, List.nil_append, List.singleton_append,
    List.dropWhile_cons]
  cases c == '.' <;> simp

/-- the trailing-dot loop, for any fuel above the length of the name -/
theorem whileLoop_strip (cond : Name → Bool) (body : Name → Flow Bool Name)
    (hc : ∀ s, cond s = (decide (len s > (0 : Int)) && (byteAt s (len s - (1 : Int)) == '.')))
    (hb : ∀ s, body s = Flow.next (sliceTo s (len s - (1 : Int)))) :
    ∀ (fuel : Nat) (n : Name), n.length < fuel → whileLoop fuel cond body n = Flow.next (stripDots n) := by
  intro fuel
  induction fuel with
  | zero => intro n h; omega
  | succ f ih =>
    intro n h
    rcases List.eq_nil_or_concat n with hn | ⟨init, c, hn⟩
    · subst hn
      simp [whileLoop, hc, len, stripDots]
    · subst hn
      simp only [List.concat_eq_append] at h ⊢
      have h1 : len (init ++ [c]) - (1 : Int) = (init.length : Int) := by simp [len]
      have h2 : byteAt (init ++ [c]) ((init.length : Int)) = c := by simp [byteAt]
      have h3 : sliceTo (init ++ [c]) ((init.length : Int)) = init := by simp [sliceTo]
      have h4 : decide (len (init ++ [c]) > (0 : Int)) = true := by simp [len]
      have hcnd : cond (init ++ [c]) = (c == '.') := by rw [hc, h1, h2, h4, Bool.true_and]
      have hbd : body (init ++ [c]) = Flow.next init := by rw [hb, h1, h3]
      rw [whileLoop, hcnd, hbd, stripDots_concat]
      cases hcd : c == '.'
      · simp
      · simp only [↓reduceIte]
        apply ih
        simp at h
        omega

theorem candidates_short (l : List Name) (h : l.length ≤ 1) : candidates l = [] := by
  match l, h with
  | [], _ => rfl
  | [_], _ => rfl

/-- the wildcard walk from label `n` on, for any fuel that covers the remaining labels: it returns true iff one of the
model's candidates from that label on is a key -/
theorem whileLoop_walk (m : List Name) (cond : Int × List Name → Bool) (body : Int × List Name → Flow Bool (Int × List Name))
    (hc : ∀ i ls, cond (i, ls) = decide (i < len ls - (1 : Int)))
    (hb : ∀ i ls, body (i, ls) =
      if mapHas m (TlsMatchBase.join (sliceFrom (setAt ls i ['*']) i) ['.']) then Flow.ret true
      else Flow.next (i + 1, setAt ls i ['*'])) :
    ∀ (fuel : Nat) (ls : List Name) (n : Nat), ls.length ≤ fuel + n →
      ((candidates (ls.drop n)).any (fun c => m.contains c) = true ∧
          whileLoop fuel cond body ((n : Int), ls) = Flow.ret true) ∨
      ((candidates (ls.drop n)).any (fun c => m.contains c) = false ∧
          ∃ st, whileLoop fuel cond body ((n : Int), ls) = Flow.next st) := by
  intro fuel
  induction fuel with
  | zero =>
    intro ls n h
    right
    have : ls.drop n = [] := by apply List.drop_eq_nil_of_le; omega
    simp [this, candidates, whileLoop]
  | succ f ih =>
    intro ls n h
    by_cases hlt : n + 1 < ls.length
    · -- at least two labels left: ls.drop n = a :: b :: r
      have hcnd : cond ((n : Int), ls) = true := by
        rw [hc]; exact decide_eq_true (by simp only [len]; omega)
      obtain ⟨a, t, hd⟩ : ∃ a t, ls.drop n = a :: t := by
        cases hdn : ls.drop n with
        | nil => have := congrArg List.length hdn; simp at this; omega
        | cons a t => exact ⟨a, t, rfl⟩
      have hd1 : ls.drop (n + 1) = t := by
        have := congrArg List.tail hd
        simpa [List.tail_drop] using this
      obtain ⟨b, r, ht⟩ : ∃ b r, t = b :: r := by
        cases t with
        | nil => have := congrArg List.length hd1; simp at this; omega
        | cons b r => exact ⟨b, r, rfl⟩
      subst ht
      have hsetd : (ls.set n ['*']).drop (n + 1) = b :: r := by
        rw [List.drop_set_of_lt (by omega), hd1]
      have hset : sliceFrom (setAt ls (n : Int) ['*']) (n : Int) = ['*'] :: b :: r := by
        simp only [sliceFrom, setAt, Int.toNat_natCast]
        have hn : n < (ls.set n ['*']).length := by simp; omega
        rw [List.drop_eq_getElem_cons hn, List.getElem_set_self, hsetd]
      have hcand : candidates (ls.drop n) = joinDot (['*'] :: b :: r) :: candidates (b :: r) := by rw [hd]; rfl
      have hb' := hb (n : Int) ls
      rw [hset, join_eq] at hb'
      by_cases hm : m.contains (joinDot (['*'] :: b :: r)) = true
      · left
        refine ⟨by rw [hcand]; simp only [List.any_cons, hm, Bool.true_or], ?_⟩
        rw [whileLoop, hcnd]
        simp only [↓reduceIte]
        rw [hb']
        simp only [mapHas, hm, ↓reduceIte]
      · have hm' := Bool.eq_false_iff.mpr hm
        have hstep : whileLoop (f + 1) cond body ((n : Int), ls) =
            whileLoop f cond body (((n + 1 : Nat) : Int), setAt ls (n : Int) ['*']) := by
          rw [whileLoop, hcnd]
          simp only [↓reduceIte]
          rw [hb']
          simp only [mapHas, hm', Bool.false_eq_true, ↓reduceIte, Int.natCast_add, Int.cast_ofNat_Int]
        have hlen : (setAt ls (n : Int) ['*']).length ≤ f + (n + 1) := by simp [setAt]; omega
        have hdrop : (setAt ls (n : Int) ['*']).drop (n + 1) = b :: r := by
          simp only [setAt, Int.toNat_natCast]; exact hsetd
        rcases ih (setAt ls (n : Int) ['*']) (n + 1) hlen with ⟨h1, h2⟩ | ⟨h1, h2⟩
        · left
          rw [hdrop] at h1
          rw [hcand, hstep]
          exact ⟨by simp only [List.any_cons, hm', Bool.false_or, h1], h2⟩
        · right
          rw [hdrop] at h1
          rw [hcand, hstep]
          exact ⟨by simp only [List.any_cons, hm', Bool.false_or, h1], h2⟩
    · right
      have hcnd : cond ((n : Int), ls) = false := by
        rw [hc]; exact decide_eq_false (by simp only [len]; omega)
      have : candidates (ls.drop n) = [] := by apply candidates_short; simp; omega
      simp [this, whileLoop, hcnd]

/-- the wildcard walk as it is used: whatever is done with the loop's result, as long as a returned `true` gives true
and a completed loop gives false -/
theorem whileLoop_walk_used (m : List Name) (cond : Int × List Name → Bool) (body : Int × List Name → Flow Bool (Int × List Name))
    (hc : ∀ i ls, cond (i, ls) = decide (i < len ls - (1 : Int)))
    (hb : ∀ i ls, body (i, ls) =
      if mapHas m (TlsMatchBase.join (sliceFrom (setAt ls i ['*']) i) ['.']) then Flow.ret true
      else Flow.next (i + 1, setAt ls i ['*']))
    (fuel : Nat) (ls : List Name) (h : ls.length ≤ fuel) (K : Flow Bool (Int × List Name) → Bool)
    (hret : K (Flow.ret true) = true) (hnext : ∀ st, K (Flow.next st) = false) :
    K (whileLoop fuel cond body ((0 : Int), ls)) = (candidates ls).any (fun c => m.contains c) := by
  rcases whileLoop_walk m cond body hc hb fuel ls 0 (by omega) with ⟨h1, h2⟩ | ⟨h1, st, h2⟩
  · simp only [List.drop_zero] at h1
    have h2' : whileLoop fuel cond body ((0 : Int), ls) = Flow.ret true := h2
    rw [h1, h2', hret]
  · simp only [List.drop_zero] at h1
    have h2' : whileLoop fuel cond body ((0 : Int), ls) = Flow.next st := h2
    rw [h1, h2', hnext]

/-- **the regenerated MatchedServerName is the model's**, for every key set, every string and every extra fuel -/
theorem gen_matchedServerName_eq (m : List Name) (sn : Name) (k : Nat) :
    Gen.TlsMatch.matchedServerName m sn k = matchedServerName m sn := by
  unfold Gen.TlsMatch.matchedServerName matchedServerName normSni
  dsimp only
  rw [whileLoop_strip _ _ (fun _ => rfl) (fun _ => rfl) _ (TlsMatchBase.toLower sn) (by omega)]
  dsimp only
  rw [toLower_eq]
  by_cases hm : m.contains (stripDots (lower sn)) = true
  · simp only [mapHas, hm, ↓reduceIte, Bool.true_or]
  · have hm' := Bool.eq_false_iff.mpr hm
    simp only [mapHas, hm', Bool.false_eq_true, ↓reduceIte, Bool.false_or]
    rw [← splitOn_eq]
    exact whileLoop_walk_used m _ _ (fun _ _ => rfl) (fun _ _ => rfl) _ _ (by omega)
      (fun W => match W with
        | Flow.ret r => r
        | Flow.next _ => false) rfl (fun _ => rfl)

/-! ### GetConfigForClient -/

/-- the providers of a listener whose contexts are `cs` (positions from `i` on): position, readiness, and the key set
`buildMatch` stores -/
def provs : List Ctx → Nat → List Prov
  | [], _ => []
  | c :: r, i => ⟨i, c.ready, buildMatch c⟩ :: provs r (i + 1)

/-- the statements after the loop -/
def finish (d a : Option Prov) : Outcome :=
  if a.isSome then Outcome.config (a.map Prov.idx)
  else if d.isNone then Outcome.errNoCert else Outcome.config (d.map Prov.idx)

theorem finish_eq (d a : Option Prov) : finish d a = walkFinish (d.map Prov.idx) (a.map Prov.idx) := by
  cases d <;> cases a <;> simp [finish, walkFinish]

/-- the provider loop of the regenerated GetConfigForClient is the model's walk (which is built from the separately
regenerated loop body `walkStep` and tail `walkFinish` of Gen/TlsPolicy) -/
theorem rangeLoop_walk (sni : Name) (protos : List Name) (k : Nat)
    (body : Prov → Option Prov × Option Prov → Flow Outcome (Option Prov × Option Prov))
    (hb : ∀ p d a, body p (d, a) =
      if (!p.ready) then Flow.next (d, a)
      else if Gen.TlsMatch.matchedServerName p.keys sni k then Flow.ret (Outcome.config (some p.idx))
      else Flow.next (if d.isNone then some p else d,
        if (a.isNone && Gen.TlsMatch.matchedALPN p.keys protos) then some p else a))
    (K : Flow Outcome (Option Prov × Option Prov) → Outcome)
    (hret : ∀ r, K (Flow.ret r) = r) (hnext : ∀ d a, K (Flow.next (d, a)) = finish d a) :
    ∀ (ps : List Ctx) (i : Nat) (d a : Option Prov),
      K (rangeLoop (provs ps i) body (d, a)) = walk sni protos ps i (d.map Prov.idx) (a.map Prov.idx) := by
  intro ps
  induction ps with
  | nil => intro i d a; simp only [provs, rangeLoop, hnext, walk, finish_eq]
  | cons c r ih =>
    intro i d a
    simp only [provs, rangeLoop, walk, hb, walkStep_eq, gen_matchedServerName_eq, gen_matchedALPN_eq, Ctx.sniMatch,
      Ctx.alpnMatch]
    cases hr : c.ready
    · simp only [Bool.not_false, ↓reduceIte]
      exact ih (i + 1) d a
    · cases hs : matchedServerName (buildMatch c) sni
      · simp only [Bool.not_true, Bool.false_eq_true, ↓reduceIte, Bool.true_eq_false]
        rw [ih (i + 1)]
        cases hal : matchedALPN (buildMatch c) protos <;> cases d <;> cases a <;> simp [firstOr]
      · simp [hret]

/-- **the regenerated GetConfigForClient is the model's `select`**, for every context list, ClientHello and extra fuel -/
theorem gen_select_eq (ps : List Ctx) (sni : Name) (protos : List Name) (k : Nat) :
    Gen.TlsMatch.getConfigForClient (provs ps 0) sni protos k = select ps sni protos := by
  unfold Gen.TlsMatch.getConfigForClient select
  dsimp only
  exact rangeLoop_walk sni protos k _ (fun _ _ _ => rfl)
    (fun W => match W with
      | Flow.ret r => r
      | Flow.next st => finish st.1 st.2) (fun _ => rfl) (fun _ _ => rfl) ps 0 none none

/-! ### labels -/

theorem splitOn_no_sep (sep : Char) (n : Name) : ∀ l ∈ splitOn sep n, sep ∉ l := by
  induction n with
  | nil => intro l hl; simp [splitOn] at hl; subst hl; simp
  | cons c r ih =>
    intro l hl
    simp only [splitOn] at hl
    split at hl
    · rcases List.mem_cons.mp hl with h | h
      · subst h; simp
      · exact ih l h
    · rename_i hc
      cases hsp : splitOn sep r with
      | nil => exact absurd hsp (splitOn_ne_nil _ _)
      | cons a t =>
        rw [hsp] at hl ih
        rcases List.mem_cons.mp hl with h | h
        · subst h
          intro hm
          rcases List.mem_cons.mp hm with h' | h'
          · subst h'; simp at hc
          · exact ih a (by simp) h'
        · exact ih l (by simp [h])

theorem joinDot_append_singleton (ls : List Name) (suf : Name) (h : ls ≠ []) :
    joinDot (ls ++ [suf]) = joinDot ls ++ '.' :: suf := by
  induction ls with
  | nil => exact absurd rfl h
  | cons a r ih =>
    cases r with
    | nil => simp [joinDot]
    | cons b t =>
      have := ih (by simp)
      simp only [List.cons_append] at this ⊢
      simp only [joinDot, this, List.append_assoc, List.cons_append]

/-- **"no configured name equals an ALPN token and vice versa"**, as far as one ClientHello can tell: the SNI (as it is
looked up) is not an ALPN token of a ready context, and no ALPN entry the client offers is (case-insensitively) a
certificate name / server_name of a ready context. Outside this hypothesis lies the recorded finding (key `xns`). -/
def NamespacesApart (ps : List Ctx) (sni : Name) (protos : List Name) : Prop :=
  ∀ c ∈ ps, c.ready = true → normSni sni ∉ c.alpn.map lower ∧ ∀ q ∈ protos, lower q ∉ c.names.map lower

instance (ps : List Ctx) (sni : Name) (protos : List Name) : Decidable (NamespacesApart ps sni protos) := by
  unfold NamespacesApart; infer_instance

end MosnVerif.Lemmas.TlsMatch
