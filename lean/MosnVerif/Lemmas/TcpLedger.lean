import MosnVerif.Model.TcpLedger
/-!
Lemmas of the stream proxy ledger (C10, TCP half).

The session machine is finite (nine Booleans; the oracle of `accept` is two Booleans, a host count clamped to 0..4 and
three `Try`s), and the handlers only append to a log.  So the per-label facts — the invariant `wf` is kept, the model
stays in its domain, and the log's net movement of every counter equals the change of what the session holds — are
decided by evaluation of the REGENERATED handlers on every session state and every label (`good_close`, `good_accept`).
The unbounded part (any number of sessions, any label list, any threshold, any ambient load) is the induction below.
-/
namespace MosnVerif.Lemmas.TcpLedger
open MosnVerif.Model.TcpLedger MosnVerif.Gen.TcpProxy

instance (p : Try → Prop) [DecidablePred p] : Decidable (∀ t, p t) :=
  if h0 : p .none then if h1 : p .ok then if h2 : p .fail then if h3 : p .timeout then
    isTrue (fun t => by cases t <;> assumption)
  else isFalse (fun h => h3 (h _)) else isFalse (fun h => h2 (h _)) else isFalse (fun h => h1 (h _)) else isFalse (fun h => h0 (h _))

instance (p : CloseEv → Prop) [DecidablePred p] : Decidable (∀ t, p t) :=
  if h0 : p .remote then if h1 : p .local then if h2 : p .readErr then if h3 : p .writeErr then if h4 : p .writeTimeout then
    isTrue (fun t => by cases t <;> assumption)
  else isFalse (fun h => h4 (h _)) else isFalse (fun h => h3 (h _)) else isFalse (fun h => h2 (h _)) else isFalse (fun h => h1 (h _)) else isFalse (fun h => h0 (h _))

def imp (a b : Bool) : Bool := !a || b

/-- the invariant of one session at label boundaries -/
def wf (s : Sess) : Bool :=
  -- nothing exists before the accept
  imp (!s.accepted) (!s.downClosed && !s.downEof && !s.upSet && !s.upListener && !s.upRaw && !s.upClosed && !s.upEof && !s.hostKnown)
  -- a connected upstream connection is the one stored in the filter, with the filter's callbacks registered
  && imp s.upRaw (s.upSet && s.upListener)
  -- the upstream host is recorded exactly for sessions whose connect succeeded
  && (s.hostKnown == s.upRaw)
  && imp s.upEof s.upRaw
  -- a session whose connect did not succeed is over: downstream closed, the failed client connection closed
  && imp (s.accepted && !s.upRaw) (s.downClosed && !s.downEof && imp s.upSet s.upClosed && imp s.upClosed s.upSet)
  -- a closed downstream has closed its upstream or queued the close
  && imp (s.downClosed && s.live) s.upEof
  -- a closed upstream has closed its downstream or queued the close
  && imp (s.upRaw && s.upClosed) (s.downClosed || s.downEof)
  && imp s.downEof (s.upRaw && s.upClosed)

/-- what a label must do to a session that satisfied `wf` -/
def good (ad : Bool) (s : Sess) (c : Ctl) : Bool :=
  wf c.s && !c.stuck
  -- a session gains a live upstream connection only when the breaker granted it
  && imp (c.s.live && !s.live) ad
  && dRes c.log == b2i c.s.live - b2i s.live
  && dStat .cluster .UpstreamConnectionActive c.log == b2i c.s.live - b2i s.live
  && dStat .host .UpstreamConnectionActive c.log == b2i c.s.live - b2i s.live
  && dNum c.log == b2i c.s.downLive - b2i s.downLive
  && checkFresh c.log

set_option maxRecDepth 100000 in
/-- every close event of either connection, on every session state -/
theorem good_close : ∀ (ad a b c d e f g h i : Bool) (ev : CloseEv),
    wf ⟨a, b, c, d, e, f, g, h, i⟩ = true →
      good ad ⟨a, b, c, d, e, f, g, h, i⟩ (sstep ad ⟨a, b, c, d, e, f, g, h, i⟩ (.up ev)) = true ∧
      good ad ⟨a, b, c, d, e, f, g, h, i⟩ (sstep ad ⟨a, b, c, d, e, f, g, h, i⟩ (.down ev)) = true := by
  decide

set_option maxRecDepth 100000 in
/-- every accept: both answers of the breaker, cluster known or not, every host count, every outcome of the three tries -/
theorem good_accept : ∀ (ad nc : Bool) (hn : Nat), hn < 5 → ∀ (t0 t1 t2 : Try),
    good ad {} (sstep ad {} (.accept nc hn t0 t1 t2)) = true ∧
    (refused (sstep ad {} (.accept nc hn t0 t1 t2)).log = (!nc && !ad)) ∧
    -- refused, or no try connected ⇒ no upstream connection is held and the downstream connection is closed
    (((!nc && !ad) || (t0 != .ok && t1 != .ok && t2 != .ok)) →
      (sstep ad {} (.accept nc hn t0 t1 t2)).s.live = false ∧ (sstep ad {} (.accept nc hn t0 t1 t2)).s.downClosed = true) ∧
    -- granted and the first try connects ⇒ the session is established
    ((!nc && ad && decide (0 < hn) && t0 == .ok) → (sstep ad {} (.accept nc hn t0 t1 t2)).s.live = true) := by
  decide

theorem hostAbs_min (hn : Nat) : hostAbs (min hn 4) = hostAbs hn := by
  unfold hostAbs; congr 1; omega

theorem sstep_accept_min (ad : Bool) (s : Sess) (nc : Bool) (hn : Nat) (t0 t1 t2 : Try) :
    sstep ad s (.accept nc hn t0 t1 t2) = sstep ad s (.accept nc (min hn 4) t0 t1 t2) := by
  simp only [sstep, hostAbs_min]

theorem wf_fresh (s : Sess) (h : wf s = true) (ha : s.accepted = false) : s = {} := by
  obtain ⟨a, b, c, d, e, f, g, h', i⟩ := s
  simp only at ha; subst ha
  revert h; revert b c d e f g h' i; decide

theorem good_refl (ad : Bool) (s : Sess) (h : wf s = true) : good ad s { s := s } = true := by
  simp [good, h, dRes, dStat, dNum, checkFresh, imp]

/-- every label on every well-formed session -/
theorem good_sstep (ad : Bool) (s : Sess) (ev : Ev) (h : wf s = true) : good ad s (sstep ad s ev) = true := by
  cases ev with
  | accept nc hn t0 t1 t2 =>
    by_cases ha : s.accepted = true
    · simp only [sstep, ha, if_true]; exact good_refl ad s h
    · have := wf_fresh s h (by simpa using ha); subst this
      rw [sstep_accept_min]
      exact (good_accept ad nc (min hn 4) (by omega) t0 t1 t2).1
  | up e => obtain ⟨a, b, c, d, e', f, g, h', i⟩ := s; exact (good_close ad a b c d e' f g h' i e h).1
  | down e => obtain ⟨a, b, c, d, e', f, g, h', i⟩ := s; exact (good_close ad a b c d e' f g h' i e h).2
  | data => exact good_refl ad s h

/-! ### the counters follow the log -/

def kappa (max : Nat) : Int := if max = 0 then 0 else 1

theorem increase_eq (m : Nat) (n : Int) : Gen.Resource.increase (m : Int) n = n + kappa m := by
  unfold Gen.Resource.increase kappa
  by_cases h : m = 0 <;> simp [h]

theorem decrease_eq (m : Nat) (n : Int) : Gen.Resource.decrease (m : Int) n = n - kappa m := by
  unfold Gen.Resource.decrease kappa
  by_cases h : m = 0 <;> simp [h] <;> omega

theorem canCreate_iff (m : Nat) (n : Int) (hn : 0 ≤ n) : Gen.Resource.canCreate (m : Int) n = true ↔ (m = 0 ∨ n < m) := by
  unfold Gen.Resource.canCreate
  by_cases hm : m = 0
  · simp [hm]
  · have hneg : ¬ n < 0 := by omega
    simp [hm, hneg]

theorem applyActs_cur (m : Nat) (l : List Act) : ∀ g : G, (applyActs m g l).cur = g.cur + kappa m * dRes l := by
  induction l with
  | nil => intro g; simp [applyActs, dRes]
  | cons a l ih =>
    intro g
    have := ih (applyAct m g a)
    simp only [applyActs, List.foldl_cons] at this ⊢
    rw [this]
    cases a <;> simp only [applyAct, dRes, increase_eq, decrease_eq] <;>
      (unfold kappa; split <;> omega)

theorem applyActs_num (m : Nat) (l : List Act) : ∀ g : G, (applyActs m g l).numConns = g.numConns + dNum l := by
  induction l with
  | nil => intro g; simp [applyActs, dNum]
  | cons a l ih =>
    intro g
    have := ih (applyAct m g a)
    simp only [applyActs, List.foldl_cons] at this ⊢
    rw [this]
    cases a <;> simp only [applyAct, dNum] <;> omega

theorem applyActs_stat (m : Nat) (sc : Scope) (st : Stat) (l : List Act) :
    ∀ g : G, (applyActs m g l).stats sc st = g.stats sc st + dStat sc st l := by
  induction l with
  | nil => intro g; simp [applyActs, dStat]
  | cons a l ih =>
    intro g
    have := ih (applyAct m g a)
    simp only [applyActs, List.foldl_cons] at this ⊢
    rw [this]
    cases a with
    | bump sc' st' d =>
      simp only [applyAct, dStat]
      by_cases hc : sc' = sc ∧ st' = st
      · obtain ⟨h1, h2⟩ := hc; subst h1; subst h2; simp; omega
      · have hc' : ¬ (sc = sc' ∧ st = st') := fun h => hc ⟨h.1.symm, h.2.symm⟩
        simp [hc, hc']
    | _ => simp [applyAct, dStat]

/-! ### sums over the sessions -/

theorem liveCount_append (a b : List Sess) : liveCount (a ++ b) = liveCount a + liveCount b := by
  induction a with
  | nil => simp [liveCount]
  | cons x a ih => simp only [List.cons_append, liveCount, ih]; omega

theorem downCount_append (a b : List Sess) : downCount (a ++ b) = downCount a + downCount b := by
  induction a with
  | nil => simp [downCount]
  | cons x a ih => simp only [List.cons_append, downCount, ih]; omega

theorem liveCount_set (ss : List Sess) (i : Nat) (s s' : Sess) (h : ss[i]? = some s) :
    liveCount (ss.set i s') = liveCount ss - b2i s.live + b2i s'.live := by
  induction ss generalizing i with
  | nil => simp at h
  | cons x ss ih =>
    cases i with
    | zero => simp at h; subst h; simp [liveCount]; omega
    | succ i => simp at h; simp only [List.set_cons_succ, liveCount, ih i h]; omega

theorem downCount_set (ss : List Sess) (i : Nat) (s s' : Sess) (h : ss[i]? = some s) :
    downCount (ss.set i s') = downCount ss - b2i s.downLive + b2i s'.downLive := by
  induction ss generalizing i with
  | nil => simp at h
  | cons x ss ih =>
    cases i with
    | zero => simp at h; subst h; simp [downCount]; omega
    | succ i => simp at h; simp only [List.set_cons_succ, downCount, ih i h]; omega

theorem liveCount_nonneg (ss : List Sess) : 0 ≤ liveCount ss := by
  induction ss with
  | nil => simp [liveCount]
  | cons x ss ih => simp only [liveCount, b2i]; split <;> omega

theorem downCount_nonneg (ss : List Sess) : 0 ≤ downCount ss := by
  induction ss with
  | nil => simp [downCount]
  | cons x ss ih => simp only [downCount, b2i]; split <;> omega

theorem liveCount_zero (ss : List Sess) (h : ∀ s ∈ ss, s.live = false) : liveCount ss = 0 := by
  induction ss with
  | nil => rfl
  | cons x ss ih =>
    have hx := h x (by simp)
    simp only [liveCount, hx, b2i, ih (fun s hs => h s (by simp [hs]))]; rfl

theorem downCount_zero (ss : List Sess) (h : ∀ s ∈ ss, s.downLive = false) : downCount ss = 0 := by
  induction ss with
  | nil => rfl
  | cons x ss ih =>
    have hx := h x (by simp)
    simp only [downCount, hx, b2i, ih (fun s hs => h s (by simp [hs]))]; rfl

/-! ### the invariant of the whole proxy -/

structure Inv (st : St) : Prop where
  wf : ∀ s ∈ st.ss, wf s = true
  ok : st.stuck = false
  cur : st.g.cur = kappa st.max * ((st.amb : Int) + liveCount st.ss)
  cA : st.g.stats .cluster .UpstreamConnectionActive = liveCount st.ss
  hA : st.g.stats .host .UpstreamConnectionActive = liveCount st.ss
  num : st.g.numConns = downCount st.ss
  le : st.max ≠ 0 → st.g.cur ≤ st.max

theorem Inv.cur_nonneg {st : St} (h : Inv st) : 0 ≤ st.g.cur := by
  rw [h.cur]; have := liveCount_nonneg st.ss
  unfold kappa; split <;> omega

theorem inv_init (max : Nat) : Inv { max := max } := by
  refine ⟨by simp, rfl, ?_, rfl, rfl, rfl, ?_⟩
  · simp [liveCount]
  · intro _; show (0 : Int) ≤ _; omega

theorem good_unpack {ad : Bool} {s : Sess} {c : Ctl} (h : good ad s c = true) :
    wf c.s = true ∧ c.stuck = false ∧ (c.s.live = true → s.live = false → ad = true) ∧ dRes c.log = b2i c.s.live - b2i s.live ∧
    dStat .cluster .UpstreamConnectionActive c.log = b2i c.s.live - b2i s.live ∧
    dStat .host .UpstreamConnectionActive c.log = b2i c.s.live - b2i s.live ∧
    dNum c.log = b2i c.s.downLive - b2i s.downLive ∧ checkFresh c.log = true := by
  simp only [good, Bool.and_eq_true, beq_iff_eq, Bool.not_eq_true'] at h
  obtain ⟨⟨⟨⟨⟨⟨⟨h1, h2⟩, h3⟩, h4⟩, h5⟩, h6⟩, h7⟩, h8⟩ := h
  refine ⟨h1, h2, ?_, h4, h5, h6, h7, h8⟩
  intro hl hs
  simpa [imp, hl, hs] using h3

/-- the session part of a step, for a session list `ss` that already satisfies the invariant -/
theorem inv_sess (st : St) (h : Inv st) (i : Nat) (s : Sess) (ev : Ev) (hs : st.ss[i]? = some s)
    (c : Ctl) (hc : c = sstep (Gen.Resource.canCreate st.max st.g.cur) s ev) :
    Inv { st with g := applyActs st.max st.g c.log, ss := st.ss.set i c.s, stuck := st.stuck || c.stuck } := by
  have hmem : s ∈ st.ss := List.mem_of_getElem? hs
  have hg := good_sstep (Gen.Resource.canCreate st.max st.g.cur) s ev (h.wf s hmem)
  rw [← hc] at hg
  obtain ⟨g1, g2, gg, g3, g4, g5, g6, g7⟩ := good_unpack hg
  have hl := liveCount_set st.ss i s c.s hs
  have hd := downCount_set st.ss i s c.s hs
  refine ⟨?_, ?_, ?_, ?_, ?_, ?_, ?_⟩
  · intro x hx
    rcases List.mem_or_eq_of_mem_set hx with hx | hx
    · exact h.wf x hx
    · rw [hx]; exact g1
  · show (st.stuck || c.stuck) = false
    simp [h.ok, g2]
  · show (applyActs st.max st.g c.log).cur = kappa st.max * ((st.amb : Int) + liveCount (st.ss.set i c.s))
    rw [applyActs_cur, h.cur, g3, hl]
    unfold kappa; split <;> omega
  · show (applyActs st.max st.g c.log).stats _ _ = liveCount (st.ss.set i c.s)
    rw [applyActs_stat, h.cA, g4, hl]; omega
  · show (applyActs st.max st.g c.log).stats _ _ = liveCount (st.ss.set i c.s)
    rw [applyActs_stat, h.hA, g5, hl]; omega
  · show (applyActs st.max st.g c.log).numConns = downCount (st.ss.set i c.s)
    rw [applyActs_num, h.num, g6, hd]; omega
  · intro hm
    show (applyActs st.max st.g c.log).cur ≤ (st.max : Int)
    have hm' : st.max ≠ 0 := hm
    rw [applyActs_cur, g3]
    have hk : kappa st.max = 1 := by simp [kappa, hm']
    have hle := h.le hm'
    rw [hk]
    by_cases hcl : c.s.live = true
    · by_cases hs' : s.live = true
      · simp [b2i, hcl, hs']; exact hle
      · have hadm := gg hcl (by simpa using hs')
        have := (canCreate_iff st.max st.g.cur h.cur_nonneg).1 hadm
        simp [b2i, hcl, hs']; omega
    · have : b2i c.s.live - b2i s.live ≤ 0 := by
        have hf : c.s.live = false := by simpa using hcl
        cases hsl : s.live <;> simp [b2i, hf]
      omega

theorem wf_fresh_true : wf {} = true := by decide

theorem inv_ext (st : St) (h : Inv st) : Inv { st with ss := st.ss ++ [{}] } := by
  have e1 : liveCount (st.ss ++ [({} : Sess)]) = liveCount st.ss := by
    rw [liveCount_append]; simp [liveCount, Sess.live, b2i]
  have e2 : downCount (st.ss ++ [({} : Sess)]) = downCount st.ss := by
    rw [downCount_append]; simp [downCount, Sess.downLive, b2i]
  refine ⟨?_, h.ok, ?_, ?_, ?_, ?_, h.le⟩
  · intro x hx
    rcases List.mem_append.1 hx with hx | hx
    · exact h.wf x hx
    · simp at hx; rw [hx]; exact wf_fresh_true
  · show st.g.cur = kappa st.max * ((st.amb : Int) + liveCount (st.ss ++ [({} : Sess)])); rw [e1]; exact h.cur
  · show st.g.stats _ _ = liveCount (st.ss ++ [({} : Sess)]); rw [e1]; exact h.cA
  · show st.g.stats _ _ = liveCount (st.ss ++ [({} : Sess)]); rw [e1]; exact h.hA
  · show st.g.numConns = downCount (st.ss ++ [({} : Sess)]); rw [e2]; exact h.num

theorem inv_step (st : St) (h : Inv st) (l : Label) : Inv (step st l) := by
  cases l with
  | sess i ev =>
    simp only [step]
    -- the session list the label acts on
    generalize hss : (if i = st.ss.length then (match ev with | .accept .. => st.ss ++ [{}] | _ => st.ss) else st.ss) = ss
    have hinv : Inv { st with ss := ss } := by
      by_cases hi : i = st.ss.length
      · simp only [hi, if_true] at hss
        cases ev <;> simp only at hss <;> subst hss
        · exact inv_ext st h
        all_goals exact h
      · simp only [hi, if_false] at hss; subst hss; exact h
    cases hs : ss[i]? with
    | none => exact h
    | some s => exact inv_sess { st with ss := ss } hinv i s ev hs _ rfl
  | ambInc =>
    simp only [step]
    split
    · rename_i hc
      have hlt := (canCreate_iff st.max st.g.cur h.cur_nonneg).1 hc
      refine ⟨h.wf, h.ok, ?_, h.cA, h.hA, h.num, ?_⟩
      · show Gen.Resource.increase st.max st.g.cur = kappa st.max * (((st.amb + 1 : Nat) : Int) + liveCount st.ss)
        rw [increase_eq, h.cur]; unfold kappa; split <;> omega
      · intro hm
        show Gen.Resource.increase st.max st.g.cur ≤ (st.max : Int)
        have hm' : st.max ≠ 0 := hm
        rw [increase_eq]; have : kappa st.max = 1 := by simp [kappa, hm']
        rw [this]; rcases hlt with h0 | h0
        · exact absurd h0 hm'
        · omega
    · exact h
  | ambDec =>
    simp only [step]
    split
    · exact h
    · rename_i ha
      refine ⟨h.wf, h.ok, ?_, h.cA, h.hA, h.num, ?_⟩
      · show Gen.Resource.decrease st.max st.g.cur = kappa st.max * (((st.amb - 1 : Nat) : Int) + liveCount st.ss)
        rw [decrease_eq, h.cur]; unfold kappa; split <;> omega
      · intro hm
        show Gen.Resource.decrease st.max st.g.cur ≤ (st.max : Int)
        have hm' : st.max ≠ 0 := hm
        rw [decrease_eq]; have : kappa st.max = 1 := by simp [kappa, hm']
        rw [this]; have := h.le hm'; omega

theorem step_max (st : St) (l : Label) : (step st l).max = st.max := by
  cases l with
  | sess i ev => simp only [step]; split <;> rfl
  | ambInc => simp only [step]; split <;> rfl
  | ambDec => simp only [step]; split <;> rfl

theorem foldl_inv (l : List Label) : ∀ st, Inv st → Inv (l.foldl step st) := by
  induction l with
  | nil => intro st h; exact h
  | cons a l ih => intro st h; exact ih _ (inv_step st h a)

theorem foldl_max (l : List Label) : ∀ st : St, (l.foldl step st).max = st.max := by
  induction l with
  | nil => intro st; rfl
  | cons a l ih => intro st; simp only [List.foldl_cons]; rw [ih, step_max]

theorem inv_run (max : Nat) (l : List Label) : Inv (run max l) := foldl_inv l _ (inv_init max)
theorem run_max (max : Nat) (l : List Label) : (run max l).max = max := foldl_max l _

/-- what `accept` on the index just past the end does: a new session, started with the breaker's current answer -/
theorem step_accept_new (st : St) (nc : Bool) (hn : Nat) (t0 t1 t2 : Try) :
    let c := sstep (Gen.Resource.canCreate st.max st.g.cur) {} (.accept nc hn t0 t1 t2)
    step st (.sess st.ss.length (.accept nc hn t0 t1 t2)) =
      { st with g := applyActs st.max st.g c.log, ss := st.ss ++ [c.s], stuck := st.stuck || c.stuck } := by
  simp [step]

end MosnVerif.Lemmas.TcpLedger
