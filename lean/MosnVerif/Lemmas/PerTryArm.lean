import MosnVerif.Model.PerTryArm
import MosnVerif.Lemmas.Retry
/-! [c17pt] lemmas: the regenerated arming condition is exactly `TryTimeout > 0`, both call sites arm, every attempt is logged -/
namespace MosnVerif.Model.PerTryArm
open MosnVerif.Model.Retry MosnVerif.Gen.RetryState MosnVerif.Gen.PerTryArm

theorem armCond_exact (a : ArmState) : armCond a = decide (a.tryTimeout > 0) := by
  simp [armCond]

theorem requestSentArms_two_way : requestSentArms true false = true := by decide

theorem doRetryCall_arms (g : Bool) : doRetryCall g ≠ .none := by cases g <;> decide

theorem firstArmed_pos (p : Policy) (tryT : Int) (s : St) (h : tryT > 0) : firstArmed armCond (armState p tryT s) = true := by
  simp [firstArmed, armState, armCond_exact, requestSentArms_two_way, h]

theorem retryArmed_pos (p : Policy) (tryT : Int) (s : St) (g : Bool) (h : tryT > 0) : retryArmed armCond g (armState p tryT s) = true := by
  unfold retryArmed
  have hn := doRetryCall_arms g
  cases hc : doRetryCall g with
  | none => exact absurd hc hn
  | direct => simp [armState, armCond_exact, h]
  | viaRequestSent => simp [armState, armCond_exact, requestSentArms_two_way, h]

theorem hijack_attempts (s : St) (c : Int) : (hijack s c).attempts = s.attempts := by
  unfold hijack; split <;> rfl

theorem forward_attempts (s : St) (c : Int) : (forward s c).attempts = s.attempts := rfl

theorem doRetry_attempts (s : St) (h : Option Nat) : (doRetry s h).attempts = s.attempts ∨ (doRetry s h).attempts = s.attempts + 1 := by
  unfold doRetry
  split
  · exact Or.inl rfl
  · cases h with
    | none => left; simp only; rw [hijack_attempts]
    | some x => right; rfl

theorem stepResp_attempts (p : Policy) (s : St) (c : Nat) (l : Label) :
    (stepResp p s c l).attempts = s.attempts ∨ (stepResp p s c l).attempts = s.attempts + 1 := by
  unfold stepResp
  simp only
  split
  · split
    · exact doRetry_attempts _ _
    · exact Or.inl (forward_attempts _ _)
  · exact Or.inl (forward_attempts _ _)

theorem stepReset_attempts (p : Policy) (s : St) (o : Outcome) (l : Label) :
    (stepReset p s o l).attempts = s.attempts ∨ (stepReset p s o l).attempts = s.attempts + 1 := by
  unfold stepReset
  simp only
  split
  · split
    · exact doRetry_attempts _ _
    · exact Or.inl (hijack_attempts _ _)
  · exact Or.inl (hijack_attempts _ _)

theorem step_attempts (p : Policy) (s : St) (l : Label) :
    (step p s l).attempts = s.attempts ∨ (step p s l).attempts = s.attempts + 1 := by
  unfold step
  split
  · split
    · exact stepReset_attempts _ _ _ _
    · exact Or.inl rfl
  · split
    · exact Or.inl rfl
    · simp only
      split
      · exact stepResp_attempts _ _ _ _
      · exact stepReset_attempts _ _ _ _

/-- invariant of the log: one entry per attempt, every entry `true` -/
theorem armLog_inv (p : Policy) (tryT : Int) (g : Nat → Bool) (h : tryT > 0) (ls : List Label) (acc : St × List Bool)
    (h1 : acc.2.length = acc.1.attempts) (h2 : ∀ b ∈ acc.2, b = true) :
    let r := ls.foldl (armLogStep armCond p tryT g) acc
    r.2.length = r.1.attempts ∧ (∀ b ∈ r.2, b = true) ∧ r.1 = ls.foldl (step p) acc.1 := by
  induction ls generalizing acc with
  | nil => exact ⟨h1, h2, rfl⟩
  | cons l r ih =>
    simp only [List.foldl_cons]
    apply ih
    · unfold armLogStep
      simp only
      rcases step_attempts p acc.1 l with he | he
      · simp [he, h1]
      · simp [he, h1]
    · unfold armLogStep
      simp only
      split
      · intro b hb
        rcases List.mem_append.mp hb with hb | hb
        · exact h2 b hb
        · simp only [List.mem_singleton] at hb
          rw [hb]; exact retryArmed_pos p tryT _ _ h
      · exact h2

theorem start_attempts (p : Policy) (host0 : Option Nat) : (start p host0).attempts = 0 ∨ (start p host0).attempts = 1 := by
  unfold start
  cases host0 with
  | none => left; simp only; rw [hijack_attempts]
  | some h => right; rfl

end MosnVerif.Model.PerTryArm
