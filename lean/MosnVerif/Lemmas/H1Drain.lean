import MosnVerif.Model.H1Drain
/-! Lemmas about the drain mark of an HTTP/1 server connection: the mark is sticky under the regenerated assignment
rules, and a marked connection writes at most one more response — with `Connection: close`, closing after it. -/
namespace MosnVerif.Lemmas.H1Drain
open MosnVerif.Model.H1Drain MosnVerif.Gen.H1Drain

/-- the transfer event sets the mark whatever it was -/
theorem mark_sets (b : Bool) : markUpdate b = true := by
  cases b <;> decide

/-- no parsed request clears a set mark: every assignment in `serve` is `= true` or under a guard that cannot clear it -/
theorem parse_keeps (rc : Bool) : parseUpdate true rc = true := by
  cases rc <;> decide

/-- a marked connection answers `Connection: close` and closes -/
theorem resp_of_mark (rc : Bool) : respCloses true rc = true := by
  cases rc <;> decide

theorem step_flag (c : Conn) (e : Ev) (h : c.flag = true) : (step c e).1.flag = true := by
  cases e with
  | mark => simp only [step, stepWith, codeRules]; exact mark_sets _
  | parse rc =>
    simp only [step, stepWith, codeRules]
    split
    · exact h
    · simp only [h]; exact parse_keeps rc
  | respond =>
    simp only [step, stepWith]
    split
    · exact h
    · split <;> exact h

theorem run_nil (c : Conn) : run c [] = (c, []) := rfl

theorem run_cons (c : Conn) (e : Ev) (es : List Ev) :
    run c (e :: es) = ((run (step c e).1 es).1, (step c e).2 ++ (run (step c e).1 es).2) := rfl

theorem run_append (c : Conn) (a b : List Ev) :
    run c (a ++ b) = ((run (run c a).1 b).1, (run c a).2 ++ (run (run c a).1 b).2) := by
  induction a generalizing c with
  | nil => simp [run_nil]
  | cons e es ih => simp only [List.cons_append, run_cons, ih, List.append_assoc]

theorem run_flag (c : Conn) (evs : List Ev) (h : c.flag = true) : (run c evs).1.flag = true := by
  induction evs generalizing c with
  | nil => exact h
  | cons e es ih => rw [run_cons]; exact ih _ (step_flag c e h)

/-- a closed connection writes nothing any more -/
theorem step_closed (c : Conn) (e : Ev) (h : c.closed = true) : (step c e).1.closed = true ∧ (step c e).2 = [] := by
  cases e with
  | mark => simp [step, stepWith, h]
  | parse rc => simp [step, stepWith, h]
  | respond =>
    simp only [step, stepWith]
    split
    · exact ⟨h, rfl⟩
    · simp [h]

theorem run_closed (c : Conn) (evs : List Ev) (h : c.closed = true) : (run c evs).2 = [] := by
  induction evs generalizing c with
  | nil => rfl
  | cons e es ih =>
    rw [run_cons]
    simp only [(step_closed c e h).2, List.nil_append]
    exact ih _ (step_closed c e h).1

theorem run_closed_state (c : Conn) (evs : List Ev) (h : c.closed = true) : (run c evs).1.closed = true := by
  induction evs generalizing c with
  | nil => exact h
  | cons e es ih => rw [run_cons]; exact ih _ (step_closed c e h).1

/-- one step of a marked, open connection: either nothing is written and it stays open, or the step is the response —
`Connection: close`, then closed -/
theorem step_marked (c : Conn) (e : Ev) (hf : c.flag = true) (hc : c.closed = false) :
    ((step c e).2 = [] ∧ (step c e).1.closed = false) ∨
    ((step c e).2 = [Out.resp true, Out.closed] ∧ (step c e).1.closed = true) := by
  cases e with
  | mark => left; simp [step, stepWith, hc]
  | parse rc =>
    left
    simp only [step, stepWith]
    split <;> simp [hc]
  | respond =>
    simp only [step, stepWith]
    split
    · left; exact ⟨rfl, hc⟩
    · rename_i rc _
      right
      simp [hc, hf, resp_of_mark rc]

theorem run_marked (c : Conn) (evs : List Ev) (hf : c.flag = true) (hc : c.closed = false) :
    ((run c evs).2 = [] ∧ (run c evs).1.closed = false) ∨
    ((run c evs).2 = [Out.resp true, Out.closed] ∧ (run c evs).1.closed = true) := by
  induction evs generalizing c with
  | nil => left; exact ⟨rfl, hc⟩
  | cons e es ih =>
    rw [run_cons]
    rcases step_marked c e hf hc with ⟨h1, h2⟩ | ⟨h1, h2⟩
    · rw [h1]
      simp only [List.nil_append]
      exact ih _ (step_flag c e hf) h2
    · right
      rw [h1, run_closed _ es h2]
      exact ⟨rfl, run_closed_state _ es h2⟩

end MosnVerif.Lemmas.H1Drain
