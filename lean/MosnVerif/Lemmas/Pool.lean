import MosnVerif.Model.PoolSpec
/-! helper lemmas for C09: list surgery of the idle list, live-stream counting, the invariant `Inv` and its
preservation by the four canonical transitions every pool operation reduces to. Core Lean only. -/
namespace MosnVerif.Model.Pool
open MosnVerif.Gen.Pool

/-! ### counting live streams -/
theorem countLive_congr (f g : Nat → Stream) (n : Nat) (h : ∀ k, k < n → (f k).live = (g k).live) :
    countLive f n = countLive g n := by
  induction n with
  | zero => rfl
  | succ n ih =>
    simp only [countLive]
    rw [ih (fun k hk => h k (by omega)), h n (by omega)]

theorem countLive_kill (f g : Nat → Stream) (n i : Nat) (hi : i < n) (hl : (f i).live = true) (hd : (g i).live = false)
    (h : ∀ k, k ≠ i → (g k).live = (f k).live) : countLive g n + 1 = countLive f n := by
  induction n with
  | zero => omega
  | succ n ih =>
    simp only [countLive]
    by_cases hin : i = n
    · subst hin
      rw [countLive_congr g f i (fun k hk => h k (by omega)), hl, hd]; simp
    · rw [h n (by omega)]
      have := ih (by omega)
      omega

/-! ### the idle list -/
theorem map_repl_of_not_mem (ys : List Nat) (c last : Nat) (h : c ∉ ys) :
    ys.map (fun x => if x = c then last else x) = ys := by
  induction ys with
  | nil => rfl
  | cons y r ih =>
    simp only [List.mem_cons, not_or] at h
    simp only [List.map_cons, ih h.2]
    have : y ≠ c := fun e => h.1 e.symm
    simp [this]

theorem mem_map_repl (ys : List Nat) (c last x : Nat) (hc : c ∈ ys) :
    x ∈ ys.map (fun y => if y = c then last else y) ↔ (x ∈ ys ∧ x ≠ c) ∨ x = last := by
  induction ys with
  | nil => simp at hc
  | cons y r ih =>
    by_cases hcr : c ∈ r
    · have := ih hcr
      simp only [List.map_cons, List.mem_cons, this]
      by_cases hy : y = c <;> grind
    · rw [List.map_cons, map_repl_of_not_mem r c last hcr]
      have hyc : y = c := by simp only [List.mem_cons] at hc; rcases hc with h | h; exact h.symm; exact absurd h hcr
      subst hyc
      simp only [List.mem_cons, if_true]
      grind

theorem nodup_map_repl (ys : List Nat) (c last : Nat) (hnd : ys.Nodup) (hl : last ∉ ys) :
    (ys.map (fun y => if y = c then last else y)).Nodup := by
  induction ys with
  | nil => simp
  | cons y r ih =>
    rw [List.nodup_cons] at hnd
    simp only [List.mem_cons, not_or] at hl
    rw [List.map_cons, List.nodup_cons]
    refine ⟨?_, ih hnd.2 hl.2⟩
    by_cases hcr : c ∈ r
    · have hyc : y ≠ c := fun e => hnd.1 (e ▸ hcr)
      rw [if_neg hyc, mem_map_repl r c last y hcr]
      intro h; rcases h with h | h
      · exact hnd.1 h.1
      · exact hl.1 h.symm
    · rw [map_repl_of_not_mem r c last hcr]
      by_cases hyc : y = c
      · rw [if_pos hyc]; exact hl.2
      · rw [if_neg hyc]; exact hnd.1

theorem swapRemove_concat (ys : List Nat) (last c : Nat) :
    swapRemove (ys ++ [last]) c = if c ∈ ys ++ [last] then ys.map (fun x => if x = c then last else x) else ys ++ [last] := by
  simp [swapRemove]

theorem mem_swapRemove (l : List Nat) (hnd : l.Nodup) (c x : Nat) : x ∈ swapRemove l c ↔ x ∈ l ∧ x ≠ c := by
  rcases List.eq_nil_or_concat l with rfl | ⟨ys, last, rfl⟩
  · simp [swapRemove]
  · have hl : last ∉ ys := by
      intro h; rw [List.concat_eq_append] at hnd; exact (List.nodup_append.mp hnd).2.2 last h last (by simp) rfl
    rw [List.concat_eq_append] at *
    rw [swapRemove_concat]
    by_cases hc : c ∈ ys ++ [last]
    · rw [if_pos hc]
      by_cases hcy : c ∈ ys
      · rw [mem_map_repl ys c last x hcy]; grind
      · rw [map_repl_of_not_mem ys c last hcy]
        have : c = last := by simp at hc; rcases hc with h | h; exact absurd h hcy; exact h
        subst this; grind
    · rw [if_neg hc]; grind

theorem nodup_swapRemove (l : List Nat) (hnd : l.Nodup) (c : Nat) : (swapRemove l c).Nodup := by
  rcases List.eq_nil_or_concat l with rfl | ⟨ys, last, rfl⟩
  · simp [swapRemove]
  · rw [List.concat_eq_append] at *
    have hl : last ∉ ys := fun h => (List.nodup_append.mp hnd).2.2 last h last (by simp) rfl
    have hys : ys.Nodup := (List.nodup_append.mp hnd).1
    rw [swapRemove_concat]
    split
    · exact nodup_map_repl ys c last hys hl
    · exact hnd

theorem length_swapRemove (l : List Nat) (c : Nat) (hc : c ∈ l) : (swapRemove l c).length + 1 = l.length := by
  rcases List.eq_nil_or_concat l with rfl | ⟨ys, last, rfl⟩
  · simp at hc
  · rw [List.concat_eq_append] at *
    rw [swapRemove_concat, if_pos hc]
    simp

theorem swapRemove_of_not_mem (l : List Nat) (c : Nat) (hc : c ∉ l) : swapRemove l c = l := by
  unfold swapRemove
  split
  · rfl
  · rw [if_neg hc]

theorem mem_removeIdle (k : Kind) (l : List Nat) (hnd : l.Nodup) (c x : Nat) :
    x ∈ removeIdle k l c ↔ x ∈ l ∧ x ≠ c := by
  cases k
  · simp only [removeIdle]; rw [hnd.mem_erase_iff]; exact And.comm
  · exact mem_swapRemove l hnd c x

theorem nodup_removeIdle (k : Kind) (l : List Nat) (hnd : l.Nodup) (c : Nat) : (removeIdle k l c).Nodup := by
  cases k
  · exact hnd.erase c
  · exact nodup_swapRemove l hnd c

theorem length_removeIdle (k : Kind) (l : List Nat) (c : Nat) (hc : c ∈ l) : (removeIdle k l c).length + 1 = l.length := by
  cases k
  · simp only [removeIdle]; rw [List.length_erase_of_mem hc]
    have : 0 < l.length := List.length_pos_of_mem hc
    omega
  · exact length_swapRemove l c hc

theorem removeIdle_of_not_mem (k : Kind) (l : List Nat) (c : Nat) (hc : c ∉ l) : removeIdle k l c = l := by
  cases k
  · exact List.erase_of_not_mem hc
  · exact swapRemove_of_not_mem l c hc

/-! ### the invariant -/
structure Inv (s : State) : Prop where
  books : s.total = (s.liveCount : Int) + (s.idle.length : Int)
  idleNodup : s.idle.Nodup
  idleOk : ∀ c, c ∈ s.idle → c < s.nClients ∧ (s.client c).closed = false ∧
      ∀ i, i < s.nStreams → (s.stream i).live = true → (s.stream i).conn ≠ c
  excl : ∀ i j, i < s.nStreams → j < s.nStreams → (s.stream i).live = true → (s.stream j).live = true →
      (s.stream i).conn = (s.stream j).conn → i = j
  liveOk : ∀ i, i < s.nStreams → (s.stream i).live = true → (s.client (s.stream i).conn).closed = false
  connOk : ∀ i, i < s.nStreams → (s.stream i).conn < s.nClients
  flagTruth : ∀ c, c < s.nClients → (s.client c).netOpen = !(s.client c).closed
  noLeak : ∀ c, c < s.nClients → (s.client c).closed = false →
      c ∈ s.idle ∨ ∃ i, i < s.nStreams ∧ (s.stream i).live = true ∧ (s.stream i).conn = c
  dirtyClosed : ∀ c, c < s.nClients → (s.client c).dirty = true → (s.client c).closed = true
  req : s.reqCur = if s.maxReq = 0 then 0 else (s.ext : Int) + (s.liveCount : Int)
  liveFresh : ∀ i, i < s.nStreams → (s.stream i).live = true →
      (s.stream i).recv = 0 ∧ (s.stream i).resets = [] ∧ (s.stream i).destroys = 0
  deadOnce : ∀ i, i < s.nStreams → (s.stream i).live = false →
      (s.stream i).destroys = 1 ∧ (s.stream i).recv ≤ 1 ∧ (s.stream i).resets.length ≤ 1 ∧
      ((s.stream i).recv = 1 → (s.stream i).resets = [])
  resetDirty : ∀ i, i < s.nStreams → (s.stream i).resets ≠ [] → (s.client (s.stream i).conn).dirty = true
  deadWhy : ∀ i, i < s.nStreams → (s.stream i).live = false → (s.stream i).recv = 1 ∨ (s.stream i).resets ≠ []

theorem resIncrease_eq (m : Nat) (cur : Int) : resIncrease m cur = if m = 0 then cur else cur + 1 := by
  unfold resIncrease; by_cases h : m = 0 <;> simp [h]
theorem resDecrease_eq (m : Nat) (cur : Int) : resDecrease m cur = if m = 0 then cur else cur - 1 := by
  unfold resDecrease; by_cases h : m = 0 <;> simp [h] <;> omega

theorem inv_init (k : Kind) (mc mr : Nat) : Inv (init k mc mr) := by
  refine { books := rfl, idleNodup := List.nodup_nil, idleOk := ?_, excl := ?_, liveOk := ?_, connOk := ?_,
           flagTruth := ?_, noLeak := ?_, dirtyClosed := ?_, req := ?_, liveFresh := ?_, deadOnce := ?_, resetDirty := ?_, deadWhy := ?_ }
  all_goals simp [init, State.liveCount, countLive]

theorem live_new (c : Nat) : ({ conn := c } : Stream).live = true := by simp [Stream.live]

theorem liveCount_lease (s : State) (c : Nat) : (lease s c).liveCount = s.liveCount + 1 := by
  unfold State.liveCount
  show countLive (lease s c).stream (s.nStreams + 1) = _
  simp only [countLive]
  rw [countLive_congr (lease s c).stream s.stream s.nStreams (fun k hk => by simp [lease, Nat.ne_of_lt hk])]
  simp [lease, live_new]

/-- a fresh client is added to the pool's count -/
def withNewClient (s : State) : State :=
  { s with total := s.total + 1, nClients := s.nClients + 1, client := fun k => if k = s.nClients then {} else s.client k }

/-- T1: a fresh client is created and leased -/
theorem inv_lease_new (s : State) (h : Inv s) : Inv (lease (withNewClient s) s.nClients) := by
  have hlc : (lease (withNewClient s) s.nClients).liveCount = s.liveCount + 1 := liveCount_lease _ _
  obtain ⟨b, nd, io, ex, lo, co, ft, nl, dc, rq, lf, dn, rd, dw⟩ := h
  refine { books := ?_, idleNodup := nd, idleOk := ?_, excl := ?_, liveOk := ?_, connOk := ?_,
           flagTruth := ?_, noLeak := ?_, dirtyClosed := ?_, req := ?_, liveFresh := ?_, deadOnce := ?_, resetDirty := ?_, deadWhy := ?_ }
  · rw [hlc]; simp [lease, withNewClient]; omega
  · simp only [lease, withNewClient]; grind
  · simp only [lease, withNewClient]; grind
  · simp only [lease, withNewClient]; grind
  · simp only [lease, withNewClient]; grind
  · simp only [lease, withNewClient]; grind
  · intro c hc hcl
    simp only [lease, withNewClient] at hc hcl ⊢
    by_cases hcn : c = s.nClients
    · right; exact ⟨s.nStreams, by omega, by simp [live_new], by simp [hcn]⟩
    · simp only [hcn, if_false] at hcl
      rcases nl c (by omega) hcl with h1 | ⟨i, hi, hl, hc'⟩
      · left; exact h1
      · right; exact ⟨i, by omega, by simp [Nat.ne_of_lt hi, hl], by simp [Nat.ne_of_lt hi, hc']⟩
  · simp only [lease, withNewClient]; grind
  · rw [hlc]; simp only [lease, withNewClient, resIncrease_eq]; grind
  · simp only [lease, withNewClient]; grind [Stream.live]
  · simp only [lease, withNewClient]; grind [Stream.live]
  · simp only [lease, withNewClient]; grind
  · simp only [lease, withNewClient]; grind [Stream.live]

/-- T2: the last idle client is leased -/
theorem inv_lease_pop (s : State) (h : Inv s) (rest : List Nat) (c : Nat) (hidle : s.idle = rest ++ [c]) :
    Inv (lease { s with idle := rest } c) := by
  have hlc : (lease { s with idle := rest } c).liveCount = s.liveCount + 1 := liveCount_lease _ _
  obtain ⟨b, nd, io, ex, lo, co, ft, nl, dc, rq, lf, dn, rd, dw⟩ := h
  have hcm : c ∈ s.idle := by rw [hidle]; simp
  have hcr : c ∉ rest := by
    intro hm; rw [hidle] at nd; exact (List.nodup_append.mp nd).2.2 c hm c (by simp) rfl
  have hsub : ∀ x, x ∈ rest → x ∈ s.idle := by intro x hx; rw [hidle]; simp [hx]
  have hnd : rest.Nodup := by rw [hidle] at nd; exact (List.nodup_append.mp nd).1
  have hlen : s.idle.length = rest.length + 1 := by rw [hidle]; simp
  have ⟨hc1, hc2, hc3⟩ := io c hcm
  refine { books := ?_, idleNodup := hnd, idleOk := ?_, excl := ?_, liveOk := ?_, connOk := ?_,
           flagTruth := ?_, noLeak := ?_, dirtyClosed := ?_, req := ?_, liveFresh := ?_, deadOnce := ?_, resetDirty := ?_, deadWhy := ?_ }
  · rw [hlc]; simp [lease]; omega
  · simp only [lease]; grind
  · simp only [lease]; grind
  · simp only [lease]; grind
  · simp only [lease]; grind
  · simp only [lease]; grind
  · intro k hk hcl
    simp only [lease] at hk hcl ⊢
    by_cases hkc : k = c
    · right; exact ⟨s.nStreams, by omega, by simp [live_new], by simp [hkc]⟩
    · rcases nl k hk hcl with h1 | ⟨i, hi, hl, hc'⟩
      · left; rw [hidle] at h1; simp at h1; rcases h1 with h1 | h1; exact h1; exact absurd h1 hkc
      · right; exact ⟨i, by omega, by simp [Nat.ne_of_lt hi, hl], by simp [Nat.ne_of_lt hi, hc']⟩
  · simp only [lease]; grind
  · rw [hlc]; simp only [lease, resIncrease_eq]; grind
  · simp only [lease]; grind [Stream.live]
  · simp only [lease]; grind [Stream.live]
  · simp only [lease]; grind
  · simp only [lease]; grind [Stream.live]

/-! ### canonical end states of a finished stream / a closed connection -/
def tFinishPut (s : State) (i c : Nat) (st' : Stream) : State :=
  { s with idle := s.idle ++ [c], reqCur := resDecrease s.maxReq s.reqCur,
           stream := fun k => if k = i then st' else s.stream k }

def tFinishClose (s : State) (i c : Nat) (st' : Stream) (cl' : Client) : State :=
  { s with total := s.total - 1, idle := removeIdle s.kind s.idle c, reqCur := resDecrease s.maxReq s.reqCur,
           client := fun k => if k = c then cl' else s.client k,
           stream := fun k => if k = i then st' else s.stream k }

def tCloseIdle (s : State) (c : Nat) (cl' : Client) : State :=
  { s with total := s.total - 1, idle := removeIdle s.kind s.idle c,
           client := fun k => if k = c then cl' else s.client k }

theorem liveCount_kill (s s' : State) (i : Nat) (hn : s'.nStreams = s.nStreams) (hi : i < s.nStreams)
    (hl : (s.stream i).live = true) (hd : (s'.stream i).live = false)
    (h : ∀ k, k ≠ i → s'.stream k = s.stream k) : s'.liveCount + 1 = s.liveCount := by
  unfold State.liveCount; rw [hn]
  exact countLive_kill s.stream s'.stream s.nStreams i hi hl hd (fun k hk => by rw [h k hk])

/-- T3: live stream `i` on client `c` completes, the client goes back to the idle list -/
theorem inv_finish_put (s : State) (h : Inv s) (i c : Nat) (st' : Stream) (hi : i < s.nStreams)
    (hl : (s.stream i).live = true) (hc : (s.stream i).conn = c)
    (h1 : st'.conn = c) (h2 : st'.live = false) (h3 : st'.destroys = 1) (h4 : st'.recv = 1) (h5 : st'.resets = []) :
    Inv (tFinishPut s i c st') := by
  have hlc : (tFinishPut s i c st').liveCount + 1 = s.liveCount :=
    liveCount_kill s _ i rfl hi hl (by simp [tFinishPut, h2]) (fun k hk => by simp [tFinishPut, hk])
  obtain ⟨b, nd, io, ex, lo, co, ft, nl, dc, rq, lf, dn, rd, dw⟩ := h
  have hcn : c < s.nClients := hc ▸ co i hi
  have hcl : (s.client c).closed = false := hc ▸ lo i hi hl
  have hci : c ∉ s.idle := fun hm => (io c hm).2.2 i hi hl hc
  refine { books := ?_, idleNodup := ?_, idleOk := ?_, excl := ?_, liveOk := ?_, connOk := ?_,
           flagTruth := ?_, noLeak := ?_, dirtyClosed := ?_, req := ?_, liveFresh := ?_, deadOnce := ?_, resetDirty := ?_, deadWhy := ?_ }
  · simp only [tFinishPut, List.length_append, List.length_singleton] at hlc ⊢; omega
  · simp only [tFinishPut]; rw [List.nodup_append]; refine ⟨nd, by simp, ?_⟩; intro a ha b' hb; simp at hb; subst hb; intro e; subst e; exact hci ha
  · simp only [tFinishPut]; grind
  · simp only [tFinishPut]; grind
  · simp only [tFinishPut]; grind
  · simp only [tFinishPut]; grind
  · simp only [tFinishPut]; grind
  · intro k hk hkc
    simp only [tFinishPut] at hk hkc ⊢
    by_cases hkc' : k = c
    · left; simp [hkc']
    · rcases nl k hk hkc with h' | ⟨j, hj, hjl, hjc⟩
      · left; simp [h']
      · right
        have hji : j ≠ i := by intro e; subst e; exact hkc' (hjc ▸ hc ▸ rfl)
        exact ⟨j, hj, by simp [hji, hjl], by simp [hji, hjc]⟩
  · simp only [tFinishPut]; grind
  · simp only [tFinishPut, resDecrease_eq] at hlc ⊢; grind
  · simp only [tFinishPut]; grind
  · simp only [tFinishPut]; grind
  · simp only [tFinishPut]; grind
  · simp only [tFinishPut]; grind

/-- T4: live stream `i` on client `c` ends and the connection is (or was just) closed -/
theorem inv_finish_close (s : State) (h : Inv s) (i c : Nat) (st' : Stream) (cl' : Client) (hi : i < s.nStreams)
    (hl : (s.stream i).live = true) (hc : (s.stream i).conn = c)
    (h1 : st'.conn = c) (h2 : st'.live = false) (h3 : st'.destroys = 1) (h4 : st'.recv ≤ 1)
    (h5 : st'.resets.length ≤ 1) (h6 : st'.recv = 1 → st'.resets = []) (h7 : st'.resets ≠ [] → cl'.dirty = true)
    (h8 : cl'.closed = true) (h9 : cl'.netOpen = false) (h10 : st'.recv = 1 ∨ st'.resets ≠ []) :
    Inv (tFinishClose s i c st' cl') := by
  have hlc : (tFinishClose s i c st' cl').liveCount + 1 = s.liveCount :=
    liveCount_kill s _ i rfl hi hl (by simp [tFinishClose, h2]) (fun k hk => by simp [tFinishClose, hk])
  obtain ⟨b, nd, io, ex, lo, co, ft, nl, dc, rq, lf, dn, rd, dw⟩ := h
  have hcn : c < s.nClients := hc ▸ co i hi
  have hcl : (s.client c).closed = false := hc ▸ lo i hi hl
  have hci : c ∉ s.idle := fun hm => (io c hm).2.2 i hi hl hc
  have hidle : removeIdle s.kind s.idle c = s.idle := removeIdle_of_not_mem _ _ _ hci
  have hnd : (s.client c).dirty = false := by
    cases hd : (s.client c).dirty
    · rfl
    · have := dc c hcn hd; rw [hcl] at this; exact absurd this (by decide)
  refine { books := ?_, idleNodup := ?_, idleOk := ?_, excl := ?_, liveOk := ?_, connOk := ?_,
           flagTruth := ?_, noLeak := ?_, dirtyClosed := ?_, req := ?_, liveFresh := ?_, deadOnce := ?_, resetDirty := ?_, deadWhy := ?_ }
  · simp only [tFinishClose, hidle] at hlc ⊢; omega
  · simp only [tFinishClose, hidle]; exact nd
  · simp only [tFinishClose, hidle]; grind
  · simp only [tFinishClose]; grind
  · simp only [tFinishClose]; grind
  · simp only [tFinishClose]; grind
  · simp only [tFinishClose]; grind
  · intro k hk hkc
    simp only [tFinishClose, hidle] at hk hkc ⊢
    by_cases hkc' : k = c
    · simp [hkc', h8] at hkc
    · simp only [hkc', if_false] at hkc
      rcases nl k hk hkc with h' | ⟨j, hj, hjl, hjc⟩
      · left; exact h'
      · right
        have hji : j ≠ i := by intro e; subst e; exact hkc' (hjc ▸ hc ▸ rfl)
        exact ⟨j, hj, by simp [hji, hjl], by simp [hji, hjc]⟩
  · simp only [tFinishClose]; grind
  · simp only [tFinishClose, resDecrease_eq] at hlc ⊢; grind
  · simp only [tFinishClose]; grind
  · simp only [tFinishClose]; grind
  · intro k hk hr
    simp only [tFinishClose] at hk hr ⊢
    by_cases hki : k = i
    · simp only [hki, if_true] at hr ⊢; simp [h1, h7 hr]
    · simp only [hki, if_false] at hr ⊢
      have hd := rd k hk hr
      by_cases hkc : (s.stream k).conn = c
      · rw [hkc] at hd; rw [hnd] at hd; exact absurd hd (by decide)
      · simp [hkc, hd]
  · simp only [tFinishClose]; grind

/-- T5: idle client `c` loses its connection -/
theorem inv_close_idle (s : State) (h : Inv s) (c : Nat) (cl' : Client) (hm : c ∈ s.idle)
    (h8 : cl'.closed = true) (h9 : cl'.netOpen = false) : Inv (tCloseIdle s c cl') := by
  obtain ⟨b, nd, io, ex, lo, co, ft, nl, dc, rq, lf, dn, rd, dw⟩ := h
  have ⟨hcn, hcl, hns⟩ := io c hm
  have hlen := length_removeIdle s.kind s.idle c hm
  have hmem := mem_removeIdle s.kind s.idle nd c
  have hnd : (s.client c).dirty = false := by
    cases hd : (s.client c).dirty
    · rfl
    · have := dc c hcn hd; rw [hcl] at this; exact absurd this (by decide)
  refine { books := ?_, idleNodup := nodup_removeIdle _ _ nd _, idleOk := ?_, excl := ex, liveOk := ?_, connOk := co,
           flagTruth := ?_, noLeak := ?_, dirtyClosed := ?_, req := rq, liveFresh := lf, deadOnce := dn, resetDirty := ?_, deadWhy := dw }
  · show s.total - 1 = (s.liveCount : Int) + ((removeIdle s.kind s.idle c).length : Int); omega
  · simp only [tCloseIdle]; grind
  · simp only [tCloseIdle]; grind
  · simp only [tCloseIdle]; grind
  · intro k hk hkc
    simp only [tCloseIdle] at hk hkc ⊢
    by_cases hkc' : k = c
    · simp [hkc', h8] at hkc
    · simp only [hkc', if_false] at hkc
      rcases nl k hk hkc with h' | h'
      · left; exact (hmem k).mpr ⟨h', hkc'⟩
      · right; exact h'
  · simp only [tCloseIdle]; grind
  · intro k hk hr
    simp only [tCloseIdle] at hk hr ⊢
    have hd := rd k hk hr
    by_cases hkc : (s.stream k).conn = c
    · rw [hkc] at hd; rw [hnd] at hd; exact absurd hd (by decide)
    · simp [hkc, hd]

/-- T6: only the `closeConn` / `closeWithActiveReq` flags of clients change -/
theorem inv_flags (s : State) (h : Inv s) (g : Nat → Client)
    (hg : ∀ k, (g k).closed = (s.client k).closed ∧ (g k).netOpen = (s.client k).netOpen ∧ (g k).dirty = (s.client k).dirty) :
    Inv { s with client := g } := by
  obtain ⟨b, nd, io, ex, lo, co, ft, nl, dc, rq, lf, dn, rd, dw⟩ := h
  refine { books := b, idleNodup := nd, idleOk := ?_, excl := ex, liveOk := ?_, connOk := co,
           flagTruth := ?_, noLeak := ?_, dirtyClosed := ?_, req := rq, liveFresh := lf, deadOnce := dn, resetDirty := ?_, deadWhy := dw }
  · intro c hc; have := io c hc; simp only [(hg c).1]; exact this
  · intro i hi hl; simp only [(hg _).1]; exact lo i hi hl
  · intro c hc; simp only [(hg c).1, (hg c).2.1]; exact ft c hc
  · intro c hc hcl; simp only [(hg c).1] at hcl; exact nl c hc hcl
  · intro c hc hd; simp only [(hg c).1, (hg c).2.2] at hd ⊢; exact dc c hc hd
  · intro i hi hr; simp only [(hg _).2.2]; exact rd i hi hr

/-- T7: another pool of the cluster takes / returns a slot of the shared requests breaker -/
theorem inv_ext_inc (s : State) (h : Inv s) :
    Inv { s with reqCur := resIncrease s.maxReq s.reqCur, ext := s.ext + 1 } := by
  obtain ⟨b, nd, io, ex, lo, co, ft, nl, dc, rq, lf, dn, rd, dw⟩ := h
  refine { books := b, idleNodup := nd, idleOk := io, excl := ex, liveOk := lo, connOk := co,
           flagTruth := ft, noLeak := nl, dirtyClosed := dc, req := ?_, liveFresh := lf, deadOnce := dn, resetDirty := rd, deadWhy := dw }
  show resIncrease s.maxReq s.reqCur = if s.maxReq = 0 then 0 else ((s.ext + 1 : Nat) : Int) + (s.liveCount : Int)
  rw [resIncrease_eq, rq]; split <;> simp <;> omega

theorem inv_ext_dec (s : State) (h : Inv s) (hpos : s.ext > 0) :
    Inv { s with reqCur := resDecrease s.maxReq s.reqCur, ext := s.ext - 1 } := by
  obtain ⟨b, nd, io, ex, lo, co, ft, nl, dc, rq, lf, dn, rd, dw⟩ := h
  refine { books := b, idleNodup := nd, idleOk := io, excl := ex, liveOk := lo, connOk := co,
           flagTruth := ft, noLeak := nl, dirtyClosed := dc, req := ?_, liveFresh := lf, deadOnce := dn, resetDirty := rd, deadWhy := dw }
  show resDecrease s.maxReq s.reqCur = if s.maxReq = 0 then 0 else ((s.ext - 1 : Nat) : Int) + (s.liveCount : Int)
  rw [resDecrease_eq, rq]
  by_cases hm : s.maxReq = 0
  · simp [hm]
  · simp only [hm, if_false]; omega

end MosnVerif.Model.Pool
