import MosnVerif.Model.PoolLookup
/-! The request path hands back the host the balancer chose in this lookup, paired with a pool for that host's address. -/
namespace MosnVerif.Model.PoolLookup
open MosnVerif.Gen.PoolLookup
open MosnVerif.Model.HostOps (H)

theorem find_some {ps : List Entry} {sc : Option Nat} {k : Nat} {p : Pool} (h : find ps sc k = some p) :
    ∃ e ∈ ps, e.key = k ∧ e.pool = p := by
  unfold find at h
  cases hf : ps.find? (hit sc k) with
  | none => simp [hf] at h
  | some e =>
    simp only [hf, Option.map_some, Option.some.injEq] at h
    have hm := List.mem_of_find?_eq_some hf
    have hp := List.find?_some hf
    simp only [hit, Bool.and_eq_true, beq_iff_eq] at hp
    exact ⟨e, hm, hp.2, h⟩

theorem keyed_erase {σ : St} (h : Keyed σ) (sc : Option Nat) (k : Nat) : ∀ e ∈ erase σ.pools sc k, e.pool.created.a = e.key := by
  intro e he
  exact h e (List.mem_filter.mp he).1

theorem keyed_store {ps : List Entry} (h : ∀ e ∈ ps, e.pool.created.a = e.key) (sc : Option Nat) (k : Nat) (p : Pool)
    (hp : p.created.a = k) : ∀ e ∈ store ps sc k p, e.pool.created.a = e.key := by
  intro e he
  unfold store at he
  rcases List.mem_cons.mp he with rfl | he
  · exact hp
  · exact h e (List.mem_filter.mp he).1

theorem check_pools (σ : St) (p : Pool) : (check σ p).2.pools = σ.pools := by
  unfold check
  by_cases h : (nrOf σ.nr p.created.a == 0) = true <;> simp [h]

theorem keyed_check {σ : St} (h : Keyed σ) (p : Pool) : Keyed (check σ p).2 := by
  unfold Keyed
  rw [check_pools]
  exact h

/-- load-or-create under the discipline: the pool of the iteration was created for the chosen host's address. -/
theorem obtain_spec (mh mp : Nat) (rc : ReplaceCond) (env : Env) (sc : Option Nat) (σ : St) (sl : Slots) (i : Nat) (h : H)
    (hk : Keyed σ) (σ1 : St) (evs : List Ev) (p : Pool)
    (ho : obtain (canon mh mp rc) env sc σ sl i h = some (σ1, evs, p)) : p.created.a = h.a ∧ Keyed σ1 := by
  simp only [obtain, canon, keyVal, hostRef, Option.map_some] at ho
  cases hf : find σ.pools sc h.a with
  | some q =>
    simp only [hf] at ho
    by_cases hc : (rc == ReplaceCond.tlsHashDiffers && q.hash != env.hashOf h) = true
    · simp only [hc, if_true, Option.some.injEq, Prod.mk.injEq] at ho
      obtain ⟨rfl, _, rfl⟩ := ho
      refine ⟨rfl, ?_⟩
      exact keyed_store (keyed_erase hk sc h.a) sc h.a _ rfl
    · simp only [hc] at ho
      obtain ⟨rfl, _, rfl⟩ := ho
      obtain ⟨e, he, hkey, hpool⟩ := find_some hf
      exact ⟨by rw [← hpool, hk e he, hkey], hk⟩
  | none =>
    simp only [hf, Option.some.injEq, Prod.mk.injEq] at ho
    obtain ⟨rfl, _, rfl⟩ := ho
    exact ⟨rfl, keyed_store hk sc h.a _ rfl⟩

/-- what is known of a (pool, host) pair of the lookup with oracle `lb` and `B` iterations. -/
def PairOk (lb : List (Option H)) (B : Nat) (x : Pool × H) : Prop :=
  x.1.created.a = x.2.a ∧ ∃ k, k < B ∧ lb[k]? = some (some x.2)

def SlotsOk (sl : Slots) (it : List (Pool × H)) : Prop :=
  ∀ j p, sl.ps j = some p → ∃ x, sl.hs j = some x ∧ (p, x) ∈ it

def RetOk (r : Ret) (it : List (Pool × H)) : Prop :=
  (∀ p x, r = (some p, some x) → (p, x) ∈ it) ∧ (r.1 = none ↔ r.2 = none)

theorem loop1_spec (mh mp : Nat) (rc : ReplaceCond) (env : Env) (sc : Option Nat) (lb : List (Option H)) (B : Nat) :
    ∀ (n i : Nat) (σ : St) (sl : Slots) (tr : List Ev) (it : List (Pool × H)),
      i + n = B → Keyed σ → (∀ x ∈ it, PairOk lb B x) → SlotsOk sl it →
      let l := loop1 (canon mh mp rc) env sc lb n i σ sl tr it
      Keyed l.st ∧ (∀ x ∈ l.it, PairOk lb B x) ∧ SlotsOk l.sl l.it ∧ (∀ r, l.done = some r → RetOk r l.it) := by
  intro n
  induction n with
  | zero =>
    intro i σ sl tr it _ hk hit hsl
    simp only [loop1]
    exact ⟨hk, hit, hsl, by intro r hr; simp at hr⟩
  | succ n ih =>
    intro i σ sl tr it hB hk hit hsl
    simp only [loop1]
    cases hl : (lb[i]?).join with
    | none =>
      simp only
      refine ⟨hk, hit, hsl, ?_⟩
      intro r hr
      simp only [Option.some.injEq] at hr
      subst hr
      exact ⟨by intro p x h; simp at h, by simp⟩
    | some h =>
      simp only
      cases ho : obtain (canon mh mp rc) env sc σ sl i h with
      | none =>
        simp only
        refine ⟨hk, hit, hsl, ?_⟩
        intro r hr
        simp only [Option.some.injEq] at hr
        subst hr
        exact ⟨by intro p x h; simp at h, by simp⟩
      | some t =>
        obtain ⟨σ1, evs, p⟩ := t
        obtain ⟨hpa, hk1⟩ := obtain_spec mh mp rc env sc σ sl i h hk σ1 evs p ho
        have hk2 : Keyed (check σ1 p).2 := keyed_check hk1 p
        have hlb : lb[i]? = some (some h) := by
          cases hx : lb[i]? with
          | none => simp [hx] at hl
          | some o => simp only [hx, Option.join_some] at hl; rw [hl]
        have hpair : PairOk lb B (p, h) := ⟨hpa, i, by omega, hlb⟩
        have hit' : ∀ x ∈ it ++ [(p, h)], PairOk lb B x := by
          intro x hx
          rcases List.mem_append.mp hx with hx | hx
          · exact hit x hx
          · simp only [List.mem_singleton] at hx; subst hx; exact hpair
        simp only
        split
        · -- ready: returned with the chosen host
          refine ⟨hk2, hit', ?_, ?_⟩
          · intro j q hq
            obtain ⟨x, hx, hm⟩ := hsl j q hq
            exact ⟨x, hx, List.mem_append_left _ hm⟩
          · intro r hr
            simp only [Option.some.injEq] at hr
            subst hr
            simp only [canon, poolRef, hostRef]
            refine ⟨?_, by simp⟩
            intro p' x' he
            simp only [Prod.mk.injEq, Option.some.injEq] at he
            obtain ⟨rfl, rfl⟩ := he
            exact List.mem_append_right _ (List.mem_singleton.mpr rfl)
        · -- not ready: both arrays get slot i
          apply ih (i + 1) _ _ _ _ (by omega) hk2 hit'
          intro j q hq
          simp only [canon, ixVal, poolRef, hostRef, setP, setH] at hq ⊢
          by_cases hj : j = i
          · simp only [hj, if_true, Option.some.injEq] at hq ⊢
            subst hq
            exact ⟨h, rfl, List.mem_append_right _ (List.mem_singleton.mpr rfl)⟩
          · simp only [hj, if_false] at hq ⊢
            obtain ⟨x, hx, hm⟩ := hsl j q hq
            exact ⟨x, hx, List.mem_append_left _ hm⟩

theorem pollRound_spec (mh mp : Nat) (rc : ReplaceCond) (sl : Slots) (it : List (Pool × H)) (hsl : SlotsOk sl it) :
    ∀ (n i : Nat) (σ : St) (tr : List Ev), Keyed σ →
      Keyed (pollRound (canon mh mp rc) sl n i σ tr).1 ∧
      ∀ r, (pollRound (canon mh mp rc) sl n i σ tr).2.2 = some r → RetOk r it := by
  intro n
  induction n with
  | zero =>
    intro i σ tr hk
    simp only [pollRound]
    exact ⟨hk, by intro r hr; simp at hr⟩
  | succ n ih =>
    intro i σ tr hk
    simp only [pollRound, canon, poolRef, hostRef, ixVal]
    cases hp : sl.ps i with
    | none => simpa [canon] using ih (i + 1) σ tr hk
    | some p =>
      simp only
      split
      · refine ⟨keyed_check hk p, ?_⟩
        intro r hr
        simp only [Option.some.injEq] at hr
        subst hr
        obtain ⟨x, hx, hm⟩ := hsl i p hp
        simp only [hx]
        refine ⟨?_, by simp⟩
        intro p' x' he
        simp only [Prod.mk.injEq, Option.some.injEq] at he
        obtain ⟨rfl, rfl⟩ := he
        exact hm
      · simpa [canon] using ih (i + 1) _ _ (keyed_check hk p)

theorem poll_spec (mh mp : Nat) (rc : ReplaceCond) (sl : Slots) (it : List (Pool × H)) (hsl : SlotsOk sl it) (try_ : Nat) :
    ∀ (r : Nat) (σ : St) (tr : List Ev), Keyed σ →
      Keyed (poll (canon mh mp rc) sl try_ r σ tr).1 ∧ RetOk (poll (canon mh mp rc) sl try_ r σ tr).2.2 it := by
  intro r
  induction r with
  | zero =>
    intro σ tr hk
    simp only [poll]
    exact ⟨hk, by intro p x h; simp at h, by simp⟩
  | succ r ih =>
    intro σ tr hk
    have hr := pollRound_spec mh mp rc sl it hsl try_ 0 σ tr hk
    simp only [poll]
    split
    · rename_i ret heq
      exact ⟨hr.1, hr.2 ret heq⟩
    · exact ih _ _ hr.1

/-- one lookup under the discipline. -/
theorem lookup_spec (fl : Flow) (hf : flowOk fl = true) (env : Env) (σ : St) (q : Query) (hk : Keyed σ) :
    Keyed (lookup fl env σ q).st ∧
    (∀ x ∈ (lookup fl env σ q).iter, PairOk q.lb (min q.hostNum fl.maxHosts) x) ∧
    RetOk (lookup fl env σ q).ret (lookup fl env σ q).iter := by
  have he : fl = canon fl.maxHosts fl.maxPolls fl.replaceCond := by
    unfold flowOk at hf
    exact of_decide_eq_true (by simpa using hf)
  generalize fl.maxHosts = mh at he
  generalize fl.maxPolls = mp at he
  generalize fl.replaceCond = rc at he
  subst he
  unfold lookup
  split
  · exact ⟨hk, by intro x hx; simp at hx, by intro p x h; simp at h, by simp⟩
  · have hmh : (canon mh mp rc).maxHosts = mh := rfl
    have hmp : (canon mh mp rc).maxPolls = mp := rfl
    simp only [hmh, hmp]
    have L := loop1_spec mh mp rc env (scopeOf env q.cluster) q.lb (min q.hostNum mh) (min q.hostNum mh) 0 σ {} [] []
      (by omega) hk (by intro x hx; simp at hx) (by intro j p hp; simp at hp)
    simp only at L
    obtain ⟨L1, L2, L3, L4⟩ := L
    split
    · rename_i r hr
      exact ⟨L1, L2, L4 r hr⟩
    · have P := poll_spec mh mp rc _ _ L3 (min q.hostNum mh) mp _ (loop1 (canon mh mp rc) env (scopeOf env q.cluster) q.lb (min q.hostNum mh) 0 σ {} [] []).tr L1
      exact ⟨P.1, L2, P.2⟩

/-! ### histories -/

theorem keyed_applyOp (fl : Flow) (hf : flowOk fl = true) (env : Env) (w : World) (o : Op) (hk : Keyed w.st) :
    Keyed (applyOp fl env w o).1.st := by
  cases o with
  | setHosts c l => exact hk
  | lookup q => exact (lookup_spec fl hf env w.st q hk).1
  | shutdown a =>
    intro e he
    exact hk e (List.mem_filter.mp he).1
  | staleHash a =>
    intro e he
    simp only [applyOp, List.mem_map] at he
    obtain ⟨e0, he0, rfl⟩ := he
    split
    · exact hk e0 he0
    · exact hk e0 he0
  | notReady a k => exact hk

/-- what every lookup of a history satisfies. -/
def Good (fl : Flow) (x : List H × Query × Res) : Prop :=
  (∀ y ∈ x.2.2.iter, PairOk x.2.1.lb (min x.2.1.hostNum fl.maxHosts) y) ∧ RetOk x.2.2.ret x.2.2.iter

theorem runHist_good (fl : Flow) (hf : flowOk fl = true) (env : Env) (ops : List Op) :
    ∀ (w : World), Keyed w.st → ∀ x ∈ runHist fl env w ops, Good fl x := by
  induction ops with
  | nil => intro w _ x hx; simp [runHist] at hx
  | cons o r ih =>
    intro w hk x hx
    have hk' := keyed_applyOp fl hf env w o hk
    unfold runHist at hx
    split at hx
    · rename_i w' y heq
      have hw : w' = (applyOp fl env w o).1 := by rw [heq]
      rcases List.mem_cons.mp hx with rfl | hx
      · cases o <;> simp only [applyOp, Prod.mk.injEq, Option.some.injEq] at heq <;> try (exact absurd heq.2 (by simp))
        obtain ⟨_, rfl⟩ := heq
        rename_i q _
        have := lookup_spec fl hf env w.st q hk
        exact ⟨this.2.1, this.2.2⟩
      · exact ih w' (hw ▸ hk') x hx
    · rename_i w' heq
      have hw : w' = (applyOp fl env w o).1 := by rw [heq]
      exact ih w' (hw ▸ hk') x hx

theorem keyed_init : Keyed ({} : St) := by intro e he; simp at he

end MosnVerif.Model.PoolLookup
