import MosnVerif.Model.KVBlock
/-! the validated KV-block decode never leaves the block; allocation bound -/
namespace MosnVerif.Model.KVBlock
open MosnVerif.Model.Framing MosnVerif.Model.FrameBytes

theorem rd32_some (b : Bytes) (i : Nat) (h : ¬ (b.length - i < 4)) (hi : i < b.length) :
    rd32 b i = some (be b i (i + 4)) := by
  unfold rd32; rw [if_pos (by omega)]

/-- a block that passes `checkHeaderBlock` is decoded by `header.DecodeHeader` without any out-of-range read -/
theorem decode_no_oob : ∀ (fuel : Nat) (b : Bytes) (i k : Nat), check fuel b i = true → decode fuel b i k ≠ .oob := by
  intro fuel
  induction fuel with
  | zero => intro b i k _; simp [decode]
  | succ n ih =>
    intro b i k hc
    unfold check at hc
    unfold decode
    by_cases hi : i < b.length
    · simp only [hi, ↓reduceIte] at hc ⊢
      by_cases h4 : b.length - i < 4
      · simp [h4] at hc
      · simp only [h4, ↓reduceIte] at hc
        rw [rd32_some b i h4 hi]
        simp only
        by_cases hm : be b i (i + 4) = maxU32
        · simp only [hm, ↓reduceIte] at hc ⊢
          exact ih b (i + 4) k hc
        · simp only [hm, ↓reduceIte] at hc ⊢
          by_cases hov : be b i (i + 4) > b.length - (i + 4)
          · have : i + 4 + be b i (i + 4) > b.length := by omega
            simp [this]
          · have hle : ¬ (i + 4 + be b i (i + 4) > b.length) := by omega
            simp only [hov, hle, ↓reduceIte] at hc ⊢
            by_cases h4' : b.length - (i + 4 + be b i (i + 4)) < 4
            · simp [h4'] at hc
            · simp only [h4', ↓reduceIte] at hc
              have hi2 : i + 4 + be b i (i + 4) < b.length := by omega
              rw [rd32_some b _ h4' hi2]
              simp only
              by_cases hm2 : be b (i + 4 + be b i (i + 4)) (i + 4 + be b i (i + 4) + 4) = maxU32
              · simp only [hm2, ↓reduceIte] at hc ⊢
                exact ih b _ k hc
              · simp only [hm2, ↓reduceIte] at hc ⊢
                by_cases hov2 : be b (i + 4 + be b i (i + 4)) (i + 4 + be b i (i + 4) + 4) >
                    b.length - (i + 4 + be b i (i + 4) + 4)
                · have : i + 4 + be b i (i + 4) + 4 + be b (i + 4 + be b i (i + 4)) (i + 4 + be b i (i + 4) + 4) > b.length := by
                    omega
                  simp [this]
                · have hle2 : ¬ (i + 4 + be b i (i + 4) + 4 + be b (i + 4 + be b i (i + 4)) (i + 4 + be b i (i + 4) + 4) > b.length) := by
                    omega
                  simp only [hov2, hle2, ↓reduceIte] at hc ⊢
                  exact ih b _ (k + 1) hc
    · simp [hi]

theorem safe_no_oob (b : Bytes) : safe b ≠ .oob := by
  unfold safe
  split
  · rename_i h; exact decode_no_oob _ b 0 0 h
  · simp

/-- every appended pair consumed at least 8 bytes of the block -/
theorem decode_pairs : ∀ (fuel : Nat) (b : Bytes) (i k p : Nat), decode fuel b i k = .ok p → i ≤ b.length →
    8 * p + 8 * 0 ≤ 8 * k + (b.length - i) := by
  intro fuel
  induction fuel with
  | zero => intro b i k p h _; simp [decode] at h; omega
  | succ n ih =>
    intro b i k p h hib
    unfold decode at h
    by_cases hi : i < b.length
    · simp only [hi, ↓reduceIte] at h
      cases h1 : rd32 b i with
      | none => simp [h1] at h
      | some l =>
        have hl : i + 4 ≤ b.length := by
          unfold rd32 at h1; split at h1 <;> simp at h1; omega
        simp only [h1] at h
        by_cases hm : l = maxU32
        · simp only [hm, ↓reduceIte] at h
          have := ih b (i + 4) k p h hl
          omega
        · simp only [hm, ↓reduceIte] at h
          by_cases hov : i + 4 + l > b.length
          · simp [hov] at h
          · simp only [hov, ↓reduceIte] at h
            cases h2 : rd32 b (i + 4 + l) with
            | none => simp [h2] at h
            | some l2 =>
              have hl2 : i + 4 + l + 4 ≤ b.length := by
                unfold rd32 at h2; split at h2 <;> simp at h2; omega
              simp only [h2] at h
              by_cases hm2 : l2 = maxU32
              · simp only [hm2, ↓reduceIte] at h
                have := ih b _ k p h hl2
                omega
              · simp only [hm2, ↓reduceIte] at h
                by_cases hov2 : i + 4 + l + 4 + l2 > b.length
                · simp [hov2] at h
                · simp only [hov2, ↓reduceIte] at h
                  have := ih b _ (k + 1) p h (by omega)
                  omega
    · simp only [hi, ↓reduceIte] at h
      injection h with h; omega

theorem safe_pairs (b : Bytes) (p : Nat) (h : safe b = .ok p) : 8 * p ≤ b.length := by
  unfold safe at h
  split at h
  · have := decode_pairs _ b 0 0 p h (by omega); omega
  · simp at h

end MosnVerif.Model.KVBlock
