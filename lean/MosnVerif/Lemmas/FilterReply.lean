import MosnVerif.Lemmas.FilterMachine
/-! the reply side: sender filters once per response, single reply, the worker always returns -/
set_option linter.unusedSimpArgs false
namespace MosnVerif.Model.FilterMachine
open MosnVerif.Gen.FilterPhase MosnVerif.Model.FilterChain

/-- the data of a stream state (everything but the control fields phase / inner / outer / halted / …) -/
structure DView where
  f : FState
  upstreamReset : Bool
  procDone : Bool
  upReq : Bool
  trace : List Ev

def St.view (s : St) : DView := ⟨s.toFState, s.upstreamReset, s.procDone, s.upReq, s.trace⟩

@[simp] theorem ret_view (s : St) (p : Nat) : (ret s p).view = s.view := by
  simp [St.view]

/-- sender side untouched so far -/
def SFresh (f : FState) : Prop := f.scalls = (fun _ => 0) ∧ f.scursor = 0

structure Common (v : DView) : Prop where
  again : v.f.again = InitPhase
  cleaned : v.f.cleaned = false
  direct : v.f.direct = false
  procDone : v.procDone = false

/-- the receive phases between two `case`s: nothing pending, nothing denied, nothing sent downstream -/
structure FrontOK (v : DView) : Prop where
  resp : v.f.resp = none
  upResp : v.f.upRespReceived = false
  upstreamReset : v.upstreamReset = false
  status : v.f.statusVar = none
  nodeny : ¬ DenyIn v.trace
  noback : backPart v.trace = []
  sfresh : SFresh v.f

/-- the response side of a trace is empty, or starts with THE one full run of the sender filters and contains no other
sender pass, only the downstream sender calls of one response: the sender filters run at most once per stream and before
anything is sent downstream -/
def SpOK (c : Cfg) (t : List Ev) : Prop :=
  backPart t = [] ∨ ∃ rest, backPart t = .spass 0 (sendRun c.send 0) :: rest ∧ replyShape rest = true

/-- what holds of the data when the worker is about to run the `case` of phase `p` -/
def PhaseData (c : Cfg) (v : DView) (p : Nat) : Prop :=
  Common v ∧
  (if p ≤ 4 ∨ p = 7 ∨ p = 8 then FrontOK v
   else if p = 5 ∨ p = 6 then FrontOK v ∧ v.upReq = true
   else if p = 9 then (c.env.oneway = true ∧ backPart v.trace = []) ∨ FrontOK v
   else if p = 11 then FrontOK v ∧ c.env.oneway = false
   else if p = 12 then v.f.resp.isSome = true ∧ v.upstreamReset = false ∧ backPart v.trace = [] ∧ SFresh v.f ∧
     c.env.oneway = false
   else if p = 13 then v.f.resp.isSome = true ∧ v.upstreamReset = false ∧
     backPart v.trace = [.spass 0 (sendRun c.send 0)] ∧ c.env.oneway = false
   else if p = 14 then ∃ r, v.f.resp = some r ∧ (r.data = true ∨ r.trailers = true) ∧ v.upstreamReset = false ∧
     backPart v.trace = [.spass 0 (sendRun c.send 0), .dh v.f.statusVar false] ∧ c.env.oneway = false
   else if p = 15 then ∃ r, v.f.resp = some r ∧ r.trailers = true ∧ v.upstreamReset = false ∧
     backPart v.trace = [.spass 0 (sendRun c.send 0), .dh v.f.statusVar false] ++ (if r.data then [.dd false] else []) ∧
     c.env.oneway = false
   else False)

/-- a finished stream: cleaned because it was terminated, is one-way, or got its complete single reply after one full
run of the sender filters -/
def DoneOK (c : Cfg) (v : DView) : Prop :=
  v.f.cleaned = true ∧ (terminatedIn v.trace ∨ c.env.oneway = true ∨
    ∃ r, v.f.resp = some r ∧ backPart v.trace = .spass 0 (sendRun c.send 0) :: replyEvs r v.f.statusVar)

/-- when a filter answered, the pending response and status code are the fold of the filters' handler calls -/
def Ans (v : DView) : Prop :=
  answeredIn v.trace → (v.f.resp, v.f.statusVar) = replyOf (recvVerdicts v.trace) (none, none)

structure Ginv (c : Cfg) (s : St) : Prop where
  live : s.halted = false → PhaseData c s.view s.phase ∧ s.inner ≤ s.phase
  done : s.halted = true → SpOK c s.trace ∧ (s.exhausted = true ∨ s.retried = true ∨ DoneOK c s.view)
  ans : Ans s.view

/-! ### assembling the invariant for the two ways a `case` ends -/

theorem Ginv_ret (c : Cfg) (g : St) (p : Nat) (hnh : g.halted = false) (hans : Ans g.view) (hsp : SpOK c g.trace)
    (hend : p = End → g.exhausted = true ∨ DoneOK c g.view) (hp : p ≠ End → p ≠ Retry → PhaseData c g.view p) :
    Ginv c (ret g p) := by
  unfold ret
  split
  · rename_i h
    refine ⟨by simp, fun _ => ⟨hsp, ?_⟩, hans⟩
    rcases hend h with h1 | h1
    · exact Or.inl h1
    · exact Or.inr (Or.inr h1)
  · rename_i h
    split
    · exact ⟨by simp, fun _ => ⟨hsp, Or.inl rfl⟩, hans⟩
    · split
      · exact ⟨by simp, fun _ => ⟨hsp, Or.inr (Or.inl rfl)⟩, hans⟩
      · rename_i hr
        exact ⟨fun _ => ⟨hp h hr, Nat.zero_le _⟩, by simp [hnh], hans⟩

theorem Ginv_next (c : Cfg) (g : St) (hnh : g.halted = false) (hans : Ans g.view)
    (hp : PhaseData c g.view (g.phase + 1)) (hin : g.inner ≤ g.phase + 1) :
    Ginv c { g with phase := g.phase + 1 } :=
  ⟨fun _ => ⟨hp, hin⟩, by simp [hnh], hans⟩

theorem PhaseData_9 (c : Cfg) (v : DView) (hc : Common v) (ho : c.env.oneway = true) (hb : backPart v.trace = []) :
    PhaseData c v Oneway := by
  refine ⟨hc, ?_⟩
  simp [Oneway, ho, hb]

theorem PhaseData_12 (c : Cfg) (v : DView) (hc : Common v) (h1 : v.f.resp.isSome = true) (h2 : v.upstreamReset = false)
    (h3 : backPart v.trace = []) (h4 : SFresh v.f) (h5 : c.env.oneway = false) : PhaseData c v UpFilter := by
  refine ⟨hc, ?_⟩
  simp [UpFilter, h1, h2, h3, h4, h5]

/-- `processError` with nothing pending -/
theorem G_plain (c : Cfg) (g : St) (hnh : g.halted = false) (hc : g.cleaned = false) (hr : g.upstreamReset = false)
    (hd : g.direct = false) (hpd : g.procDone = false) (hans : Ans g.view) (hsp : SpOK c g.trace)
    (hin : g.inner ≤ g.phase + 1)
    (hnext : g.again = InitPhase → PhaseData c g.view (g.phase + 1))
    (hagain : g.again ≠ InitPhase → g.again ≠ End ∧ PhaseData c ({ g with again := InitPhase } : St).view g.again) :
    Ginv c (afterPE c g) := by
  rw [afterPE_plain c g hc hr hd]
  split
  · rename_i ha
    obtain ⟨h1, h2⟩ := hagain ha
    exact Ginv_ret c _ _ hnh hans hsp (fun h => absurd h h1) (fun _ _ => h2)
  · rename_i ha
    have ha : g.again = InitPhase := by simpa using ha
    rw [if_neg (by rw [hpd]; simp)]
    exact Ginv_next c g hnh hans (hnext ha) hin

/-- `processError` with a pending local reply, outside the sender-filter `case` -/
theorem G_direct (c : Cfg) (g : St) (hnh : g.halted = false) (hc : g.cleaned = false) (hr : g.upstreamReset = false)
    (hd : g.direct = true) (hph : g.phase ≠ UpFilter) (hpd : g.procDone = false) (hans : Ans g.view)
    (hresp : g.resp.isSome = true) (hback : backPart g.trace = []) (hsf : SFresh g.toFState) :
    Ginv c (afterPE c g) := by
  rw [afterPE_direct c g hc hr hd]
  have hcom : Common (consumeDirect g).view := ⟨rfl, hc, rfl, hpd⟩
  have hans' : Ans (consumeDirect g).view := hans
  split
  · rename_i ho
    exact Ginv_ret c _ _ hnh hans' (Or.inl hback) (fun h => by cases h) (fun _ _ => PhaseData_9 c _ hcom ho hback)
  · rename_i ho
    have ho : c.env.oneway = false := by simpa using ho
    exact Ginv_ret c _ _ hnh hans' (Or.inl hback) (fun h => by cases h)
      (fun _ _ => PhaseData_12 c _ hcom hresp hr hback hsf ho)

theorem G_cleaned (c : Cfg) (g : St) (hnh : g.halted = false) (hc : g.cleaned = true) (hans : Ans g.view)
    (hsp : SpOK c g.trace) (hdone : DoneOK c g.view) : Ginv c (afterPE c g) := by
  rw [afterPE_cleaned c g hc]
  exact Ginv_ret c g End hnh hans hsp (fun _ => Or.inr hdone) (fun h _ => absurd rfl h)

/-- `processError` after a pool refusal / upstream reset (nothing was answered by a filter) -/
theorem G_reset (c : Cfg) (g : St) (hnh : g.halted = false) (hc : g.cleaned = false) (hr : g.upstreamReset = true)
    (hd : g.direct = false) (ha : g.again = InitPhase) (hph : g.phase ≠ UpFilter) (hpd : g.procDone = false)
    (hna : ¬ answeredIn g.trace) (hback : backPart g.trace = []) (hsf : SFresh g.toFState) :
    Ginv c (afterPE c g) := by
  rw [afterPE_reset c g hc hr]
  split
  · rename_i ho
    exact Ginv_ret c _ _ hnh (fun h => absurd h hna) (Or.inl hback) (fun h => by cases h)
      (fun _ _ => PhaseData_9 c _ ⟨ha, hc, hd, hpd⟩ ho hback)
  · rename_i ho
    have ho : c.env.oneway = false := by simpa using ho
    split
    · -- the reset is retried: `processError` returns the phase Retry, the model stops with `retried`
      rw [if_neg (by simp [hd])]
      exact Ginv_ret c _ Retry (by simp [setRetry, liftF, hnh]) (fun h => absurd h hna) (Or.inl hback)
        (fun h => by cases h) (fun _ h => absurd rfl h)
    · first | rw [if_pos hph] | skip
      refine Ginv_ret c _ _ (by simp [consumeDirect, onUpstreamReset, liftF, hnh]) (fun h => absurd h hna)
        (Or.inl hback) (fun h => by cases h) (fun _ _ => ?_)
      exact PhaseData_12 c _ ⟨rfl, hc, rfl, hpd⟩ rfl rfl hback hsf ho

/-! ### trace projections under append -/

theorem backPart_snoc (t : List Ev) (e : Ev) : backPart (t ++ [e]) = backPart t ++ (if isBack e then [e] else []) := by
  simp [backPart, List.filter_append, List.filter_cons]

theorem recvVerdicts_append (t u : List Ev) : recvVerdicts (t ++ u) = recvVerdicts t ++ recvVerdicts u := by
  induction t with
  | nil => rfl
  | cons e r ih => cases e <;> simp [recvVerdicts, ih]

theorem recvVerdicts_snoc_rpass (t : List Ev) (p : RPhase) (st : Nat) (invs : List Inv) :
    recvVerdicts (t ++ [.rpass p st invs]) = recvVerdicts t ++ invs.map (·.2) := by
  rw [recvVerdicts_append]; simp [recvVerdicts]

theorem recvVerdicts_snoc_other (t : List Ev) (e : Ev) (h : isRpass e = false) :
    recvVerdicts (t ++ [e]) = recvVerdicts t := by
  rw [recvVerdicts_append]; cases e <;> simp [isRpass] at h <;> simp [recvVerdicts]

theorem mem_recvVerdicts {t : List Ev} {v : Verdict} (h : v ∈ recvVerdicts t) :
    ∃ p st invs, Ev.rpass p st invs ∈ t ∧ ∃ iv ∈ invs, iv.2 = v := by
  induction t with
  | nil => cases h
  | cons e r ih =>
    cases e with
    | rpass p st invs =>
      simp only [recvVerdicts, List.mem_append, List.mem_map] at h
      rcases h with ⟨iv, hiv, rfl⟩ | h
      · exact ⟨p, st, invs, by simp, iv, hiv, rfl⟩
      · obtain ⟨p', st', invs', hm, hx⟩ := ih h
        exact ⟨p', st', invs', by simp [hm], hx⟩
    | _ =>
      simp only [recvVerdicts] at h
      obtain ⟨p', st', invs', hm, hx⟩ := ih h
      exact ⟨p', st', invs', by simp [hm], hx⟩

theorem deny_of_verdict {t : List Ev} {v : Verdict} (h : v ∈ recvVerdicts t) (hd : v.isDeny = true) : DenyIn t := by
  obtain ⟨p, st, invs, hm, iv, hiv, rfl⟩ := mem_recvVerdicts h
  exact ⟨_, hm, by simp only [denyEv, List.any_eq_true]; exact ⟨iv, hiv, hd⟩⟩

theorem answers_isDeny {v : Verdict} (h : v.act.answers = true) : v.isDeny = true := by
  simp [Verdict.isDeny, h]

theorem answeredIn_deny {t : List Ev} (h : answeredIn t) : DenyIn t := by
  obtain ⟨v, hv, ha⟩ := h
  exact deny_of_verdict hv (answers_isDeny ha)

theorem nodeny_noact {t : List Ev} (h : ¬ DenyIn t) : ∀ v ∈ recvVerdicts t, v.act = .none := by
  intro v hv
  cases ha : v.act with
  | none => rfl
  | hijack k b => exact absurd (deny_of_verdict hv (by simp [Verdict.isDeny, ha, Act.answers])) h
  | direct => exact absurd (deny_of_verdict hv (by simp [Verdict.isDeny, ha, Act.answers])) h
  | terminate k => exact absurd (deny_of_verdict hv (by simp [Verdict.isDeny, ha])) h

theorem Ans_of_nodeny {v : DView} (h : ¬ DenyIn v.trace) : Ans v := fun ha => absurd (answeredIn_deny ha) h

/-! ### the receiver-filter `case`s -/

theorem PhaseData_front (c : Cfg) (v : DView) (p : Nat) (hp : p ≤ 4 ∨ p = 7 ∨ p = 8) (hc : Common v) (hf : FrontOK v) :
    PhaseData c v p := by
  refine ⟨hc, ?_⟩
  rw [if_pos hp]; exact hf

theorem filter_Ginv (c : Cfg) (p : RPhase) (s : St) (hnh : s.halted = false)
    (hph : s.phase = 1 ∨ s.phase = 3 ∨ s.phase = 5) (hcom : Common s.view) (hf : FrontOK s.view)
    (hup : s.phase = 5 → s.upReq = true) (hin : s.inner ≤ s.phase + 1) :
    Ginv c (afterPE c (filterPass c p s)) := by
  -- facts about the state after the pass
  generalize hg : filterPass c p s = g
  have gF : g.toFState = (runRecv c.recv p s.toFState).1 := by rw [← hg, filterPass_toFState]
  have gT : g.trace = s.trace ++ [.rpass p (startOf s.toFState p) (runRecv c.recv p s.toFState).2] := by rw [← hg, filterPass_trace]
  have gP : g.phase = s.phase := by rw [← hg, filterPass_phase]
  have gR : g.upstreamReset = false := by rw [← hg, filterPass_upstreamReset]; exact hf.upstreamReset
  have gD : g.procDone = false := by rw [← hg, filterPass_procDone]; exact hcom.procDone
  have gH : g.halted = false := by rw [← hg, filterPass_halted]; exact hnh
  have gU : g.upReq = s.upReq := by rw [← hg]; simp [filterPass, emit, liftF]
  have gI : g.inner = s.inner := by rw [← hg]; simp [filterPass, emit, liftF]
  have hs_clean : s.toFState.cleaned = false := hcom.cleaned
  have hs_dir : s.toFState.direct = false := hcom.direct
  have hs_again : s.toFState.again = InitPhase := hcom.again
  have hs_resp : s.toFState.resp = none := hf.resp
  have hs_sv : s.toFState.statusVar = none := hf.status
  have hs_up : s.toFState.upRespReceived = false := hf.upResp
  have actok : ActOK s.toFState := ⟨hs_clean, fun h => by rw [hs_up] at h; cases h⟩
  -- sender side, back part
  have gS : SFresh g.toFState := by
    rw [gF]; unfold runRecv
    obtain ⟨h1, h2⟩ := recvLoop_sender p (c.recv.drop (startOf s.toFState p)) (startOf s.toFState p) s.toFState
    exact ⟨by rw [h1]; exact hf.sfresh.1, by rw [h2]; exact hf.sfresh.2⟩
  have gB : backPart g.trace = [] := by rw [gT, backPart_snoc]; simp [isBack]; exact hf.noback
  -- reply fold
  have gReply : (g.toFState.resp, g.toFState.statusVar) = replyOf (recvVerdicts g.trace) (none, none) := by
    have hno : ¬ DenyIn s.trace := hf.nodeny
    rw [gT, recvVerdicts_snoc_rpass, replyOf_append, replyOf_noact _ _ (nodeny_noact hno), gF]
    have := recvLoop_reply p (c.recv.drop (startOf s.toFState p)) (startOf s.toFState p) s.toFState actok
    rw [hs_resp, hs_sv] at this
    exact this
  have gAns : Ans g.view := fun _ => gReply
  have gAgainVals := recvLoop_again_vals p (c.recv.drop (startOf s.toFState p)) (startOf s.toFState p) s.toFState (Or.inl hs_again)
  have gDirResp : g.toFState.direct = true → g.toFState.resp.isSome = true := by
    rw [gF]; exact recvLoop_direct_resp p _ _ _ (fun h => by rw [hs_dir] at h; cases h)
  have hphne : g.phase ≠ UpFilter := by rw [gP]; show s.phase ≠ 12; omega
  by_cases hc : g.cleaned = true
  · -- terminated by a filter
    refine G_cleaned c g gH hc gAns (Or.inl gB) ⟨hc, Or.inl (Or.inl ?_)⟩
    have hc' : (runRecv c.recv p s.toFState).1.cleaned = true := by rw [← gF]; exact hc
    rcases recvLoop_cleaned p _ _ _ hc' with h | ⟨iv, hiv, ht⟩
    · rw [hs_clean] at h; cases h
    · refine ⟨iv.2, ?_, ht⟩
      show iv.2 ∈ recvVerdicts g.trace
      rw [gT, recvVerdicts_snoc_rpass]
      exact List.mem_append_right _ (List.mem_map_of_mem hiv)
  · have hc : g.cleaned = false := by simpa using hc
    by_cases hd : g.direct = true
    · exact G_direct c g gH hc gR hd hphne gD gAns (gDirResp hd) gB gS
    · have hd : g.direct = false := by simpa using hd
      -- nothing pending: no denying verdict in the pass (a deny leaves direct or cleaned behind)
      have hnd : ∀ iv ∈ (runRecv c.recv p s.toFState).2, iv.2.isDeny = false := by
        intro iv hiv
        cases hx : iv.2.isDeny
        · rfl
        · have hq : Rinv s.toFState := fun h => by
            rcases h with h | h
            · rw [hs_resp] at h; cases h
            · rw [hs_up] at h; cases h
          have := recvLoop_deny p _ _ s.toFState hq ⟨iv, hiv, hx⟩
          rcases this with h | h
          · have : g.toFState.direct = true := by rw [gF]; exact h
            rw [this] at hd; cases hd
          · have : g.toFState.cleaned = true := by rw [gF]; exact h
            rw [this] at hc; cases hc
      have hcore := recvLoop_nodeny p _ _ s.toFState hnd
      simp only [core, Prod.mk.injEq] at hcore
      obtain ⟨_, _, c3, c4, c5⟩ := hcore
      have gND : ¬ DenyIn g.trace := by
        rw [gT, DenyIn_snoc]
        rintro (h | h)
        · exact hf.nodeny h
        · simp only [denyEv, List.any_eq_true] at h
          obtain ⟨iv, hiv, hx⟩ := h
          rw [hnd iv hiv] at hx; cases hx
      have gFront : ∀ a, FrontOK ({ g with again := a } : St).view := fun a =>
        ⟨by show g.toFState.resp = none; rw [gF]; unfold runRecv; rw [c3]; exact hs_resp,
         by show g.toFState.upRespReceived = false; rw [gF]; unfold runRecv; rw [c5]; exact hs_up,
         gR,
         by show g.toFState.statusVar = none; rw [gF]; unfold runRecv; rw [c4]; exact hs_sv,
         gND, gB, gS⟩
      have gFront0 : FrontOK g.view :=
        ⟨by show g.toFState.resp = none; rw [gF]; unfold runRecv; rw [c3]; exact hs_resp,
         by show g.toFState.upRespReceived = false; rw [gF]; unfold runRecv; rw [c5]; exact hs_up,
         gR,
         by show g.toFState.statusVar = none; rw [gF]; unfold runRecv; rw [c4]; exact hs_sv,
         gND, gB, gS⟩
      refine G_plain c g gH hc gR hd gD gAns (Or.inl gB) (by rw [gI, gP]; exact hin) ?_ ?_
      · intro ha
        have hcomg : Common g.view := ⟨ha, hc, hd, gD⟩
        rw [gP]
        rcases hph with h | h | h
        · rw [h]; exact PhaseData_front c _ 2 (by omega) hcomg gFront0
        · rw [h]; exact PhaseData_front c _ 4 (by omega) hcomg gFront0
        · rw [h]; refine ⟨hcomg, ?_⟩
          simp only [show ¬ ((5 + 1 ≤ 4) ∨ 5 + 1 = 7 ∨ 5 + 1 = 8) by omega, if_false, show (5 + 1 = 5 ∨ 5 + 1 = 6) by omega, if_true]
          exact ⟨gFront0, by show g.upReq = true; rw [gU]; exact hup h⟩
      · intro ha
        have hv : g.again = MatchRoute ∨ g.again = ChooseHost := by
          have : g.toFState.again = InitPhase ∨ g.toFState.again = MatchRoute ∨ g.toFState.again = ChooseHost := by
            rw [gF]; exact gAgainVals
          rcases this with h | h | h
          · exact absurd h ha
          · exact Or.inl h
          · exact Or.inr h
        have hcomg : Common ({ g with again := InitPhase } : St).view := ⟨rfl, hc, hd, gD⟩
        rcases hv with h | h
        · rw [h]; exact ⟨by decide, PhaseData_front c _ 2 (by omega) hcomg (gFront _)⟩
        · rw [h]; exact ⟨by decide, PhaseData_front c _ 4 (by omega) hcomg (gFront _)⟩

/-! ### the other `case`s -/

theorem PhaseData_front_of (c : Cfg) (v : DView) (p : Nat) (hp : p ≤ 4 ∨ p = 7 ∨ p = 8) (h : PhaseData c v p) : FrontOK v := by
  have := h.2; rw [if_pos hp] at this; exact this

/-- appending an event that is neither a filter pass nor a response-side event keeps `FrontOK` -/
theorem FrontOK_emit {s : St} (hf : FrontOK s.view) (e : Ev) (h1 : isRpass e = false) (h2 : isBack e = false) :
    FrontOK (emit s e).view := by
  refine ⟨hf.resp, hf.upResp, hf.upstreamReset, hf.status, ?_, ?_, hf.sfresh⟩
  · show ¬ DenyIn (s.trace ++ [e])
    rw [DenyIn_snoc]
    rintro (h | h)
    · exact hf.nodeny h
    · rw [denyEv_rpass h] at h1; cases h1
  · show backPart (s.trace ++ [e]) = []
    rw [backPart_snoc, h2]
    simp only [Bool.false_eq_true, if_false, List.append_nil]
    exact hf.noback

theorem PhaseData_56 (c : Cfg) (v : DView) (p : Nat) (hp : p = 5 ∨ p = 6) (hc : Common v) (hf : FrontOK v)
    (hu : v.upReq = true) : PhaseData c v p := by
  refine ⟨hc, ?_⟩
  rw [if_neg (by omega), if_pos hp]; exact ⟨hf, hu⟩

theorem PhaseData_56_of (c : Cfg) (v : DView) (p : Nat) (hp : p = 5 ∨ p = 6) (h : PhaseData c v p) :
    FrontOK v ∧ v.upReq = true := by
  have := h.2; rw [if_neg (by omega), if_pos hp] at this; exact this

theorem PhaseData_9r (c : Cfg) (v : DView) (hc : Common v) (hf : FrontOK v) : PhaseData c v 9 := by
  refine ⟨hc, ?_⟩
  rw [if_neg (by omega), if_neg (by omega), if_pos rfl]; exact Or.inr hf

theorem PhaseData_9_of (c : Cfg) (v : DView) (h : PhaseData c v 9) :
    (c.env.oneway = true ∧ backPart v.trace = []) ∨ FrontOK v := by
  have := h.2; rw [if_neg (by omega), if_neg (by omega), if_pos rfl] at this; exact this

theorem PhaseData_11 (c : Cfg) (v : DView) (hc : Common v) (hf : FrontOK v) (ho : c.env.oneway = false) :
    PhaseData c v 11 := by
  refine ⟨hc, ?_⟩
  rw [if_neg (by omega), if_neg (by omega), if_neg (by omega), if_pos rfl]; exact ⟨hf, ho⟩

theorem PhaseData_11_of (c : Cfg) (v : DView) (h : PhaseData c v 11) : FrontOK v ∧ c.env.oneway = false := by
  have := h.2; rw [if_neg (by omega), if_neg (by omega), if_neg (by omega), if_pos rfl] at this; exact this

theorem PhaseData_10_of (c : Cfg) (v : DView) (h : PhaseData c v 10) : False := by
  have := h.2
  rw [if_neg (by omega), if_neg (by omega), if_neg (by omega), if_neg (by omega), if_neg (by omega), if_neg (by omega),
    if_neg (by omega), if_neg (by omega)] at this
  exact this

theorem phaseCase_Ginv_front (c : Cfg) (s : St) (hnh : s.halted = false) (hd : PhaseData c s.view s.phase)
    (hin : s.inner ≤ s.phase + 1) (hans : Ans s.view) (hlt : s.phase ≤ 11) : Ginv c (phaseCase c s) := by
  have hcom : Common s.view := hd.1
  have hs_clean : s.cleaned = false := hcom.cleaned
  have hs_dir : s.direct = false := hcom.direct
  have hs_again : s.again = InitPhase := hcom.again
  have hs_pd : s.procDone = false := hcom.procDone
  rcases phase_cases s.phase with h | h | h | h | h | h | h | h | h | h | h | h | h | h | h | h | h | h
  · -- InitPhase
    rw [pc0 c s h]
    have hf : FrontOK s.view := PhaseData_front_of c _ _ (by omega) hd
    exact Ginv_next c s hnh hans (PhaseData_front c _ _ (by omega) hcom hf) hin
  · -- DownFilter
    rw [pc1 c s h]
    exact filter_Ginv c _ s hnh (by omega) hcom (PhaseData_front_of c _ _ (by omega) hd) (by omega) hin
  · -- MatchRoute
    rw [pc2 c s h]
    have hf : FrontOK s.view := PhaseData_front_of c _ _ (by omega) hd
    refine G_plain c _ hnh hs_clean hf.upstreamReset hs_dir hs_pd hans (Or.inl hf.noback) hin (fun _ => ?_) (fun ha => absurd hs_again ha)
    show PhaseData c s.view (s.phase + 1)
    exact PhaseData_front c _ _ (by omega) hcom hf
  · -- DownFilterAfterRoute
    rw [pc3 c s h]
    exact filter_Ginv c _ s hnh (by omega) hcom (PhaseData_front_of c _ _ (by omega) hd) (by omega) hin
  · -- ChooseHost
    rw [pc4 c s h]
    have hf : FrontOK s.view := PhaseData_front_of c _ _ (by omega) hd
    have hna : ¬ DenyIn s.trace := hf.nodeny
    have hij : ∀ code body, Ginv c (afterPE c (liftF { s with nChoose := s.nChoose + 1 } (sendHijack s.toFState code body))) := by
      intro code body
      refine G_direct c _ hnh ?_ hf.upstreamReset rfl ?_ hs_pd (Ans_of_nodeny hna) rfl hf.noback hf.sfresh
      · show (sendHijack s.toFState code body).cleaned = false
        simp [sendHijack]; exact hs_clean
      · show s.phase ≠ 12; omega
    unfold chooseHost
    simp only []
    split
    · exact hij _ _
    · exact hij _ _
    · split
      · refine G_plain c _ hnh hs_clean hf.upstreamReset hs_dir hs_pd hans (Or.inl hf.noback) hin (fun _ => ?_) (fun ha => absurd hs_again ha)
        show PhaseData c _ (s.phase + 1)
        exact PhaseData_56 c _ _ (by omega) ⟨hs_again, hs_clean, hs_dir, hs_pd⟩
          ⟨hf.resp, hf.upResp, hf.upstreamReset, hf.status, hf.nodeny, hf.noback, hf.sfresh⟩ rfl
      · exact hij _ _
  · -- DownFilterAfterChooseHost
    rw [pc5 c s h]
    obtain ⟨hf, hu⟩ := PhaseData_56_of c _ _ (Or.inl h) hd
    exact filter_Ginv c _ s hnh (by omega) hcom hf (fun _ => hu) hin
  · -- DownRecvHeader
    rw [pc6 c s h]
    obtain ⟨hf, hup⟩ := PhaseData_56_of c _ _ (Or.inr h) hd
    have hup : s.upReq = true := hup
    rw [if_pos hup]
    unfold sendUpstream
    rw [if_neg (by rw [hs_pd, show s.upstreamReset = false from hf.upstreamReset]; simp)]
    split
    · -- the pool refuses the stream
      have hf' := FrontOK_emit hf (.up true) rfl rfl
      exact G_reset c _ hnh hs_clean rfl hs_dir hs_again (by show s.phase ≠ 12; omega) hs_pd
        (fun ha => hf'.nodeny (answeredIn_deny ha)) hf'.noback hf'.sfresh
    · have hf' := FrontOK_emit hf (.up false) rfl rfl
      refine G_plain c _ hnh hs_clean hf.upstreamReset hs_dir hs_pd (Ans_of_nodeny hf'.nodeny) (Or.inl hf'.noback) hin (fun _ => ?_)
        (fun ha => absurd hs_again ha)
      show PhaseData c _ (s.phase + 1)
      exact PhaseData_front c _ _ (by omega) ⟨hs_again, hs_clean, hs_dir, hs_pd⟩ hf'
  · -- DownRecvData
    rw [pc7 c s h]
    have hf : FrontOK s.view := PhaseData_front_of c _ _ (by omega) hd
    have nxt : PhaseData c s.view (s.phase + 1) := PhaseData_front c _ _ (by omega) hcom hf
    split
    · exact G_plain c s hnh hs_clean hf.upstreamReset hs_dir hs_pd hans (Or.inl hf.noback) hin (fun _ => nxt) (fun ha => absurd hs_again ha)
    · exact Ginv_next c s hnh hans nxt hin
  · -- DownRecvTrailer
    rw [pc8 c s h]
    have hf : FrontOK s.view := PhaseData_front_of c _ _ (by omega) hd
    have nxt : PhaseData c s.view (s.phase + 1) := by rw [h]; exact PhaseData_9r c _ hcom hf
    split
    · exact G_plain c s hnh hs_clean hf.upstreamReset hs_dir hs_pd hans (Or.inl hf.noback) hin (fun _ => nxt) (fun ha => absurd hs_again ha)
    · exact Ginv_next c s hnh hans nxt hin
  · -- Oneway
    rw [pc9 c s h]
    have h9 := PhaseData_9_of c _ (by rw [← h]; exact hd)
    split
    · rename_i ho
      have hb : backPart s.trace = [] := by
        rcases h9 with h9 | h9
        · exact h9.2
        · exact h9.noback
      exact G_cleaned c (clean s) hnh rfl hans (Or.inl hb) ⟨rfl, Or.inr (Or.inl ho)⟩
    · rename_i ho
      have ho : c.env.oneway = false := by simpa using ho
      have hf : FrontOK s.view := by
        rcases h9 with h9 | h9
        · have h91 := h9.1; rw [ho] at h91; cases h91
        · exact h9
      exact ⟨fun _ => ⟨PhaseData_11 c _ hcom hf ho, by show s.inner ≤ 11; omega⟩, by simp [hnh], hans⟩
  · -- Retry: unreachable
    exact (PhaseData_10_of c _ (by rw [← h]; exact hd)).elim
  · -- WaitNotify
    rw [pc11 c s h]
    obtain ⟨hf, ho⟩ := PhaseData_11_of c _ (by rw [← h]; exact hd)
    have hresp : s.resp = none := hf.resp
    have hupr : s.upRespReceived = false := hf.upResp
    have hrst : s.upstreamReset = false := hf.upstreamReset
    have hna : ¬ DenyIn s.trace := hf.nodeny
    cases hev : c.env.up with
    | resp code data trailers =>
      have hdel : deliver c s = { s with upRespReceived := true, resp := some ⟨data, trailers⟩, statusVar := some code } := by
        simp [deliver, hev, hs_pd, hrst, hupr]
      rw [hdel, if_neg (by simp [hnh])]
      refine G_plain c _ hnh hs_clean hrst hs_dir hs_pd (Ans_of_nodeny hna) (Or.inl hf.noback) hin (fun _ => ?_) (fun ha => absurd hs_again ha)
      show PhaseData c _ (s.phase + 1)
      rw [h]
      exact PhaseData_12 c _ ⟨hs_again, hs_clean, hs_dir, hs_pd⟩ rfl hrst hf.noback hf.sfresh ho
    | reset =>
      have hdel : deliver c s = { s with upstreamReset := true } := by simp [deliver, hev]
      rw [hdel, if_neg (by simp [hnh])]
      exact G_reset c _ hnh hs_clean rfl hs_dir hs_again (by show s.phase ≠ 12; omega) hs_pd
        (fun ha => hna (answeredIn_deny ha)) hf.noback hf.sfresh
    | terminate code =>
      have hdel : deliver c s = liftF s (sendHijack { s.toFState with upRespReceived := true } code false) := by
        simp [deliver, hev, hresp, hs_clean, hupr]
      rw [hdel, if_neg (by simp [liftF, hnh])]
      refine G_direct c _ hnh ?_ hrst rfl (by show s.phase ≠ 12; omega) hs_pd (Ans_of_nodeny hna) rfl hf.noback hf.sfresh
      show (sendHijack { s.toFState with upRespReceived := true } code false).cleaned = false
      simp [sendHijack]; exact hs_clean
  all_goals omega

/-! ### the response side: sender filters, then the downstream sender calls -/

abbrev theRun (c : Cfg) : Ev := .spass 0 (sendRun c.send 0)

theorem PhaseData_12_of (c : Cfg) (v : DView) (h : PhaseData c v 12) :
    v.f.resp.isSome = true ∧ v.upstreamReset = false ∧ backPart v.trace = [] ∧ SFresh v.f ∧ c.env.oneway = false := by
  have := h.2
  rw [if_neg (by omega), if_neg (by omega), if_neg (by omega), if_neg (by omega), if_pos rfl] at this; exact this

theorem PhaseData_13 (c : Cfg) (v : DView) (hc : Common v) (h1 : v.f.resp.isSome = true) (h2 : v.upstreamReset = false)
    (h3 : backPart v.trace = [theRun c]) (h5 : c.env.oneway = false) : PhaseData c v 13 := by
  refine ⟨hc, ?_⟩
  rw [if_neg (by omega), if_neg (by omega), if_neg (by omega), if_neg (by omega), if_neg (by omega), if_pos rfl]
  exact ⟨h1, h2, h3, h5⟩

theorem PhaseData_13_of (c : Cfg) (v : DView) (h : PhaseData c v 13) :
    v.f.resp.isSome = true ∧ v.upstreamReset = false ∧ backPart v.trace = [theRun c] ∧ c.env.oneway = false := by
  have := h.2
  rw [if_neg (by omega), if_neg (by omega), if_neg (by omega), if_neg (by omega), if_neg (by omega), if_pos rfl] at this
  exact this

theorem PhaseData_14 (c : Cfg) (v : DView) (hc : Common v) (r : Resp) (h1 : v.f.resp = some r)
    (h1' : r.data = true ∨ r.trailers = true) (h2 : v.upstreamReset = false)
    (h3 : backPart v.trace = [theRun c, .dh v.f.statusVar false]) (h5 : c.env.oneway = false) : PhaseData c v 14 := by
  refine ⟨hc, ?_⟩
  rw [if_neg (by omega), if_neg (by omega), if_neg (by omega), if_neg (by omega), if_neg (by omega), if_neg (by omega),
    if_pos rfl]
  exact ⟨r, h1, h1', h2, h3, h5⟩

theorem PhaseData_14_of (c : Cfg) (v : DView) (h : PhaseData c v 14) :
    ∃ r, v.f.resp = some r ∧ (r.data = true ∨ r.trailers = true) ∧ v.upstreamReset = false ∧
      backPart v.trace = [theRun c, .dh v.f.statusVar false] ∧ c.env.oneway = false := by
  have := h.2
  rw [if_neg (by omega), if_neg (by omega), if_neg (by omega), if_neg (by omega), if_neg (by omega), if_neg (by omega),
    if_pos rfl] at this
  exact this

theorem PhaseData_15 (c : Cfg) (v : DView) (hc : Common v) (r : Resp) (h1 : v.f.resp = some r)
    (h1' : r.trailers = true) (h2 : v.upstreamReset = false)
    (h3 : backPart v.trace = [theRun c, .dh v.f.statusVar false] ++ (if r.data then [.dd false] else []))
    (h5 : c.env.oneway = false) : PhaseData c v 15 := by
  refine ⟨hc, ?_⟩
  rw [if_neg (by omega), if_neg (by omega), if_neg (by omega), if_neg (by omega), if_neg (by omega), if_neg (by omega),
    if_neg (by omega), if_pos rfl]
  exact ⟨r, h1, h1', h2, h3, h5⟩

theorem PhaseData_15_of (c : Cfg) (v : DView) (h : PhaseData c v 15) :
    ∃ r, v.f.resp = some r ∧ r.trailers = true ∧ v.upstreamReset = false ∧
      backPart v.trace = [theRun c, .dh v.f.statusVar false] ++ (if r.data then [.dd false] else []) ∧
      c.env.oneway = false := by
  have := h.2
  rw [if_neg (by omega), if_neg (by omega), if_neg (by omega), if_neg (by omega), if_neg (by omega), if_neg (by omega),
    if_neg (by omega), if_pos rfl] at this
  exact this

theorem PhaseData_ge16_of (c : Cfg) (v : DView) (p : Nat) (hp : 16 ≤ p) (h : PhaseData c v p) : False := by
  have := h.2
  rw [if_neg (by omega), if_neg (by omega), if_neg (by omega), if_neg (by omega), if_neg (by omega), if_neg (by omega),
    if_neg (by omega), if_neg (by omega)] at this
  exact this

/-- `Ans` only looks at the pending response, the status code and the receiver verdicts -/
theorem Ans_congr {v w : DView} (h : Ans v) (e1 : w.f.resp = v.f.resp) (e2 : w.f.statusVar = v.f.statusVar)
    (e3 : recvVerdicts w.trace = recvVerdicts v.trace) : Ans w := by
  intro ha
  have : answeredIn v.trace := by unfold answeredIn at *; rw [← e3]; exact ha
  rw [e1, e2, e3]; exact h this

theorem replyEvs_shape (r : Resp) (code : Option Nat) : replyShape (replyEvs r code) = true := by
  obtain ⟨d, t⟩ := r
  cases d <;> cases t <;> rfl

theorem SpOK_done (c : Cfg) (t : List Ev) (r : Resp) (code : Option Nat)
    (h : backPart t = .spass 0 (sendRun c.send 0) :: replyEvs r code) : SpOK c t :=
  Or.inr ⟨_, h, replyEvs_shape r code⟩

theorem isDenyEv_eq : isDenyEv = denyEv := by
  funext e; cases e <;> rfl

theorem upfEnabled_nodeny (c : Cfg) (g : St) (h : upfEnabled c g = true) : ¬ DenyIn g.trace := by
  intro ⟨e, he, hd⟩
  simp only [upfEnabled, Bool.and_eq_true, Bool.not_eq_true', List.any_eq_false] at h
  have := h.1.2 e he
  rw [isDenyEv_eq, hd] at this; exact this rfl

/-- [proxy8] `processError` at the end of the UpFilter `case` when the upstream stream of the accepted response was reset during
the sender pass (no filter answered): retried when the regenerated decision on the reset reason fires, else the error reply
of the reason replaces the response and the response pass goes on with it (the repaired line of a3a21969e: `err = nil`) -/
theorem G_reset_upf (c : Cfg) (g : St) (hnh : g.halted = false) (hc : g.cleaned = false) (hr : g.upstreamReset = true)
    (hd : g.direct = false) (hph : g.phase = UpFilter) (hpd : g.procDone = false)
    (hna : ¬ answeredIn g.trace) (hback : backPart g.trace = [theRun c]) (ho : c.env.oneway = false)
    (hin : g.inner ≤ g.phase + 1) : Ginv c (afterPE c g) := by
  rw [afterPE_reset c g hc hr, if_neg (by simp [ho])]
  split
  · rw [if_neg (by simp [hd])]
    exact Ginv_ret c _ Retry (by simp [setRetry, liftF, hnh]) (fun h => absurd h hna) (Or.inr ⟨[], hback, rfl⟩)
      (fun h => by cases h) (fun _ h => absurd rfl h)
  · rw [if_neg (by simp [hph])]
    refine Ginv_next c (consumeDirect (onUpstreamReset c.env.resetCode g)) (by simpa [consumeDirect, onUpstreamReset, liftF] using hnh)
      (fun h => absurd h hna) ?_ hin
    show PhaseData c _ (g.phase + 1)
    rw [hph]
    exact PhaseData_13 c _ ⟨rfl, hc, rfl, hpd⟩ rfl rfl hback ho

theorem phaseCase_Ginv_back (c : Cfg) (s : St) (hnh : s.halted = false) (hd : PhaseData c s.view s.phase)
    (hin : s.inner ≤ s.phase + 1) (hans : Ans s.view) (hge : 12 ≤ s.phase) : Ginv c (phaseCase c s) := by
  have hcom : Common s.view := hd.1
  have hs_clean : s.cleaned = false := hcom.cleaned
  have hs_dir : s.direct = false := hcom.direct
  have hs_again : s.again = InitPhase := hcom.again
  have hs_pd : s.procDone = false := hcom.procDone
  rcases phase_cases s.phase with h | h | h | h | h | h | h | h | h | h | h | h | h | h | h | h | h | h
  any_goals omega
  · -- UpFilter: the sender filters run once, in order
    rw [pc12 c s h]
    show Ginv c (afterPE c (upfEvent c (sendPass c s)))
    obtain ⟨hresp, hrst, hback, hsf, ho⟩ := PhaseData_12_of c _ (by rw [← h]; exact hd)
    have hback : backPart s.trace = [] := hback
    have hsf : SFresh s.toFState := hsf
    have hresp : s.toFState.resp.isSome = true := hresp
    have hrst : s.upstreamReset = false := hrst
    have hsc : s.toFState.scursor = 0 := hsf.2
    have hrun : (runSend c.send s.toFState).2 = sendRun c.send 0 := by
      unfold runSend; rw [hsc]; simp only [List.drop_zero]
      exact sendLoop_run c.send 0 s.toFState (fun j _ => by rw [hsf.1])
    obtain ⟨f1, f2, f3, _, _, f6⟩ := sendLoop_fields (c.send.drop s.toFState.scursor) s.toFState.scursor s.toFState
    generalize hg : sendPass c s = g
    have gF : g.toFState = (runSend c.send s.toFState).1 := by rw [← hg]; simp [sendPass, emit, liftF]
    have gT : g.trace = s.trace ++ [theRun c] := by
      rw [← hg]; simp only [sendPass, emit, liftF, theRun]; rw [hrun]
      show s.trace ++ [Ev.spass s.toFState.scursor (sendRun c.send 0)] = _
      rw [hsc]
    have gR : g.upstreamReset = false := by rw [← hg]; simp [sendPass, emit, liftF]; exact hrst
    have gD : g.procDone = false := by rw [← hg]; simp [sendPass, emit, liftF]; exact hs_pd
    have gH : g.halted = false := by rw [← hg]; simp [sendPass, emit, liftF]; exact hnh
    have gP : g.phase = s.phase := by rw [← hg]; exact sendPass_phase c s
    have gI : g.inner = s.inner := by rw [← hg]; simp [sendPass, emit, liftF]
    have gA : g.again = InitPhase := by rw [← hg, sendPass_again]; exact hs_again
    have gResp : g.toFState.resp = s.toFState.resp := by rw [gF]; exact f1
    have gSv : g.toFState.statusVar = s.toFState.statusVar := by rw [gF]; exact f2
    have gDir : g.direct = false := by show g.toFState.direct = false; rw [gF]; unfold runSend; rw [f3]; exact hs_dir
    have gB : backPart g.trace = [theRun c] := by
      rw [gT, backPart_snoc, hback]; rfl
    have gAns : Ans g.view := Ans_congr hans gResp gSv (by show recvVerdicts g.trace = _; rw [gT]; exact recvVerdicts_snoc_other _ _ rfl)
    have hterm : g.cleaned = true → ∃ st invs, Ev.spass st invs ∈ g.trace ∧ ∃ iv ∈ invs, iv.2 = .termination := by
      intro hc
      have hc' : (runSend c.send s.toFState).1.cleaned = true := by rw [← gF]; exact hc
      rcases f6 hc' with h' | ⟨iv, hiv, ht⟩
      · rw [show s.toFState.cleaned = false from hs_clean] at h'; cases h'
      · refine ⟨0, sendRun c.send 0, ?_, iv, ?_, ht⟩
        · show theRun c ∈ g.trace; rw [gT]; simp
        · rw [← hrun]; exact hiv
    by_cases he : upfEnabled c g = true
    · -- [proxy8] the upstream stream of the accepted response is reset during the sender pass
      have e2 : upfEvent c g = { g with upstreamReset := true } := by simp [upfEvent, he]
      rw [e2]
      by_cases hc : g.cleaned = true
      · exact G_cleaned c _ gH hc gAns (Or.inr ⟨[], gB, rfl⟩) ⟨hc, Or.inl (Or.inr (hterm hc))⟩
      · have hc : g.cleaned = false := by simpa using hc
        exact G_reset_upf c _ gH hc rfl gDir (by rw [show ({ g with upstreamReset := true } : St).phase = g.phase from rfl, gP, h])
          gD (fun ha => upfEnabled_nodeny c g he (answeredIn_deny ha)) gB ho
          (by rw [show ({ g with upstreamReset := true } : St).inner = g.inner from rfl,
                show ({ g with upstreamReset := true } : St).phase = g.phase from rfl, gI, gP]; exact hin)
    have e2 : upfEvent c g = g := by simp [upfEvent, he]
    rw [e2]
    by_cases hc : g.cleaned = true
    · refine G_cleaned c g gH hc gAns (Or.inr ⟨[], gB, rfl⟩) ⟨hc, Or.inl (Or.inr ?_)⟩
      have hc' : (runSend c.send s.toFState).1.cleaned = true := by rw [← gF]; exact hc
      rcases f6 hc' with h' | ⟨iv, hiv, ht⟩
      · rw [show s.toFState.cleaned = false from hs_clean] at h'; cases h'
      · refine ⟨0, sendRun c.send 0, ?_, iv, ?_, ht⟩
        · show theRun c ∈ g.trace; rw [gT]; simp
        · rw [← hrun]; exact hiv
    · have hc : g.cleaned = false := by simpa using hc
      refine G_plain c g gH hc gR gDir gD gAns (Or.inr ⟨[], gB, rfl⟩) (by rw [gI, gP]; exact hin) (fun _ => ?_) (fun ha => absurd gA ha)
      rw [gP, h]
      exact PhaseData_13 c _ ⟨gA, hc, gDir, gD⟩ (by show g.toFState.resp.isSome = true; rw [gResp]; exact hresp) gR gB ho
  · -- UpRecvHeader
    rw [pc13 c s h]
    obtain ⟨hresp, hrst, hback, ho⟩ := PhaseData_13_of c _ (by rw [← h]; exact hd)
    have hrst : s.upstreamReset = false := hrst
    have hback : backPart s.trace = [theRun c] := hback
    cases hr : s.resp with
    | none => have : s.toFState.resp.isSome = true := hresp
              rw [show s.toFState.resp = none from hr] at this; cases this
    | some r =>
      simp only []
      by_cases hq : (!(s.procDone || s.upstreamReset) && headersRetry c s) = true
      · -- the response is retried (a retry state exists and the regenerated decision fires): the model stops
        rw [if_pos hq, afterPEd_true c (setRetry s) (by simp [setRetry, liftF])]
        rw [if_neg (by simp [setRetry, liftF, hs_clean]), if_neg (by simp [setRetry, liftF, hs_dir])]
        exact Ginv_ret c _ Retry (by simp [setRetry, liftF, hnh]) hans (Or.inr ⟨[], hback, rfl⟩)
          (fun h => by cases h) (fun _ h => absurd rfl h)
      rw [if_neg hq]
      unfold respHeaders
      rw [if_neg (by rw [hs_pd, hrst]; simp)]
      split
      · -- headers end the stream: the reply is complete
        rename_i heos
        have hdt : r.data = false ∧ r.trailers = false := by
          cases hd' : r.data <;> cases ht : r.trailers <;> simp [hd', ht] at heos ⊢
        have hbp : backPart (s.trace ++ [Ev.dh s.statusVar true]) = Ev.spass 0 (sendRun c.send 0) :: replyEvs r s.statusVar := by
          rw [backPart_snoc, hback]
          simp [replyEvs, hdt.1, hdt.2, isBack, theRun]
        exact G_cleaned c _ hnh rfl (Ans_congr hans rfl rfl (recvVerdicts_snoc_other _ _ rfl)) (SpOK_done c _ r _ hbp)
          ⟨rfl, Or.inr (Or.inr ⟨r, hr, hbp⟩)⟩
      · rename_i heos
        have hdt : r.data = true ∨ r.trailers = true := by
          cases hd' : r.data <;> cases ht : r.trailers <;> simp [hd', ht] at heos ⊢
        have hbp : backPart (s.trace ++ [Ev.dh s.statusVar false]) = [theRun c, .dh s.statusVar false] := by
          rw [backPart_snoc, hback]; rfl
        refine G_plain c _ hnh hs_clean hrst hs_dir rfl (Ans_congr hans rfl rfl (recvVerdicts_snoc_other _ _ rfl))
          (Or.inr ⟨_, hbp, rfl⟩) hin (fun _ => ?_) (fun ha => absurd hs_again ha)
        show PhaseData c _ (s.phase + 1)
        rw [h]
        exact PhaseData_14 c _ ⟨hs_again, hs_clean, hs_dir, rfl⟩ r hr hdt hrst hbp ho
  · -- UpRecvData
    rw [pc14 c s h]
    obtain ⟨r, hr, hdt, hrst, hback, ho⟩ := PhaseData_14_of c _ (by rw [← h]; exact hd)
    have hback : backPart s.trace = [theRun c, .dh s.statusVar false] := hback
    have hr : s.resp = some r := hr
    have hrst : s.upstreamReset = false := hrst
    rw [hr]
    simp only []
    split
    · rename_i hdata
      unfold respData
      rw [if_neg (by rw [hs_pd, hrst]; simp)]
      split
      · rename_i heos
        have htr : r.trailers = false := by simpa using heos
        have hbp : backPart (s.trace ++ [Ev.dd true]) = Ev.spass 0 (sendRun c.send 0) :: replyEvs r s.statusVar := by
          rw [backPart_snoc, hback]
          simp [replyEvs, hdata, htr, isBack, theRun]
        exact G_cleaned c _ hnh rfl (Ans_congr hans rfl rfl (recvVerdicts_snoc_other _ _ rfl)) (SpOK_done c _ r _ hbp)
          ⟨rfl, Or.inr (Or.inr ⟨r, hr, hbp⟩)⟩
      · rename_i heos
        have htr : r.trailers = true := by simpa using heos
        have hbp : backPart (s.trace ++ [Ev.dd false]) =
            [theRun c, .dh s.statusVar false] ++ (if r.data then [.dd false] else []) := by
          rw [backPart_snoc, hback, hdata]; rfl
        refine G_plain c _ hnh hs_clean hrst hs_dir rfl (Ans_congr hans rfl rfl (recvVerdicts_snoc_other _ _ rfl))
          (Or.inr ⟨_, hbp, by rw [hdata]; rfl⟩) hin (fun _ => ?_) (fun ha => absurd hs_again ha)
        show PhaseData c _ (s.phase + 1)
        rw [h]
        exact PhaseData_15 c _ ⟨hs_again, hs_clean, hs_dir, rfl⟩ r hr htr hrst hbp ho
    · rename_i hdata
      have hdata : r.data = false := by simpa using hdata
      have htr : r.trailers = true := by
        rcases hdt with h' | h'
        · rw [hdata] at h'; cases h'
        · exact h'
      refine Ginv_next c s hnh hans ?_ hin
      rw [h]
      refine PhaseData_15 c _ hcom r hr htr hrst ?_ ho
      show backPart s.trace = _
      rw [hback, hdata]; rfl
  · -- UpRecvTrailer
    rw [pc15 c s h]
    obtain ⟨r, hr, htr, hrst, hback, ho⟩ := PhaseData_15_of c _ (by rw [← h]; exact hd)
    have hback : backPart s.trace = [theRun c, .dh s.statusVar false] ++ (if r.data then [.dd false] else []) := hback
    have hr : s.resp = some r := hr
    have hrst : s.upstreamReset = false := hrst
    rw [hr]
    simp only []
    rw [if_pos htr]
    unfold respTrailers
    rw [if_neg (by rw [hs_pd, hrst]; simp)]
    have hbp : backPart (s.trace ++ [Ev.dt]) = Ev.spass 0 (sendRun c.send 0) :: replyEvs r s.statusVar := by
      rw [backPart_snoc, hback]
      cases hdata : r.data <;> simp [replyEvs, hdata, htr, isBack, theRun]
    exact G_cleaned c _ hnh rfl (Ans_congr hans rfl rfl (recvVerdicts_snoc_other _ _ rfl)) (SpOK_done c _ r _ hbp)
      ⟨rfl, Or.inr (Or.inr ⟨r, hr, hbp⟩)⟩
  · exact (PhaseData_ge16_of c _ _ (by omega) hd).elim
  · exact (PhaseData_ge16_of c _ _ (by omega) hd).elim

theorem PhaseData_SpOK (c : Cfg) (v : DView) (p : Nat) (h : PhaseData c v p) : SpOK c v.trace := by
  rcases phase_cases p with hp | hp | hp | hp | hp | hp | hp | hp | hp | hp | hp | hp | hp | hp | hp | hp | hp | hp
  · exact Or.inl (PhaseData_front_of c v p (by omega) h).noback
  · exact Or.inl (PhaseData_front_of c v p (by omega) h).noback
  · exact Or.inl (PhaseData_front_of c v p (by omega) h).noback
  · exact Or.inl (PhaseData_front_of c v p (by omega) h).noback
  · exact Or.inl (PhaseData_front_of c v p (by omega) h).noback
  · exact Or.inl (PhaseData_56_of c v p (by omega) h).1.noback
  · exact Or.inl (PhaseData_56_of c v p (by omega) h).1.noback
  · exact Or.inl (PhaseData_front_of c v p (by omega) h).noback
  · exact Or.inl (PhaseData_front_of c v p (by omega) h).noback
  · subst hp
    rcases PhaseData_9_of c v h with h9 | h9
    · exact Or.inl h9.2
    · exact Or.inl h9.noback
  · subst hp; exact (PhaseData_10_of c v h).elim
  · subst hp; exact Or.inl (PhaseData_11_of c v h).1.noback
  · subst hp; exact Or.inl (PhaseData_12_of c v h).2.2.1
  · subst hp; exact Or.inr ⟨[], (PhaseData_13_of c v h).2.2.1, rfl⟩
  · subst hp
    obtain ⟨r, _, _, _, hb, _⟩ := PhaseData_14_of c v h
    exact Or.inr ⟨_, hb, rfl⟩
  · subst hp
    obtain ⟨r, _, _, _, hb, _⟩ := PhaseData_15_of c v h
    exact Or.inr ⟨_, hb, by cases r.data <;> rfl⟩
  · exact (PhaseData_ge16_of c v p (by omega) h).elim
  · exact (PhaseData_ge16_of c v p (by omega) h).elim

theorem Ginv_SpOK (c : Cfg) (s : St) (h : Ginv c s) : SpOK c s.trace := by
  cases hh : s.halted
  · exact PhaseData_SpOK c _ _ (h.live hh).1
  · exact (h.done hh).1

/-- what the invariant says about a finished stream that a filter answered -/
theorem single_reply_of (c : Cfg) (s : St) (hg : Ginv c s) (hh : s.halted = true) (ha : answeredIn s.trace)
    (hnt : ¬ terminatedIn s.trace) (hno : c.env.oneway = false) (hex : s.exhausted = false) (hrt : s.retried = false) :
    ∃ r code, replyOf (recvVerdicts s.trace) (none, none) = (some r, code) ∧
      backPart s.trace = .spass 0 (sendRun c.send 0) :: replyEvs r code := by
  rcases (hg.done hh).2 with hd | hd | ⟨_, hd⟩
  · rw [hex] at hd; cases hd
  · rw [hrt] at hd; cases hd
  · rcases hd with hd | hd | ⟨r, hr, hb⟩
    · exact absurd hd hnt
    · rw [hno] at hd; cases hd
    · have hr : s.resp = some r := hr
      have hb : backPart s.trace = .spass 0 (sendRun c.send 0) :: replyEvs r s.statusVar := hb
      have h1 : (s.resp, s.statusVar) = replyOf (recvVerdicts s.trace) (none, none) := hg.ans ha
      refine ⟨r, s.statusVar, ?_, hb⟩
      rw [← h1, hr]

theorem step_Ginv (c : Cfg) (s : St) (h : Ginv c s) : Ginv c (step c s) := by
  unfold step
  split
  · exact h
  · rename_i hnh
    have hnh : s.halted = false := by simpa using hnh
    obtain ⟨hd, hin⟩ := h.live hnh
    have hle : s.phase ≤ 15 := by
      rcases Nat.lt_or_ge s.phase 16 with h' | h'
      · omega
      · exact (PhaseData_ge16_of c _ _ h' hd).elim
    split
    · -- [proxy8] the task loop's budget is used up: what follows the loop
      rcases finishStart_cases c s with ⟨_, e⟩ | ⟨hcl, e⟩ | ⟨hhj, e⟩ | ⟨hcl, hhj, e⟩ <;> rw [e]
      · exact ⟨(fun hh => by cases hh), fun _ => ⟨PhaseData_SpOK c _ _ hd, Or.inl rfl⟩, h.ans⟩
      · have := hd.1.cleaned
        rw [show s.view.f.cleaned = s.cleaned from rfl, hcl] at this; cases this
      · exact ⟨fun _ => ⟨hd, hin⟩, (fun hh => by rw [show ({ s with outer := s.outer + 1 } : St).halted = s.halted from rfl, hnh] at hh; cases hh), h.ans⟩
      · -- `sendHijackReply(500)` taken by `processError`: the guard excludes UpFilter / Oneway, so the worker is in the receive phases
        have hp : s.phase = 2 ∨ s.phase = 4 := by
          simpa [exhaustHijacks, MatchRoute, ChooseHost] using hhj
        have hf : FrontOK s.view := PhaseData_front_of c _ _ (by omega) hd
        have hnd : ¬ DenyIn (finHijack s).trace := hf.nodeny
        exact G_direct c (finHijack s) hnh (by simpa [finHijack, liftF, sendHijack] using hcl) hf.upstreamReset
          (by simp [finHijack, liftF, sendHijack]) (by show s.phase ≠ 12; omega) hd.1.procDone
          (Ans_of_nodeny hnd) (by simp [finHijack, liftF, sendHijack]) hf.noback hf.sfresh
    rw [if_neg (by show ¬ s.inner > 16; omega)]
    rcases Nat.lt_or_ge s.phase 12 with hlt | hge
    · exact phaseCase_Ginv_front c { s with inner := s.inner + 1 } hnh hd (by show s.inner + 1 ≤ s.phase + 1; omega) h.ans
        (by show s.phase ≤ 11; omega)
    · exact phaseCase_Ginv_back c { s with inner := s.inner + 1 } hnh hd (by show s.inner + 1 ≤ s.phase + 1; omega) h.ans hge

theorem init_Ginv (c : Cfg) : Ginv c init := by
  refine ⟨fun _ => ⟨⟨⟨rfl, rfl, rfl, rfl⟩, ?_⟩, Nat.le_refl _⟩, (fun h => by cases h), (fun ⟨_, hv, _⟩ => by cases hv)⟩
  show (if (0 : Nat) ≤ 4 ∨ (0 : Nat) = 7 ∨ (0 : Nat) = 8 then _ else _)
  rw [if_pos (by omega)]
  exact ⟨rfl, rfl, rfl, rfl, (fun ⟨_, he, _⟩ => by cases he), rfl, ⟨rfl, rfl⟩⟩

theorem run_Ginv (c : Cfg) (n : Nat) (s : St) (h : Ginv c s) : Ginv c (run c n s) := by
  induction n generalizing s with
  | zero => exact h
  | succ n ih => exact ih _ (step_Ginv c s h)

/-! ### the worker always returns -/

/-- control effect of one iteration: the task returned, or the loop of `receive` goes on (same counters), or `receive`
returned a phase and the task loop calls it again -/
def Ctl (s r : St) : Prop :=
  r.halted = true ∨ (r.outer = s.outer ∧ r.inner = s.inner) ∨
    (r.outer = s.outer + 1 ∧ r.inner = 0 ∧ s.outer ≤ taskLoopBound)

theorem ret_ctl (s g : St) (p : Nat) (ho : g.outer = s.outer) : Ctl s (ret g p) := by
  unfold ret
  split
  · exact Or.inl rfl
  · split
    · exact Or.inl rfl
    · split
      · exact Or.inl rfl
      · rename_i h _
        exact Or.inr (Or.inr ⟨by simp [ho], rfl, by rw [← ho]; omega⟩)

theorem afterPE_ctl (c : Cfg) (s g : St) (ho : g.outer = s.outer) (hi : g.inner = s.inner) : Ctl s (afterPE c g) := by
  by_cases hc : g.cleaned = true
  · rw [afterPE_cleaned c g hc]; exact ret_ctl s g _ ho
  · have hc : g.cleaned = false := by simpa using hc
    by_cases hr : g.upstreamReset = true
    · rw [afterPE_reset c g hc hr]
      split
      · exact ret_ctl s g _ ho
      · split
        · split
          · split
            · exact ret_ctl s _ _ ho
            · exact Or.inr (Or.inl ⟨ho, hi⟩)
          · exact ret_ctl s _ _ ho
        · split
          · exact ret_ctl s _ _ ho
          · exact Or.inr (Or.inl ⟨ho, hi⟩)
    · have hr : g.upstreamReset = false := by simpa using hr
      by_cases hd : g.direct = true
      · rw [afterPE_direct c g hc hr hd]
        split
        · exact ret_ctl s _ _ ho
        · split
          · exact ret_ctl s _ _ ho
          · exact Or.inr (Or.inl ⟨ho, hi⟩)
      · have hd : g.direct = false := by simpa using hd
        rw [afterPE_plain c g hc hr hd]
        split
        · exact ret_ctl s _ _ ho
        · split
          · exact ret_ctl s g _ ho
          · exact Or.inr (Or.inl ⟨ho, hi⟩)

theorem phaseCase_ctl (c : Cfg) (s : St) : Ctl s (phaseCase c s) := by
  have stay : ∀ n, Ctl s { s with phase := n } := fun n => Or.inr (Or.inl ⟨rfl, rfl⟩)
  have halt : ∀ e, Ctl s { emit s e with halted := true } := fun e => Or.inl rfl
  rcases phase_cases s.phase with h | h | h | h | h | h | h | h | h | h | h | h | h | h | h | h | h | h
  · rw [pc0 c s h]; exact stay _
  · rw [pc1 c s h]; exact afterPE_ctl c s _ (by simp [filterPass, emit, liftF]) (by simp [filterPass, emit, liftF])
  · rw [pc2 c s h]; exact afterPE_ctl c s _ rfl rfl
  · rw [pc3 c s h]; exact afterPE_ctl c s _ (by simp [filterPass, emit, liftF]) (by simp [filterPass, emit, liftF])
  · rw [pc4 c s h]
    apply afterPE_ctl
    · unfold chooseHost; simp only []; split <;> (try split) <;> rfl
    · unfold chooseHost; simp only []; split <;> (try split) <;> rfl
  · rw [pc5 c s h]; exact afterPE_ctl c s _ (by simp [filterPass, emit, liftF]) (by simp [filterPass, emit, liftF])
  · rw [pc6 c s h]; split
    · apply afterPE_ctl
      · unfold sendUpstream; split <;> (try split) <;> rfl
      · unfold sendUpstream; split <;> (try split) <;> rfl
    · exact halt _
  · rw [pc7 c s h]; split
    · exact afterPE_ctl c s s rfl rfl
    · exact stay _
  · rw [pc8 c s h]; split
    · exact afterPE_ctl c s s rfl rfl
    · exact stay _
  · rw [pc9 c s h]; split
    · exact afterPE_ctl c s _ rfl rfl
    · exact stay _
  · rw [pc10 c s h]; exact halt _
  · rw [pc11 c s h]; split
    · rename_i hh; exact Or.inl hh
    · apply afterPE_ctl
      · unfold deliver; split <;> (try split) <;> rfl
      · unfold deliver; split <;> (try split) <;> rfl
  · rw [pc12 c s h]; exact afterPE_ctl c s _ (by simp [sendPassE, sendPass, emit, liftF]) (by simp [sendPassE, sendPass, emit, liftF])
  · rw [pc13 c s h]; split
    · split
      · rw [afterPEd_true c (setRetry s) (by simp [setRetry, liftF])]
        split
        · exact ret_ctl s _ _ rfl
        · split
          · split
            · exact ret_ctl s _ _ rfl
            · split
              · exact ret_ctl s _ _ rfl
              · exact Or.inr (Or.inl ⟨rfl, rfl⟩)
          · exact ret_ctl s _ _ rfl
      · apply afterPE_ctl
        · unfold respHeaders; split <;> (try split) <;> rfl
        · unfold respHeaders; split <;> (try split) <;> rfl
    · exact stay _
  · rw [pc14 c s h]; split
    · split
      · apply afterPE_ctl
        · unfold respData; split <;> (try split) <;> rfl
        · unfold respData; split <;> (try split) <;> rfl
      · exact stay _
    · exact stay _
  · rw [pc15 c s h]; split
    · split
      · apply afterPE_ctl
        · unfold respTrailers; split <;> rfl
        · unfold respTrailers; split <;> rfl
      · exact stay _
    · exact stay _
  · rw [pc16 c s h]; exact ret_ctl s s _ rfl
  · rw [pc17 c s h]; exact halt _

/-- remaining iterations the task can make: the task loop, the step after it, the finishing pass -/
def measure (s : St) : Nat := if s.halted then 0 else (taskLoopBound + 2 - s.outer) * (receiveLoopBound + 2) - s.inner

theorem measure_live (s : St) (h : s.halted = false) : measure s = (12 - s.outer) * 18 - s.inner := by
  simp [measure, h]

theorem measure_halted (s : St) (h : s.halted = true) : measure s = 0 := by simp [measure, h]

theorem mul18 (a b : Nat) (h : a = b + 1) : a * 18 = b * 18 + 18 := by rw [h, Nat.add_mul]

/-- [proxy8] what follows the exhausted task loop ends the task or starts the finishing pass (`outer` = taskLoopBound + 1) -/
theorem finishStart_ctl (c : Cfg) (s : St) (hg : Ginv c s) (hnh : s.halted = false) :
    (finishStart c s).halted = true ∨ ((finishStart c s).outer = s.outer + 1 ∧ (finishStart c s).inner ≤ s.inner) := by
  obtain ⟨hd, hin⟩ := hg.live hnh
  rcases finishStart_cases c s with ⟨_, e⟩ | ⟨_, e⟩ | ⟨_, e⟩ | ⟨hcl, hhj, e⟩ <;> rw [e]
  · exact Or.inl rfl
  · exact Or.inl rfl
  · exact Or.inr ⟨rfl, Nat.le_refl _⟩
  · have hp : s.phase = 2 ∨ s.phase = 4 := by
      simpa [exhaustHijacks, MatchRoute, ChooseHost] using hhj
    have hf : FrontOK s.view := PhaseData_front_of c _ _ (by omega) hd
    have hr : (finHijack s).upstreamReset = false := hf.upstreamReset
    rw [afterPE_direct c (finHijack s) (by simpa [finHijack, liftF, sendHijack] using hcl) hr
      (by simp [finHijack, liftF, sendHijack])]
    have hle : s.outer ≤ taskLoopBound ∨ s.outer > taskLoopBound := by omega
    have key : ∀ (x : St) (p : Nat), x.outer = s.outer → x.inner = s.inner →
        (ret x p).halted = true ∨ ((ret x p).outer = s.outer + 1 ∧ (ret x p).inner ≤ s.inner) := by
      intro x p ho hi
      unfold ret
      split
      · exact Or.inl rfl
      · split
        · exact Or.inl rfl
        · split
          · exact Or.inl rfl
          · exact Or.inr ⟨by simp [ho], Nat.zero_le _⟩
    split
    · exact key _ _ rfl rfl
    · split
      · exact key _ _ rfl rfl
      · rename_i h12
        have : s.phase = 12 := by simpa [finHijack, liftF, UpFilter] using h12
        omega

/-- [proxy8] … touches none of the fields `processError` never touches, and leaves the worker where it was (a pending local
reply / the one-way clean up) or at Oneway / UpFilter -/
theorem finishStart_form (c : Cfg) (s : St) (hg : Ginv c s) (hnh : s.halted = false) :
    Frame s (finishStart c s) ∧
    ((finishStart c s).halted = true ∨ ((finishStart c s).halted = false ∧ (finishStart c s).phase = s.phase) ∨
      9 ≤ (finishStart c s).phase) := by
  obtain ⟨hd, hin⟩ := hg.live hnh
  rcases finishStart_cases c s with ⟨_, e⟩ | ⟨_, e⟩ | ⟨_, e⟩ | ⟨hcl, hhj, e⟩ <;> rw [e]
  · exact ⟨⟨rfl, rfl, rfl, rfl, rfl, rfl, rfl⟩, Or.inl rfl⟩
  · exact ⟨⟨rfl, rfl, rfl, rfl, rfl, rfl, rfl⟩, Or.inl rfl⟩
  · exact ⟨⟨rfl, rfl, rfl, rfl, rfl, rfl, rfl⟩, Or.inr (Or.inl ⟨hnh, rfl⟩)⟩
  · refine ⟨?_, ?_⟩
    · obtain ⟨f1, f2, f3, f4, f5, f6, f7⟩ := afterPE_frame c (finHijack s)
      exact ⟨f1, f2, f3, f4, f5, f6, f7⟩
    · have hp : s.phase = 2 ∨ s.phase = 4 := by
        simpa [exhaustHijacks, MatchRoute, ChooseHost] using hhj
      have hf : FrontOK s.view := PhaseData_front_of c _ _ (by omega) hd
      have hr : (finHijack s).upstreamReset = false := hf.upstreamReset
      rw [afterPE_direct c (finHijack s) (by simpa [finHijack, liftF, sendHijack] using hcl) hr
        (by simp [finHijack, liftF, sendHijack])]
      split
      · exact Or.inr (Or.inr (by rw [ret_phase]; decide))
      · split
        · exact Or.inr (Or.inr (by rw [ret_phase]; decide))
        · rename_i h12
          have : s.phase = 12 := by simpa [finHijack, liftF, UpFilter] using h12
          omega

theorem step_measure (c : Cfg) (s : St) (hg : Ginv c s) (hnh : s.halted = false) (ho : s.outer ≤ taskLoopBound + 1)
    (hi : s.inner ≤ receiveLoopBound) :
    measure (step c s) + 1 ≤ measure s ∧ ((step c s).halted = false → (step c s).outer ≤ taskLoopBound + 1) := by
  have hb : receiveLoopBound = 16 := rfl
  have ht : taskLoopBound = 10 := rfl
  rw [ht] at ho
  rw [hb] at hi
  have hm := measure_live s hnh
  unfold step
  rw [if_neg (by simp [hnh])]
  split
  · rename_i h10
    rw [ht] at h10
    rcases finishStart_ctl c s hg hnh with h | ⟨h1, h2⟩
    · refine ⟨?_, fun hh => by rw [h] at hh; cases hh⟩
      rw [measure_halted _ h, hm, h10]; omega
    · refine ⟨?_, fun _ => by rw [h1, h10, ht]; omega⟩
      cases hh : (finishStart c s).halted
      · rw [measure_live _ hh, hm, h1, h10]; omega
      · rw [measure_halted _ hh, hm, h10]; omega
  · rename_i h10
    rw [ht] at h10
    rw [if_neg (by omega)]
    have hctl := phaseCase_ctl c { s with inner := s.inner + 1 }
    generalize phaseCase c { s with inner := s.inner + 1 } = r at hctl
    have hpos : (12 - s.outer) * 18 = (11 - s.outer) * 18 + 18 := mul18 _ _ (by omega)
    rcases hctl with h | ⟨h1, h2⟩ | ⟨h1, h2, h3⟩
    · refine ⟨?_, fun hh => by rw [h] at hh; cases hh⟩
      rw [measure_halted _ h, hm]; omega
    · have h1 : r.outer = s.outer := h1
      have h2 : r.inner = s.inner + 1 := h2
      refine ⟨?_, fun _ => by rw [h1, ht]; exact ho⟩
      cases hh : r.halted
      · rw [measure_live _ hh, hm, h1, h2]; omega
      · rw [measure_halted _ hh, hm]; omega
    · have h1 : r.outer = s.outer + 1 := h1
      have h3 : s.outer ≤ 10 := h3
      refine ⟨?_, fun _ => by rw [h1, ht]; omega⟩
      cases hh : r.halted
      · rw [measure_live _ hh, hm, h1, h2]
        have : 12 - (s.outer + 1) = 11 - s.outer := by omega
        rw [this]; omega
      · rw [measure_halted _ hh, hm]; omega

theorem Ginv_inner_le (c : Cfg) (s : St) (h : Ginv c s) (hnh : s.halted = false) : s.inner ≤ receiveLoopBound := by
  obtain ⟨hd, hin⟩ := h.live hnh
  have hle : s.phase ≤ 15 := by
    rcases Nat.lt_or_ge s.phase 16 with h' | h'
    · omega
    · exact (PhaseData_ge16_of c _ _ h' hd).elim
  show s.inner ≤ 16; omega

theorem run_measure (c : Cfg) (n : Nat) (s : St) (hg : Ginv c s) (ho : s.halted = false → s.outer ≤ taskLoopBound + 1) :
    measure (run c n s) ≤ measure s - n ∧ ((run c n s).halted = false → (run c n s).outer ≤ taskLoopBound + 1) := by
  induction n generalizing s with
  | zero => exact ⟨Nat.le_refl _, ho⟩
  | succ n ih =>
    show measure (run c n (step c s)) ≤ measure s - (n + 1) ∧
      ((run c n (step c s)).halted = false → (run c n (step c s)).outer ≤ taskLoopBound + 1)
    by_cases hh : s.halted = true
    · have hs : step c s = s := by simp [step, hh]
      rw [hs]
      obtain ⟨i1, i2⟩ := ih s hg ho
      exact ⟨by have : measure s = 0 := by simp [measure, hh]
                rw [this] at i1 ⊢; omega, i2⟩
    · have hh : s.halted = false := by simpa using hh
      obtain ⟨m1, m2⟩ := step_measure c s hg hh (ho hh) (Ginv_inner_le c s hg hh)
      obtain ⟨i1, i2⟩ := ih (step c s) (step_Ginv c s hg) m2
      exact ⟨by omega, i2⟩

/-- **the worker always returns**: after at most `fuel` iterations the task of `OnReceive` has returned (or would block
forever — excluded separately) -/
theorem final_halted (c : Cfg) : (final c).halted = true := by
  obtain ⟨h1, h2⟩ := run_measure c fuel init (init_Ginv c) (fun _ => by show (0 : Nat) ≤ 10 + 1; omega)
  have hm : measure init = 216 := rfl
  have hf : fuel = 216 := rfl
  have h0 : measure (run c fuel init) = 0 := by
    have : measure (run c fuel init) ≤ 216 - fuel := by rw [← hm]; exact h1
    omega
  cases hh : (final c).halted
  · exfalso
    have hout : (run c fuel init).outer ≤ 10 + 1 := h2 hh
    have hin : (run c fuel init).inner ≤ 16 := Ginv_inner_le c _ (run_Ginv c fuel init (init_Ginv c)) hh
    have hh' : (run c fuel init).halted = false := hh
    rw [measure_live _ hh'] at h0
    have : (12 - (run c fuel init).outer) * 18 = (11 - (run c fuel init).outer) * 18 + 18 := mul18 _ _ (by omega)
    omega
  · rfl

end MosnVerif.Model.FilterMachine
