import MosnVerif.Model.Shutdown
/-! stage-manager lemmas: the stored states never go down in rank (core Lean only) -/
namespace MosnVerif.Model.Shutdown
open MosnVerif.Gen.Shutdown

/-- history is rank-monotone and its head is the current state -/
structure Good (m : SM) : Prop where
  mono : monoRev m.hist
  head : m.state = m.hist.headD Nil

theorem Good.set {m : SM} (g : Good m) (s : Int) (h : rank m.state ≤ rank s) : Good (m.set s) := by
  refine ⟨?_, by simp [SM.set]⟩
  simp only [SM.set]
  cases hh : m.hist with
  | nil => simp [monoRev]
  | cons a r =>
    have : m.state = a := by rw [g.head, hh]; rfl
    simp only [monoRev]
    exact ⟨by rw [← this]; exact h, by rw [← hh]; exact g.mono⟩

/-- ranks ascend from `a` through the list -/
def ascFrom (a : Int) : List Int → Prop
  | [] => True
  | x :: r => rank a ≤ rank x ∧ ascFrom x r

theorem Good.setAll {m : SM} (g : Good m) (l : List Int) (h : ascFrom m.state l) :
    Good (m.setAll l) ∧ (m.setAll l).state = l.getLastD m.state := by
  induction l generalizing m with
  | nil => exact ⟨g, rfl⟩
  | cons x r ih =>
    simp only [SM.setAll, List.foldl_cons]
    have g' := g.set x h.1
    have := ih g' (by simpa [SM.set] using h.2)
    simp only [SM.setAll] at this
    refine ⟨this.1, ?_⟩
    rw [this.2]
    cases r <;> simp [SM.set, List.getLastD]

theorem setAll_exit (m : SM) (l : List Int) : (m.setAll l).exit = m.exit ∧ (m.setAll l).bootIdx = m.bootIdx
    ∧ (m.setAll l).released = m.released ∧ (m.setAll l).stopAction = m.stopAction := by
  induction l generalizing m with
  | nil => simp [SM.setAll]
  | cons x r ih =>
    simp only [SM.setAll, List.foldl_cons]
    have := ih (m.set x)
    simp only [SM.setAll] at this
    simpa [SM.set] using this

theorem rank_lit (s : Int) (h : s ≠ 12 ∧ s ≠ 13) : rank s = s := by
  unfold rank
  simp [StartingNewServer, Upgrading, h.1, h.2]

/-- `Stop` from a state at or before Running in rank: the history stays monotone, the process exits or `Stop` was ignored -/
theorem smStop_good (m : SM) (f : Bool) (g : Good m) (h : rank m.state ≤ 6) :
    Good (smStop m f) ∧ ((smStop m f).exit.isSome = true ∨ smStop m f = m) := by
  unfold smStop
  split
  · exact ⟨g, Or.inr rfl⟩
  · split
    · exact ⟨g, Or.inr rfl⟩
    · simp only [gracefulSetsStateFirst, ↓reduceIte, gracefulPrefix, stopSeqGraceful, stopSeqDirect,
        List.length_cons, List.length_nil, List.take, List.drop]
      refine ⟨?_, Or.inl (by simp)⟩
      have hm : ∀ b, m.hist.head? = some b → rank b ≤ 6 := by
        intro b hb
        have := g.head
        cases hh : m.hist with
        | nil => simp [hh] at hb
        | cons a r => simp [hh] at hb this; rw [← hb, ← this]; exact h
      have r8 : rank GracefulStopping = 8 := by decide
      have r9 : rank Stopping = 9 := by decide
      have r10 : rank AfterStop = 10 := by decide
      have r11 : rank Stopped = 11 := by decide
      split
      · constructor
        · split <;> (
            simp only [SM.setAll, SM.set, SM.call, List.foldl_cons, List.foldl_nil, monoRev, r8, r9, r10, r11]
            refine ⟨by omega, by omega, by omega, ?_⟩
            cases hh : m.hist with
            | nil => simp [monoRev]
            | cons a r =>
              simp only [monoRev]
              exact ⟨by have := hm a (by simp [hh]); omega, by rw [← hh]; exact g.mono⟩)
        · split <;> simp [SM.setAll, SM.set, SM.call]
      · constructor
        · simp only [SM.setAll, SM.set, SM.call, List.foldl_cons, List.foldl_nil, monoRev, r9, r10, r11]
          refine ⟨by omega, by omega, ?_⟩
          cases hh : m.hist with
          | nil => simp [monoRev]
          | cons a r =>
            simp only [monoRev]
            exact ⟨by have := hm a (by simp [hh]); omega, by rw [← hh]; exact g.mono⟩
        · simp [SM.setAll, SM.set, SM.call]

def bootState (k : Nat) : Int := (Nil :: runSeq).getD k Nil

theorem boot_facts : ∀ k, k < 6 →
    rank (bootState k) ≤ rank (runSeq.getD k 0) ∧ bootState (k + 1) = runSeq.getD k 0 ∧
    (¬ (k + 1 < 6) → rank (runSeq.getD k 0) = 6) ∧ bootState k < 6 ∧ rank (bootState k) ≤ 6 := by decide

structure Inv (m : SM) : Prop where
  good : Good m
  phase : m.exit = none → (if m.bootIdx < 6 then m.state = bootState m.bootIdx else rank m.state = 6)

theorem Inv.rank_le {m : SM} (i : Inv m) (he : m.exit = none) : rank m.state ≤ 6 := by
  have := i.phase he
  split at this
  · rename_i hk; rw [this]; exact (boot_facts _ hk).2.2.2.2
  · omega

/-- the event is one the environment can produce: Reload / Upgrade notices only once `Run` has returned, and an
init-stage callback only gives a stop notice -/
def evOk (m : SM) : SMEv → Bool
  | .boot early _ _ => match early with
    | some a => noticeKind a == 3 || noticeKind a == 0
    | none => true
  | .notice a _ _ => noticeKind a == 3 || noticeKind a == 0 || m.runDone
  | _ => true

def guarded (m : SM) : List SMEv → Prop
  | [] => True
  | e :: r => evOk m e = true ∧ guarded (smStep m e) r

instance monoRevDec : (l : List Int) → Decidable (monoRev l)
  | [] => isTrue trivial
  | [_] => isTrue trivial
  | a :: b :: r => by
    unfold monoRev
    exact @instDecidableAnd _ _ _ (monoRevDec (b :: r))

instance guardedDec : (m : SM) → (es : List SMEv) → Decidable (guarded m es)
  | _, [] => isTrue trivial
  | m, e :: r => by
    unfold guarded
    exact @instDecidableAnd _ _ _ (guardedDec (smStep m e) r)

theorem runDone_iff (m : SM) : m.runDone = true ↔ ¬ (m.bootIdx < 6) := by
  simp [SM.runDone, runSeq]

theorem smNotice_inv (m : SM) (a : Int) (hd : Option Bool) (f : Bool) (i : Inv m)
    (hk : (noticeKind a == 3 || noticeKind a == 0 || m.runDone) = true) : Inv (smNotice m a hd f) := by
  unfold smNotice
  split
  · exact i
  · rename_i hex
    have hex' : m.exit = none := by simpa using hex
    simp only [beforeStopOnCopy, ↓reduceIte, beforeStopSeq, reloadSeq, upgradeSeq, resumeSeq]
    have r12 : rank StartingNewServer = 6 := by decide
    have r13 : rank Upgrading = 6 := by decide
    have r6 : rank Running = 6 := by decide
    -- the record with stopAction / notes replaced has the same history, state, boot index and exit
    generalize hm' : ({ m with stopAction := a, notes := [BeforeStop].reverse ++ m.notes } : SM) = m'
    have i' : Inv m' := by
      subst hm'
      exact ⟨⟨i.good.mono, i.good.head⟩, i.phase⟩
    have hex'' : m'.exit = none := by subst hm'; exact hex'
    have hbi : m'.bootIdx = m.bootIdx := by subst hm'; rfl
    have hrd : m'.runDone = m.runDone := by subst hm'; rfl
    match hkind : noticeKind a with
    | 1 =>
      simp only
      have hrun : ¬ (m'.bootIdx < 6) := by
        rw [hbi]; apply (runDone_iff m).1
        simpa [hkind] using hk
      have hr : rank m'.state = 6 := by have := i'.phase hex''; simpa [hrun] using this
      split
      · exact i'
      · obtain ⟨g1, s1⟩ := i'.good.setAll [StartingNewServer] ⟨by omega, trivial⟩
        refine ⟨g1, fun _ => ?_⟩
        rw [(setAll_exit m' _).2.1]
        simp only [hrun, ↓reduceIte, s1, List.getLastD]; exact r12
    | 2 =>
      simp only
      have hrun : ¬ (m'.bootIdx < 6) := by
        rw [hbi]; apply (runDone_iff m).1
        simpa [hkind] using hk
      have hr : rank m'.state = 6 := by have := i'.phase hex''; simpa [hrun] using this
      obtain ⟨g1, s1⟩ := i'.good.setAll [Upgrading] ⟨by omega, trivial⟩
      have s1' : (m'.setAll [Upgrading]).state = Upgrading := by simpa [List.getLastD] using s1
      have b1 : (m'.setAll [Upgrading]).bootIdx = m'.bootIdx := (setAll_exit m' _).2.1
      cases hd with
      | none =>
        simp only
        obtain ⟨g2, s2⟩ := g1.setAll [Running] ⟨by rw [s1']; omega, trivial⟩
        refine ⟨g2, fun _ => ?_⟩
        rw [(setAll_exit _ _).2.1, b1]
        simp only [hrun, ↓reduceIte, s2, List.getLastD]; exact r6
      | some ok =>
        simp only
        cases ok with
        | true =>
          simp only [↓reduceIte]
          refine ⟨⟨g1.mono, g1.head⟩, fun _ => ?_⟩
          show (if (m'.setAll [Upgrading]).bootIdx < 6 then _ else rank (m'.setAll [Upgrading]).state = 6)
          rw [b1]; simp only [hrun, ↓reduceIte, s1']; exact r13
        | false =>
          simp only [Bool.false_eq_true, ↓reduceIte]
          have gc : Good ((m'.setAll [Upgrading]).call s!"upgrade@{(m'.setAll [Upgrading]).state}") := ⟨g1.mono, g1.head⟩
          obtain ⟨g2, s2⟩ := gc.setAll [Running] ⟨by show rank (m'.setAll [Upgrading]).state ≤ _; rw [s1']; omega, trivial⟩
          refine ⟨g2, fun _ => ?_⟩
          rw [(setAll_exit _ _).2.1]
          show (if (m'.setAll [Upgrading]).bootIdx < 6 then _ else _)
          rw [b1]
          simp only [hrun, ↓reduceIte, s2, List.getLastD]; exact r6
    | 3 =>
      simp only
      split
      · obtain ⟨g1, h1⟩ := smStop_good m' f i'.good (i'.rank_le hex'')
        refine ⟨g1, fun he => ?_⟩
        rcases h1 with h1 | h1
        · simp [he] at h1
        · rw [h1]; exact i'.phase hex''
      · subst hm'; exact ⟨⟨i.good.mono, i.good.head⟩, i.phase⟩
    | 0 => exact i'
    | n + 4 => exact i'

theorem runSeq_get (k : Nat) (s : Int) (h : runSeq[k]? = some s) : k < 6 ∧ runSeq.getD k 0 = s := by
  have hk : k < runSeq.length := by
    rcases Nat.lt_or_ge k runSeq.length with h' | h'
    · exact h'
    · rw [List.getElem?_eq_none h'] at h; cases h
  refine ⟨by simpa [runSeq] using hk, ?_⟩
  simp [List.getD, h]

theorem smStep_inv (m : SM) (e : SMEv) (i : Inv m) (hk : evOk m e = true) : Inv (smStep m e) := by
  unfold smStep
  split
  · exact i
  · rename_i hex
    have hex' : m.exit = none := by simpa using hex
    cases e with
    | boot early initFails inheritFails =>
      simp only
      split
      · exact i
      · rename_i s hs
        obtain ⟨hk6, hget⟩ := runSeq_get _ _ hs
        obtain ⟨f1, f2, f3, _, _⟩ := boot_facts _ hk6
        rw [hget] at f1 f2 f3
        have hst : m.state = bootState m.bootIdx := by have := i.phase hex'; simpa [hk6] using this
        -- after SetState(s) and advancing the stage counter
        generalize hm1 : ({ m.set s with bootIdx := m.bootIdx + 1 } : SM) = m1
        have g1 : Good m1 := by
          have := i.good.set s (by rw [hst]; exact f1)
          subst hm1; exact ⟨this.mono, this.head⟩
        have e1 : m1.exit = none := by subst hm1; exact hex'
        have i1 : Inv m1 := by
          refine ⟨g1, fun _ => ?_⟩
          subst hm1
          show (if m.bootIdx + 1 < 6 then s = bootState (m.bootIdx + 1) else rank s = 6)
          split
          · exact f2.symm
          · rename_i hn; exact f3 hn
        have call_inv : ∀ (x : SM) (c : String), Inv x → Inv (x.call c) := fun x c ix => ⟨⟨ix.good.mono, ix.good.head⟩, ix.phase⟩
        have stop_inv : ∀ (x : SM) (f : Bool), Inv x → x.exit = none → Inv (smStop x f) := by
          intro x f ix hx
          obtain ⟨gx, hx'⟩ := smStop_good x f ix.good (ix.rank_le hx)
          refine ⟨gx, fun he => ?_⟩
          rcases hx' with h1 | h1
          · simp [he] at h1
          · rw [h1]; exact ix.phase hx
        split
        · -- Initing: init-stage callbacks (possibly an early stop notice), then app.Init
          have fin : ∀ m2 : SM, Inv m2 →
              Inv (if m2.exit.isSome = true then m2 else if initFails = true then smStop (m2.call "init") false else m2.call "init") := by
            intro m2 i2
            split
            · exact i2
            · rename_i he2
              have he2' : m2.exit = none := by simpa using he2
              split
              · exact stop_inv _ _ (call_inv _ _ i2) he2'
              · exact call_inv _ _ i2
          cases early with
          | none => exact fin m1 i1
          | some a =>
            apply fin
            apply smNotice_inv m1 a none false i1
            simp only [evOk] at hk
            simp only [Bool.or_eq_true] at hk ⊢
            exact Or.inl hk
        · split
          · -- Starting: app.Start, app.InheritConnections
            split
            · apply stop_inv
              · exact ⟨⟨g1.mono, g1.head⟩, i1.phase⟩
              · exact e1
            · exact call_inv _ _ (call_inv _ _ i1)
          · exact i1
    | notice a handler f =>
      exact smNotice_inv m a handler f i (by simpa [evOk] using hk)
    | reloadTimeout =>
      simp only
      split
      · rename_i h12
        have h12' : m.state = StartingNewServer := by simpa using h12
        have hrun : ¬ (m.bootIdx < 6) := by
          intro hk6
          have := i.phase hex'
          simp only [hk6, ↓reduceIte] at this
          have hb := (boot_facts _ hk6).2.2.2.1
          rw [← this, h12'] at hb
          revert hb; decide
        obtain ⟨g1, s1⟩ := i.good.setAll resumeSeq ⟨by rw [h12']; decide, trivial⟩
        refine ⟨g1, fun _ => ?_⟩
        rw [(setAll_exit _ _).2.1]
        simp only [hrun, ↓reduceIte]
        rw [s1]; simp only [resumeSeq, List.getLastD]; decide
      · exact i
    | mainStop f =>
      simp only
      split
      · obtain ⟨gx, hx'⟩ := smStop_good m f i.good (i.rank_le hex')
        refine ⟨gx, fun he => ?_⟩
        rcases hx' with h1 | h1
        · simp [he] at h1
        · rw [h1]; exact i.phase hex'
      · exact i

theorem smInit_inv (f : Bool) : Inv (smInit f) :=
  ⟨⟨trivial, rfl⟩, fun _ => by simp only [smInit]; exact (by decide : (if 0 < 6 then Nil = bootState 0 else rank Nil = 6))⟩

theorem smRun_inv (m : SM) (es : List SMEv) (i : Inv m) (h : guarded m es) : Inv (smRun m es) := by
  induction es generalizing m with
  | nil => exact i
  | cons e r ih => exact ih _ (smStep_inv m e i h.1) h.2

end MosnVerif.Model.Shutdown
