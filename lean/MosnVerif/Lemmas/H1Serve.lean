import MosnVerif.Model.H1Serve
/-! lemmas about the HTTP/1 serve loop model (C08). Core Lean only. -/
namespace MosnVerif.Lemmas.H1Serve
open MosnVerif.Model.H1Serve

theorem turn_calls (p : Policy) (parse : List UInt8 → PStep) (c : Cfg) :
    (turn p parse c).1.calls = c.calls + 1 := by
  unfold turn
  split
  · dsimp only; split
    · rfl
    · split <;> rfl
  · rfl
  · dsimp only; split <;> rfl
  · rfl

/-- a turn behind which the loop goes round again was a message (the error branch returns) -/
theorem turn_none (p : Policy) (hs : p.errAgain = false) (parse : List UInt8 → PStep) (hp : Progress parse) (c : Cfg)
    (h : (turn p parse c).2 = none) :
    ∃ n, 0 < n ∧ n ≤ c.buf.length ∧ (turn p parse c).1.buf = c.buf.drop n := by
  unfold turn at h ⊢
  split at h
  next n cont close hm =>
    have ⟨h1, h2⟩ := hp _ _ _ _ hm
    refine ⟨n, h1, h2, ?_⟩
    dsimp only
    split
    · rfl
    · split <;> rfl
  next => simp at h
  next =>
    dsimp only at h
    rw [hs] at h
    simp at h
  next => simp at h

/-- the loop stops turning on EVERY input: at most one parse call per unconsumed byte, plus one -/
theorem returns_of_progress (p : Policy) (hs : p.errAgain = false) (parse : List UInt8 → PStep) (hp : Progress parse) :
    ∀ (k : Nat) (c : Cfg), c.buf.length = k →
      ∃ c' f, Returns p parse c c' f ∧ c'.calls ≤ c.calls + k + 1 ∧ c.calls < c'.calls := by
  intro k
  induction k using Nat.strongRecOn with
  | _ k ih =>
    intro c hk
    cases h : (turn p parse c).2 with
    | some f =>
      refine ⟨_, f, .done h, ?_, ?_⟩ <;> rw [turn_calls] <;> omega
    | none =>
      obtain ⟨n, hn0, hnl, hb⟩ := turn_none p hs parse hp c h
      have hl : (turn p parse c).1.buf.length = k - n := by rw [hb, List.length_drop, hk]
      obtain ⟨c', f, hr, hb1, hb2⟩ := ih (k - n) (by omega) (turn p parse c).1 hl
      rw [turn_calls] at hb1 hb2
      exact ⟨c', f, .more h hr, by omega, by omega⟩

theorem turn_fin_contained (p : Policy) (hc : p.Contained) (parse : List UInt8 → PStep) (c : Cfg) (f : Fin)
    (h : (turn p parse c).2 = some f) : f = .waiting ∨ f = .closed := by
  obtain ⟨h1, h2, h3, h4⟩ := hc
  unfold turn at h
  split at h
  · dsimp only at h
    split at h
    · simp at h; exact Or.inr h.symm
    · simp [h4] at h
  · simp at h; exact Or.inl h.symm
  · dsimp only at h
    rw [h1] at h
    have : (p.errCloses > 0 || p.errResets > 0) = true := by
      cases h2 with
      | inl h => simp [h]
      | inr h => simp [h]
    simp [this] at h
    exact Or.inr h.symm
  · have : (p.panicCloses > 0 || p.panicResets > 0) = true := by
      cases h3 with
      | inl h => simp [h]
      | inr h => simp [h]
    simp [this] at h
    exact Or.inr h.symm

theorem returns_fin_contained (p : Policy) (hc : p.Contained) (parse : List UInt8 → PStep) {c c' : Cfg} {f : Fin}
    (h : Returns p parse c c' f) : f = .waiting ∨ f = .closed := by
  induction h with
  | done h => exact turn_fin_contained p hc parse _ _ h
  | more _ _ ih => exact ih

/-- `run` with enough fuel computes what `Returns` derives -/
theorem run_of_returns (p : Policy) (parse : List UInt8 → PStep) {c c' : Cfg} {f : Fin} (h : Returns p parse c c' f) :
    ∃ fuel, run p parse fuel c = some (c', f) := by
  induction h with
  | @done c f h =>
    refine ⟨1, ?_⟩
    unfold run
    have : turn p parse c = ((turn p parse c).1, some f) := by rw [← h]
    rw [this]
  | @more c c' f h _ ih =>
    obtain ⟨fuel, hf⟩ := ih
    refine ⟨fuel + 1, ?_⟩
    unfold run
    have : turn p parse c = ((turn p parse c).1, none) := by rw [← h]
    rw [this]
    exact hf

/-- a loop that goes round again behind an error never stops when the parser keeps failing -/
theorem spins (p : Policy) (hs : p.errAgain = true) (parse : List UInt8 → PStep) (he : ∀ b, parse b = .err false)
    {c c' : Cfg} {f : Fin} (h : Returns p parse c c' f) : False := by
  induction h with
  | @done c f h =>
    unfold turn at h
    rw [he] at h
    dsimp only at h
    rw [hs] at h
    simp at h
  | more _ _ ih => exact ih

end MosnVerif.Lemmas.H1Serve
