import MosnVerif.Model.H1Continue
import MosnVerif.Lemmas.Framing
import MosnVerif.Lemmas.H1SegStable
/-! the two-phase read of the HTTP/1 server serve loop (`Expect: 100-continue`): with a continue branch that is
conditional on `MayContinue()` alone and reads the body from the same reader, the two-phase loop over the reader queue
IS the generic dispatch loop of the composed parser, seen through `view` (where the loop stands on the unparsed rest). -/
namespace MosnVerif.Lemmas.H1Continue
open MosnVerif.Model.Framing MosnVerif.Model.H1Seg MosnVerif.Model.H1Continue MosnVerif.Lemmas.H1SegStable

variable {H B : Type}

/-- a plan whose continue branch neither skips phase 2 nor loses the queue -/
def Faithful (pl : Plan) : Prop := pl.guarded = false ∧ pl.resetBetween = false

theorem compose_stable (pl : Plan) (p : Parser H B) (hp : PStable p) : Stable (compose pl p) := by
  constructor
  · intro q f n h
    unfold compose at h
    cases hr : p.rl q with
    | needMore => simp [hr] at h
    | error => simp [hr] at h
    | full h' b k =>
      simp only [hr, Step.frame.injEq] at h
      obtain ⟨_, rfl⟩ := h
      exact hp.fullPos q h' b k hr
    | head h' k =>
      simp only [hr] at h
      have ⟨k0, kl⟩ := hp.headPos q h' k hr
      cases hc : p.cb h' (q.drop k) with
      | needMore => simp [hc] at h
      | error => simp [hc] at h
      | frame b m =>
        simp only [hc, Step.frame.injEq] at h
        obtain ⟨_, rfl⟩ := h
        have := hp.bodyLe h' _ b m hc
        simp only [List.length_drop] at this
        omega
  · intro q f n e h
    unfold compose at h ⊢
    cases hr : p.rl q with
    | needMore => simp [hr] at h
    | error => simp [hr] at h
    | full h' b k =>
      simp only [hr] at h
      simp only [hp.fullExt q h' b k e hr]
      exact h
    | head h' k =>
      simp only [hr] at h
      have ⟨k0, kl⟩ := hp.headPos q h' k hr
      simp only [hp.headExt q h' k e hr]
      have hd : (q ++ e).drop k = q.drop k ++ e := List.drop_append_of_le_length kl
      cases hc : p.cb h' (q.drop k) with
      | needMore => simp [hc] at h
      | error => simp [hc] at h
      | frame b m =>
        simp only [hc] at h
        simp only [hd, hp.bodyExt h' _ b m e hc]
        exact h
  · intro q e h
    unfold compose at h ⊢
    cases hr : p.rl q with
    | needMore => simp [hr] at h
    | error => simp only [hp.errExt q e hr]
    | full h' b k => simp [hr] at h
    | head h' k =>
      simp only [hr] at h
      have ⟨k0, kl⟩ := hp.headPos q h' k hr
      simp only [hp.headExt q h' k e hr]
      have hd : (q ++ e).drop k = q.drop k ++ e := List.drop_append_of_le_length kl
      cases hc : p.cb h' (q.drop k) with
      | needMore => simp [hc] at h
      | error => simp only [hd, hp.bodyErrExt h' _ e hc]
      | frame b m => simp [hc] at h

theorem split_nil (p : Parser H B) (hp : PStable p) : split p [] = (none, []) := by
  unfold split
  cases hr : p.rl [] with
  | head h n => have := hp.headPos [] h n hr; simp at this; omega
  | _ => rfl

/-- the two-phase loop over what is buffered = the dispatch loop of the composed parser, seen through `viewD` -/
theorem drainC_eq (pl : Plan) (hf : Faithful pl) (p : Parser H B) (hp : PStable p) :
    ∀ (fuel : Nat) (buf : Bytes), buf.length < fuel →
      drainC pl p fuel buf = viewD p (drain (compose pl p) fuel buf) := by
  obtain ⟨hg, hr⟩ := hf
  intro fuel
  induction fuel with
  | zero => intro buf h; omega
  | succ k ih =>
    intro buf hl
    unfold drainC drain
    by_cases hb : buf.isEmpty
    · have : buf = [] := by cases buf <;> simp_all
      subst this
      simp [viewD, split_nil p hp]
    · simp only [hb, Bool.false_eq_true, ↓reduceIte]
      cases hrl : p.rl buf with
      | needMore => simp [compose, hrl, viewD, split]
      | error => simp [compose, hrl, viewD]
      | full h b n =>
        have ⟨n0, nl⟩ := hp.fullPos buf h b n hrl
        have hl2 : (buf.drop n).length < k := by simp only [List.length_drop]; omega
        simp only [compose, hrl, ih _ hl2]
        simp only [viewD, DR.push]
        split <;> rfl
      | head h n =>
        have ⟨n0, nl⟩ := hp.headPos buf h n hrl
        simp only [hg, hr, Bool.false_and, Bool.false_eq_true, ↓reduceIte, compose, hrl]
        cases hc : p.cb h (buf.drop n) with
        | needMore => simp [viewD, split, hrl, hc]
        | error => simp [viewD]
        | frame b m =>
          have hm := hp.bodyLe h _ b m hc
          simp only [List.length_drop] at hm
          have hl2 : (buf.drop (n + m)).length < k := by simp only [List.length_drop]; omega
          simp only [List.drop_drop, ih _ hl2]
          simp only [viewD, DR.push]
          split <;> rfl

theorem drainC_all (pl : Plan) (hf : Faithful pl) (p : Parser H B) (hp : PStable p) (fuel : Nat) (buf : Bytes)
    (h : buf.length < fuel) : drainC pl p fuel buf = viewD p (drainAll (compose pl p) buf) := by
  rw [drainC_eq pl hf p hp fuel buf h, drainAll_of_fuel _ (compose_stable pl p hp) fuel buf h]

/-- one read event commutes with the view -/
theorem feedC_view (pl : Plan) (hf : Faithful pl) (p : Parser H B) (hp : PStable p) (a : Conn (Msg H B)) (x : Bytes) :
    feedC pl p (view p a) x = view p (feed (compose pl p) a x) := by
  have hs := compose_stable pl p hp
  by_cases hfa : a.failed
  · simp [feedC, view, feed_eq, hfa]
  · rw [feed_eq]
    simp only [hfa, Bool.false_eq_true, ↓reduceIte]
    unfold feedC
    simp only [view, hfa, Bool.false_eq_true, ↓reduceIte]
    -- where does the loop stand on a.buf?
    cases hrl : p.rl a.buf with
    | needMore =>
      have hsp : split p a.buf = (none, a.buf) := by simp [split, hrl]
      simp only [hsp]
      rw [drainC_all pl hf p hp _ _ (Nat.lt_succ_self _)]
      simp only [CConn.after, viewD, List.append_nil]
      split <;> simp_all
    | error =>
      have hsp : split p a.buf = (none, a.buf) := by simp [split, hrl]
      simp only [hsp]
      rw [drainC_all pl hf p hp _ _ (Nat.lt_succ_self _)]
      simp only [CConn.after, viewD, List.append_nil]
      split <;> simp_all
    | full h b n =>
      have hsp : split p a.buf = (none, a.buf) := by simp [split, hrl]
      simp only [hsp]
      rw [drainC_all pl hf p hp _ _ (Nat.lt_succ_self _)]
      simp only [CConn.after, viewD, List.append_nil]
      split <;> simp_all
    | head h n =>
      have ⟨n0, nl⟩ := hp.headPos a.buf h n hrl
      have hext := hp.headExt a.buf h n x hrl
      have hd : (a.buf ++ x).drop n = a.buf.drop n ++ x := List.drop_append_of_le_length nl
      have hne : a.buf ++ x ≠ [] := by
        intro he
        have h1 : (a.buf ++ x).length = 0 := by rw [he]; rfl
        rw [List.length_append] at h1
        omega
      cases hc : p.cb h (a.buf.drop n) with
      | frame b m =>
        have hsp : split p a.buf = (none, a.buf) := by simp [split, hrl, hc]
        simp only [hsp]
        rw [drainC_all pl hf p hp _ _ (Nat.lt_succ_self _)]
        simp only [CConn.after, viewD, List.append_nil]
        split <;> simp_all
      | needMore =>
        have hsp : split p a.buf = (some h, a.buf.drop n) := by simp [split, hrl, hc]
        simp only [hsp]
        cases hc2 : p.cb h (a.buf.drop n ++ x) with
        | needMore =>
          have hcm : compose pl p (a.buf ++ x) = .needMore := by simp [compose, hext, hd, hc2]
          rw [drainAll_needMore _ _ hcm]
          simp [split, hext, hd, hc2]
        | error =>
          have hcm : compose pl p (a.buf ++ x) = .error := by simp [compose, hext, hd, hc2]
          rw [drainAll_error _ _ hne hcm]
          simp
        | frame b m =>
          have hcm : compose pl p (a.buf ++ x) = .frame (Msg.cont pl h b) (n + m) := by simp [compose, hext, hd, hc2]
          have hm := hp.bodyLe h _ b m hc2
          rw [drainAll_frame _ hs _ hne _ _ hcm]
          have hdd : (a.buf ++ x).drop (n + m) = (a.buf.drop n ++ x).drop m := by rw [← hd, List.drop_drop]
          dsimp only
          rw [drainC_all pl hf p hp _ _ (by simp only [List.length_drop]; omega), hdd]
          simp only [CConn.after, viewD]
          split <;> simp_all
      | error =>
        have hsp : split p a.buf = (some h, a.buf.drop n) := by simp [split, hrl, hc]
        simp only [hsp]
        have hc2 := hp.bodyErrExt h _ x hc
        have hcm : compose pl p (a.buf ++ x) = .error := by simp [compose, hext, hd, hc2]
        rw [drainAll_error _ _ hne hcm]
        simp [hc2]

theorem view_init (p : Parser H B) (hp : PStable p) : view p (Conn.init : Conn (Msg H B)) = CConn.init := by
  simp [view, Conn.init, CConn.init, split_nil p hp]

theorem foldl_feedC_view (pl : Plan) (hf : Faithful pl) (p : Parser H B) (hp : PStable p) :
    ∀ (chunks : List Bytes) (a : Conn (Msg H B)),
      chunks.foldl (feedC pl p) (view p a) = view p (chunks.foldl (feed (compose pl p)) a) := by
  intro chunks
  induction chunks with
  | nil => intro a; rfl
  | cons x xs ih => intro a; simp only [List.foldl_cons]; rw [feedC_view pl hf p hp, ih]

/-- **refinement**: the two-phase serve loop on any chunking = the generic dispatch loop of the composed parser -/
theorem runC_view (pl : Plan) (hf : Faithful pl) (p : Parser H B) (hp : PStable p) (chunks : List Bytes) :
    runC pl p chunks = view p (run (compose pl p) chunks) := by
  unfold runC run
  rw [← view_init p hp, foldl_feedC_view pl hf p hp]

/-! ### streams of complete requests -/

/-- a stream made of requests each of which the parser accepts in isolation (raw bytes, message), followed by a tail on
which it asks for more: the dispatch loop hands on exactly those messages and leaves exactly the tail -/
theorem drainAll_validF {F : Type} (d : Bytes → Step F) (hs : Stable d) (fs : List (Bytes × F)) (t : Bytes)
    (hv : ∀ f ∈ fs, d f.1 = .frame f.2 f.1.length) (ht : t = [] ∨ d t = .needMore) :
    drainAll d ((fs.map (·.1)).flatten ++ t) = (fs.map (·.2), t, false) := by
  induction fs with
  | nil =>
    rcases ht with rfl | ht
    · simp [drainAll_nil]
    · simpa using drainAll_needMore d t ht
  | cons f fs ih =>
    have hf := hv f (by simp)
    have ⟨hn0, _⟩ := hs.pos f.1 f.2 f.1.length hf
    have hne : f.1 ≠ [] := by intro h; rw [h] at hn0; simp at hn0
    have hext := hs.ext f.1 f.2 f.1.length ((fs.map (·.1)).flatten ++ t) hf
    have hne2 : f.1 ++ ((fs.map (·.1)).flatten ++ t) ≠ [] := by simp [hne]
    simp only [List.map_cons, List.flatten_cons, List.append_assoc]
    rw [drainAll_frame d hs _ hne2 f.2 f.1.length hext, List.drop_left,
      ih (fun g hg => hv g (by simp [hg]))]

/-! ### the reference parser is such an oracle pair -/

theorem trailerEnd_spec (r : Bytes) (t : Nat) (h : trailerEnd r = some t) :
    t ≤ r.length ∧ ∀ e, trailerEnd (r ++ e) = some t := by
  unfold trailerEnd at h
  split at h
  · rename_i h2
    cases h
    have hl : 2 ≤ r.length := by
      have := congrArg List.length h2
      simp at this
      omega
    refine ⟨hl, fun e => ?_⟩
    unfold trailerEnd
    rw [List.take_append_of_le_length hl, if_pos h2]
  · rename_i h2
    split at h
    · cases h
    · rename_i hl
      obtain ⟨f1, f2, f3⟩ := findEnd_spec r t h
      refine ⟨f2, fun e => ?_⟩
      unfold trailerEnd
      have hl' : 2 ≤ r.length := by omega
      rw [List.take_append_of_le_length hl', if_neg h2, if_neg (by simp; omega), f3 e]

theorem chunkedT_spec (f : Nat) :
    ∀ (p : Bytes) r, chunkedT f p = some r →
      r.1 ≤ p.length ∧ ∀ e f', f ≤ f' → chunkedT f' (p ++ e) = some r := by
  induction f with
  | zero => intro p r h; simp [chunkedT] at h
  | succ f ih =>
    intro p r h
    unfold chunkedT at h
    cases hs : sizeLine p 0 0 with
    | none => simp [hs] at h
    | some nl =>
      obtain ⟨n, l⟩ := nl
      simp only [hs] at h
      obtain ⟨s1, s2, s3⟩ := sizeLine_spec p 0 0 n l hs
      split at h
      · rename_i hn
        cases ht : trailerEnd (p.drop l) with
        | none => simp [ht] at h
        | some t =>
          simp only [ht, Option.map_some, Option.some.injEq] at h
          obtain ⟨t1, t2⟩ := trailerEnd_spec _ _ ht
          simp only [List.length_drop] at t1
          subst h
          refine ⟨by simp only; omega, fun e f' hf => ?_⟩
          obtain ⟨f'', rfl⟩ : ∃ f'', f' = f'' + 1 := ⟨f' - 1, by omega⟩
          unfold chunkedT
          simp only [s3 e, hn, if_true]
          have hd : (p ++ e).drop l = p.drop l ++ e := List.drop_append_of_le_length (by omega)
          rw [hd, t2 e]
          rfl
      · rename_i hn
        split at h
        · rename_i hl
          cases hc : chunkedT f (p.drop (l + n + 2)) with
          | none => simp [hc] at h
          | some r' =>
            simp only [hc, Option.map_some, Option.some.injEq] at h
            obtain ⟨c2, c3⟩ := ih _ _ hc
            subst h
            simp only [List.length_drop] at c2
            refine ⟨by simp only; omega, fun e f' hf => ?_⟩
            obtain ⟨f'', rfl⟩ : ∃ f'', f' = f'' + 1 := ⟨f' - 1, by omega⟩
            unfold chunkedT
            simp only [s3 e, hn, if_false]
            rw [if_pos (by simp; omega)]
            have hd : (p ++ e).drop (l + n + 2) = p.drop (l + n + 2) ++ e :=
              List.drop_append_of_le_length hl
            have hd2 : (p ++ e).drop l = p.drop l ++ e := List.drop_append_of_le_length (by omega)
            have ht : (p.drop l ++ e).take n = (p.drop l).take n :=
              List.take_append_of_le_length (by simp only [List.length_drop]; omega)
            rw [hd, c3 e f'' (by omega), hd2, ht]
            rfl
        · cases h

theorem bodyStep_le (kind : Body) (q b : Bytes) (m : Nat) (h : bodyStep kind q = .frame b m) : m ≤ q.length := by
  unfold bodyStep at h
  cases kind with
  | none => simp at h; omega
  | bad => simp at h
  | cl n =>
    simp only at h
    split at h
    · simp only [Step.frame.injEq] at h; omega
    · cases h
  | chunked =>
    simp only at h
    cases hc : chunkedT (q.length + 1) q with
    | none => simp [hc] at h
    | some r =>
      simp only [hc, Step.frame.injEq] at h
      have := (chunkedT_spec _ _ _ hc).1
      omega

theorem bodyStep_ext (kind : Body) (q b : Bytes) (m : Nat) (e : Bytes) (h : bodyStep kind q = .frame b m) :
    bodyStep kind (q ++ e) = .frame b m := by
  unfold bodyStep at h ⊢
  cases kind with
  | none => exact h
  | bad => simp at h
  | cl n =>
    simp only at h ⊢
    split at h
    · rename_i hn
      rw [if_pos (by simp; omega), List.take_append_of_le_length hn]
      exact h
    · cases h
  | chunked =>
    simp only at h ⊢
    cases hc : chunkedT (q.length + 1) q with
    | none => simp [hc] at h
    | some r =>
      simp only [hc] at h
      rw [(chunkedT_spec _ _ _ hc).2 e ((q ++ e).length + 1) (by simp)]
      exact h

theorem bodyStep_errExt (kind : Body) (q e : Bytes) (h : bodyStep kind q = .error) : bodyStep kind (q ++ e) = .error := by
  unfold bodyStep at h ⊢
  cases kind with
  | none => simp at h
  | bad => rfl
  | cl n => simp only at h; split at h <;> cases h
  | chunked => simp only at h; split at h <;> cases h

theorem refParser_stable : PStable refParser := by
  constructor
  · intro q h b n hq
    simp only [refParser] at hq
    cases hf : findEnd q with
    | none => simp [hf] at hq
    | some k =>
      simp only [hf] at hq
      obtain ⟨f1, f2, _⟩ := findEnd_spec q k hf
      split at hq
      · cases hq
      · cases hb : bodyStep (bodyKind false (q.take k)) (q.drop k) with
        | needMore => simp [hb] at hq
        | error => simp [hb] at hq
        | frame b' m =>
          simp only [hb, R1.full.injEq] at hq
          have := bodyStep_le _ _ _ _ hb
          simp only [List.length_drop] at this
          omega
  · intro q h b n e hq
    simp only [refParser] at hq ⊢
    cases hf : findEnd q with
    | none => simp [hf] at hq
    | some k =>
      simp only [hf] at hq
      obtain ⟨f1, f2, f3⟩ := findEnd_spec q k hf
      have ht : (q ++ e).take k = q.take k := List.take_append_of_le_length f2
      have hd : (q ++ e).drop k = q.drop k ++ e := List.drop_append_of_le_length f2
      simp only [f3 e, ht, hd]
      split at hq
      · cases hq
      · rename_i hx
        rw [if_neg hx]
        cases hb : bodyStep (bodyKind false (q.take k)) (q.drop k) with
        | needMore => simp [hb] at hq
        | error => simp [hb] at hq
        | frame b' m =>
          simp only [hb] at hq
          simp only [bodyStep_ext _ _ _ _ e hb]
          exact hq
  · intro q h n hq
    simp only [refParser] at hq
    cases hf : findEnd q with
    | none => simp [hf] at hq
    | some k =>
      simp only [hf] at hq
      obtain ⟨f1, f2, _⟩ := findEnd_spec q k hf
      split at hq
      · simp only [R1.head.injEq] at hq; omega
      · split at hq <;> cases hq
  · intro q h n e hq
    simp only [refParser] at hq ⊢
    cases hf : findEnd q with
    | none => simp [hf] at hq
    | some k =>
      simp only [hf] at hq
      obtain ⟨f1, f2, f3⟩ := findEnd_spec q k hf
      have ht : (q ++ e).take k = q.take k := List.take_append_of_le_length f2
      simp only [f3 e, ht]
      split at hq
      · rename_i hx
        rw [if_pos hx]
        exact hq
      · split at hq <;> cases hq
  · intro q e hq
    simp only [refParser] at hq ⊢
    cases hf : findEnd q with
    | none => simp [hf] at hq
    | some k =>
      simp only [hf] at hq
      obtain ⟨f1, f2, f3⟩ := findEnd_spec q k hf
      have ht : (q ++ e).take k = q.take k := List.take_append_of_le_length f2
      have hd : (q ++ e).drop k = q.drop k ++ e := List.drop_append_of_le_length f2
      simp only [f3 e, ht, hd]
      split at hq
      · cases hq
      · rename_i hx
        rw [if_neg hx]
        cases hb : bodyStep (bodyKind false (q.take k)) (q.drop k) with
        | needMore => simp [hb] at hq
        | error => simp only [bodyStep_errExt _ _ e hb]
        | frame b' m => simp [hb] at hq
  · intro h q b m hq; exact bodyStep_le _ _ _ _ hq
  · intro h q b m e hq; exact bodyStep_ext _ _ _ _ e hq
  · intro h q e hq; exact bodyStep_errExt _ _ e hq

/-! ### two decoders that answer alike up to a projection of the messages -/

def SameUpTo {F G : Type} (g : F → G) (s1 s2 : Step F) : Prop :=
  match s1, s2 with
  | .needMore, .needMore => True
  | .error, .error => True
  | .frame f n, .frame f' n' => g f = g f' ∧ n = n'
  | _, _ => False

theorem drain_sameUpTo {F G : Type} (g : F → G) (d1 d2 : Bytes → Step F) (h : ∀ q, SameUpTo g (d1 q) (d2 q)) :
    ∀ (fuel : Nat) (buf : Bytes),
      (drain d1 fuel buf).1.map g = (drain d2 fuel buf).1.map g ∧ (drain d1 fuel buf).2 = (drain d2 fuel buf).2 := by
  intro fuel
  induction fuel with
  | zero => intro buf; simp [drain]
  | succ k ih =>
    intro buf
    unfold drain
    by_cases hb : buf.isEmpty
    · simp [hb]
    · simp only [hb, Bool.false_eq_true, ↓reduceIte]
      have hq := h buf
      cases h1 : d1 buf <;> cases h2 : d2 buf <;> simp only [h1, h2, SameUpTo] at hq <;> try trivial
      rename_i f n f' n'
      obtain ⟨hg, rfl⟩ := hq
      have := ih (buf.drop n)
      simp only [List.map_cons, hg, this.1, this.2, and_self]

theorem run_sameUpTo {F G : Type} (g : F → G) (d1 d2 : Bytes → Step F) (h : ∀ q, SameUpTo g (d1 q) (d2 q))
    (chunks : List Bytes) :
    (run d1 chunks).out.map g = (run d2 chunks).out.map g ∧ (run d1 chunks).buf = (run d2 chunks).buf ∧
      (run d1 chunks).failed = (run d2 chunks).failed := by
  unfold run
  suffices hh : ∀ (c1 c2 : Conn F), c1.out.map g = c2.out.map g → c1.buf = c2.buf → c1.failed = c2.failed →
      (chunks.foldl (feed d1) c1).out.map g = (chunks.foldl (feed d2) c2).out.map g ∧
      (chunks.foldl (feed d1) c1).buf = (chunks.foldl (feed d2) c2).buf ∧
      (chunks.foldl (feed d1) c1).failed = (chunks.foldl (feed d2) c2).failed from hh _ _ rfl rfl rfl
  induction chunks with
  | nil => intro c1 c2 a b c; exact ⟨a, b, c⟩
  | cons x xs ih =>
    intro c1 c2 a b c
    simp only [List.foldl_cons]
    apply ih
    · unfold feed
      rw [← c, ← b]
      by_cases hf : c1.failed
      · simp [hf, a]
      · have hd := fun fuel => drain_sameUpTo g d1 d2 h fuel (c1.buf ++ x)
        simp [hf, a, (hd _).1]
    · unfold feed
      rw [← c, ← b]
      by_cases hf : c1.failed
      · simp [hf]
      · have hd := fun fuel => drain_sameUpTo g d1 d2 h fuel (c1.buf ++ x)
        simp [hf, (hd _).2]
    · unfold feed
      rw [← c, ← b]
      by_cases hf : c1.failed
      · simp [hf]
      · have hd := fun fuel => drain_sameUpTo g d1 d2 h fuel (c1.buf ++ x)
        simp [hf, (hd _).2]

/-- what a request is apart from the bookkeeping of the continue branch -/
def core (m : Msg H B) : H × B × Bool := (m.head, m.body, m.continued)

theorem compose_sameUpTo (pl pl' : Plan) (p : Parser H B) (q : Bytes) :
    SameUpTo core (compose pl p q) (compose pl' p q) := by
  unfold compose
  cases p.rl q with
  | needMore => trivial
  | error => trivial
  | full h b n => exact ⟨rfl, rfl⟩
  | head h n =>
    simp only
    cases p.cb h (q.drop n) with
    | needMore => trivial
    | error => trivial
    | frame b m => exact ⟨rfl, rfl⟩

/-! ### the bookkeeping of the continue branch, for every plan -/

/-- interim response and `Expect` deletion happen exactly in the iterations whose continue phase ran, once each -/
def MsgOk (pl : Plan) (m : Msg H B) : Prop :=
  (m.continued = false ∧ m.interims = 0 ∧ m.dels = 0) ∨
  (m.continued = true ∧ m.interims = (if pl.writes then 1 else 0) ∧ m.dels = (if pl.dels then 1 else 0))

theorem drainC_msgOk (pl : Plan) (p : Parser H B) :
    ∀ (fuel : Nat) (buf : Bytes), ∀ m ∈ (drainC pl p fuel buf).out, MsgOk pl m := by
  intro fuel
  induction fuel with
  | zero => intro buf m hm; simp [drainC] at hm
  | succ k ih =>
    intro buf m hm
    unfold drainC at hm
    split at hm
    · simp at hm
    · split at hm
      · simp at hm
      · simp at hm
      · simp only [DR.push, List.mem_cons] at hm
        rcases hm with rfl | hm
        · left; exact ⟨rfl, rfl, rfl⟩
        · exact ih _ m hm
      · simp only at hm
        split at hm
        · simp only [DR.push, List.mem_cons] at hm
          rcases hm with rfl | hm
          · left; exact ⟨rfl, rfl, rfl⟩
          · exact ih _ m hm
        · split at hm
          · simp at hm
          · simp at hm
          · simp only [DR.push, List.mem_cons] at hm
            rcases hm with rfl | hm
            · right; exact ⟨rfl, rfl, rfl⟩
            · exact ih _ m hm

theorem feedC_msgOk (pl : Plan) (p : Parser H B) (c : CConn H B) (x : Bytes) (hc : ∀ m ∈ c.out, MsgOk pl m) :
    ∀ m ∈ (feedC pl p c x).out, MsgOk pl m := by
  intro m hm
  unfold feedC at hm
  split at hm
  · exact hc m hm
  · split at hm
    · simp only [CConn.after, List.append_nil, List.mem_append] at hm
      rcases hm with hm | hm
      · exact hc m hm
      · exact drainC_msgOk pl p _ _ m hm
    · dsimp only at hm
      split at hm
      · exact hc m hm
      · exact hc m hm
      · simp only [CConn.after, List.mem_append, List.mem_singleton] at hm
        rcases hm with (hm | rfl) | hm
        · exact hc m hm
        · right; exact ⟨rfl, rfl, rfl⟩
        · exact drainC_msgOk pl p _ _ m hm

theorem runC_msgOk (pl : Plan) (p : Parser H B) (chunks : List Bytes) : ∀ m ∈ (runC pl p chunks).out, MsgOk pl m := by
  unfold runC
  suffices hh : ∀ (c : CConn H B), (∀ m ∈ c.out, MsgOk pl m) → ∀ m ∈ (chunks.foldl (feedC pl p) c).out, MsgOk pl m from
    hh _ (by simp [CConn.init])
  induction chunks with
  | nil => intro c hc; exact hc
  | cons x xs ih => intro c hc; simp only [List.foldl_cons]; exact ih _ (feedC_msgOk pl p c x hc)

end MosnVerif.Lemmas.H1Continue
