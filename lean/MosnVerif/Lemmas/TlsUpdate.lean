import MosnVerif.Model.TlsUpdate
/-! Helper lemmas for the listener-update model (C13). Core Lean only. -/
namespace MosnVerif.Model.TlsUpdate
open MosnVerif.Gen.TlsPolicy MosnVerif.Gen.TlsUpdate MosnVerif.Model.TlsSelect

/-- a listener whose live manager is the one `NewTLSServerContextManager` builds from its stored configuration -/
def coherent (lc : LCfg) : LState := ⟨lc, newManager lc⟩

theorem addListener_coherent (lc : LCfg) : addListener lc = coherent lc := by
  cases lc; rfl

/-- the regenerated update branch, applied to a coherent listener of the same name, yields the coherent listener of
the update: the manager is built from the UPDATE's inspector flag and contexts, the stored configuration receives the
same values, and the manager is installed. This is the lemma that breaks when a source expression of the update branch
reads the configuration being replaced. -/
theorem updateListener_coherent (old lc : LCfg) (h : old.name = lc.name) :
    updateListener (coherent old) lc = coherent lc := by
  cases old; cases lc
  simp only [coherent, updateListener, updStored, updMgrCfg, updInstalls, newManager, mngInspector] at h ⊢
  simp_all

theorem apply_coherent (n : String) (cur : Option LCfg) (hc : ∀ lc, cur = some lc → lc.name = n) (op : Op)
    (ho : op.lc.name = n) :
    apply (cur.map coherent) op = (if op.buildOk then some op.lc else cur).map coherent := by
  cases cur with
  | none => cases hb : op.buildOk <;> simp [apply, hb, addListener_coherent]
  | some old =>
    cases hb : op.buildOk
    · simp [apply, hb]
    · simp only [Option.map, apply, hb, if_true]
      rw [updateListener_coherent old op.lc (by rw [hc old rfl, ho])]

theorem foldl_apply_coherent (n : String) (ops : List Op) (hn : ∀ op ∈ ops, op.lc.name = n) :
    ∀ (cur : Option LCfg), (∀ lc, cur = some lc → lc.name = n) →
      ops.foldl apply (cur.map coherent) = (specLast cur ops).map coherent := by
  induction ops with
  | nil => intro cur _; rfl
  | cons op r ih =>
    intro cur hc
    have ho : op.lc.name = n := hn op (List.mem_cons_self ..)
    simp only [List.foldl_cons, specLast]
    rw [apply_coherent n cur hc op ho]
    apply ih (fun o h => hn o (List.mem_cons_of_mem _ h))
    intro lc hlc
    cases hb : op.buildOk
    · simp [hb] at hlc; exact hc lc hlc
    · simp [hb] at hlc; rw [← hlc]; exact ho

/-- `specLast` is "the last accepted call, else what was there" -/
theorem specLast_eq (ops : List Op) : ∀ cur, specLast cur ops = ((lastAccepted ops).or cur) := by
  induction ops with
  | nil => intro cur; simp [specLast, lastAccepted]
  | cons op r ih =>
    intro cur
    simp only [specLast]
    rw [ih]
    cases hb : op.buildOk
    · simp [lastAccepted, hb]
    · simp only [lastAccepted, List.filter_cons, hb, if_true]
      cases hr : (r.filter (·.buildOk)).getLast? with
      | none =>
        have : r.filter (·.buildOk) = [] := List.getLast?_eq_none_iff.mp hr
        simp [this]
      | some x =>
        have hne : r.filter (·.buildOk) ≠ [] := by
          intro h; rw [h] at hr; simp at hr
        rw [List.getLast?_cons_of_ne_nil hne] <;> simp [hr]

end MosnVerif.Model.TlsUpdate
