import MosnVerif.Model.HealthFlags
/-! Lemmas for C16 part A: linearizability of the CAS-loop shape of `SetHealthFlag/ClearHealthFlag`. Core Lean only. -/
namespace MosnVerif.Model.HealthFlags
open MosnVerif.Gen.HealthFlags (Atom Prog)

/-- The current source has the CAS-loop shape.  This is the lemma that stops compiling when the regenerated step
structure of `SetHealthFlag`/`ClearHealthFlag` changes (e.g. back to load / modify / store). -/
theorem genP_cas : genP = casLoopP := by
  funext op; cases op <;> rfl

/-- the regenerated modifications are `old | flag` and `old &^ flag` -/
theorem apply_eq_ref (op : Op) (w : Word) : op.apply w = op.ref w := by
  cases op <;> rfl

/-! ### one thread step of the CAS loop -/

/-- what a single atomic access of a thread does, for the CAS-loop shape: either nothing visible (a load, a failed
CAS, a finished or stuck thread): word and pending calls unchanged; or the successful CAS of the head call `op`:
the word becomes `op.apply` of the CURRENT word and the call is removed. -/
theorem thread_step_cas (w : Word) (t : Thread) :
    ((t.step casLoopP w).2.2 = none ∧ (t.step casLoopP w).1 = w ∧ (t.step casLoopP w).2.1.ops = t.ops) ∨
    (∃ op, (t.step casLoopP w).2.2 = some op ∧ t.ops = op :: (t.step casLoopP w).2.1.ops ∧
      (t.step casLoopP w).1 = op.apply w) := by
  obtain ⟨ops, pc, reg⟩ := t
  cases ops with
  | nil => left; simp [Thread.step]
  | cons op rest =>
    match pc with
    | 0 => left; simp [Thread.step, casLoopP, Thread.next]
    | 1 =>
      by_cases h : w = reg
      · right; exact ⟨op, by simp [Thread.step, casLoopP, h]⟩
      · left; simp [Thread.step, casLoopP, Thread.next, h]
    | n + 2 => left; simp [Thread.step, casLoopP]

def Config.pendingAt (c : Config) (j : Nat) : List Op := (c.threads[j]?.map (·.ops)).getD []

theorem proj_nil (j : Nat) : proj j [] = [] := rfl

theorem proj_append (j : Nat) (a b : List (Nat × Op)) : proj j (a ++ b) = proj j a ++ proj j b := by
  simp [proj, List.filter_append]

theorem applyAll_append (w : Word) (a b : List (Nat × Op)) : applyAll w (a ++ b) = applyAll (applyAll w a) b := by
  simp [applyAll, List.foldl_append]

/-- one scheduler step of the CAS-loop shape: the word moves by exactly the logged call (if any), and the logged call is
exactly what left the pending list of its thread. -/
theorem config_step_cas (c : Config) (i : Nat) :
    (c.step casLoopP i).1.word = applyAll c.word (c.step casLoopP i).2.toList ∧
    ∀ j, proj j (c.step casLoopP i).2.toList ++ (c.step casLoopP i).1.pendingAt j = c.pendingAt j := by
  unfold Config.step
  cases hti : c.threads[i]? with
  | none => simp [applyAll, proj]
  | some t =>
    have hlt : i < c.threads.length := by
      rcases Nat.lt_or_ge i c.threads.length with h | h
      · exact h
      · rw [List.getElem?_eq_none h] at hti; cases hti
    have hget : c.threads[i] = t := (List.getElem?_eq_some_iff.mp hti).2
    rcases thread_step_cas c.word t with ⟨hn, hw, ho⟩ | ⟨op, hs, ho, hw⟩
    · refine ⟨by simp [hn, hw, applyAll], fun j => ?_⟩
      simp only [hn, Option.map_none, Option.toList_none, proj_nil, List.nil_append, Config.pendingAt]
      by_cases hij : i = j
      · subst hij; simp [hlt, ho, hget]
      · simp [hij]
    · refine ⟨by simp [hs, hw, applyAll], fun j => ?_⟩
      simp only [hs, Option.map_some, Option.toList_some, Config.pendingAt]
      by_cases hij : i = j
      · subst hij; simp [hlt, proj, ho, hget]
      · have : (i == j) = false := by simp [hij]
        simp [hij, proj, this]

/-- **invariant of every run** (CAS-loop shape, any configuration, any schedule — complete or not): the word is the
sequential result of the calls logged so far, and each thread's logged calls followed by its still-pending calls are
its original calls in program order. -/
theorem run_cas (c : Config) (s : List Nat) :
    (c.run casLoopP s).word = applyAll c.word (c.log casLoopP s) ∧
    ∀ j, proj j (c.log casLoopP s) ++ (c.run casLoopP s).pendingAt j = c.pendingAt j := by
  induction s generalizing c with
  | nil => simp [Config.run, Config.log, applyAll, proj]
  | cons i s ih =>
    obtain ⟨hw, hp⟩ := config_step_cas c i
    obtain ⟨hw', hp'⟩ := ih (c.step casLoopP i).1
    refine ⟨?_, fun j => ?_⟩
    · simp only [Config.run, Config.log, applyAll_append, hw', hw]
    · simp only [Config.run, Config.log, proj_append, List.append_assoc, hp' j, hp j]

theorem done_pendingAt (c : Config) (h : c.done = true) (j : Nat) : c.pendingAt j = [] := by
  unfold Config.pendingAt
  cases hj : c.threads[j]? with
  | none => rfl
  | some t =>
    have hm : t ∈ c.threads := List.mem_of_getElem? hj
    have := (List.all_eq_true.mp h) t hm
    simpa using this

theorem init_pendingAt (w : Word) (ops : List (List Op)) (j : Nat) : (Config.init w ops).pendingAt j = ops[j]?.getD [] := by
  simp only [Config.pendingAt, Config.init, List.getElem?_map, Option.map_map]
  cases ops[j]? <;> rfl

/-! ### bits evolve independently under a sequential list of calls -/

theorem ref_getLsbD (op : Op) (w : Word) (i : Nat) :
    (op.ref w).getLsbD i = if op.flag.getLsbD i then op.isSet else w.getLsbD i := by
  cases op with
  | set f =>
    simp only [Op.ref, Op.flag, Op.isSet, BitVec.getLsbD_or]
    by_cases hf : f.getLsbD i = true <;> simp [hf]
  | clear f =>
    simp only [Op.ref, Op.flag, Op.isSet, BitVec.getLsbD_and, BitVec.getLsbD_not]
    by_cases hi : i < 64
    · simp [hi, Bool.and_comm]
    · have h1 : w.getLsbD i = false := BitVec.getLsbD_of_ge _ _ (by omega)
      have h2 : f.getLsbD i = false := BitVec.getLsbD_of_ge _ _ (by omega)
      simp [h1, h2]

theorem applyAll_getLsbD (w : Word) (l : List (Nat × Op)) (i : Nat) :
    (applyAll w l).getLsbD i = bitRun i (w.getLsbD i) (l.map (·.2)) := by
  induction l generalizing w with
  | nil => rfl
  | cons e r ih =>
    have : applyAll w (e :: r) = applyAll (e.2.apply w) r := rfl
    rw [this, ih, apply_eq_ref, ref_getLsbD]
    rfl

theorem bitRun_untouched (i : Nat) (b : Bool) (l : List Op) (h : ∀ op ∈ l, op.flag.getLsbD i = false) :
    bitRun i b l = b := by
  induction l generalizing b with
  | nil => rfl
  | cons op r ih =>
    have h0 := h op (by simp)
    have : bitRun i b (op :: r) = bitRun i (if op.flag.getLsbD i then op.isSet else b) r := rfl
    rw [this, h0]
    exact ih b (fun o ho => h o (by simp [ho]))

/-- calls that do not touch bit `i` can be dropped from the sequence without changing bit `i` -/
theorem bitRun_filter (i : Nat) (b : Bool) (l : List (Nat × Op)) (t : Nat)
    (h : ∀ e ∈ l, e.2.flag.getLsbD i = true → e.1 = t) :
    bitRun i b (l.map (·.2)) = bitRun i b (proj t l) := by
  induction l generalizing b with
  | nil => rfl
  | cons e r ih =>
    have hr : ∀ e' ∈ r, e'.2.flag.getLsbD i = true → e'.1 = t := fun e' he' => h e' (by simp [he'])
    by_cases he : e.1 = t
    · have : proj t (e :: r) = e.2 :: proj t r := by simp [proj, he]
      rw [this]
      show bitRun i (if e.2.flag.getLsbD i then e.2.isSet else b) (r.map (·.2)) = bitRun i (if e.2.flag.getLsbD i then e.2.isSet else b) (proj t r)
      exact ih _ hr
    · have hne : (e.1 == t) = false := by simp [he]
      have : proj t (e :: r) = proj t r := by simp [proj, hne]
      rw [this]
      have hf : e.2.flag.getLsbD i = false := by
        cases hb : e.2.flag.getLsbD i with
        | false => rfl
        | true => exact absurd (h e (by simp) hb) he
      show bitRun i (if e.2.flag.getLsbD i then e.2.isSet else b) (r.map (·.2)) = bitRun i b (proj t r)
      rw [hf]
      exact ih _ hr

/-! ### the executable predicate accepts every trace of the CAS-loop shape -/

theorem pending_length (c : Config) : c.pending.length = c.threads.length := by simp [Config.pending]

theorem pending_getElem? (c : Config) (j : Nat) : c.pending[j]? = c.threads[j]?.map (·.ops) := by
  simp [Config.pending]

theorem linCheck_trace_cas (c : Config) (s : List Nat) (hd : (c.run casLoopP s).done = true) :
    linCheck c.pending c.word (c.trace casLoopP s) = true := by
  induction s generalizing c with
  | nil =>
    simp only [Config.trace, linCheck]
    simpa [Config.run, Config.done, Config.pending, List.all_map] using hd
  | cons i s ih =>
    have ih' := ih (c.step casLoopP i).1 (by simpa [Config.run] using hd)
    simp only [Config.trace, linCheck, Bool.or_eq_true, Bool.and_eq_true, beq_iff_eq]
    revert ih'
    unfold Config.step
    cases hti : c.threads[i]? with
    | none => intro ih'; left; exact ⟨rfl, ih'⟩
    | some t =>
      have hlt : i < c.threads.length := by
        rcases Nat.lt_or_ge i c.threads.length with h | h
        · exact h
        · rw [List.getElem?_eq_none h] at hti; cases hti
      have hget : c.threads[i] = t := (List.getElem?_eq_some_iff.mp hti).2
      rcases thread_step_cas c.word t with ⟨_, hw, ho⟩ | ⟨op, _, ho, hw⟩
      · intro ih'
        left
        refine ⟨hw, ?_⟩
        have hp : (Config.mk (t.step casLoopP c.word).1 (c.threads.set i (t.step casLoopP c.word).2.1)).pending = c.pending := by
          simp only [Config.pending]
          apply List.ext_getElem?
          intro j
          by_cases hij : i = j
          · subst hij; simp [hlt, ho, hget]
          · simp [hij]
        rw [hp] at ih'
        simpa [hw] using ih'
      · intro ih'
        right
        rw [List.any_eq_true]
        refine ⟨i, by simp [pending_length, hlt], ?_⟩
        have hpi : c.pending[i]? = some (op :: (t.step casLoopP c.word).2.1.ops) := by
          rw [pending_getElem?, hti]; simp [ho]
        rw [hpi]
        simp only [Bool.and_eq_true, beq_iff_eq]
        refine ⟨by rw [hw, apply_eq_ref], ?_⟩
        have hp : (Config.mk (t.step casLoopP c.word).1 (c.threads.set i (t.step casLoopP c.word).2.1)).pending
            = c.pending.set i (t.step casLoopP c.word).2.1.ops := by
          simp only [Config.pending]
          apply List.ext_getElem?
          intro j
          by_cases hij : i = j
          · subst hij; simp [hlt]
          · simp [hij]
        rw [hp] at ih'
        exact ih'

/-! ### a completing schedule exists from every reachable configuration (non-vacuity of "runs to completion", and
lock-freedom: a thread that is scheduled alone completes its call in at most three steps) -/

/-- reachable control states of the CAS-loop shape -/
def Config.WF (c : Config) : Prop := ∀ t ∈ c.threads, t.pc ≤ 1

def total : List Thread → Nat
  | [] => 0
  | t :: r => t.ops.length + total r

theorem run_append (P : Op → Prog) (c : Config) (a b : List Nat) : c.run P (a ++ b) = (c.run P a).run P b := by
  induction a generalizing c with
  | nil => rfl
  | cons i a ih => simp only [List.cons_append, Config.run]; exact ih _

theorem total_set (l : List Thread) (i : Nat) (t t' : Thread) (h : l[i]? = some t) :
    total (l.set i t') + t.ops.length = total l + t'.ops.length := by
  induction l generalizing i with
  | nil => simp at h
  | cons x r ih =>
    cases i with
    | zero => simp at h; subst h; simp [total]; omega
    | succ k =>
      simp only [List.getElem?_cons_succ] at h
      have := ih k h
      simp only [List.set_cons_succ, total]; omega

theorem total_pos (l : List Thread) (h : 0 < total l) : ∃ (i : Nat) (t : Thread), l[i]? = some t ∧ t.ops ≠ [] := by
  induction l with
  | nil => simp [total] at h
  | cons x r ih =>
    by_cases hx : x.ops = []
    · have : 0 < total r := by simpa [total, hx] using h
      obtain ⟨i, t, hi, ht⟩ := ih this
      exact ⟨i + 1, t, by simpa using hi, ht⟩
    · exact ⟨0, x, rfl, hx⟩

theorem total_zero_all (l : List Thread) (h : total l = 0) : ∀ t ∈ l, t.ops.isEmpty = true := by
  induction l with
  | nil => intro t ht; cases ht
  | cons x r ih =>
    simp only [total] at h
    intro t ht
    rcases List.mem_cons.mp ht with rfl | hr
    · have : t.ops.length = 0 := by omega
      simpa using this
    · exact ih (by omega) t hr

theorem total_zero_done (c : Config) (h : total c.threads = 0) : c.done = true := by
  simp only [Config.done, List.all_eq_true]
  exact total_zero_all c.threads h

/-- one step of thread `i` at a given control state, spelled out -/
theorem config_step_at (c : Config) (i : Nat) (t : Thread) (h : c.threads[i]? = some t) :
    (c.step casLoopP i).1 = ⟨(t.step casLoopP c.word).1, c.threads.set i (t.step casLoopP c.word).2.1⟩ := by
  simp [Config.step, h]

theorem set_getElem? (l : List Thread) (i : Nat) (t t' : Thread) (h : l[i]? = some t) : (l.set i t')[i]? = some t' := by
  have hlt : i < l.length := (List.getElem?_eq_some_iff.mp h).1
  simp [hlt]

/-- thread `i` scheduled alone completes its current call within three steps; nothing else changes -/
theorem advance_one (c : Config) (i : Nat) (op : Op) (rest : List Op) (pc : Nat) (reg : Word) (hpc : pc ≤ 1)
    (h : c.threads[i]? = some ⟨op :: rest, pc, reg⟩) :
    ∃ s r', c.run casLoopP s = ⟨op.apply c.word, c.threads.set i ⟨rest, 0, r'⟩⟩ := by
  obtain ⟨w, l⟩ := c
  simp only at h
  have load : ∀ (l : List Thread) (r0 : Word), l[i]? = some ⟨op :: rest, 0, r0⟩ →
      (Config.mk w l).run casLoopP [i, i] = ⟨op.apply w, l.set i ⟨rest, 0, w⟩⟩ := by
    intro l r0 h0
    have h1 := config_step_at ⟨w, l⟩ i _ h0
    have e1 : (Config.step casLoopP ⟨w, l⟩ i).1 = ⟨w, l.set i ⟨op :: rest, 1, w⟩⟩ := by
      rw [h1]; simp [Thread.step, casLoopP, Thread.next]
    have h2 := config_step_at ⟨w, l.set i ⟨op :: rest, 1, w⟩⟩ i _ (set_getElem? l i _ _ h0)
    simp only [Config.run, e1, h2]
    simp [Thread.step, casLoopP]
  match pc, hpc with
  | 0, _ => exact ⟨[i, i], w, load l reg h⟩
  | 1, _ =>
    by_cases hw : w = reg
    · refine ⟨[i], reg, ?_⟩
      have h1 := config_step_at ⟨w, l⟩ i _ h
      simp only [Config.run, h1]
      simp [Thread.step, casLoopP, hw]
    · refine ⟨[i] ++ [i, i], w, ?_⟩
      rw [run_append]
      have h1 := config_step_at ⟨w, l⟩ i _ h
      have e1 : (Config.mk w l).run casLoopP [i] = ⟨w, l.set i ⟨op :: rest, 0, reg⟩⟩ := by
        simp only [Config.run, h1]
        simp [Thread.step, casLoopP, Thread.next, hw]
      rw [e1, load _ reg (set_getElem? l i _ _ h)]
      simp

theorem exists_complete_cas (c : Config) (hwf : c.WF) : ∃ s, (c.run casLoopP s).done = true := by
  generalize hn : total c.threads = n
  induction n generalizing c with
  | zero => exact ⟨[], total_zero_done c hn⟩
  | succ n ih =>
    obtain ⟨i, t, hi, ht⟩ := total_pos c.threads (by omega)
    obtain ⟨ops, pc, reg⟩ := t
    cases ops with
    | nil => exact absurd rfl ht
    | cons op rest =>
      have hpc : pc ≤ 1 := hwf _ (List.mem_of_getElem? hi)
      obtain ⟨s, r', hs⟩ := advance_one c i op rest pc reg hpc hi
      have hwf' : (c.run casLoopP s).WF := by
        rw [hs]
        intro t ht
        rcases List.mem_or_eq_of_mem_set ht with h | h
        · exact hwf t h
        · subst h; simp
      have htot : total (c.run casLoopP s).threads = n := by
        rw [hs]
        have := total_set c.threads i _ ⟨rest, 0, r'⟩ hi
        simp at this ⊢
        omega
      obtain ⟨s', hs'⟩ := ih _ hwf' htot
      exact ⟨s ++ s', by rw [run_append]; exact hs'⟩

theorem init_WF (w : Word) (ops : List (List Op)) : (Config.init w ops).WF := by
  intro t ht
  simp only [Config.init, List.mem_map] at ht
  obtain ⟨o, _, rfl⟩ := ht
  simp [Thread.init]

end MosnVerif.Model.HealthFlags
