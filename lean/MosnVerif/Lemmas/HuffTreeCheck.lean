import MosnVerif.Model.HuffTree
/-!
What `buildRootHuffmanNode` must have built, checked by the kernel on the tree the model builds from the regenerated
table with the regenerated `addDecoderNode` expressions.

The kernel evaluates lazily (call by name): a tree that is the result of ~2000 nested `List.set`s would be re-derived at
every lookup.  `foldStrict` is the same fold as `buildRoot` in continuation-passing style, normalising the tree after every
`addDecoderNode` (`forceBuild`), so that the check below runs on constructor terms; `foldStrict_eq` shows that it is the
same fold.
-/
namespace MosnVerif.Lemmas.HuffTreeCheck
open MosnVerif.Gen.Hpack MosnVerif.Gen.HpackHuff MosnVerif.Model.Huffman MosnVerif.Model.HuffTree

/-- the internal nodes reachable from the root with the bits that lead to them: (id, depth in bytes, path value) -/
def nodePathsFrom (t : Tree) : Nat → List (Nat × Nat × Nat) → List (Nat × Nat × Nat)
  | 0, _ => []
  | fuel + 1, frontier =>
    frontier ++ nodePathsFrom t fuel (frontier.flatMap (fun n =>
      (List.range 256).filterMap (fun idx => match t.child n.1 idx with
        | .ptr id => some (id, n.2.1 + 1, n.2.2 * 256 + idx)
        | _ => Option.none)))

def nodePathsOf (t : Tree) : List (Nat × Nat × Nat) := nodePathsFrom t 5 [(0, 0, 0)]

/-- child `idx` of the node reached by the `8d` bits `pv` is what the code table prescribes: a leaf carries the symbol
whose code is those bits followed by the first `r` bits of `idx`; a pointer leads to a listed node; a nil child means
that the bits start with EOS.  `cOf` / `lOf` look the table up. -/
def entOk (cOf lOf : Nat → Nat) (ps : List (Nat × Nat × Nat)) (d pv idx : Nat) : Ent → Bool
  | .leaf sym r =>
    1 ≤ r && r ≤ 8 && sym < 256 && lOf sym == 8 * d + r && cOf sym == pv * 2 ^ r + idx / 2 ^ (8 - r)
  | .ptr id => ps.contains (id, d + 1, pv * 256 + idx)
  | .none => isPrefixCode (MosnVerif.Model.Huffman.eosCode, MosnVerif.Model.Huffman.eosLen) (pv * 256 + idx, 8 * (d + 1))

def treeOkFor (cOf lOf : Nat → Nat) (t : Tree) (ps : List (Nat × Nat × Nat)) : Bool :=
  ps.contains (0, 0, 0) &&
  ps.all (fun n => decide (n.2.2 < 2 ^ (8 * n.2.1)) && decide (n.2.1 < 4) &&
    -- no code is a prefix of the bits that lead to an internal node
    (List.range 256).all (fun s => !(isPrefixCode (cOf s, lOf s) (n.2.2, 8 * n.2.1))) &&
    (List.range 256).all (fun idx => entOk cOf lOf ps n.2.1 n.2.2 idx (t.child n.1 idx)))

/-! ### the fill loop as one arithmetic operation -/

/-- `1 + 2^32 + … + 2^(32(n-1))` -/
def rep : Nat → Nat
  | 0 => 0
  | n + 1 => 1 + 2 ^ slotBits * rep n

/-- `a[pos], …, a[pos+n-1] = w` on the packed array -/
def cellFill (cells pos n w : Nat) : Nat :=
  cells % 2 ^ (slotBits * pos) + w * rep n * 2 ^ (slotBits * pos) +
    cells / 2 ^ (slotBits * pos + slotBits * n) * 2 ^ (slotBits * pos + slotBits * n)

theorem fill_core (c P Q R w r : Nat) (hP : 0 < P) (hQ : 0 < Q) (hw : w < Q) :
    (c % P + w * P + c / (P * Q) * (P * Q)) % (P * Q) + w * r * (P * Q) +
        (c % P + w * P + c / (P * Q) * (P * Q)) / (P * Q * R) * (P * Q * R) =
      c % P + w * (1 + Q * r) * P + c / (P * (Q * R)) * (P * (Q * R)) := by
  have hlt : c % P + w * P < P * Q := by
    have h1 : c % P < P := Nat.mod_lt _ hP
    have h2 : w * P + P ≤ Q * P := by
      have : (w + 1) * P ≤ Q * P := Nat.mul_le_mul_right P hw
      rw [Nat.add_mul, Nat.one_mul] at this
      exact this
    rw [Nat.mul_comm P Q]; omega
  have hPQ : 0 < P * Q := Nat.mul_pos hP hQ
  have e1 : (c % P + w * P + c / (P * Q) * (P * Q)) % (P * Q) = c % P + w * P := by
    rw [Nat.add_mul_mod_self_right, Nat.mod_eq_of_lt hlt]
  have e2 : (c % P + w * P + c / (P * Q) * (P * Q)) / (P * Q) = c / (P * Q) := by
    rw [Nat.add_mul_div_right _ _ hPQ, Nat.div_eq_of_lt hlt, Nat.zero_add]
  have e3 : (c % P + w * P + c / (P * Q) * (P * Q)) / (P * Q * R) = c / (P * (Q * R)) := by
    rw [← Nat.div_div_eq_div_mul, e2, Nat.div_div_eq_div_mul, Nat.mul_assoc]
  rw [e1, e3, Nat.mul_assoc P Q R]
  have : w * r * (P * Q) = w * (Q * r) * P := by
    simp only [Nat.mul_comm, Nat.mul_left_comm]
  rw [this, Nat.mul_add w 1, Nat.mul_one, Nat.add_mul]
  omega

theorem cellFill_succ (cells pos n w : Nat) (hw : w < 2 ^ slotBits) :
    cellFill (cellSet cells pos w) (pos + 1) n w = cellFill cells pos (n + 1) w := by
  have h := fill_core cells (2 ^ (slotBits * pos)) (2 ^ slotBits) (2 ^ (slotBits * n)) w (rep n)
    (Nat.two_pow_pos _) (Nat.two_pow_pos _) hw
  simp only [cellFill, cellSet, rep]
  have p1 : 2 ^ (slotBits * (pos + 1)) = 2 ^ (slotBits * pos) * 2 ^ slotBits := by rw [Nat.mul_add, Nat.mul_one, Nat.pow_add]
  have p2 : 2 ^ (slotBits * pos + slotBits) = 2 ^ (slotBits * pos) * 2 ^ slotBits := by rw [Nat.pow_add]
  have p3 : 2 ^ (slotBits * (pos + 1) + slotBits * n) = 2 ^ (slotBits * pos) * 2 ^ slotBits * 2 ^ (slotBits * n) := by
    rw [Nat.mul_add, Nat.mul_one, Nat.pow_add, Nat.pow_add]
  have p4 : 2 ^ (slotBits * pos + slotBits * (n + 1)) = 2 ^ (slotBits * pos) * (2 ^ slotBits * 2 ^ (slotBits * n)) := by
    rw [Nat.mul_add, Nat.mul_one, Nat.pow_add, Nat.pow_add, Nat.mul_comm (2 ^ (slotBits * n))]
  rw [p1, p2, p3, p4]
  exact h

theorem cellFill_zero (cells pos w : Nat) : cellFill cells pos 0 w = cells := by
  unfold cellFill rep
  simp only [Nat.mul_zero, Nat.zero_mul, Nat.add_zero]
  rw [Nat.add_comm, Nat.div_add_mod']

theorem enc_lt (sym codeLen : Nat) : (Ent.leaf sym codeLen).enc < 2 ^ slotBits := by
  simp only [Ent.enc, slotBits]
  have := Nat.mod_lt sym (show 0 < 256 by decide)
  have := Nat.mod_lt codeLen (show 0 < 256 by decide)
  omega

theorem addFill_eq (t : Tree) (cur sym codeLen start n : Nat) :
    addFill t cur sym codeLen start n =
      { t with cells := cellFill t.cells (256 * cur + start) n (Ent.leaf sym codeLen).enc } := by
  induction n generalizing t start with
  | zero => simp [addFill, cellFill_zero]
  | succ n ih =>
    rw [addFill, ih, ← cellFill_succ _ _ _ _ (enc_lt sym codeLen)]
    simp [Tree.setChild, Nat.add_assoc]

/-- closed form of `rep` -/
theorem rep_closed (n : Nat) : rep n = (2 ^ (slotBits * n) - 1) / (2 ^ slotBits - 1) := by
  have key : ∀ n, rep n * (2 ^ slotBits - 1) = 2 ^ (slotBits * n) - 1 := by
    intro n
    induction n with
    | zero => simp [rep]
    | succ n ih =>
      have hp : 1 ≤ 2 ^ (slotBits * n) := Nat.two_pow_pos _
      have hq : 1 ≤ 2 ^ slotBits := Nat.two_pow_pos _
      rw [rep, Nat.add_mul, Nat.mul_assoc, ih, Nat.mul_add slotBits n 1, Nat.mul_one, Nat.pow_add, Nat.one_mul,
        Nat.mul_sub_one, Nat.mul_comm (2 ^ slotBits)]
      have : 2 ^ slotBits ≤ 2 ^ (slotBits * n) * 2 ^ slotBits := Nat.le_mul_of_pos_left _ hp
      omega
  have hpos : 0 < 2 ^ slotBits - 1 := by unfold slotBits; decide
  rw [← key n, Nat.mul_div_cancel _ hpos]

/-! ### strict evaluation -/

def forceNat (n : Nat) (k : Nat → Bool) : Bool :=
  match n with
  | 0 => k 0
  | m + 1 => k (m + 1)

theorem forceNat_eq (n : Nat) (k : Nat → Bool) : forceNat n k = k n := by cases n <;> rfl

def forceBool (b : Bool) (k : Bool → Bool) : Bool :=
  match b with
  | true => k true
  | false => k false

theorem forceBool_eq (b : Bool) (k : Bool → Bool) : forceBool b k = k b := by cases b <;> rfl

/-- `addDescend` in continuation-passing style on (cells, count, bad), every number a literal after every update -/
def addDescendK : Nat → Nat → Nat → Bool → Nat → Nat → Nat → (Nat → Nat → Bool → Nat → Nat → Bool) → Bool
  | 0, cells, count, _, cur, _, codeLen, k => k cells count true cur codeLen
  | fuel + 1, cells, count, bad, cur, code, codeLen, k =>
    if addLoopGuard codeLen then
      forceNat (addLoopDec codeLen) (fun codeLen =>
      forceNat (addDescIdx code codeLen) (fun i =>
      match (Tree.mk cells count).child cur i with
      | .none =>
        forceNat (cellSet cells (256 * cur + i) (Ent.ptr count).enc) (fun cells' => forceNat (count + 1) (fun count' =>
          addDescendK fuel cells' count' bad count code codeLen k))
      | .ptr id => forceNat id (fun id => addDescendK fuel cells count bad id code codeLen k)
      | .leaf _ _ => k cells count true cur codeLen))
    else k cells count bad cur codeLen

theorem addDescendK_eq (fuel cells count : Nat) (bad : Bool) (cur code codeLen : Nat) (k : Nat → Nat → Bool → Nat → Nat → Bool) :
    addDescendK fuel cells count bad cur code codeLen k =
      (let r := addDescend fuel { tree := ⟨cells, count⟩, bad := bad } cur code codeLen
       k r.1.tree.cells r.1.tree.count r.1.bad r.2.1 r.2.2) := by
  induction fuel generalizing cells count cur codeLen with
  | zero => rfl
  | succ fuel ih =>
    unfold addDescendK addDescend
    split
    · simp only [forceNat_eq]
      split <;> simp_all [Tree.alloc, Tree.setChild]
    · rfl

def addDecoderNodeK (cells count : Nat) (bad : Bool) (sym code codeLen : Nat) (k : Nat → Nat → Bool → Bool) : Bool :=
  addDescendK 32 cells count bad 0 code codeLen (fun cells count bad cur codeLen =>
    forceNat (addShift codeLen) (fun shift =>
    forceNat (addStart code shift) (fun start =>
    forceNat (addFillEnd start (addEnd shift)) (fun stop =>
    forceNat (cellFill cells (256 * cur + start) (stop - start) (Ent.leaf sym codeLen).enc) (fun cells' =>
      k cells' count (bad || decide (stop > 256)))))))

theorem addDecoderNodeK_eq (cells count : Nat) (bad : Bool) (sym code codeLen : Nat) (k : Nat → Nat → Bool → Bool) :
    addDecoderNodeK cells count bad sym code codeLen k =
      (let b := addDecoderNode { tree := ⟨cells, count⟩, bad := bad } sym code codeLen
       k b.tree.cells b.tree.count b.bad) := by
  simp [addDecoderNodeK, addDecoderNode, addDescendK_eq, forceNat_eq, addFill_eq]

/-- `buildRoot`'s fold over the zipped table (code, length) with a running index -/
def foldStrict : List (Nat × Nat) → Nat → Nat → Nat → Bool → (Nat → Nat → Bool → Bool) → Bool
  | [], _, cells, count, bad, k => k cells count bad
  | cl :: r, i, cells, count, bad, k =>
    forceNat (i % 256) (fun sym => forceNat cl.1 (fun code => forceNat cl.2 (fun len =>
      addDecoderNodeK cells count bad sym code len (fun cells' count' bad' => forceBool bad' (fun bad'' =>
        forceNat (i + 1) (fun i' => foldStrict r i' cells' count' bad'' k))))))

theorem foldStrict_eq (l : List (Nat × Nat)) (i cells count : Nat) (bad : Bool) (k : Nat → Nat → Bool → Bool) :
    foldStrict l i cells count bad k =
      (let b := (l.zipIdx i).foldl buildStep { tree := ⟨cells, count⟩, bad := bad }
       k b.tree.cells b.tree.count b.bad) := by
  induction l generalizing i cells count bad with
  | nil => rfl
  | cons cl r ih => simp [foldStrict, forceNat_eq, forceBool_eq, addDecoderNodeK_eq, ih, buildStep, List.zipIdx_cons]

def forcePaths : List (Nat × Nat × Nat) → (List (Nat × Nat × Nat) → Bool) → Bool
  | [], k => k []
  | (a, b, c) :: r, k => forceNat a (fun a => forceNat b (fun b => forceNat c (fun c => forcePaths r (fun r => k ((a, b, c) :: r)))))

theorem forcePaths_eq (l : List (Nat × Nat × Nat)) (k : List (Nat × Nat × Nat) → Bool) : forcePaths l k = k l := by
  induction l generalizing k with
  | nil => rfl
  | cons e r ih => obtain ⟨a, b, c⟩ := e; simp [forcePaths, forceNat_eq, ih]

/-! the code table as one number (40 bits per symbol), so that the check looks a symbol up by arithmetic -/

def packTable : List (Nat × Nat) → Nat → Nat → (Nat → Bool) → Bool
  | [], _, acc, k => k acc
  | cl :: r, i, acc, k =>
    forceNat (acc + (cl.1 % 2 ^ 32 + 2 ^ 32 * (cl.2 % 256)) * 2 ^ (40 * i)) (fun acc' => forceNat (i + 1) (fun i' => packTable r i' acc' k))

def packedCode (tab s : Nat) : Nat := tab / 2 ^ (40 * s) % 2 ^ 32
def packedLen (tab s : Nat) : Nat := tab / 2 ^ (40 * s + 32) % 256

/-- every table entry is found in the packed table -/
def packedOk (tab : Nat) : List (Nat × Nat) → Nat → Bool
  | [], _ => true
  | cl :: r, i => packedCode tab i == cl.1 && packedLen tab i == cl.2 && packedOk tab r (i + 1)

def checkAll : Bool :=
  huffmanCodes.length == 256 && huffmanCodeLen.length == 256 &&
  packTable (huffmanCodes.zip huffmanCodeLen) 0 0 (fun tab =>
    packedOk tab (huffmanCodes.zip huffmanCodeLen) 0 &&
    foldStrict (huffmanCodes.zip huffmanCodeLen) 0 0 1 (decide (huffmanCodes.length ≠ tableLen)) (fun cells count bad =>
      !bad && forcePaths (nodePathsOf ⟨cells, count⟩) (fun ps => treeOkFor (packedCode tab) (packedLen tab) ⟨cells, count⟩ ps)))

theorem checkAll_true : checkAll = true := by decide +kernel

/-! ### what the check gives -/

def packFold : List (Nat × Nat) → Nat → Nat → Nat
  | [], _, acc => acc
  | cl :: r, i, acc => packFold r (i + 1) (acc + (cl.1 % 2 ^ 32 + 2 ^ 32 * (cl.2 % 256)) * 2 ^ (40 * i))

theorem packTable_eq (l : List (Nat × Nat)) (i acc : Nat) (k : Nat → Bool) : packTable l i acc k = k (packFold l i acc) := by
  induction l generalizing i acc with
  | nil => rfl
  | cons cl r ih => simp [packTable, packFold, forceNat_eq, ih]

theorem packedOk_spec (tab : Nat) (l : List (Nat × Nat)) (i : Nat) (h : packedOk tab l i = true) (j : Nat) (hj : j < l.length) :
    packedCode tab (i + j) = (l.getD j (0, 0)).1 ∧ packedLen tab (i + j) = (l.getD j (0, 0)).2 := by
  induction l generalizing i j with
  | nil => simp at hj
  | cons cl r ih =>
    simp only [packedOk, Bool.and_eq_true, beq_iff_eq] at h
    cases j with
    | zero => simpa using h.1
    | succ j =>
      have := ih (i + 1) h.2 j (by simpa using hj)
      simpa [Nat.add_assoc, Nat.add_comm 1 j] using this

/-- the packed table of the check -/
def tabP : Nat := packFold (huffmanCodes.zip huffmanCodeLen) 0 0

/-- the internal nodes of the tree `buildRootHuffmanNode` builds, with the bits leading to them -/
def nodePaths : List (Nat × Nat × Nat) := nodePathsOf huffTree

theorem tree_eta (t : Tree) : (⟨t.cells, t.count⟩ : Tree) = t := rfl

theorem check_facts :
    huffmanCodes.length = 256 ∧ huffmanCodeLen.length = 256 ∧
    packedOk tabP (huffmanCodes.zip huffmanCodeLen) 0 = true ∧ buildRoot.bad = false ∧
    treeOkFor (packedCode tabP) (packedLen tabP) huffTree nodePaths = true := by
  have h := checkAll_true
  unfold checkAll at h
  rw [packTable_eq] at h
  simp only [foldStrict_eq, forcePaths_eq, Bool.and_eq_true, beq_iff_eq, Bool.not_eq_true'] at h
  simp only [tree_eta] at h
  unfold nodePaths huffTree buildRoot tabP
  exact ⟨h.1.1, h.1.2, h.2.1, h.2.2.1, h.2.2.2⟩

theorem table_len : huffmanCodes.length = 256 ∧ huffmanCodeLen.length = 256 := ⟨check_facts.1, check_facts.2.1⟩

theorem packed_eq (s : Nat) (hs : s < 256) : packedCode tabP s = codeOf s ∧ packedLen tabP s = lenOf s := by
  have h := packedOk_spec tabP _ 0 check_facts.2.2.1 s (by simp [List.length_zip, table_len.1, table_len.2]; exact hs)
  have h1 : s < huffmanCodes.length := by rw [table_len.1]; exact hs
  have h2 : s < huffmanCodeLen.length := by rw [table_len.2]; exact hs
  have hz' : (huffmanCodes.zip huffmanCodeLen)[s]? = some (huffmanCodes[s]'h1, huffmanCodeLen[s]'h2) :=
    List.getElem?_zip_eq_some.2 ⟨List.getElem?_eq_getElem h1, List.getElem?_eq_getElem h2⟩
  rw [Nat.zero_add, List.getD_eq_getElem?_getD, hz', Option.getD_some] at h
  unfold codeOf lenOf
  rw [List.getD_eq_getElem?_getD, List.getD_eq_getElem?_getD, List.getElem?_eq_getElem h1, List.getElem?_eq_getElem h2,
    Option.getD_some, Option.getD_some]
  exact h

theorem entOk_congr (c l c' l' : Nat → Nat) (hc : ∀ s, s < 256 → c s = c' s ∧ l s = l' s)
    (ps : List (Nat × Nat × Nat)) (d pv idx : Nat) (e : Ent) (h : entOk c l ps d pv idx e = true) :
    entOk c' l' ps d pv idx e = true := by
  cases e with
  | none => exact h
  | leaf sym r =>
    simp only [entOk, Bool.and_eq_true, decide_eq_true_eq, beq_iff_eq] at h ⊢
    obtain ⟨⟨⟨⟨h1, h2⟩, h3⟩, h4⟩, h5⟩ := h
    exact ⟨⟨⟨⟨h1, h2⟩, h3⟩, by rw [← (hc sym h3).2]; exact h4⟩, by rw [← (hc sym h3).1]; exact h5⟩
  | ptr id => exact h

theorem build_ok : buildRoot.bad = false := check_facts.2.2.2.1

theorem root_mem : (0, 0, 0) ∈ nodePaths := by
  have h := check_facts.2.2.2.2
  simp only [treeOkFor, Bool.and_eq_true, List.contains_iff_mem] at h
  exact h.1

theorem node_ok (n d pv : Nat) (hn : (n, d, pv) ∈ nodePaths) :
    pv < 2 ^ (8 * d) ∧ d < 4 ∧ (∀ s, s < 256 → isPrefixCode (codeOf s, lenOf s) (pv, 8 * d) = false) ∧
    ∀ idx, idx < 256 → entOk codeOf lenOf nodePaths d pv idx (huffTree.child n idx) = true := by
  have h := check_facts.2.2.2.2
  simp only [treeOkFor, Bool.and_eq_true, List.all_eq_true, decide_eq_true_eq, List.mem_range, Bool.not_eq_true'] at h
  have := h.2 (n, d, pv) hn
  refine ⟨this.1.1.1, this.1.1.2, fun s hs => ?_, fun idx hi => entOk_congr _ _ _ _ packed_eq _ _ _ _ _ (this.2 idx hi)⟩
  rw [← (packed_eq s hs).1, ← (packed_eq s hs).2]
  exact this.1.2 s hs

end MosnVerif.Lemmas.HuffTreeCheck
