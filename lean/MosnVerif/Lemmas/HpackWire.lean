import MosnVerif.Lemmas.HpackInt
import MosnVerif.Model.HpackTable
/-! Wire round trip of HPACK header field representations (RFC 7541 §6): what `serialize` writes, `parseOne` reads
back — for integer-only representations and for literals whose strings are written without Huffman coding. -/
namespace MosnVerif.Lemmas.HpackWire
open MosnVerif.Model.HpackTable MosnVerif.Model.HpackInt MosnVerif.Lemmas.HpackInt MosnVerif.Model

/-- the string is written as a plain literal (Huffman would not be strictly shorter) -/
def NoHuff (s : Bytes) : Prop := ¬ (Huffman.encodeLen s < s.length) ∧ s.length < 2 ^ 63 + 127

theorem appendString_plain (s : Bytes) (h : NoHuff s) : appendString s = appendStringPlain s := by
  simp only [appendString, appendStringPlain, h.1, if_false]

theorem readString_plain (s rest : Bytes) (h : NoHuff s) : readString 0 (appendString s ++ rest) = .ok (s, rest) := by
  rw [appendString_plain s h]
  simp only [readString, string_roundtrip' s rest 0 h.2 (Or.inl rfl)]
  rfl

/-- first byte of a flagged prefix integer -/
theorem flagged_first (n i flags : Nat) (rest : Bytes) (hn8 : n ≤ 8) (hf : flags % 2 ^ n = 0) (hfl : flags < 256) :
    ∃ b tl, orFirst flags (appendVarInt n i) ++ rest = b :: tl ∧ flags ≤ b.toNat ∧ b.toNat < flags + 2 ^ n := by
  obtain ⟨b, r, hbr, hb⟩ := appendVarInt_first_lt n i hn8
  obtain ⟨f1, _⟩ := first_byte n b.toNat flags hn8 hb hf hfl
  refine ⟨UInt8.ofNat (b.toNat + flags), r ++ rest, by rw [hbr]; rfl, ?_, ?_⟩ <;> rw [ofNat_toNat _ f1] <;> omega

theorem parse_indexed (i : Nat) (rest : Bytes) (hi : i < 2 ^ 63) :
    parseOne 0 (serialize (.indexed i) ++ rest) = .ok (.indexed i, rest) := by
  obtain ⟨b, tl, hb, h1, h2⟩ := flagged_first 7 i 0x80 rest (by omega) (by norm_num) (by omega)
  have hrt := int_roundtrip' 7 i 0x80 rest (by omega) (by omega) (by norm_num) (by omega) (by omega)
  simp only [serialize] at hb hrt ⊢
  rw [hb] at hrt ⊢
  simp only [parseOne]
  have : b.toNat / 128 % 2 = 1 := by
    have : (2:Nat) ^ 7 = 128 := by norm_num
    omega
  simp only [this, if_true, hrt]

theorem parse_sizeUpdate (v : Nat) (rest : Bytes) (hv : v < 2 ^ 63) :
    parseOne 0 (serialize (.sizeUpdate v) ++ rest) = .ok (.sizeUpdate v, rest) := by
  obtain ⟨b, tl, hb, h1, h2⟩ := flagged_first 5 v 0x20 rest (by omega) (by norm_num) (by omega)
  have hrt := int_roundtrip' 5 v 0x20 rest (by omega) (by omega) (by norm_num) (by omega) (by omega)
  simp only [serialize] at hb hrt ⊢
  rw [hb] at hrt ⊢
  simp only [parseOne]
  have h32 : (2:Nat) ^ 5 = 32 := by norm_num
  have c1 : ¬ (b.toNat / 128 % 2 = 1) := by omega
  have c2 : ¬ (b.toNat / 64 = 1) := by omega
  have c3 : ¬ (b.toNat / 16 = 0) := by omega
  have c4 : ¬ (b.toNat / 16 = 1) := by omega
  have c5 : b.toNat / 32 = 1 := by omega
  simp only [c1, c2, c3, c4, c5, if_true, if_false, hrt]

theorem kind_bits (k : LitKind) : k.typeByte % 2 ^ k.prefixBits = 0 ∧ k.typeByte < 256 ∧ 4 ≤ k.prefixBits ∧ k.prefixBits ≤ 6 := by
  cases k <;> simp [LitKind.typeByte, LitKind.prefixBits]

/-- dispatch of `parseHeaderFieldRepr` on the first byte of a literal representation -/
theorem dispatch_literal (k : LitKind) (b : UInt8) (tl : Bytes) (h1 : k.typeByte ≤ b.toNat)
    (h2 : b.toNat < k.typeByte + 2 ^ k.prefixBits) :
    parseOne 0 (b :: tl) = parseLiteral 0 k (b :: tl) := by
  simp only [parseOne]
  cases k <;> simp only [LitKind.typeByte, LitKind.prefixBits] at h1 h2
  · have c1 : ¬ (b.toNat / 128 % 2 = 1) := by omega
    have c2 : b.toNat / 64 = 1 := by omega
    simp only [c1, c2, if_true, if_false]
  · have c1 : ¬ (b.toNat / 128 % 2 = 1) := by omega
    have c2 : ¬ (b.toNat / 64 = 1) := by omega
    have c3 : b.toNat / 16 = 0 := by omega
    simp only [c1, c2, c3, if_true, if_false]
  · have c1 : ¬ (b.toNat / 128 % 2 = 1) := by omega
    have c2 : ¬ (b.toNat / 64 = 1) := by omega
    have c3 : ¬ (b.toNat / 16 = 0) := by omega
    have c4 : b.toNat / 16 = 1 := by omega
    simp only [c1, c2, c3, c4, if_true, if_false, Nat.one_ne_zero]

theorem parse_literal_indexed_name (k : LitKind) (idx : Nat) (value rest : Bytes) (hidx : 0 < idx) (hi : idx < 2 ^ 63)
    (hv : NoHuff value) :
    parseOne 0 (serialize (.literal k idx [] value) ++ rest) = .ok (.literal k idx [] value, rest) := by
  obtain ⟨kb1, kb2, kb3, kb4⟩ := kind_bits k
  obtain ⟨j, rfl⟩ : ∃ j, idx = j + 1 := ⟨idx - 1, by omega⟩
  simp only [serialize, List.append_assoc]
  obtain ⟨b, tl, hb, h1, h2⟩ := flagged_first k.prefixBits (j + 1) k.typeByte (appendString value ++ rest) (by omega) kb1 kb2
  have hrt := int_roundtrip' k.prefixBits (j + 1) k.typeByte (appendString value ++ rest) (by omega) (by omega) kb1 kb2 (by omega)
  rw [hb] at hrt ⊢
  rw [dispatch_literal k b tl h1 h2]
  simp only [parseLiteral, hrt, Nat.succ_pos, if_true, gt_iff_lt, Nat.zero_lt_succ, readString_plain value rest hv]

theorem parse_literal_new_name (k : LitKind) (name value rest : Bytes) (hn : NoHuff name) (hv : NoHuff value) :
    parseOne 0 (serialize (.literal k 0 name value) ++ rest) = .ok (.literal k 0 name value, rest) := by
  obtain ⟨kb1, kb2, kb3, kb4⟩ := kind_bits k
  simp only [serialize, List.append_assoc, List.singleton_append, List.cons_append]
  have hb : (UInt8.ofNat k.typeByte).toNat = k.typeByte := ofNat_toNat _ kb2
  have hpow : (2:Nat) ^ k.prefixBits ≥ 16 := by
    have : (2:Nat) ^ 4 ≤ 2 ^ k.prefixBits := Nat.pow_le_pow_right (by norm_num) kb3
    have h16 : (2:Nat) ^ 4 = 16 := by norm_num
    omega
  rw [dispatch_literal k (UInt8.ofNat k.typeByte) _ (by rw [hb]) (by rw [hb]; omega)]
  have hlt8 : k.prefixBits < 8 := by omega
  simp only [parseLiteral, readVarInt, hb, hlt8, if_true, kb1]
  have h0 : (0 : Nat) < 2 ^ k.prefixBits - 1 := by omega
  simp only [h0, if_true, Nat.lt_irrefl, gt_iff_lt, if_false, List.nil_append, readString_plain name _ hn, readString_plain value rest hv]

end MosnVerif.Lemmas.HpackWire
