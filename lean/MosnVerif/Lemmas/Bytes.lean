import MosnVerif.Model.Bytes
/-! lemmas about the big-endian helpers (core only) -/
namespace MosnVerif.Model.Bytes

@[simp] theorem be_length (w n : Nat) : (be w n).length = w := by
  induction w with
  | zero => rfl
  | succ w ih => simp [be, ih]

theorem toNat_foldl (b : Bytes) (a : Nat) :
    b.foldl (fun acc x => acc * 256 + x.toNat) a = a * 256 ^ b.length + toNat b := by
  induction b generalizing a with
  | nil => simp [toNat]
  | cons x r ih =>
    simp only [List.foldl_cons, toNat, List.length_cons]
    rw [ih, ih (0 * 256 + x.toNat)]
    rw [Nat.pow_succ, Nat.add_mul, Nat.zero_mul, Nat.zero_add, Nat.mul_assoc, Nat.mul_comm 256, Nat.add_assoc]

@[simp] theorem toNat_nil : toNat [] = 0 := rfl

theorem toNat_cons (x : UInt8) (r : Bytes) : toNat (x :: r) = x.toNat * 256 ^ r.length + toNat r := by
  simp only [toNat, List.foldl_cons]
  rw [toNat_foldl]; simp [toNat]

theorem toNat_append (a b : Bytes) : toNat (a ++ b) = toNat a * 256 ^ b.length + toNat b := by
  simp only [toNat, List.foldl_append]
  rw [toNat_foldl]; rfl

theorem toNat_lt (b : Bytes) : toNat b < 256 ^ b.length := by
  induction b with
  | nil => simp
  | cons x r ih =>
    rw [toNat_cons, List.length_cons, Nat.pow_succ]
    have hx : x.toNat < 256 := x.toNat_lt
    have : x.toNat * 256 ^ r.length + 256 ^ r.length ≤ 256 * 256 ^ r.length := by
      rw [← Nat.succ_mul]; exact Nat.mul_le_mul_right _ hx
    rw [Nat.mul_comm (256 ^ r.length)]; omega

theorem toNat_be (w n : Nat) : toNat (be w n) = n % 256 ^ w := by
  induction w with
  | zero => simp [be, Nat.mod_one]
  | succ w ih =>
    rw [be, toNat_cons, ih, be_length, UInt8.toNat_ofNat']
    have h1 : n % (256 ^ w * 256) = n % 256 ^ w + 256 ^ w * (n / 256 ^ w % 256) := Nat.mod_mul
    have e : (2 : Nat) ^ 8 = 256 := rfl
    rw [e, Nat.pow_succ 256, h1, Nat.mul_comm, Nat.add_comm]

/-- the low `w` bytes only depend on the value modulo `256^w` -/
theorem be_add_mul (w a c : Nat) : be w (a * 256 ^ w + c) = be w c := by
  induction w generalizing a c with
  | zero => rfl
  | succ w ihw =>
    rw [be, be]
    have hq : 0 < 256 ^ w := Nat.pow_pos (by decide)
    congr 1
    · have : (a * 256 ^ (w + 1) + c) / 256 ^ w = c / 256 ^ w + a * 256 := by
        rw [Nat.pow_succ, Nat.add_comm, ← Nat.mul_assoc, Nat.mul_right_comm]
        exact Nat.add_mul_div_right _ _ hq
      rw [this]
      apply UInt8.toNat_inj.mp
      rw [UInt8.toNat_ofNat', UInt8.toNat_ofNat']
      exact Nat.add_mul_mod_self_right _ _ _
    · rw [Nat.pow_succ, Nat.mul_comm (256 ^ w), ← Nat.mul_assoc]
      exact ihw _ _

theorem be_toNat (b : Bytes) : be b.length (toNat b) = b := by
  induction b with
  | nil => rfl
  | cons x r ih =>
    rw [List.length_cons, be]
    have hr := toNat_lt r
    have hp : 0 < 256 ^ r.length := Nat.pow_pos (by decide)
    congr 1
    · rw [toNat_cons]
      have : (x.toNat * 256 ^ r.length + toNat r) / 256 ^ r.length = x.toNat := by
        rw [Nat.add_comm, Nat.add_mul_div_right _ _ hp, Nat.div_eq_of_lt hr, Nat.zero_add]
      rw [this]; exact UInt8.ofNat_toNat
    · rw [toNat_cons, be_add_mul, ih]

theorem be_mod (w n : Nat) : be w (n % 256 ^ w) = be w n := by
  have := be_toNat (be w n)
  rw [be_length, toNat_be] at this
  exact this

@[simp] theorem slice_length (b : Bytes) (lo hi : Nat) : (slice b lo hi).length = min hi b.length - lo := by
  simp [slice]

theorem slice_append_left (a b : Bytes) (lo hi : Nat) (h : hi ≤ a.length) : slice (a ++ b) lo hi = slice a lo hi := by
  simp [slice, List.take_append_of_le_length h]

theorem getBE_append_left (a b : Bytes) (lo hi : Nat) (h : hi ≤ a.length) : getBE (a ++ b) lo hi = getBE a lo hi := by
  simp [getBE, slice_append_left a b lo hi h]

theorem slice_take (b : Bytes) (lo hi n : Nat) (h : hi ≤ n) : slice (b.take n) lo hi = slice b lo hi := by
  simp [slice, List.take_take, Nat.min_eq_left h]

theorem getBE_lt (b : Bytes) (lo hi : Nat) : getBE b lo hi < 256 ^ (hi - lo) := by
  have h := toNat_lt (slice b lo hi)
  have hl : (slice b lo hi).length ≤ hi - lo := by simp; omega
  exact Nat.lt_of_lt_of_le h (Nat.pow_le_pow_right (by decide) hl)

theorem patch_length (b v : Bytes) (off : Nat) (h : off + v.length ≤ b.length) : (patch b off v).length = b.length := by
  simp [patch]; omega

/-- `patch` changes nothing outside `[off, off + |v|)` -/
theorem patch_getElem?_outside (b v : Bytes) (off j : Nat) (h : off + v.length ≤ b.length)
    (hj : j < off ∨ off + v.length ≤ j) : (patch b off v)[j]? = b[j]? := by
  unfold patch
  rcases hj with hj | hj
  · rw [List.append_assoc, List.getElem?_append_left (by simp; omega)]
    simp [hj]
  · rw [List.getElem?_append_right (by simp; omega)]
    simp only [List.length_append, List.length_take, List.getElem?_drop]
    congr 1; omega

/-- inside the window the patched bytes are `v` -/
theorem patch_getElem?_inside (b v : Bytes) (off j : Nat) (h : off + v.length ≤ b.length)
    (hj : j < v.length) : (patch b off v)[off + j]? = v[j]? := by
  unfold patch
  rw [List.append_assoc, List.getElem?_append_right (by simp; omega)]
  rw [List.getElem?_append_left (by simp; omega)]
  congr 1; simp; omega

theorem slice_patch_window (b v : Bytes) (off : Nat) (h : off + v.length ≤ b.length) :
    slice (patch b off v) off (off + v.length) = v := by
  have h1 : (b.take off).length = off := by simp; omega
  simp only [slice, patch]
  rw [List.append_assoc, List.take_append, List.drop_append, h1]
  simp [List.take_take]
  have : off - min off b.length = 0 := by omega
  rw [this]; rfl

theorem take_drop_split (b : Bytes) (off w : Nat) :
    b = b.take off ++ (b.take (off + w)).drop off ++ b.drop (off + w) := by
  rw [List.drop_take, Nat.add_sub_cancel_left, List.append_assoc]
  conv => lhs; rw [← List.take_append_drop off b, ← List.take_append_drop w (b.drop off)]
  rw [List.drop_drop]

/-- patching a window with the bytes it already holds is the identity -/
theorem patch_self (b : Bytes) (off w : Nat) (h : off + w ≤ b.length) : patch b off (slice b off (off + w)) = b := by
  have hl : (slice b off (off + w)).length = w := by simp; omega
  unfold patch; rw [hl]
  exact (take_drop_split b off w).symm

theorem slice_drop (b : Bytes) (k lo hi : Nat) : slice (b.drop k) lo hi = slice b (k + lo) (k + hi) := by
  unfold slice
  rw [← List.drop_drop]
  congr 1
  rw [List.drop_take, Nat.add_sub_cancel_left]

theorem getBE_drop (b : Bytes) (k lo hi : Nat) : getBE (b.drop k) lo hi = getBE b (k + lo) (k + hi) := by
  unfold getBE; rw [slice_drop]

theorem getBE_take (b : Bytes) (lo hi n : Nat) (h : hi ≤ n) : getBE (b.take n) lo hi = getBE b lo hi := by
  unfold getBE; rw [slice_take b lo hi n h]

end MosnVerif.Model.Bytes
