import MosnVerif.Model.H2Msg
/-! Lemmas about the header-map model of `Model/H2Msg.lean` (core Lean only). -/
namespace MosnVerif.Lemmas.H2Msg
open MosnVerif.Model.H2Msg MosnVerif.Gen

set_option maxRecDepth 8000 in
theorem lowerByte_idem (b : UInt8) : lowerByte (lowerByte b) = lowerByte b := by
  have h : ∀ i : Fin 256, lowerByte (lowerByte (UInt8.ofFin i)) = lowerByte (UInt8.ofFin i) := by decide
  have := h b.toFin
  simpa using this

theorem lower_idem (s : Bytes) : lower (lower s) = lower s := by
  simp [lower, List.map_map, Function.comp_def, lowerByte_idem]

/-! ### association lists with distinct keys -/
def Distinct (m : HMap) : Prop := (m.map (·.1)).Nodup

theorem vals_add (m : HMap) (k v n : Bytes) :
    (m.add k v).vals n = if k = n then m.vals n ++ [v] else m.vals n := by
  induction m with
  | nil => simp [HMap.add, HMap.vals]
  | cons e r ih =>
    obtain ⟨k', vs⟩ := e
    by_cases h : k' = k
    · subst h
      by_cases hn : k' = n
      · simp [HMap.add, HMap.vals, hn]
      · simp [HMap.add, HMap.vals, hn]
    · by_cases hn : k' = n
      · subst hn
        simp [HMap.add, HMap.vals, h, Ne.symm h]
      · simp [HMap.add, HMap.vals, h, hn, ih]

theorem keys_add (m : HMap) (k v : Bytes) :
    (m.add k v).map (·.1) = if k ∈ m.map (·.1) then m.map (·.1) else m.map (·.1) ++ [k] := by
  induction m with
  | nil => simp [HMap.add]
  | cons e r ih =>
    obtain ⟨k', vs⟩ := e
    by_cases h : k' = k
    · subst h; simp [HMap.add]
    · have h' : ¬ k = k' := fun x => h x.symm
      simp only [HMap.add, h, if_false, List.map_cons, ih, List.mem_cons, h', false_or]
      split <;> simp

theorem distinct_add (m : HMap) (k v : Bytes) (h : Distinct m) : Distinct (m.add k v) := by
  unfold Distinct at *
  rw [keys_add]
  split
  · exact h
  · rename_i hk
    rw [List.nodup_append]
    refine ⟨h, by simp, ?_⟩
    intro a ha b hb
    simp at hb
    subst hb
    intro hab
    exact hk (hab ▸ ha)

theorem foldl_add_vals (fs : List Field) (m : HMap) (n : Bytes) :
    (fs.foldl (fun m f => m.add (lower f.1) f.2) m).vals n = m.vals n ++ valuesOf n fs := by
  induction fs generalizing m with
  | nil => simp [valuesOf]
  | cons f r ih =>
    simp only [List.foldl_cons, ih, vals_add]
    by_cases h : lower f.1 = n
    · simp [valuesOf, h]
    · simp [valuesOf, h]

theorem vals_ofFields (fs : List Field) (n : Bytes) : (ofFields fs).vals n = valuesOf n fs := by
  simp [ofFields, foldl_add_vals, HMap.vals]

theorem foldl_add_distinct (fs : List Field) (m : HMap) (h : Distinct m) :
    Distinct (fs.foldl (fun m f => m.add (lower f.1) f.2) m) := by
  induction fs generalizing m with
  | nil => exact h
  | cons f r ih => exact ih _ (distinct_add _ _ _ h)

theorem distinct_ofFields (fs : List Field) : Distinct (ofFields fs) :=
  foldl_add_distinct fs [] (by simp [Distinct])

/-- the fields printed from a map with distinct keys: per name exactly the map's value list -/
theorem valuesAt_toFields (m : HMap) (h : Distinct m) (n : Bytes) : valuesAt n (toFields m) = m.vals n := by
  induction m with
  | nil => simp [toFields, valuesAt, HMap.vals]
  | cons e r ih =>
    obtain ⟨k, vs⟩ := e
    have hr : Distinct r := by
      unfold Distinct at *; simp at h; exact h.2
    have hk : k ∉ r.map (·.1) := by
      unfold Distinct at h; simp at h; simpa using h.1
    have ih' := ih hr
    simp only [toFields, valuesAt, List.flatMap_cons, List.filter_append, List.map_append] at *
    by_cases hn : k = n
    · subst hn
      have : HMap.vals r k = [] := by
        clear ih ih' h hr
        induction r with
        | nil => rfl
        | cons e2 r2 ih2 =>
          obtain ⟨k2, v2⟩ := e2
          simp at hk
          have : ¬ k2 = k := fun x => hk.1 x.symm
          simp [HMap.vals, this]
          exact ih2 (by simpa using hk.2)
      simp [HMap.vals, ih', this, List.filter_map, Function.comp_def]
    · simp [HMap.vals, hn, ih', List.filter_map, Function.comp_def]

theorem vals_del (m : HMap) (k n : Bytes) : (m.del k).vals n = if k = n then [] else m.vals n := by
  induction m with
  | nil => simp [HMap.del, HMap.vals]
  | cons e r ih =>
    obtain ⟨k', vs⟩ := e
    have ih' : HMap.vals (r.filter (fun e => e.1 ≠ k)) n = if k = n then [] else HMap.vals r n := ih
    show HMap.vals (((k', vs) :: r).filter (fun e => e.1 ≠ k)) n = _
    by_cases h : k' = k
    · subst h
      rw [List.filter_cons_of_neg (by simp), ih']
      by_cases hn : k' = n
      · simp [hn]
      · simp [HMap.vals, hn]
    · rw [List.filter_cons_of_pos (by simpa using h)]
      by_cases hn : k' = n
      · subst hn
        have : ¬ k = k' := fun x => h x.symm
        simp [HMap.vals, this]
      · simp only [HMap.vals, hn, if_false]
        exact ih'

theorem distinct_filter (m : HMap) (p : Bytes × List Bytes → Bool) (h : Distinct m) : Distinct (m.filter p) := by
  unfold Distinct at *
  exact (List.filter_sublist.map _).nodup h

theorem distinct_del (m : HMap) (k : Bytes) (h : Distinct m) : Distinct (m.del k) := distinct_filter m _ h

theorem keys_setVals (m : HMap) (k : Bytes) (ws : List Bytes) : (m.setVals k ws).map (·.1) = m.map (·.1) := by
  induction m with
  | nil => rfl
  | cons e r ih =>
    obtain ⟨k', vs⟩ := e
    by_cases h : k' = k <;> simp [HMap.setVals, h, ih]

theorem distinct_setVals (m : HMap) (k : Bytes) (ws : List Bytes) (h : Distinct m) : Distinct (m.setVals k ws) := by
  unfold Distinct at *; rw [keys_setVals]; exact h

theorem vals_setVals_ne (m : HMap) (k n : Bytes) (ws : List Bytes) (hn : k ≠ n) : (m.setVals k ws).vals n = m.vals n := by
  induction m with
  | nil => rfl
  | cons e r ih =>
    obtain ⟨k', vs⟩ := e
    by_cases h : k' = k
    · subst h; simp [HMap.setVals, HMap.vals, hn]
    · by_cases h2 : k' = n
      · subst h2; simp [HMap.setVals, HMap.vals, h]
      · simp [HMap.setVals, HMap.vals, h, h2, ih]

theorem distinct_joinCookies (m : HMap) (h : Distinct m) : Distinct (joinCookies m) := by
  unfold joinCookies; split
  · exact distinct_setVals _ _ _ h
  · exact h

theorem vals_joinCookies_ne (m : HMap) (n : Bytes) (hn : nCookie ≠ n) : (joinCookies m).vals n = m.vals n := by
  unfold joinCookies; split
  · exact vals_setVals_ne _ _ _ _ hn
  · rfl


theorem mem_valuesAt_toFields (m : HMap) (n v : Bytes) :
    v ∈ valuesAt n (toFields m) ↔ ∃ e ∈ m, e.1 = n ∧ v ∈ e.2 := by
  simp only [valuesAt, toFields, List.mem_map, List.mem_filter, List.mem_flatMap, decide_eq_true_eq]
  constructor
  · rintro ⟨f, ⟨⟨e, he, w, hw, rfl⟩, hf⟩, rfl⟩
    exact ⟨e, he, hf, hw⟩
  · rintro ⟨e, he, hk, hv⟩
    exact ⟨(e.1, v), ⟨⟨e, he, v, hv, rfl⟩, hk⟩, rfl⟩

theorem vals_of_mem (m : HMap) (h : Distinct m) (e : Bytes × List Bytes) (he : e ∈ m) : m.vals e.1 = e.2 := by
  induction m with
  | nil => cases he
  | cons e0 r ih =>
    obtain ⟨k, vs⟩ := e0
    have hr : Distinct r := by unfold Distinct at *; simp at h; exact h.2
    have hk : k ∉ r.map (·.1) := by unfold Distinct at h; simp at h; simpa using h.1
    cases he with
    | head => simp [HMap.vals]
    | tail _ ht =>
      have : ¬ k = e.1 := by
        intro hke
        exact hk (by rw [hke]; exact List.mem_map_of_mem ht)
      simp only [HMap.vals, this, if_false]
      exact ih hr ht

/-- entries kept by a key-preserving `filterMap` -/
theorem vals_filterMap (m : HMap) (g : Bytes × List Bytes → Option (Bytes × List Bytes))
    (hg : ∀ e e', g e = some e' → e'.1 = e.1) (n : Bytes) (hn : ∀ e, e.1 = n → g e = some e) :
    HMap.vals (m.filterMap g) n = m.vals n := by
  induction m with
  | nil => rfl
  | cons e r ih =>
    obtain ⟨k, vs⟩ := e
    simp only [List.filterMap_cons]
    cases hge : g (k, vs) with
    | none =>
      have : ¬ k = n := by
        intro h
        have := hn (k, vs) h
        rw [hge] at this; cases this
      simp [HMap.vals, this, ih]
    | some e' =>
      have hk := hg _ _ hge
      by_cases h : k = n
      · have := hn (k, vs) h
        rw [hge] at this
        cases this
        simp [HMap.vals, h]
      · obtain ⟨k', vs'⟩ := e'
        simp at hk
        subst hk
        simp [HMap.vals, h, ih]

theorem distinct_filterMap (m : HMap) (g : Bytes × List Bytes → Option (Bytes × List Bytes))
    (hg : ∀ e e', g e = some e' → e'.1 = e.1) (h : Distinct m) : Distinct (m.filterMap g) := by
  unfold Distinct at *
  have : ((m.filterMap g).map (·.1)).Sublist (m.map (·.1)) := by
    clear h
    induction m with
    | nil => simp
    | cons e r ih =>
      simp only [List.filterMap_cons]
      cases hge : g e with
      | none => simp only [List.map_cons]; exact ih.cons _
      | some e' =>
        simp only [List.map_cons, hg _ _ hge]
        exact ih.cons_cons _
  exact this.nodup h

theorem vals_map (m : HMap) (f : Bytes × List Bytes → Bytes × List Bytes) (hf : ∀ e, (f e).1 = e.1)
    (n : Bytes) (hn : ∀ e, e.1 = n → f e = e) : HMap.vals (m.map f) n = m.vals n := by
  induction m with
  | nil => rfl
  | cons e r ih =>
    obtain ⟨k, vs⟩ := e
    by_cases h : k = n
    · subst h
      have := hn (k, vs) rfl
      simp [List.map_cons, this, HMap.vals]
    · have hk := hf (k, vs)
      rcases hfe : f (k, vs) with ⟨k', vs'⟩
      rw [hfe] at hk
      simp at hk
      subst hk
      simp [List.map_cons, hfe, HMap.vals, h, ih]

theorem distinct_map (m : HMap) (f : Bytes × List Bytes → Bytes × List Bytes) (hf : ∀ e, (f e).1 = e.1)
    (h : Distinct m) : Distinct (m.map f) := by
  unfold Distinct at *
  have : (m.map f).map (·.1) = m.map (·.1) := by simp [List.map_map, Function.comp_def, hf]
  rw [this]; exact h

theorem vals_filter (m : HMap) (p : Bytes × List Bytes → Bool) (n : Bytes) (hn : ∀ e, e.1 = n → p e = true) :
    HMap.vals (m.filter p) n = m.vals n := by
  induction m with
  | nil => rfl
  | cons e r ih =>
    obtain ⟨k, vs⟩ := e
    by_cases hp : p (k, vs) = true
    · rw [List.filter_cons_of_pos hp]
      by_cases h : k = n <;> simp [HMap.vals, h, ih]
    · rw [List.filter_cons_of_neg hp]
      have : ¬ k = n := fun h => hp (hn (k, vs) h)
      simp [HMap.vals, this, ih]

theorem valuesAt_append (n : Bytes) (a b : List Field) : valuesAt n (a ++ b) = valuesAt n a ++ valuesAt n b := by
  simp [valuesAt]

theorem flatten_splitBy (d : Bytes) (s : List Nat) : (splitBy d s).flatten = d := by
  induction s generalizing d with
  | nil => unfold splitBy; split <;> simp_all
  | cons n r ih =>
    unfold splitBy
    split
    · simp_all
    · split
      · simp
      · simp [ih]

end MosnVerif.Lemmas.H2Msg
