import MosnVerif.Model.Flow
/-! Helper lemmas for C18 flow control: facts about the regenerated `flow.add/available/take` and the take
computation, and the invariant relating MOSN's windows to the peer's books, preserved by every label. -/
namespace MosnVerif.Lemmas.Flow
open MosnVerif.Gen.Flow MosnVerif.Model.Flow

theorem wrap32_id (x : Int) (h : -2147483648 ≤ x ∧ x ≤ 2147483647) : wrap32 x = x := by
  unfold wrap32; omega

theorem wrap32_range (x : Int) : -2147483648 ≤ wrap32 x ∧ wrap32 x ≤ 2147483647 := by
  unfold wrap32; omega

/-- `flow.add` on int32 values: succeeds iff the mathematical sum is representable; on success the window is the
sum, otherwise it is unchanged. -/
theorem add_spec (a n : Int) (ha : -2147483648 ≤ a ∧ a ≤ 2147483647) (hn : -2147483648 ≤ n ∧ n ≤ 2147483647) :
    ((add a n).2 = true ↔ (-2147483648 ≤ a + n ∧ a + n ≤ 2147483647)) ∧
    ((add a n).2 = true → (add a n).1 = a + n) ∧ ((add a n).2 = false → (add a n).1 = a) := by
  unfold add wrap32
  simp only []
  split <;> rename_i h <;> simp only [decide_eq_true_eq, decide_eq_decide] at h <;> simp <;> omega

theorem add_fst_range (a n : Int) (ha : -2147483648 ≤ a ∧ a ≤ 2147483647) :
    -2147483648 ≤ (add a n).1 ∧ (add a n).1 ≤ 2147483647 := by
  unfold add
  simp only []
  split
  · exact wrap32_range _
  · exact ha

theorem available_eq (n cn : Int) : available n true cn = min n cn := by
  unfold available
  simp only [ne_eq, Bool.true_eq_false, not_false_eq_true, decide_true, Bool.true_and, decide_eq_true_eq]
  split <;> omega

theorem available_noconn (n cn : Int) : available n false cn = n := by
  unfold available
  simp

theorem enabled_iff (side : Side) (a : Int) : enabled side a = true ↔ 0 < a := by
  cases side <;> simp [enabled, clientEnabled, serverEnabled]

/-- the amount taken by one pass of awaitFlowControl is min(available window, remaining, max frame size) -/
theorem takeAmount_spec (side : Side) (a rem mf : Int) (ha : 0 < a ∧ a ≤ 2147483647) (hr : 0 < rem)
    (hm : 1 ≤ mf ∧ mf ≤ 2147483647) :
    takeAmount side a rem mf = min a (min rem mf) := by
  cases side <;> simp only [takeAmount, clientTake, serverTake, decide_eq_true_eq, wrap32_id mf (by omega)] <;>
    split <;> (try rw [wrap32_id rem (by omega)]) <;> split <;> omega

theorem take_ok (n cn t : Int) (hn : -2147483648 ≤ n ∧ n ≤ 2147483647) (hc : -2147483648 ≤ cn ∧ cn ≤ 2147483647)
    (ht : 0 ≤ t ∧ t ≤ n ∧ t ≤ cn) : take n true cn t = some (n - t, cn - t) := by
  unfold take
  rw [available_eq]
  simp only [decide_eq_true_eq, ne_eq, Bool.true_eq_false, not_false_eq_true, decide_true, if_true]
  rw [if_neg (by omega), wrap32_id _ (by omega), wrap32_id _ (by omega)]

theorem sum_replicate' (n a : Nat) : (List.replicate n a).sum = n * a := by
  induction n with
  | zero => simp
  | succ n ih => simp [List.replicate_succ, ih, Nat.succ_mul]; omega

theorem sum_split (k : Nat) : (splitFrames k).sum = k := by
  unfold splitFrames writeDataSplit
  split <;> simp <;> omega

theorem mem_split (k z : Nat) (h : z ∈ splitFrames k) : z ≤ k ∧ z ≤ writeDataSplit ∧ 0 < z := by
  unfold splitFrames writeDataSplit at *
  simp only [List.mem_append, List.mem_replicate] at h
  rcases h with ⟨h1, rfl⟩ | h
  · omega
  · split at h <;> simp at h; omega

theorem peerOf_snoc (t : List Obs) (o : Obs) : peerOf (t ++ [o]) = peerStep (peerOf t) o := by
  simp [peerOf, List.foldl_append]

theorem peerOf_snoc2 (t : List Obs) (o o' : Obs) : peerOf (t ++ [o, o']) = peerStep (peerStep (peerOf t) o) o' := by
  simp [peerOf, List.foldl_append]

theorem tracked_lt (s : St) (i : Nat) (h : tracked s i = true) : i < s.count := by
  simp only [tracked, Bool.and_eq_true, decide_eq_true_eq] at h; exact h.1

theorem tracked_of (s : St) (i : Nat) (hi : i < s.count) (hr : 0 < (s.strm i).rem) : tracked s i = true := by
  simp only [tracked, hi, decide_true, Bool.true_and, Bool.not_eq_true', Bool.and_eq_false_iff]
  right; simp; omega

theorem tracked_congr (s s' : St) (j : Nat) (h1 : s'.side = s.side) (h2 : s'.count = s.count)
    (h3 : (s'.strm j).rem = (s.strm j).rem) : tracked s' j = tracked s j := by
  simp only [tracked, h1, h2, h3]

/-- what relates a live MOSN connection to the peer's books (for the streams still in the stream table) -/
structure Live (s : St) (p : Peer) : Prop where
  count : p.count = s.count
  init : p.init = s.init
  maxF : p.maxF = s.maxFrame
  cn_le : s.cn ≤ p.connW
  cn_range : -2147483648 ≤ s.cn ∧ s.cn ≤ 2147483647
  init_range : 0 ≤ s.init ∧ s.init ≤ 2147483647
  mf_range : 1 ≤ s.maxFrame ∧ s.maxFrame ≤ 2147483647
  strm : ∀ i, tracked s i = true → (s.strm i).n ≤ p.w i ∧ -2147483648 ≤ (s.strm i).n ∧ (s.strm i).n ≤ 2147483647 ∧
    s.init - 2147483647 ≤ (s.strm i).n

/-- the invariant of every reachable state -/
structure Inv (s : St) : Prop where
  ok : (peerOf s.trace).ok = true
  nopanic : s.panicked = false
  live : s.closed = false → Live s (peerOf s.trace)

theorem inv_initial (side : Side) : Inv (St.initial side) := by
  cases side <;> refine ⟨by decide, rfl, fun _ => ?_⟩ <;>
    refine ⟨rfl, by decide, by decide, by decide, by decide, by decide, by decide, ?_⟩ <;>
    intro i hi <;> have := tracked_lt _ _ hi <;> simp [St.initial] at this

theorem sendStep_fire (s : St) (i : Nat) (h : Inv s) (hc : s.closed = false) (hi : i < s.count)
    (hr : 0 < (s.strm i).rem) (ha : 0 < min (s.strm i).n s.cn) :
    let t := min (min (s.strm i).n s.cn) (min ((s.strm i).rem : Int) s.maxFrame)
    sendStep s i = { s with cn := s.cn - t, strm := upd s.strm i { n := (s.strm i).n - t, rem := (s.strm i).rem - t.toNat },
                            trace := s.trace ++ [Obs.data i (splitFrames t.toNat)] } := by
  intro t
  have L := h.live hc
  obtain ⟨h1, h2, h3, h4⟩ := L.strm i (tracked_of s i hi hr)
  have hcr := L.cn_range
  have hmf := L.mf_range
  have hts : takeAmount s.side (min (s.strm i).n s.cn) ((s.strm i).rem : Int) s.maxFrame = t :=
    takeAmount_spec _ _ _ _ (by omega) (by omega) hmf
  unfold sendStep
  simp only [hc, h.nopanic, Bool.or_false, Bool.false_or, decide_eq_true_eq]
  rw [if_neg (by omega), if_neg (by omega), available_eq]
  have he : enabled s.side (min (s.strm i).n s.cn) = true := (enabled_iff _ _).2 ha
  simp only [he, Bool.not_true, Bool.false_eq_true, if_false, hts]
  rw [take_ok _ _ t ⟨h2, h3⟩ hcr (by omega)]
  simp only []
  rw [if_neg]
  simp only [Bool.or_eq_true, decide_eq_true_eq]
  omega

theorem sendStep_idle (s : St) (i : Nat) (hp : s.panicked = false)
    (h : s.closed = true ∨ s.count ≤ i ∨ (s.strm i).rem = 0 ∨ min (s.strm i).n s.cn ≤ 0) : sendStep s i = s := by
  unfold sendStep
  by_cases hc : s.closed = true
  · simp [hc]
  by_cases hi : s.count ≤ i
  · simp [hi]
  by_cases hr : (s.strm i).rem = 0
  · simp [hr]
  have ha : min (s.strm i).n s.cn ≤ 0 := by
    rcases h with h | h | h | h
    · exact absurd h hc
    · exact absurd h hi
    · exact absurd h hr
    · exact h
  have he : enabled s.side (available (s.strm i).n true s.cn) = false := by
    rw [available_eq]
    cases hh : enabled s.side (min (s.strm i).n s.cn)
    · rfl
    · rw [enabled_iff] at hh; omega
  simp [hc, hi, hr, he, hp]

theorem inv_send (s : St) (i : Nat) (h : Inv s) : Inv (sendStep s i) := by
  by_cases hidle : s.closed = true ∨ s.count ≤ i ∨ (s.strm i).rem = 0 ∨ min (s.strm i).n s.cn ≤ 0
  · rw [sendStep_idle s i h.nopanic hidle]; exact h
  · have hc : s.closed = false := by cases hcc : s.closed <;> simp [hcc] at hidle ⊢
    have hi : i < s.count := by omega
    have hr : 0 < (s.strm i).rem := by omega
    have ha : 0 < min (s.strm i).n s.cn := by omega
    have L := h.live hc
    obtain ⟨h1, h2, h3, h4⟩ := L.strm i (tracked_of s i hi hr)
    have hcr := L.cn_range
    have hmf := L.mf_range
    rw [sendStep_fire s i h hc hi hr ha]
    generalize ht : min (min (s.strm i).n s.cn) (min ((s.strm i).rem : Int) s.maxFrame) = t
    have htn : ((t.toNat : Nat) : Int) = t := by omega
    refine ⟨?_, h.nopanic, fun _ => ?_⟩
    · simp only [peerOf_snoc, peerStep, sum_split, htn, h.ok, Bool.true_and, Bool.and_eq_true, decide_eq_true_eq,
        List.all_eq_true]
      refine ⟨⟨⟨?_, ?_⟩, ?_⟩, ?_⟩
      · rw [L.count]; exact hi
      · omega
      · have := L.cn_le; omega
      · intro z hz
        have := mem_split _ _ hz
        rw [L.maxF]; omega
    · simp only [peerOf_snoc, peerStep, sum_split, htn]
      refine ⟨L.count, L.init, L.maxF, ?_, ?_, L.init_range, L.mf_range, ?_⟩
      · have := L.cn_le; simp only []; omega
      · simp only []; omega
      · intro j hj
        by_cases hji : j = i
        · subst hji; simp only [upd, updW, if_true]; have := L.init_range; omega
        · have htr : tracked s j = true := by
            rw [← hj]; symm; apply tracked_congr <;> simp [upd, hji]
          simp only [upd, updW, hji, if_false]; exact L.strm j htr

theorem inv_open (s : St) (len : Nat) (h : Inv s) : Inv (step s (.openStream len)) := by
  simp only [step]
  by_cases hc : s.closed = true
  · simp [hc]; exact h
  have hc : s.closed = false := by simpa using hc
  simp only [hc, h.nopanic, Bool.or_false, Bool.false_eq_true, if_false]
  have L := h.live hc
  have hir := L.init_range
  have hadd : (add 0 (wrap32 s.init)).1 = s.init := by
    rw [wrap32_id _ (by omega)]
    have := add_spec 0 s.init (by omega) (by omega)
    have h2 : (add 0 s.init).2 = true := this.1.2 (by omega)
    rw [this.2.1 h2]; omega
  refine ⟨?_, rfl, fun _ => ?_⟩
  · simp only [peerOf_snoc, peerStep]; exact h.ok
  · simp only [peerOf_snoc, peerStep, hadd]
    refine ⟨by rw [L.count], L.init, L.maxF, L.cn_le, L.cn_range, L.init_range, L.mf_range, ?_⟩
    intro j hj
    by_cases hji : j = s.count
    · simp only [upd, updW, L.count, hji, if_true, L.init]; omega
    · have hlt := tracked_lt _ _ hj
      change j < s.count + 1 at hlt
      have htr : tracked s j = true := by
        rw [← hj]
        simp only [tracked, upd, hji, if_false]
        congr 1
        simp; omega
      simp only [upd, updW, L.count, hji, if_false]; exact L.strm j htr

theorem inv_wuStream (s : St) (i inc : Nat) (hw : (Label.wuStream i inc).wf = true) (h : Inv s) :
    Inv (step s (.wuStream i inc)) := by
  simp only [Label.wf, Bool.and_eq_true, decide_eq_true_eq] at hw
  simp only [step]
  by_cases hc : s.closed = true
  · simp [hc]; exact h
  have hc : s.closed = false := by simpa using hc
  simp only [hc, h.nopanic, Bool.or_false, Bool.false_eq_true, if_false]
  have L := h.live hc
  by_cases hi : s.count ≤ i
  · simp only [hi, if_true]
    have hpi : ¬ i < (peerOf s.trace).count := by rw [L.count]; omega
    refine ⟨?_, rfl, fun _ => ?_⟩
    · simp only [peerOf_snoc, peerStep, hpi, if_false]; exact h.ok
    · simp only [peerOf_snoc, peerStep, hpi, if_false]
      refine ⟨L.count, L.init, L.maxF, L.cn_le, L.cn_range, L.init_range, L.mf_range, ?_⟩
      intro j hj
      exact L.strm j (by rw [← hj]; symm; apply tracked_congr <;> rfl)
  · simp only [hi, if_false]
    have hi' : i < s.count := by omega
    have hpi : i < (peerOf s.trace).count := by rw [L.count]; omega
    by_cases htr : tracked s i = true
    · simp only [htr, Bool.not_true, Bool.false_eq_true, if_false]
      obtain ⟨h1, h2, h3, h4⟩ := L.strm i htr
      have hwi : wrap32 (inc : Int) = inc := wrap32_id _ (by omega)
      have A := add_spec (s.strm i).n inc ⟨h2, h3⟩ (by omega)
      rw [hwi]
      cases hr : (add (s.strm i).n (inc : Int)).2
      · -- refused: connection error
        simp only [Bool.false_eq_true, if_false]
        refine ⟨?_, rfl, fun hcl => by simp at hcl⟩
        simp only [peerOf_snoc2, peerStep, hpi, if_true]; exact h.ok
      · simp only [if_true]
        have hv := A.2.1 hr
        have hb := A.1.1 hr
        refine ⟨?_, rfl, fun _ => ?_⟩
        · simp only [peerOf_snoc, peerStep, hpi, if_true]; exact h.ok
        · simp only [peerOf_snoc, peerStep, hpi, if_true]
          refine ⟨L.count, L.init, L.maxF, L.cn_le, L.cn_range, L.init_range, L.mf_range, ?_⟩
          intro j hj
          by_cases hji : j = i
          · subst hji; simp only [upd, updW, if_true, hv]; omega
          · have htj : tracked s j = true := by
              rw [← hj]; symm; apply tracked_congr <;> simp [upd, hji]
            simp only [upd, updW, hji, if_false]; exact L.strm j htj
    · have htr' : tracked s i = false := by simpa using htr
      simp only [htr', Bool.not_false, if_true]
      refine ⟨?_, rfl, fun _ => ?_⟩
      · simp only [peerOf_snoc, peerStep, hpi, if_true]; exact h.ok
      · simp only [peerOf_snoc, peerStep, hpi, if_true]
        refine ⟨L.count, L.init, L.maxF, L.cn_le, L.cn_range, L.init_range, L.mf_range, ?_⟩
        intro j hj
        have htj : tracked s j = true := by
          rw [← hj]; symm; apply tracked_congr <;> rfl
        have hji : j ≠ i := by intro e; subst e; rw [htr'] at htj; exact Bool.noConfusion htj
        simp only [updW, hji, if_false]; exact L.strm j htj

theorem inv_wuConn (s : St) (inc : Nat) (hw : (Label.wuConn inc).wf = true) (h : Inv s) :
    Inv (step s (.wuConn inc)) := by
  simp only [Label.wf, Bool.and_eq_true, decide_eq_true_eq] at hw
  simp only [step]
  by_cases hc : s.closed = true
  · simp [hc]; exact h
  have hc : s.closed = false := by simpa using hc
  simp only [hc, h.nopanic, Bool.or_false, Bool.false_eq_true, if_false]
  have L := h.live hc
  have hwi : wrap32 (inc : Int) = inc := wrap32_id _ (by omega)
  have A := add_spec s.cn inc L.cn_range (by omega)
  rw [hwi]
  cases hr : (add s.cn (inc : Int)).2
  · simp only [Bool.false_eq_true, if_false]
    refine ⟨?_, rfl, fun hcl => by simp at hcl⟩
    simp only [peerOf_snoc2, peerStep]; exact h.ok
  · simp only [if_true]
    have hv := A.2.1 hr
    have hb := A.1.1 hr
    refine ⟨?_, rfl, fun _ => ?_⟩
    · simp only [peerOf_snoc, peerStep]; exact h.ok
    · simp only [peerOf_snoc, peerStep]
      refine ⟨L.count, L.init, L.maxF, ?_, ?_, L.init_range, L.mf_range, ?_⟩
      · have := L.cn_le; simp only [hv]; omega
      · simp only [hv]; omega
      · intro j hj
        exact L.strm j (by rw [← hj]; symm; apply tracked_congr <;> rfl)

theorem inv_setInit (s : St) (v : Nat) (hw : (Label.setInit v).wf = true) (h : Inv s) :
    Inv (step s (.setInit v)) := by
  simp only [Label.wf, decide_eq_true_eq] at hw
  simp only [step]
  by_cases hc : s.closed = true
  · simp [hc]; exact h
  have hc : s.closed = false := by simpa using hc
  simp only [hc, h.nopanic, Bool.or_false, Bool.false_eq_true, if_false]
  have L := h.live hc
  have hir := L.init_range
  by_cases hv : maxInt32 < (v : Int)
  · simp only [hv, if_true]
    refine ⟨?_, rfl, fun hcl => by simp at hcl⟩
    simp only [peerOf_snoc2, peerStep]; exact h.ok
  simp only [hv, if_false]
  have hv' : (v : Int) ≤ 2147483647 := by simp only [maxInt32] at hv; omega
  have hd : wrap32 (wrap32 (v : Int) - wrap32 s.init) = (v : Int) - s.init := by
    rw [wrap32_id (v : Int) (by omega), wrap32_id s.init (by omega), wrap32_id _ (by omega)]
  rw [hd]
  -- the new windows satisfy the relation whether or not an individual add was refused
  have key : ∀ j, tracked s j = true →
      (add (s.strm j).n ((v : Int) - s.init)).1 ≤ (peerOf s.trace).w j + ((v : Int) - (peerOf s.trace).init) ∧
      -2147483648 ≤ (add (s.strm j).n ((v : Int) - s.init)).1 ∧ (add (s.strm j).n ((v : Int) - s.init)).1 ≤ 2147483647 ∧
      (v : Int) - 2147483647 ≤ (add (s.strm j).n ((v : Int) - s.init)).1 := by
    intro j hj
    obtain ⟨h1, h2, h3, h4⟩ := L.strm j hj
    have A := add_spec (s.strm j).n ((v : Int) - s.init) ⟨h2, h3⟩ (by omega)
    rw [L.init]
    cases hr : (add (s.strm j).n ((v : Int) - s.init)).2
    · have hv2 := A.2.2 hr
      have hb : ¬ (-2147483648 ≤ (s.strm j).n + ((v : Int) - s.init) ∧ (s.strm j).n + ((v : Int) - s.init) ≤ 2147483647) := by
        intro hh; have := A.1.2 hh; simp [hr] at this
      rw [hv2]; omega
    · have hv2 := A.2.1 hr
      have hb := A.1.1 hr
      rw [hv2]; omega
  have live' : ∀ s' : St, s'.side = s.side → s'.cn = s.cn → s'.init = (v : Int) → s'.maxFrame = s.maxFrame → s'.count = s.count →
      s'.strm = (fun j => if tracked s j then { s.strm j with n := (add (s.strm j).n ((v : Int) - s.init)).1 } else s.strm j) →
      Live s' (peerOf (s.trace ++ [Obs.sInit v])) := by
    intro s' e0 e1 e2 e3 e4 e5
    simp only [peerOf_snoc, peerStep]
    refine ⟨by rw [e4]; exact L.count, e2.symm, by rw [e3]; exact L.maxF, by rw [e1]; exact L.cn_le, by rw [e1]; exact L.cn_range,
      by rw [e2]; exact ⟨Int.natCast_nonneg v, hv'⟩, by rw [e3]; exact L.mf_range, ?_⟩
    intro j hj
    have htj : tracked s j = true := by
      rw [← hj]; symm; apply tracked_congr _ _ _ e0 e4
      rw [e5]; simp only []; split <;> rfl
    have hpj : j < (peerOf s.trace).count := by rw [L.count]; exact tracked_lt _ _ htj
    rw [e5, e2]
    simp only [htj, hpj, if_true]
    exact key j htj
  have ok' : (peerOf (s.trace ++ [Obs.sInit v])).ok = true := by
    simp only [peerOf_snoc, peerStep]; exact h.ok
  cases hside : s.side
  · simp only []
    exact ⟨ok', rfl, fun _ => live' _ hside.symm rfl rfl rfl rfl rfl⟩
  · simp only []
    split
    · refine ⟨?_, rfl, fun hcl => by simp at hcl⟩
      simp only [peerOf_snoc2, peerStep]; exact h.ok
    · exact ⟨ok', rfl, fun _ => live' _ hside.symm rfl rfl rfl rfl rfl⟩

theorem inv_setMaxFrame (s : St) (v : Nat) (hw : (Label.setMaxFrame v).wf = true) (h : Inv s) :
    Inv (step s (.setMaxFrame v)) := by
  simp only [Label.wf, Bool.and_eq_true, decide_eq_true_eq] at hw
  simp only [step]
  by_cases hc : s.closed = true
  · simp [hc]; exact h
  have hc : s.closed = false := by simpa using hc
  simp only [hc, h.nopanic, Bool.or_false, Bool.false_eq_true, if_false]
  have L := h.live hc
  cases hside : s.side
  · simp only []
    split   -- [c08l9] the client validates too
    · refine ⟨?_, rfl, fun hcl => by simp at hcl⟩
      simp only [peerOf_snoc2, peerStep]; exact h.ok
    · refine ⟨?_, rfl, fun _ => ?_⟩
      · simp only [peerOf_snoc, peerStep]; exact h.ok
      · simp only [peerOf_snoc, peerStep]
        refine ⟨L.count, L.init, rfl, L.cn_le, L.cn_range, L.init_range, ⟨by show (1 : Int) ≤ (v : Int); omega, by show (v : Int) ≤ 2147483647; omega⟩, ?_⟩
        intro j hj
        exact L.strm j (by rw [← hj]; symm; apply tracked_congr <;> simp [hside])
  · simp only []
    split
    · refine ⟨?_, rfl, fun hcl => by simp at hcl⟩
      simp only [peerOf_snoc2, peerStep]; exact h.ok
    · refine ⟨?_, rfl, fun _ => ?_⟩
      · simp only [peerOf_snoc, peerStep]; exact h.ok
      · simp only [peerOf_snoc, peerStep]
        have hwv : wrap32 (v : Int) = v := wrap32_id _ (by omega)
        refine ⟨L.count, L.init, hwv.symm, L.cn_le, L.cn_range, L.init_range, ⟨by show (1 : Int) ≤ wrap32 (v : Int); omega, by show wrap32 (v : Int) ≤ 2147483647; omega⟩, ?_⟩
        intro j hj
        exact L.strm j (by rw [← hj]; symm; apply tracked_congr <;> simp [hside])

theorem inv_step (s : St) (l : Label) (hw : l.wf = true) (h : Inv s) : Inv (step s l) := by
  cases l with
  | openStream len => exact inv_open s len h
  | send i => exact inv_send s i h
  | wuStream i inc => exact inv_wuStream s i inc hw h
  | wuConn inc => exact inv_wuConn s inc hw h
  | setInit v => exact inv_setInit s v hw h
  | setMaxFrame v => exact inv_setMaxFrame s v hw h

theorem inv_run (s : St) (sched : List Label) (hw : ∀ l ∈ sched, l.wf = true) (h : Inv s) : Inv (run s sched) := by
  induction sched generalizing s with
  | nil => exact h
  | cons l r ih =>
    simp only [run, List.foldl_cons]
    exact ih (step s l) (fun l' hl' => hw l' (List.mem_cons_of_mem _ hl')) (inv_step s l (hw l (List.mem_cons_self)) h)

theorem sentOn_append (i : Nat) (a b : List Obs) : sentOn i (a ++ b) = sentOn i a + sentOn i b := by
  induction a with
  | nil => simp [sentOn]
  | cons o r ih => cases o <;> simp [sentOn, ih] <;> omega

theorem pump_completes (i : Nat) : ∀ (k : Nat) (s : St), Inv s → s.closed = false → i < s.count →
    (s.strm i).rem ≤ k → ((s.strm i).rem : Int) ≤ (s.strm i).n → ((s.strm i).rem : Int) ≤ s.cn →
    ((pump s i k).strm i).rem = 0 ∧ sentOn i (pump s i k).trace = sentOn i s.trace + (s.strm i).rem ∧
    (pump s i k).closed = false := by
  intro k
  induction k with
  | zero =>
    intro s _ hc _ hk _ _
    simp only [pump]
    exact ⟨by omega, by omega, hc⟩
  | succ k ih =>
    intro s h hc hi hk hn hcn
    simp only [pump]
    by_cases hr : (s.strm i).rem = 0
    · rw [sendStep_idle s i h.nopanic (Or.inr (Or.inr (Or.inl hr)))]
      have := ih s h hc hi (by omega) hn hcn
      exact this
    · have L := h.live hc
      have hmf := L.mf_range
      have hpos : 0 < (s.strm i).rem := by omega
      have ha : 0 < min (s.strm i).n s.cn := by omega
      have hinv := inv_send s i h
      rw [sendStep_fire s i h hc hi hpos ha] at hinv ⊢
      generalize ht : min (min (s.strm i).n s.cn) (min ((s.strm i).rem : Int) s.maxFrame) = t at hinv ⊢
      have htn : ((t.toNat : Nat) : Int) = t := by omega
      have ht1 : 1 ≤ t := by omega
      have htr : t ≤ (s.strm i).rem := by omega
      have := ih _ hinv hc hi (by simp only [upd, if_true]; omega) (by simp only [upd, if_true]; omega)
        (by simp only [upd, if_true]; omega)
      obtain ⟨r1, r2, r3⟩ := this
      refine ⟨r1, ?_, r3⟩
      rw [r2]
      simp only [sentOn_append, sentOn, upd, if_true, sum_split]
      omega


/-- against a peer that keeps its own windows within 2^31-1 (RFC 7540 §6.9.1) MOSN's windows *equal* the peer's
books (for every stream still in the stream table) and the connection is never torn down -/
def Exact (s : St) : Prop :=
  (peerOf s.trace).conformant = true →
    s.closed = false ∧ s.cn = (peerOf s.trace).connW ∧ ∀ i, tracked s i = true → (s.strm i).n = (peerOf s.trace).w i

theorem exact_initial (side : Side) : Exact (St.initial side) := by
  intro _
  cases side <;> refine ⟨rfl, by decide, ?_⟩ <;> intro i hi <;> have := tracked_lt _ _ hi <;> simp [St.initial] at this

theorem exact_send (s : St) (i : Nat) (h : Inv s) (e : Exact s) : Exact (sendStep s i) := by
  by_cases hidle : s.closed = true ∨ s.count ≤ i ∨ (s.strm i).rem = 0 ∨ min (s.strm i).n s.cn ≤ 0
  · rw [sendStep_idle s i h.nopanic hidle]; exact e
  · have hc : s.closed = false := by cases hcc : s.closed <;> simp [hcc] at hidle ⊢
    have hi : i < s.count := by omega
    have hr : 0 < (s.strm i).rem := by omega
    have ha : 0 < min (s.strm i).n s.cn := by omega
    rw [sendStep_fire s i h hc hi hr ha]
    generalize ht : min (min (s.strm i).n s.cn) (min ((s.strm i).rem : Int) s.maxFrame) = t
    have hmf := (h.live hc).mf_range
    have htn : ((t.toNat : Nat) : Int) = t := by omega
    intro hconf
    simp only [peerOf_snoc, peerStep, sum_split, htn] at hconf ⊢
    obtain ⟨_, e2, e3⟩ := e hconf
    refine ⟨hc, by rw [e2], ?_⟩
    intro j hj
    by_cases hji : j = i
    · subst hji; simp only [upd, updW, if_true]; rw [e3 j (tracked_of s j hi hr)]
    · have htj : tracked s j = true := by
        rw [← hj]; symm; apply tracked_congr <;> simp [upd, hji]
      simp only [upd, updW, hji, if_false]; exact e3 j htj

theorem exact_open (s : St) (len : Nat) (h : Inv s) (e : Exact s) : Exact (step s (.openStream len)) := by
  simp only [step]
  by_cases hc : s.closed = true
  · simp [hc]; exact e
  have hc : s.closed = false := by simpa using hc
  simp only [hc, h.nopanic, Bool.or_false, Bool.false_eq_true, if_false]
  have L := h.live hc
  have hir := L.init_range
  have hadd : (add 0 (wrap32 s.init)).1 = s.init := by
    rw [wrap32_id _ (by omega)]
    have := add_spec 0 s.init (by omega) (by omega)
    have h2 : (add 0 s.init).2 = true := this.1.2 (by omega)
    rw [this.2.1 h2]; omega
  intro hconf
  simp only [peerOf_snoc, peerStep, hadd] at hconf ⊢
  obtain ⟨_, e2, e3⟩ := e hconf
  refine ⟨trivial, e2, ?_⟩
  intro j hj
  by_cases hji : j = s.count
  · simp only [upd, updW, L.count, hji, if_true, L.init]
  · have hlt := tracked_lt _ _ hj
    change j < s.count + 1 at hlt
    have htr : tracked s j = true := by
      rw [← hj]
      simp only [tracked, upd, hji, if_false]
      congr 1
      simp; omega
    simp only [upd, updW, L.count, hji, if_false]; exact e3 j htr

theorem exact_wuStream (s : St) (i inc : Nat) (hw : (Label.wuStream i inc).wf = true) (h : Inv s) (e : Exact s) :
    Exact (step s (.wuStream i inc)) := by
  simp only [Label.wf, Bool.and_eq_true, decide_eq_true_eq] at hw
  simp only [step]
  by_cases hc : s.closed = true
  · simp [hc]; exact e
  have hc : s.closed = false := by simpa using hc
  simp only [hc, h.nopanic, Bool.or_false, Bool.false_eq_true, if_false]
  have L := h.live hc
  by_cases hi : s.count ≤ i
  · simp only [hi, if_true]
    have hpi : ¬ i < (peerOf s.trace).count := by rw [L.count]; omega
    intro hconf
    simp only [peerOf_snoc, peerStep, hpi, if_false] at hconf
    exact absurd hconf (by simp)
  · simp only [hi, if_false]
    have hi' : i < s.count := by omega
    have hpi : i < (peerOf s.trace).count := by rw [L.count]; omega
    by_cases htr : tracked s i = true
    · simp only [htr, Bool.not_true, Bool.false_eq_true, if_false]
      obtain ⟨h1, h2, h3, h4⟩ := L.strm i htr
      have hwi : wrap32 (inc : Int) = inc := wrap32_id _ (by omega)
      have A := add_spec (s.strm i).n inc ⟨h2, h3⟩ (by omega)
      rw [hwi]
      cases hr : (add (s.strm i).n (inc : Int)).2
      · simp only [Bool.false_eq_true, if_false]
        intro hconf
        simp only [peerOf_snoc2, peerStep, hpi, if_true, Bool.and_eq_true, decide_eq_true_eq] at hconf
        obtain ⟨_, e2, e3⟩ := e hconf.1.1
        have := e3 i htr
        have hb : ¬ (-2147483648 ≤ (s.strm i).n + (inc : Int) ∧ (s.strm i).n + (inc : Int) ≤ 2147483647) := by
          intro hh; have := A.1.2 hh; simp [hr] at this
        omega
      · simp only [if_true]
        have hv := A.2.1 hr
        intro hconf
        simp only [peerOf_snoc, peerStep, hpi, if_true, Bool.and_eq_true, decide_eq_true_eq] at hconf ⊢
        obtain ⟨_, e2, e3⟩ := e hconf.1.1
        refine ⟨trivial, e2, ?_⟩
        intro j hj
        by_cases hji : j = i
        · subst hji; simp only [upd, updW, if_true, hv]; rw [e3 j htr]
        · have htj : tracked s j = true := by
            rw [← hj]; symm; apply tracked_congr <;> simp [upd, hji]
          simp only [upd, updW, hji, if_false]; exact e3 j htj
    · have htr' : tracked s i = false := by simpa using htr
      simp only [htr', Bool.not_false, if_true]
      intro hconf
      simp only [peerOf_snoc, peerStep, hpi, if_true, Bool.and_eq_true, decide_eq_true_eq] at hconf ⊢
      obtain ⟨_, e2, e3⟩ := e hconf.1.1
      refine ⟨trivial, e2, ?_⟩
      intro j hj
      have htj : tracked s j = true := by
        rw [← hj]; symm; apply tracked_congr <;> rfl
      have hji : j ≠ i := by intro e; subst e; rw [htr'] at htj; exact Bool.noConfusion htj
      simp only [updW, hji, if_false]; exact e3 j htj

theorem exact_wuConn (s : St) (inc : Nat) (hw : (Label.wuConn inc).wf = true) (h : Inv s) (e : Exact s) :
    Exact (step s (.wuConn inc)) := by
  simp only [Label.wf, Bool.and_eq_true, decide_eq_true_eq] at hw
  simp only [step]
  by_cases hc : s.closed = true
  · simp [hc]; exact e
  have hc : s.closed = false := by simpa using hc
  simp only [hc, h.nopanic, Bool.or_false, Bool.false_eq_true, if_false]
  have L := h.live hc
  have hwi : wrap32 (inc : Int) = inc := wrap32_id _ (by omega)
  have A := add_spec s.cn inc L.cn_range (by omega)
  rw [hwi]
  cases hr : (add s.cn (inc : Int)).2
  · simp only [Bool.false_eq_true, if_false]
    intro hconf
    simp only [peerOf_snoc2, peerStep, Bool.and_eq_true, decide_eq_true_eq] at hconf
    obtain ⟨_, e2, e3⟩ := e hconf.1.1
    have hb : ¬ (-2147483648 ≤ s.cn + (inc : Int) ∧ s.cn + (inc : Int) ≤ 2147483647) := by
      intro hh; have := A.1.2 hh; simp [hr] at this
    have := L.cn_range
    omega
  · simp only [if_true]
    have hv := A.2.1 hr
    intro hconf
    simp only [peerOf_snoc, peerStep, Bool.and_eq_true, decide_eq_true_eq] at hconf ⊢
    obtain ⟨_, e2, e3⟩ := e hconf.1.1
    refine ⟨trivial, by rw [hv, e2], ?_⟩
    intro j hj
    exact e3 j (by rw [← hj]; symm; apply tracked_congr <;> rfl)

theorem exact_setInit (s : St) (v : Nat) (hw : (Label.setInit v).wf = true) (h : Inv s) (e : Exact s) :
    Exact (step s (.setInit v)) := by
  simp only [Label.wf, decide_eq_true_eq] at hw
  simp only [step]
  by_cases hc : s.closed = true
  · simp [hc]; exact e
  have hc : s.closed = false := by simpa using hc
  simp only [hc, h.nopanic, Bool.or_false, Bool.false_eq_true, if_false]
  have L := h.live hc
  have hir := L.init_range
  by_cases hv : maxInt32 < (v : Int)
  · simp only [hv, if_true]
    intro hconf
    simp only [peerOf_snoc2, peerStep, Bool.and_eq_true, decide_eq_true_eq] at hconf
    simp only [maxInt32] at hv
    omega
  simp only [hv, if_false]
  have hv' : (v : Int) ≤ 2147483647 := by simp only [maxInt32] at hv; omega
  have hd : wrap32 (wrap32 (v : Int) - wrap32 s.init) = (v : Int) - s.init := by
    rw [wrap32_id (v : Int) (by omega), wrap32_id s.init (by omega), wrap32_id _ (by omega)]
  rw [hd]
  -- under conformance every add on a tracked stream is accepted and yields the peer's new window
  have key : (peerOf (s.trace ++ [Obs.sInit v])).conformant = true →
      (peerOf s.trace).conformant = true ∧ ∀ j, tracked s j = true →
        (add (s.strm j).n ((v : Int) - s.init)).2 = true ∧
        (add (s.strm j).n ((v : Int) - s.init)).1 = (peerOf s.trace).w j + ((v : Int) - (peerOf s.trace).init) := by
    intro hconf
    simp only [peerOf_snoc, peerStep, Bool.and_eq_true, decide_eq_true_eq, List.all_eq_true, List.mem_range] at hconf
    refine ⟨hconf.1.1, ?_⟩
    intro j hj
    obtain ⟨_, _, e3⟩ := e hconf.1.1
    obtain ⟨h1, h2, h3, h4⟩ := L.strm j hj
    have A := add_spec (s.strm j).n ((v : Int) - s.init) ⟨h2, h3⟩ (by omega)
    have hwj := hconf.2 j (by rw [L.count]; exact tracked_lt _ _ hj)
    rw [L.init, ← e3 j hj] at hwj
    have hacc : (add (s.strm j).n ((v : Int) - s.init)).2 = true := A.1.2 (by omega)
    refine ⟨hacc, ?_⟩
    rw [A.2.1 hacc, L.init, e3 j hj]
  have concl : ∀ s' : St, s'.closed = false → s'.side = s.side → s'.cn = s.cn → s'.count = s.count →
      s'.trace = s.trace ++ [Obs.sInit v] →
      s'.strm = (fun j => if tracked s j then { s.strm j with n := (add (s.strm j).n ((v : Int) - s.init)).1 } else s.strm j) →
      Exact s' := by
    intro s' c1 c0 c2 c3 c4 c5 hconf
    rw [c4] at hconf ⊢
    obtain ⟨hc0, hk⟩ := key hconf
    obtain ⟨_, e2, _⟩ := e hc0
    simp only [peerOf_snoc, peerStep]
    refine ⟨c1, by rw [c2, e2], ?_⟩
    intro j hj
    have htj : tracked s j = true := by
      rw [← hj]; symm; apply tracked_congr _ _ _ c0 c3
      rw [c5]; simp only []; split <;> rfl
    have hpj : j < (peerOf s.trace).count := by rw [L.count]; exact tracked_lt _ _ htj
    rw [c5]
    simp only [htj, hpj, if_true]
    exact (hk j htj).2
  cases hside : s.side
  · simp only []
    exact concl _ rfl hside.symm rfl rfl rfl rfl
  · simp only []
    split
    · rename_i hfail
      intro hconf
      exfalso
      simp only [peerOf_snoc2, peerStep] at hconf
      have hconf' : (peerOf (s.trace ++ [Obs.sInit v])).conformant = true := by
        simp only [peerOf_snoc, peerStep]; exact hconf
      obtain ⟨_, hk⟩ := key hconf'
      simp only [List.any_eq_true, List.mem_range, Bool.and_eq_true, Bool.not_eq_true'] at hfail
      obtain ⟨j, hj, htj, hf⟩ := hfail
      have := (hk j htj).1
      simp [hf] at this
    · exact concl _ rfl hside.symm rfl rfl rfl rfl

theorem exact_setMaxFrame (s : St) (v : Nat) (h : Inv s) (e : Exact s) :
    Exact (step s (.setMaxFrame v)) := by
  simp only [step]
  by_cases hc : s.closed = true
  · simp [hc]; exact e
  have hc : s.closed = false := by simpa using hc
  simp only [hc, h.nopanic, Bool.or_false, Bool.false_eq_true, if_false]
  cases hside : s.side
  · simp only []
    split   -- [c08l9] the client validates too
    · rename_i hbad
      intro hconf
      simp only [peerOf_snoc2, peerStep, Bool.and_eq_true, decide_eq_true_eq] at hconf
      simp only [Bool.or_eq_true, decide_eq_true_eq] at hbad
      omega
    · intro hconf
      simp only [peerOf_snoc, peerStep, Bool.and_eq_true, decide_eq_true_eq] at hconf ⊢
      obtain ⟨_, e2, e3⟩ := e hconf.1.1
      refine ⟨trivial, e2, ?_⟩
      intro j hj
      exact e3 j (by rw [← hj]; symm; apply tracked_congr <;> simp [hside])
  · simp only []
    split
    · rename_i hbad
      intro hconf
      simp only [peerOf_snoc2, peerStep, Bool.and_eq_true, decide_eq_true_eq] at hconf
      simp only [Bool.or_eq_true, decide_eq_true_eq] at hbad
      omega
    · intro hconf
      simp only [peerOf_snoc, peerStep, Bool.and_eq_true, decide_eq_true_eq] at hconf ⊢
      obtain ⟨_, e2, e3⟩ := e hconf.1.1
      refine ⟨trivial, e2, ?_⟩
      intro j hj
      exact e3 j (by rw [← hj]; symm; apply tracked_congr <;> simp [hside])

theorem exact_step (s : St) (l : Label) (hw : l.wf = true) (h : Inv s) (e : Exact s) : Exact (step s l) := by
  cases l with
  | openStream len => exact exact_open s len h e
  | send i => exact exact_send s i h e
  | wuStream i inc => exact exact_wuStream s i inc hw h e
  | wuConn inc => exact exact_wuConn s inc hw h e
  | setInit v => exact exact_setInit s v hw h e
  | setMaxFrame v => exact exact_setMaxFrame s v h e

theorem exact_run (s : St) (sched : List Label) (hw : ∀ l ∈ sched, l.wf = true) (h : Inv s) (e : Exact s) :
    Exact (run s sched) := by
  induction sched generalizing s with
  | nil => exact e
  | cons l r ih =>
    simp only [run, List.foldl_cons]
    exact ih (step s l) (fun l' hl' => hw l' (List.mem_cons_of_mem _ hl')) (inv_step s l (hw l (List.mem_cons_self)) h)
      (exact_step s l (hw l (List.mem_cons_self)) h e)

/-- a schedule used by the non-vacuity examples of Props/C18: two streams, an initial window of 0, shrinking and
growing SETTINGS, a larger max frame size -/
def demoSchedule : List Label :=
  [.setInit 0, .openStream 70000, .send 0, .wuStream 0 20000, .send 0, .send 0, .setMaxFrame 32768, .setInit 30000,
   .openStream 10, .send 1, .send 0, .send 0, .wuStream 0 20000, .send 0, .send 0, .wuConn 100000, .send 0, .send 0]

end MosnVerif.Lemmas.Flow
