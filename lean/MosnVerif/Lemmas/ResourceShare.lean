import MosnVerif.Model.ResourceShare
/-! Lemmas for `Model/ResourceShare.lean` (C10, builder c10p10): the object graph under the REGENERATED programs `Code.gen`. -/
namespace MosnVerif.Model.ResourceShare
open MosnVerif.Gen.ResourceShare

theorem V4.get_set {α : Type} (v : V4 α) (r r' : Res) (a : α) : (v.set r a).get r' = if r' = r then a else v.get r' := by
  cases r <;> cases r' <;> simp [V4.set, V4.get]

theorem V4.get_const {α : Type} (a : α) (r : Res) : (V4.const a).get r = a := by
  cases r <;> rfl

theorem upd_same {α : Type} (f : Nat → α) (k : Nat) (v : α) : upd f k v k = v := by simp [upd]
theorem upd_ne {α : Type} (f : Nat → α) (k x : Nat) (v : α) (h : x ≠ k) : upd f k v x = f x := by simp [upd, h]

/-! ## the regenerated `Resource` operations -/

theorem incr_max (m : Mgr) (r : Res) : (incr m r).max = m.max := rfl
theorem decr_max (m : Mgr) (r : Res) : (decr m r).max = m.max := rfl

theorem incr_cur (m : Mgr) (r r' : Res) :
    (incr m r).cur.get r' = if r' = r then (if m.max.get r = 0 then m.cur.get r else m.cur.get r + 1) else m.cur.get r' := by
  simp only [incr, V4.get_set, MosnVerif.Gen.Resource.increase]
  by_cases h : r' = r
  · by_cases h0 : m.max.get r = 0 <;> simp [h, h0]
  · simp [h]

theorem decr_cur (m : Mgr) (r r' : Res) :
    (decr m r).cur.get r' = if r' = r then (if m.max.get r = 0 then m.cur.get r else m.cur.get r - 1) else m.cur.get r' := by
  simp only [decr, V4.get_set, MosnVerif.Gen.Resource.decrease]
  by_cases h : r' = r
  · by_cases h0 : m.max.get r = 0
    · simp [h, h0]
    · simp [h, h0]; omega
  · simp [h]

/-- `CanCreate()`: unlimited, or a negative counter, or below the threshold -/
theorem canCreate_iff (m : Mgr) (r : Res) :
    canCreate m r = true ↔ (m.max.get r = 0 ∨ m.cur.get r < 0 ∨ m.cur.get r < (m.max.get r : Nat)) := by
  simp only [canCreate, MosnVerif.Gen.Resource.canCreate]
  by_cases h0 : m.max.get r = 0
  · simp [h0]
  · by_cases h1 : m.cur.get r < 0
    · simp [h0, h1]
    · simp [h0, h1]

/-! ## holders -/

theorem count_append (r : Res) (l : List Holder) (h : Holder) :
    count r (l ++ [h]) = count r l + (if h.res = r then 1 else 0) := by
  induction l with
  | nil => simp [count]
  | cons a l ih => simp [count, ih]; omega

theorem findId_mem {id : Nat} {l : List Holder} {h : Holder} (hf : findId id l = some h) : h ∈ l := by
  induction l with
  | nil => simp [findId] at hf
  | cons a l ih =>
    simp only [findId] at hf
    by_cases ha : a.id = id
    · simp [ha] at hf; simp [hf]
    · simp [ha] at hf; exact List.mem_cons_of_mem _ (ih hf)

theorem count_removeId (r : Res) {id : Nat} {l : List Holder} {h : Holder} (hf : findId id l = some h) :
    count r (removeId id l) + (if h.res = r then 1 else 0) = count r l := by
  induction l with
  | nil => simp [findId] at hf
  | cons a l ih =>
    simp only [findId] at hf
    by_cases ha : a.id = id
    · simp [ha] at hf
      subst hf
      simp [removeId, ha, count]; omega
    · simp [ha] at hf
      have := ih hf
      simp [removeId, ha, count]; omega

theorem mem_removeId {id : Nat} {l : List Holder} {x : Holder} (hx : x ∈ removeId id l) : x ∈ l := by
  induction l with
  | nil => simp [removeId] at hx
  | cons a l ih =>
    simp only [removeId] at hx
    by_cases ha : a.id = id
    · simp [ha] at hx; exact List.mem_cons_of_mem _ hx
    · simp [ha] at hx
      rcases hx with hx | hx
      · simp [hx]
      · exact List.mem_cons_of_mem _ (ih hx)

/-! ## the invariant of the regenerated programs: ONE manager object for the life of the cluster -/

structure Inv (s : State) : Prop where
  nm : 0 < s.nMgr
  im : ∀ i, i < s.nInfo → s.infoMgr i = 0
  cur : s.cur < s.nInfo
  hi : ∀ h, h < s.nHost → s.hostInfo h < s.nInfo
  hs : ∀ h, h ∈ s.hosts → h < s.nHost
  lv : ∀ hd, hd ∈ s.live → validPath s hd.rel = true

/-- the ledger: on the one manager, a limited resource counts exactly the live holders, an unlimited one is not counted -/
def Ledger (s : State) : Prop :=
  ∀ r, (s.mgr 0).cur.get r = if (s.mgr 0).max.get r = 0 then 0 else (count r s.live : Int)

/-- the gauges count the live holders, limited or not -/
def Gauges (s : State) : Prop := ∀ r, s.gauge.get r = (count r s.live : Int)

theorem inv_init (thr : Thr) (n : Nat) : Inv (init thr n) :=
  ⟨by simp [init], by simp [init], by simp [init], by simp [init], by simp [init], by simp [init]⟩

theorem ledger_init (thr : Thr) (n : Nat) : Ledger (init thr n) := by
  intro r; simp [init, count, V4.get_const]

theorem gauges_init (thr : Thr) (n : Nat) : Gauges (init thr n) := by
  intro r; simp [init, count, V4.get_const]

theorem mgrOf_valid {s : State} (hi : Inv s) {p : Path} (hv : validPath s p = true) : mgrOf s p = 0 := by
  cases p with
  | info i => simp [validPath] at hv; simp [mgrOf, hi.im i hv]
  | host h => simp [validPath] at hv; simp [mgrOf, hi.im _ (hi.hi h hv)]

theorem curMgr_eq {s : State} (hi : Inv s) : curMgr s = s.mgr 0 := by
  simp [curMgr, hi.im _ hi.cur]

/-! ### admission -/

theorem admit_false {s : State} {id : Nat} {r : Res} {t p : Path} (h : (acquire s id r t p).2 = false) : (acquire s id r t p).1 = s := by
  unfold acquire at *
  by_cases hv : (validPath s t && validPath s p) = true
  · simp only [hv, if_true] at h ⊢
    by_cases hc : canCreate (s.mgr (mgrOf s t)) r = true
    · simp [hc] at h
    · simp [hc]
  · simp [hv]

theorem admit_true {s : State} (hi : Inv s) {id : Nat} {r : Res} {t p : Path} (h : (acquire s id r t p).2 = true) :
    validPath s p = true ∧ canCreate (s.mgr 0) r = true ∧
    (acquire s id r t p).1 =
      { s with mgr := upd s.mgr 0 (incr (s.mgr 0) r), live := s.live ++ [⟨id, r, p⟩],
               gauge := s.gauge.set r (s.gauge.get r + 1) } := by
  unfold acquire at *
  by_cases hv : (validPath s t && validPath s p) = true
  · have hv' := hv
    simp only [Bool.and_eq_true] at hv'
    have hm := mgrOf_valid hi hv'.1
    simp only [hv, if_true, hm] at h ⊢
    by_cases hc : canCreate (s.mgr 0) r = true
    · simp [hc, hv'.2]
    · simp [hc] at h
  · simp [hv] at h

/-- an admission is refused exactly when `CanCreate()` of the one manager says so (valid paths) -/
theorem admit_outcome {s : State} (hi : Inv s) (id : Nat) (r : Res) {t p : Path} (ht : validPath s t = true) (hp : validPath s p = true) :
    (acquire s id r t p).2 = canCreate (s.mgr 0) r := by
  unfold acquire
  simp [ht, hp, mgrOf_valid hi ht]
  by_cases hc : canCreate (s.mgr 0) r = true <;> simp [hc]

theorem inv_admit {s : State} (hi : Inv s) (id : Nat) (r : Res) (t p : Path) : Inv (acquire s id r t p).1 := by
  cases hb : (acquire s id r t p).2 with
  | false => rw [admit_false hb]; exact hi
  | true =>
    obtain ⟨hv, _, he⟩ := admit_true hi hb
    rw [he]
    refine ⟨hi.nm, hi.im, hi.cur, hi.hi, hi.hs, ?_⟩
    intro hd hm
    simp only [List.mem_append, List.mem_singleton] at hm
    rcases hm with hm | hm
    · exact hi.lv hd hm
    · subst hm; cases p <;> simpa [validPath] using hv

theorem ledger_admit {s : State} (hi : Inv s) (hl : Ledger s) (id : Nat) (r : Res) (t p : Path) : Ledger (acquire s id r t p).1 := by
  cases hb : (acquire s id r t p).2 with
  | false => rw [admit_false hb]; exact hl
  | true =>
    obtain ⟨_, _, he⟩ := admit_true hi hb
    rw [he]
    intro r'
    simp only [upd_same, incr_max, incr_cur, count_append]
    have := hl r'
    by_cases hr : r' = r
    · subst hr
      by_cases h0 : (s.mgr 0).max.get r' = 0
      · simp [h0] at this ⊢; exact this
      · simp [h0] at this ⊢; omega
    · have hr' : ¬ r = r' := fun h => hr h.symm
      simp [hr, hr']; exact this

theorem gauges_admit {s : State} (hi : Inv s) (hg : Gauges s) (id : Nat) (r : Res) (t p : Path) : Gauges (acquire s id r t p).1 := by
  cases hb : (acquire s id r t p).2 with
  | false => rw [admit_false hb]; exact hg
  | true =>
    obtain ⟨_, _, he⟩ := admit_true hi hb
    rw [he]
    intro r'
    simp only [V4.get_set, count_append]
    have := hg r'
    by_cases hr : r' = r
    · subst hr; simp; omega
    · have hr' : ¬ r = r' := fun h => hr h.symm
      simp [hr, hr']; exact this

/-! ### release -/

theorem release_eq {s : State} (hi : Inv s) {id : Nat} {h : Holder} (hf : findId id s.live = some h) :
    release s id = { s with mgr := upd s.mgr 0 (decr (s.mgr 0) h.res), live := removeId id s.live,
                            gauge := s.gauge.set h.res (s.gauge.get h.res - 1) } := by
  have hm := mgrOf_valid hi (hi.lv h (findId_mem hf))
  simp [release, hf, hm]

theorem release_none {s : State} {id : Nat} (hf : findId id s.live = none) : release s id = s := by
  simp [release, hf]

theorem inv_release {s : State} (hi : Inv s) (id : Nat) : Inv (release s id) := by
  cases hf : findId id s.live with
  | none => rw [release_none hf]; exact hi
  | some h =>
    rw [release_eq hi hf]
    exact ⟨hi.nm, hi.im, hi.cur, hi.hi, hi.hs, fun hd hm => hi.lv hd (mem_removeId hm)⟩

theorem ledger_release {s : State} (hi : Inv s) (hl : Ledger s) (id : Nat) : Ledger (release s id) := by
  cases hf : findId id s.live with
  | none => rw [release_none hf]; exact hl
  | some h =>
    rw [release_eq hi hf]
    intro r'
    simp only [upd_same, decr_max, decr_cur]
    have := hl r'
    have hc := count_removeId r' hf
    by_cases hr : r' = h.res
    · subst hr
      by_cases h0 : (s.mgr 0).max.get h.res = 0
      · simp [h0] at this ⊢; exact this
      · simp [h0] at this hc ⊢; omega
    · have hr' : ¬ h.res = r' := fun e => hr e.symm
      simp [hr, hr'] at hc ⊢; rw [hc]; exact this

theorem gauges_release {s : State} (hi : Inv s) (hg : Gauges s) (id : Nat) : Gauges (release s id) := by
  cases hf : findId id s.live with
  | none => rw [release_none hf]; exact hg
  | some h =>
    rw [release_eq hi hf]
    intro r'
    simp only [V4.get_set]
    have := hg r'
    have hc := count_removeId r' hf
    by_cases hr : r' = h.res
    · subst hr; simp at hc ⊢; omega
    · have hr' : ¬ h.res = r' := fun e => hr e.symm
      simp [hr, hr'] at hc ⊢; rw [hc]; exact this

/-! ### update: the regenerated handler chain, evaluated on a symbolic state -/

section update
variable (s : State) (p : Bool) (thr : Thr) (st : Bool) (n : Nat)

theorem update_gen_mgr0 (hi : Inv s) : (update Code.gen s p thr st n).mgr 0 = ⟨thr, (s.mgr 0).cur⟩ := by
  have hc := hi.im _ hi.cur
  have h1 : s.cur ≠ s.nInfo := Nat.ne_of_lt hi.cur
  have h2 : s.nMgr ≠ 0 := Nat.ne_of_gt hi.nm
  have h3 : (0 : Nat) ≠ s.nMgr := Nat.ne_of_lt hi.nm
  cases thr
  cases p <;>
  simp [update, Code.gen, handler, stores, primaryChain, andHostChain, runStep, runActs, HV.set, HV.get, sideInfo, runStores, runStore,
    formalObj, fldGet, fldSet, List.foldl, upd, h1, h2, h3, hc, V4.set, V4.get]

theorem update_gen_infoMgr (hi : Inv s) (i : Nat) :
    (update Code.gen s p thr st n).infoMgr i = if i = s.nInfo then 0 else s.infoMgr i := by
  have hc := hi.im _ hi.cur
  have h1 : s.cur ≠ s.nInfo := Nat.ne_of_lt hi.cur
  cases p <;>
  simp [update, Code.gen, handler, stores, primaryChain, andHostChain, runStep, runActs, HV.set, HV.get, sideInfo, List.foldl, upd, h1, hc] <;>
  (by_cases h : i = s.nInfo <;> simp [h])

theorem update_gen_counts :
    (update Code.gen s p thr st n).nMgr = s.nMgr + 1 ∧ (update Code.gen s p thr st n).nInfo = s.nInfo + 1 ∧
    (update Code.gen s p thr st n).cur = s.nInfo ∧ (update Code.gen s p thr st n).live = s.live ∧
    (update Code.gen s p thr st n).gauge = s.gauge := by
  cases p <;>
  simp [update, Code.gen, handler, stores, primaryChain, andHostChain, runStep, runActs, HV.set, HV.get, sideInfo, List.foldl]

theorem update_gen_hosts_primary :
    (update Code.gen s true thr st n).nHost = s.nHost ∧ (update Code.gen s true thr st n).hosts = s.hosts ∧
    (update Code.gen s true thr st n).hostInfo = fun h => if s.hosts.contains h then s.nInfo else s.hostInfo h := by
  simp [update, Code.gen, handler, stores, primaryChain, runStep, runActs, HV.set, HV.get, sideInfo, List.foldl]

theorem update_gen_hosts_andHost :
    (update Code.gen s false thr st n).nHost = s.nHost + n ∧ (update Code.gen s false thr st n).hosts = List.range' s.nHost n ∧
    (update Code.gen s false thr st n).hostInfo = fun h => if (s.nHost ≤ h ∧ h < s.nHost + n) then s.nInfo else s.hostInfo h := by
  simp [update, Code.gen, handler, stores, andHostChain, runStep, runActs, HV.set, HV.get, sideInfo, List.foldl]
  funext h
  by_cases hc : (s.nHost ≤ h ∧ h < s.nHost + n) <;> simp [hc]

theorem inv_update (hi : Inv s) : Inv (update Code.gen s p thr st n) := by
  obtain ⟨e1, e2, e3, e4, _⟩ := update_gen_counts s p thr st n
  refine ⟨by omega, ?_, by omega, ?_, ?_, ?_⟩
  · intro i hlt
    rw [update_gen_infoMgr s p thr st n hi]
    by_cases h : i = s.nInfo
    · simp [h]
    · simp [h]; exact hi.im i (by omega)
  · intro h hlt
    rw [e2]
    cases p with
    | true =>
      obtain ⟨a, _, c⟩ := update_gen_hosts_primary s thr st n
      rw [c]; rw [a] at hlt
      by_cases hc : h ∈ s.hosts
      · simp [hc]
      · simp [hc]; exact Nat.lt_succ_of_lt (hi.hi h hlt)
    | false =>
      obtain ⟨a, _, c⟩ := update_gen_hosts_andHost s thr st n
      rw [c]; rw [a] at hlt
      by_cases hc : (s.nHost ≤ h ∧ h < s.nHost + n)
      · simp [hc]
      · simp [hc]
        have : h < s.nHost := by omega
        exact Nat.lt_succ_of_lt (hi.hi h this)
  · intro h hm
    cases p with
    | true =>
      obtain ⟨a, b, _⟩ := update_gen_hosts_primary s thr st n
      rw [a]; rw [b] at hm; exact hi.hs h hm
    | false =>
      obtain ⟨a, b, _⟩ := update_gen_hosts_andHost s thr st n
      rw [a]; rw [b] at hm
      have := List.mem_range'_1.mp hm
      omega
  · intro hd hm
    rw [e4] at hm
    have hv := hi.lv hd hm
    cases hr : hd.rel with
    | info i => rw [hr] at hv; simp [validPath] at hv ⊢; omega
    | host h =>
      rw [hr] at hv; simp [validPath] at hv ⊢
      cases p with
      | true => rw [(update_gen_hosts_primary s thr st n).1]; exact hv
      | false => rw [(update_gen_hosts_andHost s thr st n).1]; omega

theorem gauges_update (hg : Gauges s) : Gauges (update Code.gen s p thr st n) := by
  obtain ⟨_, _, _, e4, e5⟩ := update_gen_counts s p thr st n
  intro r; rw [e4, e5]; exact hg r

theorem ledger_update (hi : Inv s) (hl : Ledger s) (hz : zeroStableOp s (.update p thr st n) = true) :
    Ledger (update Code.gen s p thr st n) := by
  obtain ⟨_, _, _, e4, _⟩ := update_gen_counts s p thr st n
  intro r
  rw [update_gen_mgr0 s p thr st n hi, e4]
  have hlr := hl r
  simp only [zeroStableOp, allRes, List.all_cons, List.all_nil, Bool.and_true, Bool.and_eq_true, curMgr_eq hi] at hz
  have hzr : (count r s.live == 0 || (((s.mgr 0).max.get r == 0) == (thr.get r == 0))) = true := by
    cases r
    · exact hz.1
    · exact hz.2.1
    · exact hz.2.2.1
    · exact hz.2.2.2
  simp only [Bool.or_eq_true, beq_iff_eq] at hzr
  show (s.mgr 0).cur.get r = if thr.get r = 0 then 0 else (count r s.live : Int)
  rcases hzr with h0 | heq
  · rw [h0] at hlr ⊢
    simp at hlr ⊢; exact hlr
  · by_cases ho : (s.mgr 0).max.get r = 0
    · have : thr.get r = 0 := by simpa [ho] using heq
      simp [ho] at hlr; simp [this, hlr]
    · have : ¬ thr.get r = 0 := by
        intro ht; simp [ho, ht] at heq
      simp [ho] at hlr; simp [this, hlr]

end update

/-! ### every history -/

theorem inv_step {s : State} (hi : Inv s) (op : Op) : Inv (step Code.gen s op) := by
  cases op with
  | acquire id r t p => exact inv_admit hi id r t p
  | release id => exact inv_release hi id
  | update p thr st n => exact inv_update s p thr st n hi

theorem gauges_step {s : State} (hi : Inv s) (hg : Gauges s) (op : Op) : Gauges (step Code.gen s op) := by
  cases op with
  | acquire id r t p => exact gauges_admit hi hg id r t p
  | release id => exact gauges_release hi hg id
  | update p thr st n => exact gauges_update s p thr st n hg

theorem ledger_step {s : State} (hi : Inv s) (hl : Ledger s) (op : Op) (hz : zeroStableOp s op = true) : Ledger (step Code.gen s op) := by
  cases op with
  | acquire id r t p => exact ledger_admit hi hl id r t p
  | release id => exact ledger_release hi hl id
  | update p thr st n => exact ledger_update s p thr st n hi hl hz

theorem reach (s : State) (ops : List Op) (hi : Inv s) (hl : Ledger s) (hg : Gauges s) (hz : zeroStable Code.gen s ops = true) :
    Inv (run Code.gen s ops) ∧ Ledger (run Code.gen s ops) ∧ Gauges (run Code.gen s ops) := by
  induction ops generalizing s with
  | nil => exact ⟨hi, hl, hg⟩
  | cons op r ih =>
    simp only [zeroStable, Bool.and_eq_true] at hz
    exact ih (step Code.gen s op) (inv_step hi op) (ledger_step hi hl op hz.1) (gauges_step hi hg op) hz.2

/-- without the zero-stability hypothesis: the object graph and the gauges (not the breaker ledger) -/
theorem reach_inv (s : State) (ops : List Op) (hi : Inv s) (hg : Gauges s) :
    Inv (run Code.gen s ops) ∧ Gauges (run Code.gen s ops) := by
  induction ops generalizing s with
  | nil => exact ⟨hi, hg⟩
  | cons op r ih => exact ih (step Code.gen s op) (inv_step hi op) (gauges_step hi hg op)

end MosnVerif.Model.ResourceShare
