import MosnVerif.Model.Reencode
/-! invariants of the re-encode model (`Model/Reencode.lean`) -/
namespace MosnVerif.Model.Reencode
open MosnVerif.Model MosnVerif.Gen.C01Retain

/-- the frame's buffer holds the frame's bytes, possibly with an id patched in -/
def Own (patch : Nat → Bytes → Bytes) (raw b : Bytes) : Prop := b = raw ∨ ∃ i, b = patch i raw

/-- the decoded frame still owns a reference to its buffer: the buffer is neither pooled nor anybody else's -/
structure Good (patch : Nat → Bytes → Bytes) (raw : Bytes) (s : St) : Prop where
  dlt   : s.data < s.next
  dpool : s.data ∉ s.pool
  dheld : s.data ∉ s.held
  plt   : ∀ x ∈ s.pool, x < s.next
  hlt   : ∀ x ∈ s.held, x < s.next
  cnt   : 1 ≤ (s.bufs s.data).count
  byt   : Own patch raw (s.bufs s.data).bytes

/-- pool and held buffers are identities that exist -/
structure Wf (s : St) : Prop where
  plt : ∀ x ∈ s.pool, x < s.next
  hlt : ∀ x ∈ s.held, x < s.next

theorem updB_ne {f : Nat → Buf} {w i : Nat} {b : Buf} (h : i ≠ w) : updB f w b i = f i := by simp [updB, h]
theorem updB_self {f : Nat → Buf} {w : Nat} {b : Buf} : updB f w b w = b := by simp [updB]

theorem get_spec (s : St) (c : Option Nat) (f : Bytes) (hp : ∀ x ∈ s.pool, x < s.next) :
    ((get s c f).2 ∈ s.pool ∨ (get s c f).2 = s.next) ∧
    (get s c f).1.data = s.data ∧ (get s c f).1.sent = s.sent ∧ (get s c f).1.held = s.held ∧
    ((get s c f).1.bufs (get s c f).2).bytes = f ∧
    (∀ i, i ≠ (get s c f).2 → (get s c f).1.bufs i = s.bufs i) ∧
    (∀ x ∈ (get s c f).1.pool, x ∈ s.pool) ∧ s.next ≤ (get s c f).1.next ∧ (get s c f).2 < (get s c f).1.next := by
  unfold get
  cases h : c.bind (fun i => s.pool[i]?) with
  | none =>
    exact ⟨Or.inr rfl, rfl, rfl, rfl, by show (updB _ _ _ _).bytes = f; rw [updB_self], fun i hi => updB_ne hi,
      fun x hx => hx, Nat.le_succ _, Nat.lt_succ_self _⟩
  | some w =>
    have hw : w ∈ s.pool := by
      cases c with
      | none => simp at h
      | some i => exact List.mem_of_getElem? (by simpa using h)
    exact ⟨Or.inl hw, rfl, rfl, rfl, by show (updB _ _ _ _).bytes = f; rw [updB_self], fun i hi => updB_ne hi,
      fun x hx => List.mem_of_mem_erase hx, Nat.le_refl _, hp w hw⟩

theorem get_good {patch : Nat → Bytes → Bytes} {raw : Bytes} {s : St} (c : Option Nat) (f : Bytes) (hg : Good patch raw s) :
    Good patch raw (get s c f).1 ∧ (get s c f).2 ≠ s.data ∧ (get s c f).2 < (get s c f).1.next := by
  obtain ⟨hw, hd, _, hh, _, hb, hpool, hn, hlt⟩ := get_spec s c f hg.plt
  have hne : (get s c f).2 ≠ s.data := by
    rcases hw with hw | hw
    · exact fun e => hg.dpool (e ▸ hw)
    · rw [hw]; exact (Nat.ne_of_lt hg.dlt).symm
  refine ⟨⟨?_, ?_, ?_, ?_, ?_, ?_, ?_⟩, hne, hlt⟩
  · rw [hd]; exact Nat.lt_of_lt_of_le hg.dlt hn
  · rw [hd]; exact fun h => hg.dpool (hpool _ h)
  · rw [hd, hh]; exact hg.dheld
  · exact fun x hx => Nat.lt_of_lt_of_le (hg.plt x (hpool x hx)) hn
  · rw [hh]; exact fun x hx => Nat.lt_of_lt_of_le (hg.hlt x hx) hn
  · rw [hd, hb _ hne.symm]; exact hg.cnt
  · rw [hd, hb _ hne.symm]; exact hg.byt

theorem put_good {patch : Nat → Bytes → Bytes} {raw : Bytes} {s : St} {w : Nat} (hg : Good patch raw s)
    (hne : w ≠ s.data) (hlt : w < s.next) :
    Good patch raw (put s w) ∧ (put s w).sent = s.sent ∧ (put s w).data = s.data := by
  unfold put
  by_cases hc : (s.bufs w).count - 1 = 0
  · rw [if_pos hc]
    refine ⟨⟨hg.dlt, ?_, hg.dheld, ?_, hg.hlt, ?_, ?_⟩, rfl, rfl⟩
    · intro h
      rcases List.mem_cons.mp h with h | h
      · exact hne h.symm
      · exact hg.dpool h
    · intro x hx
      rcases List.mem_cons.mp hx with h | h
      · rw [h]; exact hlt
      · exact hg.plt x h
    · show 1 ≤ (updB s.bufs w _ s.data).count
      rw [updB_ne hne.symm]; exact hg.cnt
    · show Own patch raw (updB s.bufs w _ s.data).bytes
      rw [updB_ne hne.symm]; exact hg.byt
  · rw [if_neg hc]
    refine ⟨⟨hg.dlt, hg.dpool, hg.dheld, hg.plt, hg.hlt, ?_, ?_⟩, rfl, rfl⟩
    · show 1 ≤ (updB s.bufs w _ s.data).count
      rw [updB_ne hne.symm]; exact hg.cnt
    · show Own patch raw (updB s.bufs w _ s.data).bytes
      rw [updB_ne hne.symm]; exact hg.byt

theorem other_good {patch : Nat → Bytes → Bytes} {raw : Bytes} {s : St} (o : Other) (hg : Good patch raw s) :
    Good patch raw (other s o) ∧ (other s o).sent = s.sent ∧ (other s o).data = s.data := by
  cases o with
  | get c f =>
    obtain ⟨hg', hne, hlt⟩ := get_good (patch := patch) (raw := raw) c f hg
    obtain ⟨_, hd, hs, _⟩ := get_spec s c f hg.plt
    refine ⟨⟨hg'.dlt, hg'.dpool, ?_, hg'.plt, ?_, hg'.cnt, hg'.byt⟩, hs, hd⟩
    · intro h
      rcases List.mem_cons.mp h with h | h
      · exact hne (by rw [← hd]; exact h.symm)
      · exact hg'.dheld h
    · intro x hx
      rcases List.mem_cons.mp hx with h | h
      · rw [h]; exact hlt
      · exact hg'.hlt x h
  | put j =>
    simp only [other]
    cases hj : s.held[j]? with
    | none => exact ⟨hg, rfl, rfl⟩
    | some w =>
      have hw : w ∈ s.held := List.mem_of_getElem? hj
      have hg1 : Good patch raw { s with held := s.held.eraseIdx j } :=
        ⟨hg.dlt, hg.dpool, fun h => hg.dheld (List.mem_of_mem_eraseIdx h), hg.plt,
         fun x hx => hg.hlt x (List.mem_of_mem_eraseIdx hx), hg.cnt, hg.byt⟩
      exact put_good hg1 (fun e => hg.dheld (e ▸ hw)) (hg.hlt w hw)

theorem traffic_good {patch : Nat → Bytes → Bytes} {raw : Bytes} (t : List Other) {s : St} (hg : Good patch raw s) :
    Good patch raw (t.foldl other s) ∧ (t.foldl other s).sent = s.sent := by
  induction t generalizing s with
  | nil => exact ⟨hg, rfl⟩
  | cons o t ih =>
    obtain ⟨h1, h2, _⟩ := other_good (patch := patch) (raw := raw) o hg
    obtain ⟨h3, h4⟩ := ih h1
    exact ⟨h3, h4.trans h2⟩

theorem put_wf {s : St} {w : Nat} (hw : Wf s) (hlt : w < s.next) : Wf (put s w) := by
  unfold put
  by_cases hc : (s.bufs w).count - 1 = 0
  · rw [if_pos hc]
    refine ⟨?_, hw.hlt⟩
    intro x hx
    rcases List.mem_cons.mp hx with h | h
    · rw [h]; exact hlt
    · exact hw.plt x h
  · rw [if_neg hc]
    exact ⟨hw.plt, hw.hlt⟩

/-- traffic before the decode only needs well-formedness -/
theorem other_wf {s : St} (o : Other) (hw : Wf s) : Wf (other s o) := by
  cases o with
  | get c f =>
    obtain ⟨hm, _, _, hh, _, _, hpool, hn, hlt⟩ := get_spec s c f hw.plt
    refine ⟨fun x hx => Nat.lt_of_lt_of_le (hw.plt x (hpool x hx)) hn, ?_⟩
    intro x hx
    rcases List.mem_cons.mp hx with h | h
    · rw [h]; exact hlt
    · rw [hh] at h; exact Nat.lt_of_lt_of_le (hw.hlt x h) hn
  | put j =>
    simp only [other]
    cases hj : s.held[j]? with
    | none => exact hw
    | some w =>
      have hwm : w ∈ s.held := List.mem_of_getElem? hj
      have h1 : Wf { s with held := s.held.eraseIdx j } :=
        ⟨hw.plt, fun x hx => hw.hlt x (List.mem_of_mem_eraseIdx hx)⟩
      exact put_wf h1 (hw.hlt w hwm)

theorem pre_wf (pre : List Other) {s : St} (hw : Wf s) : Wf (pre.foldl other s) := by
  induction pre generalizing s with
  | nil => exact hw
  | cons o t ih => exact ih (other_wf o hw)

theorem decode_good (patch : Nat → Bytes → Bytes) (raw : Bytes) {s : St} (hw : Wf s) :
    Good patch raw (decode s raw) ∧ (decode s raw).sent = s.sent := by
  refine ⟨⟨Nat.lt_succ_self _, fun h => Nat.lt_irrefl _ (hw.plt _ h), fun h => Nat.lt_irrefl _ (hw.hlt _ h),
    fun x hx => Nat.lt_succ_of_lt (hw.plt x hx), fun x hx => Nat.lt_succ_of_lt (hw.hlt x hx), ?_, ?_⟩, rfl⟩
  · show 1 ≤ (updB s.bufs s.next _ s.next).count
    rw [updB_self]; exact Int.le_refl _
  · show Own patch raw (updB s.bufs s.next _ s.next).bytes
    rw [updB_self]; exact Or.inl rfl

theorem own_patch {patch : Nat → Bytes → Bytes} {raw b : Bytes} (hp : ∀ a c x, patch a (patch c x) = patch a x)
    (h : Own patch raw b) (id : Nat) : patch id b = patch id raw := by
  rcases h with h | ⟨i, h⟩
  · rw [h]
  · rw [h, hp]

/-- one (re)try under a policy that keeps the frame's reference (or builds a buffer of its own): the bytes on the
wire are the frame with this try's id, and the frame still owns its buffer -/
theorem round_good {pol : Ret} (hpol : pol ≠ .bare) (rc : Bool) {patch : Nat → Bytes → Bytes}
    (hp : ∀ a c x, patch a (patch c x) = patch a x) {raw : Bytes} {s : St} (r : Round) (hg : Good patch raw s) :
    Good patch raw (round pol rc patch raw s r) ∧ (round pol rc patch raw s r).sent = s.sent ++ [patch r.id raw] := by
  cases pol with
  | bare => exact absurd rfl hpol
  | retain =>
    simp only [round, encode, updB_self]
    rw [own_patch hp hg.byt]
    -- the state after encode + write
    have hcnt : (s.bufs s.data).count + 1 - 1 ≠ 0 := by have := hg.cnt; omega
    have key : ∀ (s3 : St), s3.data = s.data → s3.next = s.next → s3.pool = s.pool → s3.held = s.held →
        1 ≤ (s3.bufs s.data).count → (s3.bufs s.data).bytes = patch r.id raw → Good patch raw s3 := by
      intro s3 h1 h2 h3 h4 h5 h6
      exact ⟨by rw [h1, h2]; exact hg.dlt, by rw [h1, h3]; exact hg.dpool, by rw [h1, h4]; exact hg.dheld,
        by rw [h2, h3]; exact hg.plt, by rw [h2, h4]; exact hg.hlt, by rw [h1]; exact h5, by rw [h1, h6]; exact Or.inr ⟨_, rfl⟩⟩
    cases rc with
    | false =>
      simp only [Bool.false_eq_true, if_false]
      have hg3 := key { s with bufs := updB s.bufs s.data ⟨(s.bufs s.data).count + 1, patch r.id raw⟩,
                               sent := s.sent ++ [patch r.id raw] } rfl rfl rfl rfl
        (by show 1 ≤ (updB s.bufs s.data _ s.data).count; rw [updB_self]; have := hg.cnt; show (1:Int) ≤ _ + 1; omega)
        (by show (updB s.bufs s.data _ s.data).bytes = _; rw [updB_self])
      obtain ⟨h1, h2⟩ := traffic_good r.traffic hg3
      exact ⟨h1, h2⟩
    | true =>
      simp only [if_true, put, updB_self, hcnt, if_false]
      have hg3 := key { s with bufs := updB (updB s.bufs s.data ⟨(s.bufs s.data).count + 1, patch r.id raw⟩) s.data
                                  ⟨(s.bufs s.data).count + 1 - 1, patch r.id raw⟩,
                               sent := s.sent ++ [patch r.id raw] } rfl rfl rfl rfl
        (by show 1 ≤ (updB _ s.data _ s.data).count; rw [updB_self]; have := hg.cnt; show (1:Int) ≤ _ + 1 - 1; omega)
        (by show (updB _ s.data _ s.data).bytes = _; rw [updB_self])
      obtain ⟨h1, h2⟩ := traffic_good r.traffic hg3
      exact ⟨h1, h2⟩
  | fresh =>
    simp only [round, encode]
    obtain ⟨hg', hne, hlt⟩ := get_good (patch := patch) (raw := raw) r.choice (patch r.id raw) hg
    obtain ⟨_, hd, hs, _, hb, _⟩ := get_spec s r.choice (patch r.id raw) hg.plt
    rw [hb, hs]
    have hg2 : Good patch raw { (get s r.choice (patch r.id raw)).1 with sent := s.sent ++ [patch r.id raw] } :=
      ⟨hg'.dlt, hg'.dpool, hg'.dheld, hg'.plt, hg'.hlt, hg'.cnt, hg'.byt⟩
    cases rc with
    | false =>
      simp only [Bool.false_eq_true, if_false]
      obtain ⟨h1, h2⟩ := traffic_good r.traffic hg2
      exact ⟨h1, h2⟩
    | true =>
      simp only [if_true]
      obtain ⟨h3, h4, _⟩ := put_good hg2 (by show _ ≠ (get s r.choice (patch r.id raw)).1.data; rw [hd]; exact hne) hlt
      obtain ⟨h1, h2⟩ := traffic_good r.traffic h3
      exact ⟨h1, h2.trans h4⟩

theorem rounds_good {pol : Ret} (hpol : pol ≠ .bare) (rc : Bool) {patch : Nat → Bytes → Bytes}
    (hp : ∀ a c x, patch a (patch c x) = patch a x) {raw : Bytes} (rounds : List Round) {s : St} (hg : Good patch raw s) :
    (rounds.foldl (round pol rc patch raw) s).sent = s.sent ++ rounds.map (fun r => patch r.id raw) := by
  induction rounds generalizing s with
  | nil => simp
  | cons r rs ih =>
    obtain ⟨h1, h2⟩ := round_good hpol rc hp r hg
    simp only [List.foldl_cons, List.map_cons]
    rw [ih h1, h2, List.append_assoc]
    rfl

theorem pre_sent (pre : List Other) (s : St) : (pre.foldl other s).sent = s.sent := by
  induction pre generalizing s with
  | nil => rfl
  | cons o t ih =>
    rw [List.foldl_cons, ih]
    cases o with
    | get c f => simp only [other, get]; split <;> rfl
    | put j =>
      simp only [other]
      split
      · simp only [put]; split <;> rfl
      · rfl

end MosnVerif.Model.Reencode
