import MosnVerif.Model.TlsSds
/-!
Lemmas about `Model/TlsSds.lean`: the invariant of the provider state under every operation.
-/
namespace MosnVerif.Lemmas.TlsSds
open MosnVerif.Gen.TlsSds MosnVerif.Model.TlsSds

variable {κ σ : Type}

/-- the invariant: the context in force is built from the stored configuration and the stored secret -/
def Coherent (p : Prov κ σ) : Prop := p.ctx = p.secret.map (fun s => (p.config, s))

theorem rebuild_coherent (p : Prov κ σ) (h : p.secret = none → p.ctx = none) : Coherent (rebuild p) := by
  unfold rebuild Coherent
  cases hs : p.secret with
  | none => simp [updateNeedsFull, hs, h hs]
  | some s => simp [updateBuildsFromStoredConfig, hs]

theorem coherent_noctx (p : Prov κ σ) (h : Coherent p) : p.secret = none → p.ctx = none := by
  intro hs; rw [h, hs]; rfl

theorem step_coherent (p : Prov κ σ) (op : SOp κ σ) (h : Coherent p) : Coherent (step p op) := by
  cases op with
  | update cfg g =>
    simp only [step, updateConfigStores, updateConfigRebuilds, if_true]
    exact rebuild_coherent _ (coherent_noctx p h)
  | push s =>
    simp only [step, secretPushRebuilds, if_true]
    apply rebuild_coherent
    intro hs; simp at hs
  | pushEmpty =>
    simp only [step, secretPushRebuilds, if_true]
    exact rebuild_coherent _ (coherent_noctx p h)

theorem create_coherent (cfg0 : κ) (s0 : Option σ) (g : Bool) : Coherent (create cfg0 s0 g) := by
  unfold create
  simp only [step, updateConfigStores, updateConfigRebuilds, if_true]
  exact rebuild_coherent _ (fun _ => rfl)

theorem foldl_coherent (ops : List (SOp κ σ)) (p : Prov κ σ) (h : Coherent p) : Coherent (ops.foldl step p) := by
  induction ops generalizing p with
  | nil => exact h
  | cons op r ih => exact ih _ (step_coherent p op h)

theorem rebuild_config (p : Prov κ σ) : (rebuild p).config = p.config ∧ (rebuild p).secret = p.secret := by
  unfold rebuild
  cases hs : p.secret <;> simp [updateNeedsFull, updateBuildsFromStoredConfig, hs]

theorem step_fields (p : Prov κ σ) (op : SOp κ σ) :
    (step p op).config = (match op with | .update c _ => c | _ => p.config) ∧
    (step p op).secret = (match op with | .push s => some s | _ => p.secret) := by
  cases op <;> simp [step, updateConfigStores, updateConfigRebuilds, secretPushRebuilds, rebuild_config]

theorem foldl_fields (ops : List (SOp κ σ)) (p : Prov κ σ) :
    (ops.foldl step p).config = latestCfg p.config ops ∧ (ops.foldl step p).secret = latestSecret p.secret ops := by
  induction ops generalizing p with
  | nil => simp [latestCfg, latestSecret]
  | cons op r ih =>
    have hf := step_fields p op
    rw [List.foldl_cons]
    refine ⟨by rw [(ih _).1, hf.1]; cases op <;> simp [latestCfg], by rw [(ih _).2, hf.2]; cases op <;> simp [latestSecret]⟩

theorem create_fields (cfg0 : κ) (s0 : Option σ) (g : Bool) :
    (create cfg0 s0 g).config = cfg0 ∧ (create cfg0 s0 g).secret = s0 := by
  have := step_fields (⟨cfg0, s0, none⟩ : Prov κ σ) (.update cfg0 g)
  simpa [create] using this

end MosnVerif.Lemmas.TlsSds
