import MosnVerif.Model.HealthLoop
/-! Lemmas for C16 (growth): the checker loop with `checkID` advanced exactly when the next check is armed handles every
issued check exactly once with its own outcome, whatever late answers arrive. Core Lean only. -/
namespace MosnVerif.Model.HealthLoop
open MosnVerif.Model.HealthCheck (Result)

/-- the current source advances `checkID` only when arming the next check (stops compiling if the regenerated
bookkeeping changes) -/
theorem genPolicy_new : genPolicy = newPolicy := by rfl

/-- simulation relation between the loop (new policy) and the reference: the timers agree, a check in progress carries
the id the loop waits for, every hanging timed-out check carries a smaller id -/
def Sim (s : Loop) (r : Ref) : Prop :=
  s.armed = r.armed ∧ s.timeoutOn = r.busy ∧ s.check.isSome = r.busy ∧
  (∀ id, s.check = some id → id = s.checkID) ∧ (s.atTop = false → s.currentID = s.checkID) ∧
  (∀ z ∈ s.zombies, z < s.checkID) ∧ (r.armed = true → r.busy = false) ∧ s.log = r.log

theorem sim_init : Sim (Loop.init newPolicy) Ref.init := by
  simp [Sim, Loop.init, Ref.init, newPolicy]

theorem sim_step (s : Loop) (r : Ref) (ev : Ev) (h : Sim s r) : Sim (step newPolicy s ev) (refStep r ev) := by
  obtain ⟨cid, cur, atTop, armed, check, tmo, zs, log⟩ := s
  obtain ⟨ra, rb, rl⟩ := r
  obtain ⟨ha, ht, hc, hci, hcu, hz, he, hl⟩ := h
  simp only at ha ht hc hci hcu hz he hl
  subst ha ht hl
  cases ev with
  | issue =>
    cases armed <;> simp_all [Sim, step, refStep]
  | answer hv =>
    cases check with
    | none => simp_all [Sim, step, refStep]
    | some id =>
      have hid : id = cid := hci id rfl
      subst hid
      have hb : tmo = true := by simpa using hc.symm
      subst hb
      cases atTop
      · have := hcu rfl
        subst this
        simp [Sim, step, refStep, doTop, rearm, newPolicy]
        intro z hzm; have := hz z hzm; omega
      · simp [Sim, step, refStep, doTop, rearm, newPolicy]
        intro z hzm; have := hz z hzm; omega
  | timeout =>
    cases tmo with
    | false => simp_all [Sim, step, refStep]
    | true =>
      cases atTop <;> simp [Sim, step, refStep, doTop, rearm, newPolicy] <;>
      · intro z hzm
        rcases hzm with h1 | h2
        · have := hci z h1; omega
        · have := hz z h2; omega
  | late id hv =>
    by_cases hm : id ∈ zs
    · have hlt : id < cid := hz id hm
      cases atTop
      · have := hcu rfl
        subst this
        have hne : ¬ id = cur := by omega
        simp [Sim, step, refStep, doTop, hm, hne]
        refine ⟨hc, hci, fun z hzm => hz z (List.mem_of_mem_erase hzm), he⟩
      · have hne : ¬ id = cid := by omega
        simp [Sim, step, refStep, doTop, newPolicy, hm, hne]
        refine ⟨hc, hci, fun z hzm => hz z (List.mem_of_mem_erase hzm), he⟩
    · simp [Sim, step, refStep, hm]
      exact ⟨hc, hci, hcu, hz, he⟩
  | top =>
    cases atTop
    · simp [Sim, step, refStep, doTop]
      exact ⟨hc, hci, hcu rfl, hz, he⟩
    · simp [Sim, step, refStep, doTop, newPolicy]
      exact ⟨hc, hci, hz, he⟩

theorem sim_run (s : Loop) (r : Ref) (evs : List Ev) (h : Sim s r) : Sim (run newPolicy s evs) (refRun r evs) := by
  induction evs generalizing s r with
  | nil => exact h
  | cons e es ih => exact ih _ _ (sim_step s r e h)

end MosnVerif.Model.HealthLoop
