import MosnVerif.Model.StreamOnce
/-!
Invariant of the concurrent `ResetStream` / `DestroyStream` machine (`Model/StreamOnce.lean`), for every pair of step
programs of the class `good` (decidable; the regenerated programs are checked to be in it by `decide`):

* `DestroyStream` = neutral steps, then ONE compare-and-swap guard from the live state to a non-live state that
  returns on failure, then a body of neutral steps / stores of non-live values / exactly one listener loop;
* `ResetStream` = neutral steps, load guards on the live state that skip within the method, the reset listener loop,
  calls of `DestroyStream`; it reaches such a call whenever its guards pass.

`fires l` counts the destroy notifications goroutine `l` will deliver without winning another CAS.  The invariant:
`Σ fires + destroys` is 0 while the stream is live and exactly 1 afterwards.
-/
namespace MosnVerif.Model.StreamOnce
open MosnVerif.Gen.StreamOnce

/-- destroy notifications a goroutine delivers before it has to pass a CAS guard again -/
def fires : List Step → Nat
  | [] => 0
  | .notifyDestroy :: r => fires r + 1
  | .casGuard _ _ _ :: _ => 0
  | _ :: r => fires r

/-- reset notifications still ahead of a goroutine -/
def rcount : List Step → Nat
  | [] => 0
  | .notifyReset :: r => rcount r + 1
  | _ :: r => rcount r

def isNeutral : Step → Bool
  | .yield | .lock | .unlock => true
  | _ => false

/-- steps allowed after the CAS was won -/
def isPost : Step → Bool
  | .yield | .lock | .unlock | .notifyDestroy => true
  | .store v => v != 0
  | _ => false

/-- steps allowed before a CAS guard (load guards are handled separately) -/
def isPre : Step → Bool
  | .yield | .lock | .unlock | .notifyReset | .callDestroy => true
  | _ => false

/-- with the stream live, the goroutine will still reach a CAS guard -/
def willTry : List Step → Bool
  | [] => false
  | .casGuard _ _ _ :: _ => true
  | .callDestroy :: _ => true
  | .loadGuard w _ :: r => w == 0 && willTry r
  | _ :: r => willTry r

def skipsOk : List Step → Bool
  | [] => true
  | .loadGuard w k :: r => w == 0 && decide (k ≤ r.length) && skipsOk r
  | a :: r => isPre a && skipsOk r

def goodD (D : List Step) : Bool :=
  match D.dropWhile isNeutral with
  | .casGuard old new skip :: body =>
    old == 0 && new != 0 && skip == body.length && body.all isPost && fires body == 1
  | _ => false

def goodR (R : List Step) : Bool := skipsOk R && willTry R

def good (P : Progs) : Bool := goodD P.destroy && goodR P.reset && rcount P.destroy == 0

/-! ### shapes of goroutines -/

/-- goroutines that have not won the CAS (or are past everything it guards) -/
inductive Q (new : Nat) (body : List Step) : List Step → Prop
  | nil : Q new body []
  | pre (a : Step) (q : List Step) : isPre a = true → Q new body q → Q new body (a :: q)
  | load (k : Nat) (q : List Step) : Q new body q → Q new body (q.drop k) → Q new body (.loadGuard 0 k :: q)
  | cas (q : List Step) : Q new body q → Q new body (.casGuard 0 new body.length :: (body ++ q))

def TOk (new : Nat) (body : List Step) (l : List Step) : Prop :=
  ∃ b q, l = b ++ q ∧ (∀ a ∈ b, isPost a = true) ∧ Q new body q

theorem Q.tok {new body l} (h : Q new body l) : TOk new body l := ⟨[], l, rfl, by simp, h⟩

theorem Q_fires {new body l} (h : Q new body l) : fires l = 0 := by
  induction h with
  | nil => rfl
  | pre a q ha _ ih => cases a <;> simp_all [isPre, fires]
  | load k q _ _ ih _ => simp [fires, ih]
  | cas q _ _ => simp [fires]

theorem fires_post_append (b q : List Step) (hb : ∀ a ∈ b, isPost a = true) : fires (b ++ q) = fires b + fires q := by
  induction b with
  | nil => simp [fires]
  | cons a r ih =>
    have ha := hb a (by simp)
    have ih' := ih (fun x hx => hb x (by simp [hx]))
    cases a <;> simp_all [isPost, fires] <;> omega

theorem Q_drop_pre {new body} (R : List Step) (q : List Step) (hR : skipsOk R = true) (hq : Q new body q) :
    ∀ j, Q new body (R.drop j ++ q) := by
  induction R with
  | nil => intro j; simpa using hq
  | cons a r ih =>
    have hr : skipsOk r = true := by cases a <;> simp_all [skipsOk]
    have ih' := ih hr
    intro j
    cases j with
    | succ j => simpa using ih' j
    | zero =>
      simp only [List.drop_zero, List.cons_append]
      cases a with
      | loadGuard w k =>
        simp only [skipsOk, Bool.and_eq_true, beq_iff_eq, decide_eq_true_eq] at hR
        obtain ⟨⟨hw, hk⟩, _⟩ := hR
        subst hw
        refine Q.load k _ (by simpa using ih' 0) ?_
        have : (r ++ q).drop k = r.drop k ++ q := by
          rw [List.drop_append_of_le_length hk]
        rw [this]; exact ih' k
      | yield => exact Q.pre _ _ rfl (by simpa using ih' 0)
      | lock => exact Q.pre _ _ rfl (by simpa using ih' 0)
      | unlock => exact Q.pre _ _ rfl (by simpa using ih' 0)
      | notifyReset => exact Q.pre _ _ rfl (by simpa using ih' 0)
      | callDestroy => exact Q.pre _ _ rfl (by simpa using ih' 0)
      | casGuard o n k => simp [skipsOk, isPre] at hR
      | store v => simp [skipsOk, isPre] at hR
      | notifyDestroy => simp [skipsOk, isPre] at hR

theorem Q_neutral_append {new body} (pre q : List Step) (hp : ∀ a ∈ pre, isNeutral a = true) (hq : Q new body q) :
    Q new body (pre ++ q) := by
  induction pre with
  | nil => simpa using hq
  | cons a r ih =>
    have ha := hp a (by simp)
    refine Q.pre a _ (by cases a <;> simp_all [isNeutral, isPre]) (ih (fun x hx => hp x (by simp [hx])))

/-- what `goodD` says about the destroy program -/
structure DShape (D : List Step) (new : Nat) (body : List Step) : Prop where
  eq : ∃ pre, D = pre ++ .casGuard 0 new body.length :: body ∧ ∀ a ∈ pre, isNeutral a = true
  new_ne : new ≠ 0
  post : ∀ a ∈ body, isPost a = true
  one : fires body = 1

theorem goodD_shape (D : List Step) (h : goodD D = true) : ∃ new body, DShape D new body := by
  unfold goodD at h
  split at h
  · rename_i old new skip body heq
    simp only [Bool.and_eq_true, beq_iff_eq, bne_iff_ne, ne_eq, List.all_eq_true] at h
    obtain ⟨⟨⟨⟨h1, h2⟩, h3⟩, h4⟩, h5⟩ := h
    subst h1; subst h3
    refine ⟨new, body, ⟨D.takeWhile isNeutral, ?_, ?_⟩, h2, h4, h5⟩
    · rw [← heq]; exact (List.takeWhile_append_dropWhile).symm
    · intro a ha; exact List.all_eq_true.mp List.all_takeWhile a ha
  · exact absurd h (by decide)

theorem Q_callDestroy {D new body q} (hD : DShape D new body) (hq : Q new body q) : Q new body (D ++ q) := by
  obtain ⟨pre, he, hn⟩ := hD.eq
  rw [he, List.append_assoc]
  exact Q_neutral_append pre _ hn (by simpa using Q.cas q hq)

theorem willTry_append (l x : List Step) (h : willTry l = true) : willTry (l ++ x) = true := by
  induction l with
  | nil => simp [willTry] at h
  | cons a r ih => cases a <;> simp_all [willTry]

theorem willTry_D {D new body} (hD : DShape D new body) (q : List Step) : willTry (D ++ q) = true := by
  obtain ⟨pre, he, hn⟩ := hD.eq
  rw [he, List.append_assoc]
  clear he
  induction pre with
  | nil => simp [willTry]
  | cons a r ih =>
    have ha := hn a (by simp)
    have := ih (fun x hx => hn x (by simp [hx]))
    cases a <;> simp_all [isNeutral, willTry]

theorem Q_thread {P : Progs} {new body} (hD : DShape P.destroy new body) (hR : goodR P.reset = true) (calls : List Call) :
    Q new body (threadOf P calls) := by
  induction calls with
  | nil => exact Q.nil
  | cons c r ih =>
    simp only [threadOf]
    cases c with
    | reset =>
      simp only [goodR, Bool.and_eq_true] at hR
      simpa [Progs.of] using Q_drop_pre P.reset _ hR.1 ih 0
    | destroy => exact Q_callDestroy hD ih

theorem willTry_thread {P : Progs} {new body} (hD : DShape P.destroy new body) (hR : goodR P.reset = true)
    (calls : List Call) (hne : calls ≠ []) : willTry (threadOf P calls) = true := by
  cases calls with
  | nil => exact absurd rfl hne
  | cons c r =>
    simp only [threadOf]
    cases c with
    | reset =>
      simp only [goodR, Bool.and_eq_true] at hR
      exact willTry_append _ _ hR.2
    | destroy => exact willTry_D hD _

/-! ### sums over the goroutine list -/

theorem sum_map_set (f : List Step → Nat) (l : List (List Step)) (t : Nat) (old x : List Step)
    (h : l[t]? = some old) : ((l.set t x).map f).sum + f old = (l.map f).sum + f x := by
  induction l generalizing t with
  | nil => simp at h
  | cons a r ih =>
    cases t with
    | zero =>
      simp only [List.getElem?_cons_zero, Option.some.injEq] at h
      subst h
      simp only [List.set_cons_zero, List.map_cons, List.sum_cons]; omega
    | succ t =>
      simp only [List.getElem?_cons_succ] at h
      have := ih t h
      simp only [List.set_cons_succ, List.map_cons, List.sum_cons]; omega

theorem sum_zero_of_all (f : List Step → Nat) (l : List (List Step)) (h : ∀ x ∈ l, f x = 0) : (l.map f).sum = 0 := by
  induction l with
  | nil => rfl
  | cons a r ih =>
    simp only [List.map_cons, List.sum_cons]
    rw [h a (by simp), ih (fun x hx => h x (by simp [hx]))]

theorem le_sum_of_mem (f : List Step → Nat) (l : List (List Step)) (x : List Step) (h : x ∈ l) : f x ≤ (l.map f).sum := by
  induction l with
  | nil => simp at h
  | cons a r ih =>
    simp only [List.map_cons, List.sum_cons]
    rcases List.mem_cons.mp h with h | h
    · subst h; omega
    · have := ih h; omega

/-! ### the invariant -/

def F (c : Conf) : Nat := (c.threads.map fires).sum + c.destroys

structure Inv (new : Nat) (body : List Step) (ts : List (List Call)) (c : Conf) : Prop where
  ok : ∀ l ∈ c.threads, TOk new body l
  live : c.state = 0 → F c = 0 ∧ (∀ l ∈ c.threads, Q new body l) ∧
    ∀ (t : Nat) (l0 : List Call), ts[t]? = some l0 → l0 ≠ [] → ∃ l, c.threads[t]? = some l ∧ willTry l = true
  dead : c.state ≠ 0 → F c = 1

theorem inv_init {P : Progs} {new body} (hD : DShape P.destroy new body) (hR : goodR P.reset = true)
    (ts : List (List Call)) : Inv new body ts (Conf.init P ts) := by
  have hq : ∀ l ∈ (Conf.init P ts).threads, Q new body l := by
    intro l hl
    simp only [Conf.init, List.mem_map] at hl
    obtain ⟨calls, _, rfl⟩ := hl
    exact Q_thread hD hR calls
  refine ⟨fun l hl => (hq l hl).tok, fun _ => ⟨?_, hq, ?_⟩, fun h => absurd rfl h⟩
  · simp only [F, Conf.init, Nat.add_zero]
    exact sum_zero_of_all fires _ (fun x hx => Q_fires (hq x hx))
  · intro t l0 h0 hne
    refine ⟨threadOf P l0, by simp [Conf.init, List.getElem?_map, h0], willTry_thread hD hR l0 hne⟩

/-- goroutine `t` moves from `l` to `x`, the state word stays as it is, `fires + destroys` is kept -/
theorem inv_set {new body ts} {c : Conf} (h : Inv new body ts c) (t : Nat) (l x : List Step)
    (ht : c.threads[t]? = some l) (hold : Option Nat) (res des : Nat)
    (hok : TOk new body x)
    (hF : fires x + des = fires l + c.destroys)
    (hQ : c.state = 0 → Q new body l → Q new body x ∧ (willTry l = true → willTry x = true)) :
    Inv new body ts { c with holder := hold, threads := c.threads.set t x, resets := res, destroys := des } := by
  have hsum := sum_map_set fires c.threads t l x ht
  have hFeq : F { c with holder := hold, threads := c.threads.set t x, resets := res, destroys := des } = F c := by
    simp only [F]; omega
  have hmem : l ∈ c.threads := List.mem_of_getElem? ht
  refine ⟨?_, ?_, ?_⟩
  · intro y hy
    rcases List.mem_or_eq_of_mem_set hy with hy | hy
    · exact h.ok y hy
    · subst hy; exact hok
  · intro hs
    have ⟨h1, h2, h3⟩ := h.live hs
    have hx := hQ hs (h2 l hmem)
    refine ⟨by rw [hFeq]; exact h1, ?_, ?_⟩
    · intro y hy
      rcases List.mem_or_eq_of_mem_set hy with hy | hy
      · exact h2 y hy
      · subst hy; exact hx.1
    · intro u l0 h0 hne
      obtain ⟨lu, hlu, hw⟩ := h3 u l0 h0 hne
      by_cases hut : t = u
      · subst hut
        rw [ht] at hlu
        cases hlu
        refine ⟨x, ?_, hx.2 hw⟩
        have hlt : t < c.threads.length := by
          rcases List.getElem?_eq_some_iff.mp ht with ⟨hlt, _⟩; exact hlt
        simp [hlt]
      · exact ⟨lu, by simp [hut, hlu], hw⟩
  · intro hs
    rw [hFeq]; exact h.dead hs

theorem tok_tail_post {new body a r} (h : TOk new body (a :: r)) (ha : isPre a = false)
    (hl : ∀ w k, a ≠ .loadGuard w k) (hc : ∀ o n k, a ≠ .casGuard o n k) :
    isPost a = true ∧ TOk new body r ∧ ¬ Q new body (a :: r) := by
  obtain ⟨b, q, he, hb, hq⟩ := h
  have hnq : ¬ Q new body (a :: r) := by
    intro hq'
    cases hq' with
    | pre _ _ hp _ => rw [ha] at hp; exact absurd hp (by decide)
    | load k q _ _ => exact hl _ _ rfl
    | cas q _ => exact hc _ _ _ rfl
  cases b with
  | nil =>
    simp only [List.nil_append] at he
    rw [← he] at hq
    exact absurd hq hnq
  | cons a' b' =>
    simp only [List.cons_append, List.cons.injEq] at he
    obtain ⟨rfl, rfl⟩ := he
    exact ⟨hb _ (by simp), ⟨b', q, rfl, fun x hx => hb x (by simp [hx]), hq⟩, hnq⟩

/-- a neutral-or-pre head: the tail is still a well-shaped goroutine -/
theorem tok_tail_pre {new body a r} (h : TOk new body (a :: r)) (ha : isPre a = true) :
    TOk new body r ∧ (Q new body (a :: r) → Q new body r) := by
  obtain ⟨b, q, he, hb, hq⟩ := h
  have hinv : Q new body (a :: r) → Q new body r := by
    intro hq'
    cases hq' with
    | pre _ _ _ h2 => exact h2
    | load k q _ _ => simp [isPre] at ha
    | cas q _ => simp [isPre] at ha
  refine ⟨?_, hinv⟩
  cases b with
  | nil =>
    simp only [List.nil_append] at he
    rw [← he] at hq
    exact (hinv hq).tok
  | cons a' b' =>
    simp only [List.cons_append, List.cons.injEq] at he
    obtain ⟨rfl, rfl⟩ := he
    exact ⟨b', q, rfl, fun x hx => hb x (by simp [hx]), hq⟩

theorem tok_head_guard {new body a r} (h : TOk new body (a :: r)) (ha : isPost a = false) : Q new body (a :: r) := by
  obtain ⟨b, q, he, hb, hq⟩ := h
  cases b with
  | nil => simp only [List.nil_append] at he; rw [he]; exact hq
  | cons a' b' =>
    simp only [List.cons_append, List.cons.injEq] at he
    obtain ⟨rfl, _⟩ := he
    have := hb _ (List.mem_cons_self)
    rw [ha] at this; exact absurd this (by decide)

theorem inv_step {P : Progs} {new body ts} (hD : DShape P.destroy new body) {c : Conf}
    (h : Inv new body ts c) (t : Nat) : Inv new body ts (c.step P t) := by
  unfold Conf.step
  split
  · exact h
  · exact h
  · rename_i a r ht
    have hmem : (a :: r) ∈ c.threads := List.mem_of_getElem? ht
    have hok := h.ok _ hmem
    cases a with
    | yield =>
      have ⟨h1, h2⟩ := tok_tail_pre hok rfl
      exact inv_set h t _ r ht c.holder c.resets c.destroys h1 (by simp [fires]) (fun _ hq => ⟨h2 hq, by simp [willTry]⟩)
    | unlock =>
      have ⟨h1, h2⟩ := tok_tail_pre hok rfl
      exact inv_set h t _ r ht none c.resets c.destroys h1 (by simp [fires]) (fun _ hq => ⟨h2 hq, by simp [willTry]⟩)
    | lock =>
      have ⟨h1, h2⟩ := tok_tail_pre hok rfl
      show Inv new body ts (if c.holder = none then _ else c)
      split
      · exact inv_set h t _ r ht (some t) c.resets c.destroys h1 (by simp [fires]) (fun _ hq => ⟨h2 hq, by simp [willTry]⟩)
      · exact h
    | notifyReset =>
      have ⟨h1, h2⟩ := tok_tail_pre hok rfl
      exact inv_set h t _ r ht c.holder (c.resets + 1) c.destroys h1 (by simp [fires]) (fun _ hq => ⟨h2 hq, by simp [willTry]⟩)
    | callDestroy =>
      have hq : Q new body (.callDestroy :: r) := tok_head_guard hok rfl
      have hr : Q new body r := (tok_tail_pre hok rfl).2 hq
      have hx := Q_callDestroy hD hr
      exact inv_set h t _ (P.destroy ++ r) ht c.holder c.resets c.destroys hx.tok
        (by rw [Q_fires hx, Q_fires hq]) (fun _ _ => ⟨hx, fun _ => willTry_D hD r⟩)
    | notifyDestroy =>
      have ⟨_, h1, h3⟩ := tok_tail_post hok rfl (by intros; simp) (by intros; simp)
      exact inv_set h t _ r ht c.holder c.resets (c.destroys + 1) h1 (by simp [fires]; omega)
        (fun _ hq => absurd hq h3)
    | store v =>
      have ⟨hp, h1, h3⟩ := tok_tail_post hok rfl (by intros; simp) (by intros; simp)
      have hv : v ≠ 0 := by simpa [isPost] using hp
      have hst : c.state ≠ 0 := by
        intro hs; exact h3 ((h.live hs).2.1 _ hmem)
      have hsum := sum_map_set fires c.threads t _ r ht
      have hF : F { c with state := v, threads := c.threads.set t r } = F c := by
        simp only [F, fires] at hsum ⊢; omega
      refine ⟨?_, fun hs => absurd hs hv, fun _ => by rw [hF]; exact h.dead hst⟩
      intro y hy
      rcases List.mem_or_eq_of_mem_set hy with hy | hy
      · exact h.ok y hy
      · subst hy; exact h1
    | loadGuard w k =>
      have hq : Q new body (.loadGuard w k :: r) := tok_head_guard hok rfl
      have ⟨hw, hr, hd⟩ : w = 0 ∧ Q new body r ∧ Q new body (r.drop k) := by
        cases hq with
        | pre _ _ hp _ => simp [isPre] at hp
        | load _ _ h1 h2 => exact ⟨rfl, h1, h2⟩
      subst hw
      show Inv _ _ _ { c with threads := c.threads.set t (if c.state = 0 then r else r.drop k) }
      by_cases hs : c.state = 0
      · rw [if_pos hs]
        exact inv_set h t _ r ht c.holder c.resets c.destroys hr.tok (by rw [Q_fires hr, Q_fires hq])
          (fun _ _ => ⟨hr, by simp [willTry]⟩)
      · rw [if_neg hs]
        exact inv_set h t _ (r.drop k) ht c.holder c.resets c.destroys hd.tok (by rw [Q_fires hd, Q_fires hq])
          (fun h0 => absurd h0 hs)
    | casGuard o n k =>
      have hq : Q new body (.casGuard o n k :: r) := tok_head_guard hok rfl
      have ⟨q, ho, hn, hk, hr, hqq⟩ : ∃ q, o = 0 ∧ n = new ∧ k = body.length ∧ r = body ++ q ∧ Q new body q := by
        cases hq with
        | pre _ _ hp _ => simp [isPre] at hp
        | cas q h1 => exact ⟨q, rfl, rfl, rfl, rfl, h1⟩
      subst ho; subst hn; subst hk; subst hr
      show Inv _ _ _ (if c.state = 0 then _ else _)
      split
      · rename_i hs
        -- the CAS is won: the stream stops being live, this goroutine owes exactly one destroy notification
        have hlive := h.live hs
        have hsum := sum_map_set fires c.threads t _ (body ++ q) ht
        have hfb : fires (body ++ q) = 1 := by
          rw [fires_post_append body q hD.post, hD.one, Q_fires hqq]
        have hF : F { c with state := n, threads := c.threads.set t (body ++ q) } = 1 := by
          have h0 := hlive.1
          simp only [F, fires] at hsum h0 ⊢; omega
        refine ⟨?_, fun hs' => absurd hs' hD.new_ne, fun _ => hF⟩
        intro y hy
        rcases List.mem_or_eq_of_mem_set hy with hy | hy
        · exact h.ok y hy
        · subst hy; exact ⟨body, q, rfl, hD.post, hqq⟩
      · rename_i hs
        have hdq : (body ++ q).drop body.length = q := by simp
        rw [hdq]
        exact inv_set h t _ q ht c.holder c.resets c.destroys hqq.tok (by rw [Q_fires hqq]; simp [fires])
          (fun h0 => absurd h0 hs)

theorem inv_run {P : Progs} {new body ts} (hD : DShape P.destroy new body) (c : Conf)
    (h : Inv new body ts c) (sched : List Nat) : Inv new body ts (c.run P sched) := by
  induction sched generalizing c with
  | nil => exact h
  | cons t s ih => exact ih _ (inv_step hD h t)

/-! ### reset notifications: at most one per `ResetStream` call -/

def G (c : Conf) : Nat := (c.threads.map rcount).sum + c.resets

theorem rcount_drop (l : List Step) (k : Nat) : rcount (l.drop k) ≤ rcount l := by
  induction l generalizing k with
  | nil => simp [rcount]
  | cons a r ih =>
    cases k with
    | zero => simp
    | succ k =>
      have := ih k
      cases a <;> simp [rcount] <;> omega

theorem rcount_append (l x : List Step) : rcount (l ++ x) = rcount l + rcount x := by
  induction l with
  | nil => simp [rcount]
  | cons a r ih => cases a <;> simp [rcount, ih] <;> omega

theorem G_step (P : Progs) (hP : rcount P.destroy = 0) (c : Conf) (t : Nat) : G (c.step P t) ≤ G c := by
  unfold Conf.step
  split
  · exact Nat.le_refl _
  · exact Nat.le_refl _
  · rename_i a r ht
    have key : ∀ (x : List Step) (st : Nat) (hold : Option Nat) (res des : Nat),
        rcount x + res ≤ rcount (a :: r) + c.resets →
        G { state := st, holder := hold, threads := c.threads.set t x, resets := res, destroys := des } ≤ G c := by
      intro x st hold res des hx
      have := sum_map_set rcount c.threads t _ x ht
      simp only [G]; omega
    cases a with
    | yield => exact key r _ _ _ _ (by simp [rcount])
    | unlock => exact key r _ _ _ _ (by simp [rcount])
    | lock =>
      show G (if c.holder = none then _ else c) ≤ G c
      split
      · exact key r _ _ _ _ (by simp [rcount])
      · exact Nat.le_refl _
    | notifyReset => exact key r _ _ _ _ (by simp [rcount]; omega)
    | notifyDestroy => exact key r _ _ _ _ (by simp [rcount])
    | store v => exact key r _ _ _ _ (by simp [rcount])
    | callDestroy => exact key _ _ _ _ _ (by simp [rcount, rcount_append, hP])
    | loadGuard w k =>
      have := rcount_drop r k
      exact key _ _ _ _ _ (by split <;> simp [rcount] <;> omega)
    | casGuard o n k =>
      have := rcount_drop r k
      show G (if c.state = o then _ else _) ≤ G c
      split
      · exact key r _ _ _ _ (by simp [rcount])
      · exact key _ _ _ _ _ (by simp [rcount]; omega)

theorem G_run (P : Progs) (hP : rcount P.destroy = 0) (c : Conf) (sched : List Nat) : G (c.run P sched) ≤ G c := by
  induction sched generalizing c with
  | nil => exact Nat.le_refl _
  | cons t s ih => exact Nat.le_trans (ih _) (G_step P hP c t)

theorem rcount_thread (P : Progs) (hP : rcount P.destroy = 0) (calls : List Call) :
    rcount (threadOf P calls) = calls.count .reset * rcount P.reset := by
  induction calls with
  | nil => simp [threadOf, rcount]
  | cons c r ih =>
    cases c <;> simp [threadOf, rcount_append, ih, Progs.of, hP, Nat.add_mul] <;> omega

theorem G_init (P : Progs) (hP : rcount P.destroy = 0) (ts : List (List Call)) :
    G (Conf.init P ts) = resetCalls ts * rcount P.reset := by
  simp only [G, Conf.init, resetCalls, Nat.add_zero, List.map_map]
  induction ts with
  | nil => simp
  | cons a r ih =>
    simp only [List.map_cons, List.sum_cons, Function.comp, Nat.add_mul] at ih ⊢
    rw [ih, rcount_thread P hP]

end MosnVerif.Model.StreamOnce
