import MosnVerif.Lemmas.FilterReply
/-! [proxy8] the repaired task loop of `OnReceive` never leaves a stream behind: when the re-entry budget is used up, what
follows the loop (`finishStart`) and the finishing pass end the request — every return of `receive` in that pass is `End`.

Two facts are carried along the run (`Linv`): (a) what a return of `receive` into the task loop hands back — a re-entry
phase, `Oneway` only for a one-way request, `UpFilter` only with the retry state dropped (the regenerated `processError`
takes a local reply that way) —, which is what the step after the loop finds when the budget runs out right there;
(b) in the finishing pass the worker is at `Oneway` of a one-way request or in the response phases with no retry state. -/
set_option linter.unusedSimpArgs false
namespace MosnVerif.Model.FilterMachine
open MosnVerif.Gen.FilterPhase MosnVerif.Model.FilterChain

def AgainVals (s : St) : Prop := s.again = InitPhase ∨ s.again = MatchRoute ∨ s.again = ChooseHost

/-- what `receive` hands back to the task loop -/
def PhOK (c : Cfg) (x : St) (p : Nat) : Prop :=
  p = End ∨ p = Retry ∨ (p = UpFilter ∧ x.rs = none ∧ c.env.oneway = false) ∨ (p = Oneway ∧ c.env.oneway = true) ∨
    p = MatchRoute ∨ p = ChooseHost

/-- … as seen on the state the next call of `receive` (or the step after the loop) starts from -/
def RetOK (c : Cfg) (r : St) : Prop :=
  (r.phase = UpFilter ∧ r.rs = none ∧ c.env.oneway = false) ∨ (r.phase = Oneway ∧ c.env.oneway = true) ∨
    r.phase = MatchRoute ∨ r.phase = ChooseHost

/-- one iteration outside the finishing pass: nothing is abandoned; the counters stay or `receive` returned -/
def LOK (c : Cfg) (s r : St) : Prop :=
  r.exhausted = s.exhausted ∧ (r.halted = false → r.outer = s.outer ∨ (r.outer = s.outer + 1 ∧ RetOK c r))

theorem L_ret (c : Cfg) (s x : St) (p : Nat) (ho : x.outer = s.outer) (he : x.exhausted = s.exhausted)
    (hlt : s.outer ≤ taskLoopBound) (hp : PhOK c x p) : LOK c s (ret x p) := by
  have hng : ¬ x.outer > taskLoopBound := by omega
  by_cases hE : p = End
  · have e : ret x p = { x with halted := true, phase := p } := by simp [ret, hE]
    rw [e]; exact ⟨he, fun h => by cases h⟩
  · by_cases hR : p = Retry
    · have e : ret x p = { x with halted := true, retried := true, phase := p } := by
        subst hR; simp [ret, hng, Retry, End]
      rw [e]; exact ⟨he, fun h => by cases h⟩
    · have e : ret x p = { x with phase := p, inner := 0, outer := x.outer + 1 } := by simp [ret, hE, hng, hR]
      rw [e]
      refine ⟨he, fun _ => Or.inr ⟨by show x.outer + 1 = s.outer + 1; rw [ho], ?_⟩⟩
      rcases hp with h | h | ⟨h1, h2, h3⟩ | ⟨h1, h2⟩ | h | h
      · exact absurd h hE
      · exact absurd h hR
      · exact Or.inl ⟨h1, h2, h3⟩
      · exact Or.inr (Or.inl ⟨h1, h2⟩)
      · exact Or.inr (Or.inr (Or.inl h))
      · exact Or.inr (Or.inr (Or.inr h))

theorem L_next (c : Cfg) (s x : St) (ho : x.outer = s.outer) (he : x.exhausted = s.exhausted) (n : Nat) :
    LOK c s { x with phase := n } := ⟨he, fun _ => Or.inl ho⟩

theorem L_afterPE (c : Cfg) (s g : St) (ho : g.outer = s.outer) (he : g.exhausted = s.exhausted)
    (hlt : s.outer ≤ taskLoopBound) (ha : AgainVals g) : LOK c s (afterPE c g) := by
  by_cases hc : g.cleaned = true
  · rw [afterPE_cleaned c g hc]; exact L_ret c s g _ ho he hlt (Or.inl rfl)
  · have hc : g.cleaned = false := by simpa using hc
    by_cases hr : g.upstreamReset = true
    · rw [afterPE_reset c g hc hr]
      split
      · rename_i hw; exact L_ret c s g _ ho he hlt (Or.inr (Or.inr (Or.inr (Or.inl ⟨rfl, hw⟩))))
      · rename_i hw
        have hw : c.env.oneway = false := by simpa using hw
        split
        · split
          · split
            · exact L_ret c s _ _ ho he hlt (Or.inr (Or.inr (Or.inl ⟨rfl, rfl, hw⟩)))
            · exact L_next c s (consumeDirect (setRetry g)) ho he _
          · exact L_ret c s _ _ ho he hlt (Or.inr (Or.inl rfl))
        · split
          · exact L_ret c s _ _ ho he hlt (Or.inr (Or.inr (Or.inl ⟨rfl, rfl, hw⟩)))
          · exact L_next c s (consumeDirect (onUpstreamReset c.env.resetCode g)) ho he _
    · have hr : g.upstreamReset = false := by simpa using hr
      by_cases hd : g.direct = true
      · rw [afterPE_direct c g hc hr hd]
        split
        · rename_i hw; exact L_ret c s _ _ ho he hlt (Or.inr (Or.inr (Or.inr (Or.inl ⟨rfl, hw⟩))))
        · rename_i hw
          have hw : c.env.oneway = false := by simpa using hw
          split
          · exact L_ret c s _ _ ho he hlt (Or.inr (Or.inr (Or.inl ⟨rfl, rfl, hw⟩)))
          · exact L_next c s (consumeDirect g) ho he _
      · have hd : g.direct = false := by simpa using hd
        rw [afterPE_plain c g hc hr hd]
        split
        · rename_i hne
          refine L_ret c s _ _ ho he hlt ?_
          rcases ha with h | h | h
          · exact absurd h hne
          · exact Or.inr (Or.inr (Or.inr (Or.inr (Or.inl h))))
          · exact Or.inr (Or.inr (Or.inr (Or.inr (Or.inr h))))
        · split
          · exact L_ret c s g _ ho he hlt (Or.inl rfl)
          · exact L_next c s g ho he _

theorem L_afterPEd_true (c : Cfg) (s g : St) (ho : g.outer = s.outer) (he : g.exhausted = s.exhausted)
    (hlt : s.outer ≤ taskLoopBound) (hr : g.upstreamReset = false) : LOK c s (afterPEd c true g) := by
  rw [afterPEd_true c g hr]
  split
  · exact L_ret c s g _ ho he hlt (Or.inl rfl)
  · split
    · split
      · rename_i hw; exact L_ret c s _ _ ho he hlt (Or.inr (Or.inr (Or.inr (Or.inl ⟨rfl, hw⟩))))
      · rename_i hw
        have hw : c.env.oneway = false := by simpa using hw
        split
        · exact L_ret c s _ _ ho he hlt (Or.inr (Or.inr (Or.inl ⟨rfl, rfl, hw⟩)))
        · exact L_next c s (consumeDirect g) ho he _
    · exact L_ret c s g _ ho he hlt (Or.inr (Or.inl rfl))

theorem againVals_of_init {g : St} (h : g.again = InitPhase) : AgainVals g := Or.inl h

theorem chooseHost_ctl (c : Cfg) (s : St) :
    (chooseHost c s).outer = s.outer ∧ (chooseHost c s).exhausted = s.exhausted ∧ (chooseHost c s).again = s.again := by
  unfold chooseHost; simp only []; split <;> (try split) <;> exact ⟨rfl, rfl, rfl⟩

theorem sendUpstream_ctl (c : Cfg) (s : St) :
    (sendUpstream c s).outer = s.outer ∧ (sendUpstream c s).exhausted = s.exhausted ∧ (sendUpstream c s).again = s.again := by
  unfold sendUpstream; split <;> (try split) <;> exact ⟨rfl, rfl, rfl⟩

theorem deliver_ctl (c : Cfg) (s : St) :
    (deliver c s).outer = s.outer ∧ (deliver c s).exhausted = s.exhausted := by
  unfold deliver; split <;> (try split) <;> exact ⟨rfl, rfl⟩

theorem respHeaders_ctl (s : St) (r : Resp) :
    (respHeaders s r).outer = s.outer ∧ (respHeaders s r).exhausted = s.exhausted ∧
    (respHeaders s r).upstreamReset = s.upstreamReset ∧ (respHeaders s r).direct = s.direct := by
  unfold respHeaders; split <;> (try split) <;> exact ⟨rfl, rfl, rfl, rfl⟩

theorem respData_ctl (s : St) (r : Resp) :
    (respData s r).outer = s.outer ∧ (respData s r).exhausted = s.exhausted ∧
    (respData s r).upstreamReset = s.upstreamReset ∧ (respData s r).direct = s.direct := by
  unfold respData; split <;> (try split) <;> exact ⟨rfl, rfl, rfl, rfl⟩

theorem respTrailers_ctl (s : St) :
    (respTrailers s).outer = s.outer ∧ (respTrailers s).exhausted = s.exhausted ∧
    (respTrailers s).upstreamReset = s.upstreamReset ∧ (respTrailers s).direct = s.direct := by
  unfold respTrailers; split <;> exact ⟨rfl, rfl, rfl, rfl⟩

theorem filterPass_againVals (c : Cfg) (p : RPhase) (s : St) (ha : s.again = InitPhase) : AgainVals (filterPass c p s) := by
  show (filterPass c p s).toFState.again = _ ∨ (filterPass c p s).toFState.again = _ ∨ (filterPass c p s).toFState.again = _
  rw [filterPass_toFState]
  exact recvLoop_again_vals p _ _ _ (Or.inl ha)

/-- one `case` of `receive` outside the finishing pass -/
theorem L_phaseCase (c : Cfg) (s : St) (hlt : s.outer ≤ taskLoopBound) (ha : s.again = InitPhase) :
    LOK c s (phaseCase c s) := by
  have stay : ∀ n, LOK c s { s with phase := n } := fun n => L_next c s s rfl rfl n
  have halt : ∀ e, LOK c s { emit s e with halted := true } := fun e => ⟨rfl, fun h => by cases h⟩
  have same : LOK c s (afterPE c s) := L_afterPE c s s rfl rfl hlt (Or.inl ha)
  rcases phase_cases s.phase with h | h | h | h | h | h | h | h | h | h | h | h | h | h | h | h | h | h
  · rw [pc0 c s h]; exact stay _
  · rw [pc1 c s h]
    exact L_afterPE c s _ (by simp [filterPass, emit, liftF]) (by simp [filterPass, emit, liftF]) hlt (filterPass_againVals c _ s ha)
  · rw [pc2 c s h]; exact L_afterPE c s _ rfl rfl hlt (Or.inl ha)
  · rw [pc3 c s h]
    exact L_afterPE c s _ (by simp [filterPass, emit, liftF]) (by simp [filterPass, emit, liftF]) hlt (filterPass_againVals c _ s ha)
  · rw [pc4 c s h]
    obtain ⟨h1, h2, h3⟩ := chooseHost_ctl c s
    exact L_afterPE c s _ h1 h2 hlt (Or.inl (by rw [h3]; exact ha))
  · rw [pc5 c s h]
    exact L_afterPE c s _ (by simp [filterPass, emit, liftF]) (by simp [filterPass, emit, liftF]) hlt (filterPass_againVals c _ s ha)
  · rw [pc6 c s h]; split
    · obtain ⟨h1, h2, h3⟩ := sendUpstream_ctl c s
      exact L_afterPE c s _ h1 h2 hlt (Or.inl (by rw [h3]; exact ha))
    · exact halt _
  · rw [pc7 c s h]; split
    · exact same
    · exact stay _
  · rw [pc8 c s h]; split
    · exact same
    · exact stay _
  · rw [pc9 c s h]; split
    · exact L_afterPE c s _ rfl rfl hlt (Or.inl (by rw [clean_again]; exact ha))
    · exact stay _
  · rw [pc10 c s h]; exact halt _
  · rw [pc11 c s h]; split
    · rename_i hh; exact ⟨(deliver_ctl c s).2, fun h' => by rw [hh] at h'; cases h'⟩
    · exact L_afterPE c s _ (deliver_ctl c s).1 (deliver_ctl c s).2 hlt (Or.inl (by rw [deliver_again]; exact ha))
  · rw [pc12 c s h]
    exact L_afterPE c s _ (by simp [sendPassE, sendPass, emit, liftF]) (by simp [sendPassE, sendPass, emit, liftF]) hlt
      (Or.inl (by rw [sendPassE_again]; exact ha))
  · rw [pc13 c s h]; split
    · split
      · exact L_afterPEd_true c s _ rfl rfl hlt (by simp [setRetry, liftF])
      · exact L_afterPE c s _ (respHeaders_ctl s _).1 (respHeaders_ctl s _).2.1 hlt (Or.inl (by rw [respHeaders_again]; exact ha))
    · exact stay _
  · rw [pc14 c s h]; split
    · split
      · exact L_afterPE c s _ (respData_ctl s _).1 (respData_ctl s _).2.1 hlt (Or.inl (by rw [respData_again]; exact ha))
      · exact stay _
    · exact stay _
  · rw [pc15 c s h]; split
    · split
      · exact L_afterPE c s _ (respTrailers_ctl s).1 (respTrailers_ctl s).2.1 hlt (Or.inl (by rw [respTrailers_again]; exact ha))
      · exact stay _
    · exact stay _
  · rw [pc16 c s h]; exact L_ret c s s _ rfl rfl hlt (Or.inl rfl)
  · rw [pc17 c s h]; exact halt _

/-! ### the finishing pass -/

/-- where the worker is in the finishing pass -/
def FinOK (c : Cfg) (s : St) : Prop := (s.phase = Oneway ∧ c.env.oneway = true) ∨ (12 ≤ s.phase ∧ s.rs = none)

/-- one iteration of the finishing pass: `receive` goes on inside the response phases or returns `End` -/
def FOK (c : Cfg) (s r : St) : Prop :=
  r.exhausted = s.exhausted ∧ (r.halted = false → r.outer = s.outer ∧ 12 ≤ r.phase ∧ r.rs = none)

theorem F_ret_End (c : Cfg) (s x : St) (he : x.exhausted = s.exhausted) : FOK c s (ret x End) :=
  ⟨by simp [ret, he], fun h => by simp [ret] at h⟩

/-- `processError` with nothing pending and the again-phase cleared: End or the next `case` -/
theorem F_plain (c : Cfg) (s g : St) (ho : g.outer = s.outer) (he : g.exhausted = s.exhausted) (hr : g.upstreamReset = false)
    (hd : g.direct = false) (ha : g.again = InitPhase) (hp : 12 ≤ g.phase) (hrs : g.rs = none) : FOK c s (afterPE c g) := by
  by_cases hc : g.cleaned = true
  · rw [afterPE_cleaned c g hc]; exact F_ret_End c s g he
  · have hc : g.cleaned = false := by simpa using hc
    rw [afterPE_plain c g hc hr hd, if_neg (by simp [ha])]
    split
    · exact F_ret_End c s g he
    · exact ⟨he, fun _ => ⟨ho, by show 12 ≤ g.phase + 1; omega, hrs⟩⟩

theorem sendLoop_direct (fs : List SFilter) (idx : Nat) (s : FState) : (sendLoop fs idx s).1.direct = s.direct := by
  induction fs generalizing idx s with
  | nil => rfl
  | cons f rest ih =>
    simp only [sendLoop]
    have : ∀ st : FStatus, (applyHandler (senderHandler st) .BeforeRoute { s with scalls := bump s.scalls idx }).direct = s.direct := by
      intro st; cases st <;> simp [senderHandler, applyHandler, cleanStream]
    split
    · simp only []; rw [ih]; exact this _
    · exact this _
    · exact this _

theorem sendPass_direct (c : Cfg) (s : St) : (sendPass c s).direct = s.direct := by
  simp [sendPass, emit, liftF, runSend, sendLoop_direct]

theorem F_phaseCase (c : Cfg) (s : St) (hd : PhaseData c s.view s.phase) (hf : FinOK c s) :
    FOK c s (phaseCase c s) := by
  have hcom := hd.1
  have hdir : s.direct = false := hcom.direct
  have hag : s.again = InitPhase := hcom.again
  rcases hf with ⟨h9, how⟩ | ⟨h12, hrs⟩
  · -- Oneway of a one-way request: cleanStream, then `processError` finds the stream cleaned
    have h9 : s.phase = 9 := h9
    rw [pc9 c s h9, if_pos how, afterPE_cleaned c (clean s) rfl]
    exact F_ret_End c s _ rfl
  · have stay : FOK c s { s with phase := s.phase + 1 } := ⟨rfl, fun _ => ⟨rfl, by show 12 ≤ s.phase + 1; omega, hrs⟩⟩
    rcases phase_cases s.phase with h | h | h | h | h | h | h | h | h | h | h | h | h | h | h | h | h | h
    any_goals omega
    · -- UpFilter
      have hr : s.upstreamReset = false := (PhaseData_12_of c _ (by rw [← h]; exact hd)).2.1
      have ho : c.env.oneway = false := (PhaseData_12_of c _ (by rw [← h]; exact hd)).2.2.2.2
      rw [pc12 c s h]
      by_cases he : upfEnabled c (sendPass c s) = true
      · -- the upstream reset raised during the sender pass is handled in place (no retry state: not retried), the pass goes on
        have e2 : sendPassE c s = { sendPass c s with upstreamReset := true } := by simp [sendPassE, upfEvent, he]
        rw [e2]
        generalize hg2 : ({ sendPass c s with upstreamReset := true } : St) = g2
        have g_r : g2.upstreamReset = true := by rw [← hg2]
        have g_rs : g2.rs = none := by rw [← hg2]; show (sendPass c s).rs = none; rw [(sendPass_rs c s).1]; exact hrs
        have g_p : g2.phase = 12 := by rw [← hg2]; show (sendPass c s).phase = 12; rw [sendPass_phase, h]
        have g_o : g2.outer = s.outer := by rw [← hg2]; simp [sendPass, emit, liftF]
        have g_x : g2.exhausted = s.exhausted := by rw [← hg2]; simp [sendPass, emit, liftF]
        by_cases hc : g2.cleaned = true
        · rw [afterPE_cleaned c _ hc]; exact F_ret_End c s _ g_x
        · have hc : g2.cleaned = false := by simpa using hc
          rw [afterPE_reset c _ hc g_r, if_neg (by simp [ho]), if_neg (by rw [resetRetry_none c _ g_rs]; simp),
            if_neg (by rw [g_p]; decide)]
          exact ⟨g_x, fun _ => ⟨g_o, by show 12 ≤ g2.phase + 1; omega, rfl⟩⟩
      have e2 : sendPassE c s = sendPass c s := by simp [sendPassE, upfEvent, he]
      rw [e2]
      exact F_plain c s _ (by simp [sendPass, emit, liftF]) (by simp [sendPass, emit, liftF])
        (by simpa [sendPass, emit, liftF] using hr) (by rw [sendPass_direct]; exact hdir)
        (by rw [sendPass_again]; exact hag) (by rw [sendPass_phase]; exact h12) (by rw [(sendPass_rs c s).1]; exact hrs)
    · -- UpRecvHeader: no retry state, nothing is retried
      have hr : s.upstreamReset = false := (PhaseData_13_of c _ (by rw [← h]; exact hd)).2.1
      rw [pc13 c s h]; split
      · rw [if_neg (by rw [headersRetry_none c s hrs]; simp)]
        exact F_plain c s _ (respHeaders_ctl s _).1 (respHeaders_ctl s _).2.1 (by rw [(respHeaders_ctl s _).2.2.1]; exact hr)
          (by rw [(respHeaders_ctl s _).2.2.2]; exact hdir) (by rw [respHeaders_again]; exact hag)
          (by rw [respHeaders_phase]; exact h12) (by rw [(respHeaders_rs s _).1]; exact hrs)
      · exact stay
    · have hr : s.upstreamReset = false := by
        obtain ⟨_, _, _, hr, _⟩ := PhaseData_14_of c _ (by rw [← h]; exact hd); exact hr
      rw [pc14 c s h]; split
      · split
        · exact F_plain c s _ (respData_ctl s _).1 (respData_ctl s _).2.1 (by rw [(respData_ctl s _).2.2.1]; exact hr)
            (by rw [(respData_ctl s _).2.2.2]; exact hdir) (by rw [respData_again]; exact hag)
            (by rw [respData_phase]; exact h12) (by rw [(respData_rs s _).1]; exact hrs)
        · exact stay
      · exact stay
    · have hr : s.upstreamReset = false := by
        obtain ⟨_, _, _, hr, _⟩ := PhaseData_15_of c _ (by rw [← h]; exact hd); exact hr
      rw [pc15 c s h]; split
      · split
        · exact F_plain c s _ (respTrailers_ctl s).1 (respTrailers_ctl s).2.1 (by rw [(respTrailers_ctl s).2.2.1]; exact hr)
            (by rw [(respTrailers_ctl s).2.2.2]; exact hdir) (by rw [respTrailers_again]; exact hag)
            (by rw [respTrailers_phase]; exact h12) (by rw [(respTrailers_rs s).1]; exact hrs)
        · exact stay
      · exact stay
    · exact (PhaseData_ge16_of c _ _ (by omega) hd).elim
    · exact (PhaseData_ge16_of c _ _ (by omega) hd).elim

/-! ### the invariant -/

structure Linv (c : Cfg) (s : St) : Prop where
  ex : s.exhausted = false
  bound : s.halted = false → s.outer ≤ taskLoopBound + 1
  pend : s.halted = false → s.outer = taskLoopBound → RetOK c s
  fin : s.halted = false → s.outer > taskLoopBound → FinOK c s

theorem init_Linv (c : Cfg) : Linv c init :=
  ⟨rfl, (fun _ => by show (0 : Nat) ≤ 10 + 1; omega), (fun _ h => by cases h), (fun _ h => by
    have : (0 : Nat) > 10 := h
    omega)⟩

theorem step_Linv (c : Cfg) (s : St) (hg : Ginv c s) (hfix : exhaustFinishes = true) (h : Linv c s) : Linv c (step c s) := by
  unfold step
  split
  · exact h
  · rename_i hnh
    have hnh : s.halted = false := by simpa using hnh
    obtain ⟨hd, hin⟩ := hg.live hnh
    have hB : taskLoopBound = 10 := rfl
    split
    · -- the budget is used up: what follows the loop
      rename_i h10
      have hret := h.pend hnh h10
      rcases finishStart_cases c s with ⟨h0, _⟩ | ⟨hcl, e⟩ | ⟨hhj, e⟩ | ⟨hcl, hhj, e⟩
      · rw [hfix] at h0; cases h0
      · rw [e]; exact ⟨h.ex, (fun hh => by cases hh), (fun hh => by cases hh), (fun hh => by cases hh)⟩
      · rw [e]
        have hp : s.phase ≠ 2 ∧ s.phase ≠ 4 := by
          simpa [exhaustHijacks, MatchRoute, ChooseHost] using hhj
        refine ⟨h.ex, fun _ => by show s.outer + 1 ≤ _; omega, fun _ ho => ?_, fun _ _ => ?_⟩
        · have : s.outer + 1 = taskLoopBound := ho
          omega
        · rcases hret with ⟨h1, h2, _⟩ | ⟨h1, h2⟩ | h1 | h1
          · exact Or.inr ⟨by show 12 ≤ s.phase; rw [h1]; decide, h2⟩
          · exact Or.inl ⟨h1, h2⟩
          · exact absurd h1 hp.1
          · exact absurd h1 hp.2
      · rw [e]
        have hp : s.phase = 2 ∨ s.phase = 4 := by
          simpa [exhaustHijacks, MatchRoute, ChooseHost] using hhj
        have hf : FrontOK s.view := PhaseData_front_of c _ _ (by omega) hd
        have hr : (finHijack s).upstreamReset = false := hf.upstreamReset
        have hL := L_afterPE c s (finHijack s) rfl rfl (by omega) (Or.inl hd.1.again)
        refine ⟨by rw [hL.1]; exact h.ex, fun hh => ?_, fun hh ho => ?_, fun hh _ => ?_⟩
        · rcases hL.2 hh with h1 | ⟨h1, _⟩ <;> rw [h1] <;> omega
        · -- impossible: `processError` takes the local reply and hands back Oneway / UpFilter
          exfalso
          rw [afterPE_direct c (finHijack s) (by simpa [finHijack, liftF, sendHijack] using hcl) hr
            (by simp [finHijack, liftF, sendHijack])] at hh ho
          have key : ∀ (x : St) (p : Nat), x.outer = s.outer → p ≠ End → p ≠ Retry →
              (ret x p).outer = s.outer + 1 := by
            intro x p hx h1 h2
            simp [ret, h1, h2, hx, show ¬ s.outer > taskLoopBound by omega]
          split at ho
          · rw [key (consumeDirect (finHijack s)) Oneway rfl (by decide) (by decide)] at ho; omega
          · split at ho
            · rw [key (consumeDirect (finHijack s)) UpFilter rfl (by decide) (by decide)] at ho; omega
            · rename_i _ h12
              have : s.phase = 12 := by simpa [finHijack, liftF, UpFilter] using h12
              omega
        · rw [afterPE_direct c (finHijack s) (by simpa [finHijack, liftF, sendHijack] using hcl) hr
            (by simp [finHijack, liftF, sendHijack])]
          split
          · rename_i hw
            exact Or.inl ⟨by rw [ret_phase], hw⟩
          · split
            · exact Or.inr ⟨by rw [ret_phase]; decide, by rw [ret_rs]; rfl⟩
            · rename_i _ h12
              have : s.phase = 12 := by simpa [finHijack, liftF, UpFilter] using h12
              omega
    · rename_i h10
      have hle : s.inner ≤ 16 := Ginv_inner_le c s hg hnh
      rw [if_neg (by show ¬ s.inner > 16; omega)]
      have hbd := h.bound hnh
      generalize hs1 : ({ s with inner := s.inner + 1 } : St) = s1
      have e_o : s1.outer = s.outer := by subst hs1; rfl
      have e_x : s1.exhausted = s.exhausted := by subst hs1; rfl
      have e_a : s1.again = InitPhase := by
        have : s1.again = s.again := by subst hs1; rfl
        rw [this]; exact hd.1.again
      have e_p : s1.phase = s.phase := by subst hs1; rfl
      have e_v : s1.view = s.view := by subst hs1; rfl
      have e_rs : s1.rs = s.rs := by subst hs1; rfl
      by_cases hlt : s.outer < taskLoopBound
      · -- inside the task loop
        obtain ⟨l1, l2⟩ := L_phaseCase c s1 (by rw [e_o]; omega) e_a
        refine ⟨by rw [l1, e_x]; exact h.ex, fun hh => ?_, fun hh ho => ?_, fun hh ho => ?_⟩
        · rcases l2 hh with h1 | ⟨h1, _⟩ <;> rw [h1, e_o] <;> omega
        · rcases l2 hh with h1 | ⟨_, h2⟩
          · rw [h1, e_o] at ho; omega
          · exact h2
        · rcases l2 hh with h1 | ⟨h1, _⟩ <;> rw [h1, e_o] at ho <;> omega
      · -- the finishing pass
        have hgt : s.outer > taskLoopBound := by omega
        have hf := h.fin hnh hgt
        have hf1 : FinOK c s1 := by
          rcases hf with ⟨a, b⟩ | ⟨a, b⟩
          · exact Or.inl ⟨by rw [e_p]; exact a, b⟩
          · exact Or.inr ⟨by rw [e_p]; exact a, by rw [e_rs]; exact b⟩
        obtain ⟨f1, f2⟩ := F_phaseCase c s1 (by rw [e_v, e_p]; exact hd) hf1
        refine ⟨by rw [f1, e_x]; exact h.ex, fun hh => by rw [(f2 hh).1, e_o]; exact hbd, fun hh ho => ?_, fun hh _ => ?_⟩
        · rw [(f2 hh).1, e_o] at ho; omega
        · exact Or.inr ⟨(f2 hh).2.1, (f2 hh).2.2⟩

theorem run_Linv (c : Cfg) (hfix : exhaustFinishes = true) (n : Nat) (s : St) (hg : Ginv c s) (h : Linv c s) :
    Linv c (run c n s) := by
  induction n generalizing s with
  | zero => exact h
  | succ n ih => exact ih _ (step_Ginv c s hg) (step_Linv c s hg hfix h)

/-- **never_abandoned**: at no point of any run has the worker left with the stream unfinished -/
theorem never_exhausted (c : Cfg) (n : Nat) : (run c n init).exhausted = false :=
  (run_Linv c rfl n init (init_Ginv c) (init_Linv c)).ex

end MosnVerif.Model.FilterMachine
