import MosnVerif.Model.ReadLoop
import MosnVerif.Lemmas.Framing
/-! lemmas for the connection read loop (core Lean only) -/
namespace MosnVerif.Model.ReadLoop
open MosnVerif.Model.Framing
open MosnVerif.Gen.ReadLoopConn

/-! ### what the regenerated `doRead` / `onRead` do with the four labels -/

theorem doReadAfter_read (c : Bytes) :
    doReadAfter 0 ErrKind.none (c.length : Int) = (true, if c = [] then ErrKind.eof else ErrKind.none) := by
  cases c with
  | nil => simp [doReadAfter]
  | cons x xs =>
    simp [doReadAfter]; omega

theorem doReadAfter_timeout : doReadAfter 0 ErrKind.timeout ((([] : Bytes).length : Nat) : Int) = (false, ErrKind.timeout) := by
  simp [doReadAfter]

theorem doReadAfter_eof (c : Bytes) : doReadAfter 0 ErrKind.eof (c.length : Int) = (true, ErrKind.eof) := by
  simp [doReadAfter]

theorem doReadAfter_error : doReadAfter 0 ErrKind.other ((([] : Bytes).length : Nat) : Int) = (false, ErrKind.other) := by
  simp [doReadAfter]

theorem onReadDispatches_len (n : Nat) : onReadDispatches true (n : Int) = decide (n ≠ 0) := by
  by_cases h : n = 0
  · subst h; simp [onReadDispatches]
  · simp [onReadDispatches, h]

theorem closes_read (c : Bytes) : closes (.read c) = c.isEmpty := by
  simp only [closes, Ev.kind, Ev.chunk, doReadAfter_read]
  cases c <;> simp

theorem closes_timeout : closes .timeout = false := by
  simp only [closes, Ev.kind, Ev.chunk, doReadAfter_timeout]

theorem closes_eof (c : Bytes) : closes (.eof c) = true := by
  simp only [closes, Ev.kind, Ev.chunk, doReadAfter_eof]

theorem closes_error : closes .error = true := by
  simp only [closes, Ev.kind, Ev.chunk, doReadAfter_error]

/-! ### geometry-independent facts -/

variable {κ : Type}

@[simp] theorem readOnce_buf (s : St κ) (c : Bytes) : (readOnce s c).buf = s.buf ++ c := by
  simp [readOnce]
@[simp] theorem readOnce_k (s : St κ) (c : Bytes) : (readOnce s c).k = s.k := by
  simp [readOnce]
@[simp] theorem readOnce_consumed (s : St κ) (c : Bytes) : (readOnce s c).consumed = s.consumed := by
  simp [readOnce]
@[simp] theorem readOnce_closed (s : St κ) (c : Bytes) : (readOnce s c).closed = s.closed := by
  simp [readOnce]

@[simp] theorem pre_buf (P : Params) (s : St κ) (e : Ev) : (pre P s e).buf = s.buf ++ e.chunk := by
  simp only [pre]; split <;> simp
@[simp] theorem pre_k (P : Params) (s : St κ) (e : Ev) : (pre P s e).k = s.k := by
  simp only [pre]; split <;> simp
@[simp] theorem pre_consumed (P : Params) (s : St κ) (e : Ev) : (pre P s e).consumed = s.consumed := by
  simp only [pre]; split <;> simp
@[simp] theorem pre_closed (P : Params) (s : St κ) (e : Ev) : (pre P s e).closed = s.closed := by
  simp only [pre]; split <;> simp

theorem take_drop_residue (b : Bytes) (n : Nat) : b.take (b.length - (b.drop n).length) ++ b.drop n = b := by
  by_cases h : n ≤ b.length
  · have : b.length - (b.drop n).length = n := by simp [List.length_drop]; omega
    rw [this]; exact List.take_append_drop n b
  · have hd : b.drop n = [] := List.drop_eq_nil_of_le (by omega)
    simp [hd]

theorem handoff_stream (c : Consumer κ) (hd : c.Drains) (s : St κ) :
    (handoff c s).consumed ++ (handoff c s).buf = s.consumed ++ s.buf ∧ (handoff c s).closed = s.closed := by
  obtain ⟨n, hn⟩ := hd s.k s.buf
  simp only [handoff, hn, List.append_assoc, take_drop_residue, and_self]

/-- the re-allocations of the timeout branch change nothing but the geometry when they fire only on an empty buffer -/
theorem shrinks_preserve (P : Params) (hP : SafeShrinks P) :
    ∀ (l : List Shrink), (∀ sh ∈ l, sh ∈ P.shrinks) → ∀ (s : St κ),
      (l.foldl (applyShrink P) s).buf = s.buf ∧ (l.foldl (applyShrink P) s).k = s.k ∧
      (l.foldl (applyShrink P) s).consumed = s.consumed ∧ (l.foldl (applyShrink P) s).closed = s.closed := by
  intro l
  induction l with
  | nil => intro _ s; simp
  | cons sh rest ih =>
    intro hl s
    have hrest := ih (fun x hx => hl x (List.mem_cons_of_mem _ hx)) (applyShrink P s sh)
    simp only [List.foldl_cons]
    have h1 : (applyShrink P s sh).buf = s.buf ∧ (applyShrink P s sh).k = s.k ∧
        (applyShrink P s sh).consumed = s.consumed ∧ (applyShrink P s sh).closed = s.closed := by
      unfold applyShrink
      split
      · rename_i hc
        have := hP sh (hl sh (List.mem_cons_self ..)) s.allocated s.buf.length s.cap hc
        have hb : s.buf = [] := by
          cases hbb : s.buf with
          | nil => rfl
          | cons x xs => rw [hbb] at this; simp at this; omega
        simp [hb]
      · simp
    exact ⟨hrest.1.trans h1.1, hrest.2.1.trans h1.2.1, hrest.2.2.1.trans h1.2.2.1, hrest.2.2.2.trans h1.2.2.2⟩

/-- one iteration: nothing is lost, nothing is duplicated -/
theorem step_stream (P : Params) (hP : SafeShrinks P) (c : Consumer κ) (hd : c.Drains) (s : St κ) (e : Ev) :
    (step P c s e).consumed ++ (step P c s e).buf =
      s.consumed ++ s.buf ++ (if s.closed.isSome then [] else e.chunk) ∧
    (step P c s e).closed.isSome = (s.closed.isSome || closes e) := by
  unfold step
  by_cases hc : s.closed.isSome
  · simp [hc]
  · simp only [hc, Bool.false_eq_true, ↓reduceIte, Bool.false_or]
    have h2 : ∀ (b : Bool), ((if b then handoff c (pre P s e) else pre P s e).consumed ++
        (if b then handoff c (pre P s e) else pre P s e).buf = s.consumed ++ s.buf ++ e.chunk) ∧
        (if b then handoff c (pre P s e) else pre P s e).closed = s.closed := by
      intro b
      cases b
      · simp
      · have := handoff_stream c hd (pre P s e)
        simp only [↓reduceIte, this, pre_consumed, pre_buf, pre_closed, List.append_assoc, and_self]
    have hcn : s.closed = none := by cases h : s.closed <;> simp_all
    generalize hb : dispatches (pre P s e) e = b
    have h2b := h2 b
    generalize (if b then handoff c (pre P s e) else pre P s e) = s2 at h2b
    unfold closes
    cases herr : (doReadAfter 0 e.kind e.chunk.length).2 with
    | none => simp [h2b, hcn]
    | timeout =>
      have := shrinks_preserve P hP P.shrinks (fun _ h => h) s2
      simp [this, h2b, hcn]
    | eof => simp [h2b]
    | other => simp [h2b]

def appendedFrom (closed : Bool) (evs : List Ev) : List Bytes := if closed then [] else appended evs

theorem foldl_stream (P : Params) (hP : SafeShrinks P) (c : Consumer κ) (hd : c.Drains) :
    ∀ (evs : List Ev) (s : St κ),
      (evs.foldl (step P c) s).consumed ++ (evs.foldl (step P c) s).buf =
        s.consumed ++ s.buf ++ (appendedFrom s.closed.isSome evs).flatten := by
  intro evs
  induction evs with
  | nil => intro s; simp [appendedFrom, appended]
  | cons e es ih =>
    intro s
    have ⟨h1, h2⟩ := step_stream P hP c hd s e
    simp only [List.foldl_cons]
    rw [ih, h1, h2]
    by_cases hc : s.closed.isSome
    · simp [hc, appendedFrom]
    · simp only [hc, Bool.false_eq_true, ↓reduceIte, Bool.false_or, appendedFrom, appended]
      by_cases hcl : closes e <;> simp [hcl]

/-! ### the stream connection as consumer -/

variable {F : Type}

theorem drain_suffix (d : Bytes → Step F) : ∀ (fuel : Nat) (b : Bytes), ∃ n, (drain d fuel b).2.1 = b.drop n := by
  intro fuel
  induction fuel with
  | zero => intro b; exact ⟨0, by simp [drain]⟩
  | succ k ih =>
    intro b
    unfold drain
    by_cases hb : b.isEmpty
    · exact ⟨0, by simp [hb]⟩
    · simp only [hb, Bool.false_eq_true, ↓reduceIte]
      cases hs : d b with
      | needMore => exact ⟨0, by simp⟩
      | error => exact ⟨0, by simp⟩
      | frame f n =>
        obtain ⟨m, hm⟩ := ih (b.drop n)
        exact ⟨n + m, by simp [hm, List.drop_drop]⟩

theorem dispatchConsumer_drains (d : Bytes → Step F) : (dispatchConsumer d).Drains := by
  intro k b
  simp only [dispatchConsumer, feed, List.append_nil]
  by_cases hf : k.2
  · exact ⟨0, by simp [hf]⟩
  · obtain ⟨n, hn⟩ := drain_suffix d (b.length + 1) b
    exact ⟨n, by simp only [hf, Bool.false_eq_true, ↓reduceIte, hn]⟩

/-- the buffer of a connection that has been dispatched holds no complete frame -/
def Fix (d : Bytes → Step F) (c : Conn F) : Prop := c.failed = true ∨ drainAll d c.buf = ([], c.buf, false)

theorem feed_nil_fix (d : Bytes → Step F) (c : Conn F) (h : Fix d c) : feed d c [] = c := by
  rw [feed_eq]
  obtain ⟨cb, co, cf⟩ := c
  by_cases hf : cf
  · simp [hf]
  · rcases h with h | h
    · exact absurd h hf
    · simp only at h
      simp [hf, h]

theorem fix_feed (d : Bytes → Step F) (hs : Stable d) (c : Conn F) (x : Bytes) : Fix d (feed d c x) := by
  rw [feed_eq]
  by_cases hf : c.failed
  · left; simp [hf]
  · simp only [hf, Bool.false_eq_true, ↓reduceIte]
    by_cases hr : (drainAll d (c.buf ++ x)).2.2
    · left; exact hr
    · right
      have h := drainAll_append d hs (c.buf ++ x).length (c.buf ++ x) [] (Nat.le_refl _)
      simp only [List.append_nil, hr, Bool.false_eq_true, ↓reduceIte] at h
      generalize drainAll d (c.buf ++ x) = r at h hr
      generalize hX : drainAll d r.2.1 = X at h
      obtain ⟨r1, r2, r3⟩ := r
      obtain ⟨x1, x2, x3⟩ := X
      simp only [Prod.mk.injEq] at h
      obtain ⟨h1, h2, h3⟩ := h
      have : x1 = [] := by simpa using h1
      have hr3 : r3 = false := by simpa using hr
      simp only at hX
      simp only [this, ← h2, ← h3, hr3]

theorem fix_init (d : Bytes → Step F) : Fix d (Conn.init : Conn F) := by
  right; simp [Conn.init, drainAll_nil]

theorem handoff_dispatch (d : Bytes → Step F) (P : Params) (s : St (List F × Bool)) (e : Ev) :
    toConn (handoff (dispatchConsumer d) (pre P s e)) = feed d (toConn s) e.chunk := by
  simp only [toConn, handoff, dispatchConsumer, pre_buf, pre_k, feed, List.append_nil]
  by_cases hf : s.k.2 <;> simp [hf]

/-- one iteration of the read loop = one `Framing.feed` of the chunk that was read -/
theorem step_feed (P : Params) (hP : SafeShrinks P) (d : Bytes → Step F) (s : St (List F × Bool)) (e : Ev)
    (hc : s.closed = none) (hfix : Fix d (toConn s)) :
    toConn (step P (dispatchConsumer d) s e) = feed d (toConn s) e.chunk ∧
    (step P (dispatchConsumer d) s e).closed.isSome = closes e := by
  have hst := (step_stream P hP (dispatchConsumer d) (dispatchConsumer_drains d) s e).2
  simp only [hc, Option.isSome_none, Bool.false_or] at hst
  refine ⟨?_, hst⟩
  unfold step
  simp only [hc, Option.isSome_none, Bool.false_eq_true, ↓reduceIte]
  -- the state after the (possible) hand-off
  have h2 : toConn (if dispatches (pre P s e) e then handoff (dispatchConsumer d) (pre P s e) else pre P s e) =
      feed d (toConn s) e.chunk := by
    by_cases hb : dispatches (pre P s e) e
    · simp only [hb, ↓reduceIte, handoff_dispatch]
    · simp only [hb, Bool.false_eq_true, ↓reduceIte]
      -- not dispatched: nothing was read and (for a read / EOF) the buffer is empty
      have hnil : e.chunk = [] := by
        cases e with
        | read c =>
          simp only [dispatches, Ev.kind, Ev.chunk, doReadAfter_read, pre_buf, onReadDispatches_len, Bool.true_and] at hb
          cases c <;> simp_all [Ev.chunk]
        | eof c =>
          simp only [dispatches, Ev.kind, Ev.chunk, doReadAfter_eof, pre_buf, onReadDispatches_len, Bool.true_and] at hb
          cases c <;> simp_all [Ev.chunk]
        | timeout => rfl
        | error => rfl
      rw [hnil, feed_nil_fix d _ hfix]
      simp [toConn, hnil]
  generalize (if dispatches (pre P s e) e then handoff (dispatchConsumer d) (pre P s e) else pre P s e) = s2 at h2
  cases herr : (doReadAfter 0 e.kind e.chunk.length).2 with
  | none => simpa using h2
  | timeout =>
    have := shrinks_preserve P hP P.shrinks (fun _ h => h) s2
    simp only [toConn, this] at h2 ⊢
    exact h2
  | eof => simpa [toConn] using h2
  | other => simpa [toConn] using h2

theorem foldl_feed_loop (P : Params) (hP : SafeShrinks P) (d : Bytes → Step F) (hs : Stable d) :
    ∀ (evs : List Ev) (s : St (List F × Bool)), s.closed = none → Fix d (toConn s) →
      toConn (evs.foldl (step P (dispatchConsumer d)) s) = (appended evs).foldl (feed d) (toConn s) := by
  intro evs
  induction evs with
  | nil => intro s _ _; simp [appended]
  | cons e es ih =>
    intro s hc hfix
    have ⟨h1, h2⟩ := step_feed P hP d s e hc hfix
    simp only [List.foldl_cons, appended]
    by_cases hcl : closes e
    · -- the loop has left: the remaining labels change nothing
      simp only [hcl, ↓reduceIte, List.foldl_nil]
      rw [hcl] at h2
      have : ∀ (l : List Ev) (t : St (List F × Bool)), t.closed.isSome = true →
          l.foldl (step P (dispatchConsumer d)) t = t := by
        intro l
        induction l with
        | nil => intro t _; rfl
        | cons x xs ihx => intro t ht; simp only [List.foldl_cons]; rw [show step P (dispatchConsumer d) t x = t by simp [step, ht]]; exact ihx t ht
      rw [this es _ h2, h1]
    · simp only [hcl, Bool.false_eq_true, ↓reduceIte]
      have hcl' : closes e = false := by simpa using hcl
      rw [hcl'] at h2
      have hcn : (step P (dispatchConsumer d) s e).closed = none := by
        cases h : (step P (dispatchConsumer d) s e).closed <;> simp_all
      rw [ih _ hcn (by rw [h1]; exact fix_feed d hs _ _), h1]

theorem appended_plain : ∀ (evs : List Ev), (∀ e ∈ evs, e.plain = true) → (appended evs).flatten = (readsOf evs).flatten := by
  intro evs
  induction evs with
  | nil => intro _; simp [appended, readsOf]
  | cons e es ih =>
    intro h
    have he := h e (List.mem_cons_self ..)
    have hes := ih (fun x hx => h x (List.mem_cons_of_mem _ hx))
    cases e with
    | read c =>
      have : closes (.read c) = false := by rw [closes_read]; simpa [Ev.plain] using he
      simp only [appended, this, Bool.false_eq_true, ↓reduceIte, List.flatten_cons, Ev.chunk, hes, readsOf,
        List.filterMap_cons]
    | timeout =>
      simp only [appended, closes_timeout, Bool.false_eq_true, ↓reduceIte, List.flatten_cons, Ev.chunk, hes, readsOf,
        List.filterMap_cons, List.nil_append]
    | eof c => simp [Ev.plain] at he
    | error => simp [Ev.plain] at he

end MosnVerif.Model.ReadLoop
