import MosnVerif.Model.EdfConc
import MosnVerif.Lemmas.EdfHeap
/-! Serializability of lock-disciplined step programs (generic), and the steps of `NextAndPush` on the heap scheduler. -/
namespace MosnVerif.Model.EdfConc
open MosnVerif.Gen MosnVerif.Gen.EdfLock

variable {S L : Type}

/-! ### shape of a lock-disciplined program -/

theorem lockHeld_shape {p : List Step} (h : lockHeld p = true) :
    p = .lock :: (middle p ++ [.unlock]) ∧ lockFree (middle p) = true := by
  unfold lockHeld at h
  simp only [Bool.and_eq_true, beq_iff_eq, decide_eq_true_eq] at h
  obtain ⟨⟨⟨h1, h2⟩, h3⟩, h4⟩ := h
  refine ⟨?_, h4⟩
  cases p with
  | nil => simp at h1
  | cons a r =>
    simp only [List.head?_cons, Option.some.injEq] at h1
    subst h1
    have hr : r ≠ [] := by
      intro e; subst e; simp at h3
    have hl : r.getLast? = some .unlock := by
      rw [List.getLast?_cons_of_ne_nil hr] at h2
      exact h2
    have hl' : r.getLast hr = .unlock := by
      rw [List.getLast?_eq_some_getLast hr] at hl
      exact Option.some.inj hl
    have : r = r.dropLast ++ [.unlock] := by
      rw [← hl']; exact (List.dropLast_concat_getLast hr).symm
    simp only [middle, List.drop_one, List.tail_cons]
    rw [← this]

/-! ### sequential composition -/

theorem serial_append (exec : Exec S L) (calls : Nat → Call L) (o : List Nat) (t : Nat) (s : S) :
    serial exec calls (o ++ [t]) s =
      ((runBody exec (middle (calls t).prog) (serial exec calls o s).1 (calls t).l0).1,
       (serial exec calls o s).2 ++ [(t, (runBody exec (middle (calls t).prog) (serial exec calls o s).1 (calls t).l0).2)]) := by
  induction o generalizing s with
  | nil => simp [serial]
  | cons u r ih => simp only [List.cons_append, serial, ih, List.cons_append]

theorem serial_fst (exec : Exec S L) (calls : Nat → Call L) (o : List Nat) (s : S) :
    (serial exec calls o s).2.map (·.1) = o := by
  induction o generalizing s with
  | nil => rfl
  | cons u r ih => simp only [serial, List.map_cons, ih]

/-! ### the invariant of every schedule -/

structure SerInv (exec : Exec S L) (calls : Nat → Call L) (s0 : S) (c : Conf S L) : Prop where
  nodup : c.done.Nodup
  /-- a call that neither finished nor holds the mutex has not started -/
  fresh : ∀ t, t ∉ c.done → c.holder ≠ some t → c.threads t = ⟨(calls t).prog, (calls t).l0⟩
  /-- a call that released the mutex has finished, with the local state of its place in the sequential order -/
  fin : ∀ p ∈ (serial exec calls c.done s0).2, c.threads p.1 = ⟨[], p.2⟩
  /-- while nobody holds the mutex the shared state is the sequential one -/
  idle : c.holder = none → c.shared = (serial exec calls c.done s0).1
  /-- the holder is inside its critical section: finishing it alone yields the next sequential state -/
  crit : ∀ h, c.holder = some h → h ∉ c.done ∧ ∃ rest, (c.threads h).todo = rest ++ [.unlock] ∧ lockFree rest = true ∧
    runBody exec rest c.shared (c.threads h).loc =
      runBody exec (middle (calls h).prog) (serial exec calls c.done s0).1 (calls h).l0

theorem setThread_same (th : Nat → Thread L) (t : Nat) (v : Thread L) : setThread th t v t = v := by
  simp [setThread]

theorem setThread_other (th : Nat → Thread L) (t u : Nat) (v : Thread L) (h : u ≠ t) : setThread th t v u = th u := by
  simp [setThread, h]

theorem mem_done_of_fin {exec : Exec S L} {calls : Nat → Call L} {s0 : S} {o : List Nat} {p : Nat × L}
    (hp : p ∈ (serial exec calls o s0).2) : p.1 ∈ o := by
  have := List.mem_map_of_mem (f := (·.1)) hp
  rwa [serial_fst] at this

theorem exists_fin_of_mem_done {exec : Exec S L} {calls : Nat → Call L} {s0 : S} {o : List Nat} {t : Nat}
    (ht : t ∈ o) : ∃ l, (t, l) ∈ (serial exec calls o s0).2 := by
  rw [← serial_fst exec calls o s0] at ht
  obtain ⟨p, hp, rfl⟩ := List.mem_map.mp ht
  exact ⟨p.2, hp⟩

theorem inv_init (exec : Exec S L) (calls : Nat → Call L) (s0 : S) : SerInv exec calls s0 (initConf calls s0) :=
  ⟨by simp [initConf], fun t _ _ => rfl, by simp [initConf, serial], fun _ => rfl, by simp [initConf]⟩

theorem inv_step (exec : Exec S L) (calls : Nat → Call L) (s0 : S) (hl : ∀ t, lockHeld (calls t).prog = true)
    (c : Conf S L) (t : Nat) (I : SerInv exec calls s0 c) : SerInv exec calls s0 (stepThread exec c t) := by
  by_cases hdone : t ∈ c.done
  · -- finished: stutter
    obtain ⟨l, hm⟩ := exists_fin_of_mem_done (exec := exec) (calls := calls) (s0 := s0) hdone
    have := I.fin _ hm
    simp only at this
    have e : stepThread exec c t = c := by simp [stepThread, this]
    rw [e]; exact I
  · cases hh : c.holder with
    | none =>
      -- not started: takes the mutex
      have hth := I.fresh t hdone (by simp [hh])
      obtain ⟨hshape, hfree⟩ := lockHeld_shape (hl t)
      generalize hm : middle (calls t).prog = m at hshape hfree
      have e : stepThread exec c t =
          { c with holder := some t, threads := setThread c.threads t ⟨m ++ [.unlock], (calls t).l0⟩ } := by
        unfold stepThread
        rw [hth]
        simp only
        rw [hshape]
        simp [hh]
      rw [e]
      refine ⟨I.nodup, ?_, ?_, by simp, ?_⟩
      · intro u hu hne
        have : u ≠ t := fun h => hne (by simp [h])
        simp only
        rw [setThread_other _ _ _ _ this]
        exact I.fresh u hu (by simp [hh])
      · intro p hp
        have : p.1 ≠ t := fun h => hdone (h ▸ mem_done_of_fin hp)
        simp only
        rw [setThread_other _ _ _ _ this]
        exact I.fin p hp
      · intro h hh'
        simp only [Option.some.injEq] at hh'
        subst hh'
        refine ⟨hdone, m, by simp [setThread_same], hfree, ?_⟩
        simp only [setThread_same]
        rw [I.idle hh, hm]
    | some h =>
      by_cases hth : t = h
      · subst hth
        obtain ⟨hnd, rest, htodo, hfree, hrun⟩ := I.crit t hh
        cases rest with
        | nil =>
          -- releases the mutex: the call is finished
          have e : stepThread exec c t =
              { c with holder := none, threads := setThread c.threads t ⟨[], (c.threads t).loc⟩, done := c.done ++ [t] } := by
            unfold stepThread
            simp only [htodo, List.nil_append, hh]
            simp
          rw [e]
          simp only [runBody] at hrun
          refine ⟨?_, ?_, ?_, ?_, by simp⟩
          · rw [List.nodup_append]
            refine ⟨I.nodup, by simp, ?_⟩
            intro a ha b hb
            simp only [List.mem_singleton] at hb
            subst hb
            intro hab; subst hab; exact hnd ha
          · intro u hu _
            simp only [List.mem_append, List.mem_singleton, not_or] at hu
            simp only
            rw [setThread_other _ _ _ _ hu.2]
            exact I.fresh u hu.1 (by rw [hh]; simp; exact fun h => hu.2 h.symm)
          · intro p hp
            simp only at hp
            rw [serial_append] at hp
            simp only [List.mem_append, List.mem_singleton] at hp
            simp only
            rcases hp with hp | rfl
            · have : p.1 ≠ t := fun h => hnd (h ▸ mem_done_of_fin hp)
              rw [setThread_other _ _ _ _ this]
              exact I.fin p hp
            · simp only [setThread_same]
              rw [← hrun]
          · intro _
            simp only
            rw [serial_append]
            simp only
            rw [← hrun]
        | cons a r =>
          -- one step inside the critical section
          simp only [lockFree, List.all_cons, Bool.and_eq_true, bne_iff_ne, ne_eq] at hfree
          obtain ⟨⟨ha1, ha2⟩, hfr⟩ := hfree
          have e : stepThread exec c t =
              { c with shared := (exec a c.shared (c.threads t).loc).1,
                       threads := setThread c.threads t
                         ⟨if (exec a c.shared (c.threads t).loc).2.2 then [.unlock] else r ++ [.unlock],
                          (exec a c.shared (c.threads t).loc).2.1⟩ } := by
            unfold stepThread
            simp only [htodo, List.cons_append, ha1, ha2, if_false, hh, if_true]
          rw [e]
          refine ⟨I.nodup, ?_, ?_, by simp [hh], ?_⟩
          · intro u hu hne
            have : u ≠ t := fun h => hne (by simp [h, hh])
            simp only
            rw [setThread_other _ _ _ _ this]
            exact I.fresh u hu hne
          · intro p hp
            have : p.1 ≠ t := fun h => hnd (h ▸ mem_done_of_fin hp)
            simp only
            rw [setThread_other _ _ _ _ this]
            exact I.fin p hp
          · intro h' hh'
            simp only [hh, Option.some.injEq] at hh'
            subst hh'
            refine ⟨hnd, ?_⟩
            simp only [setThread_same]
            rw [← hrun]
            cases he : (exec a c.shared (c.threads t).loc).2.2
            · exact ⟨r, by simp, by simpa [lockFree] using hfr, by simp [runBody, he]⟩
            · exact ⟨[], by simp, by simp [lockFree], by simp [runBody, he]⟩
      · -- another call holds the mutex: blocked at `lock`
        have hth' := I.fresh t hdone (by rw [hh]; simp; exact fun h => hth h.symm)
        obtain ⟨hshape, _⟩ := lockHeld_shape (hl t)
        generalize middle (calls t).prog = m at hshape
        have e : stepThread exec c t = c := by
          unfold stepThread
          rw [hth']
          simp only
          rw [hshape]
          simp [hh]
        rw [e]; exact I

/-- **every schedule keeps the serial invariant.** -/
theorem inv_run (exec : Exec S L) (calls : Nat → Call L) (s0 : S) (hl : ∀ t, lockHeld (calls t).prog = true)
    (sched : List Nat) (c : Conf S L) (I : SerInv exec calls s0 c) : SerInv exec calls s0 (runSched exec c sched) := by
  induction sched generalizing c with
  | nil => exact I
  | cons t r ih => exact ih _ (inv_step exec calls s0 hl c t I)


/-- a call has finished exactly when it has released the mutex. -/
theorem finished_iff {exec : Exec S L} {calls : Nat → Call L} {s0 : S} {c : Conf S L}
    (hl : ∀ t, lockHeld (calls t).prog = true) (I : SerInv exec calls s0 c) (t : Nat) :
    (c.threads t).todo = [] ↔ t ∈ c.done := by
  constructor
  · intro h
    apply Classical.byContradiction
    intro hnd
    by_cases hh : c.holder = some t
    · obtain ⟨_, rest, htodo, _⟩ := I.crit t hh
      rw [htodo] at h
      simp at h
    · have := I.fresh t hnd hh
      rw [this] at h
      simp only at h
      have := (lockHeld_shape (hl t)).1
      rw [h] at this
      simp at this
  · intro h
    obtain ⟨l, hm⟩ := exists_fin_of_mem_done (exec := exec) (calls := calls) (s0 := s0) h
    have := I.fin _ hm
    simp only at this
    rw [this]

/-- the local results of the finished calls, in release order, are those of the sequential execution in that order. -/
theorem results_eq {β : Type} {exec : Exec S L} {calls : Nat → Call L} {s0 : S} {c : Conf S L}
    (I : SerInv exec calls s0 c) (f : L → β) :
    c.done.map (fun t => f (c.threads t).loc) = (serial exec calls c.done s0).2.map (fun p => f p.2) := by
  conv => lhs; rw [← serial_fst exec calls c.done s0]
  rw [List.map_map]
  apply List.map_congr_left
  intro p hp
  simp only [Function.comp]
  rw [I.fin p hp]

/-! ### the steps of `NextAndPush`, run without interruption, are `HSched.nextAndPush` -/

section Concrete
open MosnVerif.Model.EDF MosnVerif.Model.EdfHeap

theorem posOf_zero (h : Heap Entry) (it : Nat) (hs : 0 < h.size) (hit : (h.elements 0).item = it) : posOf h it = 0 := by
  unfold posOf
  obtain ⟨n, hn⟩ : ∃ n, h.size = n + 1 := ⟨h.size - 1, by omega⟩
  rw [hn, List.range_succ_eq_map, List.find?_cons]
  simp [hit]

theorem upd_at (m : Nat → Entry) (i : Nat) (v : Entry) : upd m i v i = v := by simp [upd]

/-- the regenerated step program holds the lock from before the peek until after the fix. -/
theorem nextAndPush_lockHeld : lockHeld EdfLock.nextAndPush = true := by decide

theorem add_lockHeld : lockHeld EdfLock.add = true := by decide

/-- **critical section = sequential `NextAndPush`**: the regenerated steps between `lock` and `unlock`, executed by one
caller alone, produce exactly the successor state and the return value of `HSched.nextAndPush`. -/
theorem body_eq_seqCall (wf : Nat → Rat) (s : HSched) :
    (runBody (exec wf) (middle EdfLock.nextAndPush) s {}).1 = (seqCall s wf).2 ∧
    (runBody (exec wf) (middle EdfLock.nextAndPush) s {}).2.result = some (seqCall s wf).1 := by
  have hm : middle EdfLock.nextAndPush =
      [.checkEmpty, .peek, .setTime, .callback, .setDeadline, .setWeight, .setQueued, .fix, .ret] := by decide
  rw [hm]
  unfold seqCall HSched.nextAndPush
  by_cases hz : s.items.size = 0
  · simp [runBody, exec, hz]
  · have hpos : 0 < s.items.size := by omega
    have pz : ∀ (h : Heap Entry) (it : Nat), 0 < h.size → (h.elements 0).item = it → posOf h it = 0 := posOf_zero
    simp only [runBody, exec, hz, if_false, Bool.false_eq_true, peek]
    simp [updEntry, pz, hpos, upd_at, upd_upd, repush]

/-- the regenerated steps of `Add` between `lock` and `unlock`, executed by one caller alone, are `HSched.add`. -/
theorem add_body_eq (wf : Nat → Rat) (s : HSched) (item : Nat) (w : Rat) :
    (runBody (exec wf) (middle EdfLock.add) s { arg := (item, w) }).1 = s.add item w := by
  have hm : middle EdfLock.add = [.newEntry, .push] := by decide
  rw [hm]
  simp [runBody, exec, HSched.add]

/-- any order of `NextAndPush` calls, one after the other, is `seqCalls`. -/
theorem serial_eq_seqCalls (wf : Nat → Rat) (order : List Nat) (s : HSched) :
    (serial (exec wf) (napCalls EdfLock.nextAndPush) order s).1 = (seqCalls s wf order.length).2 ∧
    (serial (exec wf) (napCalls EdfLock.nextAndPush) order s).2.map (·.2.result) =
      (seqCalls s wf order.length).1.map some := by
  induction order generalizing s with
  | nil => exact ⟨rfl, rfl⟩
  | cons t r ih =>
    obtain ⟨b1, b2⟩ := body_eq_seqCall wf s
    simp only [serial, napCalls, List.length_cons, seqCalls, List.map_cons]
    rw [b1, b2]
    obtain ⟨i1, i2⟩ := ih (seqCall s wf).2
    exact ⟨i1, by rw [← i2]⟩

/-- the items served by `n` sequential calls are the picks of `HSched.run`. -/
theorem seqCalls_picks (wf : Nat → Rat) (n : Nat) (s : HSched) :
    (seqCalls s wf n).1.filterMap id = (s.run wf n).1 := by
  induction n generalizing s with
  | zero => rfl
  | succ n ih =>
    simp only [seqCalls, seqCall, HSched.run]
    cases hn : s.nextAndPush wf with
    | none =>
      simp only [List.filterMap_cons, id]
      rw [ih s]
      cases n with
      | zero => rfl
      | succ k => simp [HSched.run, hn]
    | some p =>
      obtain ⟨i, s'⟩ := p
      simp only [List.filterMap_cons, id, ih s']

theorem seqCalls_state (wf : Nat → Rat) (n : Nat) (s : HSched) : (seqCalls s wf n).2 = (s.run wf n).2 := by
  induction n generalizing s with
  | zero => rfl
  | succ n ih =>
    simp only [seqCalls, seqCall, HSched.run]
    cases hn : s.nextAndPush wf with
    | none =>
      simp only
      rw [ih s]
      cases n with
      | zero => rfl
      | succ k => simp [HSched.run, hn]
    | some p =>
      obtain ⟨i, s'⟩ := p
      simp only [ih s']

/-- consecutive runs compose. -/
theorem hrun_add (wf : Nat → Rat) (a b : Nat) (s : HSched) :
    (s.run wf (a + b)).1 = (s.run wf a).1 ++ ((s.run wf a).2.run wf b).1 := by
  induction a generalizing s with
  | zero => simp [HSched.run]
  | succ a ih =>
    rw [Nat.succ_add]
    simp only [HSched.run]
    cases hn : s.nextAndPush wf with
    | none =>
      simp only [List.nil_append]
      cases b with
      | zero => rfl
      | succ k => simp [HSched.run, hn]
    | some p =>
      obtain ⟨i, s'⟩ := p
      simp only [ih s', List.cons_append]

/-- the abstraction relation heap scheduler ↔ list scheduler survives any number of picks. -/
theorem hrun_rel (wf : Nat → Rat) (hwf : ∀ k, 0 < wf k) (k : Nat) (hs : HSched) (s : Sched)
    (R : Rel hs s) (hI : Inv s) (hQ : QInv s) :
    Rel (hs.run wf k).2 (s.run wf (List.replicate k none)).2 ∧ Inv (s.run wf (List.replicate k none)).2 ∧
    QInv (s.run wf (List.replicate k none)).2 := by
  induction k generalizing hs s with
  | zero => exact ⟨R, hI, hQ⟩
  | succ k ih =>
    unfold HSched.run
    simp only [List.replicate_succ, Sched.run]
    cases hn : hs.nextAndPush wf with
    | none =>
      have hsz : hs.items.size = 0 := by
        unfold HSched.nextAndPush at hn
        split at hn
        · assumption
        · simp at hn
      have hnil : s.entries = [] := by
        cases he : s.entries with
        | nil => rfl
        | cons x r =>
          obtain ⟨k, hk, _⟩ := (R.mem x).mp (by rw [he]; exact List.mem_cons_self)
          omega
      have : s.nextAndPush wf none = none := by
        unfold Sched.nextAndPush; rw [pick_none, hnil]; rfl
      simp only [this]
      exact ⟨R, hI, hQ⟩
    | some p =>
      obtain ⟨i, hs'⟩ := p
      obtain ⟨s', h1, R'⟩ := hsched_next_refines R hQ wf hn
      simp only [h1]
      exact ih hs' s' R' (inv_next hI hwf h1) (qinv_next hQ h1)

end Concrete

end MosnVerif.Model.EdfConc
