import MosnVerif.Lemmas.HuffSpec
/-!
`huffmanDecode` (the tree walker `Model.HuffTree.walk`, every expression regenerated) computes the declarative decoder, for
every byte string and every `maxLen`.
-/
namespace MosnVerif.Lemmas.HuffWalk
open MosnVerif.Gen.Hpack MosnVerif.Gen.HpackHuff MosnVerif.Model.Huffman MosnVerif.Model.HuffTree
open MosnVerif.Lemmas.HuffBits MosnVerif.Lemmas.HuffCode MosnVerif.Lemmas.HuffSpec
open MosnVerif.Lemmas.HuffTreeCheck (nodePaths node_ok root_mem entOk)

/-! ### the regenerated expressions, on the values the walker reaches -/

theorem innerIdx_eq (cur c : Nat) (h8 : 8 ≤ c) (h : c < 256) : decInnerIdx cur c = cur / 2 ^ (c - 8) % 256 := by
  unfold decInnerIdx
  rw [Nat.shiftRight_eq_div_pow]
  have : (c + 256 - 8) % 256 = c - 8 := by omega
  rw [this]

theorem leafBits_eq (c r : Nat) (h : r ≤ c) (hc : c < 256) : decLeafBits c r = c - r := by
  unfold decLeafBits; omega

theorem descBits_eq (c : Nat) (h : 8 ≤ c) (hc : c < 256) : decDescBits c = c - 8 := by
  unfold decDescBits; omega

theorem feedBits_eq (c : Nat) (h : c + 8 < 256) : decFeedBits c = c + 8 := by
  unfold decFeedBits; omega

theorem feedSbits_eq (c : Nat) (h : c + 8 < 256) : decFeedSbits c = c + 8 := by
  unfold decFeedSbits; omega

theorem feed_eq (cur b : Nat) (hb : b < 256) : decFeed cur b = (cur * 256 + b) % 2 ^ 64 := by
  unfold decFeed
  rw [Nat.shiftLeft_eq]
  have e1 : cur * 2 ^ 8 % 18446744073709551616 = 2 ^ 8 * (cur % 2 ^ 56) := by
    rw [show (18446744073709551616 : Nat) = 2 ^ 8 * 2 ^ 56 by decide, Nat.mul_comm cur, Nat.mul_mod_mul_left]
  rw [e1, ← Nat.two_pow_add_eq_or_of_lt (by simpa using hb)]
  have : (cur * 256 + b) % 2 ^ 64 = 2 ^ 8 * (cur % 2 ^ 56) + b := by
    have h1 := Nat.div_add_mod cur (2 ^ 56)
    have h2 := Nat.mod_lt cur (show 0 < 2 ^ 56 by decide)
    have : cur * 256 + b = (2 ^ 8 * (cur % 2 ^ 56) + b) + 2 ^ 64 * (cur / 2 ^ 56) := by omega
    rw [this, Nat.add_mul_mod_self_left, Nat.mod_eq_of_lt]
    omega
  rw [this]

theorem tailIdx_eq (cur c : Nat) (hc : c ≤ 8) : decTailIdx cur c = cur * 2 ^ (8 - c) % 256 := by
  unfold decTailIdx
  have : (8 + 256 - c) % 256 = 8 - c := by omega
  rw [this, Nat.shiftLeft_eq, Nat.mod_mod_of_dvd _ (by decide : 256 ∣ 18446744073709551616)]

theorem mask_eq (c : Nat) (hc : c < 64) : decMask c = 2 ^ c - 1 := by
  unfold decMask
  rw [Nat.shiftLeft_eq, Nat.one_mul]
  have h1 : 2 ^ c < 18446744073709551616 := by
    rw [show (18446744073709551616 : Nat) = 2 ^ 64 by decide]
    exact Nat.pow_lt_pow_right (by decide) hc
  have h2 := Nat.two_pow_pos c
  rw [Nat.mod_eq_of_lt h1]
  have : 2 ^ c + 18446744073709551616 - 1 = (2 ^ c - 1) + 18446744073709551616 := by omega
  rw [this, Nat.add_mod_right, Nat.mod_eq_of_lt (by omega)]

theorem maskBad_eq (cur c : Nat) : decMaskBad cur (2 ^ c - 1) = decide (cur % 2 ^ c ≠ 2 ^ c - 1) := by
  unfold decMaskBad
  rw [Nat.and_two_pow_sub_one_eq_mod]

theorem maxLenHit_iff (maxLen n : Nat) : decMaxLenHit maxLen n = true ↔ (maxLen ≠ 0 ∧ n = maxLen) := by
  unfold decMaxLenHit; simp

/-! ### the bits the walker has read but not yet turned into a symbol -/

/-- the `8d` bits that lead to the current node, then the `cbits` unread bits of `cur` -/
def pend (d pv cur cbits : Nat) : List Bool := bitsOf pv (8 * d) ++ bitsOf cur cbits

theorem pend_root (pv cur c : Nat) : pend 0 pv cur c = bitsOf cur c := by simp [pend, bitsOf_zero]

@[simp] theorem length_pend (d pv cur c : Nat) : (pend d pv cur c).length = 8 * d + c := by simp [pend]

structure Rel (st : WSt) (d pv : Nat) : Prop where
  mem : (st.n, d, pv) ∈ nodePaths
  sb : st.sbits = 8 * d + st.cbits

theorem rel_root (cur c : Nat) (out : Bytes) : Rel { n := 0, cur := cur, cbits := c, sbits := c, out := out } 0 0 :=
  ⟨root_mem, by simp⟩

/-- a byte enters the bit buffer -/
theorem pend_feed (d pv cur c b : Nat) (hb : b < 256) (hc : c + 8 ≤ 64) :
    pend d pv (decFeed cur b) (c + 8) = pend d pv cur c ++ bitsOf b 8 := by
  unfold pend
  rw [List.append_assoc]
  congr 1
  rw [feed_eq cur b hb, bitsOf_mod _ _ _ hc, show (256 : Nat) = 2 ^ 8 by decide, bitsOf_mul_add _ _ _ _ hb]

/-- a leaf: the symbol's code is the path followed by the first `r` unread bits -/
theorem pend_leaf (d pv cur c sym r idx : Nat) (hr1 : 1 ≤ r) (hr8 : r ≤ 8) (hrc : r ≤ c) (hidx : idx < 256)
    (hlen : lenOf sym = 8 * d + r) (hcode : codeOf sym = pv * 2 ^ r + idx / 2 ^ (8 - r))
    (htop : idx / 2 ^ (8 - r) % 2 ^ r = cur / 2 ^ (c - r) % 2 ^ r) :
    pend d pv cur c = codeBits sym ++ bitsOf cur (c - r) := by
  have hlt : idx / 2 ^ (8 - r) < 2 ^ r := by
    rw [Nat.div_lt_iff_lt_mul (Nat.two_pow_pos _), ← Nat.pow_add, show r + (8 - r) = 8 by omega]; exact hidx
  unfold pend codeBits
  rw [hlen, hcode, bitsOf_mul_add _ _ _ _ hlt, List.append_assoc]
  congr 1
  have : bitsOf cur c = bitsOf (cur / 2 ^ (c - r)) r ++ bitsOf cur (c - r) := by
    have := bitsOf_add cur r (c - r)
    rwa [show r + (c - r) = c by omega] at this
  rw [this]
  congr 1
  exact bitsOf_congr _ _ _ htop.symm

/-- the top `r` bits of the lookup index of the main loop -/
theorem top_inner (cur c r : Nat) (h8 : 8 ≤ c) (hr8 : r ≤ 8) :
    (cur / 2 ^ (c - 8) % 256) / 2 ^ (8 - r) % 2 ^ r = cur / 2 ^ (c - r) % 2 ^ r := by
  have e : (256 : Nat) = 2 ^ (8 - r) * 2 ^ r := by rw [← Nat.pow_add, show 8 - r + r = 8 by omega]
  rw [e, Nat.mod_mul_right_div_self, Nat.mod_mod, Nat.div_div_eq_div_mul, ← Nat.pow_add,
    show c - 8 + (8 - r) = c - r by omega]

/-- the top `r` bits of the zero-filled lookup index of the trailing loop -/
theorem top_tail (cur c r : Nat) (hc : c ≤ 8) (hrc : r ≤ c) :
    (cur * 2 ^ (8 - c) % 256) / 2 ^ (8 - r) % 2 ^ r = cur / 2 ^ (c - r) % 2 ^ r := by
  have e : (256 : Nat) = 2 ^ (8 - r) * 2 ^ r := by rw [← Nat.pow_add, show 8 - r + r = 8 by omega]
  rw [e, Nat.mod_mul_right_div_self, Nat.mod_mod]
  have e2 : 2 ^ (8 - r) = 2 ^ (c - r) * 2 ^ (8 - c) := by rw [← Nat.pow_add, show c - r + (8 - c) = 8 - r by omega]
  rw [e2, Nat.mul_div_mul_right _ _ (Nat.two_pow_pos _)]

/-- an internal child: one level down, eight bits fewer -/
theorem pend_ptr (d pv cur c : Nat) (h8 : 8 ≤ c) :
    pend (d + 1) (pv * 256 + cur / 2 ^ (c - 8) % 256) cur (c - 8) = pend d pv cur c := by
  unfold pend
  have hlt : cur / 2 ^ (c - 8) % 256 < 2 ^ 8 := Nat.mod_lt _ (by decide)
  rw [show 8 * (d + 1) = 8 * d + 8 by omega, show (256 : Nat) = 2 ^ 8 by decide, bitsOf_mul_add _ _ _ _ hlt, List.append_assoc]
  congr 1
  have := bitsOf_add cur 8 (c - 8)
  rw [show 8 + (c - 8) = c by omega] at this
  rw [this]
  congr 1
  exact bitsOf_congr _ _ _ (Nat.mod_mod _ _)

/-! ### what the kernel-checked tree says about a child -/

theorem ent_leaf (n d pv idx sym r : Nat) (hn : (n, d, pv) ∈ nodePaths) (hi : idx < 256)
    (h : huffTree.child n idx = .leaf sym r) :
    1 ≤ r ∧ r ≤ 8 ∧ sym < 256 ∧ lenOf sym = 8 * d + r ∧ codeOf sym = pv * 2 ^ r + idx / 2 ^ (8 - r) := by
  have := (node_ok n d pv hn).2.2.2 idx hi
  rw [h] at this
  simp only [entOk, Bool.and_eq_true, decide_eq_true_eq, beq_iff_eq] at this
  obtain ⟨⟨⟨⟨h1, h2⟩, h3⟩, h4⟩, h5⟩ := this
  exact ⟨h1, h2, h3, h4, h5⟩

theorem ent_ptr (n d pv idx id : Nat) (hn : (n, d, pv) ∈ nodePaths) (hi : idx < 256)
    (h : huffTree.child n idx = .ptr id) : (id, d + 1, pv * 256 + idx) ∈ nodePaths := by
  have := (node_ok n d pv hn).2.2.2 idx hi
  rw [h] at this
  simpa [entOk] using this

theorem ent_none (n d pv idx : Nat) (hn : (n, d, pv) ∈ nodePaths) (hi : idx < 256)
    (h : huffTree.child n idx = .none) : eosBits <+: bitsOf (pv * 256 + idx) (8 * (d + 1)) := by
  have := (node_ok n d pv hn).2.2.2 idx hi
  rw [h] at this
  exact prefix_of_isPrefixCode _ _ _ _ this

/-- the path of a node followed by a child index -/
theorem path_child (d pv idx : Nat) (hi : idx < 256) :
    bitsOf (pv * 256 + idx) (8 * (d + 1)) = bitsOf pv (8 * d) ++ bitsOf idx 8 := by
  rw [show 8 * (d + 1) = 8 * d + 8 by omega, show (256 : Nat) = 2 ^ 8 by decide, bitsOf_mul_add _ _ _ _ (by simpa using hi)]

/-- bits that start with EOS are refused by the declarative decoder -/
theorem specRun_eos (maxLen : Nat) (bits : List Bool) (acc : Bytes) (h : eosBits <+: bits) :
    specRun maxLen bits acc = .error .invalid := by
  rw [specRun_none _ _ _ (matchSym_eos _ h), if_neg]
  have := h.length_le
  have e30 : MosnVerif.Model.Huffman.eosLen = 30 := rfl
  simp only [eosBits, length_bitsOf, e30] at this
  omega

/-! ### the main loop -/

theorem inner_ok (maxLen : Nat) (R : List Bool) (fuel : Nat) (st : WSt) (d pv : Nat) (hrel : Rel st d pv)
    (h16 : st.cbits < 16) (hf : st.cbits < fuel + 8) :
    (∀ e, inner huffTree maxLen fuel st = .error e → specRun maxLen (pend d pv st.cur st.cbits ++ R) st.out = .error e) ∧
    (∀ st', inner huffTree maxLen fuel st = .ok st' → st'.cbits < 8 ∧ st'.cur = st.cur ∧ ∃ d' pv', Rel st' d' pv' ∧
      specRun maxLen (pend d pv st.cur st.cbits ++ R) st.out = specRun maxLen (pend d' pv' st'.cur st'.cbits ++ R) st'.out) := by
  induction fuel generalizing st d pv with
  | zero =>
    simp only [inner]
    refine ⟨fun e h => (by cases h), fun st' h => ?_⟩
    simp only [Except.ok.injEq] at h
    subst h
    exact ⟨by omega, rfl, d, pv, hrel, rfl⟩
  | succ fuel ih =>
    rw [inner]
    by_cases hg : 8 ≤ st.cbits
    · have hgd : decInnerGuard st.cbits = true := by simp [decInnerGuard, hg]
      rw [if_pos hgd, innerIdx_eq _ _ hg (by omega)]
      have hidx : st.cur / 2 ^ (st.cbits - 8) % 256 < 256 := Nat.mod_lt _ (by decide)
      cases hc : huffTree.child st.n (st.cur / 2 ^ (st.cbits - 8) % 256) with
      | none =>
        simp only
        refine ⟨fun e h => ?_, fun st' h => (by cases h)⟩
        simp only [Except.error.injEq] at h
        subst h
        apply specRun_eos
        have h1 := ent_none _ _ _ _ hrel.mem hidx hc
        rw [path_child _ _ _ hidx] at h1
        refine h1.trans ?_
        rw [← pend_ptr d pv st.cur st.cbits hg]
        unfold pend
        rw [path_child _ _ _ hidx]
        exact ⟨bitsOf st.cur (st.cbits - 8) ++ R, by simp [List.append_assoc]⟩
      | leaf sym r =>
        simp only
        obtain ⟨hr1, hr8, hs, hlen, hcode⟩ := ent_leaf _ _ _ _ _ _ hrel.mem hidx hc
        have hp := pend_leaf d pv st.cur st.cbits sym r _ hr1 hr8 (by omega) hidx hlen hcode (top_inner _ _ _ hg hr8)
        have hm := matchSym_code sym hs (bitsOf st.cur (st.cbits - r) ++ R)
        rw [← List.append_assoc, ← hp] at hm
        rw [specRun_match _ _ _ _ _ hm]
        by_cases hx : decMaxLenHit maxLen st.out.length = true
        · rw [if_pos hx, if_pos ((maxLenHit_iff _ _).1 hx)]
          exact ⟨fun e h => (by simp only [Except.error.injEq] at h; rw [h]), fun st' h => (by cases h)⟩
        · rw [if_neg hx, if_neg (fun h => hx ((maxLenHit_iff _ _).2 h))]
          rw [leafBits_eq _ _ (by omega) (by omega)]
          have hrel' : Rel { st with out := UInt8.ofNat sym :: st.out, cbits := st.cbits - r, n := 0,
                                     sbits := decLeafSbits (st.cbits - r) } 0 0 :=
            ⟨root_mem, by simp [decLeafSbits]⟩
          have := ih _ 0 0 hrel' (by simp only; omega) (by simp only; omega)
          simp only [pend_root] at this
          exact this
      | ptr id =>
        simp only
        rw [descBits_eq _ hg (by omega)]
        have hm := ent_ptr _ _ _ _ _ hrel.mem hidx hc
        have hrel' : Rel { st with n := id, cbits := st.cbits - 8 } (d + 1) (pv * 256 + st.cur / 2 ^ (st.cbits - 8) % 256) :=
          ⟨hm, by simp only; rw [hrel.sb]; omega⟩
        have := ih _ _ _ hrel' (by simp only; omega) (by simp only; omega)
        simp only [pend_ptr d pv st.cur st.cbits hg] at this
        exact this
    · have hgd : ¬ decInnerGuard st.cbits = true := by simp [decInnerGuard]; omega
      rw [if_neg hgd]
      refine ⟨fun e h => (by cases h), fun st' h => ?_⟩
      simp only [Except.ok.injEq] at h
      subst h
      exact ⟨by omega, rfl, d, pv, hrel, rfl⟩

/-! ### the loop over the input bytes -/

theorem feed_ok (maxLen : Nat) (v : Bytes) (st : WSt) (d pv : Nat) (hrel : Rel st d pv) (h8 : st.cbits < 8) :
    (∀ e, feed huffTree maxLen v st = .error e →
      specRun maxLen (pend d pv st.cur st.cbits ++ bytesToBits v) st.out = .error e) ∧
    (∀ st', feed huffTree maxLen v st = .ok st' → st'.cbits < 8 ∧ ∃ d' pv', Rel st' d' pv' ∧
      specRun maxLen (pend d pv st.cur st.cbits ++ bytesToBits v) st.out =
        specRun maxLen (pend d' pv' st'.cur st'.cbits) st'.out) := by
  induction v generalizing st d pv with
  | nil =>
    simp only [feed, bytesToBits, List.flatMap_nil, List.append_nil]
    refine ⟨fun e h => (by cases h), fun st' h => ?_⟩
    simp only [Except.ok.injEq] at h
    subst h
    exact ⟨h8, d, pv, hrel, rfl⟩
  | cons b r ih =>
    have hd := (node_ok _ _ _ hrel.mem).2.1
    have hsb := hrel.sb
    rw [feed, feedBits_eq _ (by omega), feedSbits_eq _ (by omega)]
    have hrel1 : Rel { st with cur := decFeed st.cur b.toNat, cbits := st.cbits + 8, sbits := st.sbits + 8 } d pv :=
      ⟨hrel.mem, by simp only; omega⟩
    have hi := inner_ok maxLen (bytesToBits r) 16 _ d pv hrel1 (by simp only; omega) (by simp only; omega)
    simp only [pend_feed d pv st.cur st.cbits b.toNat (UInt8.toNat_lt b) (by omega)] at hi
    rw [bytesToBits_cons, ← List.append_assoc]
    cases hin : inner huffTree maxLen 16
        { st with cur := decFeed st.cur b.toNat, cbits := st.cbits + 8, sbits := st.sbits + 8 } with
    | error e =>
      simp only
      refine ⟨fun e' h => ?_, fun st' h => (by cases h)⟩
      simp only [Except.error.injEq] at h
      subst h
      exact hi.1 e hin
    | ok st2 =>
      simp only
      obtain ⟨h28, _, d2, pv2, hrel2, heq⟩ := hi.2 st2 hin
      rw [heq]
      exact ih st2 d2 pv2 hrel2 h28

/-! ### the trailing loop and the two padding tests -/

/-- the two final tests of `huffmanDecode` -/
def finish (st : WSt) : Except HErr Bytes :=
  if decSbitsBad st.sbits then .error .invalid
  else if decMaskBad st.cur (decMask st.cbits) then .error .invalid
  else .ok st.out.reverse

theorem finish_spec (maxLen : Nat) (st : WSt) (d pv : Nat) (hrel : Rel st d pv) (h8 : st.cbits < 8)
    (hm : matchSym (pend d pv st.cur st.cbits) = none) :
    finish st = specRun maxLen (pend d pv st.cur st.cbits) st.out := by
  rw [specRun_none _ _ _ hm, length_pend]
  unfold finish decSbitsBad
  have hsb := hrel.sb
  by_cases h7 : st.sbits > 7
  · rw [if_pos (by simpa using h7), if_neg (by omega)]
  · rw [if_neg (by simpa using h7)]
    have hd0 : d = 0 := by omega
    subst hd0
    rw [mask_eq _ (by omega), maskBad_eq, pend_root]
    by_cases hall : st.cur % 2 ^ st.cbits = 2 ^ st.cbits - 1
    · rw [if_neg (by simpa using hall), if_pos ⟨by omega, (bitsOf_all_true _ _).2 hall⟩]
    · rw [if_pos (by simpa using hall), if_neg (fun h => hall ((bitsOf_all_true _ _).1 h.2))]

/-- no code is a prefix of the bits that lead to an internal node -/
theorem no_code_on_path (n d pv s : Nat) (hn : (n, d, pv) ∈ nodePaths) (hs : s < 256) : ¬ codeBits s <+: bitsOf pv (8 * d) := by
  intro h
  have hk := node_ok n d pv hn
  have := isPrefixCode_of_prefix _ _ _ _ (wf_sym s hs).2.2 hk.1 h
  rw [hk.2.2.1 s hs] at this
  exact Bool.noConfusion this

/-- the zero-filled lookup index of the trailing loop starts with the unread bits -/
theorem tail_bits (cur c : Nat) (hc : c ≤ 8) : bitsOf (cur * 2 ^ (8 - c) % 256) 8 = bitsOf cur c ++ List.replicate (8 - c) false := by
  rw [show (256 : Nat) = 2 ^ 8 by decide, bitsOf_mod _ _ _ (Nat.le_refl 8)]
  have := bitsOf_mul_add cur 0 c (8 - c) (Nat.two_pow_pos _)
  rw [Nat.add_zero, show c + (8 - c) = 8 by omega, bitsOf_zero_val] at this
  exact this

/-- what is pending is a prefix of (path, zero-filled lookup index) -/
theorem pend_prefix (d pv cur c : Nat) (hc : c ≤ 8) :
    pend d pv cur c <+: bitsOf (pv * 256 + cur * 2 ^ (8 - c) % 256) (8 * (d + 1)) := by
  rw [path_child _ _ _ (Nat.mod_lt _ (by decide)), tail_bits _ _ hc]
  exact ⟨List.replicate (8 - c) false, by simp [pend, List.append_assoc]⟩

theorem nomatch_zero (st : WSt) (d pv : Nat) (hrel : Rel st d pv) (h0 : st.cbits = 0) :
    matchSym (pend d pv st.cur st.cbits) = none := by
  apply matchSym_none
  intro s hs hp
  rw [h0] at hp
  simp only [pend, bitsOf_zero, List.append_nil] at hp
  exact no_code_on_path _ _ _ s hrel.mem hs hp

theorem nomatch_ptr (st : WSt) (d pv id : Nat) (hrel : Rel st d pv) (h8 : st.cbits ≤ 8)
    (hc : huffTree.child st.n (st.cur * 2 ^ (8 - st.cbits) % 256) = .ptr id) :
    matchSym (pend d pv st.cur st.cbits) = none := by
  apply matchSym_none
  intro s hs hp
  have hm := ent_ptr _ _ _ _ _ hrel.mem (Nat.mod_lt _ (by decide)) hc
  exact no_code_on_path _ _ _ s hm hs (hp.trans (pend_prefix d pv st.cur st.cbits h8))

theorem nomatch_leaf (st : WSt) (d pv sym r : Nat) (hrel : Rel st d pv) (h8 : st.cbits ≤ 8)
    (hc : huffTree.child st.n (st.cur * 2 ^ (8 - st.cbits) % 256) = .leaf sym r) (hr : r > st.cbits) :
    matchSym (pend d pv st.cur st.cbits) = none := by
  apply matchSym_none
  intro s hs hp
  have hidx : st.cur * 2 ^ (8 - st.cbits) % 256 < 256 := Nat.mod_lt _ (by decide)
  obtain ⟨hr1, hr8, hs', hlen, hcode⟩ := ent_leaf _ _ _ _ _ _ hrel.mem hidx hc
  -- the leaf's code is a prefix of (path, index) too
  have hlt : (st.cur * 2 ^ (8 - st.cbits) % 256) / 2 ^ (8 - r) < 2 ^ r := by
    rw [Nat.div_lt_iff_lt_mul (Nat.two_pow_pos _), ← Nat.pow_add, show r + (8 - r) = 8 by omega]; exact hidx
  have h1 : codeBits sym <+: bitsOf (pv * 256 + st.cur * 2 ^ (8 - st.cbits) % 256) (8 * (d + 1)) := by
    rw [path_child _ _ _ hidx]
    unfold codeBits
    rw [hlen, hcode, bitsOf_mul_add _ _ _ _ hlt]
    have := bitsOf_add (st.cur * 2 ^ (8 - st.cbits) % 256) r (8 - r)
    rw [show r + (8 - r) = 8 by omega] at this
    rw [this]
    exact ⟨bitsOf (st.cur * 2 ^ (8 - st.cbits) % 256) (8 - r), by simp [List.append_assoc]⟩
  have h2 := hp.trans (pend_prefix d pv st.cur st.cbits h8)
  have := code_unique s sym (by omega) (by omega) _ (by rw [bitsAt_sym s hs]; exact h2) (by rw [bitsAt_sym sym hs']; exact h1)
  subst this
  have := hp.length_le
  rw [length_codeBits, length_pend, hlen] at this
  omega

theorem tail_ok (maxLen : Nat) (fuel : Nat) (st : WSt) (d pv : Nat) (hrel : Rel st d pv) (h8 : st.cbits < 8)
    (hf : st.cbits ≤ fuel) :
    (tail huffTree maxLen fuel st).bind finish = specRun maxLen (pend d pv st.cur st.cbits) st.out := by
  induction fuel generalizing st d pv with
  | zero =>
    simp only [tail, Except.bind]
    exact finish_spec maxLen st d pv hrel h8 (nomatch_zero st d pv hrel (by omega))
  | succ fuel ih =>
    rw [tail]
    by_cases hc0 : st.cbits = 0
    · have : ¬ decTailGuard st.cbits = true := by simp [decTailGuard, hc0]
      rw [if_neg this]
      simp only [Except.bind]
      exact finish_spec maxLen st d pv hrel h8 (nomatch_zero st d pv hrel hc0)
    · have : decTailGuard st.cbits = true := by simp [decTailGuard]; omega
      rw [if_pos this, tailIdx_eq _ _ (by omega)]
      have hidx : st.cur * 2 ^ (8 - st.cbits) % 256 < 256 := Nat.mod_lt _ (by decide)
      cases hc : huffTree.child st.n (st.cur * 2 ^ (8 - st.cbits) % 256) with
      | none =>
        simp only [Except.bind]
        have he := ent_none _ _ _ _ hrel.mem hidx hc
        have hpp := pend_prefix d pv st.cur st.cbits (by omega)
        have hm : matchSym (pend d pv st.cur st.cbits) = none := by
          apply matchSym_none
          intro s hs hp
          have := code_unique s 256 (by omega) (by omega) _ (by rw [bitsAt_sym s hs]; exact hp.trans hpp) (by rw [bitsAt_eos]; exact he)
          omega
        rw [specRun_none _ _ _ hm, if_neg]
        have hl := he.length_le
        have e30 : MosnVerif.Model.Huffman.eosLen = 30 := rfl
        simp only [eosBits, length_bitsOf, e30] at hl
        rw [length_pend]
        omega
      | ptr id =>
        simp only [decTailBreak, Bool.true_or, if_true, Except.bind]
        exact finish_spec maxLen st d pv hrel h8 (nomatch_ptr st d pv id hrel (by omega) hc)
      | leaf sym r =>
        simp only
        by_cases hr : r > st.cbits
        · have : decTailBreak false r st.cbits = true := by simp [decTailBreak, hr]
          rw [if_pos this]
          simp only [Except.bind]
          exact finish_spec maxLen st d pv hrel h8 (nomatch_leaf st d pv sym r hrel (by omega) hc hr)
        · have : ¬ decTailBreak false r st.cbits = true := by simp [decTailBreak]; omega
          rw [if_neg this]
          obtain ⟨hr1, hr8, hs, hlen, hcode⟩ := ent_leaf _ _ _ _ _ _ hrel.mem hidx hc
          have hp := pend_leaf d pv st.cur st.cbits sym r _ hr1 hr8 (by omega) hidx hlen hcode
            (top_tail _ _ _ (by omega) (by omega))
          have hm := matchSym_code sym hs (bitsOf st.cur (st.cbits - r))
          rw [← hp] at hm
          rw [specRun_match _ _ _ _ _ hm]
          by_cases hx : decMaxLenHit maxLen st.out.length = true
          · rw [if_pos hx, if_pos ((maxLenHit_iff _ _).1 hx)]; rfl
          · rw [if_neg hx, if_neg (fun h => hx ((maxLenHit_iff _ _).2 h)), leafBits_eq _ _ (by omega) (by omega)]
            have hrel' : Rel { st with out := UInt8.ofNat sym :: st.out, cbits := st.cbits - r, n := 0,
                                       sbits := decLeafSbits (st.cbits - r) } 0 0 :=
              ⟨root_mem, by simp [decLeafSbits]⟩
            have := ih _ 0 0 hrel' (by simp only; omega) (by simp only; omega)
            simp only [pend_root] at this
            exact this

/-! ### the walker is the declarative decoder -/

theorem walk_unfold (maxLen : Nat) (v : Bytes) :
    walk maxLen v = (feed huffTree maxLen v WSt.init).bind (fun st => (tail huffTree maxLen 9 st).bind finish) := by
  unfold walk
  cases feed huffTree maxLen v WSt.init with
  | error e => rfl
  | ok st =>
    simp only [Except.bind]
    cases tail huffTree maxLen 9 st with
    | error e => rfl
    | ok st' => rfl

/-- **huffmanDecode computes the declarative decoder**, for every byte string and every `maxLen` -/
theorem walk_eq_spec (maxLen : Nat) (v : Bytes) : walk maxLen v = decodeSpecMax maxLen v := by
  rw [walk_unfold, decodeSpecMax_eq]
  have hrel : Rel WSt.init 0 0 := ⟨root_mem, rfl⟩
  have hf := feed_ok maxLen v WSt.init 0 0 hrel (by decide)
  have hp : pend 0 0 WSt.init.cur WSt.init.cbits = [] := rfl
  rw [hp, List.nil_append] at hf
  cases hfe : feed huffTree maxLen v WSt.init with
  | error e => simp only [Except.bind]; exact (hf.1 e hfe).symm
  | ok st =>
    simp only [Except.bind]
    obtain ⟨h8, d, pv, hrel', heq⟩ := hf.2 st hfe
    have : WSt.init.out = [] := rfl
    rw [this] at heq
    rw [heq]
    exact tail_ok maxLen 9 st d pv hrel' h8 (by omega)

/-! ### HuffmanEncodeLength -/

theorem lenSum_le (s : Bytes) : (s.map (fun c => lenOf c.toNat)).sum ≤ 30 * s.length := by
  induction s with
  | nil => simp
  | cons c s ih =>
    have := (wf_sym c.toNat (UInt8.toNat_lt c)).2.1
    simp only [List.map_cons, List.sum_cons, List.length_cons]
    omega

theorem encLen_fold (s : Bytes) (n : Nat) (h : n + 30 * s.length < 2 ^ 64) :
    s.foldl (fun n c => encLenTerm n (lenOf c.toNat)) n = n + (s.map (fun c => lenOf c.toNat)).sum := by
  induction s generalizing n with
  | nil => simp
  | cons c s ih =>
    have hl := (wf_sym c.toNat (UInt8.toNat_lt c)).2.1
    simp only [List.foldl_cons, List.map_cons, List.sum_cons, List.length_cons] at h ⊢
    have e : encLenTerm n (lenOf c.toNat) = n + lenOf c.toNat := by
      unfold encLenTerm
      exact Nat.mod_eq_of_lt (by omega)
    rw [e, ih _ (by omega)]
    omega

/-- `HuffmanEncodeLength` is `⌈Σ codeLen / 8⌉` (no uint64 wrap-around below 2^58 bytes) -/
theorem goEncodeLen_eq (s : Bytes) (h : s.length < 2 ^ 58) : goEncodeLen s = encodeLen s := by
  unfold goEncodeLen encodeLen
  rw [encLen_fold s 0 (by omega), Nat.zero_add]
  unfold encLenRound
  have := lenSum_le s
  rw [Nat.mod_eq_of_lt (by omega)]

end MosnVerif.Lemmas.HuffWalk
