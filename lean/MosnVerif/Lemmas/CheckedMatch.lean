import MosnVerif.Lemmas.CheckedGo
import MosnVerif.Gen.C08Matchers
/-!
C08: the regenerated protocol matchers (Gen/C08Matchers: every index / slice / big-endian read of the Go functions is a
checked primitive) never access the peeked bytes outside `[0, len)`, for EVERY byte string.  Each proof walks the
regenerated program (`chk_auto`): an access whose bounds do not follow from the guards on its path leaves a goal open.
-/
namespace MosnVerif.Lemmas.CheckedMatch
open MosnVerif.Model.CheckedGo MosnVerif.Gen.C08Matchers

theorem bolt_safe (data : Bytes) : (bolt_matcher data).Safe (fun _ => True) := by
  unfold bolt_matcher bolt_boltMatcher; chk_auto

theorem boltv2_safe (data : Bytes) : (boltv2_matcher data).Safe (fun _ => True) := by
  unfold boltv2_matcher boltv2_boltv2Matcher; chk_auto

theorem dubbo_safe (data : Bytes) : (dubbo_matcher data).Safe (fun _ => True) := by
  unfold dubbo_matcher dubbo_dubboMatcher; chk_auto

theorem thrift_safe (data : Bytes) : (thrift_matcher data).Safe (fun _ => True) := by
  unfold thrift_matcher thrift_thriftMatcher; chk_auto

/-- TarsGo `TarsRequest`: safe on every byte string; a FULL status (1) comes with a package length inside the bytes -/
theorem tarsRequest_safe (rev : Bytes) : (tars_TarsRequest rev).Safe (fun r => r.2 = 1 → 4 ≤ r.1 ∧ r.1 ≤ len rev) := by
  unfold tars_TarsRequest; chk_auto
  all_goals (dsimp only [] at *; first | contradiction | chk_side)

macro_rules | `(tactic| chk_step) => `(tactic| (refine Safe.bind (tarsRequest_safe _) ?_; intro _ _))

theorem tars_safe (data : Bytes) : (tars_matcher data).Safe (fun _ => True) := by
  unfold tars_matcher tars_tarsMatcher; chk_auto

theorem http1_safe (magic : Bytes) : (http1_matcher magic).Safe (fun _ => True) := by
  unfold http1_matcher http1_StreamConnFactory_ProtocolMatch; chk_auto

theorem http2_safe (magic : Bytes) : (http2_matcher magic).Safe (fun _ => True) := by
  unfold http2_matcher http2_StreamConnFactory_ProtocolMatch; chk_auto

end MosnVerif.Lemmas.CheckedMatch
