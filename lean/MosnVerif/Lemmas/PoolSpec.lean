import MosnVerif.Lemmas.PoolSteps
/-! C09: capacity of the pool as a function of the truth, and the executable observation predicate (`obsSpec`,
`newStreamSpec`) holds of every model state satisfying the invariant. -/
namespace MosnVerif.Model.Pool
open MosnVerif.Gen.Pool


def Res.isOk : Res → Bool
  | .ok _ => true
  | _ => false

theorem canCreate_iff (s : State) (h : Inv s) :
    canCreate s.maxReq s.reqCur = true ↔ (s.maxReq = 0 ∨ s.ext + s.liveCount < s.maxReq) := by
  rw [h.req]
  unfold canCreate
  by_cases hm : s.maxReq = 0
  · simp [hm]
  · simp only [hm, if_false]
    have : ¬ ((s.maxReq : Int) = 0) := by omega
    simp only [this, decide_false, Bool.false_eq_true, if_false]
    split
    · rename_i hneg; simp at hneg; omega
    · simp; omega

theorem acquire_isOk (s : State) (f : Dial) :
    (acquire s f).2.isOk =
      if s.idle.isEmpty then (!f.fails && (match s.kind with
        | .h1 => h1CanNew s.maxConn (s.total + h1NewDelta) | .pp => ppCanNew s.maxConn s.total))
      else !(match s.kind with
        | .h1 => h1ReuseRefused s.maxConn s.total s.idle.length | .pp => ppReuseRefused s.maxConn s.total s.idle.length) := by
  obtain ⟨kind, maxConn, maxReq, total, idle, nClients, client, nStreams, stream, reqCur, ext⟩ := s
  cases kind <;> cases f <;> simp only [acquire, Dial.fails] <;> (repeat' split) <;> simp_all [Res.isOk]

theorem newStream_isOk (s : State) (f : Dial) :
    (newStream s f).2.isOk = (canCreate s.maxReq s.reqCur && (acquire s f).2.isOk) := by
  unfold newStream
  rw [breakerFirst_eq]
  simp only [if_true]
  split
  · rename_i hc
    rw [hc, Bool.true_and]
    rcases hacq : acquire s f with ⟨s1, r⟩
    cases r <;> simp [Res.isOk]
  · rename_i hc; simp [Res.isOk, hc]

/-- **capacity is a function of the truth**: `NewStream` grants a lease exactly when the requests breaker has room
and fewer than `maxConn` connections are really in use (and a connection can be had: an idle one, or a connect that
succeeds). -/
theorem granted_iff (s : State) (h : Inv s) (f : Dial) :
    (newStream s f).2.isOk = true ↔
      ((s.maxReq = 0 ∨ s.ext + s.liveCount < s.maxReq) ∧ (s.maxConn = 0 ∨ s.liveCount < s.maxConn) ∧
       (f.fails = false ∨ s.idle ≠ [])) := by
  have hb := h.books
  rw [newStream_isOk, Bool.and_eq_true, canCreate_iff s h, acquire_isOk]
  have hlen : s.idle.isEmpty = true ↔ s.idle.length = 0 := by simp [List.isEmpty_iff]
  have hne : s.idle ≠ [] ↔ s.idle.length ≠ 0 := by simp
  rw [hne]
  generalize s.idle.length = n at *
  generalize s.liveCount = L at *
  generalize s.total = t at *
  by_cases hn : n = 0
  · have : s.idle.isEmpty = true := hlen.mpr hn
    simp only [this, if_true]
    have e1 : h1NewDelta = 1 := rfl
    rw [e1]
    cases s.kind <;> cases f <;> simp [h1CanNew, ppCanNew, hn, Dial.fails] <;> omega
  · have : s.idle.isEmpty = false := by cases hx : s.idle.isEmpty; rfl; exact absurd (hlen.mp hx) hn
    simp only [this, Bool.false_eq_true, if_false]
    cases s.kind <;> cases f <;>
      simp [h1ReuseRefused, ppReuseRefused, hn, Dial.fails] <;> omega


/-! ### the observation of a model state satisfies the executable predicate -/
def liveIdx (s : State) : List Nat := (List.range s.nStreams).filter (fun i => (s.stream i).live)

theorem nodup_map_on {l : List Nat} (f : Nat → Nat) (h : ∀ x, x ∈ l → ∀ y, y ∈ l → f x = f y → x = y) (hl : l.Nodup) :
    (l.map f).Nodup := by
  induction l with
  | nil => simp
  | cons a r ih =>
    rw [List.nodup_cons] at hl
    rw [List.map_cons, List.nodup_cons]
    refine ⟨?_, ih (fun x hx y hy => h x (by simp [hx]) y (by simp [hy])) hl.2⟩
    intro hm
    obtain ⟨y, hy, hfy⟩ := List.mem_map.mp hm
    have := h y (by simp [hy]) a (by simp) hfy
    subst this; exact hl.1 hy

theorem mem_liveIdx (s : State) (i : Nat) : i ∈ liveIdx s ↔ i < s.nStreams ∧ (s.stream i).live = true := by
  simp [liveIdx, List.mem_filter, List.mem_range]

theorem length_filter_range (f : Nat → Stream) (n : Nat) :
    ((List.range n).filter (fun i => (f i).live)).length = countLive f n := by
  induction n with
  | zero => rfl
  | succ n ih =>
    rw [List.range_succ, List.filter_append, List.length_append, ih]
    simp only [countLive, List.filter_cons, List.filter_nil]
    split <;> simp

theorem length_liveIdx (s : State) : (liveIdx s).length = s.liveCount := length_filter_range _ _

theorem liveConns_obsOf (s : State) (h : Inv s) :
    (obsOf s).liveConns = (liveIdx s).map (fun i => (s.stream i).conn) := by
  simp only [Obs.liveConns, obsOf, List.filter_map, List.map_map, liveIdx]
  congr 1
  apply List.filter_congr
  intro i hi
  have hi' := List.mem_range.mp hi
  simp only [Function.comp, OStream.live]
  cases hl : (s.stream i).live
  · have := (h.deadOnce i hi' hl).1; simp [this]
  · have := (h.liveFresh i hi' hl).2.2; simp [this]

theorem isOpen_obsOf (s : State) (c : Nat) :
    (obsOf s).isOpen c = (decide (c < s.nClients) && (s.client c).netOpen) := by
  simp only [Obs.isOpen, obsOf, List.getD_eq_getElem?_getD, List.getElem?_map]
  by_cases hc : c < s.nClients
  · simp [hc]
  · have hn : (List.range s.nClients)[c]? = none := by
      rw [List.getElem?_eq_none_iff]; simp; omega
    simp [hc]

theorem obsSpec_holds (s : State) (h : Inv s) : obsSpec s.maxReq s.ext (obsOf s) = true := by
  have hlc := liveConns_obsOf s h
  have hmem : ∀ c, c ∈ (obsOf s).liveConns ↔ ∃ i, i < s.nStreams ∧ (s.stream i).live = true ∧ (s.stream i).conn = c := by
    intro c; rw [hlc, List.mem_map]
    constructor
    · rintro ⟨i, hi, hc⟩; exact ⟨i, ((mem_liveIdx s i).mp hi).1, ((mem_liveIdx s i).mp hi).2, hc⟩
    · rintro ⟨i, hi, hl, hc⟩; exact ⟨i, (mem_liveIdx s i).mpr ⟨hi, hl⟩, hc⟩
  have hlen : (obsOf s).liveConns.length = s.liveCount := by rw [hlc, List.length_map, length_liveIdx]
  have hnd : (obsOf s).liveConns.Nodup := by
    rw [hlc]
    apply nodup_map_on
    · intro x hx y hy hxy
      have hx' := (mem_liveIdx s x).mp hx
      have hy' := (mem_liveIdx s y).mp hy
      exact h.excl x y hx'.1 hy'.1 hx'.2 hy'.2 hxy
    · exact List.Nodup.sublist List.filter_sublist List.nodup_range
  unfold obsSpec
  simp only [Bool.and_eq_true, decide_eq_true_eq, List.all_eq_true, Bool.or_eq_true, Bool.not_eq_true',
    List.contains_iff_mem, isOpen_obsOf, beq_iff_eq]
  refine ⟨⟨⟨⟨⟨⟨⟨⟨hnd, h.idleNodup⟩, ?_⟩, ?_⟩, ?_⟩, ?_⟩, ?_⟩, ?_⟩, ?_⟩
  · intro c hc
    have ⟨h1, h2, h3⟩ := h.idleOk c hc
    refine ⟨⟨h1, by rw [h.flagTruth c h1, h2]; rfl⟩, ?_⟩
    cases hx : (obsOf s).liveConns.contains c
    · rfl
    · rw [List.contains_iff_mem, hmem] at hx
      obtain ⟨i, hi, hl, hcc⟩ := hx
      exact absurd hcc (h3 i hi hl)
  · intro c hc
    obtain ⟨i, hi, hl, hcc⟩ := (hmem c).mp hc
    subst hcc
    have := h.connOk i hi
    exact ⟨this, by rw [h.flagTruth _ this, h.liveOk i hi hl]; rfl⟩
  · intro c hc
    have hc' : c < s.nClients := by simpa [obsOf] using List.mem_range.mp hc
    cases hcl : (s.client c).closed
    · rcases h.noLeak c hc' hcl with h1 | ⟨i, hi, hl, hcc⟩
      · left; right; exact h1
      · right; exact (hmem c).mpr ⟨i, hi, hl, hcc⟩
    · left; left; rw [h.flagTruth c hc', hcl]; simp
  · show s.total = ((obsOf s).liveConns.length : Int) + (s.idle.length : Int)
    rw [hlen]; exact h.books
  · show s.reqCur = if s.maxReq = 0 then 0 else (s.ext : Int) + ((obsOf s).liveConns.length : Int)
    rw [hlen]; exact h.req
  · intro st hst
    simp only [obsOf, List.mem_map, List.mem_range] at hst
    obtain ⟨i, hi, rfl⟩ := hst
    simp only
    by_cases hr : (s.stream i).resets = []
    · left; simp [hr]
    · right
      have hd := h.resetDirty i hi hr
      have hcn := h.connOk i hi
      have hcl := h.dirtyClosed _ hcn hd
      rw [h.flagTruth _ hcn, hcl]; simp
  · intro st hst
    simp only [obsOf, List.mem_map, List.mem_range] at hst
    obtain ⟨i, hi, rfl⟩ := hst
    simp only
    cases hl : (s.stream i).live
    · have ⟨d1, d2, d3, d4⟩ := h.deadOnce i hi hl
      refine ⟨⟨⟨by omega, d2⟩, d3⟩, ?_⟩
      by_cases hr : (s.stream i).recv = 0
      · left; exact hr
      · right; exact ⟨d1, by have := d4 (by omega); simp [this]⟩
    · have ⟨f1, f2, f3⟩ := h.liveFresh i hi hl
      refine ⟨⟨⟨by omega, by omega⟩, by simp [f2]⟩, Or.inl f1⟩

theorem newStream_refused (s : State) (f : Dial) (h : (newStream s f).2.isOk = false) : (newStream s f).1 = s := by
  rcases newStream_cases s f with e | e | e | ⟨rest, c, _, e⟩ <;> rw [e] at h ⊢ <;> simp [Res.isOk] at h ⊢

theorem newStreamSpec_holds (s : State) (h : Inv s) (f : Dial) :
    newStreamSpec s.maxConn s.maxReq s.ext f.fails (obsOf s) (newStream s f).2.isOk (obsOf (newStream s f).1) = true := by
  have hlen : (obsOf s).liveConns.length = s.liveCount := by
    rw [liveConns_obsOf s h, List.length_map, length_liveIdx]
  have hg := granted_iff s h f
  unfold newStreamSpec
  simp only [Bool.and_eq_true, Bool.or_eq_true, beq_iff_eq]
  refine ⟨?_, ?_⟩
  · cases hok : (newStream s f).2.isOk
    · right; rw [newStream_refused s f hok]
    · left; rfl
  · have hidle : (obsOf s).idle = s.idle := rfl
    rw [hlen, hidle]
    have hne : (s.idle.isEmpty = false) ↔ s.idle ≠ [] := by simp
    cases hok : (newStream s f).2.isOk
    · symm; rw [decide_eq_false_iff_not]
      intro hh
      have : (newStream s f).2.isOk = true := hg.mpr ⟨by omega, hh.1.2, by rcases hh.2 with h1 | h1; exact Or.inl h1; exact Or.inr (hne.mp h1)⟩
      rw [hok] at this; exact absurd this (by decide)
    · symm; rw [decide_eq_true_iff]
      have := hg.mp hok
      exact ⟨⟨by omega, this.2.1⟩, by rcases this.2.2 with h1 | h1; exact Or.inl h1; exact Or.inr (hne.mpr h1)⟩

/-! ### the configuration never changes -/
def SameCfg (s s' : State) : Prop := s'.kind = s.kind ∧ s'.maxConn = s.maxConn ∧ s'.maxReq = s.maxReq

theorem SameCfg.rfl' (s : State) : SameCfg s s := ⟨rfl, rfl, rfl⟩
theorem SameCfg.trans {a b c : State} (h1 : SameCfg a b) (h2 : SameCfg b c) : SameCfg a c :=
  ⟨h2.1.trans h1.1, h2.2.1.trans h1.2.1, h2.2.2.trans h1.2.2⟩

theorem netDown_cfg (s : State) (c : Nat) : SameCfg s (netDown s c) := by
  unfold netDown; split
  · exact ⟨rfl, rfl, rfl⟩
  · exact SameCfg.rfl' s

theorem onStreamDestroy_cfg (s : State) (c : Nat) : SameCfg s (onStreamDestroy s c) := by
  unfold onStreamDestroy
  simp only []
  split
  · have h1 := netDown_cfg s c
    split <;> exact ⟨h1.1, h1.2.1, h1.2.2⟩
  · split <;> exact ⟨rfl, rfl, rfl⟩

theorem destroyStream_cfg (s : State) (i : Nat) : SameCfg s (destroyStream s i) := by
  unfold destroyStream
  simp only []
  split
  · exact SameCfg.trans ⟨rfl, rfl, rfl⟩ (onStreamDestroy_cfg _ _)
  · exact SameCfg.rfl' s

theorem resetStream_cfg (s : State) (i : Nat) (r : String) : SameCfg s (resetStream s i r) := by
  unfold resetStream
  simp only []
  split
  · exact SameCfg.trans ⟨rfl, rfl, rfl⟩ (destroyStream_cfg _ _)
  · exact SameCfg.rfl' s

theorem netClose_cfg (s : State) (c : Nat) (r : String) : SameCfg s (netClose s c r) := by
  unfold netClose
  split
  · simp only []
    split
    · exact SameCfg.trans (netDown_cfg s c) (resetStream_cfg _ _ _)
    · exact netDown_cfg s c
  · exact SameCfg.rfl' s

theorem foldClose_cfg (l : List Nat) (s : State) : SameCfg s (foldClose l s) := by
  induction l generalizing s with
  | nil => exact SameCfg.rfl' s
  | cons c r ih =>
    simp only [foldClose, List.foldl_cons] at ih ⊢
    exact SameCfg.trans (netClose_cfg s c _) (ih _)

theorem newStream_cfg (s : State) (f : Dial) : SameCfg s (newStream s f).1 := by
  rcases newStream_cases s f with e | e | e | ⟨rest, c, _, e⟩ <;> rw [e] <;> exact ⟨rfl, rfl, rfl⟩

theorem step_cfg (s : State) (op : Op) : SameCfg s (step s op).1 := by
  cases op with
  | newStream f => exact newStream_cfg s f
  | response i cc =>
    simp only [step]; split
    · refine SameCfg.trans (b := destroyStream _ i) (SameCfg.trans ?_ (destroyStream_cfg _ i)) ⟨rfl, rfl, rfl⟩
      split
      · exact ⟨rfl, rfl, rfl⟩
      · exact SameCfg.rfl' s
    · exact SameCfg.rfl' s
  | garbage i =>
    simp only [step]; split
    · split
      · exact resetStream_cfg _ _ _
      · exact netClose_cfg _ _ _
    · exact SameCfg.rfl' s
  | localReset i => simp only [step]; split; exact resetStream_cfg _ _ _; exact SameCfg.rfl' s
  | lateReset i =>
    simp only [step]; split
    · exact SameCfg.trans (resetStream_cfg _ _ _) (destroyStream_cfg _ _)
    · exact SameCfg.rfl' s
  | goAway c => simp only [step]; split; exact ⟨rfl, rfl, rfl⟩; exact SameCfg.rfl' s
  | unknownReply c => exact SameCfg.rfl' s
  | connClose c remote => exact netClose_cfg _ _ _
  | shutdown => exact ⟨rfl, rfl, rfl⟩
  | closeAll => exact foldClose_cfg _ _
  | extInc => exact ⟨rfl, rfl, rfl⟩
  | extDec => simp only [step]; split; exact ⟨rfl, rfl, rfl⟩; exact SameCfg.rfl' s

theorem run_cfg (s : State) (ops : List Op) : SameCfg s (run s ops) := by
  induction ops generalizing s with
  | nil => exact SameCfg.rfl' s
  | cons op r ih => exact SameCfg.trans (step_cfg s op) (ih _)

end MosnVerif.Model.Pool
