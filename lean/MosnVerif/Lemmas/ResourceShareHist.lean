import MosnVerif.Lemmas.ResourceShare
import MosnVerif.Model.ResourceShareHist
/-! The object graph under the regenerated programs refines the ledger by name (C10, builder c10p10): `objMach Code.gen` and
`refMach` are bisimilar on histories without a threshold moved through zero under a held unit. -/
namespace MosnVerif.Model.ResourceShare
open MosnVerif.Gen.ResourceShare

/-! ## the interpreter preserves any bisimulation of the machines -/

theorem stepS_bisim {σ τ : Type} (M : Mach σ) (N : Mach τ) (R : σ → τ → Prop) (good : τ → SOp → Prop)
    (h_has : ∀ s t id, R s t → M.has s id = N.has t id)
    (h_hasT : ∀ s t id, R s t → M.hasT s id = N.hasT t id)
    (h_route : ∀ s t k, R s t → R (M.route s k) (N.route t k))
    (h_req : ∀ s t k, R s t → (M.admitReq s k).2 = (N.admitReq t k).2 ∧ R (M.admitReq s k).1 (N.admitReq t k).1)
    (h_retr : ∀ s t k, R s t → (M.admitRetr s k).2 = (N.admitRetr t k).2 ∧ R (M.admitRetr s k).1 (N.admitRetr t k).1)
    (h_conn : ∀ s t j, R s t → (M.admitConn s j).2 = (N.admitConn t j).2 ∧ R (M.admitConn s j).1 (N.admitConn t j).1)
    (h_rel : ∀ s t id, R s t → R (M.rel s id) (N.rel t id))
    (h_relT : ∀ s t id, R s t → R (M.relT s id) (N.relT t id))
    (h_upd : ∀ s t p ty thr, R s t → good t (.update p ty thr) → R (M.update s p ty thr) (N.update t p ty thr))
    (s : σ) (t : τ) (op : SOp) (hr : R s t) (hg : good t op) :
    (stepS M s op).2 = (stepS N t op).2 ∧ R (stepS M s op).1 (stepS N t op).1 := by
  cases op with
  | start k =>
    simp only [stepS, h_has s t _ hr]
    by_cases hh : N.has t (2 * k) = true
    · simp [hh, hr]
    · have := h_req _ _ k (h_route s t k hr)
      simp [hh, this.1, this.2]
  | retry k =>
    simp only [stepS, h_has s t _ hr]
    by_cases hh : N.has t (2 * k) = true
    · have r1 := h_retr _ _ k (h_rel _ _ (2 * k + 1) (h_rel _ _ (2 * k) hr))
      simp only [hh, if_true, r1.1]
      by_cases h1 : (N.admitRetr (N.rel (N.rel t (2 * k)) (2 * k + 1)) k).2 = true
      · have r2 := h_req _ _ k r1.2
        simp only [h1, if_true, r2.1]
        by_cases h2 : (N.admitReq (N.admitRetr (N.rel (N.rel t (2 * k)) (2 * k + 1)) k).1 k).2 = true
        · simp [h2, r2.2]
        · simp [h2, h_rel _ _ (2 * k + 1) r2.2]
      · simp [h1, r1.2]
    · simp [hh, hr]
  | fin k =>
    simp only [stepS, h_has s t _ hr]
    by_cases hh : N.has t (2 * k) = true
    · simp [hh, h_rel _ _ (2 * k + 1) (h_rel _ _ (2 * k) hr)]
    · simp [hh, hr]
  | open_ j =>
    simp only [stepS, h_hasT s t _ hr]
    by_cases hh : N.hasT t j = true
    · simp [hh, hr]
    · have := h_conn _ _ j hr
      simp [hh, this.1, this.2]
  | close j =>
    simp only [stepS, h_hasT s t _ hr]
    by_cases hh : N.hasT t j = true
    · simp [hh, h_relT _ _ j hr]
    · simp [hh, hr]
  | update p ty thr =>
    simp only [stepS]
    exact ⟨trivial, h_upd s t p ty thr hr hg⟩

/-! ## holders by key -/

def key (hd : Holder) : Nat × Res := (hd.id, hd.res)

theorem countK_map (r : Res) (l : List Holder) : countK r (l.map key) = count r l := by
  induction l with
  | nil => rfl
  | cons a l ih => simp [countK, count, key, ih]

theorem hasK_map (id : Nat) (l : List Holder) : hasK id (l.map key) = (findId id l).isSome := by
  induction l with
  | nil => rfl
  | cons a l ih =>
    by_cases ha : a.id = id <;> simp [hasK, findId, key, ha, ih]

theorem removeK_map (id : Nat) (l : List Holder) : removeK id (l.map key) = (removeId id l).map key := by
  induction l with
  | nil => rfl
  | cons a l ih =>
    by_cases ha : a.id = id <;> simp [removeK, removeId, key, ha]
    simpa [key] using ih

/-! ## frames -/

theorem admit_frame (s : State) (id : Nat) (r : Res) (t p : Path) :
    (acquire s id r t p).1.nHost = s.nHost ∧ (acquire s id r t p).1.nInfo = s.nInfo ∧ (acquire s id r t p).1.hosts = s.hosts ∧
    (acquire s id r t p).1.cur = s.cur := by
  unfold acquire
  by_cases hv : (validPath s t && validPath s p) = true
  · by_cases hc : canCreate (s.mgr (mgrOf s t)) r = true <;> simp [hv, hc]
  · simp [hv]

theorem release_frame (s : State) (id : Nat) :
    (release s id).nHost = s.nHost ∧ (release s id).nInfo = s.nInfo ∧ (release s id).hosts = s.hosts ∧ (release s id).cur = s.cur := by
  unfold release
  cases findId id s.live <;> simp

theorem admit_max {s : State} (hi : Inv s) (id : Nat) (r : Res) (t p : Path) : ((acquire s id r t p).1.mgr 0).max = (s.mgr 0).max := by
  cases hb : (acquire s id r t p).2 with
  | false => rw [admit_false hb]
  | true => rw [(admit_true hi hb).2.2]; simp [upd_same, incr_max]

theorem release_max {s : State} (hi : Inv s) (id : Nat) : ((release s id).mgr 0).max = (s.mgr 0).max := by
  cases hf : findId id s.live with
  | none => rw [release_none hf]
  | some h => rw [release_eq hi hf]; simp [upd_same, decr_max]

theorem admit_live {s : State} (hi : Inv s) (id : Nat) (r : Res) (t p : Path) :
    (acquire s id r t p).1.live.map key = if (acquire s id r t p).2 then s.live.map key ++ [(id, r)] else s.live.map key := by
  cases hb : (acquire s id r t p).2 with
  | false => rw [admit_false hb]; simp
  | true => rw [(admit_true hi hb).2.2]; simp [key]

theorem removeId_none {id : Nat} {l : List Holder} (hf : findId id l = none) : removeId id l = l := by
  induction l with
  | nil => rfl
  | cons a l ih =>
    simp only [findId] at hf
    by_cases ha : a.id = id
    · simp [ha] at hf
    · simp only [ha, if_false] at hf
      simp [removeId, ha, ih hf]

theorem release_live {s : State} (hi : Inv s) (id : Nat) : (release s id).live.map key = removeK id (s.live.map key) := by
  cases hf : findId id s.live with
  | none => rw [release_none hf, removeK_map, removeId_none hf]
  | some h => rw [release_eq hi hf, removeK_map]

/-- the limit trips exactly at the threshold, against the live holders -/
theorem admit_ref {s : State} (hi : Inv s) (hl : Ledger s) (id : Nat) (r : Res) {t p : Path}
    (ht : validPath s t = true) (hp : validPath s p = true) :
    (acquire s id r t p).2 = refAdmits (s.mgr 0).max r (s.live.map key) := by
  rw [admit_outcome hi id r ht hp]
  have h := hl r
  simp only [refAdmits, countK_map]
  by_cases h0 : (s.mgr 0).max.get r = 0
  · have : canCreate (s.mgr 0) r = true := (canCreate_iff _ _).mpr (Or.inl h0)
    simp [this, h0]
  · simp only [h0, if_false] at h
    by_cases hlt : count r s.live < (s.mgr 0).max.get r
    · have : canCreate (s.mgr 0) r = true := (canCreate_iff _ _).mpr (Or.inr (Or.inr (by rw [h]; exact Int.ofNat_lt.mpr hlt)))
      simp [this, hlt]
    · have : ¬ canCreate (s.mgr 0) r = true := by
        intro hc
        rcases (canCreate_iff _ _).mp hc with h1 | h1 | h1
        · exact h0 h1
        · rw [h] at h1; omega
        · rw [h] at h1; exact hlt (Int.ofNat_lt.mp h1)
      simp [this, hlt, h0]

/-! ## the bisimulation -/

structure Rel (h : Hist) (ρ : Ref) : Prop where
  ic : Inv h.c
  lc : Ledger h.c
  gc : Gauges h.c
  it : Inv h.t
  lt : Ledger h.t
  gt : Gauges h.t
  mc : (h.c.mgr 0).max = ρ.thr
  mt : (h.t.mgr 0).max = ρ.thr
  kc : h.c.live.map key = ρ.lv
  kt : h.t.live.map key = ρ.lvT
  pool : ∀ p, h.pool = some p → p < h.c.nHost
  hc : h.c.hosts ≠ []
  ht : h.t.hosts ≠ []
  cap : ∀ k, h.cap k < h.c.nInfo

theorem rel_init (thr : Thr) : Rel (Hist.init thr) (Ref.init thr) :=
  ⟨inv_init thr 1, ledger_init thr 1, gauges_init thr 1, inv_init thr 1, ledger_init thr 1, gauges_init thr 1, rfl, rfl, rfl, rfl,
   by simp [Hist.init], by show List.range 1 ≠ []; decide, by show List.range 1 ≠ []; decide, by simp [Hist.init, init]⟩

theorem headD_lt {s : State} (hi : Inv s) (hne : s.hosts ≠ []) : s.hosts.headD 0 < s.nHost := by
  cases hh : s.hosts with
  | nil => exact absurd hh hne
  | cons a l => simp; exact hi.hs a (by simp [hh])

theorem poolHost_lt {h : Hist} {ρ : Ref} (hr : Rel h ρ) : poolHost h < h.c.nHost := by
  unfold poolHost
  cases hp : h.pool with
  | none => exact headD_lt hr.ic hr.hc
  | some p => exact hr.pool p hp

theorem rel_obs {h : Hist} {ρ : Ref} (hr : Rel h ρ) (out : Out) : h.obs out = ρ.obs out := by
  have e1 := curMgr_eq hr.ic
  have e2 := curMgr_eq hr.it
  have cur : ∀ r, (h.c.mgr 0).cur.get r = refCur ρ.thr r ρ.lv := by
    intro r; rw [hr.lc r, ← hr.kc]; simp only [refCur, countK_map, hr.mc]
  have curT : ∀ r, (h.t.mgr 0).cur.get r = refCur ρ.thr r ρ.lvT := by
    intro r; rw [hr.lt r, ← hr.kt]; simp only [refCur, countK_map, hr.mt]
  have g1 := hr.gc .req
  have g2 := hr.gt .conn
  have c1 := curT .conn; have c2 := cur .pend; have c3 := cur .req; have c4 := cur .retr
  simp only [V4.get] at g1 g2 c1 c2 c3 c4
  simp only [Hist.obs, Ref.obs, e1, e2, c1, c2, c3, c4, g1, g2, hr.mc, hr.mt, ← hr.kc, ← hr.kt, countK_map]

theorem rel_rel {h : Hist} {ρ : Ref} (hr : Rel h ρ) (id : Nat) : Rel ((objMach Code.gen).rel h id) (refMach.rel ρ id) := by
  obtain ⟨f1, f2, f3, _⟩ := release_frame h.c id
  simp only [objMach, refMach]
  refine ⟨inv_release hr.ic id, ledger_release hr.ic hr.lc id, gauges_release hr.ic hr.gc id, hr.it, hr.lt, hr.gt,
    ?_, hr.mt, ?_, hr.kt, ?_, ?_, hr.ht, ?_⟩
  · simp only []; rw [release_max hr.ic]; exact hr.mc
  · simp only []; rw [release_live hr.ic, hr.kc]
  · intro p hp; simp only [] at hp ⊢; rw [f1]; exact hr.pool p hp
  · simp only []; rw [f3]; exact hr.hc
  · intro k; simp only []; rw [f2]; exact hr.cap k

theorem rel_relT {h : Hist} {ρ : Ref} (hr : Rel h ρ) (id : Nat) : Rel ((objMach Code.gen).relT h id) (refMach.relT ρ id) := by
  obtain ⟨_, _, f3, _⟩ := release_frame h.t id
  simp only [objMach, refMach]
  refine ⟨hr.ic, hr.lc, hr.gc, inv_release hr.it id, ledger_release hr.it hr.lt id, gauges_release hr.it hr.gt id,
    hr.mc, ?_, hr.kc, ?_, hr.pool, hr.hc, ?_, hr.cap⟩
  · simp only []; rw [release_max hr.it]; exact hr.mt
  · simp only []; rw [release_live hr.it, hr.kt]
  · simp only []; rw [f3]; exact hr.ht

theorem rel_route {h : Hist} {ρ : Ref} (hr : Rel h ρ) (k : Nat) : Rel ((objMach Code.gen).route h k) (refMach.route ρ k) := by
  refine ⟨hr.ic, hr.lc, hr.gc, hr.it, hr.lt, hr.gt, hr.mc, hr.mt, hr.kc, hr.kt, hr.pool, hr.hc, hr.ht, ?_⟩
  intro k'
  simp only [objMach, upd]
  by_cases hk : k' = k
  · simp [hk]; exact hr.ic.cur
  · simp [hk]; exact hr.cap k'

/-- one admission on cluster c1 through valid paths -/
theorem rel_admitC {h : Hist} {ρ : Ref} (hr : Rel h ρ) (id : Nat) (r : Res) {t p : Path}
    (ht : validPath h.c t = true) (hp : validPath h.c p = true) (pool' : Option Nat) (hpool : ∀ q, pool' = some q → q < h.c.nHost) :
    (acquire h.c id r t p).2 = refAdmits ρ.thr r ρ.lv ∧
    Rel { h with c := (acquire h.c id r t p).1, pool := pool' }
        (if refAdmits ρ.thr r ρ.lv then { ρ with lv := ρ.lv ++ [(id, r)] } else ρ) := by
  have ho := admit_ref hr.ic hr.lc id r ht hp
  rw [hr.mc, hr.kc] at ho
  obtain ⟨f1, f2, f3, _⟩ := admit_frame h.c id r t p
  refine ⟨ho, ?_⟩
  have hk := admit_live hr.ic id r t p
  rw [ho, hr.kc] at hk
  refine ⟨inv_admit hr.ic id r t p, ledger_admit hr.ic hr.lc id r t p, gauges_admit hr.ic hr.gc id r t p, hr.it, hr.lt, hr.gt,
    ?_, ?_, ?_, ?_, ?_, ?_, hr.ht, ?_⟩
  · simp only []; rw [admit_max hr.ic]; split <;> exact hr.mc
  · split <;> exact hr.mt
  · simp only []; rw [hk]; split <;> rfl
  · split <;> exact hr.kt
  · intro q hq; simp only [] at hq ⊢; rw [f1]; exact hpool q hq
  · simp only []; rw [f3]; exact hr.hc
  · intro k; simp only []; rw [f2]; exact hr.cap k

theorem rel_admitReq {h : Hist} {ρ : Ref} (hr : Rel h ρ) (k : Nat) :
    ((objMach Code.gen).admitReq h k).2 = (refMach.admitReq ρ k).2 ∧
    Rel ((objMach Code.gen).admitReq h k).1 (refMach.admitReq ρ k).1 := by
  have hv : validPath h.c (.host (poolHost h)) = true := by simp [validPath, poolHost_lt hr]
  have := rel_admitC hr (2 * k) .req hv hv (some (poolHost h)) (by intro q hq; cases hq; exact poolHost_lt hr)
  simp only [objMach, refMach]
  by_cases ha : refAdmits ρ.thr .req ρ.lv = true
  · simp only [ha, if_true] at this ⊢; exact this
  · simp only [ha] at this ⊢; simpa using this

theorem rel_admitRetr {h : Hist} {ρ : Ref} (hr : Rel h ρ) (k : Nat) :
    ((objMach Code.gen).admitRetr h k).2 = (refMach.admitRetr ρ k).2 ∧
    Rel ((objMach Code.gen).admitRetr h k).1 (refMach.admitRetr ρ k).1 := by
  have hv : validPath h.c (.info (h.cap k)) = true := by simp [validPath, hr.cap k]
  have := rel_admitC hr (2 * k + 1) .retr hv hv h.pool hr.pool
  simp only [objMach, refMach]
  by_cases ha : refAdmits ρ.thr .retr ρ.lv = true
  · simp only [ha, if_true] at this ⊢; exact this
  · simp only [ha] at this ⊢; simpa using this

theorem rel_admitConn {h : Hist} {ρ : Ref} (hr : Rel h ρ) (j : Nat) :
    ((objMach Code.gen).admitConn h j).2 = (refMach.admitConn ρ j).2 ∧
    Rel ((objMach Code.gen).admitConn h j).1 (refMach.admitConn ρ j).1 := by
  have hv1 : validPath h.t (.info h.t.cur) = true := by simp [validPath, hr.it.cur]
  have hv2 : validPath h.t (.host (h.t.hosts.headD 0)) = true := by
    have := headD_lt hr.it hr.ht
    simp only [validPath]; exact decide_eq_true this
  have ho := admit_ref hr.it hr.lt j .conn hv1 hv2
  rw [hr.mt, hr.kt] at ho
  obtain ⟨_, _, f3, _⟩ := admit_frame h.t j .conn (.info h.t.cur) (.host (h.t.hosts.headD 0))
  have hk := admit_live hr.it j .conn (.info h.t.cur) (.host (h.t.hosts.headD 0))
  rw [ho, hr.kt] at hk
  have hrel : ∀ ρ' : Ref, ρ'.thr = ρ.thr → ρ'.lv = ρ.lv →
      ρ'.lvT = (if refAdmits ρ.thr .conn ρ.lvT = true then ρ.lvT ++ [(j, Res.conn)] else ρ.lvT) →
      Rel { h with t := (acquire h.t j .conn (.info h.t.cur) (.host (h.t.hosts.headD 0))).1 } ρ' := by
    intro ρ' e1 e2 e3
    refine ⟨hr.ic, hr.lc, hr.gc, inv_admit hr.it _ _ _ _, ledger_admit hr.it hr.lt _ _ _ _, gauges_admit hr.it hr.gt _ _ _ _,
      ?_, ?_, ?_, ?_, hr.pool, hr.hc, ?_, hr.cap⟩
    · rw [e1]; exact hr.mc
    · simp only []; rw [admit_max hr.it, e1]; exact hr.mt
    · rw [e2]; exact hr.kc
    · simp only []; rw [hk, e3]
    · simp only []; rw [f3]; exact hr.ht
  simp only [objMach, refMach]
  by_cases ha : refAdmits ρ.thr .conn ρ.lvT = true
  · simp only [ha, if_true] at hrel ⊢
    exact ⟨ho.trans ha, hrel _ rfl rfl rfl⟩
  · simp only [ha] at hrel ⊢
    refine ⟨ho.trans (by simpa using ha), hrel _ rfl rfl ?_⟩
    simp

theorem zeroStable_of_ref {s : State} {ρlv other : List (Nat × Res)} {thr0 : Thr} (hi : Inv s) (hm : (s.mgr 0).max = thr0)
    (hk : s.live.map key = ρlv) (p : Bool) (thr : Thr) (st : Bool) (n : Nat)
    (hz : allRes.all (fun r => (countK r ρlv == 0 && countK r other == 0) || ((thr0.get r == 0) == (thr.get r == 0))) = true ∨
          allRes.all (fun r => (countK r other == 0 && countK r ρlv == 0) || ((thr0.get r == 0) == (thr.get r == 0))) = true) :
    zeroStableOp s (.update p thr st n) = true := by
  simp only [zeroStableOp, curMgr_eq hi, hm, ← hk, countK_map, List.all_eq_true] at hz ⊢
  intro r hr
  rcases hz with hz | hz
  · have := hz r hr
    simp only [Bool.or_eq_true, Bool.and_eq_true] at this ⊢
    rcases this with h1 | h1
    · exact Or.inl h1.1
    · exact Or.inr h1
  · have := hz r hr
    simp only [Bool.or_eq_true, Bool.and_eq_true] at this ⊢
    rcases this with h1 | h1
    · exact Or.inl h1.2
    · exact Or.inr h1

theorem rel_update {h : Hist} {ρ : Ref} (hr : Rel h ρ) (p : Bool) (ty : Nat) (thr : Thr)
    (hz : ρ.zeroStableOp (.update p ty thr) = true) :
    Rel ((objMach Code.gen).update h p ty thr) (refMach.update ρ p ty thr) := by
  simp only [Ref.zeroStableOp] at hz
  have zc := zeroStable_of_ref (other := ρ.lvT) hr.ic hr.mc hr.kc p thr (ty == h.typ) 1 (Or.inl hz)
  have zt := zeroStable_of_ref (other := ρ.lv) hr.it hr.mt hr.kt p thr (ty == h.typ) 1 (Or.inr hz)
  obtain ⟨_, c2, _, c4, _⟩ := update_gen_counts h.c p thr (ty == h.typ) 1
  obtain ⟨_, _, _, t4, _⟩ := update_gen_counts h.t p thr (ty == h.typ) 1
  refine ⟨inv_update _ _ _ _ _ hr.ic, ledger_update _ _ _ _ _ hr.ic hr.lc zc, gauges_update _ _ _ _ _ hr.gc,
    inv_update _ _ _ _ _ hr.it, ledger_update _ _ _ _ _ hr.it hr.lt zt, gauges_update _ _ _ _ _ hr.gt, ?_, ?_, ?_, ?_, ?_, ?_, ?_, ?_⟩
  · simp only [objMach, refMach]; rw [update_gen_mgr0 _ _ _ _ _ hr.ic]
  · simp only [objMach, refMach]; rw [update_gen_mgr0 _ _ _ _ _ hr.it]
  · simp only [objMach, refMach]; rw [c4]; exact hr.kc
  · simp only [objMach, refMach]; rw [t4]; exact hr.kt
  · intro q hq
    simp only [objMach] at hq ⊢
    have := hr.pool q hq
    cases p with
    | true => rw [(update_gen_hosts_primary h.c thr _ 1).1]; exact this
    | false => rw [(update_gen_hosts_andHost h.c thr _ 1).1]; omega
  · simp only [objMach]
    cases p with
    | true => rw [(update_gen_hosts_primary h.c thr _ 1).2.1]; exact hr.hc
    | false => rw [(update_gen_hosts_andHost h.c thr _ 1).2.1]; simp [List.range']
  · simp only [objMach]
    cases p with
    | true => rw [(update_gen_hosts_primary h.t thr _ 1).2.1]; exact hr.ht
    | false => rw [(update_gen_hosts_andHost h.t thr _ 1).2.1]; simp [List.range']
  · intro k; simp only [objMach]; rw [c2]; exact Nat.lt_succ_of_lt (hr.cap k)

theorem rel_step {h : Hist} {ρ : Ref} (hr : Rel h ρ) (op : SOp) (hz : ρ.zeroStableOp op = true) :
    (stepS (objMach Code.gen) h op).2 = (stepS refMach ρ op).2 ∧ Rel (stepS (objMach Code.gen) h op).1 (stepS refMach ρ op).1 := by
  refine stepS_bisim (objMach Code.gen) refMach Rel (fun t o => t.zeroStableOp o = true) ?_ ?_ ?_ ?_ ?_ ?_ ?_ ?_ ?_ h ρ op hr hz
  · intro s t id r; simp [objMach, refMach, ← r.kc, hasK_map]
  · intro s t id r; simp [objMach, refMach, ← r.kt, hasK_map]
  · intro s t k r; exact rel_route r k
  · intro s t k r; exact rel_admitReq r k
  · intro s t k r; exact rel_admitRetr r k
  · intro s t j r; exact rel_admitConn r j
  · intro s t id r; exact rel_rel r id
  · intro s t id r; exact rel_relT r id
  · intro s t p ty thr r g; exact rel_update r p ty thr g

theorem trace_eq (h : Hist) (ρ : Ref) (ops : List SOp) (hr : Rel h ρ) (hz : ρ.zeroStable ops = true) :
    objTrace Code.gen h ops = refTrace ρ ops := by
  induction ops generalizing h ρ with
  | nil => rfl
  | cons op r ih =>
    simp only [Ref.zeroStable, Bool.and_eq_true] at hz
    obtain ⟨e, hr'⟩ := rel_step hr op hz.1
    simp only [objTrace, refTrace]
    rw [e, rel_obs hr' _, ih _ _ hr' hz.2]

end MosnVerif.Model.ResourceShare
