import MosnVerif.Lemmas.CheckedGo
import MosnVerif.Gen.C08H2Parse
/-!
C08: the regenerated HTTP/2 frame payload parsers (Gen/C08H2Parse: `parseDataFrame`, `parseHeadersFrame`, …, `readByte`,
`readUint32`, `SettingsFrame.Value/Setting/NumSettings` of pkg/module/http2/frame.go, every index / slice / big-endian
read a checked primitive) never access the payload outside `[0, len)`, for EVERY frame header and EVERY payload; what
they hand on lies inside the payload; padding is validated before it is used as a slice bound.
-/
namespace MosnVerif.Lemmas.CheckedH2Parse
open MosnVerif.Model.CheckedGo MosnVerif.Gen.C08H2Parse
set_option linter.unusedSimpArgs false

theorem has_spec (f v : Int) : (h2p_Flags_Has f v).Safe (fun r => r = decide (land f v = v)) := by
  unfold h2p_Flags_Has; chk_auto

/-- `readByte`: without error one byte was taken off the front -/
theorem readByte_spec (p : Bytes) : (h2p_readByte p).Safe
    (fun r => (r.2.2 = Err.nil → (len r.1 = len p - 1 ∧ byteAt p 0 = r.2.1 ∧ 0 ≤ r.2.1 ∧ r.2.1 < 256)) ∧
      (r.2.2 = Err.nil ∨ r.2.2 = Err.eof)) := by
  unfold h2p_readByte; chk_auto
  all_goals (dsimp only [] at *; refine ⟨fun _ => ?_, by simp⟩; first | contradiction | chk_side)

/-- `readUint32`: without error four bytes were taken off the front -/
theorem readUint32_spec (p : Bytes) : (h2p_readUint32 p).Safe
    (fun r => (r.2.2 = Err.nil → (len r.1 = len p - 4 ∧ 0 ≤ r.2.1)) ∧ (r.2.2 = Err.nil ∨ r.2.2 = Err.eof)) := by
  unfold h2p_readUint32; chk_auto
  all_goals (dsimp only [] at *; refine ⟨fun _ => ?_, by simp⟩; first | contradiction | chk_side)

macro_rules | `(tactic| chk_step) => `(tactic| (refine Safe.bind (has_spec _ _) ?_; intro _ _))
macro_rules | `(tactic| chk_step) => `(tactic| (refine Safe.bind (readByte_spec _) ?_; intro _ _))
macro_rules | `(tactic| chk_step) => `(tactic| (refine Safe.bind (readUint32_spec _) ?_; intro _ _))

/-- what a parser of a frame type with optional padding answers: ONE fragment that, together with the pad-length octet
and the padding (when PADDED) and the fixed fields, is exactly the payload — or an error and no frame -/
def PadSpec (padded : Bool) (fixed : Int) (p : Bytes) (r : Frm × Err) : Prop :=
  (r.2 = Err.nil → ∃ d, r.1.bs = [d] ∧ r.1.isNil = false ∧
      len d + (if padded then 1 + byteAt p 0 else 0) + fixed = len p) ∧
  (r.2 ≠ Err.nil → r.1 = Frm.nil)

macro "pad_post" : tactic => `(tactic| (
  unfold PadSpec; dsimp only [] at *
  refine ⟨fun h => ?_, fun h => ?_⟩
  · first
    | (cases h; done)
    | (refine ⟨_, rfl, rfl, ?_⟩; chk_side)
    | (exfalso; chk_side)
  · first | rfl | (exact absurd rfl h) | (exfalso; chk_side)))

theorem data_spec (fh : FH) (p : Bytes) : (h2p_parseDataFrame fh p).Safe
    (PadSpec (decide (land fh.Flags 8 = 8)) 0 p) := by
  unfold h2p_parseDataFrame; chk_auto
  all_goals pad_post

theorem headers_spec (fh : FH) (p : Bytes) : (h2p_parseHeadersFrame fh p).Safe
    (PadSpec (decide (land fh.Flags 8 = 8)) (if land fh.Flags 32 = 32 then 5 else 0) p) := by
  unfold h2p_parseHeadersFrame; chk_auto
  all_goals pad_post

theorem push_spec (fh : FH) (p : Bytes) : (h2p_parsePushPromise fh p).Safe
    (PadSpec (decide (land fh.Flags 8 = 8)) 4 p) := by
  unfold h2p_parsePushPromise; chk_auto
  all_goals pad_post

/-- what every parser answers: an error and no frame, or a frame whose byte-slice fields are no longer than the payload -/
def FragSpec (p : Bytes) (r : Frm × Err) : Prop :=
  (r.2 ≠ Err.nil → r.1 = Frm.nil) ∧
  (r.2 = Err.nil → r.1.isNil = false ∧ ∀ d ∈ r.1.bs, len d ≤ len p)

theorem FragSpec.of_pad {padded : Bool} {fixed : Int} {p : Bytes} {r : Frm × Err} (h0 : 0 ≤ fixed)
    (h : PadSpec padded fixed p r) (hb : 0 ≤ byteAt p 0) : FragSpec p r := by
  refine ⟨h.2, fun he => ?_⟩
  obtain ⟨d, hd, hn, hl⟩ := h.1 he
  refine ⟨hn, fun d' hd' => ?_⟩
  rw [hd] at hd'
  simp only [List.mem_singleton] at hd'
  subst hd'
  have : 0 ≤ (if padded then 1 + byteAt p 0 else 0) := by split <;> omega
  omega

theorem byteAt_nonneg (p : Bytes) (i : Int) : 0 ≤ byteAt p i := by simp [byteAt]

macro "frag_post" : tactic => `(tactic| (
  unfold FragSpec; dsimp only [] at *
  refine ⟨fun h => ?_, fun h => ?_⟩
  · first | rfl | (exact absurd rfl h) | (exfalso; chk_side)
  · first
    | (cases h; done)
    | (refine ⟨rfl, fun d hd => ?_⟩
       first
       | (simp only [List.not_mem_nil] at hd; done)
       | (simp only [List.mem_singleton] at hd; subst hd; chk_side))
    | (exfalso; chk_side)))

theorem priority_spec (fh : FH) (p : Bytes) : (h2p_parsePriorityFrame fh p).Safe (FragSpec p) := by
  unfold h2p_parsePriorityFrame; chk_auto
  all_goals frag_post

theorem rst_spec (fh : FH) (p : Bytes) : (h2p_parseRSTStreamFrame fh p).Safe (FragSpec p) := by
  unfold h2p_parseRSTStreamFrame; chk_auto
  all_goals frag_post

theorem len_copyInto (dst src : Bytes) (h : dst.length = src.length) : len (copyInto dst src) = len src := by
  simp only [len, copyInto, List.length_append, List.length_take, List.length_drop]
  omega

theorem ping_spec (fh : FH) (p : Bytes) : (h2p_parsePingFrame fh p).Safe (FragSpec p) := by
  unfold h2p_parsePingFrame; chk_auto
  all_goals first
    | frag_post
    | (unfold FragSpec; dsimp only [] at *
       refine ⟨fun h => absurd rfl h, fun _ => ⟨rfl, fun d hd => ?_⟩⟩
       simp only [List.mem_singleton] at hd
       subst hd
       rw [len_copyInto]
       · exact Int.le_refl _
       · simp only [List.length_replicate]; chk_side)

theorem goaway_spec (fh : FH) (p : Bytes) : (h2p_parseGoAwayFrame fh p).Safe (FragSpec p) := by
  unfold h2p_parseGoAwayFrame; chk_auto
  all_goals frag_post

theorem windowUpdate_spec (fh : FH) (p : Bytes) : (h2p_parseWindowUpdateFrame fh p).Safe (FragSpec p) := by
  unfold h2p_parseWindowUpdateFrame; chk_auto
  all_goals frag_post

theorem continuation_spec (fh : FH) (p : Bytes) : (h2p_parseContinuationFrame fh p).Safe (FragSpec p) := by
  unfold h2p_parseContinuationFrame; chk_auto
  all_goals frag_post

theorem unknown_spec (fh : FH) (p : Bytes) : (h2p_parseUnknownFrame fh p).Safe (FragSpec p) := by
  unfold h2p_parseUnknownFrame; chk_auto
  all_goals frag_post

theorem numSettings_spec (fh : FH) (p : Bytes) : (h2p_SettingsFrame_NumSettings fh p).Safe (fun n => n = len p / 6) := by
  unfold h2p_SettingsFrame_NumSettings; chk_auto

/-- `Setting(i)` for an index below `NumSettings()` -/
theorem setting_spec (fh : FH) (p : Bytes) (i : Int) (h0 : 0 ≤ i) (h1 : i < len p / 6) :
    (h2p_SettingsFrame_Setting fh p i).Safe (fun _ => True) := by
  unfold h2p_SettingsFrame_Setting; chk_auto

macro_rules | `(tactic| chk_step) => `(tactic| (refine Safe.bind (numSettings_spec _ _) ?_; intro _ _))
macro_rules | `(tactic| chk_step) => `(tactic| (refine Safe.bind (setting_spec _ _ _ (by chk_side) (by chk_side)) ?_; intro _ _))

/-- `Value(id)`: the loop over the settings stays below `NumSettings()` -/
theorem value_spec (fh : FH) (p : Bytes) (id : Int) : (h2p_SettingsFrame_Value fh p id).Safe (fun _ => True) := by
  unfold h2p_SettingsFrame_Value; chk_auto

macro_rules | `(tactic| chk_step) => `(tactic| (refine Safe.bind (value_spec _ _ _) ?_; intro _ _))

theorem settings_spec (fh : FH) (p : Bytes) : (h2p_parseSettingsFrame fh p).Safe (FragSpec p) := by
  unfold h2p_parseSettingsFrame; chk_auto
  all_goals frag_post

theorem data_frag (fh : FH) (p : Bytes) : (h2p_parseDataFrame fh p).Safe (FragSpec p) :=
  Safe.mono (data_spec fh p) (fun _ h => FragSpec.of_pad (Int.le_refl 0) h (byteAt_nonneg _ _))

theorem headers_frag (fh : FH) (p : Bytes) : (h2p_parseHeadersFrame fh p).Safe (FragSpec p) := by
  refine Safe.mono (headers_spec fh p) (fun _ h => FragSpec.of_pad ?_ h (byteAt_nonneg _ _))
  split <;> omega

theorem push_frag (fh : FH) (p : Bytes) : (h2p_parsePushPromise fh p).Safe (FragSpec p) :=
  Safe.mono (push_spec fh p) (fun _ h => FragSpec.of_pad (by omega) h (byteAt_nonneg _ _))

/-- the dispatch on the frame type: every parser of the table and `parseUnknownFrame` -/
theorem parse_spec (fh : FH) (p : Bytes) : (h2p_parse fh p).Safe (FragSpec p) := by
  unfold h2p_parse
  repeat' (first | (with_reducible refine Safe.ite ?_ ?_ <;> intro _))
  all_goals first
    | exact data_frag _ _ | exact headers_frag _ _ | exact push_frag _ _
    | exact priority_spec _ _ | exact rst_spec _ _ | exact settings_spec _ _ | exact ping_spec _ _
    | exact goaway_spec _ _ | exact windowUpdate_spec _ _ | exact continuation_spec _ _ | exact unknown_spec _ _

end MosnVerif.Lemmas.CheckedH2Parse
