import MosnVerif.Model.RouterLocks
/-! Serializability of write-lock-disciplined step programs under a read/write mutex and a second mutex (generic part). -/
namespace MosnVerif.Model.RouterLocks
open MosnVerif MosnVerif.Gen.RouterLocks

variable {S L : Type}

/-- a step that neither reads nor writes the shared state -/
def LocalStep (exec : Exec S L) (a : Step) : Prop :=
  ∀ s s' l, (exec a s l).1 = s ∧ (exec a s l).2 = (exec a s' l).2

/-! ### shape of a disciplined program -/

theorem outside_not_lock {a : Step} (h : outside a = true) : a ≠ .lock ∧ a ≠ .unlock := by
  constructor <;> (intro e; subst e; simp [outside, localStep] at h)

theorem kind_wlock {a : Step} (h : kind a = .wlock) : a = .lock := by cases a <;> simp [kind] at h ⊢
theorem kind_wunlock {a : Step} (h : kind a = .wunlock) : a = .unlock := by cases a <;> simp [kind] at h ⊢

theorem outside_cases {a : Step} (h : outside a = true) :
    (localStep a = true ∧ kind a = .plain) ∨ kind a = .rl ∨ kind a = .rul ∨ kind a = .ml ∨ kind a = .mul := by
  cases a <;> simp [outside, localStep, kind] at h ⊢

theorem notLock_plain {a : Step} (h : (!isLockOp a) = true) : kind a = .plain := by
  simpa [isLockOp] using h

theorem all_outside_of_takeWhile (p : List Step) (h : p.dropWhile (· != .lock) = []) : p.takeWhile (· != .lock) = p := by
  have := List.takeWhile_append_dropWhile (p := (· != Step.lock)) (l := p)
  rw [h, List.append_nil] at this
  exact this

theorem dropWhile_head {q : Step → Bool} {p : List Step} {a : Step} {r : List Step} (h : p.dropWhile q = a :: r) : q a = false := by
  induction p with
  | nil => simp at h
  | cons b t ih =>
    rw [List.dropWhile_cons] at h
    split at h
    · exact ih h
    · rename_i hb
      simp only [List.cons.injEq] at h
      rw [← h.1]
      simpa using hb

theorem disciplined_shape {p : List Step} (h : disciplined p = true) :
    p.all outside = true ∨
    ∃ pre mid post, p = pre ++ Step.lock :: (mid ++ Step.unlock :: post) ∧ pre.all outside = true ∧
      mid.all (fun a => !isLockOp a) = true ∧ post.all outside = true := by
  unfold disciplined at h
  have hp := List.takeWhile_append_dropWhile (p := (· != Step.lock)) (l := p)
  cases hd : p.dropWhile (· != Step.lock) with
  | nil =>
    left
    rw [hd] at h
    simp only at h
    rw [all_outside_of_takeWhile p hd] at h
    exact h
  | cons a r =>
    right
    rw [hd] at h hp
    simp only at h
    have ha : a = .lock := by
      have := dropWhile_head hd
      simpa using this
    subst ha
    have hr := List.takeWhile_append_dropWhile (p := (· != Step.unlock)) (l := r)
    cases hd2 : r.dropWhile (· != Step.unlock) with
    | nil => rw [hd2] at h; simp at h
    | cons b post =>
      rw [hd2] at h hr
      simp only [Bool.and_eq_true] at h
      have hb : b = .unlock := by
        have := dropWhile_head hd2
        simpa using this
      subst hb
      refine ⟨p.takeWhile (· != Step.lock), r.takeWhile (· != Step.unlock), post, ?_, h.1.1, h.1.2, h.2⟩
      rw [hr, hp]

/-! ### uninterrupted execution -/

theorem runBody_cons_lock (exec : Exec S L) {a : Step} (h : isLockOp a = true) (r : List Step) (s : S) (l : L) :
    runBody exec (a :: r) s l = runBody exec r s l := by
  simp [runBody, h]

theorem runBody_cons_plain (exec : Exec S L) {a : Step} (h : isLockOp a = false) (r : List Step) (s : S) (l : L) :
    runBody exec (a :: r) s l =
      if (exec a s l).2.2 then ((exec a s l).1, (exec a s l).2.1) else runBody exec r (exec a s l).1 (exec a s l).2.1 := by
  simp [runBody, h]

theorem localStep_plain {a : Step} (h : localStep a = true) : isLockOp a = false := by
  cases a <;> simp [localStep, isLockOp, kind] at h ⊢

theorem outside_lockOp_or_local {a : Step} (h : outside a = true) : isLockOp a = true ∨ localStep a = true := by
  cases a <;> simp [outside, localStep, isLockOp, kind] at h ⊢

/-- outside steps leave the shared state alone -/
theorem runBody_outside_fst (exec : Exec S L) (hloc : ∀ a, localStep a = true → LocalStep exec a) (xs : List Step)
    (h : xs.all outside = true) (s : S) (l : L) : (runBody exec xs s l).1 = s := by
  induction xs generalizing l with
  | nil => rfl
  | cons a r ih =>
    simp only [List.all_cons, Bool.and_eq_true] at h
    rcases outside_lockOp_or_local h.1 with hk | hk
    · rw [runBody_cons_lock exec hk]; exact ih h.2 l
    · rw [runBody_cons_plain exec (localStep_plain hk)]
      have := (hloc a hk s s l).1
      split
      · exact this
      · rw [this]; exact ih h.2 _

/-- … so trailing outside steps do not matter for the shared state -/
theorem runBody_append_outside (exec : Exec S L) (hloc : ∀ a, localStep a = true → LocalStep exec a) (xs post : List Step)
    (h : post.all outside = true) (s : S) (l : L) : (runBody exec (xs ++ post) s l).1 = (runBody exec xs s l).1 := by
  induction xs generalizing s l with
  | nil => simp only [List.nil_append, runBody]; exact runBody_outside_fst exec hloc post h s l
  | cons a r ih =>
    simp only [List.cons_append]
    by_cases hk : isLockOp a = true
    · rw [runBody_cons_lock exec hk, runBody_cons_lock exec hk]; exact ih s l
    · have hk' : isLockOp a = false := by simpa using hk
      rw [runBody_cons_plain exec hk', runBody_cons_plain exec hk']
      split
      · rfl
      · exact ih _ _

/-- a lock step in the middle of a program does not matter when the program runs alone -/
theorem runBody_skip (exec : Exec S L) {a : Step} (h : isLockOp a = true) (xs ys : List Step) (s : S) (l : L) :
    runBody exec (xs ++ a :: ys) s l = runBody exec (xs ++ ys) s l := by
  induction xs generalizing s l with
  | nil => simp only [List.nil_append]; exact runBody_cons_lock exec h ys s l
  | cons b r ih =>
    simp only [List.cons_append]
    by_cases hk : isLockOp b = true
    · rw [runBody_cons_lock exec hk, runBody_cons_lock exec hk]; exact ih s l
    · have hk' : isLockOp b = false := by simpa using hk
      rw [runBody_cons_plain exec hk', runBody_cons_plain exec hk']
      split
      · rfl
      · exact ih _ _

theorem serialS_append (exec : Exec S L) (calls : Nat → Call L) (o : List Nat) (t : Nat) (s : S) :
    serialS exec calls (o ++ [t]) s = (runBody exec (calls t).prog (serialS exec calls o s) (calls t).l0).1 := by
  induction o generalizing s with
  | nil => rfl
  | cons u r ih => simp only [List.cons_append, serialS, ih]

/-! ### the invariant of every schedule -/

/-- a call that has not taken the write lock yet and will: the rest of its prefix, its critical section, its suffix -/
def Pending (exec : Exec S L) (calls : Nat → Call L) (t : Nat) (th : Thread L) : Prop :=
  ∃ pr mid post, th.todo = pr ++ Step.lock :: (mid ++ Step.unlock :: post) ∧ pr.all outside = true ∧
    mid.all (fun a => !isLockOp a) = true ∧ post.all outside = true ∧
    ∀ s, (runBody exec (pr ++ mid) s th.loc).1 = (runBody exec (calls t).prog s (calls t).l0).1

/-- a call that changes nothing shared when it runs alone -/
def Noop (exec : Exec S L) (calls : Nat → Call L) (t : Nat) : Prop :=
  ∀ s, (runBody exec (calls t).prog s (calls t).l0).1 = s

structure SerInv (exec : Exec S L) (calls : Nat → Call L) (s0 : S) (c : Conf S L) : Prop where
  nodup : c.done.Nodup
  /-- while nobody holds the write lock the shared state is the sequential one -/
  idle : c.writer = none → c.shared = serialS exec calls c.done s0
  /-- the holder is inside its critical section: finishing it alone yields the next sequential state -/
  crit : ∀ h, c.writer = some h → h ∉ c.done ∧ ∃ rest post, (c.threads h).todo = rest ++ Step.unlock :: post ∧
    rest.all (fun a => !isLockOp a) = true ∧ post.all outside = true ∧
    (runBody exec rest c.shared (c.threads h).loc).1 =
      (runBody exec (calls h).prog (serialS exec calls c.done s0) (calls h).l0).1
  /-- every other call only has outside steps left (it is through, or it never changes anything), or is still to lock -/
  out : ∀ t, c.writer ≠ some t →
    ((c.threads t).todo.all outside = true ∧ (t ∈ c.done ∨ Noop exec calls t)) ∨
    (t ∉ c.done ∧ Pending exec calls t (c.threads t))

theorem setThread_same (th : Nat → Thread L) (t : Nat) (v : Thread L) : setThread th t v t = v := by
  simp [setThread]

theorem setThread_other (th : Nat → Thread L) (t u : Nat) (v : Thread L) (h : u ≠ t) : setThread th t v u = th u := by
  simp [setThread, h]

theorem inv_init (exec : Exec S L) (hloc : ∀ a, localStep a = true → LocalStep exec a) (calls : Nat → Call L) (s0 : S)
    (hd : ∀ t, disciplined (calls t).prog = true) : SerInv exec calls s0 (initConf calls s0) := by
  refine ⟨by simp [initConf], fun _ => rfl, by simp [initConf], ?_⟩
  intro t _
  rcases disciplined_shape (hd t) with h | ⟨pre, mid, post, hp, h1, h2, h3⟩
  · left
    exact ⟨h, Or.inr (fun s => runBody_outside_fst exec hloc _ h s _)⟩
  · right
    refine ⟨by simp [initConf], pre, mid, post, hp, h1, h2, h3, ?_⟩
    intro s
    show (runBody exec (pre ++ mid) s (calls t).l0).1 = _
    rw [hp, runBody_skip exec (by rfl : isLockOp Step.lock = true)]
    rw [← List.append_assoc, runBody_skip exec (by rfl : isLockOp Step.unlock = true)]
    rw [runBody_append_outside exec hloc _ _ h3]

/-- what a step outside the write lock by a thread that does not hold it does to the configuration -/
theorem step_outside (exec : Exec S L) (hloc : ∀ a, localStep a = true → LocalStep exec a) (c : Conf S L) (t : Nat)
    {a : Step} {r : List Step} (htodo : (c.threads t).todo = a :: r) (ha : outside a = true) (hw : c.writer ≠ some t) :
    (stepThread exec c t).shared = c.shared ∧ (stepThread exec c t).writer = c.writer ∧ (stepThread exec c t).done = c.done ∧
    (∀ u, u ≠ t → (stepThread exec c t).threads u = c.threads u) ∧
    ((stepThread exec c t).threads t = c.threads t ∨
     (isLockOp a = true ∧ (stepThread exec c t).threads t = ⟨r, (c.threads t).loc⟩) ∨
     (localStep a = true ∧ (exec a c.shared (c.threads t).loc).2.2 = false ∧
        (stepThread exec c t).threads t = ⟨r, (exec a c.shared (c.threads t).loc).2.1⟩) ∨
     (localStep a = true ∧ (exec a c.shared (c.threads t).loc).2.2 = true ∧
        ((stepThread exec c t).threads t).todo.all outside = true)) := by
  have hrel : (releases c t).all outside = true := by
    unfold releases
    simp only [hw, if_false, List.nil_append]
    split <;> split <;> simp [outside, localStep]
  rcases outside_cases ha with ⟨hl, hk⟩ | hk | hk | hk | hk
  · -- a local step
    have hs := (hloc a hl c.shared c.shared (c.threads t).loc).1
    have e : stepThread exec c t =
        { c with shared := (exec a c.shared (c.threads t).loc).1,
                 threads := setThread c.threads t
                   ⟨if (exec a c.shared (c.threads t).loc).2.2 then releases c t else r, (exec a c.shared (c.threads t).loc).2.1⟩ } := by
      simp only [stepThread, htodo, hk]
    rw [e]
    refine ⟨hs, rfl, rfl, fun u hu => setThread_other _ _ _ _ hu, ?_⟩
    simp only [setThread_same]
    cases he : (exec a c.shared (c.threads t).loc).2.2
    · right; right; left; exact ⟨hl, rfl, by simp⟩
    · right; right; right; exact ⟨hl, rfl, by simpa using hrel⟩
  all_goals
    have hlk : isLockOp a = true := by simp [isLockOp, hk]
  · by_cases hc : c.writer = none
    · have e : stepThread exec c t = { advance c t r with readers := t :: c.readers } := by
        simp only [stepThread, htodo, hk, hc, if_true]
      rw [e]
      exact ⟨rfl, rfl, rfl, fun u hu => setThread_other _ _ _ _ hu, Or.inr (Or.inl ⟨hlk, by simp [advance, setThread_same]⟩)⟩
    · have e : stepThread exec c t = c := by simp only [stepThread, htodo, hk, hc, if_false]
      rw [e]
      exact ⟨rfl, rfl, rfl, fun _ _ => rfl, Or.inl rfl⟩
  · have e : stepThread exec c t = { advance c t r with readers := c.readers.erase t } := by
      simp only [stepThread, htodo, hk]
    rw [e]
    exact ⟨rfl, rfl, rfl, fun u hu => setThread_other _ _ _ _ hu, Or.inr (Or.inl ⟨hlk, by simp [advance, setThread_same]⟩)⟩
  · by_cases hc : c.mholder = none
    · have e : stepThread exec c t = { advance c t r with mholder := some t } := by
        simp only [stepThread, htodo, hk, hc, if_true]
      rw [e]
      exact ⟨rfl, rfl, rfl, fun u hu => setThread_other _ _ _ _ hu, Or.inr (Or.inl ⟨hlk, by simp [advance, setThread_same]⟩)⟩
    · have e : stepThread exec c t = c := by simp only [stepThread, htodo, hk, hc, if_false]
      rw [e]
      exact ⟨rfl, rfl, rfl, fun _ _ => rfl, Or.inl rfl⟩
  · have e : stepThread exec c t = { advance c t r with mholder := if c.mholder = some t then none else c.mholder } := by
      simp only [stepThread, htodo, hk]
    rw [e]
    exact ⟨rfl, rfl, rfl, fun u hu => setThread_other _ _ _ _ hu, Or.inr (Or.inl ⟨hlk, by simp [advance, setThread_same]⟩)⟩


/-- a thread that keeps its `out` status when nothing it depends on changed -/
theorem out_frame {exec : Exec S L} {calls : Nat → Call L} {c c' : Conf S L} {u : Nat}
    (hd : c'.done = c.done) (ht : c'.threads u = c.threads u)
    (h : ((c.threads u).todo.all outside = true ∧ (u ∈ c.done ∨ Noop exec calls u)) ∨
      (u ∉ c.done ∧ Pending exec calls u (c.threads u))) :
    ((c'.threads u).todo.all outside = true ∧ (u ∈ c'.done ∨ Noop exec calls u)) ∨
      (u ∉ c'.done ∧ Pending exec calls u (c'.threads u)) := by
  rw [hd, ht]; exact h

theorem inv_step (exec : Exec S L) (hloc : ∀ a, localStep a = true → LocalStep exec a) (calls : Nat → Call L) (s0 : S)
    (c : Conf S L) (t : Nat) (I : SerInv exec calls s0 c) : SerInv exec calls s0 (stepThread exec c t) := by
  cases htodo : (c.threads t).todo with
  | nil =>
    have e : stepThread exec c t = c := by simp only [stepThread, htodo]
    rw [e]; exact I
  | cons a r =>
    by_cases hwt : c.writer = some t
    · -- the holder of the write lock
      obtain ⟨hnd, rest, post, hrest, hfree, hpost, hrun⟩ := I.crit t hwt
      rw [htodo] at hrest
      cases rest with
      | nil =>
        -- releases the write lock: its critical section is complete
        simp only [List.nil_append, List.cons.injEq] at hrest
        obtain ⟨rfl, rfl⟩ := hrest
        have e : stepThread exec c t = { advance c t r with writer := none, done := c.done ++ [t] } := by
          simp only [stepThread, htodo, kind, hwt, if_true]
        rw [e]
        simp only [runBody] at hrun
        refine ⟨?_, ?_, by simp, ?_⟩
        · rw [List.nodup_append]
          refine ⟨I.nodup, by simp, ?_⟩
          intro x hx y hy
          simp only [List.mem_singleton] at hy
          subst hy
          intro hxy; subst hxy; exact hnd hx
        · intro _
          show c.shared = _
          rw [serialS_append, ← hrun]
        · intro u _
          by_cases hu : u = t
          · subst hu
            left
            simp only [advance, setThread_same]
            exact ⟨hpost, Or.inl (by simp)⟩
          · have hold := I.out u (by rw [hwt]; simp; exact fun h => hu h.symm)
            simp only [advance, setThread_other _ _ _ _ hu]
            rcases hold with ⟨h1, h2⟩ | ⟨h1, h2⟩
            · left; exact ⟨h1, h2.elim (fun h => Or.inl (by simp [h])) Or.inr⟩
            · right; exact ⟨by simp [h1, hu], h2⟩
      | cons b rest' =>
        -- one step inside the critical section
        simp only [List.cons_append, List.cons.injEq] at hrest
        obtain ⟨rfl, rfl⟩ := hrest
        simp only [List.all_cons, Bool.and_eq_true] at hfree
        have hk := notLock_plain hfree.1
        have hnl : isLockOp a = false := by simpa using hfree.1
        have e : stepThread exec c t =
            { c with shared := (exec a c.shared (c.threads t).loc).1,
                     threads := setThread c.threads t
                       ⟨if (exec a c.shared (c.threads t).loc).2.2 then releases c t else rest' ++ Step.unlock :: post,
                        (exec a c.shared (c.threads t).loc).2.1⟩ } := by
          simp only [stepThread, htodo, hk]
        rw [e]
        refine ⟨I.nodup, by simp [hwt], ?_, ?_⟩
        · intro h' hh'
          simp only [hwt, Option.some.injEq] at hh'
          subst hh'
          refine ⟨hnd, ?_⟩
          simp only [setThread_same]
          rw [← hrun, runBody_cons_plain exec hnl]
          cases he : (exec a c.shared (c.threads t).loc).2.2
          · exact ⟨rest', post, by simp, hfree.2, hpost, by simp⟩
          · refine ⟨[], (if t ∈ c.readers then [Step.runlock] else []) ++ (if c.mholder = some t then [Step.munlock] else []),
              by simp [releases, hwt], by simp, ?_, by simp [runBody]⟩
            split <;> split <;> simp [outside, localStep]
        · intro u hu
          have hut : u ≠ t := fun h => hu (by simp [h, hwt])
          simp only [setThread_other _ _ _ _ hut]
          exact I.out u hu
    · -- a thread that does not hold the write lock
      rcases I.out t hwt with ⟨hall, htag⟩ | ⟨hnd, pr, mid, post, hshape, hpr, hmid, hpost, heq⟩
      · -- only outside steps left
        rw [htodo] at hall
        simp only [List.all_cons, Bool.and_eq_true] at hall
        obtain ⟨hs, hw, hdn, hoth, hme⟩ := step_outside exec hloc c t htodo hall.1 hwt
        refine ⟨by rw [hdn]; exact I.nodup, fun h => by rw [hs, hdn]; exact I.idle (hw ▸ h), ?_, ?_⟩
        · intro h hh
          rw [hw] at hh
          have hht : h ≠ t := fun e => hwt (e ▸ hh)
          rw [hs, hdn, hoth h hht]
          exact I.crit h hh
        · intro u hu
          rw [hw] at hu
          by_cases hut : u = t
          · subst hut
            left
            rw [hdn]
            refine ⟨?_, htag⟩
            rcases hme with h | ⟨_, h⟩ | ⟨_, _, h⟩ | ⟨_, _, h⟩
            · rw [h, htodo]; simp [hall.1, hall.2]
            · rw [h]; exact hall.2
            · rw [h]; exact hall.2
            · exact h
          · exact out_frame hdn (hoth u hut) (I.out u hu)
      · rw [htodo] at hshape
        cases pr with
        | cons b pr' =>
          -- a step of the prefix
          simp only [List.cons_append, List.cons.injEq] at hshape
          obtain ⟨rfl, rfl⟩ := hshape
          simp only [List.all_cons, Bool.and_eq_true] at hpr
          obtain ⟨hs, hw, hdn, hoth, hme⟩ := step_outside exec hloc c t htodo hpr.1 hwt
          refine ⟨by rw [hdn]; exact I.nodup, fun h => by rw [hs, hdn]; exact I.idle (hw ▸ h), ?_, ?_⟩
          · intro h hh
            rw [hw] at hh
            have hht : h ≠ t := fun e => hwt (e ▸ hh)
            rw [hs, hdn, hoth h hht]
            exact I.crit h hh
          · intro u hu
            rw [hw] at hu
            by_cases hut : u = t
            · subst hut
              rw [hdn]
              rcases hme with h | ⟨hlk, h⟩ | ⟨hl, he, h⟩ | ⟨hl, he, h⟩
              · right
                rw [h]
                exact ⟨hnd, a :: pr', mid, post, by simp [htodo], by simp [hpr.1, hpr.2], hmid, hpost, heq⟩
              · right
                rw [h]
                refine ⟨hnd, pr', mid, post, rfl, hpr.2, hmid, hpost, ?_⟩
                intro s
                rw [← heq s]
                simp only [List.cons_append]
                rw [runBody_cons_lock exec hlk]
              · right
                rw [h]
                refine ⟨hnd, pr', mid, post, rfl, hpr.2, hmid, hpost, ?_⟩
                intro s
                rw [← heq s]
                simp only [List.cons_append]
                rw [runBody_cons_plain exec (localStep_plain hl)]
                have h2 := (hloc a hl s c.shared (c.threads u).loc).2
                have h1 := (hloc a hl s c.shared (c.threads u).loc).1
                rw [h2, he, h1]
                simp
              · left
                refine ⟨h, Or.inr ?_⟩
                intro s
                rw [← heq s]
                simp only [List.cons_append]
                rw [runBody_cons_plain exec (localStep_plain hl)]
                have h2 := (hloc a hl s c.shared (c.threads u).loc).2
                have h1 := (hloc a hl s c.shared (c.threads u).loc).1
                rw [h2, he]
                simpa using h1
            · exact out_frame hdn (hoth u hut) (I.out u hu)
        | nil =>
          -- at the write lock
          simp only [List.nil_append, List.cons.injEq] at hshape
          obtain ⟨rfl, rfl⟩ := hshape
          by_cases hfree : c.writer = none ∧ c.readers = []
          · have e : stepThread exec c t = { advance c t (mid ++ Step.unlock :: post) with writer := some t } := by
              simp only [stepThread, htodo, kind, hfree, and_self, if_true]
            rw [e]
            refine ⟨I.nodup, by simp, ?_, ?_⟩
            · intro h hh
              simp only [Option.some.injEq] at hh
              subst hh
              refine ⟨hnd, mid, post, by simp [advance, setThread_same], hmid, hpost, ?_⟩
              simp only [advance, setThread_same]
              have := heq c.shared
              simp only [List.nil_append] at this
              rw [this, I.idle hfree.1]
            · intro u hu
              have hut : u ≠ t := fun h => hu (by simp [h])
              simp only [advance, setThread_other _ _ _ _ hut]
              exact I.out u (by rw [hfree.1]; simp)
          · have e : stepThread exec c t = c := by
              simp only [stepThread, htodo, kind, hfree, if_false]
            rw [e]; exact I

/-- **every schedule keeps the serial invariant.** -/
theorem inv_run (exec : Exec S L) (hloc : ∀ a, localStep a = true → LocalStep exec a) (calls : Nat → Call L) (s0 : S)
    (sched : List Nat) (c : Conf S L) (I : SerInv exec calls s0 c) : SerInv exec calls s0 (runSched exec c sched) := by
  induction sched generalizing c with
  | nil => exact I
  | cons t r ih => exact ih _ (inv_step exec hloc calls s0 c t I)

/-- the generic theorem: under every schedule, whenever nobody holds the write lock the shared state is the one the calls that
went through their critical section leave when they run ONE AFTER THE OTHER in the order they released the lock; every other
call that has finished changes nothing when it runs alone. -/
theorem serializable (exec : Exec S L) (hloc : ∀ a, localStep a = true → LocalStep exec a) (calls : Nat → Call L) (s0 : S)
    (hd : ∀ t, disciplined (calls t).prog = true) (sched : List Nat) :
    let c := runSched exec (initConf calls s0) sched
    c.done.Nodup ∧ (c.writer = none → c.shared = serialS exec calls c.done s0) ∧
    (∀ t, (c.threads t).todo = [] → t ∉ c.done → Noop exec calls t) := by
  have I := inv_run exec hloc calls s0 sched _ (inv_init exec hloc calls s0 hd)
  refine ⟨I.nodup, I.idle, ?_⟩
  intro t ht hnd
  by_cases hw : (runSched exec (initConf calls s0) sched).writer = some t
  · obtain ⟨_, rest, post, h, _⟩ := I.crit t hw
    rw [ht] at h; simp at h
  · rcases I.out t hw with ⟨_, h | h⟩ | ⟨_, pr, mid, post, h, _⟩
    · exact absurd h hnd
    · exact h
    · rw [ht] at h; simp at h

end MosnVerif.Model.RouterLocks
