import MosnVerif.Model.HealthCheck
/-! Lemmas for C16 part B: the regenerated threshold automaton equals the run-length reference. Core Lean only. -/
namespace MosnVerif.Model.HealthCheck
open MosnVerif.Gen.HealthCheck

/-- the regenerated dispatch of the checker loop is the hand-written reading of a result -/
theorem isSucc_eq_ok (r : Result) : r.isSucc = r.ok := by cases r <;> rfl

theorem trail_cons (p : Result → Bool) (r : Result) (rev : List Result) :
    trail p (r :: rev) = if p r then trail p rev + 1 else 0 := by
  simp only [trail, List.takeWhile_cons]
  split <;> simp

/-- the counters are the current run lengths, and stay strictly below their thresholds:
not failing ⇒ `unHealthCount` = number of consecutive failures so far `< u`;
failing ⇒ `healthCount` = number of consecutive successes so far `< h`. -/
def Inv (u h : Nat) (st : St) (rev : List Result) : Prop :=
  (st.flag = false → st.unHealthCount = (trail Result.bad rev : Int) ∧ trail Result.bad rev < u) ∧
  (st.flag = true → st.healthCount = (trail Result.ok rev : Int) ∧ trail Result.ok rev < h)

theorem inv_init (u h : Nat) (hu : 1 ≤ u) (hh : 1 ≤ h) (f0 : Bool) : Inv u h (St.init f0) [] := by
  constructor <;> intro _ <;> simp [St.init, trail] <;> omega

/-- one check: the regenerated handler produces exactly the reference output and re-establishes the invariant -/
theorem step_spec (u h : Nat) (hu : 1 ≤ u) (hh : 1 ≤ h) (st : St) (rev : List Result) (r : Result) (hinv : Inv u h st rev) :
    let changed := (!st.flag && r.bad && trail Result.bad (r :: rev) == u) ||
                   (st.flag && r.ok && trail Result.ok (r :: rev) == h)
    let unh' := if changed then !st.flag else st.flag
    (step u h st r).2 = ⟨changed, r.ok, unh'⟩ ∧ (step u h st r).1.flag = unh' ∧ Inv u h (step u h st r).1 (r :: rev) := by
  obtain ⟨uc, hc, flag⟩ := st
  obtain ⟨h1, h2⟩ := hinv
  simp only [trail_cons]
  cases flag with
  | false =>
    obtain ⟨e1, l1⟩ := h1 rfl
    simp only at e1
    cases r <;> simp only [step, isSucc_eq_ok, Result.ok, Result.bad, handleSuccess, handleFailure, incHealthyChanged, decHealthyChanged, Inv] <;>
      simp <;> (try split) <;> simp_all [trail_cons, Result.ok, Result.bad] <;> omega
  | true =>
    obtain ⟨e2, l2⟩ := h2 rfl
    simp only at e2
    cases r <;> simp only [step, isSucc_eq_ok, Result.ok, Result.bad, handleSuccess, handleFailure, incHealthyChanged, decHealthyChanged, Inv] <;>
      simp <;> (try split) <;> simp_all [trail_cons, Result.ok, Result.bad] <;> omega

theorem run_eq_spec (u h : Nat) (hu : 1 ≤ u) (hh : 1 ≤ h) (st : St) (rev : List Result) (rs : List Result) (hinv : Inv u h st rev) :
    run u h st rs = spec u h st.flag rev rs := by
  induction rs generalizing st rev with
  | nil => rfl
  | cons r rs ih =>
    obtain ⟨ho, hf, hi⟩ := step_spec u h hu hh st rev r hinv
    simp only [run, spec]
    rw [ho, ih _ _ hi, hf]

theorem spec_length (u h : Nat) (unh : Bool) (rev rs : List Result) : (spec u h unh rev rs).length = rs.length := by
  induction rs generalizing unh rev with
  | nil => rfl
  | cons x xs ih => simp only [spec, List.length_cons, ih]

end MosnVerif.Model.HealthCheck
