import MosnVerif.Model.ConfigPairs2
import MosnVerif.Lemmas.ConfigPairs
/-! Fixpoint laws of further custom (Un)MarshalJSON pairs (C19): the metadata wrappers for any field table and
position, CircuitBreakers, Listener. -/
namespace MosnVerif.Model.ConfigCodec
open MosnVerif.Model MosnVerif.Model.GoDuration


mutual
theorem Shape.eq_of_beq : (a b : Shape) → Shape.beq a b = true → a = b
  | .str, b, h => by cases b <;> simp [Shape.beq] at h <;> rfl
  | .num, b, h => by cases b <;> simp [Shape.beq] at h <;> rfl
  | .bool, b, h => by cases b <;> simp [Shape.beq] at h <;> rfl
  | .hole, b, h => by cases b <;> simp [Shape.beq] at h <;> rfl
  | .hmap, b, h => by cases b <;> simp [Shape.beq] at h <;> rfl
  | .dur, b, h => by cases b <;> simp [Shape.beq] at h <;> rfl
  | .struct fa, b, h => by
    cases b <;> simp [Shape.beq] at h
    rename_i fb; rw [Fields.eq_of_beq fa fb h]
  | .slice ea, b, h => by
    cases b <;> simp [Shape.beq] at h
    rename_i eb; rw [Shape.eq_of_beq ea eb h]
  | .map ea, b, h => by
    cases b <;> simp [Shape.beq] at h
    rename_i eb; rw [Shape.eq_of_beq ea eb h]
  | .ptr ea, b, h => by
    cases b <;> simp [Shape.beq] at h
    rename_i eb; rw [Shape.eq_of_beq ea eb h]
theorem Fields.eq_of_beq : (a b : Fields) → Fields.beq a b = true → a = b
  | .nil, b, h => by cases b <;> simp [Fields.beq] at h <;> rfl
  | .cons k o s r, b, h => by
    cases b <;> simp [Fields.beq] at h
    rename_i k' o' s' r'
    obtain ⟨⟨⟨h1, h2⟩, h3⟩, h4⟩ := h
    rw [h1, h2, Shape.eq_of_beq s s' h3, Fields.eq_of_beq r r' h4]
end

theorem shape_eq_of_beq (a b : Shape) (h : (a == b) = true) : a = b := Shape.eq_of_beq a b h

/-! ### positions in a field table -/

theorem wtF_length : (fs : Fields) → (vs : List CVal) → wtF fs vs = true → vs.length = fs.length
  | .nil, [], _ => rfl
  | .nil, _ :: _, h => by simp [wtF] at h
  | .cons _ _ _ r, [], h => by simp [wtF] at h
  | .cons _ _ _ r, v :: vs, h => by
    simp only [wtF, Bool.and_eq_true] at h
    simp [Fields.length, wtF_length r vs h.2]

theorem get?_lt : (fs : Fields) → (i : Nat) → (x : String × Bool × Shape) → fs.get? i = some x → i < fs.length
  | .nil, _, _, h => by simp [Fields.get?] at h
  | .cons _ _ _ r, 0, _, _ => by simp [Fields.length]
  | .cons _ _ _ r, i + 1, x, h => by
    simp only [Fields.get?] at h
    have := get?_lt r i x h
    simp [Fields.length]; omega

/-- replacing the value of field `i` by a value of its shape keeps the struct well-typed -/
theorem wtF_set : (fs : Fields) → (vs : List CVal) → (i : Nat) → (k : String) → (o : Bool) → (sh : Shape) → (v : CVal) →
    wtF fs vs = true → fs.get? i = some (k, o, sh) → wt sh v = true → wtF fs (vs.set i v) = true
  | .nil, _, _, _, _, _, _, _, h, _ => by simp [Fields.get?] at h
  | .cons _ _ _ r, [], _, _, _, _, _, h, _, _ => by simp [wtF] at h
  | .cons k' o' sh' r, v' :: vs, 0, k, o, sh, v, h, hg, hv => by
    simp only [Fields.get?, Option.some.injEq, Prod.mk.injEq] at hg
    obtain ⟨_, _, rfl⟩ := hg
    simp only [wtF, Bool.and_eq_true] at h
    simp [wtF, hv, h.2]
  | .cons k' o' sh' r, v' :: vs, i + 1, k, o, sh, v, h, hg, hv => by
    simp only [Fields.get?] at hg
    simp only [wtF, Bool.and_eq_true] at h
    simp [wtF, h.1, wtF_set r vs i k o sh v h.2 hg hv]

/-- the value of field `i` after one cycle -/
theorem normF_get : (fs : Fields) → (vs : List CVal) → (i : Nat) → (k : String) → (o : Bool) → (sh : Shape) → (v : CVal) →
    wtF fs vs = true → fs.get? i = some (k, o, sh) → vs[i]? = some v →
    (normF fs vs)[i]? = some (if o && isEmpty v then zero sh else norm sh v)
  | .nil, _, _, _, _, _, _, _, h, _ => by simp [Fields.get?] at h
  | .cons _ _ _ r, [], _, _, _, _, _, h, _, _ => by simp [wtF] at h
  | .cons k' o' sh' r, v' :: vs, 0, k, o, sh, v, h, hg, hv => by
    simp only [Fields.get?, Option.some.injEq, Prod.mk.injEq] at hg
    obtain ⟨_, rfl, rfl⟩ := hg
    simp only [List.getElem?_cons_zero, Option.some.injEq] at hv
    subst hv
    simp [normF]
  | .cons k' o' sh' r, v' :: vs, i + 1, k, o, sh, v, h, hg, hv => by
    simp only [Fields.get?] at hg
    simp only [wtF, Bool.and_eq_true] at h
    simp only [List.getElem?_cons_succ] at hv
    simp [normF, normF_get r vs i k o sh v h.2 hg hv]

theorem set_self (l : List CVal) (i : Nat) (v : CVal) (h : l[i]? = some v) : l.set i v = l := by
  induction l generalizing i with
  | nil => simp
  | cons a r ih =>
    cases i with
    | zero => simp at h; simp [h]
    | succ i => simp at h; simp [ih i h]

/-! ### metadata wrappers -/

theorem metaAt_get (fs : Fields) (i : Nat) (h : metaAt fs i = true) : ∃ k, fs.get? i = some (k, true, metaShape) := by
  unfold metaAt at h
  split at h
  · rename_i k o sh hg
    simp only [Bool.and_eq_true] at h
    obtain ⟨ho, hs⟩ := h
    subst ho
    exact ⟨k, by rw [hg, shape_eq_of_beq sh metaShape hs]⟩
  · simp at h

theorem wt_fromMeta (md : List (String × String)) : wt metaShape (fromMeta md) = true := by
  unfold fromMeta metaShape; split <;> simp [wt, wtF, wtL, ptrElemOK, isObjOrNull]

/-- the metadata member written by `metadataToConfig` comes back unchanged from one cycle -/
theorem norm_fromMeta (md : List (String × String)) :
    (if true && isEmpty (fromMeta md) then zero metaShape else norm metaShape (fromMeta md)) = fromMeta md := by
  unfold fromMeta metaShape
  split
  · simp [isEmpty, zero]
  · simp [isEmpty, norm, normL, normF]

theorem mdOf_fromMeta (md : List (String × String)) (h : (md.map (·.1)).Nodup) : mdOf (some (fromMeta md)) = md := by
  unfold fromMeta
  by_cases he : md = []
  · simp [he, mdOf]
  · have he' : md.isEmpty = false := by cases hq : md <;> simp_all
    simp [he', mdOf, toMeta_fromMeta md h]

theorem mdOf_nodup (v : Option CVal) : ((mdOf v).map (·.1)).Nodup := by
  unfold mdOf
  split
  · exact toMeta_nodup _
  · simp

/-- **metadata wrappers** (ClusterWeight, RouteAction, Router, Host): for every field table with case-distinct keys whose
member `i` is an `omitempty` `*MetadataConfig`, what `MarshalJSON` writes after one `UnmarshalJSON` is a fixpoint -/
theorem meta_fixpoint (fs : Fields) (i : Nat) (hk : keysOKF fs = true) (hm : metaAt fs i = true)
    (w : Json) (x : MetaV) (hU : metaU fs i w = some x) :
    ∃ y, metaU fs i (metaM fs i x) = some y ∧ metaM fs i y = metaM fs i x := by
  have hks : keysOK (.struct fs) = true := by simpa [keysOK] using hk
  obtain ⟨k, hg⟩ := metaAt_get fs i hm
  unfold metaU at hU
  split at hU
  · rename_i vs hdec
    have hw : wtF fs vs = true := by simpa [wt] using dw _ hks w _ hdec
    have hx := (Option.some.inj hU).symm
    have hcfg : x.cfg = .struct vs := by rw [hx]
    have hmd : (x.md.map (·.1)).Nodup := by rw [hx]; exact mdOf_nodup _
    have hlt : i < vs.length := by rw [wtF_length fs vs hw]; exact get?_lt fs i _ hg
    -- what MarshalJSON encodes
    have hM : metaM fs i x = encode (.struct fs) (.struct (vs.set i (fromMeta x.md))) := by simp [metaM, hcfg]
    have hw2 : wtF fs (vs.set i (fromMeta x.md)) = true := wtF_set fs vs i k true metaShape _ hw hg (wt_fromMeta _)
    have hrt := rt (.struct fs) hks (.struct (vs.set i (fromMeta x.md))) (by simpa [wt] using hw2)
    have hen := en (.struct fs) (.struct (vs.set i (fromMeta x.md))) (by simpa [wt] using hw2)
    simp only [norm] at hrt hen
    have hget : (vs.set i (fromMeta x.md))[i]? = some (fromMeta x.md) := by simp [hlt]
    have hn := normF_get fs _ i k true metaShape _ hw2 hg hget
    rw [norm_fromMeta] at hn
    refine ⟨⟨.struct (normF fs (vs.set i (fromMeta x.md))), x.md⟩, ?_, ?_⟩
    · rw [hM]
      unfold metaU
      rw [hrt]
      simp only [hn, mdOf_fromMeta x.md hmd]
    · rw [hM, ← hen]
      simp only [metaM]
      rw [set_self _ i _ hn]
  · simp at hU

/-! ### CircuitBreakers -/

theorem cb_fixpoint (th : Shape) (hk : keysOK th = true) (w : Json) (x : CVal) (hU : cbU th w = some x) :
    ∃ y, cbU th (cbM th x) = some y ∧ cbM th y = cbM th x := by
  have hks : keysOK (.slice th) = true := by simpa [keysOK] using hk
  have hw := dw _ hks w x hU
  exact ⟨norm (.slice th) x, rt _ hks x hw, en _ x hw⟩

/-! ### Listener -/

/-- the resolver: an answer is never empty and is its own answer (`net.Resolve*Addr(a.String())` gives `a` again) -/
def ResolverOK (R : String → String → Option String) : Prop :=
  ∀ n a r, R n a = some r → r ≠ "" ∧ R n r = some r

theorem strAt_get (fs : Fields) (i : Nat) (key : String) (h : strAt fs i key = true) : fs.get? i = some (key, true, .str) := by
  unfold strAt at h
  split at h
  · rename_i k o sh hg
    simp only [Bool.and_eq_true, beq_iff_eq] at h
    obtain ⟨⟨hk, ho⟩, hs⟩ := h
    rw [hg, hk, ho, shape_eq_of_beq sh .str hs]
  · simp at h

theorem netOK_fold (n : String) (h : netOK n = true) : n ≠ "" ∧ foldNet n = n := by
  have : n = "udp" ∨ n = "unix" ∨ n = "tcp" := by
    simp only [netOK, Bool.or_eq_true, beq_iff_eq] at h
    rcases h with (h | h) | h
    · exact Or.inl h
    · exact Or.inr (Or.inl h)
    · exact Or.inr (Or.inr h)
  rcases this with rfl | rfl | rfl <;> exact ⟨by decide, by decide⟩

theorem ln_fixpoint (fs : Fields) (ia inw : Nat) (hk : keysOKF fs = true) (ha : strAt fs ia "address" = true)
    (hn : strAt fs inw "network" = true) (R : String → String → Option String) (hR : ResolverOK R)
    (w : Json) (x : LnV) (hU : lnU fs ia inw R w = some x) :
    ∃ y, lnU fs ia inw R (lnM fs ia x) = some y ∧ lnM fs ia y = lnM fs ia x := by
  have hks : keysOK (.struct fs) = true := by simpa [keysOK] using hk
  have hga := strAt_get fs ia _ ha
  have hgn := strAt_get fs inw _ hn
  have hne : ia ≠ inw := by
    intro h; subst h
    rw [hga] at hgn
    simp at hgn
  unfold lnU at hU
  split at hU
  · rename_i vs hdec
    have hw : wtF fs vs = true := by simpa [wt] using dw _ hks w _ hdec
    split at hU
    · rename_i a n hva hvn
      generalize foldNet n = n' at hU
      split at hU
      · simp at hU
      · rename_i hane
        split at hU
        · simp at hU
        · rename_i hnet
          split at hU
          · simp at hU
          · rename_i r hres
            have hx := (Option.some.inj hU).symm
            have hnet' : netOK n' = true := by simpa using hnet
            obtain ⟨hn'ne, hn'low⟩ := netOK_fold n' hnet'
            obtain ⟨hrne, hrr⟩ := hR n' a r hres
            have hcfg : x.cfg = .struct (vs.set inw (.str n')) := by rw [hx]
            have haddr : x.addr = r := by rw [hx]
            have hlen := wtF_length fs vs hw
            have hia : ia < vs.length := by rw [hlen]; exact get?_lt fs ia _ hga
            have hin : inw < vs.length := by rw [hlen]; exact get?_lt fs inw _ hgn
            -- the struct MarshalJSON encodes
            generalize hvs2 : (vs.set inw (.str n')).set ia (.str r) = vs2
            have hM : lnM fs ia x = encode (.struct fs) (.struct vs2) := by simp [lnM, hcfg, haddr, hvs2]
            have hw1 : wtF fs (vs.set inw (.str n')) = true := wtF_set fs vs inw _ true .str _ hw hgn (by simp [wt])
            have hw2 : wtF fs vs2 = true := by rw [← hvs2]; exact wtF_set fs _ ia _ true .str _ hw1 hga (by simp [wt])
            have hrt := rt (.struct fs) hks (.struct vs2) (by simpa [wt] using hw2)
            have hen := en (.struct fs) (.struct vs2) (by simpa [wt] using hw2)
            simp only [norm] at hrt hen
            have hget_a : vs2[ia]? = some (.str r) := by rw [← hvs2]; simp [hia]
            have hget_n : vs2[inw]? = some (.str n') := by
              rw [← hvs2, List.getElem?_set_ne hne]
              simp [hin]
            have hna := normF_get fs vs2 ia _ true .str _ hw2 hga hget_a
            have hnn := normF_get fs vs2 inw _ true .str _ hw2 hgn hget_n
            have e1 : isEmpty (.str r) = false := by simp [isEmpty, hrne]
            have e2 : isEmpty (.str n') = false := by simp [isEmpty, hn'ne]
            simp only [e1, e2, Bool.and_false, Bool.false_eq_true, if_false, norm] at hna hnn
            refine ⟨⟨.struct (normF fs vs2), r⟩, ?_, ?_⟩
            · rw [hM]
              unfold lnU
              rw [hrt]
              simp only [hna, hnn]
              have hre : (r == "") = false := by simpa using hrne
              simp only [hre, Bool.false_eq_true, if_false, hn'low, hnet', Bool.not_true, hrr]
              rw [set_self _ inw _ hnn]
            · rw [hM, ← hen]
              simp only [lnM]
              rw [set_self _ ia _ hna]
    · simp at hU
  · simp at hU

end MosnVerif.Model.ConfigCodec
