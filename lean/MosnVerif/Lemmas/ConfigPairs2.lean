import MosnVerif.Model.ConfigPairs2
import MosnVerif.Lemmas.ConfigPairs
/-! Fixpoint laws of further custom (Un)MarshalJSON pairs (C19): the metadata wrappers for any field table and
position, CircuitBreakers, Listener. -/
namespace MosnVerif.Model.ConfigCodec
open MosnVerif.Model MosnVerif.Model.GoDuration


/-- **metadata wrappers** (ClusterWeight, RouteAction, Router, Host): for every field table with case-distinct keys whose
member `i` is an `omitempty` `*MetadataConfig`, what `MarshalJSON` writes after one `UnmarshalJSON` is a fixpoint -/
theorem meta_fixpoint (fs : Fields) (i : Nat) (hk : keysOKF fs = true) (hm : metaAt fs i = true)
    (w : Json) (x : MetaV) (hU : metaU fs i w = some x) :
    ∃ y, metaU fs i (metaM fs i x) = some y ∧ metaM fs i y = metaM fs i x := by
  have hks : keysOK (.struct fs) = true := by simpa [keysOK] using hk
  obtain ⟨k, hg⟩ := metaAt_get fs i hm
  unfold metaU at hU
  split at hU
  · rename_i vs hdec
    have hw : wtF fs vs = true := by simpa [wt] using dw _ hks w _ hdec
    have hx := (Option.some.inj hU).symm
    have hcfg : x.cfg = .struct vs := by rw [hx]
    have hmd : (x.md.map (·.1)).Nodup := by rw [hx]; exact mdOf_nodup _
    have hlt : i < vs.length := by rw [wtF_length fs vs hw]; exact get?_lt fs i _ hg
    -- what MarshalJSON encodes
    have hM : metaM fs i x = encode (.struct fs) (.struct (vs.set i (fromMeta x.md))) := by simp [metaM, hcfg]
    have hw2 : wtF fs (vs.set i (fromMeta x.md)) = true := wtF_set fs vs i k true metaShape _ hw hg (wt_fromMeta _)
    have hrt := rt (.struct fs) hks (.struct (vs.set i (fromMeta x.md))) (by simpa [wt] using hw2)
    have hen := en (.struct fs) (.struct (vs.set i (fromMeta x.md))) (by simpa [wt] using hw2)
    simp only [norm] at hrt hen
    have hget : (vs.set i (fromMeta x.md))[i]? = some (fromMeta x.md) := by simp [hlt]
    have hn := normF_get fs _ i k true metaShape _ hw2 hg hget
    rw [norm_fromMeta] at hn
    refine ⟨⟨.struct (normF fs (vs.set i (fromMeta x.md))), x.md⟩, ?_, ?_⟩
    · rw [hM]
      unfold metaU
      rw [hrt]
      simp only [hn, mdOf_fromMeta x.md hmd]
    · rw [hM, ← hen]
      simp only [metaM]
      rw [set_self _ i _ hn]
  · simp at hU

/-! ### CircuitBreakers -/

theorem cb_fixpoint (th : Shape) (hk : keysOK th = true) (w : Json) (x : CVal) (hU : cbU th w = some x) :
    ∃ y, cbU th (cbM th x) = some y ∧ cbM th y = cbM th x := by
  have hks : keysOK (.slice th) = true := by simpa [keysOK] using hk
  have hw := dw _ hks w x hU
  exact ⟨norm (.slice th) x, rt _ hks x hw, en _ x hw⟩

/-! ### Listener -/

/-- the resolver: an answer is never empty and is its own answer (`net.Resolve*Addr(a.String())` gives `a` again) -/
def ResolverOK (R : String → String → Option String) : Prop :=
  ∀ n a r, R n a = some r → r ≠ "" ∧ R n r = some r

theorem strAt_get (fs : Fields) (i : Nat) (key : String) (h : strAt fs i key = true) : fs.get? i = some (key, true, .str) := by
  unfold strAt at h
  split at h
  · rename_i k o sh hg
    simp only [Bool.and_eq_true, beq_iff_eq] at h
    obtain ⟨⟨hk, ho⟩, hs⟩ := h
    rw [hg, hk, ho, shape_eq_of_beq sh .str hs]
  · simp at h

theorem netOK_fold (n : String) (h : netOK n = true) : n ≠ "" ∧ foldNet n = n := by
  have : n = "udp" ∨ n = "unix" ∨ n = "tcp" := by
    simp only [netOK, Bool.or_eq_true, beq_iff_eq] at h
    rcases h with (h | h) | h
    · exact Or.inl h
    · exact Or.inr (Or.inl h)
    · exact Or.inr (Or.inr h)
  rcases this with rfl | rfl | rfl <;> exact ⟨by decide, by decide⟩

theorem ln_fixpoint (fs : Fields) (ia inw : Nat) (hk : keysOKF fs = true) (ha : strAt fs ia "address" = true)
    (hn : strAt fs inw "network" = true) (R : String → String → Option String) (hR : ResolverOK R)
    (w : Json) (x : LnV) (hU : lnU fs ia inw R w = some x) :
    ∃ y, lnU fs ia inw R (lnM fs ia x) = some y ∧ lnM fs ia y = lnM fs ia x := by
  have hks : keysOK (.struct fs) = true := by simpa [keysOK] using hk
  have hga := strAt_get fs ia _ ha
  have hgn := strAt_get fs inw _ hn
  have hne : ia ≠ inw := by
    intro h; subst h
    rw [hga] at hgn
    simp at hgn
  unfold lnU at hU
  split at hU
  · rename_i vs hdec
    have hw : wtF fs vs = true := by simpa [wt] using dw _ hks w _ hdec
    split at hU
    · rename_i a n hva hvn
      generalize foldNet n = n' at hU
      split at hU
      · simp at hU
      · rename_i hane
        split at hU
        · simp at hU
        · rename_i hnet
          split at hU
          · simp at hU
          · rename_i r hres
            have hx := (Option.some.inj hU).symm
            have hnet' : netOK n' = true := by simpa using hnet
            obtain ⟨hn'ne, hn'low⟩ := netOK_fold n' hnet'
            obtain ⟨hrne, hrr⟩ := hR n' a r hres
            have hcfg : x.cfg = .struct (vs.set inw (.str n')) := by rw [hx]
            have haddr : x.addr = r := by rw [hx]
            have hlen := wtF_length fs vs hw
            have hia : ia < vs.length := by rw [hlen]; exact get?_lt fs ia _ hga
            have hin : inw < vs.length := by rw [hlen]; exact get?_lt fs inw _ hgn
            -- the struct MarshalJSON encodes
            generalize hvs2 : (vs.set inw (.str n')).set ia (.str r) = vs2
            have hM : lnM fs ia x = encode (.struct fs) (.struct vs2) := by simp [lnM, hcfg, haddr, hvs2]
            have hw1 : wtF fs (vs.set inw (.str n')) = true := wtF_set fs vs inw _ true .str _ hw hgn (by simp [wt])
            have hw2 : wtF fs vs2 = true := by rw [← hvs2]; exact wtF_set fs _ ia _ true .str _ hw1 hga (by simp [wt])
            have hrt := rt (.struct fs) hks (.struct vs2) (by simpa [wt] using hw2)
            have hen := en (.struct fs) (.struct vs2) (by simpa [wt] using hw2)
            simp only [norm] at hrt hen
            have hget_a : vs2[ia]? = some (.str r) := by rw [← hvs2]; simp [hia]
            have hget_n : vs2[inw]? = some (.str n') := by
              rw [← hvs2, List.getElem?_set_ne hne]
              simp [hin]
            have hna := normF_get fs vs2 ia _ true .str _ hw2 hga hget_a
            have hnn := normF_get fs vs2 inw _ true .str _ hw2 hgn hget_n
            have e1 : isEmpty (.str r) = false := by simp [isEmpty, hrne]
            have e2 : isEmpty (.str n') = false := by simp [isEmpty, hn'ne]
            simp only [e1, e2, Bool.and_false, Bool.false_eq_true, if_false, norm] at hna hnn
            refine ⟨⟨.struct (normF fs vs2), r⟩, ?_, ?_⟩
            · rw [hM]
              unfold lnU
              rw [hrt]
              simp only [hna, hnn]
              have hre : (r == "") = false := by simpa using hrne
              simp only [hre, Bool.false_eq_true, if_false, hn'low, hnet', Bool.not_true, hrr]
              rw [set_self _ inw _ hnn]
            · rw [hM, ← hen]
              simp only [lnM]
              rw [set_self _ ia _ hna]
    · simp at hU
  · simp at hU

end MosnVerif.Model.ConfigCodec
