import MosnVerif.Model.UpgHandshake
namespace MosnVerif.Model.UpgHandshake
open MosnVerif.Gen.UpgHandshake

theorem upgrade_eq (tReady sd wd : Nat) :
    runOld oldSteps tReady sd wd =
      if tReady ≤ readyDeadlineMs then
        { clock := tReady + 3000 + sd + wd, ackAt := some tReady, stopAt := some (tReady + 3000),
          exitAt := some (tReady + 3000 + sd + wd), aborted := false }
      else { aborted := true } := by
  unfold runOld oldSteps
  simp only [List.foldl, oldStep]
  by_cases h : tReady ≤ readyDeadlineMs
  · simp [h, Nat.zero_add]
  · simp [h, Nat.zero_add]

end MosnVerif.Model.UpgHandshake
