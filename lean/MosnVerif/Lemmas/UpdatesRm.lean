import MosnVerif.Lemmas.Updates
/-!
C12, `rm` cases: the model's observation of one multi-address `RemoveClusterHosts` call satisfies the declarative predicate
`Spec.rmHolds`.
-/
namespace MosnVerif.Model.Updates

theorem distinct_of_nodup (l : List String) (h : l.Nodup) : Spec.distinct l = true := by
  induction l with
  | nil => rfl
  | cons a r ih =>
    rw [List.nodup_cons] at h
    simp only [Spec.distinct, Bool.and_eq_true, Bool.not_eq_true', List.contains_eq_mem, decide_eq_false_iff_not]
    exact ⟨h.1, ih h.2⟩

theorem rmObserve_eq (o : Oracle) (hosts : List Host) (addrs : List String) :
    rmObserve o hosts addrs =
      ⟨true, ((sortByAddr (dedup hosts)).filter (fun h => !decide (h.addr ∈ addrs))).map (·.addr),
             ((sortByAddr (dedup hosts)).filter (fun h => !decide (h.addr ∈ addrs))).map (·.addr), []⟩ := by
  have hI0 : Inv o (run o [.addOrUpdateCluster "c" 1 []]) := inv_run o _
  have hc0 : (run o [.addOrUpdateCluster "c" 1 []]).clusters "c" = some ⟨1, []⟩ := by
    have := (updateCluster_clusters init "c" 1 [] inheritHosts).2
    simpa [run, step, inheritHosts, init, FMap.empty] using this
  have hI1 : Inv o (run o [.addOrUpdateCluster "c" 1 [], .updateHosts "c" hosts]) := inv_run o _
  have hc1 : (run o [.addOrUpdateCluster "c" 1 [], .updateHosts "c" hosts]).clusters "c" = some ⟨1, dedup hosts⟩ := by
    have e : run o [.addOrUpdateCluster "c" 1 [], .updateHosts "c" hosts] =
        (step o (run o [.addOrUpdateCluster "c" 1 []]) (.updateHosts "c" hosts)).1 := by
      simp [run]
    rw [e]
    have := (updateHosts_some (replaceHosts hosts) hc0).2.1
    simpa [step, replaceHosts] using this
  have hI2 := inv_step hI1 (.removeHosts "c" addrs)
  obtain ⟨h1, h2, _⟩ := updateHosts_some (removeHosts addrs) hc1
  have hnd := (hI1.c_some "c" _ hc1).2
  rw [removeHosts_eq addrs _ hnd] at h2
  have h3 := (hI2.c_some "c" _ (by simpa [step] using h2)).1
  unfold rmObserve
  simp only [step] at h3 ⊢
  simp only [h1, h2, h3, Option.map_some, Option.getD_some]

theorem rmHolds_on_model (o : Oracle) (hosts : List Host) (addrs : List String) :
    Spec.rmHolds (hosts.map (·.addr)) addrs (rmObserve o hosts addrs) = true := by
  rw [rmObserve_eq]
  have hnd : (((sortByAddr (dedup hosts)).filter (fun h => !decide (h.addr ∈ addrs))).map (·.addr)).Nodup :=
    List.Nodup.sublist (List.Sublist.map _ List.filter_sublist)
      (((sortByAddr_perm (dedup hosts)).map _).nodup_iff.mpr (dedup_nodup hosts))
  unfold Spec.rmHolds
  simp only [Bool.and_eq_true, List.isEmpty_nil, and_true, beq_self_eq_true, true_and]
  refine ⟨⟨distinct_of_nodup _ hnd, ?_⟩, ?_⟩
  · rw [List.all_eq_true]
    intro a ha
    obtain ⟨h, hm, rfl⟩ := List.mem_map.mp ha
    obtain ⟨hm1, hm2⟩ := List.mem_filter.mp hm
    have hh : h ∈ hosts := mem_dedup ((sortByAddr_perm _).mem_iff.mp hm1)
    simp only [Bool.and_eq_true, List.contains_eq_mem, decide_eq_true_eq, Bool.not_eq_true', decide_eq_false_iff_not]
    exact ⟨List.mem_map_of_mem hh, by simpa using hm2⟩
  · rw [List.all_eq_true]
    intro a ha
    simp only [Bool.or_eq_true, List.contains_eq_mem, decide_eq_true_eq]
    by_cases hin : a ∈ addrs
    · exact Or.inl hin
    · right
      obtain ⟨h, hm, rfl⟩ := List.mem_map.mp (addr_mem_dedup ha)
      exact List.mem_map_of_mem (List.mem_filter.mpr ⟨(sortByAddr_perm _).mem_iff.mpr hm, by simpa using hin⟩)

end MosnVerif.Model.Updates
