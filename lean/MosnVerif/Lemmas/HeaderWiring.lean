import MosnVerif.Model.HeaderWiring
import MosnVerif.Lemmas.Headers
namespace MosnVerif.Model.HeaderWiring
open MosnVerif.Model.Headers MosnVerif.Gen.HeaderMutation MosnVerif.Gen.HeaderWiring

theorem evaluate_empty (h : Hdrs) : evaluate ⟨[], []⟩ h = h := rfl

/-- the regenerated nil condition only drops a parser that has nothing to apply -/
theorem parserIsNil_sound (a r : Bool) (hn : parserIsNil a r = true) : a = true ∧ r = true := by
  revert hn; cases a <;> cases r <;> decide

/-- `getHeaderParser` followed by the nil-guarded `evaluateHeaders` = evaluating the two argument lists -/
theorem evaluateOpt_getHeaderParser (a : Option (List Add)) (r : Option (List String)) (h : Hdrs) :
    evaluateOpt (getHeaderParser a r) h = evaluate ⟨a.getD [], r.getD []⟩ h := by
  unfold getHeaderParser
  by_cases hn : parserIsNil a.isNone r.isNone = true
  · obtain ⟨ha, hr⟩ := parserIsNil_sound _ _ hn
    cases a <;> cases r <;> simp_all [evaluateOpt, evaluate_empty]
  · simp [hn, evaluateOpt]

/-- every slot of the regenerated table is the diagonal one -/
theorem lookup_parserWiring (lv : Level) (d : Dir) : lookup parserWiring lv d = some (diagonalRow lv d) := by
  cases lv <;> cases d <;> decide

/-- what a level's built parser does = evaluating that level's fields of the SAME direction -/
theorem evaluateOpt_built (c : Config) (lv : Level) (d : Dir) (h : Hdrs) :
    evaluateOpt (builtParser parserWiring c lv d) h = evaluate ((dirLevels c d).at lv) h := by
  have hl := lookup_parserWiring lv d
  unfold lookup at hl
  unfold builtParser
  rw [hl]
  cases lv <;> cases d <;>
    simp [diagonalRow, evaluateOpt_getHeaderParser, Config.at, LevelCfg.adds, LevelCfg.removes, dirLevels, Levels.at]

theorem finalizeDir_eq (order : List Level) (c : Config) (d : Dir) (h : Hdrs) :
    finalizeDir parserWiring order c d h = finalize order (dirLevels c d) h := by
  unfold finalizeDir finalize
  induction order generalizing h with
  | nil => rfl
  | cons lv r ih => simp only [List.foldl_cons]; rw [evaluateOpt_built, ih]

end MosnVerif.Model.HeaderWiring
