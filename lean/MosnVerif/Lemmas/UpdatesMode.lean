import MosnVerif.Lemmas.Updates
/-! C12 / C19: the MODE a router is persisted in (static `virtual_hosts` or a `router_configs` directory) across update histories,
and dump → reload of the routers (core Lean only). -/
namespace MosnVerif.Model.Updates
open MosnVerif

/-- a configuration as the loader (`RouterConfiguration.UnmarshalJSON`) or code produces it: never both a directory path and a
static list (`ErrDuplicateStaticAndDynamic` refuses the file otherwise) -/
def loaderShaped (cfg : RouterCfg) : Prop := cfg.path ≠ "" → cfg.static = []

instance (cfg : RouterCfg) : Decidable (loaderShaped cfg) := by unfold loaderShaped; exact inferInstance

/-- every router configuration a history hands to `AddOrUpdateRouters` is loader-shaped -/
def opLoaderShaped : Op → Prop
  | .addOrUpdateRouters cfg => loaderShaped cfg
  | _ => True

/-- what loading the dumped file gives for a router whose wrapper holds `c`: the same name, path and virtual hosts (through the
directory in directory mode); `virtual_hosts` is the complete list in static mode -/
def reloadedCfg (fsr : List VHost → List VHost) (c : RouterCfg) : RouterCfg :=
  if c.path = "" then ⟨c.name, c.vhosts, "", c.vhosts⟩ else ⟨c.name, fsr c.vhosts, c.path, []⟩

theorem withPath_storedCfg (c : RouterCfg) : ({ storedCfg c with path := c.path } : RouterCfg) = c := by
  unfold storedCfg; split <;> rfl

/-- `MarshalJSON` then `UnmarshalJSON` of a loader-shaped configuration succeeds -/
theorem unmarshal_marshal (fsr : List VHost → List VHost) (c : RouterCfg) (h : loaderShaped c) :
    unmarshalRouter fsr (marshalRouter c) = some (reloadedCfg fsr c) := by
  unfold marshalRouter reloadedCfg
  by_cases hp : c.path = ""
  · simp only [hp, if_true, unmarshalRouter]
    cases hv : c.vhosts with
    | nil => simp
    | cons a r => simp
  · have hs := h hp
    simp only [hp, if_false, unmarshalRouter, hs]
    simp [hp]

/-- … and of one that has BOTH a path and a static list fails (`ErrDuplicateStaticAndDynamic`) -/
theorem unmarshal_marshal_both (fsr : List VHost → List VHost) (c : RouterCfg) (hp : c.path ≠ "") (hs : c.static ≠ []) :
    unmarshalRouter fsr (marshalRouter c) = none := by
  unfold marshalRouter
  simp only [hp, if_false, unmarshalRouter]
  cases hv : c.static with
  | nil => exact absurd hv hs
  | cons a r => simp [hp]

/-! ## wrappers are only touched by the router operations -/

theorem updateCluster_wrappers (s : State) (name : String) (tag : Nat) (cfgHosts : List Host)
    (handler : Option LiveCluster → List Host) : (updateCluster s name tag cfgHosts handler).1.wrappers = s.wrappers := by
  simp only [updateCluster, refreshHosts_wrappers]
  split <;> rfl

theorem updateHosts_wrappers (s : State) (name : String) (f : List Host → List Host) :
    (updateHosts s name f).1.wrappers = s.wrappers := by
  unfold updateHosts
  split
  · rfl
  · simp only [refreshHosts_wrappers]

theorem removeCluster_wrappers (s : State) (name : String) : (removeCluster s name).wrappers = s.wrappers := by
  unfold removeCluster
  split <;> rfl

theorem foldl_removeCluster_wrappers (names : List String) (s : State) : (names.foldl removeCluster s).wrappers = s.wrappers := by
  induction names generalizing s with
  | nil => rfl
  | cons n r ih => rw [List.foldl_cons, ih, removeCluster_wrappers]

theorem foldl_xds_wrappers (as : List (String × List (List XHost))) (acc : State × Bool) :
    (as.foldl (fun (acc : State × Bool) a =>
      let r := xdsAssign acc.1 a.1 a.2
      (r.1, acc.2 && r.2)) acc).1.wrappers = acc.1.wrappers := by
  induction as generalizing acc with
  | nil => rfl
  | cons a r ih =>
    rw [List.foldl_cons, ih]
    simp only [xdsAssign_eq, updateHosts_wrappers]

/-- the loader-shape invariant: every wrapper holds a loader-shaped configuration -/
def ShInv (s : State) : Prop := ∀ n w, s.wrappers n = some w → loaderShaped w.cfg

theorem shinv_init : ShInv init := by
  intro n w h; simp [init, FMap.empty] at h

theorem shinv_setRouter {s : State} (hS : ShInv s) (b : Bool) (cfg : RouterCfg) (t : Option Table) (hc : loaderShaped cfg) :
    ShInv (recordRouter b { s with wrappers := s.wrappers.set cfg.name ⟨t, cfg⟩ } cfg) := by
  have hw : (recordRouter b { s with wrappers := s.wrappers.set cfg.name ⟨t, cfg⟩ } cfg).wrappers = s.wrappers.set cfg.name ⟨t, cfg⟩ := by
    unfold recordRouter; split <;> rfl
  intro n w h
  rw [hw] at h
  by_cases hn : n = cfg.name
  · subst hn
    simp only [FMap.set_same, Option.some.injEq] at h
    subst h; exact hc
  · rw [FMap.set_other _ _ hn] at h
    exact hS n w h

theorem shinv_of_wrappers {s s' : State} (h : s'.wrappers = s.wrappers) (hS : ShInv s) : ShInv s' := by
  intro n w hw; rw [h] at hw; exact hS n w hw

theorem shinv_step (o : Oracle) {s : State} (hS : ShInv s) (op : Op) (hop : opLoaderShaped op) : ShInv (step o s op).1 := by
  cases op with
  | routersNil => exact hS
  | addOrUpdateRouters cfg =>
    simp only [step]
    split
    · split
      · exact hS
      · dsimp only
        exact shinv_setRouter hS _ cfg _ hop
    · dsimp only
      exact shinv_setRouter hS _ cfg _ hop
  | addRoute rname domain r =>
    simp only [step]
    split
    · exact hS
    · rename_i w hw
      split
      · exact hS
      · split
        · exact hS
        · rename_i i t' ha
          have hname := hS rname w hw
          intro n w' h'
          have := shinv_setRouter (t := some t') hS Gen.Updates.addRoute_recordsRouter
            { w.cfg with vhosts := modifyAt (fun vh => { vh with routes := vh.routes ++ [r] }) w.cfg.vhosts i } hname
          by_cases hn : n = rname
          · subst hn
            have hwr : ∀ b (s' : State) (c : RouterCfg), (recordRouter b s' c).wrappers = s'.wrappers := by
              intro b s' c; unfold recordRouter; split <;> rfl
            rw [hwr] at h'
            simp only [FMap.set_same, Option.some.injEq] at h'
            subst h'; exact hname
          · have hwr : ∀ b (s' : State) (c : RouterCfg), (recordRouter b s' c).wrappers = s'.wrappers := by
              intro b s' c; unfold recordRouter; split <;> rfl
            rw [hwr] at h'
            simp only [FMap.set_other _ _ hn] at h'
            exact hS n w' h'
  | removeAllRoutes rname domain =>
    simp only [step]
    split
    · exact hS
    · rename_i w hw
      split
      · exact hS
      · split
        · exact hS
        · rename_i i t' ha
          have hname := hS rname w hw
          intro n w' h'
          have hwr : ∀ b (s' : State) (c : RouterCfg), (recordRouter b s' c).wrappers = s'.wrappers := by
            intro b s' c; unfold recordRouter; split <;> rfl
          rw [hwr] at h'
          by_cases hn : n = rname
          · subst hn
            simp only [FMap.set_same, Option.some.injEq] at h'
            subst h'; exact hname
          · simp only [FMap.set_other _ _ hn] at h'
            exact hS n w' h'
  | addOrUpdateCluster name tag cfgHosts => exact shinv_of_wrappers (updateCluster_wrappers _ _ _ _ _) hS
  | addOrUpdateClusterAndHost name tag cfgHosts hosts => exact shinv_of_wrappers (updateCluster_wrappers _ _ _ _ _) hS
  | addClusterNil name => exact hS
  | updateHosts name hosts => exact shinv_of_wrappers (updateHosts_wrappers _ _ _) hS
  | appendHosts name hosts => exact shinv_of_wrappers (updateHosts_wrappers _ _ _) hS
  | removeHosts name addrs => exact shinv_of_wrappers (updateHosts_wrappers _ _ _) hS
  | removeClusters names =>
    simp only [step]
    split
    · exact shinv_of_wrappers (foldl_removeCluster_wrappers _ _) hS
    · exact hS
  | xdsEndpoints assignments =>
    simp only [step]
    exact shinv_of_wrappers (foldl_xds_wrappers assignments (s, true)) hS
  | addOrUpdateListener lc => exact shinv_of_wrappers (addOrUpdateListener_others s lc).1 hS
  | deleteListener n => exact shinv_of_wrappers (deleteListener_others s n).1 hS

theorem shinv_runFrom (o : Oracle) (ops : List Op) {s : State} (hS : ShInv s) (hops : ∀ op ∈ ops, opLoaderShaped op) :
    ShInv (runFrom o s ops) := by
  induction ops generalizing s with
  | nil => exact hS
  | cons op r ih =>
    exact ih (shinv_step o hS op (hops op (by simp))) (fun op' h => hops op' (by simp [h]))

theorem shinv_run (o : Oracle) (ops : List Op) (hops : ∀ op ∈ ops, opLoaderShaped op) : ShInv (run o ops) :=
  shinv_runFrom o ops shinv_init hops

/-- the dumped router of a state with the invariant is the configuration the wrapper holds, its path included -/
theorem dumpRouter_of_inv {o : Oracle} {s : State} (hI : Inv o s) (n : String) :
    dumpRouter s n = (s.wrappers n).map (·.cfg) := by
  unfold dumpRouter
  cases hw : s.wrappers n with
  | none => simp [hI.r_none n hw]
  | some w =>
    obtain ⟨_, hs, _⟩ := hI.r_some n w hw
    simp [hs, hI.r_path n w hw, withPath_storedCfg]

/-! ## the predicate of the `mode` cases holds of every model output -/

theorem modeHolds_on_model (o : Oracle) (ops : List Op) (hops : ∀ op ∈ ops, opLoaderShaped op) (rnames : List String) :
    Spec.modeHolds (modeObserve o rnames (run o ops)) = true := by
  have hI := inv_run o ops
  have hS := shinv_run o ops hops
  unfold Spec.modeHolds modeObserve
  rw [List.all_map, List.all_eq_true]
  intro n _
  simp only [Function.comp, Spec.modeOne, modeObserveOne, reloadRouter, dumpRouter_of_inv hI, liveRouters]
  cases hw : (run o ops).wrappers n with
  | none => simp
  | some w =>
    have hb := (hI.r_some n w hw).2.2
    have : build o (reloadedCfg (fun l => l) w.cfg) = build o w.cfg := by
      apply build_congr; unfold reloadedCfg; split <;> rfl
    simp [unmarshal_marshal _ _ (hS n w hw), this, hb]

end MosnVerif.Model.Updates
