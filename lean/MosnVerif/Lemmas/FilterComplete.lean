import MosnVerif.Lemmas.FilterAnnot
/-! completeness of the receiver passes: no configured filter is skipped -/
set_option linter.unusedSimpArgs false
namespace MosnVerif.Model.FilterSpec
open MosnVerif.Gen.FilterPhase MosnVerif.Model.FilterChain MosnVerif.Model.FilterMachine

/-- no filter of phase `q` with an index in [lo, hi) -/
def noneOfP (chain : List RFilter) (q : RPhase) (lo hi : Nat) : Prop :=
  ∀ k, lo ≤ k → k < hi → ∀ f, chain[k]? = some f → f.phase ≠ q

theorem noneOf_iff (c : Cfg) (q : RPhase) (lo hi : Nat) : noneOf c q lo hi = true ↔ noneOfP c.recv q lo hi := by
  unfold noneOf noneOfP
  simp only [List.all_eq_true, List.mem_range]
  constructor
  · intro h k h1 h2 f hf
    have := h (k - lo) (by omega)
    rw [show lo + (k - lo) = k by omega, hf] at this
    simpa using this
  · intro h d hd
    cases hx : c.recv[lo + d]? with
    | none => rfl
    | some f => simpa using h (lo + d) (by omega) (by omega) f hx

theorem noneOfP_mono {chain : List RFilter} {q : RPhase} {lo lo' hi hi' : Nat} (h : noneOfP chain q lo hi)
    (h1 : lo ≤ lo') (h2 : hi' ≤ hi) : noneOfP chain q lo' hi' :=
  fun k hk1 hk2 => h k (by omega) (by omega)

theorem noneOfP_empty (chain : List RFilter) (q : RPhase) (lo hi : Nat) (h : hi ≤ lo) : noneOfP chain q lo hi :=
  fun k h1 h2 => by omega

theorem noneOfP_beyond (chain : List RFilter) (q : RPhase) (lo hi : Nat) (h : noneOfP chain q lo chain.length) :
    noneOfP chain q lo hi := by
  intro k h1 _ f hf
  have hlt : k < chain.length := by
    rcases Nat.lt_or_ge k chain.length with h' | h'
    · exact h'
    · rw [List.getElem?_eq_none h'] at hf; cases hf
  exact h k h1 hlt f hf

/-- between two consecutive invocations of a pass (and before the first) there is no filter of the phase -/
def gapsOK (chain : List RFilter) (p : RPhase) : Nat → List Inv → Prop
  | _, [] => True
  | lo, iv :: r => noneOfP chain p lo iv.1 ∧ gapsOK chain p (iv.1 + 1) r

def endIdx (idx : Nat) (l : List Inv) : Nat :=
  match l.getLast? with
  | some iv => iv.1 + 1
  | none => idx

theorem endIdx_cons (idx : Nat) (a : Inv) (l : List Inv) : endIdx idx (a :: l) = endIdx (a.1 + 1) l := by
  cases l with
  | nil => rfl
  | cons b r =>
    cases hx : (b :: r).getLast? with
    | none => simp at hx
    | some y => simp [endIdx, List.getLast?_cons_cons, hx]

theorem recvLoop_gaps (chain : List RFilter) (p : RPhase) (fs : List RFilter) (idx : Nat) (s : FState)
    (hfs : chain.drop idx = fs) :
    gapsOK chain p idx (recvLoop p fs idx s).2 ∧
    ((∀ iv ∈ (recvLoop p fs idx s).2, recvSwitch iv.2.status = .next) →
      noneOfP chain p (endIdx idx (recvLoop p fs idx s).2) chain.length) := by
  induction fs generalizing idx s with
  | nil =>
    refine ⟨trivial, fun _ => ?_⟩
    have hge : chain.length ≤ idx := by
      rcases Nat.lt_or_ge idx chain.length with h | h
      · rw [List.drop_eq_getElem_cons h] at hfs; cases hfs
      · exact h
    exact noneOfP_empty _ _ _ _ hge
  | cons f rest ih =>
    obtain ⟨hget, hrest⟩ := getD_of_drop chain idx f rest f hfs
    have hat : chain[idx]? = some f := by
      have hlt : idx < chain.length := by
        rcases Nat.lt_or_ge idx chain.length with h | h
        · exact h
        · rw [List.drop_eq_nil_of_le h] at hfs; cases hfs
      rw [List.drop_eq_getElem_cons hlt] at hfs
      cases hfs
      exact List.getElem?_eq_getElem hlt
    simp only [recvLoop]
    split
    · -- a filter of another phase: skipped
      rename_i hph
      obtain ⟨i1, i2⟩ := ih (idx + 1) s hrest
      have hskip : noneOfP chain p idx (idx + 1) := by
        intro k h1 h2 g hg
        have : k = idx := by omega
        subst this
        rw [hat] at hg; cases hg; exact hph
      refine ⟨?_, ?_⟩
      · cases hl : (recvLoop p rest (idx + 1) s).2 with
        | nil => trivial
        | cons iv r =>
          rw [hl] at i1
          refine ⟨?_, i1.2⟩
          intro k h1 h2 g hg
          rcases Nat.lt_or_ge k (idx + 1) with h | h
          · exact hskip k h1 h g hg
          · exact i1.1 k h h2 g hg
      · intro hall
        have := i2 hall
        cases hl : (recvLoop p rest (idx + 1) s).2 with
        | nil =>
          rw [hl] at this
          intro k h1 h2 g hg
          rcases Nat.lt_or_ge k (idx + 1) with h | h
          · exact hskip k h1 h g hg
          · exact this k h h2 g hg
        | cons iv r => rw [hl] at this; exact this
    · generalize hv : f.verdictAt (s.rcalls idx) = v
      generalize hs1 : applyHandler (receiverHandler v.status) p (applyAct { s with rcalls := bump s.rcalls idx } v.act) = s1
      split
      · rename_i hsw
        obtain ⟨i1, i2⟩ := ih (idx + 1) s1 hrest
        refine ⟨⟨noneOfP_empty _ _ _ _ (Nat.le_refl _), i1⟩, ?_⟩
        intro hall
        rw [endIdx_cons]
        exact i2 (fun iv hiv => hall iv (List.mem_cons_of_mem _ hiv))
      · rename_i hsw
        refine ⟨⟨noneOfP_empty _ _ _ _ (Nat.le_refl _), trivial⟩, fun hall => ?_⟩
        have := hall (idx, v) (by simp)
        rw [hsw] at this; cases this
      · rename_i hsw
        refine ⟨⟨noneOfP_empty _ _ _ _ (Nat.le_refl _), trivial⟩, fun hall => ?_⟩
        have := hall (idx, v) (by simp)
        rw [hsw] at this; cases this

/-- inside a pass all invocations but the last continue -/
theorem recvLoop_init_next (p : RPhase) (fs : List RFilter) (idx : Nat) (s : FState) :
    ∀ iv ∈ (recvLoop p fs idx s).2.dropLast, recvSwitch iv.2.status = .next := by
  induction fs generalizing idx s with
  | nil => intro iv h; simp [recvLoop] at h
  | cons f rest ih =>
    simp only [recvLoop]
    split
    · exact ih _ _
    · generalize hv : f.verdictAt (s.rcalls idx) = v
      generalize hs1 : applyHandler (receiverHandler v.status) p (applyAct { s with rcalls := bump s.rcalls idx } v.act) = s1
      split
      · rename_i hsw
        have hih := ih (idx + 1) s1
        generalize (recvLoop p rest (idx + 1) s1).2 = l at hih
        intro iv hiv
        cases l with
        | nil => simp at hiv
        | cons b r =>
          simp only [List.dropLast_cons₂] at hiv
          rcases List.mem_cons.mp hiv with h | h
          · rw [h]; exact hsw
          · exact hih iv h
      · intro iv hiv; simp at hiv
      · intro iv hiv; simp at hiv

/-! ### the completeness invariant -/

theorem compChain_cons2 (c : Cfg) (a b : Nat × RPhase × Verdict) (r : List (Nat × RPhase × Verdict)) :
    compChain c (a :: b :: r) = (compStep c a b && compChain c (b :: r)) := rfl

theorem compChain_append (c : Cfg) (l l' : List (Nat × RPhase × Verdict)) :
    compChain c (l ++ l') = (compChain c l && compChain c l' &&
      (match l.getLast?, l'.head? with | some a, some b => compStep c a b | _, _ => true)) := by
  induction l with
  | nil => cases l' <;> simp [compChain]
  | cons a r ih =>
    cases r with
    | nil =>
      cases l' with
      | nil => simp [compChain]
      | cons b r' =>
        simp only [List.singleton_append, compChain_cons2, List.getLast?_singleton, List.head?_cons]
        simp [compChain, Bool.and_comm]
    | cons b r' =>
      have : (a :: b :: r') ++ l' = a :: b :: (r' ++ l') := rfl
      rw [this, compChain_cons2, compChain_cons2]
      have ih' : compChain c (b :: (r' ++ l')) = _ := ih
      rw [ih', List.getLast?_cons_cons]
      simp only [Bool.and_assoc]

/-- no configured receiver filter has phase `x` -/
def noPhaseP (c : Cfg) (x : RPhase) : Prop := noneOfP c.recv x 0 c.recv.length

def lastPn (T : List (Nat × RPhase × Verdict)) : Nat :=
  match T.getLast? with
  | some a => pn a.2.1
  | none => 0

theorem noneFrom_iff (c : Cfg) (q : RPhase) (lo : Nat) : noneFrom c q lo = true ↔ noneOfP c.recv q lo c.recv.length :=
  noneOf_iff c q lo _

theorem continues_next {st : FStatus} (h : continues st = true) : recvSwitch st = .next := by
  cases st <;> simp [continues] at h <;> rfl

/-- consecutive invocations of one pass satisfy the completeness step -/
theorem gaps_compChain (c : Cfg) (q : RPhase) (lo : Nat) (l : List Inv) (h : gapsOK c.recv q lo l) :
    compChain c (triples q l) = true := by
  induction l generalizing lo with
  | nil => rfl
  | cons a r ih =>
    cases r with
    | nil => rfl
    | cons b r' =>
      simp only [triples, List.map_cons] at ih ⊢
      rw [compChain_cons2]
      have h2 := h.2
      rw [ih (a.1 + 1) h2, Bool.and_true]
      simp only [compStep, beq_self_eq_true, if_true, Bool.or_eq_true]
      exact Or.inr ((noneOf_iff c q _ _).mpr h2.1)

theorem phasesBefore_pn {x q : RPhase} (h : x ∈ phasesBefore q) : pn x < pn q := by
  cases q <;> cases x <;> simp [phasesBefore] at h <;> decide

theorem phasesAfter_pn {x p : RPhase} (h : x ∈ phasesAfter p) : pn p < pn x := by
  cases p <;> cases x <;> simp [phasesAfter] at h <;> decide

theorem phasesBetween_pn {x p q : RPhase} (h : x ∈ phasesBetween p q) : pn p < pn x ∧ pn x < pn q := by
  simp only [phasesBetween, List.mem_filter] at h
  exact ⟨phasesAfter_pn h.1, phasesBefore_pn (by simpa using h.2)⟩

/-- a chain in which no phase has a filter is empty -/
theorem recv_empty_of_noPhase (c : Cfg) (h : ∀ x, noPhaseP c x) : c.recv = [] := by
  cases hr : c.recv with
  | nil => rfl
  | cons f r =>
    exfalso
    have := h f.phase 0 (Nat.le_refl _) (by rw [hr]; simp) f (by rw [hr]; rfl)
    exact this rfl

/-- an `up` event only comes out of the `case` DownRecvHeader -/
theorem phaseCase_noUp (c : Cfg) (s : St) (h6 : s.phase ≠ 6) :
    ∃ evs, (phaseCase c s).trace = s.trace ++ evs ∧ ∀ e ∈ evs, isUp e = false := by
  have via : ∀ g : St, (∃ evs, g.trace = s.trace ++ evs ∧ ∀ e ∈ evs, isUp e = false) →
      ∃ evs, (afterPE c g).trace = s.trace ++ evs ∧ ∀ e ∈ evs, isUp e = false := by
    intro g hg; rw [(afterPE_trace_cursor c g).1]; exact hg
  have none_ : ∀ g : St, g.trace = s.trace → ∃ evs, g.trace = s.trace ++ evs ∧ ∀ e ∈ evs, isUp e = false :=
    fun g hg => ⟨[], by simp [hg], by simp⟩
  have one : ∀ (g : St) (e : Ev), g.trace = s.trace ++ [e] → isUp e = false →
      ∃ evs, g.trace = s.trace ++ evs ∧ ∀ e ∈ evs, isUp e = false :=
    fun g e hg he => ⟨[e], hg, by simp [he]⟩
  rcases phase_cases s.phase with h | h | h | h | h | h | h | h | h | h | h | h | h | h | h | h | h | h
  · rw [pc0 c s h]; exact none_ _ rfl
  · rw [pc1 c s h]; exact via _ (one _ _ (filterPass_trace c _ s) rfl)
  · rw [pc2 c s h]; exact via _ (none_ _ rfl)
  · rw [pc3 c s h]; exact via _ (one _ _ (filterPass_trace c _ s) rfl)
  · rw [pc4 c s h]
    apply via
    unfold chooseHost; simp only []
    split
    · exact none_ _ rfl
    · exact none_ _ rfl
    · split <;> exact none_ _ rfl
  · rw [pc5 c s h]; exact via _ (one _ _ (filterPass_trace c _ s) rfl)
  · exact absurd h h6
  · rw [pc7 c s h]; split
    · exact via s (none_ s rfl)
    · exact none_ _ rfl
  · rw [pc8 c s h]; split
    · exact via s (none_ s rfl)
    · exact none_ _ rfl
  · rw [pc9 c s h]; split
    · exact via _ (none_ _ rfl)
    · exact none_ _ rfl
  · rw [pc10 c s h]; exact one _ _ rfl rfl
  · rw [pc11 c s h]; split
    · exact none_ _ (deliver_trace c s)
    · exact via _ (none_ _ (deliver_trace c s))
  · rw [pc12 c s h]; exact via _ (one _ (.spass s.scursor (runSend c.send s.toFState).2) (by simp [sendPassE, sendPass, emit, liftF]) rfl)
  · rw [pc13 c s h]; split
    · split
      · exact none_ _ (afterPEd_true_frame c s).1
      · apply via
        unfold respHeaders; split
        · exact none_ _ rfl
        · split
          · exact one _ _ rfl rfl
          · exact one _ _ rfl rfl
    · exact none_ _ rfl
  · rw [pc14 c s h]; split
    · split
      · apply via
        unfold respData; split
        · exact none_ _ rfl
        · split
          · exact one _ _ rfl rfl
          · exact one _ _ rfl rfl
      · exact none_ _ rfl
    · exact none_ _ rfl
  · rw [pc15 c s h]; split
    · split
      · apply via
        unfold respTrailers; split
        · exact none_ _ rfl
        · exact one _ _ rfl rfl
      · exact none_ _ rfl
    · exact none_ _ rfl
  · rw [pc16 c s h]; exact none_ _ (ret_trace _ _)
  · rw [pc17 c s h]; exact one _ _ rfl rfl

/-- what a request that reached the pool guarantees about the passes -/
def FwdFacts (c : Cfg) (T : List (Nat × RPhase × Verdict)) : Prop :=
  (T = [] → c.recv = []) ∧ (∀ a, T.getLast? = some a → compLast c a = true)

structure Cinv (c : Cfg) (s : St) : Prop where
  head : ∀ a, (recvObs (flat s.trace)).head? = some a → headOK c a = true
  chain : compChain c (recvObs (flat s.trace)) = true
  tail : ∀ a, (recvObs (flat s.trace)).getLast? = some a → continues a.2.2.status = true →
    noneOfP c.recv a.2.1 (a.1 + 1) c.recv.length
  curp : s.cursor ≠ 0 → ∃ a, (recvObs (flat s.trace)).getLast? = some a ∧ s.cphase = a.2.1
  gap : s.halted = false → s.phase ≤ 6 → ∀ x, lastPn (recvObs (flat s.trace)) < pn x → pn x < s.phase → noPhaseP c x
  fwd : ¬ NoUp s.trace → FwdFacts c (recvObs (flat s.trace))

/-- at DownRecvHeader every pass has been made -/
theorem fwdFacts_at6 (c : Cfg) (s : St) (h : Cinv c s) (hnh : s.halted = false) (h6 : s.phase = 6) :
    FwdFacts c (recvObs (flat s.trace)) := by
  have hgap := h.gap hnh (by omega)
  refine ⟨fun hT => ?_, fun a ha => ?_⟩
  · apply recv_empty_of_noPhase
    intro x
    apply hgap x
    · rw [hT]; simp only [lastPn, List.getLast?_nil]; cases x <;> decide
    · rw [h6]; have := pn_le5 x; omega
  · simp only [compLast, Bool.and_eq_true, Bool.or_eq_true, Bool.not_eq_true', List.all_eq_true]
    refine ⟨?_, fun x hx => ?_⟩
    · cases hc : continues a.2.2.status
      · exact Or.inl rfl
      · exact Or.inr ((noneFrom_iff c _ _).mpr (h.tail a ha hc))
    · rw [noneFrom_iff]
      apply hgap x
      · simp only [lastPn, ha]; exact phasesAfter_pn hx
      · rw [h6]; have := pn_le5 x; omega

theorem step_Cinv (c : Cfg) (s : St) (hg : Ginv c s) (hj : Jinv s) (ho : Oinv c s) (hc : Cinv c s) :
    Cinv c (step c s) := by
  unfold step
  split
  · exact hc
  · rename_i hnh
    have hnh : s.halted = false := by simpa using hnh
    split
    · -- [proxy8] what follows the exhausted task loop: no filter runs, the worker stays or goes on to Oneway / UpFilter
      obtain ⟨⟨ft, fc, _, fp, _, _, _⟩, hph⟩ := finishStart_form c s hg hnh
      refine ⟨by rw [ft]; exact hc.head, by rw [ft]; exact hc.chain, by rw [ft]; exact hc.tail,
        by rw [ft, fc, fp]; exact hc.curp, ?_, by rw [ft]; exact hc.fwd⟩
      intro hnh' hle
      rw [ft]
      rcases hph with h | ⟨_, h⟩ | h
      · rw [h] at hnh'; cases hnh'
      · rw [h] at hle ⊢; exact hc.gap hnh hle
      · omega
    split
    · -- the loop of `receive` ran out: the task returns
      refine ⟨?_, ?_, ?_, ?_, ?_, ?_⟩
      · rw [ret_trace]; exact hc.head
      · rw [ret_trace]; exact hc.chain
      · rw [ret_trace]; exact hc.tail
      · rw [ret_trace]; exact hc.curp
      · intro h; rw [ret_End_halted] at h; cases h
      · rw [ret_trace]; exact hc.fwd
    · obtain ⟨hd, _⟩ := hg.live hnh
      have hcom := hd.1
      generalize hs1 : ({ s with inner := s.inner + 1 } : St) = s1
      have e_tr : s1.trace = s.trace := by subst hs1; rfl
      have e_ph : s1.phase = s.phase := by subst hs1; rfl
      have e_cu : s1.cursor = s.cursor := by subst hs1; rfl
      have e_cp : s1.cphase = s.cphase := by subst hs1; rfl
      have e_f : s1.toFState = s.toFState := by subst hs1; rfl
      have e_again : s1.again = InitPhase := by
        have : s1.again = s.again := by subst hs1; rfl
        rw [this]; exact hcom.again
      have e_pd : s1.procDone = false := by
        have : s1.procDone = s.procDone := by subst hs1; rfl
        rw [this]; exact hcom.procDone
      cases hrp : recvPhaseOf s1.phase with
      | none =>
        obtain ⟨⟨evs, ht, hev⟩, hcur, _, hcph⟩ : NoPass s1 (phaseCase c s1) := by
          rcases phaseCase_shape c s1 with h | ⟨p, hp, _⟩
          · exact h
          · rw [hrp] at hp; cases hp
        have hT : recvObs (flat (phaseCase c s1).trace) = recvObs (flat s.trace) := by
          rw [ht, flat_append, recvObs_append, recvObs_flat_noPass evs hev, e_tr]; simp
        refine ⟨by rw [hT]; exact hc.head, by rw [hT]; exact hc.chain, by rw [hT]; exact hc.tail, ?_, ?_, ?_⟩
        · rw [hT, hcur, hcph, e_cu, e_cp]; exact hc.curp
        · intro hnh' hle x hx1 hx2
          rw [hT] at hx1
          rcases phaseCase_phase c s1 e_again hrp with h' | h' | h'
          · rw [h'] at hnh'; cases hnh'
          · rw [h', e_ph] at hx2 hle
            rcases Nat.lt_or_ge (pn x) s.phase with h | h
            · exact hc.gap hnh (by omega) x hx1 h
            · have : pn x = s.phase := by omega
              rw [e_ph, ← this, recvPhaseOf_pn] at hrp; cases hrp
          · have : 9 ≤ (phaseCase c s1).phase := h'
            omega
        · intro hup
          rw [hT]
          by_cases hold : NoUp s.trace
          · -- this step sent the request upstream: it is the `case` DownRecvHeader
            have h6 : s.phase = 6 := by
              cases hx : decide (s.phase = 6) with
              | true => simpa using hx
              | false =>
                exfalso
                have hne : s1.phase ≠ 6 := by rw [e_ph]; simpa using hx
                obtain ⟨evs', ht', hev'⟩ := phaseCase_noUp c s1 hne
                apply hup
                rw [ht', e_tr]
                intro e he
                rcases List.mem_append.mp he with h | h
                · exact hold e h
                · exact hev' e h
            exact fwdFacts_at6 c s hc hnh h6
          · exact hc.fwd hold
      | some q =>
        have hphq : s.phase = pn q := by rw [← e_ph]; exact recvPhaseOf_eq hrp
        have hq5 := pn_le5 q
        have hfront : FrontOK s.view := by
          rcases Nat.lt_or_ge s.phase 5 with h | h
          · exact PhaseData_front_of c _ _ (by omega) hd
          · exact (PhaseData_56_of c _ _ (by omega) hd).1
        -- nothing was forwarded yet
        have hnoup : NoUp s.trace := by
          rcases hj.region with ⟨_, _, _, h, _⟩ | ⟨h, _⟩
          · exact h
          · rcases h with h | h
            · have : 7 ≤ s.phase := h
              omega
            · rw [hnh] at h; cases h
        rw [phaseCase_filter c s1 q hrp]
        have hr1 : s1.upstreamReset = false := by
          have : s1.upstreamReset = s.upstreamReset := by subst hs1; rfl
          rw [this]; exact hfront.upstreamReset
        obtain ⟨o1, o2, o3⟩ := filter_outcome c q s1 hr1 e_pd (by rw [e_ph, hphq]; show pn q ≠ 12; omega)
        generalize hgq : filterPass c q s1 = g at o1 o2 o3
        generalize hrr : afterPE c g = r at o1 o2 o3
        have gF : g.toFState = (runRecv c.recv q s.toFState).1 := by rw [← hgq, filterPass_toFState, e_f]
        have rT : r.trace = s.trace ++ [.rpass q (startOf s.toFState q) (runRecv c.recv q s.toFState).2] := by
          rw [← hrr, (afterPE_trace_cursor c g).1, ← hgq, filterPass_trace, e_tr, e_f]
        have rcp : r.cphase = g.cphase := by rw [← hrr]; exact (afterPE_trace_cursor c g).2.2.2
        obtain ⟨hgaps, hfull⟩ := recvLoop_gaps c.recv q (c.recv.drop (startOf s.toFState q)) (startOf s.toFState q) s.toFState rfl
        have hinit := recvLoop_init_next q (c.recv.drop (startOf s.toFState q)) (startOf s.toFState q) s.toFState
        have hlast := recvLoop_last q (c.recv.drop (startOf s.toFState q)) (startOf s.toFState q) s.toFState hcom.again
        have hcursorAfter : (runRecv c.recv q s.toFState).1.cursor = cursorAfter (runRecv c.recv q s.toFState).2 :=
          recvLoop_cursor _ _ _ _
        have hcphase := recvLoop_cphase q (c.recv.drop (startOf s.toFState q)) (startOf s.toFState q) s.toFState
        generalize hl : (runRecv c.recv q s.toFState).2 = l at rT hgaps hfull hinit hlast hcursorAfter
        have hl' : (recvLoop q (c.recv.drop (startOf s.toFState q)) (startOf s.toFState q) s.toFState).2 = l := hl
        rw [hl'] at hgaps hfull hinit hlast
        have hT : recvObs (flat r.trace) = recvObs (flat s.trace) ++ triples q l := by
          rw [rT, flat_snoc, recvObs_append, recvObs_flatEv]
        -- where the pass started
        have hstart : ∀ a, (recvObs (flat s.trace)).getLast? = some a → a.2.1 ≠ q → startOf s.toFState q = 0 := by
          intro a ha hne
          rw [startOf_eq]
          by_cases h0 : s.toFState.cursor = 0
          · simp [h0]
          · obtain ⟨a', ha', hcp⟩ := hc.curp h0
            rw [ha] at ha'; cases ha'
            rw [if_pos ⟨h0, by rw [show s.toFState.cphase = a.2.1 from hcp]; exact fun h => hne h.symm⟩]
        have hstart0 : recvObs (flat s.trace) = [] → startOf s.toFState q = 0 := by
          intro hT0
          rw [startOf_eq]
          by_cases h0 : s.toFState.cursor = 0
          · simp [h0]
          · obtain ⟨a', ha', _⟩ := hc.curp h0
            rw [hT0] at ha'; cases ha'
        -- the old last invocation, if of the same phase, asked for this re-run
        have hsame : ∀ a, (recvObs (flat s.trace)).getLast? = some a → a.2.1 = q → accepted a.2.1 a.2.2.status = true := by
          intro a ha hpq
          rcases ho.link a ha with h | ⟨_, h⟩
          · rw [hnh] at h; cases h
          · rcases h with h | ⟨hacc, _⟩
            · rw [hpq, hphq] at h; omega
            · exact hacc
        -- gap facts at this phase
        have hgapq := hc.gap hnh (by omega)
        refine ⟨?_, ?_, ?_, ?_, ?_, ?_⟩
        · -- head
          intro a ha
          rw [hT] at ha
          cases hT0 : recvObs (flat s.trace) with
          | cons a0 r0 => rw [hT0] at ha; simp at ha; subst ha; exact hc.head a0 (by rw [hT0]; rfl)
          | nil =>
            rw [hT0] at ha
            cases l with
            | nil => simp [triples] at ha
            | cons b l' =>
              simp [triples] at ha
              subst ha
              simp only [headOK, Bool.and_eq_true, List.all_eq_true]
              refine ⟨?_, fun x hx => ?_⟩
              · rw [noneOf_iff]
                have := hgaps.1
                rw [hstart0 hT0] at this
                exact this
              · rw [noneFrom_iff]
                apply hgapq x
                · rw [hT0]; simp only [lastPn, List.getLast?_nil]; cases x <;> decide
                · rw [hphq]; exact phasesBefore_pn hx
        · -- chain
          rw [hT, compChain_append, hc.chain, gaps_compChain c q _ l hgaps]
          simp only [Bool.and_self, Bool.true_and]
          cases h1 : (recvObs (flat s.trace)).getLast? with
          | none => rfl
          | some a =>
            cases h2 : (triples q l).head? with
            | none => rfl
            | some b =>
              have hb1 : b.2.1 = q := by
                cases l with
                | nil => simp [triples] at h2
                | cons x r' => simp [triples] at h2; rw [← h2]
              show compStep c a b = true
              unfold compStep
              by_cases hpq : a.2.1 = q
              · rw [if_pos (by rw [hb1]; simpa using hpq), hsame a h1 hpq]; rfl
              · rw [if_neg (by rw [hb1]; simpa using hpq)]
                simp only [Bool.and_eq_true, Bool.or_eq_true, Bool.not_eq_true', List.all_eq_true]
                refine ⟨⟨?_, ?_⟩, fun x hx => ?_⟩
                · cases hcn : continues a.2.2.status
                  · exact Or.inl rfl
                  · exact Or.inr ((noneFrom_iff c _ _).mpr (hc.tail a h1 hcn))
                · rw [noneOf_iff, hb1]
                  cases l with
                  | nil => simp [triples] at h2
                  | cons x r' =>
                    simp [triples] at h2
                    have := hgaps.1
                    rw [hstart a h1 hpq] at this
                    rw [← h2]; exact this
                · rw [noneFrom_iff]
                  rw [hb1] at hx
                  obtain ⟨hx1, hx2⟩ := phasesBetween_pn hx
                  exact hgapq x (by simp only [lastPn, h1]; exact hx1) (by rw [hphq]; exact hx2)
        · -- tail
          intro a ha hcont
          rw [hT] at ha
          cases l with
          | nil =>
            simp only [triples, List.map_nil, List.append_nil] at ha
            exact hc.tail a ha hcont
          | cons x l' =>
            have hlast_new : (recvObs (flat s.trace) ++ triples q (x :: l')).getLast? = (triples q (x :: l')).getLast? := by
              rw [List.getLast?_append]
              cases hx : (triples q (x :: l')).getLast? with
              | none => simp [triples] at hx
              | some y => rfl
            rw [hlast_new, triples_getLast] at ha
            cases hlv : (x :: l').getLast? with
            | none => simp at hlv
            | some iv =>
              rw [hlv] at ha
              simp at ha
              subst ha
              have hall : ∀ iv' ∈ (x :: l'), recvSwitch iv'.2.status = .next := by
                intro iv' hiv'
                have hsplit : (x :: l') = (x :: l').dropLast ++ [iv] := by
                  have h1 := List.dropLast_concat_getLast (l := x :: l') (by simp)
                  have h2 : (x :: l').getLast (by simp) = iv := by
                    have := List.getLast?_eq_some_getLast (l := x :: l') (by simp)
                    rw [hlv] at this; cases this; rfl
                  rw [h2] at h1; exact h1.symm
                rw [hsplit] at hiv'
                rcases List.mem_append.mp hiv' with h | h
                · exact hinit iv' h
                · simp at h; rw [h]; exact continues_next hcont
              have := hfull hall
              simp only [endIdx, hlv] at this
              exact this
        · -- curp
          intro hne
          have hrc : r.toFState.cursor = cursorAfter l := by
            show r.cursor = _
            rw [o1]; show g.toFState.cursor = _; rw [gF]; exact hcursorAfter
          have hne' : cursorAfter l ≠ 0 := by rw [← hrc]; exact hne
          cases l with
          | nil => exact absurd rfl hne'
          | cons x l' =>
            rw [hT]
            have hlast_new : (recvObs (flat s.trace) ++ triples q (x :: l')).getLast? = (triples q (x :: l')).getLast? := by
              rw [List.getLast?_append]
              cases hx : (triples q (x :: l')).getLast? with
              | none => simp [triples] at hx
              | some y => rfl
            rw [hlast_new, triples_getLast]
            cases hlv : (x :: l').getLast? with
            | none => simp at hlv
            | some iv =>
              refine ⟨(iv.1, q, iv.2), rfl, ?_⟩
              show r.cphase = q
              rw [rcp]
              show g.toFState.cphase = q
              rw [gF]
              apply hcphase
              have : (runRecv c.recv q s.toFState).1.cursor ≠ 0 := by rw [hcursorAfter]; exact hne'
              exact this
        · -- gap
          intro hnh' hle x hx1 hx2
          rw [hT] at hx1
          rcases o3 with h' | h' | ⟨hga, h'⟩ | ⟨hga, h'⟩
          · rw [h'] at hnh'; cases hnh'
          · have : 9 ≤ r.phase := h'
            omega
          · -- the pass went on to the next phase
            rw [h', e_ph, hphq] at hx2
            cases l with
            | nil =>
              simp only [triples, List.map_nil, List.append_nil] at hx1
              rcases Nat.lt_or_ge (pn x) (pn q) with h | h
              · exact hgapq x hx1 (by rw [hphq]; exact h)
              · have hxq : x = q := pn_inj (by omega)
                subst hxq
                -- an empty pass from the first filter: the phase has no filter
                have hst : startOf s.toFState x = 0 := by
                  cases hT0 : (recvObs (flat s.trace)).getLast? with
                  | none =>
                    apply hstart0
                    cases hh : recvObs (flat s.trace) with
                    | nil => rfl
                    | cons a0 r0 => rw [hh] at hT0; simp at hT0
                  | some a =>
                    apply hstart a hT0
                    intro hpq
                    -- a resumed pass is never empty
                    rcases ho.link a hT0 with h | ⟨_, h⟩
                    · rw [hnh] at h; cases h
                    · rcases h with h | ⟨hacc, hcu, hcp, _, _⟩
                      · rw [hpq, hphq] at h; omega
                      · obtain ⟨f, hf, hfp⟩ := ho.reg a (List.mem_of_getLast? hT0)
                        have hst' : startOf s.toFState x = a.1 := by
                          rw [startOf_resume s.toFState x (by rw [← hpq]; exact hcp)]; exact hcu
                        obtain ⟨v, rest, hvr⟩ := runRecv_first c.recv x s.toFState f (by rw [hst']; exact hf) (by rw [hfp, hpq])
                        rw [hl] at hvr; cases hvr
                have := hfull (fun iv hiv => by cases hiv)
                simp only [endIdx, List.getLast?_nil] at this
                rw [hst] at this
                exact this
            | cons y l' =>
              have hlp : lastPn (recvObs (flat s.trace) ++ triples q (y :: l')) = pn q := by
                unfold lastPn
                rw [List.getLast?_append]
                cases hx : (triples q (y :: l')).getLast? with
                | none => simp [triples] at hx
                | some z =>
                  rw [triples_getLast] at hx
                  cases hlv : (y :: l').getLast? with
                  | none => simp at hlv
                  | some iv => rw [hlv] at hx; simp at hx; subst hx; rfl
              rw [hlp] at hx1; omega
          · -- an honoured re-run request: back to the phase before the requesting filter's
            have : (runRecv c.recv q s.toFState).1.again ≠ InitPhase := by rw [← gF]; exact hga
            obtain ⟨iv, hlv, _, hag, _⟩ := hlast.1 this
            have hlp : lastPn (recvObs (flat s.trace) ++ triples q l) = pn q := by
              unfold lastPn
              rw [List.getLast?_append, triples_getLast, hlv]; rfl
            rw [hlp] at hx1
            rw [h'] at hx2
            have hag' : g.toFState.again + 1 = pn q := by rw [gF]; exact hag
            have : g.again = g.toFState.again := rfl
            omega
        · -- fwd: a receiver pass forwards nothing
          intro hup
          exfalso; apply hup
          rw [rT, NoUp_snoc]; exact ⟨hnoup, rfl⟩

theorem init_Cinv (c : Cfg) : Cinv c init :=
  ⟨(fun a h => by cases h), rfl, (fun a h => by cases h), (fun h => absurd rfl h),
   (fun _ _ x _ hx => by have : pn x < 0 := hx; omega), (fun h => absurd (fun e he => by cases he) h)⟩

theorem run_all (c : Cfg) (n : Nat) (s : St) (hg : Ginv c s) (hj : Jinv s) (ho : Oinv c s) (hc : Cinv c s) :
    Ginv c (run c n s) ∧ Oinv c (run c n s) ∧ Cinv c (run c n s) := by
  induction n generalizing s with
  | zero => exact ⟨hg, ho, hc⟩
  | succ n ih => exact ih _ (step_Ginv c s hg) (step_Jinv c s hj) (step_Oinv c s hg ho) (step_Cinv c s hg hj ho hc)

/-- **no filter is skipped**: the completeness clause of the predicate, at every point of the run -/
theorem completeOK_run (c : Cfg) (n : Nat) : completeOK c (flat (run c n init).trace) = true := by
  obtain ⟨_, _, hc⟩ := run_all c n init (init_Ginv c) init_Jinv (init_Oinv c) (init_Cinv c)
  unfold completeOK
  have hfw : forwarded (flat (run c n init).trace) = true → FwdFacts c (recvObs (flat (run c n init).trace)) :=
    fun hf => hc.fwd (forwarded_flat hf)
  cases hT : recvObs (flat (run c n init).trace) with
  | nil =>
    simp only [Bool.or_eq_true, Bool.not_eq_true', List.isEmpty_iff]
    cases hf : forwarded (flat (run c n init).trace)
    · exact Or.inl rfl
    · exact Or.inr ((hfw hf).1 hT)
  | cons a r =>
    have hh := hc.head a (by rw [hT]; rfl)
    have hch := hc.chain
    rw [hT] at hch
    simp only [hh, hch, Bool.true_and, Bool.or_eq_true, Bool.not_eq_true']
    cases hf : forwarded (flat (run c n init).trace)
    · exact Or.inl rfl
    · right
      cases hl : (a :: r).getLast? with
      | none => rfl
      | some z => exact (hfw hf).2 z (by rw [hT]; exact hl)

/-- everything but single_reply, at every point of the run -/
theorem specSafety_run (c : Cfg) (n : Nat) : specSafety c (flat (run c n init).trace) = true := by
  obtain ⟨hg, ho⟩ := run_GO c n init (init_Ginv c) (init_Oinv c)
  have hn := run_nrs c n init (init_Ginv c) rfl
  unfold specSafety
  rw [phasesOK_of_reg c _ ho.reg, ho.ord, completeOK_run c n, noRecvAfterSend_of_nrs _ hn,
    sendOK_of_SpOK c _ (Ginv_SpOK c _ hg)]
  simp only [Bool.true_and, Bool.and_true, Bool.or_eq_true, Bool.not_eq_true']
  cases hd : denied (flat (run c n init).trace)
  · exact Or.inl rfl
  · right
    cases hf : forwarded (flat (run c n init).trace)
    · rfl
    · exact absurd (deny_noUp c n (denied_flat hd)) (forwarded_flat hf)

theorem spec_final (c : Cfg) (hex : (final c).exhausted = false) (hrt : (final c).retried = false) :
    spec c (flat (final c).trace) = true := by
  unfold spec
  rw [show (final c).trace = (run c fuel init).trace from rfl, specSafety_run c fuel]
  simp only [Bool.true_and]
  apply singleReplyOK_of
  intro ha hnt hno
  exact single_reply_of c (final c) (run_Ginv c fuel init (init_Ginv c)) (final_halted c) ha hnt hno hex hrt

end MosnVerif.Model.FilterSpec
