import MosnVerif.Lemmas.Framing
import MosnVerif.Model.FrameSteps
/-! prefix-stability of the header stage of every xprotocol decoder (re-checked against the regenerated `Gen.FrameLen`) -/
namespace MosnVerif.Model.FrameSteps
open MosnVerif.Model.Framing MosnVerif.Model.FrameBytes MosnVerif.Model.KVBlock
open MosnVerif.Gen.FrameLen MosnVerif.Gen.FrameConsts

theorem be_append (p e : Bytes) (lo hi : Nat) (h : hi ≤ p.length) : be (p ++ e) lo hi = be p lo hi := by
  simp [be, List.take_append_of_le_length h]

theorem fld_append (p e : Bytes) (r : Nat × Nat) (h : r.2 ≤ p.length) : fld (p ++ e) r = fld p r :=
  be_append p e r.1 r.2 h

theorem u8_append (p e : Bytes) (i : Nat) (h : i < p.length) : u8 (p ++ e) i = u8 p i :=
  be_append p e i (i + 1) h

/-- what the regenerated pieces of a `decodeRequest/Response` must satisfy -/
structure LayoutOk (L : Layout) : Prop where
  s1    : ∀ l, L.short1 l = false → L.cl.2 ≤ l ∧ L.hl.2 ≤ l ∧ L.ctl.2 ≤ l
  s1m   : ∀ l k, L.short1 l = false → L.short1 (l + k) = false
  s2    : ∀ l n, L.short2 l n = false → L.drain n ≤ l
  s2m   : ∀ l n k, L.short2 l n = false → L.short2 (l + k) n = false
  pos   : ∀ a b c, 0 < L.drain (L.flen a b c)

theorem layoutOk (id : LayId) : LayoutOk (layoutOf id) := by
  cases id <;> constructor <;> simp only [layoutOf] <;> intros <;> frame_len_defs <;> (try simp at *) <;> omega

theorem layoutHdr_stable (L : Layout) (hL : LayoutOk L) : HdrStable (layoutHdr L) := by
  constructor
  · intro p n h
    unfold layoutHdr at h
    split at h <;> try (simp at h)
    split at h <;> simp at h
    rename_i h1 h2
    subst h
    exact ⟨hL.pos _ _ _, hL.s2 _ _ (by simpa using h2)⟩
  · intro p n e h
    unfold layoutHdr at h ⊢
    split at h <;> try (simp at h)
    split at h <;> simp at h
    rename_i h1 h2
    have h1' : L.short1 p.length = false := by simpa using h1
    have h2' := h2
    simp only [Bool.not_eq_true] at h2'
    have ⟨a, b, c⟩ := hL.s1 _ h1'
    simp only [List.length_append, hL.s1m _ e.length h1', Bool.false_eq_true, ↓reduceIte, fld_append p e _ a,
      fld_append p e _ b, fld_append p e _ c, hL.s2m _ _ e.length h2', h]
  · intro p e h
    unfold layoutHdr at h
    split at h <;> try (simp at h)
    split at h <;> simp at h

theorem sel_needMore_of_short_v1 (p : Bytes) (h : bolt_enough p.length = false) : v1rules p = .needMore := by
  simp [v1rules, h]

theorem v1rules_ext (p e : Bytes) (h : v1rules p ≠ .needMore) : v1rules (p ++ e) = v1rules p := by
  unfold v1rules at h ⊢
  by_cases hen : bolt_enough p.length
  · have hl : 20 ≤ p.length := by frame_len_defs; simpa using hen
    have hen2 : bolt_enough (p ++ e).length = true := by frame_len_defs; simp; omega
    have hi : bolt_cmdTypeIdx < p.length := by frame_len_defs; omega
    simp only [hen, hen2, u8_append p e _ hi]
  · simp [hen] at h

theorem v2rules_ext (p e : Bytes) (h : v2rules p ≠ .needMore) : v2rules (p ++ e) = v2rules p := by
  unfold v2rules at h ⊢
  by_cases hen : boltv2_enough p.length
  · have hl : 22 ≤ p.length := by frame_len_defs; simpa using hen
    have hen2 : boltv2_enough (p ++ e).length = true := by frame_len_defs; simp; omega
    have hi : boltv2_cmdTypeIdx < p.length := by frame_len_defs; omega
    simp only [hen, hen2, u8_append p e _ hi]
  · simp [hen] at h

theorem boltSel_ext : ∀ (k : Nat) (v2 : Bool) (p e : Bytes), boltSel k v2 p ≠ .needMore →
    boltSel k v2 (p ++ e) = boltSel k v2 p := by
  intro k
  induction k with
  | zero => intro v2 p e _; simp [boltSel]
  | succ k ih =>
    intro v2 p e h
    by_cases hp : p = []
    · subst hp
      exfalso; apply h
      cases v2 <;> simp [boltSel, v1rules, v2rules] <;> frame_len_defs <;> simp
    · have hpos : 0 < p.length := by cases p <;> simp_all
      cases v2
      · have hn : bolt_nonEmpty (p ++ e).length = bolt_nonEmpty p.length := by
          frame_len_defs; simp; omega
        have hi : bolt_codeIdx < p.length := by frame_len_defs; omega
        unfold boltSel at h ⊢
        rw [hn, u8_append p e _ hi]
        split
        · rename_i hc; simp only [hc, ↓reduceIte] at h; exact ih true p e h
        · rename_i hc; simp only [hc] at h; exact v1rules_ext p e h
      · have hn : boltv2_nonEmpty (p ++ e).length = boltv2_nonEmpty p.length := by
          frame_len_defs; simp; omega
        have hi : boltv2_codeIdx < p.length := by frame_len_defs; omega
        unfold boltSel at h ⊢
        rw [hn, u8_append p e _ hi]
        split
        · rename_i hc; simp only [hc, ↓reduceIte] at h; exact ih false p e h
        · rename_i hc; simp only [hc] at h; exact v2rules_ext p e h

theorem boltHdr_stable (v2 : Bool) : HdrStable (boltHdr v2) := by
  constructor
  · intro p n h
    unfold boltHdr at h
    split at h <;> try (simp at h)
    rename_i id hs
    exact (layoutHdr_stable _ (layoutOk id)).pos p n h
  · intro p n e h
    unfold boltHdr at h ⊢
    split at h <;> try (simp at h)
    rename_i id hs
    rw [boltSel_ext selFuel v2 p e (by rw [hs]; simp), hs]
    exact (layoutHdr_stable _ (layoutOk id)).ext p n e h
  · intro p e h
    unfold boltHdr at h ⊢
    split at h <;> try (simp at h)
    · rename_i hs
      rw [boltSel_ext selFuel v2 p e (by rw [hs]; simp), hs]
    · rename_i id hs
      exact absurd h (by
        intro h'
        have := (layoutHdr_stable _ (layoutOk id)).errExt p [] h'
        unfold layoutHdr at h'
        split at h' <;> try (simp at h')
        split at h' <;> simp at h')

theorem dubboHdr_stable : HdrStable dubboHdr := by
  constructor
  · intro p n h
    unfold dubboHdr at h
    split at h <;> try (simp at h)
    split at h <;> simp at h
    rename_i h1 h2
    frame_len_defs
    simp at h1 h2
    subst h
    simp only [fld] at *
    omega
  · intro p n e h
    unfold dubboHdr at h ⊢
    split at h <;> try (simp at h)
    split at h <;> simp at h
    rename_i h1 h2
    have hl : 16 ≤ p.length := by frame_len_defs; simpa using h1
    have a : dubbo_payLoadLen.2 ≤ p.length := by frame_len_defs; omega
    have b : dubbo_dataLen.2 ≤ p.length := by frame_len_defs; omega
    rw [fld_append p e _ a, fld_append p e _ b, h]
    have h1' : dubbo_enough1 (p.length + e.length) = true := by frame_len_defs; simp; omega
    have h2' : dubbo_enough2 (p.length + e.length) (fld p dubbo_payLoadLen) = true := by
      frame_len_defs; simp at h2 ⊢; omega
    simp [h1', h2']
  · intro p e h
    unfold dubboHdr at h
    split at h <;> try (simp at h)
    split at h <;> simp at h

theorem thriftHdr_stable : HdrStable thriftHdr := by
  constructor
  · intro p n h
    unfold thriftHdr at h
    split at h <;> try (simp at h)
    split at h <;> simp at h
    rename_i h1 h2
    frame_len_defs
    simp at h1 h2
    subst h
    simp only [fld] at *
    omega
  · intro p n e h
    unfold thriftHdr at h ⊢
    split at h <;> try (simp at h)
    split at h <;> simp at h
    rename_i h1 h2
    have hl : 6 ≤ p.length := by frame_len_defs; simpa using h1
    have a : thrift_sizeField.2 ≤ p.length := by frame_len_defs; omega
    have b : thrift_messageLen.2 ≤ p.length := by frame_len_defs; omega
    rw [fld_append p e _ a, fld_append p e _ b, h]
    have h1' : thrift_enough1 (p.length + e.length) = true := by frame_len_defs; simp; omega
    have h2' : thrift_enough2 (p.length + e.length) (fld p thrift_sizeField) = true := by
      frame_len_defs; simp at h2 ⊢; omega
    simp [h1', h2']
  · intro p e h
    unfold thriftHdr at h
    split at h <;> try (simp at h)
    split at h <;> simp at h

theorem tarsHdr_stable : HdrStable tarsHdr := by
  constructor
  · intro p n h
    unfold tarsHdr at h
    split at h <;> try (simp at h)
    split at h
    · split at h <;> simp at h
    split at h <;> simp at h
    rename_i h1 h2 h3
    subst h
    frame_consts_defs
    omega
  · intro p n e h
    unfold tarsHdr at h ⊢
    split at h <;> try (simp at h)
    split at h
    · split at h <;> simp at h
    split at h <;> simp at h
    rename_i h1 h2 h3
    have hl : tars_lenFieldSize ≤ p.length := by omega
    rw [be_append p e 0 _ hl, h]
    have : ¬ (p.length + e.length < tars_lenFieldSize) := by omega
    have h3' : ¬ (p.length + e.length < n) := by omega
    rw [h] at h2
    simp [this, h2, h3']
  · intro p e h
    unfold tarsHdr at h ⊢
    split at h <;> try (simp at h)
    split at h
    · rename_i h1 h2
      have hl : tars_lenFieldSize ≤ p.length := by omega
      have : ¬ (p.length + e.length < tars_lenFieldSize) := by omega
      split at h <;> simp at h
      rename_i hF
      rw [be_append p e 0 _ hl]
      simp [this, h2, hF]
    · split at h <;> simp at h

theorem stable_bolt : Stable frameStep_bolt := envelope_stable _ (boltHdr_stable false) _
theorem stable_boltv2 : Stable frameStep_boltv2 := envelope_stable _ (boltHdr_stable true) _
theorem stable_dubbo (oracle : Bytes → Bool) : Stable (frameStep_dubbo oracle) := envelope_stable _ dubboHdr_stable _
theorem stable_thrift (oracle : Bytes → Bool) : Stable (frameStep_thrift oracle) := envelope_stable _ thriftHdr_stable _
theorem stable_tars (oracle : Bytes → Bool) : Stable (frameStep_tars oracle) := envelope_stable _ tarsHdr_stable _

end MosnVerif.Model.FrameSteps
