import MosnVerif.Lemmas.RouterLocks
import MosnVerif.Lemmas.Updates
/-! The steps of `routers_manager.go` on one existing router: the regenerated programs run alone are `Model/Updates.step`. -/
namespace MosnVerif.Model.RouterLocks
open MosnVerif MosnVerif.Gen.RouterLocks MosnVerif.Model.Updates

/-- the map lookup of an existing router and `NewRouters` of the call's own argument touch nothing shared -/
theorem exec_local (o : Oracle) : ∀ a, localStep a = true → LocalStep (exec o) a := by
  intro a ha s s' l
  obtain ⟨op, me, built, tab, cfg, idx, snap, result⟩ := l
  cases a <;> simp [localStep] at ha
  · exact ⟨rfl, rfl⟩
  · cases op with
    | update c => simp only [exec]; cases build o c <;> exact ⟨rfl, rfl⟩
    | addRoute d r => exact ⟨rfl, rfl⟩
    | removeAll d => exact ⟨rfl, rfl⟩
  · cases op <;> exact ⟨rfl, rfl⟩

@[simp] theorem recordRouter_wrappers (b : Bool) (s : State) (c : RouterCfg) : (recordRouter b s c).wrappers = s.wrappers := by
  unfold recordRouter; split <;> rfl

theorem recordRouter_rpath (s : State) (c : RouterCfg) :
    (recordRouter true s c).rpath c.name = rememberedPath (s.rpath c.name) c := by
  simp [recordRouter]

theorem recordRouter_rpath' (s : State) (c : RouterCfg) (n : String) (h : c.name = n) :
    (recordRouter true s c).rpath n = rememberedPath (s.rpath n) c := by
  subst h; simp [recordRouter]

@[simp] theorem setAt_same {α : Type} (m : Nat → α) (k : Nat) (v : α) : setAt m k v k = v := by simp [setAt]

theorem modifyAt_congr_at {α : Type} (f g : α → α) (l : List α) (i : Nat) (h : ∀ x, l[i]? = some x → f x = g x) :
    modifyAt f l i = modifyAt g l i := by
  induction l generalizing i with
  | nil => rfl
  | cons a r ih =>
    cases i with
    | zero => simp only [modifyAt]; rw [h a (by simp)]
    | succ j => simp only [modifyAt]; rw [ih j (fun x hx => h x (by simpa using hx))]

theorem modifyAt_snap (c : RouterCfg) (i : Nat) (r : Route) :
    modifyAt (fun vh : VHost => { vh with routes := routesAt c i ++ [r] }) c.vhosts i =
    modifyAt (fun vh : VHost => { vh with routes := vh.routes ++ [r] }) c.vhosts i := by
  apply modifyAt_congr_at
  intro x hx
  simp [routesAt, hx]

theorem rb_lock {S L : Type} (exec : Exec S L) (a : Step) (h : isLockOp a = true) (r : List Step) (s : S) (l : L) :
    runBody exec (a :: r) s l = runBody exec r s l := runBody_cons_lock exec h r s l

theorem rb_step {S L : Type} (exec : Exec S L) (a : Step) (h : isLockOp a = false) (r : List Step) (s s' : S) (l l' : L)
    (he : exec a s l = (s', l', false)) : runBody exec (a :: r) s l = runBody exec r s' l' := by
  rw [runBody_cons_plain exec h, he]; simp

theorem rb_early {S L : Type} (exec : Exec S L) (a : Step) (h : isLockOp a = false) (r : List Step) (s s' : S) (l l' : L)
    (he : exec a s l = (s', l', true)) : runBody exec (a :: r) s l = (s', l') := by
  rw [runBody_cons_plain exec h, he]; simp

/-- `AddOrUpdateRouters` (router found) run alone -/
theorem body_update (o : Oracle) (S : Shared) (cfg : RouterCfg) (me : Nat) :
    view (runBody (exec o) addOrUpdateRouters_found S { op := .update cfg, me := me }).1 = stepView o (view S) (.update cfg) := by
  unfold addOrUpdateRouters_found
  rw [rb_lock _ .mlock rfl, rb_step _ .lookup rfl _ _ _ _ _ rfl]
  cases hb : build o cfg with
  | none =>
    rw [rb_early (exec o) .build rfl _ S S _ { op := .update cfg, me := me, result := some false } (by simp [exec, hb])]
    simp [stepView, hb]
  | some t =>
    rw [rb_step (exec o) .build rfl _ S S _ { op := .update cfg, me := me, built := some t } (by simp [exec, hb])]
    rw [rb_lock _ .lock rfl, rb_step _ .setTable rfl _ _ _ _ _ rfl, rb_step _ .setCfg rfl _ _ _ _ _ rfl,
      rb_step _ .store rfl _ _ _ _ _ rfl, rb_lock _ .unlock rfl, rb_lock _ .munlock rfl]
    simp [runBody, view, stepView, hb]

/-- `AddRoute` (router found) run alone -/
theorem body_addRoute (o : Oracle) (S : Shared) (d : String) (r : Route) (me : Nat) :
    view (runBody (exec o) addRoute_found S { op := .addRoute d r, me := me }).1 = stepView o (view S) (.addRoute d r) := by
  unfold addRoute_found
  rw [rb_step _ .lookup rfl _ _ _ _ _ rfl, rb_lock _ .lock rfl, rb_step _ .readTable rfl _ _ _ _ _ rfl]
  cases ht : S.tables S.wtab with
  | none =>
    rw [rb_early (exec o) .checkTable rfl _ S S _ { op := .addRoute d r, me := me, tab := S.wtab, result := some false }
      (by simp [exec, ht])]
    simp [stepView, view, ht]
  | some t =>
    rw [rb_step (exec o) .checkTable rfl _ S S _ { op := .addRoute d r, me := me, tab := S.wtab } (by simp [exec, ht]),
      rb_step _ .readCfg rfl _ _ _ _ _ rfl]
    cases ha : t.addRoute o d r with
    | none =>
      rw [rb_step (exec o) .mutate rfl _ S S _ { op := .addRoute d r, me := me, tab := S.wtab, cfg := S.wcfg, idx := none }
        (by simp [exec, ht, ha])]
      rw [rb_early (exec o) .checkIndex rfl _ S S _
        { op := .addRoute d r, me := me, tab := S.wtab, cfg := S.wcfg, idx := none, result := some false } (by simp [exec])]
      simp [stepView, view, ht, ha]
    | some p =>
      obtain ⟨i, t'⟩ := p
      rw [rb_step (exec o) .mutate rfl _ S { S with tables := setAt S.tables S.wtab (some t') } _
        { op := .addRoute d r, me := me, tab := S.wtab, cfg := S.wcfg, idx := some i } (by simp [exec, ht, ha])]
      rw [rb_step (exec o) .checkIndex rfl _ _ { S with tables := setAt S.tables S.wtab (some t') } _
        { op := .addRoute d r, me := me, tab := S.wtab, cfg := S.wcfg, idx := some i } (by simp [exec])]
      rw [rb_step _ .peekCfg rfl _ _ _ _ _ rfl, rb_step _ .writeCfg rfl _ _ _ _ _ rfl, rb_step _ .setCfg rfl _ _ _ _ _ rfl,
        rb_step _ .store rfl _ _ _ _ _ rfl, rb_lock _ .unlock rfl]
      simp [runBody, view, stepView, ht, ha, modifyAt_snap]

/-- `RemoveAllRoutes` (router found) run alone -/
theorem body_removeAll (o : Oracle) (S : Shared) (d : String) (me : Nat) :
    view (runBody (exec o) removeAllRoutes_found S { op := .removeAll d, me := me }).1 = stepView o (view S) (.removeAll d) := by
  unfold removeAllRoutes_found
  rw [rb_step _ .lookup rfl _ _ _ _ _ rfl, rb_lock _ .lock rfl, rb_step _ .readTable rfl _ _ _ _ _ rfl]
  cases ht : S.tables S.wtab with
  | none =>
    rw [rb_early (exec o) .checkTable rfl _ S S _ { op := .removeAll d, me := me, tab := S.wtab, result := some false }
      (by simp [exec, ht])]
    simp [stepView, view, ht]
  | some t =>
    rw [rb_step (exec o) .checkTable rfl _ S S _ { op := .removeAll d, me := me, tab := S.wtab } (by simp [exec, ht]),
      rb_step _ .readCfg rfl _ _ _ _ _ rfl]
    cases ha : t.removeAll o d with
    | none =>
      rw [rb_step (exec o) .mutate rfl _ S S _ { op := .removeAll d, me := me, tab := S.wtab, cfg := S.wcfg, idx := none }
        (by simp [exec, ht, ha])]
      rw [rb_early (exec o) .checkIndex rfl _ S S _
        { op := .removeAll d, me := me, tab := S.wtab, cfg := S.wcfg, idx := none, result := some false } (by simp [exec])]
      simp [stepView, view, ht, ha]
    | some p =>
      obtain ⟨i, t'⟩ := p
      rw [rb_step (exec o) .mutate rfl _ S { S with tables := setAt S.tables S.wtab (some t') } _
        { op := .removeAll d, me := me, tab := S.wtab, cfg := S.wcfg, idx := some i } (by simp [exec, ht, ha])]
      rw [rb_step (exec o) .checkIndex rfl _ _ { S with tables := setAt S.tables S.wtab (some t') } _
        { op := .removeAll d, me := me, tab := S.wtab, cfg := S.wcfg, idx := some i } (by simp [exec])]
      rw [rb_step _ .writeCfg rfl _ _ _ _ _ rfl, rb_step _ .setCfg rfl _ _ _ _ _ rfl,
        rb_step _ .store rfl _ _ _ _ _ rfl, rb_lock _ .unlock rfl]
      simp [runBody, view, stepView, ht, ha]

theorem body_view (o : Oracle) (ops : Nat → MOp) (t : Nat) (S : Shared) :
    view (runBody (exec o) (callOf ops t).prog S (callOf ops t).l0).1 = stepView o (view S) (ops t) := by
  unfold callOf
  cases h : ops t with
  | update cfg => exact body_update o S cfg _
  | addRoute d r => exact body_addRoute o S d r _
  | removeAll d => exact body_removeAll o S d _

/-- one call on views is `Model/Updates.step` on the router -/
theorem stepView_step (o : Oracle) (st : State) (hI : Inv o st) (n : String) (w : Wrapper) (hw : st.wrappers n = some w)
    (op : MOp) (hn : named n op) :
    ∃ w', (step o st (toOp n op)).1.wrappers n = some w' ∧
      viewOf (step o st (toOp n op)).1 n w' = stepView o (viewOf st n w) op := by
  obtain ⟨hname, _, _⟩ := hI.r_some n w hw
  cases op with
  | update cfg =>
    simp only [named] at hn
    subst hn
    cases hb : build o cfg with
    | none =>
      refine ⟨w, ?_, ?_⟩ <;> simp only [toOp, step, hw, hb, stepView]
    | some t =>
      refine ⟨⟨some t, cfg⟩, ?_, ?_⟩
      · simp only [toOp, step, hw, hb, recordRouter_wrappers, FMap.set_same]
      · simp only [toOp, step, hw, hb, stepView, viewOf, gen_recordsAddOrUpdate, recordRouter_rpath]
  | addRoute d r =>
    cases ht : w.routers with
    | none => refine ⟨w, ?_, ?_⟩ <;> simp only [toOp, step, hw, ht, stepView, viewOf]
    | some t =>
      cases ha : t.addRoute o d r with
      | none => refine ⟨w, ?_, ?_⟩ <;> simp only [toOp, step, hw, ht, ha, stepView, viewOf]
      | some p =>
        obtain ⟨i, t'⟩ := p
        refine ⟨⟨some t', { w.cfg with vhosts := modifyAt (fun vh => { vh with routes := vh.routes ++ [r] }) w.cfg.vhosts i }⟩, ?_, ?_⟩
        · simp only [toOp, step, hw, ht, ha, recordRouter_wrappers, FMap.set_same]
        · have := recordRouter_rpath' { st with wrappers := st.wrappers.set n ⟨some t', { w.cfg with vhosts := modifyAt (fun vh => { vh with routes := vh.routes ++ [r] }) w.cfg.vhosts i }⟩ }
            { w.cfg with vhosts := modifyAt (fun vh => { vh with routes := vh.routes ++ [r] }) w.cfg.vhosts i } n hname
          simp only [toOp, step, hw, ht, ha, stepView, viewOf, gen_addRoute, this]
  | removeAll d =>
    cases ht : w.routers with
    | none => refine ⟨w, ?_, ?_⟩ <;> simp only [toOp, step, hw, ht, stepView, viewOf]
    | some t =>
      cases ha : t.removeAll o d with
      | none => refine ⟨w, ?_, ?_⟩ <;> simp only [toOp, step, hw, ht, ha, stepView, viewOf]
      | some p =>
        obtain ⟨i, t'⟩ := p
        refine ⟨⟨some t', { w.cfg with vhosts := modifyAt (fun vh => { vh with routes := [] }) w.cfg.vhosts i }⟩, ?_, ?_⟩
        · simp only [toOp, step, hw, ht, ha, recordRouter_wrappers, FMap.set_same]
        · have := recordRouter_rpath' { st with wrappers := st.wrappers.set n ⟨some t', { w.cfg with vhosts := modifyAt (fun vh => { vh with routes := [] }) w.cfg.vhosts i }⟩ }
            { w.cfg with vhosts := modifyAt (fun vh => { vh with routes := [] }) w.cfg.vhosts i } n hname
          simp only [toOp, step, hw, ht, ha, stepView, viewOf, gen_removeAll, this]

/-- the calls of `order` run one after the other on the shared state = the corresponding history of `Model/Updates` -/
theorem serial_view (o : Oracle) (n : String) (ops : Nat → MOp) (hn : ∀ t, named n (ops t)) (order : List Nat)
    (st : State) (hI : Inv o st) (w : Wrapper) (hw : st.wrappers n = some w) (S : Shared) (hS : view S = viewOf st n w) :
    ∃ w', (runFrom o st (order.map (fun t => toOp n (ops t)))).wrappers n = some w' ∧
      view (serialS (exec o) (callOf ops) order S) = viewOf (runFrom o st (order.map (fun t => toOp n (ops t)))) n w' := by
  induction order generalizing st w S with
  | nil => exact ⟨w, hw, hS⟩
  | cons t r ih =>
    obtain ⟨w1, hw1, hv1⟩ := stepView_step o st hI n w hw (ops t) (hn t)
    have hS1 : view (runBody (exec o) (callOf ops t).prog S (callOf ops t).l0).1 = viewOf (step o st (toOp n (ops t))).1 n w1 := by
      rw [body_view, hS, hv1]
    exact ih (step o st (toOp n (ops t))).1 (Updates.inv_step hI _) w1 hw1 _ hS1

theorem view_sharedOf (st : State) (n : String) (w : Wrapper) : view (sharedOf st n w) = viewOf st n w := rfl

/-- a coherent state's view is coherent -/
theorem coherent_viewOf (o : Oracle) (st : State) (hI : Inv o st) (n : String) (w : Wrapper) (hw : st.wrappers n = some w) :
    coherentView o (viewOf st n w) = true := by
  obtain ⟨_, _, hb⟩ := hI.r_some n w hw
  simp [coherentView, viewOf, hb]

end MosnVerif.Model.RouterLocks
