import MosnVerif.Model.HpackInt
import Mathlib.Tactic.Ring
/-! Lemmas for the HPACK prefix-integer / string-literal model. -/
namespace MosnVerif.Lemmas.HpackInt
open MosnVerif.Model.HpackInt MosnVerif.Gen.Hpack

theorem ofNat_toNat (x : Nat) (h : x < 256) : (UInt8.ofNat x).toNat = x := by
  simp [Nat.mod_eq_of_lt h]

/-! the Go bit operations the model writes arithmetically -/
theorem and127 (x : Nat) : x &&& 127 = x % 128 := Nat.and_two_pow_sub_one_eq_mod x 7
theorem shr7 (x : Nat) : x >>> 7 = x / 128 := by simp [Nat.shiftRight_eq_div_pow]
theorem shl (x m : Nat) : x <<< m = x * 2 ^ m := Nat.shiftLeft_eq x m
theorem or128 (x : Nat) : 128 ||| (x &&& 127) = 128 + x % 128 := by
  rw [and127]
  have := Nat.two_pow_add_eq_or_of_lt (i := 7) (b := x % 128) (by omega) 1
  simpa using this.symm
set_option maxRecDepth 8000 in
theorem byte_and128 : ∀ b : Nat, b < 256 → ((b &&& 128 = 0) ↔ b < 128) := by decide
theorem mask (b n : Nat) : b &&& ((1 <<< n) - 1) = b % 2 ^ n := by
  rw [Nat.shiftLeft_eq, Nat.one_mul]; exact Nat.and_two_pow_sub_one_eq_mod b n
/-- `dst[first] |= flags` when the flag bits lie above an `n`-bit prefix value -/
theorem or_flags (b n h : Nat) (hb : b < 2 ^ n) : b ||| (2 ^ n * h) = b + 2 ^ n * h := by
  rw [Nat.or_comm, Nat.add_comm]; exact (Nat.two_pow_add_eq_or_of_lt hb h).symm

theorem pow_split (e : Nat) (h : 7 ≤ e) : 2 ^ e = 2 ^ (e - 7) * 128 := by
  have : e = (e - 7) + 7 := by omega
  conv => lhs; rw [this, Nat.pow_add]

/-- decoding the continuation bytes of `v` with room for them gives back `v` -/
theorem readCont_contBytes (v : Nat) : ∀ (acc m e : Nat) (rest : Bytes), m + e = 63 → v < 2 ^ e →
    readCont (contBytes v ++ rest) acc m = .ok (acc + v * 2 ^ m, rest) := by
  induction v using Nat.strongRecOn with
  | _ v ih =>
    intro acc m e rest hme hv
    rw [contBytes]
    by_cases h : 128 ≤ v
    · simp only [h, if_true, List.cons_append, readCont]
      have hb : (UInt8.ofNat (128 + v % 128)).toNat = 128 + v % 128 := ofNat_toNat _ (by omega)
      have he : 7 < e := by
        have h7 : (2 : Nat) ^ 7 < 2 ^ e := by
          have : (2:Nat)^7 = 128 := by norm_num
          omega
        exact (Nat.pow_lt_pow_iff_right (by norm_num)).1 h7
      rw [hb]
      have h1 : ¬ (128 + v % 128 < 128) := by omega
      have h2 : ¬ (varintShiftLimit ≤ m + 7) := by simp only [varintShiftLimit]; omega
      simp only [h1, if_false, h2]
      have hq : v / 128 < 2 ^ (e - 7) := by
        rw [pow_split e (by omega)] at hv
        exact Nat.div_lt_of_lt_mul (by rw [Nat.mul_comm]; exact hv)
      rw [ih (v / 128) (by omega) _ (m + 7) (e - 7) rest (by omega) hq]
      congr 2
      have hmod : (128 + v % 128) % 128 = v % 128 := by omega
      rw [hmod, Nat.pow_add]
      have hv' : v = 128 * (v / 128) + v % 128 := (Nat.div_add_mod v 128).symm
      generalize 2 ^ m = P
      generalize v / 128 = q at hv' ⊢
      generalize v % 128 = r at hv' ⊢
      subst hv'
      ring
    · have hlt : v < 128 := by omega
      simp only [h, if_false, List.cons_append, List.nil_append, readCont]
      have hb : (UInt8.ofNat v).toNat = v := ofNat_toNat _ (by omega)
      rw [hb]
      simp only [hlt, if_true, Nat.mod_eq_of_lt hlt]

/-- a value too large for the 63-bit guard of `readVarInt` is reported as overflow -/
theorem readCont_overflow (v : Nat) : ∀ (acc m e : Nat) (rest : Bytes), m + e = 63 → m % 7 = 0 → 7 ≤ e → 2 ^ e ≤ v →
    readCont (contBytes v ++ rest) acc m = .error .overflow := by
  induction v using Nat.strongRecOn with
  | _ v ih =>
    intro acc m e rest hme hm7 he7 hv
    have h128 : 128 ≤ v := by
      have : (2:Nat) ^ 7 ≤ 2 ^ e := Nat.pow_le_pow_right (by norm_num) he7
      have h7 : (2:Nat)^7 = 128 := by norm_num
      omega
    rw [contBytes]
    simp only [h128, if_true, List.cons_append, readCont]
    have hb : (UInt8.ofNat (128 + v % 128)).toNat = 128 + v % 128 := ofNat_toNat _ (by omega)
    rw [hb]
    have h1 : ¬ (128 + v % 128 < 128) := by omega
    simp only [h1, if_false]
    by_cases hlim : varintShiftLimit ≤ m + 7
    · simp only [hlim, if_true]
    · simp only [hlim, if_false]
      simp only [varintShiftLimit] at hlim
      have hq : 2 ^ (e - 7) ≤ v / 128 := by
        rw [pow_split e he7] at hv
        exact (Nat.le_div_iff_mul_le (by norm_num)).2 hv
      exact ih (v / 128) (by omega) _ (m + 7) (e - 7) rest (by omega) (by omega) (by omega) hq

theorem first_byte (n p flags : Nat) (hn : n ≤ 8) (hp : p < 2 ^ n) (hf : flags % 2 ^ n = 0) (hfl : flags < 256) :
    p + flags < 256 ∧ (p + flags) % 2 ^ n = p := by
  have h8 : (2:Nat) ^ n ≤ 2 ^ 8 := Nat.pow_le_pow_right (by norm_num) hn
  have h256 : (2:Nat) ^ 8 = 256 := by norm_num
  have hd : 2 ^ n ∣ flags := Nat.dvd_of_mod_eq_zero hf
  obtain ⟨c, hc⟩ := hd
  have hdiv : 2 ^ n ∣ 256 := by rw [← h256]; exact Nat.pow_dvd_pow 2 hn
  obtain ⟨d, hd⟩ := hdiv
  constructor
  · -- flags = 2^n * c < 256 = 2^n * d  ⇒ c < d ⇒ 2^n*c + p < 2^n*(c+1) ≤ 2^n*d
    have hcd : c < d := by
      have h0 : 2 ^ n * c < 2 ^ n * d := by rw [← hc, ← hd]; exact hfl
      exact Nat.lt_of_mul_lt_mul_left h0
    have : 2 ^ n * (c + 1) ≤ 2 ^ n * d := Nat.mul_le_mul_left _ hcd
    rw [hc, hd]
    rw [Nat.mul_add, Nat.mul_one] at this
    omega
  · rw [hc, Nat.add_mul_mod_self_left, Nat.mod_eq_of_lt hp]

theorem pow_le_256 (n : Nat) (hn : n ≤ 8) : 2 ^ n ≤ 256 := by
  have h8 : (2:Nat) ^ n ≤ 2 ^ 8 := Nat.pow_le_pow_right (by norm_num) hn
  have h256 : (2:Nat) ^ 8 = 256 := by norm_num
  omega

theorem orFirst_zero (b : Bytes) : orFirst 0 b = b := by
  cases b with
  | nil => rfl
  | cons x r => simp [orFirst]

/-- round trip of a prefix integer, with arbitrary flag bits OR-ed above the prefix -/
theorem int_roundtrip' (n i flags : Nat) (rest : Bytes) (hn1 : 1 ≤ n) (hn8 : n ≤ 8)
    (hf : flags % 2 ^ n = 0) (hfl : flags < 256) (hi : i < 2 ^ 63 + (2 ^ n - 1)) :
    readVarInt n (orFirst flags (appendVarInt n i) ++ rest) = .ok (i, rest) := by
  have hpow := pow_le_256 n hn8
  have hpos : 1 ≤ 2 ^ n := Nat.one_le_two_pow
  unfold appendVarInt
  simp only []
  by_cases hik : i < 2 ^ n - 1
  · simp only [hik, if_true, orFirst, List.cons_append, List.nil_append, readVarInt]
    have hb : (UInt8.ofNat i).toNat = i := ofNat_toNat _ (by omega)
    obtain ⟨f1, f2⟩ := first_byte n i flags hn8 (by omega) hf hfl
    rw [hb, ofNat_toNat _ f1]
    by_cases h8 : n < 8
    · simp only [h8, if_true, f2, hik]
    · have : n = 8 := by omega
      subst this
      have hz : flags = 0 := by omega
      subst hz
      simp only [Nat.lt_irrefl, if_false, Nat.add_zero, hik, if_true]
  · simp only [hik, if_false, orFirst, List.cons_append, readVarInt]
    have hk : (UInt8.ofNat (2 ^ n - 1)).toNat = 2 ^ n - 1 := ofNat_toNat _ (by omega)
    obtain ⟨f1, f2⟩ := first_byte n (2 ^ n - 1) flags hn8 (by omega) hf hfl
    rw [hk, ofNat_toNat _ f1]
    have hval : (if n < 8 then (2 ^ n - 1 + flags) % 2 ^ n else 2 ^ n - 1 + flags) = 2 ^ n - 1 := by
      by_cases h8 : n < 8
      · simp only [h8, if_true, f2]
      · have : n = 8 := by omega
        subst this
        have hz : flags = 0 := by omega
        subst hz
        simp
    rw [hval]
    simp only [Nat.lt_irrefl, if_false]
    rw [readCont_contBytes (i - (2 ^ n - 1)) _ 0 63 rest rfl (by omega)]
    congr 2
    omega

/-- a value beyond the decoder's 63-bit guard is refused as overflow (never mis-decoded) -/
theorem int_overflow' (n i : Nat) (rest : Bytes) (hn8 : n ≤ 8) (hi : 2 ^ 63 + (2 ^ n - 1) ≤ i) :
    readVarInt n (appendVarInt n i ++ rest) = .error .overflow := by
  have hpow := pow_le_256 n hn8
  have hpos : 1 ≤ 2 ^ n := Nat.one_le_two_pow
  unfold appendVarInt
  simp only []
  have hik : ¬ i < 2 ^ n - 1 := by omega
  simp only [hik, if_false, List.cons_append, readVarInt]
  have hk : (UInt8.ofNat (2 ^ n - 1)).toNat = 2 ^ n - 1 := ofNat_toNat _ (by omega)
  rw [hk]
  have hval : (if n < 8 then (2 ^ n - 1) % 2 ^ n else 2 ^ n - 1) = 2 ^ n - 1 := by
    by_cases h8 : n < 8
    · simp only [h8, if_true]; exact Nat.mod_eq_of_lt (by omega)
    · simp only [h8, if_false]
  rw [hval]
  simp only [Nat.lt_irrefl, if_false]
  exact readCont_overflow (i - (2 ^ n - 1)) _ 0 63 rest rfl rfl (by omega) (by omega)

theorem appendVarInt_first_lt (n i : Nat) (hn8 : n ≤ 8) :
    ∃ b r, appendVarInt n i = b :: r ∧ b.toNat < 2 ^ n := by
  have hpow := pow_le_256 n hn8
  have hpos : 1 ≤ 2 ^ n := Nat.one_le_two_pow
  unfold appendVarInt
  simp only []
  by_cases hik : i < 2 ^ n - 1
  · refine ⟨UInt8.ofNat i, [], by simp only [hik, if_true], ?_⟩
    rw [ofNat_toNat _ (by omega)]; omega
  · refine ⟨UInt8.ofNat (2 ^ n - 1), contBytes (i - (2 ^ n - 1)), by simp only [hik, if_false], ?_⟩
    rw [ofNat_toNat _ (by omega)]; omega

theorem string_roundtrip' (s rest : Bytes) (maxLen : Nat) (hl : s.length < 2 ^ 63 + 127)
    (hm : maxLen = 0 ∨ s.length ≤ maxLen) :
    readStringRaw maxLen (appendStringPlain s ++ rest) = .ok (false, s, rest) := by
  unfold appendStringPlain
  obtain ⟨b, r, hbr, hb⟩ := appendVarInt_first_lt 7 s.length (by omega)
  have hrt := int_roundtrip' 7 s.length 0 (s ++ rest) (by omega) (by omega) (by simp) (by omega) (by simpa using hl)
  rw [orFirst_zero] at hrt
  rw [List.append_assoc]
  rw [hbr] at hrt ⊢
  simp only [List.cons_append, readStringRaw] at hrt ⊢
  rw [hrt]
  simp only []
  have h128 : ¬ (128 ≤ b.toNat) := by
    have : (2:Nat)^7 = 128 := by norm_num
    omega
  have h1 : ¬ (maxLen ≠ 0 ∧ maxLen < s.length) := by omega
  have h2 : ¬ ((s ++ rest).length < s.length) := by simp
  simp only [h1, h2, if_false, h128, decide_false, List.take_left', List.drop_left']

end MosnVerif.Lemmas.HpackInt
