import MosnVerif.Model.Redact
/-! Lemmas behind C20: JSON hole redaction, soundness of the coverage check, frame, state invariant. -/
namespace MosnVerif.Model.Redact
open MosnVerif.Model MosnVerif.Model.GoTypes

/-! ### holes -/

theorem keyOk_placeholder : keyOk placeholder = true := by simp [keyOk]

mutual
theorem redJ_clean (key : Bool) : (j : Json) → cleanJ key (redJ key j) = true
  | .null => by simp [redJ, cleanJ]
  | .bool _ => by simp [redJ, cleanJ]
  | .num _ => by simp [redJ, cleanJ]
  | .str s => by
    cases key <;> simp [redJ, cleanJ]
    by_cases h : s = "" <;> simp [h, cleanJ, keyOk]
  | .arr xs => by simp [redJ, cleanJ, redJL_clean xs]
  | .obj kvs => by simp [redJ, cleanJ, redJO_clean kvs]
theorem redJL_clean : (xs : List Json) → cleanJL (redJL xs) = true
  | [] => by simp [redJL, cleanJL]
  | x :: r => by simp [redJL, cleanJL, redJ_clean false x, redJL_clean r]
theorem redJO_clean : (kvs : List (String × Json)) → cleanJO (redJO kvs) = true
  | [] => by simp [redJO, cleanJO]
  | (k, v) :: r => by simp [redJO, cleanJO, redJ_clean (isPK k) v, redJO_clean r]
end

mutual
/-- a clean hole is returned unchanged (the Go code then keeps the original map / raw bytes) -/
theorem redJ_of_clean (key : Bool) : (j : Json) → cleanJ key j = true → redJ key j = j
  | .null, _ => by simp [redJ]
  | .bool _, _ => by simp [redJ]
  | .num _, _ => by simp [redJ]
  | .str s, h => by
    cases key
    · simp [redJ]
    · simp only [cleanJ, Bool.not_true, Bool.false_or, keyOk, Bool.or_eq_true, beq_iff_eq] at h
      rcases h with h | h
      · simp [redJ, h]
      · by_cases h2 : s = ""
        · simp [redJ, h2]
        · simp [redJ, h]
  | .arr xs, h => by simp only [cleanJ] at h; simp [redJ, redJL_of_clean xs h]
  | .obj kvs, h => by simp only [cleanJ] at h; simp [redJ, redJO_of_clean kvs h]
theorem redJL_of_clean : (xs : List Json) → cleanJL xs = true → redJL xs = xs
  | [], _ => by simp [redJL]
  | x :: r, h => by
    simp only [cleanJL, Bool.and_eq_true] at h
    simp [redJL, redJ_of_clean false x h.1, redJL_of_clean r h.2]
theorem redJO_of_clean : (kvs : List (String × Json)) → cleanJO kvs = true → redJO kvs = kvs
  | [], _ => by simp [redJO]
  | (k, v) :: r, h => by
    simp only [cleanJO, Bool.and_eq_true] at h
    simp [redJO, redJ_of_clean (isPK k) v h.1, redJO_of_clean r h.2]
end

theorem redJ_idem (key : Bool) (j : Json) : redJ key (redJ key j) = redJ key j :=
  redJ_of_clean key _ (redJ_clean key j)

/-! ### graph lookups -/

theorem fieldTy_some {g : Graph} {s k : String} {t : GoTy} (h : g.fieldTy s k = some t) :
    ∃ d f, g.find s = some d ∧ f ∈ d.fields ∧ f.name = k ∧ f.ty = t ∧ d.field k = some f := by
  unfold Graph.fieldTy at h
  cases hd : g.find s with
  | none => simp [hd] at h
  | some d =>
    simp only [hd] at h
    cases hf : d.field k with
    | none => simp [hf] at h
    | some f =>
      simp only [hf, Option.map_some, Option.some.injEq] at h
      refine ⟨d, f, rfl, ?_, ?_, h, hf⟩
      · exact List.mem_of_find?_eq_some hf
      · have := List.find?_some hf
        simpa using this

/-! ### a type without secrets has only clean values -/

theorem noSecret_succ_named {g : Graph} {n : Nat} {fi : FInfo} {s : String} (h : noSecret g (n + 1) fi (.named s) = true) :
    ∃ d, g.find s = some d ∧ (d.fields.all (fun f => noSecret g n (finfo g s f.name) f.ty)) = true := by
  simp only [noSecret] at h
  cases hd : g.find s with
  | none => simp [hd] at h
  | some d => exact ⟨d, rfl, by simpa [hd] using h⟩

mutual
theorem ns_clean (g : Graph) (ck ch : Bool) : (v : Val) → (n : Nat) → (fi : FInfo) → (T : GoTy) →
    noSecret g n fi T = true → wt g T v = true → clean g ck ch fi v = true
  | .str s, n, fi, T, hn, hw => by
    cases T <;> simp [wt] at hw
    cases n with
    | zero => simp [noSecret] at hn
    | succ n => simp [noSecret] at hn; simp [clean, hn]
  | .leaf, _, _, _, _, _ => by simp [clean]
  | .hole j, n, fi, T, hn, hw => by
    cases T <;> simp [wt] at hw
    cases n with
    | zero => simp [noSecret] at hn
    | succ n => simp [noSecret] at hn; simp [clean, hn]
  | .struct s fs, n, fi, T, hn, hw => by
    cases T <;> simp [wt] at hw
    obtain ⟨rfl, hw⟩ := hw
    cases n with
    | zero => simp [noSecret] at hn
    | succ n =>
      obtain ⟨d, hd, hall⟩ := noSecret_succ_named hn
      simp only [clean]
      exact ns_cleanF g ck ch fs n _ d hd hall hw
  | .list vs, n, fi, T, hn, hw => by
    cases n with
    | zero => simp [noSecret] at hn
    | succ n =>
      cases T <;> simp [wt] at hw
      · simp only [noSecret] at hn; simp only [clean]; exact ns_cleanL g ck ch vs n fi _ hn hw
      · simp only [noSecret] at hn; simp only [clean]; exact ns_cleanL g ck ch vs n fi _ hn hw.2
  | .map kvs, n, fi, T, hn, hw => by
    cases n with
    | zero => simp [noSecret] at hn
    | succ n =>
      cases T <;> simp [wt] at hw
      simp only [noSecret] at hn; simp only [clean]; exact ns_cleanM g ck ch kvs n fi _ hn hw
theorem ns_cleanF (g : Graph) (ck ch : Bool) : (fs : List (String × Val)) → (n : Nat) → (s : String) → (d : StructDecl) →
    g.find s = some d → (d.fields.all (fun f => noSecret g n (finfo g s f.name) f.ty)) = true →
    wtF g s fs = true → cleanF g ck ch s fs = true
  | [], _, _, _, _, _, _ => by simp [cleanF]
  | (k, v) :: r, n, s, d, hd, hall, hw => by
    simp only [wtF, Bool.and_eq_true] at hw
    obtain ⟨hw1, hw2⟩ := hw
    simp only [cleanF, Bool.and_eq_true]
    refine ⟨?_, ns_cleanF g ck ch r n s d hd hall hw2⟩
    cases ht : g.fieldTy s k with
    | none => simp [ht] at hw1
    | some t =>
      simp only [ht] at hw1
      obtain ⟨d', f, hd', hmem, hname, hty, _⟩ := fieldTy_some ht
      rw [hd] at hd'; cases hd'
      have := (List.all_eq_true.mp hall) f hmem
      rw [hname, hty] at this
      exact ns_clean g ck ch v n _ t this hw1
theorem ns_cleanL (g : Graph) (ck ch : Bool) : (vs : List Val) → (n : Nat) → (fi : FInfo) → (e : GoTy) →
    noSecret g n fi e = true → wtL g e vs = true → cleanL g ck ch fi vs = true
  | [], _, _, _, _, _ => by simp [cleanL]
  | v :: r, n, fi, e, hn, hw => by
    simp only [wtL, Bool.and_eq_true] at hw
    simp only [cleanL, Bool.and_eq_true]
    exact ⟨ns_clean g ck ch v n fi e hn hw.1, ns_cleanL g ck ch r n fi e hn hw.2⟩
theorem ns_cleanM (g : Graph) (ck ch : Bool) : (kvs : List (String × Val)) → (n : Nat) → (fi : FInfo) → (e : GoTy) →
    noSecret g n fi e = true → wtM g e kvs = true → cleanM g ck ch fi kvs = true
  | [], _, _, _, _, _ => by simp [cleanM]
  | (k, v) :: r, n, fi, e, hn, hw => by
    simp only [wtM, Bool.and_eq_true] at hw
    simp only [cleanM, Bool.and_eq_true]
    exact ⟨ns_clean g ck ch v n fi e hn hw.1, ns_cleanM g ck ch r n fi e hn hw.2⟩
end

/-! ### soundness of `covers` -/

@[simp] theorem apply_skip (v : Val) : apply .skip v = v := by cases v <;> simp [apply]
@[simp] theorem apply_empty (v : Val) : apply .empty v = v := by cases v <;> simp [apply]

theorem lookupV_skip : (vf : List (String × Visit)) → (k : String) → hasKeyV vf k = false → lookupV vf k = .skip
  | [], _, _ => by simp [lookupV]
  | (k', v) :: r, k, h => by
    simp only [hasKeyV, Bool.or_eq_false_iff] at h
    simp [lookupV, h.1, lookupV_skip r k h.2]

theorem lookupV_covers (g : Graph) (n : Nat) (s : String) : (vf : List (String × Visit)) → (k : String) → (t : GoTy) →
    coversF g n s vf = true → hasKeyV vf k = true → g.fieldTy s k = some t →
    covers g n (finfo g s k) t (lookupV vf k) = true
  | [], _, _, _, h, _ => by simp [hasKeyV] at h
  | (k', v) :: r, k, t, hc, hk, ht => by
    simp only [coversF, Bool.and_eq_true] at hc
    by_cases e : (k' == k) = true
    · have e' : k' = k := by simpa using e
      subst e'
      simp only [lookupV, BEq.rfl, if_true]
      have := hc.1
      simpa [ht] using this
    · simp only [lookupV, e]
      simp only [hasKeyV, e, Bool.false_or] at hk
      exact lookupV_covers g n s r k t hc.2 hk ht

theorem redactKeyF_clean (g : Graph) (ck ch : Bool) (n : Nat) (s : String) (d : StructDecl) (hd : g.find s = some d)
    (hall : (d.fields.all (fun f => if f.name == "PrivateKey" then f.ty == .str else noSecret g n (finfo g s f.name) f.ty)) = true) :
    (fs : List (String × Val)) → wtF g s fs = true → cleanF g ck ch s (redactKeyF fs) = true
  | [], _ => by simp [redactKeyF, cleanF]
  | (k, v) :: r, hw => by
    simp only [wtF, Bool.and_eq_true] at hw
    obtain ⟨hw1, hw2⟩ := hw
    simp only [redactKeyF, cleanF, Bool.and_eq_true]
    refine ⟨?_, redactKeyF_clean g ck ch n s d hd hall r hw2⟩
    cases ht : g.fieldTy s k with
    | none => simp [ht] at hw1
    | some t =>
      simp only [ht] at hw1
      obtain ⟨d', f, hd', hmem, hname, hty, _⟩ := fieldTy_some ht
      rw [hd] at hd'; cases hd'
      have hf := (List.all_eq_true.mp hall) f hmem
      rw [hname, hty] at hf
      by_cases hk : (k == "PrivateKey") = true
      · simp only [hk, if_true] at hf ⊢
        have : t = .str := by simpa using hf
        subst this
        cases v <;> simp [wt] at hw1
        rename_i s'
        by_cases hs : s' = ""
        · simp [hs, clean, keyOk]
        · simp [hs, clean, keyOk_placeholder]
      · simp only [hk] at hf ⊢
        exact ns_clean g ck ch v n _ t (by simpa using hf) hw1

mutual
theorem cs (g : Graph) (ck ch : Bool) (n : Nat) : (v : Val) → (vis : Visit) → (fi : FInfo) → (T : GoTy) →
    covers g n fi T vis = true → wt g T v = true → respects vis v = true → clean g ck ch fi (apply vis v) = true
  | .str s, vis, fi, T, hc, hw, _ => by
    cases T <;> simp [wt] at hw
    cases vis <;> simp [covers] at hc
    simpa using ns_clean g ck ch (.str s) n fi .str hc (by simp [wt])
  | .leaf, vis, _, _, _, _, _ => by cases vis <;> simp [apply, clean]
  | .hole j, vis, fi, T, hc, hw, _ => by
    cases T <;> simp [wt] at hw
    cases vis <;> simp [covers] at hc
    · simpa using ns_clean g ck ch (.hole j) n fi _ hc (by simp [wt])
    · simp [apply, clean, redJ_clean]
  | .struct s fs, vis, fi, T, hc, hw, hr => by
    cases T <;> simp [wt] at hw
    rename_i nm
    obtain ⟨he, hw⟩ := hw
    rw [he] at hc
    cases vis with
    | skip => simp only [covers] at hc; simpa using ns_clean g ck ch (.struct s fs) n fi _ hc (by simp [wt, hw])
    | tls =>
      simp only [covers] at hc
      cases hd : g.find s with
      | none => simp [hd] at hc
      | some d =>
        simp only [hd] at hc
        simp only [apply, clean]
        exact redactKeyF_clean g ck ch n s d hd hc fs hw
    | fields vf =>
      simp only [covers] at hc
      cases hd : g.find s with
      | none => simp [hd] at hc
      | some d =>
        simp only [hd, Bool.and_eq_true] at hc
        simp only [respects] at hr
        simp only [apply, clean]
        exact csF g ck ch n s d hd vf hc.1 hc.2 fs hw hr
    | empty => simp [covers] at hc
    | hole => simp [covers] at hc
    | copyElems v' => simp [covers] at hc
    | inPlaceElems v' => simp [covers] at hc
  | .list vs, vis, fi, T, hc, hw, hr => by
    cases vis with
    | skip => simp only [covers] at hc; simpa using ns_clean g ck ch (.list vs) n fi _ hc hw
    | empty =>
      simp only [respects, List.isEmpty_iff] at hr
      subst hr
      simp [clean, cleanL]
    | tls => cases T <;> simp [covers, wt] at hc hw
    | hole => cases T <;> simp [covers, wt] at hc hw
    | fields vf => cases T <;> simp [covers, wt] at hc hw
    | copyElems v' =>
      simp only [respects] at hr
      cases T <;> simp [wt] at hw <;> simp only [covers] at hc <;> simp only [apply, clean]
      · exact csL g ck ch n v' fi _ hc vs hw hr
      · exact csL g ck ch n v' fi _ hc vs hw.2 hr
    | inPlaceElems v' =>
      simp only [respects] at hr
      cases T <;> simp [wt] at hw <;> simp only [covers] at hc <;> simp only [apply, clean]
      · exact csL g ck ch n v' fi _ hc vs hw hr
      · exact csL g ck ch n v' fi _ hc vs hw.2 hr
  | .map kvs, vis, fi, T, hc, hw, hr => by
    cases vis with
    | skip => simp only [covers] at hc; simpa using ns_clean g ck ch (.map kvs) n fi _ hc hw
    | empty =>
      simp only [respects, List.isEmpty_iff] at hr
      subst hr
      simp [clean, cleanM]
    | tls => cases T <;> simp [covers, wt] at hc hw
    | hole => cases T <;> simp [covers, wt] at hc hw
    | fields vf => cases T <;> simp [covers, wt] at hc hw
    | copyElems v' =>
      simp only [respects] at hr
      cases T <;> simp [wt] at hw
      simp only [covers] at hc
      simp only [apply, clean]
      exact csM g ck ch n v' fi _ hc kvs hw hr
    | inPlaceElems v' =>
      simp only [respects] at hr
      cases T <;> simp [wt] at hw
      simp only [covers] at hc
      simp only [apply, clean]
      exact csM g ck ch n v' fi _ hc kvs hw hr
theorem csF (g : Graph) (ck ch : Bool) (n : Nat) (s : String) (d : StructDecl) (hd : g.find s = some d)
    (vf : List (String × Visit)) (hcF : coversF g n s vf = true)
    (hrest : (d.fields.all (fun f => hasKeyV vf f.name || noSecret g n (finfo g s f.name) f.ty)) = true) :
    (fs : List (String × Val)) → wtF g s fs = true → respectsF vf fs = true → cleanF g ck ch s (applyF vf fs) = true
  | [], _, _ => by simp [applyF, cleanF]
  | (k, c) :: r, hw, hr => by
    simp only [wtF, Bool.and_eq_true] at hw
    simp only [respectsF, Bool.and_eq_true] at hr
    simp only [applyF, cleanF, Bool.and_eq_true]
    refine ⟨?_, csF g ck ch n s d hd vf hcF hrest r hw.2 hr.2⟩
    cases ht : g.fieldTy s k with
    | none => simp [ht] at hw
    | some t =>
      have hw1 := hw.1
      simp only [ht] at hw1
      cases hk : hasKeyV vf k with
      | true => exact cs g ck ch n c (lookupV vf k) (finfo g s k) t (lookupV_covers g n s vf k t hcF hk ht) hw1 hr.1
      | false =>
        obtain ⟨d', f, hd', hmem, hname, hty, _⟩ := fieldTy_some ht
        rw [hd] at hd'; cases hd'
        have hf := (List.all_eq_true.mp hrest) f hmem
        rw [hname, hty, hk] at hf
        rw [lookupV_skip vf k hk, apply_skip]
        exact ns_clean g ck ch c n _ t (by simpa using hf) hw1
theorem csL (g : Graph) (ck ch : Bool) (n : Nat) (v' : Visit) (fi : FInfo) (e : GoTy) (hc : covers g n fi e v' = true) :
    (vs : List Val) → wtL g e vs = true → respectsL v' vs = true → cleanL g ck ch fi (applyL v' vs) = true
  | [], _, _ => by simp [applyL, cleanL]
  | c :: r, hw, hr => by
    simp only [wtL, Bool.and_eq_true] at hw
    simp only [respectsL, Bool.and_eq_true] at hr
    simp only [applyL, cleanL, Bool.and_eq_true]
    exact ⟨cs g ck ch n c v' fi e hc hw.1 hr.1, csL g ck ch n v' fi e hc r hw.2 hr.2⟩
theorem csM (g : Graph) (ck ch : Bool) (n : Nat) (v' : Visit) (fi : FInfo) (e : GoTy) (hc : covers g n fi e v' = true) :
    (kvs : List (String × Val)) → wtM g e kvs = true → respectsM v' kvs = true → cleanM g ck ch fi (applyM v' kvs) = true
  | [], _, _ => by simp [applyM, cleanM]
  | (k, c) :: r, hw, hr => by
    simp only [wtM, Bool.and_eq_true] at hw
    simp only [respectsM, Bool.and_eq_true] at hr
    simp only [applyM, cleanM, Bool.and_eq_true]
    exact ⟨cs g ck ch n c v' fi e hc hw.1 hr.1, csM g ck ch n v' fi e hc r hw.2 hr.2⟩
end

/-! ### frame: a visit without in-place iteration writes no shared cell -/

theorem lookupV_noInPlace : (vf : List (String × Visit)) → (k : String) → noInPlaceF vf = true → noInPlace (lookupV vf k) = true
  | [], _, _ => by simp [lookupV, noInPlace]
  | (k', v) :: r, k, h => by
    simp only [noInPlaceF, Bool.and_eq_true] at h
    simp only [lookupV]
    split
    · exact h.1
    · exact lookupV_noInPlace r k h.2

mutual
theorem fr : (v : Val) → (vis : Visit) → noInPlace vis = true → sharedWrites true vis v = 0
  | .str _, vis, _ => by cases vis <;> simp [sharedWrites]
  | .leaf, vis, _ => by cases vis <;> simp [sharedWrites]
  | .hole _, vis, _ => by cases vis <;> simp [sharedWrites]
  | .struct s fs, vis, h => by
    cases vis <;> simp [sharedWrites]
    rename_i vf
    simp only [noInPlace] at h
    exact frF vf h fs
  | .list vs, vis, h => by
    cases vis <;> simp [sharedWrites]
    · rename_i v'; simp only [noInPlace] at h; exact frL v' h vs
    · simp [noInPlace] at h
  | .map kvs, vis, h => by
    cases vis <;> simp [sharedWrites]
    · rename_i v'; simp only [noInPlace] at h; exact frM v' h kvs
    · simp [noInPlace] at h
theorem frF (vf : List (String × Visit)) (h : noInPlaceF vf = true) : (fs : List (String × Val)) → sharedWritesF true vf fs = 0
  | [] => by simp [sharedWritesF]
  | (k, c) :: r => by simp [sharedWritesF, fr c (lookupV vf k) (lookupV_noInPlace vf k h), frF vf h r]
theorem frL (v' : Visit) (h : noInPlace v' = true) : (vs : List Val) → sharedWritesL true v' vs = 0
  | [] => by simp [sharedWritesL]
  | c :: r => by simp [sharedWritesL, fr c v' h, frL v' h r]
theorem frM (v' : Visit) (h : noInPlace v' = true) : (kvs : List (String × Val)) → sharedWritesM true v' kvs = 0
  | [] => by simp [sharedWritesM]
  | (k, c) :: r => by simp [sharedWritesM, fr c v' h, frM v' h r]
end

/-! ### the state invariant: the `empty` positions of `redactedMosnConfig` stay empty under every update -/


theorem lookupV_noEmpty : (vf : List (String × Visit)) → (k : String) → noEmptyVF vf = true → noEmptyV (lookupV vf k) = true
  | [], _, _ => by simp [lookupV, noEmptyV]
  | (k', v) :: r, k, h => by
    simp only [noEmptyVF, Bool.and_eq_true] at h
    simp only [lookupV]
    split
    · exact h.1
    · exact lookupV_noEmpty r k h.2

mutual
theorem respects_noEmpty : (v : Val) → (vis : Visit) → noEmptyV vis = true → respects vis v = true
  | .str _, vis, h => by cases vis <;> simp [respects] <;> simp [noEmptyV] at h
  | .leaf, vis, h => by cases vis <;> simp [respects] <;> simp [noEmptyV] at h
  | .hole _, vis, h => by cases vis <;> simp [respects] <;> simp [noEmptyV] at h
  | .struct s fs, vis, h => by
    cases vis <;> simp [respects]
    · simp [noEmptyV] at h
    · rename_i vf; simp only [noEmptyV] at h; exact respectsF_noEmpty vf h fs
  | .list vs, vis, h => by
    cases vis <;> simp [respects]
    · simp [noEmptyV] at h
    · rename_i v'; simp only [noEmptyV] at h; exact respectsL_noEmpty v' h vs
    · rename_i v'; simp only [noEmptyV] at h; exact respectsL_noEmpty v' h vs
  | .map kvs, vis, h => by
    cases vis <;> simp [respects]
    · simp [noEmptyV] at h
    · rename_i v'; simp only [noEmptyV] at h; exact respectsM_noEmpty v' h kvs
    · rename_i v'; simp only [noEmptyV] at h; exact respectsM_noEmpty v' h kvs
theorem respectsF_noEmpty (vf : List (String × Visit)) (h : noEmptyVF vf = true) : (fs : List (String × Val)) → respectsF vf fs = true
  | [] => by simp [respectsF]
  | (k, c) :: r => by simp [respectsF, respects_noEmpty c (lookupV vf k) (lookupV_noEmpty vf k h), respectsF_noEmpty vf h r]
theorem respectsL_noEmpty (v' : Visit) (h : noEmptyV v' = true) : (vs : List Val) → respectsL v' vs = true
  | [] => by simp [respectsL]
  | c :: r => by simp [respectsL, respects_noEmpty c v' h, respectsL_noEmpty v' h r]
theorem respectsM_noEmpty (v' : Visit) (h : noEmptyV v' = true) : (kvs : List (String × Val)) → respectsM v' kvs = true
  | [] => by simp [respectsM]
  | (k, c) :: r => by simp [respectsM, respects_noEmpty c v' h, respectsM_noEmpty v' h r]
end

def cjVf : List (String × Visit) := [("TLSContext", .tls), ("ClustersJson", .empty)]
def cmVf : List (String × Visit) := [("ClusterManagerConfigJson", .fields cjVf), ("Clusters", .empty)]
def mosnVf : List (String × Visit) :=
  [("ClusterManager", .fields cmVf), ("Metrics", .fields [("SinkConfigs", filtersV)]), ("Extends", extendsV),
   ("Servers", .copyElems (.fields [("Listeners", .copyElems redactListenerV)]))]

theorem mosnV_eq : redactedMosnConfigV = .fields mosnVf := rfl

theorem respectsF_fieldsOf (vf : List (String × Visit)) (v : Val) (h : respects (.fields vf) v = true) :
    respectsF vf v.fieldsOf = true := by
  cases v <;> simp [Val.fieldsOf, respectsF] <;> simpa [respects] using h

theorem respects_getF (vf : List (String × Visit)) (k : String) (c : Val) :
    (fs : List (String × Val)) → respectsF vf fs = true → getF fs k = some c → respects (lookupV vf k) c = true
  | [], _, h => by simp [getF] at h
  | (k', c') :: r, hr, h => by
    simp only [respectsF, Bool.and_eq_true] at hr
    simp only [getF, List.find?] at h
    by_cases e : (k' == k) = true
    · simp only [e, Option.map_some, Option.some.injEq] at h
      have : k' = k := by simpa using e
      subst this; subst h; exact hr.1
    · simp only [e] at h
      exact respects_getF vf k c r hr.2 (by simpa [getF] using h)

theorem respectsF_append (vf : List (String × Visit)) : (a b : List (String × Val)) →
    respectsF vf a = true → respectsF vf b = true → respectsF vf (a ++ b) = true
  | [], b, _, hb => by simpa using hb
  | (k, c) :: r, b, ha, hb => by
    simp only [respectsF, Bool.and_eq_true] at ha
    simp only [List.cons_append, respectsF, Bool.and_eq_true]
    exact ⟨ha.1, respectsF_append vf r b ha.2 hb⟩

theorem respectsF_mapSet (vf : List (String × Visit)) (k : String) (v : Val) (hv : respects (lookupV vf k) v = true) :
    (fs : List (String × Val)) → respectsF vf fs = true →
    respectsF vf (fs.map (fun kv => if kv.1 == k then (k, v) else kv)) = true
  | [], _ => by simp [respectsF]
  | (k', c) :: r, h => by
    simp only [respectsF, Bool.and_eq_true] at h
    simp only [List.map]
    by_cases e : (k' == k) = true
    · simp only [e, if_true, respectsF, Bool.and_eq_true]
      exact ⟨hv, respectsF_mapSet vf k v hv r h.2⟩
    · simp only [e, respectsF, Bool.and_eq_true]
      exact ⟨h.1, respectsF_mapSet vf k v hv r h.2⟩

theorem respectsF_setF (vf : List (String × Visit)) (fs : List (String × Val)) (k : String) (v : Val)
    (h : respectsF vf fs = true) (hv : respects (lookupV vf k) v = true) : respectsF vf (setF fs k v) = true := by
  unfold setF
  split
  · exact respectsF_mapSet vf k v hv fs h
  · exact respectsF_append vf fs _ h (by simp [respectsF, hv])

theorem respectsF_filter (vf : List (String × Visit)) (p : String × Val → Bool) : (fs : List (String × Val)) →
    respectsF vf fs = true → respectsF vf (fs.filter p) = true
  | [], _ => by simp [respectsF]
  | (k, c) :: r, h => by
    simp only [respectsF, Bool.and_eq_true] at h
    simp only [List.filter]
    split
    · simp only [respectsF, Bool.and_eq_true]; exact ⟨h.1, respectsF_filter vf p r h.2⟩
    · exact respectsF_filter vf p r h.2

theorem lookup_mosn_noEmpty (k : String) (h : (k == "ClusterManager") = false) : noEmptyV (lookupV mosnVf k) = true := by
  have h' : ("ClusterManager" == k) = false := by
    rw [Bool.eq_false_iff] at h ⊢
    intro e; apply h
    have : "ClusterManager" = k := by simpa using e
    simp [← this]
  simp only [mosnVf, lookupV, h']
  split
  · rename_i hh; simp at hh
  · split
    · rfl
    · split
      · rfl
      · split
        · rfl
        · rfl

theorem respectsF_optField (vf : List (String × Visit)) (fs : List (String × Val)) (k : String)
    (h : ∀ t, respects (lookupV vf k) t = true) : respectsF vf (optField fs k) = true := by
  unfold optField
  cases getF fs k <;> simp [respectsF, h]

theorem respects_cmOnlyTLS (c : Val) : respects (.fields cmVf) (cmOnlyTLS c) = true := by
  unfold cmOnlyTLS
  have h1 : ∀ t, respects (lookupV cjVf "TLSContext") t = true := by intro t; cases t <;> simp [cjVf, lookupV, respects]
  have h2 : ∀ t, respects (lookupV cjVf "ClusterPoolEnable") t = true := by intro t; cases t <;> simp [cjVf, lookupV, respects]
  have := respectsF_append cjVf _ _ (respectsF_optField cjVf ((getF c.fieldsOf "ClusterManagerConfigJson").getD .leaf).fieldsOf "TLSContext" h1)
    (respectsF_optField cjVf ((getF c.fieldsOf "ClusterManagerConfigJson").getD .leaf).fieldsOf "ClusterPoolEnable" h2)
  simp [respects, respectsF, lookupV, cmVf, this]

theorem respectsF_setMosnFields : (l : List (String × Val)) → respectsF mosnVf (setMosnFields l) = true
  | [] => by simp [setMosnFields, respectsF]
  | (k, c) :: r => by
    have ih := respectsF_setMosnFields r
    simp only [setMosnFields]
    split
    · exact ih
    · split
      · rename_i hk
        have : k = "ClusterManager" := by simpa using hk
        subst this
        simp only [respectsF, Bool.and_eq_true]
        refine ⟨?_, ih⟩
        have : lookupV mosnVf "ClusterManager" = .fields cmVf := by simp [mosnVf, lookupV]
        rw [this]; exact respects_cmOnlyTLS c
      · rename_i hk
        have hk' : (k == "ClusterManager") = false := by simpa using hk
        split <;> simp only [respectsF, Bool.and_eq_true] <;>
          exact ⟨respects_noEmpty _ _ (lookup_mosn_noEmpty k hk'), ih⟩

/-- `SetMosnConfig` establishes the invariant for every configuration it is given -/
theorem respects_setMosn (cfg : Val) : respects redactedMosnConfigV (setMosn cfg) = true := by
  rw [mosnV_eq]; simp only [setMosn, respects]; exact respectsF_setMosnFields _

/-- `SetClusterManagerTLS` preserves it -/
theorem respects_setCMTLS (m tls : Val) (h : respects redactedMosnConfigV m = true) :
    respects redactedMosnConfigV (setCMTLS m tls) = true := by
  rw [mosnV_eq] at h ⊢
  have hfs := respectsF_fieldsOf mosnVf m h
  simp only [setCMTLS, respects]
  have hl : lookupV mosnVf "ClusterManager" = .fields cmVf := by simp [mosnVf, lookupV]
  have hcm : respects (.fields cmVf) ((getF m.fieldsOf "ClusterManager").getD (.struct "ClusterManagerConfig" [])) = true := by
    cases hg : getF m.fieldsOf "ClusterManager" with
    | none => simp [respects, respectsF]
    | some c => simpa [hl] using respects_getF mosnVf "ClusterManager" c _ hfs hg
  have hcmf := respectsF_fieldsOf cmVf _ hcm
  have hl2 : lookupV cmVf "ClusterManagerConfigJson" = .fields cjVf := by simp [cmVf, lookupV]
  have hcj : respects (.fields cjVf) ((getF ((getF m.fieldsOf "ClusterManager").getD (.struct "ClusterManagerConfig" [])).fieldsOf
      "ClusterManagerConfigJson").getD (.struct "ClusterManagerConfigJson" [])) = true := by
    cases hg : getF ((getF m.fieldsOf "ClusterManager").getD (.struct "ClusterManagerConfig" [])).fieldsOf "ClusterManagerConfigJson" with
    | none => simp [respects, respectsF]
    | some c => simpa [hl2] using respects_getF cmVf "ClusterManagerConfigJson" c _ hcmf hg
  have hcjf := respectsF_fieldsOf cjVf _ hcj
  apply respectsF_setF mosnVf _ _ _ hfs
  rw [hl]; simp only [respects]
  apply respectsF_setF cmVf _ _ _ hcmf
  rw [hl2]; simp only [respects]
  apply respectsF_setF cjVf _ _ _ hcjf
  cases tls <;> simp [cjVf, lookupV, respects]

/-! ### histories -/

theorem respects_step (s : State) (op : Op) (h : respects redactedMosnConfigV s.mosn = true) :
    respects redactedMosnConfigV (step s op).mosn = true := by
  cases op <;> simp only [step] <;> try exact h
  · exact respects_setMosn _
  · split <;> exact h
  · exact respects_setCMTLS _ _ h
  · rw [mosnV_eq]; simp [respects, respectsF]

theorem respects_foldl (ops : List Op) : (s : State) → respects redactedMosnConfigV s.mosn = true →
    respects redactedMosnConfigV (ops.foldl step s).mosn = true := by
  induction ops with
  | nil => intro s h; exact h
  | cons op r ih => intro s h; exact ih (step s op) (respects_step s op h)

/-- every reachable effective config satisfies the emptiness invariant `redactedMosnConfig` relies on -/
theorem respects_run (ops : List Op) : respects redactedMosnConfigV (run ops).mosn = true :=
  respects_foldl ops {} (by rw [mosnV_eq]; simp [respects, respectsF])

/-! ### entry points -/

theorem wtF_getF (g : Graph) (s k : String) (v : Val) : (fs : List (String × Val)) → wtF g s fs = true → getF fs k = some v →
    ∃ t, g.fieldTy s k = some t ∧ wt g t v = true
  | [], _, h => by simp [getF] at h
  | (k', c) :: r, hw, h => by
    simp only [wtF, Bool.and_eq_true] at hw
    simp only [getF, List.find?] at h
    by_cases e : (k' == k) = true
    · simp only [e, Option.map_some, Option.some.injEq] at h
      have : k' = k := by simpa using e
      subst this; subst h
      cases ht : g.fieldTy s k' with
      | none => simp [ht] at hw
      | some t => exact ⟨t, rfl, by simpa [ht] using hw.1⟩
    · simp only [e] at h
      exact wtF_getF g s k v r hw.2 (by simpa [getF] using h)

theorem cleanM_getF (g : Graph) (ck ch : Bool) (fi : FInfo) (k : String) (v : Val) : (kvs : List (String × Val)) →
    cleanM g ck ch fi kvs = true → getF kvs k = some v → clean g ck ch fi v = true
  | [], _, h => by simp [getF] at h
  | (k', c) :: r, hc, h => by
    simp only [cleanM, Bool.and_eq_true] at hc
    simp only [getF, List.find?] at h
    by_cases e : (k' == k) = true
    · simp only [e, Option.map_some, Option.some.injEq] at h
      subst h; exact hc.1
    · simp only [e] at h
      exact cleanM_getF g ck ch fi k v r hc.2 (by simpa [getF] using h)

theorem noEmptyV_of_visitOfFn_ne (fn : String) (vis : Visit) (h : visitOfFn fn = some vis)
    (hne : (fn == "redactedMosnConfig") = false) : noEmptyV vis = true := by
  unfold visitOfFn at h
  simp only [hne] at h
  split at h
  · rename_i hh; simp at hh
  · split at h
    · cases h; rfl
    · split at h
      · cases h; rfl
      · split at h
        · cases h; rfl
        · split at h
          · cases h; rfl
          · simp at h

/-- the invariant of the whole effective config follows from the invariant of its `MosnConfig` -/
theorem respects_section (s : State) (hinv : respects redactedMosnConfigV s.mosn = true) (fn fld : String) (vis : Visit) (v : Val)
    (hv : visitOfFn fn = some vis) (hg : getF s.toVal.fieldsOf fld = some v)
    (hok : (noEmptyV vis || (fn == "redactedMosnConfig" && fld == "MosnConfig")) = true) : respects vis v = true := by
  simp only [Bool.or_eq_true, Bool.and_eq_true] at hok
  rcases hok with h | ⟨h1, h2⟩
  · exact respects_noEmpty v vis h
  · have e1 : fn = "redactedMosnConfig" := by simpa using h1
    have e2 : fld = "MosnConfig" := by simpa using h2
    subst e1; subst e2
    have : vis = redactedMosnConfigV := by simpa [visitOfFn] using hv.symm
    subst this
    have : v = s.mosn := by simpa [State.toVal, Val.fieldsOf, getF] using hg.symm
    subst this; exact hinv

end MosnVerif.Model.Redact

/-! ### every update keeps the effective config a value of the regenerated graph -/
namespace MosnVerif.Model.Redact
open MosnVerif.Model MosnVerif.Model.GoTypes

structure SWt (s : State) : Prop where
  mosn : wt G (.named "MOSNConfig") s.mosn = true
  lis : wtM G (.named "Listener") s.listeners = true
  clu : wtM G (.named "Cluster") s.clusters = true
  rou : wtM G (.named "RouterConfiguration") s.routers = true
  ext : wtL G (.named "ExtendConfig") s.exts = true

theorem wtF_append (g : Graph) (s : String) : (a b : List (String × Val)) → wtF g s a = true → wtF g s b = true → wtF g s (a ++ b) = true
  | [], b, _, hb => by simpa using hb
  | (k, v) :: r, b, ha, hb => by
    simp only [wtF, Bool.and_eq_true] at ha
    simp only [List.cons_append, wtF, Bool.and_eq_true]
    exact ⟨ha.1, wtF_append g s r b ha.2 hb⟩

theorem wtF_filter (g : Graph) (s : String) (p : String × Val → Bool) : (fs : List (String × Val)) → wtF g s fs = true → wtF g s (fs.filter p) = true
  | [], _ => by simp [wtF]
  | (k, v) :: r, h => by
    simp only [wtF, Bool.and_eq_true] at h
    simp only [List.filter]
    split
    · simp only [wtF, Bool.and_eq_true]; exact ⟨h.1, wtF_filter g s p r h.2⟩
    · exact wtF_filter g s p r h.2

theorem wtF_mapSet (g : Graph) (s k : String) (v : Val) (t : GoTy) (ht : g.fieldTy s k = some t) (hv : wt g t v = true) :
    (fs : List (String × Val)) → wtF g s fs = true → wtF g s (fs.map (fun kv => if kv.1 == k then (k, v) else kv)) = true
  | [], _ => by simp [wtF]
  | (k', c) :: r, h => by
    simp only [wtF, Bool.and_eq_true] at h
    simp only [List.map]
    by_cases e : (k' == k) = true
    · simp only [e, if_true, wtF, Bool.and_eq_true, ht]
      exact ⟨hv, wtF_mapSet g s k v t ht hv r h.2⟩
    · simp only [e, wtF, Bool.and_eq_true]
      exact ⟨h.1, wtF_mapSet g s k v t ht hv r h.2⟩

theorem wtF_setF (g : Graph) (s k : String) (v : Val) (t : GoTy) (ht : g.fieldTy s k = some t) (hv : wt g t v = true)
    (fs : List (String × Val)) (h : wtF g s fs = true) : wtF g s (setF fs k v) = true := by
  unfold setF
  split
  · exact wtF_mapSet g s k v t ht hv fs h
  · exact wtF_append g s fs _ h (by simp [wtF, ht, hv])

theorem wtM_append (g : Graph) (e : GoTy) : (a b : List (String × Val)) → wtM g e a = true → wtM g e b = true → wtM g e (a ++ b) = true
  | [], b, _, hb => by simpa using hb
  | (k, v) :: r, b, ha, hb => by
    simp only [wtM, Bool.and_eq_true] at ha
    simp only [List.cons_append, wtM, Bool.and_eq_true]
    exact ⟨ha.1, wtM_append g e r b ha.2 hb⟩

theorem wtM_filter (g : Graph) (e : GoTy) (p : String × Val → Bool) : (kvs : List (String × Val)) → wtM g e kvs = true → wtM g e (kvs.filter p) = true
  | [], _ => by simp [wtM]
  | (k, v) :: r, h => by
    simp only [wtM, Bool.and_eq_true] at h
    simp only [List.filter]
    split
    · simp only [wtM, Bool.and_eq_true]; exact ⟨h.1, wtM_filter g e p r h.2⟩
    · exact wtM_filter g e p r h.2

theorem wtM_mapSet (g : Graph) (e : GoTy) (k : String) (v : Val) (hv : wt g e v = true) :
    (kvs : List (String × Val)) → wtM g e kvs = true → wtM g e (kvs.map (fun kv => if kv.1 == k then (k, v) else kv)) = true
  | [], _ => by simp [wtM]
  | (k', c) :: r, h => by
    simp only [wtM, Bool.and_eq_true] at h
    simp only [List.map]
    by_cases e' : (k' == k) = true
    · simp only [e', if_true, wtM, Bool.and_eq_true]
      exact ⟨hv, wtM_mapSet g e k v hv r h.2⟩
    · simp only [e', wtM, Bool.and_eq_true]
      exact ⟨h.1, wtM_mapSet g e k v hv r h.2⟩

theorem wtM_setF (g : Graph) (e : GoTy) (k : String) (v : Val) (hv : wt g e v = true)
    (kvs : List (String × Val)) (h : wtM g e kvs = true) : wtM g e (setF kvs k v) = true := by
  unfold setF
  split
  · exact wtM_mapSet g e k v hv kvs h
  · exact wtM_append g e kvs _ h (by simp [wtM, hv])

theorem wtM_getF (g : Graph) (e : GoTy) (k : String) (v : Val) : (kvs : List (String × Val)) → wtM g e kvs = true →
    getF kvs k = some v → wt g e v = true
  | [], _, h => by simp [getF] at h
  | (k', c) :: r, hw, h => by
    simp only [wtM, Bool.and_eq_true] at hw
    simp only [getF, List.find?] at h
    by_cases e' : (k' == k) = true
    · simp only [e', Option.map_some, Option.some.injEq] at h
      subst h; exact hw.1
    · simp only [e'] at h
      exact wtM_getF g e k v r hw.2 (by simpa [getF] using h)

/-- a well-typed struct value: its name and the typing of its fields -/
theorem wt_struct_inv {g : Graph} {n : String} {v : Val} (h : wt g (.named n) v = true) :
    ∃ fs, v = .struct n fs ∧ wtF g n fs = true := by
  cases v <;> simp [wt] at h
  rename_i s fs
  obtain ⟨rfl, h⟩ := h
  exact ⟨fs, rfl, h⟩

theorem wtF_fieldsOf {g : Graph} {n : String} {v : Val} (h : wt g (.named n) v = true) : wtF g n v.fieldsOf = true := by
  obtain ⟨fs, rfl, hf⟩ := wt_struct_inv h
  exact hf

theorem wt_mk {g : Graph} {n : String} {fs : List (String × Val)} (h : wtF g n fs = true) : wt g (.named n) (.struct n fs) = true := by
  simp [wt, h]

/-- the field types of the regenerated graph that the update operations rely on -/
theorem graph_fields :
    G.fieldTy "effectiveConfig" "MosnConfig" = some (.named "MOSNConfig") ∧
    G.fieldTy "effectiveConfig" "Listener" = some (.map (.named "Listener")) ∧
    G.fieldTy "effectiveConfig" "Cluster" = some (.map (.named "Cluster")) ∧
    G.fieldTy "effectiveConfig" "Routers" = some (.map (.named "RouterConfiguration")) ∧
    G.fieldTy "effectiveConfig" "ExtendConfigs" = some (.slice (.named "ExtendConfig")) ∧
    G.fieldTy "MOSNConfig" "ClusterManager" = some (.named "ClusterManagerConfig") ∧
    G.fieldTy "MOSNConfig" "Servers" = some (.slice (.named "ServerConfig")) ∧
    G.fieldTy "ClusterManagerConfig" "ClusterManagerConfigJson" = some (.named "ClusterManagerConfigJson") ∧
    G.fieldTy "ClusterManagerConfigJson" "TLSContext" = some (.named "TLSConfig") ∧
    G.fieldTy "ClusterManagerConfigJson" "ClusterPoolEnable" = some .bool ∧
    G.fieldTy "Cluster" "Hosts" = some (.slice (.named "Host")) ∧
    G.fieldTy "RouterConfiguration" "RouterConfigurationConfig" = some (.named "RouterConfigurationConfig") ∧
    G.fieldTy "ExtendConfig" "Type" = some .str ∧
    G.fieldTy "ExtendConfig" "Config" = some (.hole "json.RawMessage") := by decide +kernel

theorem toVal_wt (s : State) (h : SWt s) : wt G (.named "effectiveConfig") s.toVal = true := by
  obtain ⟨f1, f2, f3, f4, f5, _⟩ := graph_fields
  simp [State.toVal, wt, wtF, f1, f2, f3, f4, f5, h.mosn, h.lis, h.clu, h.rou, h.ext]

theorem wt_optField (g : Graph) (s k : String) (fs : List (String × Val)) (hfs : wtF g s fs = true) :
    wtF g s (optField fs k) = true := by
  unfold optField
  cases hg : getF fs k with
  | none => simp [wtF]
  | some v =>
    obtain ⟨t', ht', hv⟩ := wtF_getF g s k v fs hfs hg
    simp [wtF, ht', hv]

theorem wt_cmOnlyTLS (c : Val) (h : wt G (.named "ClusterManagerConfig") c = true) :
    wt G (.named "ClusterManagerConfig") (cmOnlyTLS c) = true := by
  obtain ⟨_, _, _, _, _, _, _, f8, _⟩ := graph_fields
  have hfs := wtF_fieldsOf h
  have hcj : wtF G "ClusterManagerConfigJson" ((getF c.fieldsOf "ClusterManagerConfigJson").getD .leaf).fieldsOf = true := by
    cases hg : getF c.fieldsOf "ClusterManagerConfigJson" with
    | none => simp [Val.fieldsOf, wtF]
    | some v =>
      obtain ⟨t, ht, hv⟩ := wtF_getF G _ _ v _ hfs hg
      rw [f8] at ht; cases ht
      exact wtF_fieldsOf hv
  unfold cmOnlyTLS
  apply wt_mk
  simp only [wtF, f8, Bool.and_true]
  apply wt_mk
  exact wtF_append G _ _ _ (wt_optField G _ _ _ hcj) (wt_optField G _ _ _ hcj)

theorem wt_firstServer (c : Val) (h : wt G (.slice (.named "ServerConfig")) c = true) :
    wt G (.slice (.named "ServerConfig")) (firstServer c) = true := by
  unfold firstServer
  split
  · rename_i s fs r
    simp only [wt, wtL, Bool.and_eq_true, beq_iff_eq] at h
    obtain ⟨⟨he, hf⟩, _⟩ := h
    subst he
    simp only [wt, wtL, Bool.and_true, BEq.rfl, Bool.true_and]
    exact wtF_filter G _ _ _ (wtF_filter G _ _ _ hf)
  · simp [wt, wtL, wtF]

theorem wtF_setMosnFields : (fs : List (String × Val)) → wtF G "MOSNConfig" fs = true → wtF G "MOSNConfig" (setMosnFields fs) = true
  | [], _ => by simp [setMosnFields, wtF]
  | (k, c) :: r, h => by
    obtain ⟨_, _, _, _, _, f6, f7, _⟩ := graph_fields
    simp only [wtF, Bool.and_eq_true] at h
    have ih := wtF_setMosnFields r h.2
    simp only [setMosnFields]
    split
    · exact ih
    · split
      · rename_i hk
        have : k = "ClusterManager" := by simpa using hk
        subst this
        simp only [wtF, Bool.and_eq_true, f6]
        refine ⟨?_, ih⟩
        have h1 := h.1
        simp only [f6] at h1
        exact wt_cmOnlyTLS c h1
      · split
        · rename_i hk
          have : k = "Servers" := by simpa using hk
          subst this
          simp only [wtF, Bool.and_eq_true, f7]
          refine ⟨?_, ih⟩
          have h1 := h.1
          simp only [f7] at h1
          exact wt_firstServer c h1
        · simp only [wtF, Bool.and_eq_true]
          exact ⟨h.1, ih⟩

theorem wt_setMosn (cfg : Val) (h : wt G (.named "MOSNConfig") cfg = true) : wt G (.named "MOSNConfig") (setMosn cfg) = true := by
  unfold setMosn
  exact wt_mk (wtF_setMosnFields _ (wtF_fieldsOf h))

theorem wt_setCMTLS (m tls : Val) (hm : wt G (.named "MOSNConfig") m = true) (ht : wt G (.named "TLSConfig") tls = true) :
    wt G (.named "MOSNConfig") (setCMTLS m tls) = true := by
  obtain ⟨_, _, _, _, _, f6, _, f8, f9, _⟩ := graph_fields
  have hfs := wtF_fieldsOf hm
  have hcm : wt G (.named "ClusterManagerConfig") ((getF m.fieldsOf "ClusterManager").getD (.struct "ClusterManagerConfig" [])) = true := by
    cases hg : getF m.fieldsOf "ClusterManager" with
    | none => simp [wt, wtF]
    | some v =>
      obtain ⟨t, ht', hv⟩ := wtF_getF G _ _ v _ hfs hg
      rw [f6] at ht'; cases ht'; exact hv
  have hcmf := wtF_fieldsOf hcm
  have hcj : wt G (.named "ClusterManagerConfigJson") ((getF ((getF m.fieldsOf "ClusterManager").getD (.struct "ClusterManagerConfig" [])).fieldsOf
      "ClusterManagerConfigJson").getD (.struct "ClusterManagerConfigJson" [])) = true := by
    cases hg : getF ((getF m.fieldsOf "ClusterManager").getD (.struct "ClusterManagerConfig" [])).fieldsOf "ClusterManagerConfigJson" with
    | none => simp [wt, wtF]
    | some v =>
      obtain ⟨t, ht', hv⟩ := wtF_getF G _ _ v _ hcmf hg
      rw [f8] at ht'; cases ht'; exact hv
  have hcjf := wtF_fieldsOf hcj
  unfold setCMTLS
  apply wt_mk
  apply wtF_setF G _ _ _ _ f6 _ _ hfs
  apply wt_mk
  apply wtF_setF G _ _ _ _ f8 _ _ hcmf
  apply wt_mk
  exact wtF_setF G _ _ _ _ f9 ht _ hcjf

theorem wtL_setExtendL (typ : String) (cfg : Json) : (es : List Val) → wtL G (.named "ExtendConfig") es = true →
    wtL G (.named "ExtendConfig") (setExtendL typ cfg es) = true
  | [], _ => by
    obtain ⟨_, _, _, _, _, _, _, _, _, _, _, _, f13, f14⟩ := graph_fields
    simp [setExtendL, wtL, wt, wtF, f13, f14]
  | e :: r, h => by
    obtain ⟨_, _, _, _, _, _, _, _, _, _, _, _, f13, f14⟩ := graph_fields
    simp only [wtL, Bool.and_eq_true] at h
    simp only [setExtendL]
    split
    · simp only [wtL, Bool.and_eq_true]
      refine ⟨?_, h.2⟩
      apply wt_mk
      exact wtF_setF G _ _ _ _ f14 (by simp [wt]) _ (wtF_fieldsOf h.1)
    · simp only [wtL, Bool.and_eq_true]
      exact ⟨h.1, wtL_setExtendL typ cfg r h.2⟩

theorem wt_clearRouterPath (r : Val) (h : wt G (.named "RouterConfiguration") r = true) :
    wt G (.named "RouterConfiguration") (clearRouterPath r) = true := by
  obtain ⟨_, _, _, _, _, _, _, _, _, _, _, f12, _⟩ := graph_fields
  obtain ⟨fs, rfl, hf⟩ := wt_struct_inv h
  simp only [clearRouterPath]
  split
  · rename_i s2 fs2 hg
    obtain ⟨t, ht, hv⟩ := wtF_getF G _ _ _ _ hf hg
    rw [f12] at ht; cases ht
    obtain ⟨fs2', he, hf2⟩ := wt_struct_inv hv
    cases he
    apply wt_mk
    apply wtF_setF G _ _ _ _ f12 _ _ hf
    apply wt_mk
    exact wtF_filter G _ _ _ hf2
  · exact wt_mk hf

theorem SWt_step (s : State) (op : Op) (hs : SWt s) (ho : op.wtArg = true) : SWt (step s op) := by
  obtain ⟨_, _, _, _, _, _, _, _, _, _, f11, _⟩ := graph_fields
  cases op with
  | setMosn cfg => exact { hs with mosn := wt_setMosn cfg ho }
  | setListener l => exact { hs with lis := wtM_setF G _ _ _ ho _ hs.lis }
  | setCluster c => exact { hs with clu := wtM_setF G _ _ _ ho _ hs.clu }
  | removeCluster n => exact { hs with clu := wtM_filter G _ _ _ hs.clu }
  | setHosts n hosts =>
    simp only [step]
    split
    · rename_i t fs hg
      have hv := wtM_getF G _ n _ _ hs.clu hg
      obtain ⟨fs', he, hf⟩ := wt_struct_inv hv
      cases he
      refine { hs with clu := wtM_setF G _ _ _ ?_ _ hs.clu }
      apply wt_mk
      exact wtF_setF G _ _ _ _ f11 ho _ hf
    · exact hs
  | setRouter r => exact { hs with rou := wtM_setF G _ _ _ (wt_clearRouterPath r ho) _ hs.rou }
  | setExtend typ cfg => exact { hs with ext := wtL_setExtendL typ cfg _ hs.ext }
  | setCMTLS tls => exact { hs with mosn := wt_setCMTLS _ tls hs.mosn ho }
  | persist => exact hs
  | reset => exact ⟨by simp [step, wt, wtF], by simp [step, wtM], by simp [step, wtM], by simp [step, wtM], by simp [step, wtL]⟩

theorem SWt_foldl (ops : List Op) : (s : State) → SWt s → (∀ op ∈ ops, op.wtArg = true) → SWt (ops.foldl step s) := by
  induction ops with
  | nil => intro s h _; exact h
  | cons op r ih =>
    intro s h ho
    exact ih (step s op) (SWt_step s op h (ho op (by simp))) (fun o hm => ho o (by simp [hm]))

/-- after any history whose arguments are values of the API's Go types, the effective config is a value of the graph -/
theorem run_wt (ops : List Op) (ho : ∀ op ∈ ops, op.wtArg = true) : wt G (.named "effectiveConfig") (run ops).toVal = true :=
  toVal_wt _ (SWt_foldl ops {} ⟨by simp [wt, wtF], by simp [wtM], by simp [wtM], by simp [wtM], by simp [wtL]⟩ ho)

end MosnVerif.Model.Redact
