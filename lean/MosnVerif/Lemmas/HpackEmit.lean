import MosnVerif.Model.HpackEmit
import MosnVerif.Lemmas.HpackAt
import MosnVerif.Lemmas.HpackTable
/-! The decoder with `emitEnabled`: whatever the emit callback does, its dynamic table evolves exactly like the table of
the always-emitting decoder of `Model/HpackTable` — hence like the encoder's (`Lemmas/HpackTable.block_sync`). -/
namespace MosnVerif.Lemmas.HpackEmit
open MosnVerif.Model.HpackTable MosnVerif.Model.HpackInt MosnVerif.Model.HpackAt MosnVerif.Model.HpackEmit
open MosnVerif.Lemmas.HpackTable MosnVerif.Lemmas.HpackAt

/-- sizes are consistent and within 32 bits: what bounds the length of the dynamic table -/
structure Bounded (d : Dec) : Prop where
  cons : Consistent d.tab
  le : d.tab.size ≤ d.tab.maxSize
  max32 : d.tab.maxSize ≤ uint32Max
  allowed32 : d.allowedMax ≤ uint32Max

theorem sizeOf'_ge (l : List Entry) : 32 * l.length ≤ Consistent.sizeOf' l := by
  induction l with
  | nil => simp [Consistent.sizeOf']
  | cons e r ih =>
    simp only [Consistent.sizeOf', List.map_cons, List.sum_cons, List.length_cons] at ih ⊢
    have : entrySize e = e.1.length + e.2.length + 32 := rfl
    omega

theorem bounded_len (d : Dec) (h : Bounded d) : d.tab.ents.length + staticLen < 9223372036854775808 := by
  have h1 := sizeOf'_ge d.tab.ents
  have h2 : d.tab.size = Consistent.sizeOf' d.tab.ents := h.cons
  have h3 := h.le
  have h4 := h.max32
  have hs : staticLen = 61 := by decide
  unfold uint32Max at h4
  omega

theorem bounded_new (m : Nat) (hm : m ≤ uint32Max) : Bounded (Dec.new m) :=
  ⟨rfl, Nat.zero_le _, hm, hm⟩

theorem at_some_bound (d : Dec) (i : Nat) (e : Entry) (h : d.at i = some e) : i ≤ d.tab.ents.length + staticLen := by
  unfold Dec.at at h
  by_cases h0 : i = 0
  · simp [h0] at h
  · by_cases h1 : i ≤ staticLen
    · omega
    · by_cases h2 : i > d.tab.ents.length + staticLen
      · simp [h0, h1, h2] at h
      · omega

theorem lookup_of_at (d : Dec) (i : Nat) (hb : Bounded d) :
    (∀ e, d.at i = some e → lookup d i = .some e) := by
  intro e h
  have hlen := bounded_len d hb
  have hi : i < uint64Bound := by have := at_some_bound d i e h; unfold uint64Bound; omega
  rw [lookup_eq d i hi hlen, h]; rfl

theorem lookup_of_at_none (d : Dec) (i : Nat) (hb : Bounded d) (hi : i < uint64Bound) (h : d.at i = none) :
    lookup d i = .none := by
  rw [lookup_eq d i hi (bounded_len d hb), h]; rfl

theorem isIndexed_iff (k : LitKind) : isIndexed k = decide (k = .incremental) := by cases k <;> decide
theorem isSensitive_iff (k : LitKind) : isSensitive k = decide (k = .never) := by cases k <;> decide


theorem callEmit_ok (d : Dec) (hm : d.maxStrLen = 0) (g : Field) : callEmit d g = .ok () := by simp [callEmit, hm]

/-- **one representation**: whenever the always-emitting decoder of `Model/HpackTable` accepts the representation the
encoder wrote, the decoder with the emit flag — enabled or not — accepts it with the SAME table-side state, and hands the
same field to the callback iff emitting is enabled. -/
theorem apply_refines (d : DecE) (r : Rep) (b' : Dec) (f : Option Field)
    (hb : Bounded d.base) (hm : d.base.maxStrLen = 0) (h : d.base.apply r = .ok (b', f)) :
    d.apply r = .ok ({ base := b', emit := d.emit }, if d.emit then f else none) := by
  have hE : ∀ g : Field, callEmit d.base g = .ok () := callEmit_ok d.base hm
  cases r with
  | indexed idx =>
    simp only [Dec.apply] at h
    cases hat : d.base.at idx with
    | none => simp [hat] at h
    | some e =>
      simp only [hat, hE] at h
      injection h with h
      injection h with h1 h2
      subst h1; subst h2
      simp only [DecE.apply, DecE.applyP, lookup_of_at d.base idx hb e hat, emitStep, hE, codePolicy,
        MosnVerif.Gen.HpackEmit.emitGuard]
      rfl
  | sizeUpdate size =>
    simp only [Dec.apply] at h
    simp only [DecE.apply, DecE.applyP]
    split at h
    · simp at h
    · rename_i h1
      split at h
      · simp at h
      · rename_i h2
        injection h with h
        injection h with h1' h2'
        subst h1'; subst h2'
        rw [if_neg h1, if_neg h2]
        cases d.emit <;> rfl
  | literal k nameIdx name value =>
    simp only [Dec.apply] at h
    simp only [DecE.apply, DecE.applyP, codePolicy, MosnVerif.Gen.HpackEmit.wantStr, MosnVerif.Gen.HpackEmit.addGuard,
      isIndexed_iff, isSensitive_iff]
    cases hres : d.base.resolveName nameIdx name with
    | error e => simp [hres] at h
    | ok nm =>
      simp only [hres, hE] at h
      injection h with h
      injection h with h1 h2
      subst h1; subst h2
      by_cases hidx : nameIdx > 0
      · -- name from the table
        simp only [Dec.resolveName, hidx, if_true] at hres
        cases hat : d.base.at nameIdx with
        | none => simp [hat] at hres
        | some e =>
          simp only [hat] at hres
          injection hres with hres
          subst hres
          simp only [hidx, if_true, lookup_of_at d.base nameIdx hb e hat, emitStep, hE, MosnVerif.Gen.HpackEmit.emitGuard]
          cases hem : d.emit <;> cases k <;> simp
      · simp only [Dec.resolveName, hidx, if_false] at hres
        injection hres with hres
        subst hres
        simp only [hidx, if_false, emitStep, hE, MosnVerif.Gen.HpackEmit.emitGuard]
        cases hem : d.emit <;> cases k <;> simp


theorem apply_bounded (d d' : Dec) (r : Rep) (f : Option Field) (hb : Bounded d) (h : d.apply r = .ok (d', f)) :
    Bounded d' := by
  cases r with
  | indexed idx =>
    simp only [Dec.apply] at h
    cases hat : d.at idx with
    | none => simp [hat] at h
    | some e =>
      simp only [hat] at h
      split at h
      · simp at h
      · injection h with h; injection h with h1 _; subst h1
        exact ⟨hb.cons, hb.le, hb.max32, hb.allowed32⟩
  | sizeUpdate size =>
    simp only [Dec.apply] at h
    split at h
    · simp at h
    · split at h
      · simp at h
      · rename_i h2
        injection h with h; injection h with h1 _; subst h1
        obtain ⟨c, l, m⟩ := setMaxSize_consistent d.tab size hb.cons
        refine ⟨c, ?_, ?_, hb.allowed32⟩
        · show (d.tab.setMaxSize size).size ≤ (d.tab.setMaxSize size).maxSize
          rw [m]; exact l
        · show (d.tab.setMaxSize size).maxSize ≤ uint32Max
          rw [m]; have := hb.allowed32; omega
  | literal k nameIdx name value =>
    simp only [Dec.apply] at h
    cases hres : d.resolveName nameIdx name with
    | error e => simp [hres] at h
    | ok nm =>
      simp only [hres] at h
      split at h
      · simp at h
      · injection h with h; injection h with h1 _; subst h1
        by_cases hk : k = .incremental
        · simp only [hk, if_true]
          obtain ⟨c, l, m⟩ := add_consistent d.tab (nm, value) hb.cons
          refine ⟨c, l, ?_, hb.allowed32⟩
          show (d.tab.add (nm, value)).maxSize ≤ uint32Max
          rw [m]; exact hb.max32
        · simp only [hk, if_false]
          exact ⟨hb.cons, hb.le, hb.max32, hb.allowed32⟩

/-- what the callback is handed of a block whose fields are `fs` when it switches emitting off at its `k`-th call -/
def emittedPrefix (emit : Bool) (cut : Option Nat) (fs : List Field) : List Field :=
  if !emit then [] else
  match cut with
  | none => fs
  | some k => fs.take (k + 1)

theorem emittedPrefix_off (cut : Option Nat) (fs : List Field) : emittedPrefix false cut fs = [] := rfl

/-- **one block**: whatever the point at which the callback switches emitting off, the decoder with the emit flag ends
the block with the same table-side state as the always-emitting decoder, having handed over a prefix of the fields. -/
theorem applyAll_refines : ∀ (reps : List Rep) (d : DecE) (cut : Option Nat) (b' : Dec) (fs : List Field),
    Bounded d.base → d.base.maxStrLen = 0 → d.base.applyAll reps = .ok (b', fs) →
    ∃ em, d.applyAllP codePolicy cut reps = .ok ({ base := b', emit := em }, emittedPrefix d.emit cut fs) ∧ Bounded b' ∧
      b'.maxStrLen = 0 := by
  intro reps
  induction reps with
  | nil =>
    intro d cut b' fs hb hm h
    simp only [Dec.applyAll] at h
    injection h with h; injection h with h1 h2; subst h1; subst h2
    refine ⟨d.emit, ?_, ⟨hb.cons, hb.le, hb.max32, hb.allowed32⟩, hm⟩
    simp only [DecE.applyAllP, emittedPrefix]
    cases d.emit <;> cases cut <;> simp
  | cons r rs ih =>
    intro d cut b' fs hb hm h
    rw [Dec.applyAll] at h
    cases h1 : d.base.apply r with
    | error e => simp [h1] at h
    | ok x =>
      obtain ⟨b1, f⟩ := x
      simp only [h1] at h
      cases h2 : b1.applyAll rs with
      | error e => simp [h2] at h
      | ok y =>
        obtain ⟨b2, fs1⟩ := y
        simp only [h2] at h
        injection h with h; injection h with h3 h4; subst h3; subst h4
        have hb1 : Bounded b1 := apply_bounded d.base b1 r f hb h1
        have hm1 : b1.maxStrLen = 0 := by
          cases r with
          | indexed idx =>
            simp only [Dec.apply] at h1
            split at h1
            · simp at h1
            · split at h1
              · simp at h1
              · injection h1 with h1; injection h1 with h1 _; subst h1; exact hm
          | sizeUpdate size =>
            simp only [Dec.apply] at h1
            split at h1
            · simp at h1
            · split at h1
              · simp at h1
              · injection h1 with h1; injection h1 with h1 _; subst h1; exact hm
          | literal k nameIdx name value =>
            simp only [Dec.apply] at h1
            split at h1
            · simp at h1
            · split at h1
              · simp at h1
              · injection h1 with h1; injection h1 with h1 _; subst h1
                split <;> exact hm
        have hr := apply_refines d r b1 f hb hm h1
        have hr' : d.applyP codePolicy r = .ok ({ base := b1, emit := d.emit }, if d.emit then f else none) := hr
        simp only [DecE.applyAllP, hr']
        cases hem : d.emit with
        | false =>
          simp only [Bool.false_eq_true, if_false, afterEmit]
          obtain ⟨em, ha, hbb, hmm⟩ := ih { base := b1, emit := false } cut b2 fs1 hb1 hm1 h2
          refine ⟨em, ?_, hbb, hmm⟩
          simp only [ha, emittedPrefix_off, consOpt]
        | true =>
          simp only [if_true]
          cases f with
          | none =>
            simp only [afterEmit]
            obtain ⟨em, ha, hbb, hmm⟩ := ih { base := b1, emit := true } cut b2 fs1 hb1 hm1 h2
            refine ⟨em, ?_, hbb, hmm⟩
            simp only [ha, consOpt]
          | some f0 =>
            cases cut with
            | none =>
              simp only [afterEmit]
              obtain ⟨em, ha, hbb, hmm⟩ := ih { base := b1, emit := true } none b2 fs1 hb1 hm1 h2
              refine ⟨em, ?_, hbb, hmm⟩
              simp only [ha, consOpt, emittedPrefix]
              rfl
            | some k =>
              cases k with
              | zero =>
                simp only [afterEmit]
                obtain ⟨em, ha, hbb, hmm⟩ := ih { base := b1, emit := false } none b2 fs1 hb1 hm1 h2
                refine ⟨em, ?_, hbb, hmm⟩
                simp only [ha, consOpt, emittedPrefix]
                simp
              | succ k =>
                simp only [afterEmit]
                obtain ⟨em, ha, hbb, hmm⟩ := ih { base := b1, emit := true } (some k) b2 fs1 hb1 hm1 h2
                refine ⟨em, ?_, hbb, hmm⟩
                simp only [ha, consOpt, emittedPrefix]
                simp


/-- a connection's header blocks as the decoder's side sees them: the peer's SETTINGS_HEADER_TABLE_SIZE between blocks,
and header blocks during which the emit callback (`readMetaFrame`: invalid field, header list too large) switches
emitting off at its `cut`-th call (`none`: never) -/
inductive OpE
  | setSize (v : Nat)
  | block (fs : List Field) (cut : Option Nat)

/-- what the emit callback is handed, block by block -/
def emittedOf : List OpE → List (List Field)
  | [] => []
  | .setSize _ :: r => emittedOf r
  | .block fs cut :: r => emittedPrefix true cut fs :: emittedOf r

/-- run the operations under decoder policy `pol`: each block is planned by the encoder and decoded with emitting
enabled at its start (`readMetaFrame`) and switched off by the callback at the given point -/
def runOpsE (pol : Policy) (e : Enc) (d : DecE) : List OpE → Except XErr (Enc × DecE × List (List Field))
  | [] => .ok (e, d, [])
  | .setSize v :: r => runOpsE pol (e.setMaxDynamicTableSize v) d r
  | .block fs cut :: r =>
    match d.startBlock.applyAllP pol cut (planBlock e fs).2 with
    | .error x => .error x
    | .ok (d', out) =>
      match runOpsE pol (planBlock e fs).1 d' r with
      | .error x => .error x
      | .ok (e'', d'', outs) => .ok (e'', d'', out :: outs)

theorem runOpsE_sync (ops : List OpE) : ∀ (e : Enc) (d : DecE), Rel e d.base → Bounded d.base →
    ∃ e' d', runOpsE codePolicy e d ops = .ok (e', d', emittedOf ops) ∧ Rel e' d'.base ∧ Bounded d'.base := by
  induction ops with
  | nil => intro e d h hb; exact ⟨e, d, rfl, h, hb⟩
  | cons op r ih =>
    intro e d h hb
    cases op with
    | setSize v =>
      obtain ⟨e', d', h1, h2⟩ := ih _ d (rel_setSize e d.base v h) hb
      exact ⟨e', d', by simp only [runOpsE, emittedOf]; exact h1, h2⟩
    | block fs cut =>
      obtain ⟨b1, ha, hrel, _⟩ := block_sync e d.base fs h
      have hstart : d.startBlock = { base := d.base, emit := true } := by
        simp [DecE.startBlock, MosnVerif.Gen.HpackEmit.blockStartsEnabled]
      obtain ⟨em, hE, hb1, _⟩ := applyAll_refines (planBlock e fs).2 { base := d.base, emit := true } cut b1 fs hb h.maxStr ha
      obtain ⟨e', d', h1, h2⟩ := ih (planBlock e fs).1 { base := b1, emit := em } hrel hb1
      refine ⟨e', d', ?_, h2⟩
      simp only [runOpsE, emittedOf, hstart, hE, h1]

/-- the seeded class: `wantStr` without `it.indexed()` — strings are dropped whenever emitting is off -/
def dropIndexedPolicy : Policy := { codePolicy with wantStr := fun emit _ => emit }

/-- block 1: the callback switches emitting off at the first field, a NEW literal with incremental indexing follows;
block 2 references it -/
def cutDemoOps : List OpE :=
  [.block [⟨[120, 45, 97], [49], false⟩, ⟨[120, 45, 98], [50, 50], false⟩] (some 0),
   .block [⟨[120, 45, 98], [50, 50], false⟩] none]

end MosnVerif.Lemmas.HpackEmit
