import MosnVerif.Lemmas.PoolH2
/-! The observation of an HTTP/2-pool model state satisfying the invariant satisfies the executable predicate; the
connection_active gauges as a COUNT of connections. -/
namespace MosnVerif.Model.PoolH2
open MosnVerif.Gen.PoolH2 MosnVerif.Gen.Pool
open MosnVerif.Model.Pool (Stream Dial countLive OStream length_filter_range)

/-! ### counting connections -/

theorem length_filter_range_countP (p : Nat → Bool) (n : Nat) : ((List.range n).filter p).length = countP p n := by
  induction n with
  | zero => rfl
  | succ n ih =>
    rw [List.range_succ, List.filter_append, List.length_append, ih]
    simp only [countP, List.filter_cons, List.filter_nil]
    split <;> simp

theorem countP_none (p : Nat → Bool) (n : Nat) (h : ∀ c, c < n → p c = false) : countP p n = 0 := by
  induction n with
  | zero => rfl
  | succ n ih =>
    simp only [countP, ih (fun c hc => h c (by omega)), h n (by omega)]
    simp

theorem countP_single (p : Nat → Bool) (a n : Nat) (ha : a < n) (hp : ∀ c, c < n → (p c = true ↔ c = a)) : countP p n = 1 := by
  induction n with
  | zero => omega
  | succ n ih =>
    simp only [countP]
    by_cases han : a = n
    · subst han
      have h0 : countP p a = 0 := countP_none p a (fun c hc => by
        cases hpc : p c
        · rfl
        · have := (hp c (by omega)).mp hpc; omega)
      have : p a = true := (hp a (by omega)).mpr rfl
      rw [h0, this]; rfl
    · have hn : p n = false := by
        cases hpn : p n
        · rfl
        · have := (hp n (by omega)).mp hpn; omega
      rw [ih (by omega) (fun c hc => hp c (by omega)), hn]; rfl

/-- **the gauge as a count**: the number of open connections that are the pool's client or have not been told to go
away is 1 when the pool holds a client and 0 otherwise -/
theorem countP_counted (s : State) (h : Inv s) : (countP s.counted s.nConns : Int) = gaugeOf s := by
  unfold gaugeOf
  cases ha : s.active with
  | none =>
    have : countP s.counted s.nConns = 0 := by
      apply countP_none
      intro c hc
      cases ho : (s.conn c).netOpen
      · simp [State.counted, ho]
      · by_cases hg : (s.conn c).goaway = 0
        · have := h.openOk c hc ho hg
          rw [ha] at this; cases this
        · simp [State.counted, ho, hg, ha]
    simp [this]
  | some a =>
    have ⟨ha1, ha2⟩ := h.activeOk a ha
    have : countP s.counted s.nConns = 1 := by
      apply countP_single _ a _ ha1
      intro c hc
      constructor
      · intro hcnt
        simp only [State.counted, Bool.and_eq_true, Bool.or_eq_true, beq_iff_eq, ha, Option.some.injEq] at hcnt
        rcases hcnt.2 with hg | hg
        · have := h.openOk c hc hcnt.1 hg
          rw [ha] at this; cases this; rfl
        · exact hg.symm
      · intro e; subst e
        simp [State.counted, ha2, ha]
    simp [this]

/-! ### the observation -/

theorem liveConns_obsOf (s : State) (h : Inv s) :
    (obsOf s).liveConns = ((List.range s.nStreams).filter (fun i => (s.stream i).live)).map (fun i => (s.stream i).conn) := by
  simp only [Obs.liveConns, obsOf, List.filter_map, List.map_map]
  congr 1
  apply List.filter_congr
  intro i hi
  have hi' := List.mem_range.mp hi
  simp only [Function.comp, OStream.live]
  cases hl : (s.stream i).live
  · have := ((h.once i hi').2 hl).1; simp [this]
  · have := ((h.once i hi').1 hl).1; simp [this]

theorem mem_liveConns (s : State) (h : Inv s) (c : Nat) :
    c ∈ (obsOf s).liveConns ↔ ∃ i, i < s.nStreams ∧ (s.stream i).live = true ∧ (s.stream i).conn = c := by
  rw [liveConns_obsOf s h, List.mem_map]
  constructor
  · rintro ⟨i, hi, hc⟩
    simp only [List.mem_filter, List.mem_range] at hi
    exact ⟨i, hi.1, hi.2, hc⟩
  · rintro ⟨i, hi, hl, hc⟩
    exact ⟨i, by simp [List.mem_filter, hi, hl], hc⟩

theorem isOpen_obsOf (s : State) (c : Nat) :
    (obsOf s).isOpen c = (decide (c < s.nConns) && (s.conn c).netOpen) := by
  simp only [Obs.isOpen, obsOf, List.getD_eq_getElem?_getD, List.getElem?_map]
  by_cases hc : c < s.nConns
  · simp [hc]
  · have hn : (List.range s.nConns)[c]? = none := by
      rw [List.getElem?_eq_none_iff]; simp; omega
    simp [hc]

theorem active_obsOf (s : State) : (obsOf s).active = s.active := rfl
theorem activeGone_obsOf (s : State) : (obsOf s).activeGone = decide (s.curGoaway ≠ 0) := rfl
theorem connHost_obsOf (s : State) : (obsOf s).connHost = s.connHost := rfl
theorem connCluster_obsOf (s : State) : (obsOf s).connCluster = s.connCluster := rfl

theorem conns_length (s : State) : (obsOf s).conns.length = s.nConns := by simp [obsOf]

theorem obsSpec_holds (s : State) (h : Inv s) : obsSpec s.maxReq s.ext s.told (obsOf s) = true := by
  have hlen : (obsOf s).liveConns.length = s.liveCount := by
    rw [liveConns_obsOf s h, List.length_map]; exact length_filter_range _ _
  -- the count of clause 5
  have hcount : (((List.range (obsOf s).conns.length).filter
      (fun c => (obsOf s).isOpen c && (!s.told c || (obsOf s).active == some c))).length : Int) = gaugeOf s := by
    rw [conns_length, ← countP_counted s h, ← length_filter_range_countP]
    congr 2
    apply List.filter_congr
    intro c hc
    have hc' := List.mem_range.mp hc
    simp only [isOpen_obsOf, active_obsOf, hc', decide_true, Bool.true_and, State.counted, State.told]
    cases (s.conn c).netOpen <;> simp
    by_cases hg : (s.conn c).goaway = 0 <;> simp [hg]
  unfold obsSpec
  simp only [Bool.and_eq_true, decide_eq_true_eq, List.all_eq_true, Bool.or_eq_true, Bool.not_eq_true']
  refine ⟨⟨⟨⟨⟨⟨⟨?_, ?_⟩, ?_⟩, ?_⟩, ?_⟩, ?_⟩, ?_⟩, ?_⟩
  · show s.reqCur = if s.maxReq = 0 then 0 else (s.ext : Int) + ((obsOf s).liveConns.length : Int)
    rw [hlen]; exact h.req
  · show s.actHost = ((obsOf s).liveConns.length : Int)
    rw [hlen]; exact h.act.1
  · show s.actCluster = ((obsOf s).liveConns.length : Int)
    rw [hlen]; exact h.act.2
  · intro c hcl
    obtain ⟨i, hi, hl, hcc⟩ := (mem_liveConns s h c).mp hcl
    subst hcc
    have ⟨h1, h2⟩ := h.liveOk i hi hl
    rw [isOpen_obsOf]; simp [h1, h2]
  · show (match s.active with
        | some c => (obsOf s).isOpen c && ((obsOf s).activeGone == s.told c)
        | none => true) = true
    cases ha : s.active with
    | none => rfl
    | some a =>
      have ⟨h1, h2⟩ := h.activeOk a ha
      simp only [isOpen_obsOf, activeGone_obsOf, h1, h2, decide_true, Bool.true_and, State.curGoaway, ha, State.told]
      simp
  · intro c hcr
    have hc' : c < s.nConns := by simpa [obsOf] using List.mem_range.mp hcr
    rw [isOpen_obsOf]
    cases ho : (s.conn c).netOpen
    · left; left; simp
    · by_cases hg : (s.conn c).goaway = 0
      · right
        have := h.openOk c hc' ho hg
        simp [active_obsOf, this]
      · left; right; simp [State.told, hg]
  · rw [hcount, connHost_obsOf, connCluster_obsOf]
    exact h.gauge
  · intro st hst
    simp only [obsOf, List.mem_map, List.mem_range] at hst
    obtain ⟨i, hi, rfl⟩ := hst
    simp only
    cases hl : (s.stream i).live
    · have ⟨d1, d2, d3, d4⟩ := (h.once i hi).2 hl
      refine ⟨⟨⟨by omega, d2⟩, d3⟩, ?_⟩
      by_cases hr : (s.stream i).recv = 0
      · left; simp [hr]
      · right; exact ⟨by simp [d1], by have := d4 (by omega); simp [this]⟩
    · have ⟨f1, f2, f3⟩ := (h.once i hi).1 hl
      refine ⟨⟨⟨by omega, by omega⟩, by simp [f3]⟩, Or.inl (by simp [f2])⟩

end MosnVerif.Model.PoolH2
