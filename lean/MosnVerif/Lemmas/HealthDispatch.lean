import MosnVerif.Model.HealthDispatch
/-! Lemmas for C16 (dispatch loop): under EVERY schedule of timer firings, answers, handler durations and Stop, the loop of
`sessionChecker.Start` hands every check to the result handlers at most once, only checks actually performed, and every
check whose turn is over exactly once.  Core Lean only. -/
namespace MosnVerif.Model.HealthDispatch
open MosnVerif.Model.HealthCheck (Result)
open MosnVerif.Gen.HealthDispatch (Act)

/-- the regenerated program is the one the proofs are about (stops compiling when an action of the loop is moved, added
or dropped) -/
theorem genProg_real : genProg = realProg := by decide

/-- OnCheck / OnTimeout / the channels have the shape `step` hard-codes -/
theorem callbacks_shape :
    Gen.HealthDispatch.onCheck = [.readID, .stopTimeout, .armTimeout, .checkAndSend] ∧
    Gen.HealthDispatch.onTimeoutFn = [.sendTimeout] ∧
    Gen.HealthDispatch.timeoutChanCap = 0 ∧ Gen.HealthDispatch.respChanCap = 0 ∧
    Gen.HealthDispatch.timeoutCarriesID = true := by decide

abbrev R0 : List Act := [.stopTimeout, .handle, .advance, .armCheck]
abbrev R1 : List Act := [.handle, .advance, .armCheck]
abbrev R2 : List Act := [.advance, .armCheck]
abbrev R3 : List Act := [.armCheck]
abbrev T0 : List Act := [.stopCheck, .sessionOnTimeout, .handleNet, .advance, .armCheck]
abbrev T1 : List Act := [.sessionOnTimeout, .handleNet, .advance, .armCheck]
abbrev T2 : List Act := [.handleNet, .advance, .armCheck]

structure Inv (s : D) : Prop where
  phase : s.todo = [] ∨ s.todo = R0 ∨ s.todo = R1 ∨ s.todo = R2 ∨ s.todo = R3 ∨ s.todo = T0 ∨ s.todo = T1 ∨ s.todo = T2
  cur_id : s.todo = [] → s.exited = false → s.currentID = s.checkID
  busy : s.todo ≠ [] → s.armed = false
  /-- only between the receive of an answer and the Stop that follows it can the timeout timer run while the loop is busy -/
  busy_tmo : s.todo ≠ [] → s.todo ≠ R0 → s.tmo = none
  /-- fired timers waiting on c.timeout: of performed checks, never of a future one, and not of the check whose timer runs -/
  parked_ok : ∀ k ∈ s.parked, k ∈ s.issued ∧ k ≤ s.checkID ∧ (k = s.checkID → s.tmo = none)
  tmo_cur : ∀ k, s.tmo = some k → k = s.checkID ∧ s.armed = false
  tmo_issued : ∀ k, s.tmo = some k → k ∈ s.issued
  log_lt : ∀ e ∈ s.log, e.1 < s.checkID ∨ (s.todo = R2 ∧ e.1 = s.checkID)
  log_sorted : (ids s).Pairwise (· > ·)
  issued_le : ∀ i ∈ s.issued, i < s.checkID ∨ (i = s.checkID ∧ s.armed = false)
  issued_sorted : s.issued.Pairwise (· > ·)
  complete : ∀ i ∈ s.issued, i < s.checkID → i ∈ ids s
  logged : s.todo = R2 → s.checkID ∈ ids s
  cur_ok : s.todo = R0 ∨ s.todo = R1 ∨ s.todo = T0 ∨ s.todo = T1 ∨ s.todo = T2 →
    s.cur.1 = s.checkID ∧ s.cur ∈ s.outcomes ∧ s.cur.1 ∈ s.issued
  cur_tmo : s.todo = T0 ∨ s.todo = T1 ∨ s.todo = T2 → s.cur.2 = .timeout
  log_out : ∀ e ∈ s.log, e ∈ s.outcomes
  log_issued : ∀ e ∈ s.log, e.1 ∈ s.issued
  inflight_issued : ∀ i ∈ s.inflight, i ∈ s.issued
  exit_todo : s.exited = true → s.todo = []
  issued_r3 : s.todo = R3 → ∀ i ∈ s.issued, i < s.checkID
  /-- the loop waits in its select for a performed check: that check's timeout is still to come (timer running, or its
  expiry parked on the channel) - the id comparison never drops the timeout of the awaited check -/
  pending : s.todo = [] → s.exited = false → s.checkID ∈ s.issued → s.tmo = some s.checkID ∨ s.checkID ∈ s.parked

macro "inv_tac" : tactic =>
  `(tactic| (constructor <;>
      simp only [realProg, perform, ids, List.foldl, List.pairwise_cons, List.map_cons, List.mem_cons, List.mem_map,
        List.mem_append, List.mem_singleton] at * <;> grind [= List.pairwise_cons]))

theorem inv_init : Inv (D.init realProg) := by
  constructor <;> simp [D.init, realProg, D.zero, perform, ids]

/-- the deferred exit block touches only the two timers -/
theorem inv_exit (s : D) (h : Inv s) (ht : s.todo = []) :
    Inv (realProg.onExit.foldl perform { s with stopReq := true, exited := true }) := by
  obtain ⟨h1, h2, h3, h4, h5, h6, h7, h8, h9, h10, h11, h12, h13, h14, h15, h16, h17, h18, h19, h20, h21⟩ := h
  inv_tac

theorem inv_fireCheck (s : D) (h : Inv s) (hx : s.exited = false) : Inv (step realProg s .fireCheck) := by
  have h0 := h
  obtain ⟨h1, h2, h3, h4, h5, h6, h7, h8, h9, h10, h11, h12, h13, h14, h15, h16, h17, h18, h19, h20, h21⟩ := h
  simp only [step, hx]
  by_cases ha : s.armed = true
  · simp only [ha, if_true]
    inv_tac
  · simpa [ha] using h0

theorem inv_stop (s : D) (h : Inv s) (hx : s.exited = false) : Inv (step realProg s .stop) := by
  simp only [step, hx, idle]
  by_cases ht : s.todo = []
  · simpa [ht] using inv_exit s h ht
  · have h0 := h
    obtain ⟨h1, h2, h3, h4, h5, h6, h7, h8, h9, h10, h11, h12, h13, h14, h15, h16, h17, h18, h19, h20, h21⟩ := h
    have : s.todo.isEmpty = false := by cases hs : s.todo <;> simp_all
    simp only [this]
    inv_tac

theorem inv_act (s : D) (h : Inv s) (hx : s.exited = false) : Inv (step realProg s .act) := by
  have h0 := h
  obtain ⟨h1, h2, h3, h4, h5, h6, h7, h8, h9, h10, h11, h12, h13, h14, h15, h16, h17, h18, h19, h20, h21⟩ := h
  simp only [step, hx]
  rcases h1 with ht | ht | ht | ht | ht | ht | ht | ht
  · simpa [actStep, ht] using h0
  · simp only [actStep, ht, finish, perform]
    inv_tac
  · simp only [actStep, ht, finish, perform]
    inv_tac
  · simp only [actStep, ht, finish, perform]
    inv_tac
  · simp only [actStep, ht, finish, perform]
    by_cases hs : s.stopReq = true
    · simp only [hs, if_true]
      inv_tac
    · simp only [hs]
      inv_tac
  · simp only [actStep, ht, finish, perform]
    inv_tac
  · simp only [actStep, ht, finish, perform]
    inv_tac
  · simp only [actStep, ht, finish, perform]
    inv_tac

theorem inv_recvTimeout (s : D) (h : Inv s) (hx : s.exited = false) : Inv (step realProg s .recvTimeout) := by
  have h0 := h
  obtain ⟨h1, h2, h3, h4, h5, h6, h7, h8, h9, h10, h11, h12, h13, h14, h15, h16, h17, h18, h19, h20, h21⟩ := h
  simp only [step, hx]
  cases hp : s.parked with
  | nil => simpa using h0
  | cons k rest =>
    by_cases ht : s.todo = []
    · have hk := h5 k (by simp [hp])
      simp only [idle, ht, List.isEmpty_nil, if_true]
      by_cases hid : k = s.currentID
      · simp only [realProg, hid, Bool.not_true, Bool.false_or, decide_true, if_true, enter, finish]
        inv_tac
      · simp only [realProg, hid, Bool.not_true, Bool.false_or, decide_false, Bool.false_eq_true, if_false, enter, finish]
        by_cases hs : s.stopReq = true
        · simp only [hs, if_true]
          inv_tac
        · simp only [hs]
          inv_tac
    · have : s.todo.isEmpty = false := by cases hs : s.todo <;> simp_all
      simpa [idle, this] using h0

theorem inv_fireTimeout (s : D) (h : Inv s) (hx : s.exited = false) : Inv (step realProg s .fireTimeout) := by
  have h0 := h
  obtain ⟨h1, h2, h3, h4, h5, h6, h7, h8, h9, h10, h11, h12, h13, h14, h15, h16, h17, h18, h19, h20, h21⟩ := h
  simp only [step, hx]
  cases hk : s.tmo with
  | none => simpa using h0
  | some k =>
    simp only []
    inv_tac

theorem inv_answer (s : D) (id : Nat) (hv : Bool) (h : Inv s) (hx : s.exited = false) :
    Inv (step realProg s (.answer id hv)) := by
  have h0 := h
  obtain ⟨h1, h2, h3, h4, h5, h6, h7, h8, h9, h10, h11, h12, h13, h14, h15, h16, h17, h18, h19, h20, h21⟩ := h
  simp only [step, hx]
  by_cases hc : (idle s && s.inflight.contains id) = true
  · simp only [hc, if_true]
    have ht : s.todo = [] := by
      simp only [idle, Bool.and_eq_true, List.isEmpty_iff] at hc; exact hc.1
    have hm : id ∈ s.inflight := by
      simp only [Bool.and_eq_true, List.contains_iff_mem] at hc; exact hc.2
    have he : ∀ i ∈ s.inflight.erase id, i ∈ s.issued := fun i hi => h18 i (List.mem_of_mem_erase hi)
    by_cases hid : id = s.currentID
    · simp only [hid, if_true, enter, realProg, finish]
      inv_tac
    · simp only [hid, if_false, enter, realProg, finish]
      by_cases hs : s.stopReq = true
      · simp only [hs, if_true]
        inv_tac
      · simp only [hs]
        inv_tac
  · simp only [hc]
    exact h0

theorem inv_step (s : D) (ev : Ev) (h : Inv s) : Inv (step realProg s ev) := by
  by_cases hx : s.exited = true
  · simpa [step, hx] using h
  · have hx : s.exited = false := by simpa using hx
    cases ev with
    | fireCheck => exact inv_fireCheck s h hx
    | fireTimeout => exact inv_fireTimeout s h hx
    | answer id hv => exact inv_answer s id hv h hx
    | recvTimeout => exact inv_recvTimeout s h hx
    | act => exact inv_act s h hx
    | stop => exact inv_stop s h hx

theorem inv_run (s : D) (evs : List Ev) (h : Inv s) : Inv (run realProg s evs) := by
  induction evs generalizing s with
  | nil => exact h
  | cons e es ih => exact ih _ (inv_step s e h)

end MosnVerif.Model.HealthDispatch
