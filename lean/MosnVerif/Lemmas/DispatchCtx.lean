import MosnVerif.Model.DispatchCtx
/-! invariants of the Dispatch context model (`Model/DispatchCtx.lean`) -/
namespace MosnVerif.Model.DispatchCtx

/-- what holds between two frames when `Get` is a statement of the loop and `Next` follows every frame: the current
context is unused, every context used so far is older, every receiver sees its own frame -/
structure Inv (sh : Shape) (pf : Bool) (s : St) : Prop where
  lt  : s.cur < s.fresh
  dec : ∀ c ∈ s.decoded, c < s.cur
  del : ∀ d ∈ s.delivered, d.ctx < s.cur ∧ readback sh pf s d = own d.frame
  mem : ∀ d ∈ s.delivered, d.ctx ∈ s.decoded
  nd  : s.decoded.Nodup
  ndd : (s.delivered.map (·.ctx)).Nodup

theorem inv_init (sh : Shape) (pf : Bool) : Inv sh pf init :=
  ⟨by decide, by simp [init], by simp [init], by simp [init], by simp [init], by simp [init]⟩

theorem upd_ne {st : Nat → CtxObj} {c i : Nat} {o : CtxObj} (h : i ≠ c) : upd st c o i = st i := by
  simp [upd, h]

theorem upd_self {st : Nat → CtxObj} {c : Nat} {o : CtxObj} : upd st c o c = o := by
  simp [upd]

theorem seen_own_request (sh : Shape) (pf : Bool) (o : CtxObj) (f : Frame) :
    seenOf sh pf (streamObj sh (decodeObj pf o f) f) f = own f ∨ f.kind.stype = .response := by
  cases hk : f.kind <;> simp [seenOf, streamObj, decodeObj, own, Kind.stype, hk] <;>
    (cases pf <;> cases sh.streamPooled <;> simp)

private theorem nodup_snoc {l : List Nat} {c : Nat} (h : l.Nodup) (hc : ∀ x ∈ l, x < c) : (l ++ [c]).Nodup := by
  rw [List.nodup_append]
  refine ⟨h, by simp, ?_⟩
  intro a ha b hb
  simp at hb
  subst hb
  exact Nat.ne_of_lt (hc a ha)

theorem inv_step {sh : Shape} (h : sh.perFrame) (pf : Bool) (loc : Nat) (s : St) (f : Frame) (hi : Inv sh pf s) :
    Inv sh pf (frameStep sh pf loc s f) := by
  obtain ⟨hg, hn⟩ := h
  have hnx : sh.nextAfter f.kind.stype = true := hn _
  have hdec' : ∀ c ∈ s.decoded ++ [s.cur], c < s.fresh := by
    intro c hc
    rcases List.mem_append.mp hc with hc | hc
    · exact Nat.lt_trans (hi.dec c hc) hi.lt
    · simp at hc; subst hc; exact hi.lt
  have hold : ∀ (o : CtxObj) (d : Delivered), d ∈ s.delivered →
      d.ctx < s.fresh ∧ seenOf sh pf (upd s.store s.cur o d.ctx) d.frame = own d.frame := by
    intro o d hd
    have := hi.del d hd
    refine ⟨Nat.lt_trans this.1 hi.lt, ?_⟩
    rw [upd_ne (Nat.ne_of_lt this.1)]
    exact this.2
  have hmem : ∀ d ∈ s.delivered, d.ctx ∈ s.decoded ++ [s.cur] :=
    fun d hd => List.mem_append_left _ (hi.mem d hd)
  cases hk : f.kind
  case heartbeat =>
    simp only [hk, Kind.stype] at hnx
    simp only [frameStep, hg, hk, Kind.stype, hnx, if_true]
    exact ⟨Nat.lt_succ_self _, hdec', fun d hd => hold _ d hd, hmem, nodup_snoc hi.nd hi.dec, hi.ndd⟩
  case response =>
    simp only [hk, Kind.stype] at hnx
    simp only [frameStep, hg, hk, Kind.stype, hnx, if_true]
    exact ⟨Nat.lt_succ_self _, hdec', fun d hd => hold _ d hd, hmem, nodup_snoc hi.nd hi.dec, hi.ndd⟩
  all_goals
    simp only [hk, Kind.stype] at hnx
    simp only [frameStep, hg, hk, Kind.stype, hnx, if_true]
    refine ⟨Nat.lt_succ_self _, hdec', ?_, ?_, nodup_snoc hi.nd hi.dec, ?_⟩
    · intro d hd
      rcases List.mem_append.mp hd with hd | hd
      · exact hold _ d hd
      · simp at hd
        subst hd
        refine ⟨hi.lt, ?_⟩
        simp only [readback, upd_self]
        rcases seen_own_request sh pf (s.store s.cur) f with h | h
        · exact h
        · simp [hk, Kind.stype] at h
    · intro d hd
      rcases List.mem_append.mp hd with hd | hd
      · exact hmem d hd
      · simp at hd
        subst hd
        simp
    · rw [List.map_append]
      exact nodup_snoc hi.ndd (fun x hx => by
        obtain ⟨d, hd, rfl⟩ := List.mem_map.mp hx
        exact (hi.del d hd).1)

theorem inv_dispatch {sh : Shape} (h : sh.perFrame) (pf : Bool) (fs : List Frame) (loc : Nat) (s : St) (hi : Inv sh pf s) :
    Inv sh pf (fs.foldl (frameStep sh pf loc) s) := by
  induction fs generalizing s with
  | nil => exact hi
  | cons f fs ih => exact ih _ (inv_step h pf loc s f hi)

theorem inv_run {sh : Shape} (h : sh.perFrame) (pf : Bool) (calls : List (List Frame)) :
    Inv sh pf (run sh pf calls) := by
  unfold run
  generalize hs : init = s
  have hi : Inv sh pf s := hs ▸ inv_init sh pf
  clear hs
  induction calls generalizing s with
  | nil => exact hi
  | cons c cs ih => exact ih _ (inv_dispatch h pf c s.cur s hi)

theorem isolated_of_inv {sh : Shape} {pf : Bool} {s : St} (hi : Inv sh pf s) : Isolated sh pf s :=
  ⟨fun d hd => (hi.del d hd).2, hi.nd, hi.ndd⟩

/-! ### exactly once (any shape): the receivers and acknowledgements are those of the frames, in order -/

theorem step_delivered (sh : Shape) (pf : Bool) (loc : Nat) (s : St) (f : Frame) :
    (frameStep sh pf loc s f).delivered.map (·.frame) = s.delivered.map (·.frame) ++ (if f.kind.delivers then [f] else []) ∧
    (frameStep sh pf loc s f).acks = s.acks ++ (if f.kind = .heartbeat then [f.id] else []) := by
  cases hk : f.kind <;> simp only [frameStep, hk, Kind.delivers] <;> split <;> simp

theorem dispatch_delivered (sh : Shape) (pf : Bool) (loc : Nat) (fs : List Frame) (s : St) :
    (fs.foldl (frameStep sh pf loc) s).delivered.map (·.frame) = s.delivered.map (·.frame) ++ fs.filter (·.kind.delivers) ∧
    (fs.foldl (frameStep sh pf loc) s).acks = s.acks ++ (fs.filter (·.kind = .heartbeat)).map (·.id) := by
  induction fs generalizing s with
  | nil => simp
  | cons f fs ih =>
    have h1 := step_delivered sh pf loc s f
    have h2 := ih (frameStep sh pf loc s f)
    simp only [List.foldl_cons]
    rw [h2.1, h2.2, h1.1, h1.2]
    constructor
    · by_cases hd : f.kind.delivers <;> simp [hd]
    · by_cases hd : f.kind = .heartbeat <;> simp [hd]

theorem run_delivered (sh : Shape) (pf : Bool) (calls : List (List Frame)) :
    (run sh pf calls).delivered.map (·.frame) = calls.flatten.filter (·.kind.delivers) ∧
    (run sh pf calls).acks = (calls.flatten.filter (·.kind = .heartbeat)).map (·.id) := by
  have key : ∀ (s : St),
      (calls.foldl (dispatch sh pf) s).delivered.map (·.frame) = s.delivered.map (·.frame) ++ calls.flatten.filter (·.kind.delivers) ∧
      (calls.foldl (dispatch sh pf) s).acks = s.acks ++ (calls.flatten.filter (·.kind = .heartbeat)).map (·.id) := by
    induction calls with
    | nil => intro s; simp
    | cons c cs ih =>
      intro s
      have h1 := dispatch_delivered sh pf s.cur c s
      have h2 := ih (dispatch sh pf s c)
      simp only [List.foldl_cons]
      rw [h2.1, h2.2]
      unfold dispatch
      rw [h1.1, h1.2]
      simp [List.filter_append, List.append_assoc]
  have := key init
  simpa [run, init] using this

theorem views_eq {sh : Shape} (h : sh.perFrame) (pf : Bool) (calls : List (List Frame)) :
    views sh pf (run sh pf calls) = (calls.flatten.filter (·.kind.delivers)).map own := by
  have hi := inv_run h pf calls
  have hd := (run_delivered sh pf calls).1
  rw [← hd, views, List.map_map]
  apply List.map_congr_left
  intro d hd'
  exact (hi.del d hd').2

theorem views_of_inv {sh : Shape} {pf : Bool} {s : St} (hi : Inv sh pf s) :
    views sh pf s = (s.delivered.map (·.frame)).map own := by
  rw [views, List.map_map]
  apply List.map_congr_left
  intro d hd
  exact (hi.del d hd).2

theorem runA_eq {sh : Shape} (h : sh.perFrame) (pf : Bool) (calls : List (List Frame)) (s : St) (acc : List Seen)
    (hi : Inv sh pf s) (hacc : acc = (s.delivered.map (·.frame)).map own) :
    (runA sh pf s acc calls).1 = calls.foldl (dispatch sh pf) s ∧
    (runA sh pf s acc calls).2 = ((calls.foldl (dispatch sh pf) s).delivered.map (·.frame)).map own := by
  induction calls generalizing s acc with
  | nil => exact ⟨rfl, hacc⟩
  | cons c cs ih =>
    have hi' : Inv sh pf (dispatch sh pf s c) := inv_dispatch h pf c s.cur s hi
    have hd := (dispatch_delivered sh pf s.cur c s).1
    simp only [runA, List.foldl_cons]
    apply ih _ _ hi'
    rw [views_of_inv hi']
    unfold dispatch
    rw [hd, hacc, List.map_append]
    simp

/-- an element's first index identifies it among the members of the list -/
theorem idxOf_inj {l : List Nat} {a b : Nat} (ha : a ∈ l) (hb : b ∈ l) (h : l.idxOf a = l.idxOf b) : a = b := by
  have h1 := List.getElem_idxOf (List.idxOf_lt_length_of_mem ha)
  have h2 := List.getElem_idxOf (List.idxOf_lt_length_of_mem hb)
  rw [← h1, ← h2]
  simp [h]

theorem classes_nodup {sh : Shape} {pf : Bool} {s : St} (hi : Inv sh pf s) : (deliveredClasses s).Nodup := by
  have : deliveredClasses s = (s.delivered.map (·.ctx)).map (fun c => s.decoded.idxOf c) := by
    simp [deliveredClasses, List.map_map, Function.comp_def]
  rw [this]
  unfold List.Nodup
  rw [List.pairwise_map]
  refine List.Pairwise.imp_of_mem ?_ hi.ndd
  intro a b ha hb hne hab
  obtain ⟨d, hd, rfl⟩ := List.mem_map.mp ha
  obtain ⟨e, he, rfl⟩ := List.mem_map.mp hb
  exact hne (idxOf_inj (hi.mem d hd) (hi.mem e he) hab)

end MosnVerif.Model.DispatchCtx
