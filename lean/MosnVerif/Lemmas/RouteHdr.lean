import MosnVerif.Model.Route
/-!
# C04: the regenerated header-matcher constructors in closed form, and the header-map lookups (core Lean only)

`Gen.Route.newKeyValueData`, `createCommonHeaderMatcher`, `createHTTPHeaderMatcher`, `newBaseHTTPRouteRule`,
`createRPCRule`, `matchRoute` are regenerated from pkg/router/{configutility,http_rule,rpc_rule}.go.  The closed forms
below say what the theorems need of them: **the configured header name reaches the matcher verbatim** (both
constructors), a regex matcher that does not compile is dropped, `method` entries of an HTTP rule become one
request-variable matcher (last one wins), no constructor installs a query-parameter matcher.  A source change that
normalises the name in one constructor (or at lookup time) changes the regenerated text and these proofs stop checking.
-/
namespace MosnVerif.Model.Route
open MosnVerif.Gen.Route

/-! ## the constructors -/

/-- closed form of `NewKeyValueData`: name and value verbatim; `none` for a regex matcher that does not compile -/
def newKV (h : HeaderCfg) : Option KeyValueData :=
  if h.regex then
    if h.rx.ok then some ⟨h.name, ⟨h.value, true, some h.rx.id⟩⟩ else none
  else some ⟨h.name, ⟨h.value, false, none⟩⟩

theorem gen_newKeyValueData (h : HeaderCfg) : newKeyValueData h = newKV h := by
  obtain ⟨name, value, regex, ⟨id, ok⟩⟩ := h
  have hd : (default : StringMatch).RegexPattern = none := rfl
  cases regex <;> cases ok <;> simp [newKeyValueData, newKV, HeaderCfg.compile, hd]

theorem gen_newKeyValueData' : newKeyValueData = newKV := funext gen_newKeyValueData

/-- the name a built matcher looks up is the configured name, byte for byte -/
theorem newKV_name {h : HeaderCfg} {kv : KeyValueData} (hk : newKV h = some kv) : kv.Name = h.name := by
  unfold newKV at hk
  split at hk
  · split at hk
    · injection hk with hk; rw [← hk]
    · cases hk
  · injection hk with hk; rw [← hk]

theorem gen_createCommon_aux : ∀ (hs : List HeaderCfg) (acc : List KeyValueData),
    forRangeS hs (fun header s3 next2 =>
      let hm := s3
      let opt4 := (newKeyValueData header)
      let kv := opt4.getD default
      let err : Option Unit := (if opt4.isSome then none else some ())
      if (Option.isNone err) then (
        let hm := (hm ++ [kv])
        next2 hm)
      else (
        next2 hm)) acc (fun s3 => s3) = acc ++ hs.filterMap newKeyValueData
  | [], acc => by simp [forRangeS]
  | h :: r, acc => by
    simp only [forRangeS, List.filterMap_cons]
    cases hk : newKeyValueData h with
    | none => simpa using gen_createCommon_aux r acc
    | some kv =>
      simp only [Option.isSome_some, if_true, Option.isNone_none, Option.getD_some]
      rw [gen_createCommon_aux r (acc ++ [kv])]
      simp

/-- **`CreateCommonHeaderMatcher`** keeps the matchers `NewKeyValueData` accepts, in configuration order -/
theorem gen_createCommon (hs : List HeaderCfg) : createCommonHeaderMatcher hs = hs.filterMap newKV := by
  have := gen_createCommon_aux hs []
  have hd : (default : List KeyValueData) = [] := rfl
  rw [← gen_newKeyValueData']
  simpa [createCommonHeaderMatcher, hd] using this

/-- the `variables` map of an HTTP header matcher: at most the method variable -/
def varsOf (o : Option Str) : List (Str × Str) :=
  match o with
  | none => []
  | some m => [(varMethod, m)]

theorem mapSet_varsOf (o : Option Str) (v : Str) : mapSet (varsOf o) varMethod v = varsOf (some v) := by
  cases o <;> simp [varsOf, mapSet]

theorem gen_createHttp_aux : ∀ (hs : List HeaderCfg) (o : Option Str) (H : List KeyValueData),
    forRangeS hs (fun header s3 next2 =>
      let matcher := s3
      if (decide (header.name = ['m', 'e', 't', 'h', 'o', 'd'])) then (
        let matcher := { matcher with variables := (mapSet matcher.variables varMethod header.value) }
        next2 matcher)
      else (
        let opt4 := (newKeyValueData header)
        let kv := opt4.getD default
        let err : Option Unit := (if opt4.isSome then none else some ())
        if (Option.isNone err) then (
          let matcher := { matcher with headers := (matcher.headers ++ [kv]) }
          next2 matcher)
        else (
          next2 matcher))) (⟨varsOf o, H⟩ : HttpHeaderMatcher) (fun s3 => s3) =
      ⟨varsOf (match Spec.methodOf hs with | some m => some m | none => o),
       H ++ (hs.filter (fun h => decide (h.name ≠ methodName))).filterMap newKeyValueData⟩
  | [], o, H => by simp [forRangeS, Spec.methodOf]
  | h :: r, o, H => by
    simp only [forRangeS]
    by_cases hm : h.name = ['m', 'e', 't', 'h', 'o', 'd']
    · simp only [hm, decide_true, if_true, mapSet_varsOf]
      rw [gen_createHttp_aux r (some h.value) H]
      simp only [Spec.methodOf, hm, if_true, List.filter_cons, ne_eq, methodName, not_true_eq_false, decide_false,
        Bool.false_eq_true, if_false]
      cases Spec.methodOf r <;> rfl
    · simp only [hm, decide_false, Bool.false_eq_true, if_false]
      cases hk : newKeyValueData h with
      | none =>
        simp only [Option.isSome_none, Bool.false_eq_true, if_false, Option.isNone_some]
        rw [gen_createHttp_aux r o H]
        simp only [Spec.methodOf, hm, if_false, List.filter_cons, ne_eq, methodName, not_false_eq_true, decide_true,
          if_true, List.filterMap_cons, hk]
        cases Spec.methodOf r <;> rfl
      | some kv =>
        simp only [Option.isSome_some, if_true, Option.isNone_none, Option.getD_some]
        rw [gen_createHttp_aux r o (H ++ [kv])]
        simp only [Spec.methodOf, hm, if_false, List.filter_cons, ne_eq, methodName, not_false_eq_true, decide_true,
          if_true, List.filterMap_cons, hk, List.append_assoc, List.singleton_append]
        cases Spec.methodOf r <;> rfl

/-- **`CreateHTTPHeaderMatcher`**: the last `method` entry becomes the method-variable matcher, every other entry that
`NewKeyValueData` accepts is kept, in configuration order, under its configured name -/
theorem gen_createHttp (hs : List HeaderCfg) :
    createHTTPHeaderMatcher hs =
      ⟨varsOf (Spec.methodOf hs), (hs.filter (fun h => decide (h.name ≠ methodName))).filterMap newKV⟩ := by
  have := gen_createHttp_aux hs none []
  have hd1 : (default : List KeyValueData) = [] := rfl
  have hd2 : (default : List (Str × Str)) = [] := rfl
  have hv : varsOf none = [] := rfl
  have hm : (match Spec.methodOf hs with | some m => some m | none => none) = Spec.methodOf hs := by
    cases Spec.methodOf hs <;> rfl
  rw [hm] at this
  rw [← gen_newKeyValueData']
  simpa [createHTTPHeaderMatcher, hd1, hd2, hv] using this

/-- **`NewBaseHTTPRouteRule`** uses `CreateHTTPHeaderMatcher` and installs no query-parameter matcher -/
theorem gen_newBaseHTTP (hs : List HeaderCfg) :
    newBaseHTTPRouteRule hs = ⟨(), createHTTPHeaderMatcher hs, none⟩ := rfl

/-- the legacy fast-match value of an RPC rule: the value of a lone exact `service` matcher -/
def fastOf (hs : List HeaderCfg) : Str :=
  match hs with
  | [h] => if h.name = rpcRouteMatchKey ∧ h.regex = false then h.value else []
  | _ => []

/-- **`CreateRPCRule`** uses `CreateCommonHeaderMatcher`; the fast match is set for a lone exact `service` matcher -/
theorem gen_createRpc (hs : List HeaderCfg) :
    createRPCRule hs = ⟨(), hs.filterMap newKV, fastOf hs⟩ := by
  unfold createRPCRule fastOf
  simp only [gen_createCommon]
  match hs with
  | [] => rfl
  | [h] =>
    by_cases hn : h.name = rpcRouteMatchKey <;> cases hr : h.regex <;>
      simp [listLen, listAt0, hn, hr] <;> rfl
  | a :: b :: r =>
    have hl : ¬ (listLen (a :: b :: r) = 1) := by simp [listLen]; omega
    simp [hl]
    rfl

/-- with no query-parameter matcher installed, `matchRoute` is the header matcher -/
theorem matchRoute_none (rx : RxOracle) (pq : Str → List (Str × Str)) (ctx hdr : Str → Option Str)
    (hm : HttpHeaderMatcher) : matchRoute rx pq ctx hdr ⟨(), hm, none⟩ = httpMatches rx ctx hdr hm := by
  unfold matchRoute
  cases httpMatches rx ctx hdr hm <;> simp

/-! ## the header maps -/

theorem getExact_eq : ∀ (l : List (Str × Str)) (k : Str),
    getExact l k = (l.find? (fun kv => decide (kv.1 = k))).map (·.2)
  | [], _ => rfl
  | (k', v) :: r, k => by
    simp only [getExact, List.find?_cons]
    by_cases h : k' = k
    · simp [h]
    · simp [h, getExact_eq r k]

theorem getFold_eq : ∀ (l : List (Str × Str)) (k : Str),
    getFold l k = (l.find? (fun kv => decide (lower kv.1 = lower k))).map (·.2)
  | [], _ => rfl
  | (k', v) :: r, k => by
    simp only [getFold, List.find?_cons, equalFold]
    by_cases h : lower k' = lower k
    · simp [h]
    · simp [h, getFold_eq r k]

/-- **the model of `headers.Get` is the documented name rule** (`Spec.hdrValue`) for every map kind -/
theorem hdr_spec (req : Req) (name : Str) : req.hdr name = Spec.hdrValue req name := by
  unfold Req.hdr Spec.hdrValue
  cases req.kind with
  | exact => exact getExact_eq _ _
  | fold => exact getFold_eq _ _
  | h2 =>
    simp only [getExact_eq, getFold_eq]
    by_cases hc : name.head? = some ':'
    · simp [hc]
    · simp only [hc, if_false]
      cases (req.hdrs.find? (fun kv => decide (lower kv.1 = lower name))) with
      | none => rfl
      | some kv => by_cases hv : kv.2 = [] <;> simp [Option.filter, hv]

end MosnVerif.Model.Route
