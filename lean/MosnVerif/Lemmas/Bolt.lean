import MosnVerif.Model.BoltV2
import MosnVerif.Model.BoltRef
import MosnVerif.Lemmas.Bytes
import MosnVerif.Lemmas.BoltHeader
/-! lemmas about the bolt-family codec model (core only) -/
namespace MosnVerif.Model.Bolt
open MosnVerif.Model MosnVerif.Model.Bytes

/-- the response decoders are only ever entered with `oneway = false` -/
def owOK (id : KindId) (ow : Bool) : Prop :=
  match id with
  | .v1resp | .v2resp => ow = false
  | _ => True

/-- the fixed fields a decoder of kind `id` can produce (`oneway` = how the protocol switch entered the decoder) -/
def metaWF (id : KindId) (m : Meta) (ow : Bool) : Prop :=
  owOK id ow ∧ m.cmdCode < 65536 ∧ m.version < 256 ∧ m.reqId < 4294967296 ∧ m.codec < 256 ∧
  match id with
  | .v1req => m.proto = 1 ∧ m.cmdType = (if ow then 2 else 1) ∧ m.timeout < 4294967296 ∧ m.status = 0 ∧ m.ver1 = 0 ∧ m.switchCode = 0
  | .v1resp => m.proto = 1 ∧ m.cmdType = 0 ∧ m.timeout = 0 ∧ m.status < 65536 ∧ m.ver1 = 0 ∧ m.switchCode = 0
  | .v2req => m.proto = 2 ∧ m.cmdType = (if ow then 2 else 1) ∧ m.timeout < 4294967296 ∧ m.status = 0 ∧ m.ver1 < 256 ∧ m.switchCode < 256
  | .v2resp => m.proto = 2 ∧ m.cmdType = 0 ∧ m.timeout = 0 ∧ m.status < 65536 ∧ m.ver1 < 256 ∧ m.switchCode < 256

/-- what the generic proofs need to know about a frame kind -/
structure KindOK (K : Kind) : Prop where
  frameLen_eq : ∀ c h n, K.frameLen c h n = K.hdrLen + c + h + n
  headerIndex_eq : ∀ c, K.headerIndex c = K.hdrLen + c
  contentIndex_eq : ∀ hi h, K.contentIndex hi h = hi + h
  id_in_hdr : K.idIdx + K.idWidth ≤ K.hdrLen
  idWidth_eq : K.idWidth = 4
  meta_len : ∀ m c h n, (K.encodeMeta m c h n).length = K.hdrLen
  cls_rd : ∀ m c h n rest, c < 65536 → getBE (K.encodeMeta m c h n ++ rest) K.cls.1 K.cls.2 = c
  hdr_rd : ∀ m c h n rest, h < 65536 → getBE (K.encodeMeta m c h n ++ rest) K.hdr.1 K.hdr.2 = h
  cnt_rd : ∀ m c h n rest, n < 4294967296 → getBE (K.encodeMeta m c h n ++ rest) K.cnt.1 K.cnt.2 = n
  meta_rt : ∀ m c h n rest ow, metaWF K.id m ow → K.decodeMeta (K.encodeMeta m c h n ++ rest) ow = m
  meta_wf : ∀ b ow, owOK K.id ow → metaWF K.id (K.decodeMeta b ow) ow

/-! ### the four kinds satisfy `KindOK` (literal reference kinds; the regenerated kinds are equal to them) -/

theorem getBE_one_lt (b : Bytes) (i : Nat) : getBE b i (i + 1) < 256 := by
  have := getBE_lt b i (i + 1); simpa using this

private theorem be1 (n : Nat) (h : n < 256) : toNat (be 1 n) = n := by rw [toNat_be]; omega
private theorem be2 (n : Nat) (h : n < 65536) : toNat (be 2 n) = n := by rw [toNat_be]; omega
private theorem be4 (n : Nat) (h : n < 4294967296) : toNat (be 4 n) = n := by rw [toNat_be]; omega

theorem ok_v1req : KindOK Ref.v1req where
  frameLen_eq := by intros; rfl
  headerIndex_eq := by intros; rfl
  contentIndex_eq := by intros; rfl
  id_in_hdr := by decide
  idWidth_eq := rfl
  meta_len := by intros; simp [Ref.v1req]
  cls_rd := by
    intro m c h n rest hc
    have : slice (Ref.v1req.encodeMeta m c h n ++ rest) 14 16 = be 2 c := by simp [Ref.v1req, be, slice]
    show toNat (slice _ 14 16) = c
    rw [this, be2 c hc]
  hdr_rd := by
    intro m c h n rest hc
    have : slice (Ref.v1req.encodeMeta m c h n ++ rest) 16 18 = be 2 h := by simp [Ref.v1req, be, slice]
    show toNat (slice _ 16 18) = h
    rw [this, be2 h hc]
  cnt_rd := by
    intro m c h n rest hc
    have : slice (Ref.v1req.encodeMeta m c h n ++ rest) 18 22 = be 4 n := by simp [Ref.v1req, be, slice]
    show toNat (slice _ 18 22) = n
    rw [this, be4 n hc]
  meta_rt := by
    intro m c h n rest ow hw
    obtain ⟨_, h1, h2, h3, h4, h5, h6, h7, h8, h9, h10⟩ := hw
    have e1 : slice (Ref.v1req.encodeMeta m c h n ++ rest) 2 4 = be 2 m.cmdCode := by simp [Ref.v1req, be, slice]
    have e2 : slice (Ref.v1req.encodeMeta m c h n ++ rest) 4 5 = be 1 m.version := by simp [Ref.v1req, be, slice]
    have e3 : slice (Ref.v1req.encodeMeta m c h n ++ rest) 5 9 = be 4 m.reqId := by simp [Ref.v1req, be, slice]
    have e4 : slice (Ref.v1req.encodeMeta m c h n ++ rest) 9 10 = be 1 m.codec := by simp [Ref.v1req, be, slice]
    have e5 : slice (Ref.v1req.encodeMeta m c h n ++ rest) 10 14 = be 4 m.timeout := by simp [Ref.v1req, be, slice]
    show ({ proto := 1, cmdType := if ow then 2 else 1, cmdCode := toNat (slice _ 2 4), version := toNat (slice _ 4 5),
            reqId := toNat (slice _ 5 9), codec := toNat (slice _ 9 10), timeout := toNat (slice _ 10 14) } : Meta) = m
    rw [e1, e2, e3, e4, e5, be2 _ h1, be1 _ h2, be4 _ h3, be1 _ h4, be4 _ h7]
    cases m; simp_all
  meta_wf := by
    intro b ow ho
    refine ⟨ho, getBE_lt b 2 4, getBE_one_lt b 4, getBE_lt b 5 9, getBE_one_lt b 9, rfl, rfl, getBE_lt b 10 14, rfl, rfl, rfl⟩

theorem ok_v1resp : KindOK Ref.v1resp where
  frameLen_eq := by intros; rfl
  headerIndex_eq := by intros; rfl
  contentIndex_eq := by intros; rfl
  id_in_hdr := by decide
  idWidth_eq := rfl
  meta_len := by intros; simp [Ref.v1resp]
  cls_rd := by
    intro m c h n rest hc
    have : slice (Ref.v1resp.encodeMeta m c h n ++ rest) 12 14 = be 2 c := by simp [Ref.v1resp, be, slice]
    show toNat (slice _ 12 14) = c
    rw [this, be2 c hc]
  hdr_rd := by
    intro m c h n rest hc
    have : slice (Ref.v1resp.encodeMeta m c h n ++ rest) 14 16 = be 2 h := by simp [Ref.v1resp, be, slice]
    show toNat (slice _ 14 16) = h
    rw [this, be2 h hc]
  cnt_rd := by
    intro m c h n rest hc
    have : slice (Ref.v1resp.encodeMeta m c h n ++ rest) 16 20 = be 4 n := by simp [Ref.v1resp, be, slice]
    show toNat (slice _ 16 20) = n
    rw [this, be4 n hc]
  meta_rt := by
    intro m c h n rest ow hw
    obtain ⟨_, h1, h2, h3, h4, h5, h6, h7, h8, h9, h10⟩ := hw
    have e1 : slice (Ref.v1resp.encodeMeta m c h n ++ rest) 2 4 = be 2 m.cmdCode := by simp [Ref.v1resp, be, slice]
    have e2 : slice (Ref.v1resp.encodeMeta m c h n ++ rest) 4 5 = be 1 m.version := by simp [Ref.v1resp, be, slice]
    have e3 : slice (Ref.v1resp.encodeMeta m c h n ++ rest) 5 9 = be 4 m.reqId := by simp [Ref.v1resp, be, slice]
    have e4 : slice (Ref.v1resp.encodeMeta m c h n ++ rest) 9 10 = be 1 m.codec := by simp [Ref.v1resp, be, slice]
    have e5 : slice (Ref.v1resp.encodeMeta m c h n ++ rest) 10 12 = be 2 m.status := by simp [Ref.v1resp, be, slice]
    show ({ proto := 1, cmdType := 0, cmdCode := toNat (slice _ 2 4), version := toNat (slice _ 4 5), reqId := toNat (slice _ 5 9), codec := toNat (slice _ 9 10), status := toNat (slice _ 10 12) } : Meta) = m
    rw [e1, e2, e3, e4, e5, be2 _ h1, be1 _ h2, be4 _ h3, be1 _ h4, be2 _ h8]
    cases m; simp_all
  meta_wf := by
    intro b ow ho
    refine ⟨ho, getBE_lt b 2 4, getBE_one_lt b 4, getBE_lt b 5 9, getBE_one_lt b 9, rfl, rfl, rfl, getBE_lt b 10 12, rfl, rfl⟩

theorem ok_v2req : KindOK Ref.v2req where
  frameLen_eq := by intros; rfl
  headerIndex_eq := by intros; rfl
  contentIndex_eq := by intros; rfl
  id_in_hdr := by decide
  idWidth_eq := rfl
  meta_len := by intros; simp [Ref.v2req]
  cls_rd := by
    intro m c h n rest hc
    have : slice (Ref.v2req.encodeMeta m c h n ++ rest) 16 18 = be 2 c := by simp [Ref.v2req, be, slice]
    show toNat (slice _ 16 18) = c
    rw [this, be2 c hc]
  hdr_rd := by
    intro m c h n rest hc
    have : slice (Ref.v2req.encodeMeta m c h n ++ rest) 18 20 = be 2 h := by simp [Ref.v2req, be, slice]
    show toNat (slice _ 18 20) = h
    rw [this, be2 h hc]
  cnt_rd := by
    intro m c h n rest hc
    have : slice (Ref.v2req.encodeMeta m c h n ++ rest) 20 24 = be 4 n := by simp [Ref.v2req, be, slice]
    show toNat (slice _ 20 24) = n
    rw [this, be4 n hc]
  meta_rt := by
    intro m c h n rest ow hw
    obtain ⟨_, h1, h2, h3, h4, h5, h6, h7, h8, h9, h10⟩ := hw
    have e1 : slice (Ref.v2req.encodeMeta m c h n ++ rest) 3 5 = be 2 m.cmdCode := by simp [Ref.v2req, be, slice]
    have e2 : slice (Ref.v2req.encodeMeta m c h n ++ rest) 5 6 = be 1 m.version := by simp [Ref.v2req, be, slice]
    have e3 : slice (Ref.v2req.encodeMeta m c h n ++ rest) 6 10 = be 4 m.reqId := by simp [Ref.v2req, be, slice]
    have e4 : slice (Ref.v2req.encodeMeta m c h n ++ rest) 10 11 = be 1 m.codec := by simp [Ref.v2req, be, slice]
    have e5 : slice (Ref.v2req.encodeMeta m c h n ++ rest) 12 16 = be 4 m.timeout := by simp [Ref.v2req, be, slice]
    have e6 : slice (Ref.v2req.encodeMeta m c h n ++ rest) 1 2 = be 1 m.ver1 := by simp [Ref.v2req, be, slice]
    have e7 : slice (Ref.v2req.encodeMeta m c h n ++ rest) 11 12 = be 1 m.switchCode := by simp [Ref.v2req, be, slice]
    show ({ proto := 2, cmdType := if ow then 2 else 1, cmdCode := toNat (slice _ 3 5), version := toNat (slice _ 5 6), reqId := toNat (slice _ 6 10), codec := toNat (slice _ 10 11), timeout := toNat (slice _ 12 16), ver1 := toNat (slice _ 1 2), switchCode := toNat (slice _ 11 12) } : Meta) = m
    rw [e1, e2, e3, e4, e5, e6, e7, be2 _ h1, be1 _ h2, be4 _ h3, be1 _ h4, be4 _ h7, be1 _ h9, be1 _ h10]
    cases m; simp_all
  meta_wf := by
    intro b ow ho
    refine ⟨ho, getBE_lt b 3 5, getBE_one_lt b 5, getBE_lt b 6 10, getBE_one_lt b 10, rfl, rfl, getBE_lt b 12 16, rfl, getBE_one_lt b 1, getBE_one_lt b 11⟩

theorem ok_v2resp : KindOK Ref.v2resp where
  frameLen_eq := by intros; rfl
  headerIndex_eq := by intros; rfl
  contentIndex_eq := by intros; rfl
  id_in_hdr := by decide
  idWidth_eq := rfl
  meta_len := by intros; simp [Ref.v2resp]
  cls_rd := by
    intro m c h n rest hc
    have : slice (Ref.v2resp.encodeMeta m c h n ++ rest) 14 16 = be 2 c := by simp [Ref.v2resp, be, slice]
    show toNat (slice _ 14 16) = c
    rw [this, be2 c hc]
  hdr_rd := by
    intro m c h n rest hc
    have : slice (Ref.v2resp.encodeMeta m c h n ++ rest) 16 18 = be 2 h := by simp [Ref.v2resp, be, slice]
    show toNat (slice _ 16 18) = h
    rw [this, be2 h hc]
  cnt_rd := by
    intro m c h n rest hc
    have : slice (Ref.v2resp.encodeMeta m c h n ++ rest) 18 22 = be 4 n := by simp [Ref.v2resp, be, slice]
    show toNat (slice _ 18 22) = n
    rw [this, be4 n hc]
  meta_rt := by
    intro m c h n rest ow hw
    obtain ⟨_, h1, h2, h3, h4, h5, h6, h7, h8, h9, h10⟩ := hw
    have e1 : slice (Ref.v2resp.encodeMeta m c h n ++ rest) 3 5 = be 2 m.cmdCode := by simp [Ref.v2resp, be, slice]
    have e2 : slice (Ref.v2resp.encodeMeta m c h n ++ rest) 5 6 = be 1 m.version := by simp [Ref.v2resp, be, slice]
    have e3 : slice (Ref.v2resp.encodeMeta m c h n ++ rest) 6 10 = be 4 m.reqId := by simp [Ref.v2resp, be, slice]
    have e4 : slice (Ref.v2resp.encodeMeta m c h n ++ rest) 10 11 = be 1 m.codec := by simp [Ref.v2resp, be, slice]
    have e5 : slice (Ref.v2resp.encodeMeta m c h n ++ rest) 12 14 = be 2 m.status := by simp [Ref.v2resp, be, slice]
    have e6 : slice (Ref.v2resp.encodeMeta m c h n ++ rest) 1 2 = be 1 m.ver1 := by simp [Ref.v2resp, be, slice]
    have e7 : slice (Ref.v2resp.encodeMeta m c h n ++ rest) 11 12 = be 1 m.switchCode := by simp [Ref.v2resp, be, slice]
    show ({ proto := 2, cmdType := 0, cmdCode := toNat (slice _ 3 5), version := toNat (slice _ 5 6), reqId := toNat (slice _ 6 10), codec := toNat (slice _ 10 11), status := toNat (slice _ 12 14), ver1 := toNat (slice _ 1 2), switchCode := toNat (slice _ 11 12) } : Meta) = m
    rw [e1, e2, e3, e4, e5, e6, e7, be2 _ h1, be1 _ h2, be4 _ h3, be1 _ h4, be2 _ h8, be1 _ h9, be1 _ h10]
    cases m; simp_all
  meta_wf := by
    intro b ow ho
    refine ⟨ho, getBE_lt b 3 5, getBE_one_lt b 5, getBE_lt b 6 10, getBE_one_lt b 10, rfl, rfl, rfl, getBE_lt b 12 14, getBE_one_lt b 1, getBE_one_lt b 11⟩

/-- the regenerated kinds are the reference kinds: every offset, width and the field order of the writers agree -/
theorem v1req_eq : V1.req = Ref.v1req := rfl
theorem v1resp_eq : V1.resp = Ref.v1resp := rfl
theorem v2req_eq : V2.req = Ref.v2req := rfl
theorem v2resp_eq : V2.resp = Ref.v2resp := rfl

theorem kindOf_eq (id : KindId) : kindOf id = Ref.kindOf id := by
  cases id <;> rfl

theorem kindOf_ok (id : KindId) : KindOK (kindOf id) := by
  rw [kindOf_eq]; cases id
  · exact ok_v1req
  · exact ok_v1resp
  · exact ok_v2req
  · exact ok_v2resp

theorem kindOf_id (id : KindId) : (kindOf id).id = id := by cases id <;> rfl

end MosnVerif.Model.Bolt
