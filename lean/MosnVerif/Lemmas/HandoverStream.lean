import MosnVerif.Model.HandoverStream
/-! Invariant of `Model/HandoverStream` for the step lists the source has. -/
namespace MosnVerif.Model.HandoverStream
open MosnVerif.Gen.HandoverLock

def realW : List WStep := [.lock, .check, .append, .io, .unlock]
def realH : List HStep := [.lock, .setMark, .unlock, .sendFd]

def headOk (l : List Entry) : Prop := match l.head? with | none => True | some p => complete p = true

structure Inv (s : St) : Prop where
  L : ∀ w, s.ocur = some w → 1 ≤ s.opc → s.opc ≤ 4 → s.lockBy = some .w
  Hh : (s.hpc = 1 ∨ s.hpc = 2) → s.lockBy = some .h
  J : s.mark = true → ∀ w, s.ocur = some w → ¬ (s.opc = 2 ∨ s.opc = 3)
  G : 2 ≤ s.hpc → s.mark = true
  F : s.fdSent = true → s.mark = true
  F3 : s.hpc ≤ 3 → s.fdSent = false
  N0 : s.fdSent = false → s.nidx = 0 ∧ allOld s.rsock = true
  O0 : 0 < s.oidx → ∃ w, s.ocur = some w ∧ s.opc = 3 ∧ s.oidx < w.k
  N1 : 0 < s.nidx → ∃ w, s.ncur = some w ∧ s.nidx < w.k
  C1 : ∀ w, s.ocur = some w → 0 < s.oidx → s.rsock.head? = some ⟨.old, w.id, s.oidx - 1, w.k⟩
  C2 : ∀ w, s.ncur = some w → 0 < s.nidx → s.rsock.head? = some ⟨.new, w.id, s.nidx - 1, w.k⟩
  C3 : s.oidx = 0 → s.nidx = 0 → headOk s.rsock
  Wl : wellR s.rsock = true
  Q : sortedR s.rsock = true

theorem inv_init (ws news : List Wr) : Inv (init ws news) := by
  constructor <;> simp [init, headOk, wellR, sortedR, allOld]

theorem realW_get (n : Nat) : realW[n]? =
    match n with | 0 => some .lock | 1 => some .check | 2 => some .append | 3 => some .io | 4 => some .unlock | _ => none := by
  rcases n with _|_|_|_|_|n <;> simp [realW]

theorem inv_stepN (s : St) (h : Inv s) : Inv (stepN s) := by
  obtain ⟨L, Hh, J, G, F, F3, N0, O0, N1, C1, C2, C3, Wl, Q⟩ := h
  unfold stepN
  split
  · exact ⟨L, Hh, J, G, F, F3, N0, O0, N1, C1, C2, C3, Wl, Q⟩
  · rename_i hfd
    have hfd : s.fdSent = true := by simpa using hfd
    have hm := F hfd
    split
    · split
      · exact ⟨L, Hh, J, G, F, F3, N0, O0, N1, C1, C2, C3, Wl, Q⟩
      · constructor <;> grind
    · constructor <;> grind [wellR, sortedR, okNext, headOk, allOld, complete]

theorem realH_get (n : Nat) : realH[n]? =
    match n with | 0 => some .lock | 1 => some .setMark | 2 => some .unlock | 3 => some .sendFd | _ => none := by
  rcases n with _|_|_|_|n <;> simp [realH]

theorem inv_stepH (s : St) (h : Inv s) : Inv (stepH realH s) := by
  obtain ⟨L, Hh, J, G, F, F3, N0, O0, N1, C1, C2, C3, Wl, Q⟩ := h
  unfold stepH
  rw [realH_get]
  rcases hp : s.hpc with _|_|_|_|n
  · simp only []
    split
    · constructor <;> grind
    · exact ⟨L, Hh, J, G, F, F3, N0, O0, N1, C1, C2, C3, Wl, Q⟩
  · simp only []
    constructor <;> grind
  · simp only []
    constructor <;> grind
  · simp only []
    constructor <;> grind
  · simp only []
    exact ⟨L, Hh, J, G, F, F3, N0, O0, N1, C1, C2, C3, Wl, Q⟩

theorem divert_real : divertTarget realW 1 = 4 := by decide

theorem inv_stepO (s : St) (h : Inv s) : Inv (stepO realW s) := by
  obtain ⟨L, Hh, J, G, F, F3, N0, O0, N1, C1, C2, C3, Wl, Q⟩ := h
  unfold stepO
  split
  · split
    · exact ⟨L, Hh, J, G, F, F3, N0, O0, N1, C1, C2, C3, Wl, Q⟩
    · constructor <;> grind
  · rename_i w hw
    rw [realW_get]
    rcases hp : s.opc with _|_|_|_|_|n
    · simp only []
      split
      · constructor <;> grind
      · exact ⟨L, Hh, J, G, F, F3, N0, O0, N1, C1, C2, C3, Wl, Q⟩
    · simp only []
      split
      · rw [divert_real]
        constructor <;> grind
      · constructor <;> grind
    · simp only []
      constructor <;> grind
    · simp only []
      have hnm : s.mark = false := by grind
      have hnf : s.fdSent = false := by grind
      have hn := N0 hnf
      split
      · split
        · constructor <;> grind [wellR, sortedR, okNext, headOk, allOld, complete]
        · constructor <;> grind [wellR, sortedR, okNext, headOk, allOld, complete]
      · constructor <;> grind
    · simp only []
      constructor <;> grind
    · simp only []
      constructor <;> grind

theorem inv_step (s : St) (e : Ev) (h : Inv s) : Inv (step realW realH s e) := by
  cases e
  · exact inv_stepO s h
  · exact inv_stepH s h
  · exact inv_stepN s h

theorem inv_run (sched : List Ev) (s : St) (h : Inv s) : Inv (run realW realH s sched) := by
  induction sched generalizing s with
  | nil => exact h
  | cons e r ih => exact ih _ (inv_step s e h)

/-! ### which of the old writer's writes went to the socket directly and which were diverted -/

/-- the write the old writer has begun and not yet classified at the mark test -/
def unclassified (s : St) : List Wr :=
  match s.ocur with
  | some w => if s.opc ≤ 1 then [w] else []
  | none => []

structure Acc (ws : List Wr) (s : St) : Prop where
  P : s.direct ++ (s.diverted ++ (unclassified s ++ s.opend)) = ws
  D : s.mark = false → s.diverted = []

theorem acc_init (ws news : List Wr) : Acc ws (init ws news) := by
  constructor <;> simp [init, unclassified]

theorem acc_stepO (ws : List Wr) (s : St) (h : Acc ws s) : Acc ws (stepO realW s) := by
  obtain ⟨P, D⟩ := h
  unfold stepO
  split
  · rename_i hc
    split
    · exact ⟨P, D⟩
    · rename_i w r hp
      constructor
      · simpa [unclassified, hc, hp] using P
      · exact D
  · rename_i w hw
    rw [realW_get]
    rcases hp : s.opc with _|_|_|_|_|n
    · simp only []
      split
      · constructor
        · simpa [unclassified, hw, hp] using P
        · exact D
      · exact ⟨P, D⟩
    · simp only []
      split
      · rw [divert_real]
        constructor
        · simpa [unclassified, hw, hp] using P
        · intro hm; simp_all
      · rename_i hm
        have hd := D (by simpa using hm)
        constructor
        · simpa [unclassified, hw, hp, hd] using P
        · exact D
    · simp only []
      constructor
      · simpa [unclassified, hw, hp] using P
      · exact D
    · simp only []
      split
      · split
        · constructor
          · simpa [unclassified, hw, hp] using P
          · exact D
        · constructor
          · simpa [unclassified, hw, hp] using P
          · exact D
      · constructor
        · simpa [unclassified, hw, hp] using P
        · exact D
    · simp only []
      constructor
      · simpa [unclassified, hw, hp] using P
      · exact D
    · simp only []
      constructor
      · simpa [unclassified, hw, hp] using P
      · exact D

theorem acc_stepH (ws : List Wr) (s : St) (h : Acc ws s) : Acc ws (stepH realH s) := by
  obtain ⟨P, D⟩ := h
  unfold stepH
  rw [realH_get]
  rcases hp : s.hpc with _|_|_|_|n <;> simp only []
  · split
    · exact ⟨by simpa [unclassified] using P, D⟩
    · exact ⟨P, D⟩
  · exact ⟨by simpa [unclassified] using P, by intro hm; simp at hm⟩
  · exact ⟨by simpa [unclassified] using P, D⟩
  · exact ⟨by simpa [unclassified] using P, D⟩
  · exact ⟨P, D⟩

theorem acc_stepN (ws : List Wr) (s : St) (h : Acc ws s) : Acc ws (stepN s) := by
  obtain ⟨P, D⟩ := h
  unfold stepN
  split
  · exact ⟨P, D⟩
  · split
    · split
      · exact ⟨P, D⟩
      · exact ⟨by simpa [unclassified] using P, D⟩
    · split
      · split
        · exact ⟨by simpa [unclassified] using P, D⟩
        · exact ⟨by simpa [unclassified] using P, D⟩
      · exact ⟨by simpa [unclassified] using P, D⟩

theorem acc_run (ws : List Wr) (sched : List Ev) (s : St) (h : Acc ws s) : Acc ws (run realW realH s sched) := by
  induction sched generalizing s with
  | nil => exact h
  | cons e r ih =>
    apply ih
    cases e
    · exact acc_stepO ws s h
    · exact acc_stepH ws s h
    · exact acc_stepN ws s h

/-- a stream without an old chunk after a new one is the new process's chunks on top of the old process's -/
theorem sortedR_split (l : List Entry) (h : sortedR l = true) :
    ∃ a b, l = a ++ b ∧ (∀ e ∈ a, e.side = .new) ∧ (∀ e ∈ b, e.side = .old) := by
  induction l with
  | nil => exact ⟨[], [], rfl, by simp, by simp⟩
  | cons e r ih =>
    simp only [sortedR, Bool.and_eq_true, Bool.or_eq_true] at h
    obtain ⟨a, b, hab, ha, hb⟩ := ih h.2
    cases hs : e.side with
    | new =>
      refine ⟨e :: a, b, by simp [hab], ?_, hb⟩
      intro x hx
      rcases List.mem_cons.mp hx with rfl | hx
      · exact hs
      · exact ha x hx
    | old =>
      have ho : allOld r = true := by
        rcases h.1 with hn | ho
        · simp [hs] at hn
        · exact ho
      refine ⟨[], e :: r, rfl, by simp, ?_⟩
      intro x hx
      rcases List.mem_cons.mp hx with rfl | hx
      · exact hs
      · simp only [allOld, List.all_eq_true] at ho
        simpa using ho x hx

end MosnVerif.Model.HandoverStream
