import MosnVerif.Lemmas.Pool
/-! C09: every pool operation reduces to one of the canonical transitions of Lemmas/Pool; the invariant holds along every run. -/
namespace MosnVerif.Model.Pool
open MosnVerif.Gen.Pool

/-! ### projections of the state updates (all by `rfl`) -/
@[simp] theorem updC_kind (s : State) (c : Nat) (f : Client → Client) : (s.updC c f).kind = s.kind := rfl
@[simp] theorem updC_maxConn (s : State) (c : Nat) (f : Client → Client) : (s.updC c f).maxConn = s.maxConn := rfl
@[simp] theorem updC_maxReq (s : State) (c : Nat) (f : Client → Client) : (s.updC c f).maxReq = s.maxReq := rfl
@[simp] theorem updC_total (s : State) (c : Nat) (f : Client → Client) : (s.updC c f).total = s.total := rfl
@[simp] theorem updC_idle (s : State) (c : Nat) (f : Client → Client) : (s.updC c f).idle = s.idle := rfl
@[simp] theorem updC_nClients (s : State) (c : Nat) (f : Client → Client) : (s.updC c f).nClients = s.nClients := rfl
@[simp] theorem updC_nStreams (s : State) (c : Nat) (f : Client → Client) : (s.updC c f).nStreams = s.nStreams := rfl
@[simp] theorem updC_stream (s : State) (c : Nat) (f : Client → Client) : (s.updC c f).stream = s.stream := rfl
@[simp] theorem updC_reqCur (s : State) (c : Nat) (f : Client → Client) : (s.updC c f).reqCur = s.reqCur := rfl
@[simp] theorem updC_ext (s : State) (c : Nat) (f : Client → Client) : (s.updC c f).ext = s.ext := rfl
@[simp] theorem updC_client (s : State) (c : Nat) (f : Client → Client) (k : Nat) : (s.updC c f).client k = if k = c then f (s.client c) else s.client k := rfl
@[simp] theorem updS_kind (s : State) (i : Nat) (f : Stream → Stream) : (s.updS i f).kind = s.kind := rfl
@[simp] theorem updS_maxConn (s : State) (i : Nat) (f : Stream → Stream) : (s.updS i f).maxConn = s.maxConn := rfl
@[simp] theorem updS_maxReq (s : State) (i : Nat) (f : Stream → Stream) : (s.updS i f).maxReq = s.maxReq := rfl
@[simp] theorem updS_total (s : State) (i : Nat) (f : Stream → Stream) : (s.updS i f).total = s.total := rfl
@[simp] theorem updS_idle (s : State) (i : Nat) (f : Stream → Stream) : (s.updS i f).idle = s.idle := rfl
@[simp] theorem updS_nClients (s : State) (i : Nat) (f : Stream → Stream) : (s.updS i f).nClients = s.nClients := rfl
@[simp] theorem updS_client (s : State) (i : Nat) (f : Stream → Stream) : (s.updS i f).client = s.client := rfl
@[simp] theorem updS_nStreams (s : State) (i : Nat) (f : Stream → Stream) : (s.updS i f).nStreams = s.nStreams := rfl
@[simp] theorem updS_reqCur (s : State) (i : Nat) (f : Stream → Stream) : (s.updS i f).reqCur = s.reqCur := rfl
@[simp] theorem updS_ext (s : State) (i : Nat) (f : Stream → Stream) : (s.updS i f).ext = s.ext := rfl
@[simp] theorem updS_stream (s : State) (i : Nat) (f : Stream → Stream) (k : Nat) : (s.updS i f).stream k = if k = i then f (s.stream i) else s.stream k := rfl
@[simp] theorem poolOnClose_kind (s : State) (c : Nat) : (poolOnClose s c).kind = s.kind := rfl
@[simp] theorem poolOnClose_maxConn (s : State) (c : Nat) : (poolOnClose s c).maxConn = s.maxConn := rfl
@[simp] theorem poolOnClose_maxReq (s : State) (c : Nat) : (poolOnClose s c).maxReq = s.maxReq := rfl
@[simp] theorem poolOnClose_nClients (s : State) (c : Nat) : (poolOnClose s c).nClients = s.nClients := rfl
@[simp] theorem poolOnClose_nStreams (s : State) (c : Nat) : (poolOnClose s c).nStreams = s.nStreams := rfl
@[simp] theorem poolOnClose_stream (s : State) (c : Nat) : (poolOnClose s c).stream = s.stream := rfl
@[simp] theorem poolOnClose_reqCur (s : State) (c : Nat) : (poolOnClose s c).reqCur = s.reqCur := rfl
@[simp] theorem poolOnClose_ext (s : State) (c : Nat) : (poolOnClose s c).ext = s.ext := rfl
@[simp] theorem poolOnClose_total (s : State) (c : Nat) : (poolOnClose s c).total = s.total + closeDelta s.kind := rfl
@[simp] theorem poolOnClose_idle (s : State) (c : Nat) : (poolOnClose s c).idle = removeIdle s.kind s.idle c := rfl
@[simp] theorem poolOnClose_client (s : State) (c k : Nat) : (poolOnClose s c).client k = if k = c then { s.client c with closed := true } else s.client k := rfl
@[simp] theorem lease_kind (s : State) (c : Nat) : (lease s c).kind = s.kind := rfl
@[simp] theorem lease_maxConn (s : State) (c : Nat) : (lease s c).maxConn = s.maxConn := rfl
@[simp] theorem lease_maxReq (s : State) (c : Nat) : (lease s c).maxReq = s.maxReq := rfl
@[simp] theorem lease_total (s : State) (c : Nat) : (lease s c).total = s.total := rfl
@[simp] theorem lease_idle (s : State) (c : Nat) : (lease s c).idle = s.idle := rfl
@[simp] theorem lease_nClients (s : State) (c : Nat) : (lease s c).nClients = s.nClients := rfl
@[simp] theorem lease_client (s : State) (c : Nat) : (lease s c).client = s.client := rfl
@[simp] theorem lease_ext (s : State) (c : Nat) : (lease s c).ext = s.ext := rfl
@[simp] theorem lease_reqCur (s : State) (c : Nat) : (lease s c).reqCur = resIncrease s.maxReq s.reqCur := rfl
@[simp] theorem lease_nStreams (s : State) (c : Nat) : (lease s c).nStreams = s.nStreams + 1 := rfl
@[simp] theorem lease_stream (s : State) (c k : Nat) : (lease s c).stream k = if k = s.nStreams then { conn := c } else s.stream k := rfl

/-! ### facts about the regenerated decisions (they pin `Gen.Pool`: a changed comparison breaks these) -/
theorem closeOnDestroy_eq (k : Kind) (a b : Bool) : closeOnDestroy k a b = (!a && b) := by cases k <;> rfl
theorem putBack_eq (k : Kind) (a : Bool) : putBack k a = !a := by cases k <;> rfl
theorem closeDelta_eq (k : Kind) : closeDelta k = -1 := by cases k <;> rfl
theorem breakerFirst_eq (k : Kind) : breakerFirst k = true := by cases k <;> rfl
theorem destroyed_ne_reset : streamStateDestroyed ≠ streamStateReset := by decide
theorem destroyProceeds_iff (x : Nat) : destroyProceeds x = true ↔ x = streamStateReset := by simp [destroyProceeds]
theorem resetProceeds_iff (x : Nat) : resetProceeds x = true ↔ x = streamStateReset := by simp [resetProceeds]
theorem destroyedState_eq : destroyedState = streamStateDestroyed := rfl
theorem markClose_local (k : Kind) : markClose k reasonStreamLocalReset false = true := by cases k <;> decide
theorem markClose_remote_h1 : markClose .h1 reasonStreamRemoteReset false = true := by decide
theorem live_iff (st : Stream) : st.live = true ↔ st.state = streamStateReset := by simp [Stream.live]
theorem not_live_iff (st : Stream) : st.live = false ↔ st.state ≠ streamStateReset := by simp [Stream.live]

theorem netDown_open (s : State) (c : Nat) (h : (s.client c).netOpen = true) :
    netDown s c = poolOnClose (s.updC c (fun cl => { cl with netOpen := false })) c := by
  simp [netDown, h]

/-- `destroyStream` of a live stream whose (open) client is marked: the connection is closed, nothing goes back -/
theorem destroyStream_close (s : State) (i c : Nat) (hl : (s.stream i).live = true) (hc : (s.stream i).conn = c)
    (hcl : (s.client c).closed = false) (hcc : (s.client c).closeConn = true) (hno : (s.client c).netOpen = true) :
    destroyStream s i = tFinishClose s i c
      { s.stream i with state := streamStateDestroyed, destroys := (s.stream i).destroys + 1 }
      { s.client c with netOpen := false, closed := true } := by
  have hst := (live_iff _).mp hl
  simp only [destroyStream, destroyProceeds_iff, destroyedState_eq, hst, if_true, hc, onStreamDestroy, closeOnDestroy_eq, putBack_eq, updS_client, updS_kind, hcl, hcc]
  rw [netDown_open _ _ (by simpa using hno)]
  simp [tFinishClose, closeDelta_eq, poolOnClose, State.updC, State.updS]
  refine ⟨by omega, ?_, ?_⟩
  · funext k; by_cases hk : k = c <;> simp [hk, hcc]
  · funext k; by_cases hk : k = i <;> simp [hk, hc]

theorem destroyStream_put (s : State) (i c : Nat) (hl : (s.stream i).live = true) (hc : (s.stream i).conn = c)
    (hcl : (s.client c).closed = false) (hcc : (s.client c).closeConn = false) :
    destroyStream s i = tFinishPut s i c
      { s.stream i with state := streamStateDestroyed, destroys := (s.stream i).destroys + 1 } := by
  have hst := (live_iff _).mp hl
  simp [destroyStream, destroyProceeds_iff, destroyedState_eq, hst, hc, onStreamDestroy, closeOnDestroy_eq, putBack_eq, hcl, hcc, tFinishPut, State.updS]

theorem destroyStream_dead (s : State) (i : Nat) (hl : (s.stream i).live = false) : destroyStream s i = s := by
  have := (not_live_iff _).mp hl
  simp [destroyStream, destroyProceeds_iff, this]

theorem resetStream_dead (s : State) (i : Nat) (r : String) (hl : (s.stream i).live = false) : resetStream s i r = s := by
  have := (not_live_iff _).mp hl
  simp [resetStream, resetProceeds_iff, this]

theorem onStreamDestroy_closed (s : State) (c : Nat) (hcl : (s.client c).closed = true) :
    onStreamDestroy s c = { s with reqCur := resDecrease s.maxReq s.reqCur } := by
  simp [onStreamDestroy, closeOnDestroy_eq, putBack_eq, hcl]

/-- local / remote reset of a live stream on an open client: the client is marked and closed on destroy -/
theorem resetStream_close (s : State) (i c : Nat) (r : String) (hl : (s.stream i).live = true) (hc : (s.stream i).conn = c)
    (hcl : (s.client c).closed = false) (hno : (s.client c).netOpen = true) (hm : markClose s.kind r false = true) :
    resetStream s i r = tFinishClose s i c
      { s.stream i with resets := (s.stream i).resets ++ [r], state := streamStateDestroyed, destroys := (s.stream i).destroys + 1 }
      { s.client c with cwar := (s.client c).cwar || markCwar s.kind r, closeConn := true, dirty := true,
                        netOpen := false, closed := true } := by
  have hst := (live_iff _).mp hl
  simp only [resetStream, resetProceeds_iff, hst, if_true, hc]
  rw [destroyStream_close _ i c (by simp [Stream.live, hst]) (by simp [hc]) (by simp [hcl]) (by simp [hcl, hm]) (by simp [hno])]
  simp [tFinishClose, State.updC, State.updS, hcl, hm]
  refine ⟨?_, ?_⟩
  · funext k; by_cases hk : k = c <;> simp [hk]
  · funext k; by_cases hk : k = i <;> simp [hk, hc]

/-- the connection of a leased client goes away: pool event first, then the in-flight stream is reset -/
theorem netDown_reset (s : State) (i c : Nat) (r : String) (hl : (s.stream i).live = true) (hc : (s.stream i).conn = c)
    (hno : (s.client c).netOpen = true) :
    resetStream (netDown s c) i r = tFinishClose s i c
      { s.stream i with resets := (s.stream i).resets ++ [r], state := streamStateDestroyed, destroys := (s.stream i).destroys + 1 }
      { s.client c with cwar := (s.client c).cwar || markCwar s.kind r,
                        closeConn := (s.client c).closeConn || markClose s.kind r true, dirty := true,
                        netOpen := false, closed := true } := by
  have hst := (live_iff _).mp hl
  rw [netDown_open s c hno]
  simp only [resetStream, resetProceeds_iff, destroyProceeds_iff, destroyedState_eq, poolOnClose_stream, updC_stream, hst, if_true, hc,
    destroyStream, updS_stream, poolOnClose_kind, updC_kind]
  rw [onStreamDestroy_closed _ c (by simp)]
  simp [tFinishClose, State.updC, State.updS, poolOnClose, closeDelta_eq]
  refine ⟨by omega, ?_, ?_⟩
  · funext k; by_cases hk : k = c <;> simp [hk]
  · funext k; by_cases hk : k = i <;> simp [hk, hc]

/-! ### finding the in-flight stream of a client -/
theorem liveOn_some (f : Nat → Stream) (c n i : Nat) (h : liveOn f c n = some i) :
    i < n ∧ (f i).live = true ∧ (f i).conn = c := by
  induction n with
  | zero => simp [liveOn] at h
  | succ n ih =>
    simp only [liveOn] at h
    split at h
    · rename_i hh
      simp at h hh; subst h; exact ⟨by omega, hh.1, hh.2⟩
    · have := ih h; exact ⟨by omega, this.2⟩

theorem liveOn_none (f : Nat → Stream) (c n : Nat) (h : liveOn f c n = none) :
    ∀ k, k < n → (f k).live = true → (f k).conn ≠ c := by
  induction n with
  | zero => intro k hk; omega
  | succ n ih =>
    simp only [liveOn] at h
    split at h
    · simp at h
    · rename_i hh
      intro k hk hl hc
      by_cases hkn : k = n
      · subst hkn; simp [hl, hc] at hh
      · exact ih h k (by omega) hl hc

/-- a connection closes (either side): `Inv` is kept -/
theorem inv_netClose (s : State) (h : Inv s) (c : Nat) (r : String) : Inv (netClose s c r) := by
  unfold netClose
  split
  · rename_i hco
    obtain ⟨hcn, hno⟩ := hco
    have hcl : (s.client c).closed = false := by
      have := h.flagTruth c hcn; rw [hno] at this; cases hx : (s.client c).closed <;> simp [hx] at this ⊢
    have hstream : (netDown s c).stream = s.stream := by rw [netDown_open s c hno]; rfl
    have hns : (netDown s c).nStreams = s.nStreams := by rw [netDown_open s c hno]; rfl
    simp only [hstream, hns]
    cases hlo : liveOn s.stream c s.nStreams with
    | some i =>
      obtain ⟨hi, hl, hc⟩ := liveOn_some _ _ _ _ hlo
      simp only []
      rw [netDown_reset s i c r hl hc hno]
      exact inv_finish_close s h i c _ _ hi hl hc hc (by simp [Stream.live, destroyed_ne_reset]) 
        (by simp [(h.liveFresh i hi hl).2.2]) (by simp [(h.liveFresh i hi hl).1]) (by simp [(h.liveFresh i hi hl).2.1])
        (by simp [(h.liveFresh i hi hl).1]) (by simp) rfl rfl (by simp)
    | none =>
      simp only []
      have hidle : c ∈ s.idle := by
        rcases h.noLeak c hcn hcl with h' | ⟨i, hi, hl, hc⟩
        · exact h'
        · exact absurd hc (liveOn_none _ _ _ hlo i hi hl)
      have e : netDown s c = tCloseIdle s c { s.client c with netOpen := false, closed := true } := by
        rw [netDown_open s c hno]
        simp [tCloseIdle, poolOnClose, State.updC, closeDelta_eq]
        refine ⟨by omega, ?_⟩
        funext k; by_cases hk : k = c <;> simp [hk]
      rw [e]
      exact inv_close_idle s h c _ hidle rfl rfl
  · exact h

theorem tFinishPut_updS (s : State) (i c : Nat) (st' : Stream) (f : Stream → Stream) :
    (tFinishPut s i c st').updS i f = tFinishPut s i c (f st') := by
  simp [tFinishPut, State.updS]
  funext k; by_cases hk : k = i <;> simp [hk]

theorem tFinishClose_updS (s : State) (i c : Nat) (st' : Stream) (cl' : Client) (f : Stream → Stream) :
    (tFinishClose s i c st' cl').updS i f = tFinishClose s i c (f st') cl' := by
  simp [tFinishClose, State.updS]
  funext k; by_cases hk : k = i <;> simp [hk]

/-- a response completes live stream `i` -/
theorem inv_response (s : State) (h : Inv s) (i : Nat) (hi : i < s.nStreams) (hl : (s.stream i).live = true) (mark : Bool) :
    Inv ((destroyStream (if mark then s.updC (s.stream i).conn (fun cl => { cl with closeConn := true }) else s) i).updS i
      (fun st => { st with recv := st.recv + 1 })) := by
  -- the marked state still satisfies the invariant (only a flag changed)
  have h1 : Inv (if mark then s.updC (s.stream i).conn (fun cl => { cl with closeConn := true }) else s) := by
    split
    · exact inv_flags s h _ (fun k => by dsimp only [State.updC]; split <;> simp_all)
    · exact h
  generalize hs1 : (if mark then s.updC (s.stream i).conn (fun cl => { cl with closeConn := true }) else s) = s1 at h1
  have hstr : s1.stream = s.stream := by subst hs1; split <;> rfl
  have hn : s1.nStreams = s.nStreams := by subst hs1; split <;> rfl
  have hl1 : (s1.stream i).live = true := by rw [hstr]; exact hl
  have hi1 : i < s1.nStreams := by rw [hn]; exact hi
  have hcl := h1.liveOk i hi1 hl1
  have hcn := h1.connOk i hi1
  have hno : (s1.client (s1.stream i).conn).netOpen = true := by rw [h1.flagTruth _ hcn, hcl]; rfl
  have hf := h1.liveFresh i hi1 hl1
  cases hcc : (s1.client (s1.stream i).conn).closeConn
  · rw [destroyStream_put s1 i _ hl1 rfl hcl hcc, tFinishPut_updS]
    exact inv_finish_put s1 h1 i _ _ hi1 hl1 rfl rfl (by simp [Stream.live, destroyed_ne_reset]) (by simp [hf.2.2]) (by simp [hf.1]) (by simp [hf.2.1])
  · rw [destroyStream_close s1 i _ hl1 rfl hcl hcc hno, tFinishClose_updS]
    exact inv_finish_close s1 h1 i _ _ _ hi1 hl1 rfl rfl (by simp [Stream.live, destroyed_ne_reset]) (by simp [hf.2.2]) (by simp [hf.1])
      (by simp [hf.2.1]) (by simp [hf.2.1]) (by simp [hf.2.1]) rfl rfl (by simp [hf.1])

/-- a live stream on an open client is reset with a reason that marks the client -/
theorem inv_reset (s : State) (h : Inv s) (i : Nat) (r : String) (hi : i < s.nStreams) (hl : (s.stream i).live = true)
    (hm : markClose s.kind r false = true) : Inv (resetStream s i r) := by
  have hcl := h.liveOk i hi hl
  have hcn := h.connOk i hi
  have hno : (s.client (s.stream i).conn).netOpen = true := by rw [h.flagTruth _ hcn, hcl]; rfl
  have hf := h.liveFresh i hi hl
  rw [resetStream_close s i _ r hl rfl hcl hno hm]
  exact inv_finish_close s h i _ _ _ hi hl rfl rfl (by simp [Stream.live, destroyed_ne_reset]) (by simp [hf.2.2]) (by simp [hf.1])
    (by simp [hf.2.1]) (by simp [hf.1]) (by simp) rfl rfl (by simp)

theorem inv_foldClose (l : List Nat) (s : State) (h : Inv s) : Inv (foldClose l s) := by
  induction l generalizing s with
  | nil => exact h
  | cons c r ih =>
    simp only [foldClose, List.foldl_cons] at ih ⊢
    exact ih _ (inv_netClose s h c _)

/-! ### NewStream -/
theorem state_total_eta (s : State) (t : Int) (ht : t = s.total) : { s with total := t } = s := by
  subst ht; rfl

/-- the four outcomes of `getAvailableClient` / `GetActiveClient` -/
theorem acquire_cases (s : State) (f : Dial) :
    acquire s f = (s, .overflow) ∨ acquire s f = (s, .connFail f.isTimeout) ∨
    acquire s f = (withNewClient s, .ok s.nClients) ∨
    ∃ rest c, s.idle = rest ++ [c] ∧ acquire s f = ({ s with idle := rest }, .ok c) := by
  obtain ⟨kind, maxConn, maxReq, total, idle, nClients, client, nStreams, stream, reqCur, ext⟩ := s
  -- the slot taken for the new connection is given back by EVERY failed dial (refused and timed out)
  have hd1 : ∀ t, total + h1NewDelta + h1DialFailDelta t = total := by
    intro t; cases t <;> simp only [h1NewDelta, h1DialFailDelta] <;> simp <;> omega
  have hd3 : ∀ t, total + ppDialFailDelta t = total := by
    intro t; cases t <;> simp only [ppDialFailDelta] <;> simp
  have hd2 : total + h1NewDelta + h1OverflowDelta = total := by simp only [h1NewDelta, h1OverflowDelta]; omega
  rcases List.eq_nil_or_concat idle with hnil | ⟨rest, c, hcons⟩
  · subst hnil
    cases kind <;> cases f <;> simp only [acquire, List.isEmpty_nil, if_true, withNewClient, Dial.fails, Dial.isTimeout] <;> split <;>
      simp [hd1, hd2, hd3, ppNewDelta] <;> simp [h1NewDelta]
  · rw [List.concat_eq_append] at hcons
    subst hcons
    have hne : (rest ++ [c]).isEmpty = false := by simp
    cases kind <;> simp only [acquire, hne, Bool.false_eq_true, if_false] <;> split <;> simp

theorem newStream_cases (s : State) (f : Dial) :
    (newStream s f = (s, .overflow)) ∨ (newStream s f = (s, .connFail f.isTimeout)) ∨
    (newStream s f = (lease (withNewClient s) s.nClients, .ok s.nClients)) ∨
    ∃ rest c, s.idle = rest ++ [c] ∧ newStream s f = (lease { s with idle := rest } c, .ok c) := by
  unfold newStream
  rw [breakerFirst_eq]
  simp only [if_true]
  split
  · rcases acquire_cases s f with h | h | h | ⟨rest, c, h1, h2⟩
    · left; rw [h]
    · right; left; rw [h]
    · right; right; left; rw [h]
    · right; right; right; exact ⟨rest, c, h1, by rw [h2]⟩
  · left; rfl

theorem inv_newStream (s : State) (h : Inv s) (f : Dial) : Inv (newStream s f).1 := by
  rcases newStream_cases s f with e | e | e | ⟨rest, c, h1, e⟩ <;> rw [e]
  · exact h
  · exact h
  · exact inv_lease_new s h
  · exact inv_lease_pop s h rest c h1

/-! ### every operation keeps the invariant -/
theorem inv_step (s : State) (h : Inv s) (op : Op) : Inv (step s op).1 := by
  cases op with
  | newStream f => exact inv_newStream s h f
  | response i cc =>
    simp only [step]
    split
    · rename_i hh
      have := inv_response s h i hh.1 hh.2 (decide (cc = true ∧ s.kind = .h1))
      simpa using this
    · exact h
  | garbage i =>
    simp only [step]
    split
    · rename_i hh
      cases hk : s.kind
      · simp only []
        exact inv_reset s h i _ hh.1 hh.2 (by rw [hk]; exact markClose_remote_h1)
      · simp only []
        exact inv_netClose s h _ _
    · exact h
  | localReset i =>
    simp only [step]
    split
    · rename_i hh; exact inv_reset s h i _ hh.1 hh.2 (markClose_local _)
    · exact h
  | lateReset i =>
    simp only [step]
    split
    · rename_i hh
      have hd : (s.stream i).live = false := by simpa using hh.2
      rw [resetStream_dead s i _ hd, destroyStream_dead s i hd]; exact h
    · exact h
  | goAway c =>
    simp only [step]
    split
    · exact inv_flags s h _ (fun k => by dsimp only [State.updC]; split <;> simp_all)
    · exact h
  | unknownReply c => exact h
  | connClose c remote => exact inv_netClose s h c _
  | shutdown => exact inv_flags s h _ (fun k => by dsimp only []; split <;> simp)
  | closeAll => exact inv_foldClose s.idle s h
  | extInc => exact inv_ext_inc s h
  | extDec =>
    simp only [step]
    split
    · rename_i hh; exact inv_ext_dec s h hh
    · exact h

theorem inv_run (s : State) (h : Inv s) (ops : List Op) : Inv (run s ops) := by
  induction ops generalizing s with
  | nil => exact h
  | cons op r ih => exact ih _ (inv_step s h op)

theorem inv_trace (s : State) (h : Inv s) (ops : List Op) : ∀ p ∈ trace s ops, Inv p.2 := by
  induction ops generalizing s with
  | nil => intro p hp; simp [trace] at hp
  | cons op r ih =>
    intro p hp
    simp only [trace, List.mem_cons] at hp
    rcases hp with hp | hp
    · subst hp; exact inv_step s h op
    · exact ih _ (inv_step s h op) p hp

end MosnVerif.Model.Pool
