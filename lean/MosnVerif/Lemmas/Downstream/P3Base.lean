import MosnVerif.Lemmas.Downstream.Frames
/-!
proxy3 growth slice — the regenerated pieces of `Gen.ProxyReply`, `Gen.ProxyTimers`, `Gen.ProxyTerminate` in closed form on the
machine: what the local-reply paths do to the held data / trailers, which timers `setupRetry` stops, and the step program
of `TerminateStream` as one record update.  These lemmas are where a change of the regenerated definitions shows up first.
-/
namespace MosnVerif.Model.Downstream
open MosnVerif.Gen.ProxyPhase MosnVerif.Gen.ProxyReason

/-! ### local replies and the held response parts (Gen.ProxyReply) -/

/-- a header-only local reply CLEARS the held data, a reply with body REPLACES it by its own: the data part after
`sendHijackReply[WithBody]` is present exactly when the reply has a body -/
@[simp] theorem hijack_data_eff (body held : Bool) : applyEff (hijackDataEff body) body held = body := by
  cases body <;> rfl

/-- both local-reply paths clear the held trailers -/
@[simp] theorem hijack_trailers_eff (body held : Bool) : applyEff (hijackTrailersEff body) false held = false := by
  cases body <;> rfl

@[simp] theorem hijack_data_tok (body : Bool) (old : Tok) :
    effTok (hijackDataEff body) body .loc old = if body then .loc else .none := by
  cases body <;> rfl

@[simp] theorem hijack_trailers_tok (body : Bool) (old : Tok) : effTok (hijackTrailersEff body) false .loc old = .none := by
  cases body <;> rfl

/-- `sendHijackReply[WithBody]` in closed form: the stored response is exactly this reply -/
theorem sendHijack_eq (s : S) (code : Nat) (body : Bool) :
    sendHijack s code body =
      { s with respCode := code, statusVar := some code, resp := some ⟨body, false⟩, direct := true,
               hTok := .loc, dTok := if body then .loc else .none, tTok := .none } := by
  simp [sendHijack]

/-! ### timers stopped by `setupRetry` (Gen.ProxyTimers) -/

@[simp] theorem setupRetry_stops_perTry : Gen.ProxyTimers.setupRetryStopsPerTry = true := rfl
@[simp] theorem setupRetry_keeps_global : Gen.ProxyTimers.setupRetryStopsGlobal = false := rfl

theorem setupRetry_timers (z : S) :
    ({ z with perTry := z.perTry && !Gen.ProxyTimers.setupRetryStopsPerTry, urr := false,
              global := z.global && !Gen.ProxyTimers.setupRetryStopsGlobal } : S) = { z with perTry := false, urr := false } := by
  cases z; simp

/-- `setupRetry` in closed form: of the two timers only the per-try timer is stopped — the global timer, its generation
and `responseTimer != nil` are left alone -/
theorem setupRetry_eq (c : Cfg) (s : S) (eos : Bool) :
    setupRetry c s eos =
      if setupRetryChecksExpiry && s.globalExpired then (s, false) else
      let s := { s with setupRetry := true }
      let s := if !eos then resetUpstream c s else s
      ({ s with perTry := false, urr := false }, true) := by
  unfold setupRetry
  split
  · rfl
  · simp only [setupRetry_timers]

/-! ### `TerminateStream` (Gen.ProxyTerminate) -/

/-- the accepted `TerminateStream` as one record update (what the regenerated step program amounts to) -/
def terminateAcc (c : Cfg) (s : S) (code : Nat) : S :=
  { resetUpstream c s with
      urr := true, perTry := false, global := false, flags := s.flags ||| DownStreamTerminate,
      respCode := code, statusVar := some code, resp := some ⟨false, false⟩, direct := true, notify := true,
      hTok := .loc, dTok := .none, tTok := .none }

theorem term_acc_eq (c : Cfg) (s : S) (code : Nat) :
    sendNotify (sendHijack (orFlag (resetUpstream c { { { s with urr := true } with global := false } with perTry := false })
      DownStreamTerminate) code false) = terminateAcc c s code := by
  cases s with
  | mk phase pass running urr cleaned upReset downReset resetReason respStarted recvDone reqSent procDone direct notify setupRetry rs up =>
    cases up with
    | none => rfl
    | some o => cases o <;> rfl

/-- the regenerated program in closed form: the refusal tests in their order (stored response headers, cleaned, generation,
response slot), then the accepted call -/
theorem terminateG_eq (c : Cfg) (s : S) (hid code : Nat) :
    terminateG c s hid code id =
      if !asleep s then s else if s.resp.isSome then s else if s.cleaned then s else if !(hid == c.gen) then s
      else if s.urr then s else terminateAcc c s code := by
  unfold terminateG
  by_cases hp : asleep s = true
  · simp only [hp, Bool.not_true, Bool.false_eq_true, if_false]
    rw [← term_acc_eq]
    unfold Gen.ProxyTerminate.terminateStream Gen.ProxyTerminate.claim Gen.ProxyTerminate.commit
    cases h1 : s.resp.isSome <;> cases h2 : s.cleaned <;> cases h3 : (hid == c.gen) <;> cases h4 : s.urr <;>
      simp only [termOps, id, h1, h2, h3, h4, Bool.false_eq_true, if_false, if_true, Bool.not_true, Bool.not_false]
  · simp [hp]

/-- the label `terminate` (a handler of this very request) in closed form -/
theorem terminateL_eq (c : Cfg) (s : S) (code : Nat) :
    terminateL c s code =
      if !asleep s then s else if s.resp.isSome then s else if s.cleaned then s else if s.urr then s
      else terminateAcc c s code := by
  unfold terminateL
  rw [terminateG_eq]
  simp

/-- a late response frame is dropped when the response slot is taken -/
theorem lateRecv_of_urr (s : S) (k : Nat) (d t : Bool) (h : s.urr = true) : lateRecv s k d t = s := by
  unfold lateRecv
  split
  · rfl
  · cases s; simp_all

/-- a handler of another generation is refused before anything is touched; one of this generation is the label `terminate` -/
theorem terminateStale_eq (c : Cfg) (s : S) (g code : Nat) :
    terminateG c s g code id = if g == c.gen then terminateL c s code else s := by
  rw [terminateG_eq, terminateL_eq]
  cases h : (g == c.gen) <;> simp

/-- an in-flight response landing inside an accepted `TerminateStream` (after the claim of the response slot) is dropped:
the call with the interleaved frame is the plain call -/
theorem terminateRaced_eq (c : Cfg) (s : S) (code k : Nat) (d t : Bool) :
    terminateG c s c.gen code (fun s => lateRecv s k d t) = terminateL c s code := by
  unfold terminateL terminateG
  by_cases hp : asleep s = true
  · simp only [hp, Bool.not_true, Bool.false_eq_true, if_false]
    unfold Gen.ProxyTerminate.terminateStream Gen.ProxyTerminate.claim
    cases h1 : s.resp.isSome <;> cases h2 : s.cleaned <;> cases h4 : s.urr <;>
      simp only [termOps, id, h1, h2, h4, beq_self_eq_true, Bool.false_eq_true, if_false, if_true, Bool.not_true]
    rw [lateRecv_of_urr _ _ _ _ (by simp)]
  · simp [hp]

end MosnVerif.Model.Downstream
