import MosnVerif.Model.DownstreamBackoff
import MosnVerif.Lemmas.Downstream.Tails
/-!
proxy10 — which functions of the machine call `ConnectionPool.NewStream`.

`att t` are the attempt events (`un` admitted / `uf` refused) of a trace.  Everything `processError` does — the answer to an
upstream reset, the retry set-up, the clean-up of the stream — appends only resets of upstream streams, downstream resets
and the access log: `finishPhase` never creates an attempt.  The only creators are `upstreamRequest.appendHeaders` in
`receiveHeaders` and in `doRetry`, both behind the regenerated guard `processDone()`.
-/
namespace MosnVerif.Model.Downstream
open MosnVerif.Gen.ProxyPhase MosnVerif.Gen.ProxyReason MosnVerif.Gen.ProxyRetry

/-- the attempt events of a trace -/
def att (t : List Ev) : List Ev := t.filter attemptEv

theorem att_append (t u : List Ev) : att (t ++ u) = att t ++ att u := by simp [att]

/-- `t` has the attempts of `s`: the same attempt events in the trace, the same number of client streams -/
def NoAtt (s t : S) : Prop := att t.trace = att s.trace ∧ t.streams.length = s.streams.length

theorem NoAtt.refl (s : S) : NoAtt s s := ⟨rfl, rfl⟩
theorem NoAtt.trans {s t u : S} (h1 : NoAtt s t) (h2 : NoAtt t u) : NoAtt s u := ⟨Eq.trans h2.1 h1.1, Eq.trans h2.2 h1.2⟩
theorem NoAtt.of_trace {s t : S} (h : t.trace = s.trace)
    (hs : t.streams.length = s.streams.length := by first | rfl | simp) : NoAtt s t := by
  unfold NoAtt; rw [h]; exact ⟨rfl, hs⟩
theorem NoAtt.of_append {s t : S} (l : List Ev) (h : t.trace = s.trace ++ l) (hl : att l = [])
    (hs : t.streams.length = s.streams.length := by first | rfl | simp) : NoAtt s t := by
  unfold NoAtt; rw [h, att_append, hl, List.append_nil]; exact ⟨rfl, hs⟩

theorem setStream_len (l : List Stream) (k : Nat) (f : Stream → Stream) : (setStream l k f).length = l.length := by
  induction l generalizing k with
  | nil => rfl
  | cons x r ih => cases k <;> simp [setStream, ih]

@[simp] theorem destroyStream_len (c : Cfg) (s : S) (k : Nat) : (destroyStream c s k).streams.length = s.streams.length := by
  unfold destroyStream; simp only; split <;> simp [setStream_len]

@[simp] theorem resetUpstream_len (c : Cfg) (s : S) : (resetUpstream c s).streams.length = s.streams.length := by
  unfold resetUpstream; split
  · simp [setStream_len]
  · rfl

theorem noAtt_resetUpstream (c : Cfg) (s : S) : NoAtt s (resetUpstream c s) := by
  unfold resetUpstream
  split
  · rename_i k _
    by_cases hl : streamLive s k = true
    · exact NoAtt.of_append [.ur k] (by simp [hl]) (by simp [att, attemptEv])
    · exact NoAtt.of_trace (by simp [hl])
  · exact NoAtt.refl s

theorem noAtt_cleanFinish (c : Cfg) (x : S) : NoAtt x (cleanFinish c x) := by
  refine ⟨?_, ?_⟩
  · show att ((cleanUp c x).trace ++ [Ev.log (cleanUp c x).respCode (cleanUp c x).flags]) = att x.trace
    rw [att_append, cleanUp_trace]
    simp [att, attemptEv]
  · show (cleanUp c x).streams.length = x.streams.length
    simp [cleanUp, rsReset]

theorem noAtt_cleanBody (c : Cfg) (s : S) : NoAtt s (cleanBody c s) := by
  by_cases hdo : (s.up.isSome && !s.procDone && !c.oneway) = true
  · have heq : cleanBody c s = cleanFinish c (resetUpstream c { s with cleaned := true, procDone := s.procDone || true }) := by
      unfold cleanBody cleanFinish; simp only [hdo, ite_true]
    rw [heq]
    exact NoAtt.trans (NoAtt.trans (NoAtt.of_trace rfl : NoAtt s { s with cleaned := true, procDone := s.procDone || true })
      (noAtt_resetUpstream c _)) (noAtt_cleanFinish c _)
  · have heq : cleanBody c s = cleanFinish c { s with cleaned := true, procDone := s.procDone || false } := by
      unfold cleanBody cleanFinish; simp only [hdo, Bool.false_eq_true, ite_false]
    rw [heq]
    exact NoAtt.trans (NoAtt.of_trace rfl : NoAtt s { s with cleaned := true, procDone := s.procDone || false })
      (noAtt_cleanFinish c _)

theorem noAtt_cleanStream (c : Cfg) (s : S) : NoAtt s (cleanStream c s) := by
  unfold cleanStream; split
  · exact NoAtt.refl s
  · exact noAtt_cleanBody c s

theorem noAtt_dsResetStream (c : Cfg) (s : S) : NoAtt s (dsResetStream c s) := by
  unfold dsResetStream
  exact NoAtt.trans (NoAtt.of_trace rfl : NoAtt s { s with respCode := TimeoutExceptionCode }) (noAtt_cleanStream c _)

theorem noAtt_resetDownstream (c : Cfg) (s : S) : NoAtt s (resetDownstream c s) := by
  unfold resetDownstream
  split
  · simp only
    split
    · exact NoAtt.of_append [.dr] (by simp [dsOnResetStream]) (by simp [att, attemptEv])
    · exact NoAtt.of_append [.dr] rfl (by simp [att, attemptEv])
  · exact NoAtt.refl s

theorem noAtt_onUpstreamResetFinish (c : Cfg) (s : S) (r : Reason) : NoAtt s (onUpstreamResetFinish c s r) := by
  unfold onUpstreamResetFinish
  simp only
  split
  · exact NoAtt.trans (NoAtt.of_trace (by simp) : NoAtt s (cleanUp c s)) (noAtt_resetDownstream c _)
  · exact NoAtt.of_trace (by simp [sendHijack, orFlag])

theorem noAtt_setupRetry (c : Cfg) (s : S) (eos : Bool) : NoAtt s (setupRetry c s eos).1 := by
  unfold setupRetry
  split
  · exact NoAtt.refl s
  · simp only
    split
    · exact NoAtt.trans (NoAtt.of_trace rfl : NoAtt s { s with setupRetry := true })
        (NoAtt.trans (noAtt_resetUpstream c _) (NoAtt.of_trace rfl))
    · exact NoAtt.of_trace rfl

theorem noAtt_onUpstreamReset (c : Cfg) (s : S) : NoAtt s (onUpstreamReset c s) := by
  unfold onUpstreamReset
  simp only
  split
  · have h1 : NoAtt s (rsRetry c s (some s.resetReason)).1 := NoAtt.of_trace (by simp [rsRetry])
    generalize rsRetry c s (some s.resetReason) = res at h1 ⊢
    obtain ⟨s1, chk⟩ := res
    simp only at h1 ⊢
    split
    · have h2 := noAtt_setupRetry c s1 true
      generalize setupRetry c s1 true = r2 at h2 ⊢
      obtain ⟨s2, ok⟩ := r2
      cases ok
      · exact NoAtt.trans h1 (NoAtt.trans h2 (noAtt_onUpstreamResetFinish c _ _))
      · exact NoAtt.trans h1 (NoAtt.trans h2 (NoAtt.of_trace rfl))
    · refine NoAtt.trans h1 ?_
      split
      · exact NoAtt.trans (NoAtt.of_trace rfl : NoAtt s1 (orFlag s1 UpstreamOverflow)) (noAtt_onUpstreamResetFinish c _ _)
      · exact noAtt_onUpstreamResetFinish c _ _
  · exact noAtt_onUpstreamResetFinish c s _

theorem noAtt_abandonRetry (s : S) : NoAtt s (abandonRetry s) := by
  unfold abandonRetry; split
  · exact NoAtt.of_trace rfl
  · exact NoAtt.refl s

theorem noAtt_peTail (c : Cfg) (s : S) (e : Bool) : NoAtt s (peTail c s e).1 := by
  unfold peTail
  split
  · exact noAtt_dsResetStream c s
  · split
    · simp only
      have hs : NoAtt s (abandonRetry { s with direct := false, rs := none, retries := (rsReset c s).retries }) :=
        NoAtt.trans (NoAtt.of_trace rfl) (noAtt_abandonRetry _)
      split
      · exact hs
      · split <;> exact hs
    · split
      · exact NoAtt.of_trace rfl
      · exact NoAtt.refl s

theorem noAtt_processError (c : Cfg) (s : S) : NoAtt s (processError c s).1 := by
  rw [processError_spec]
  split
  · exact NoAtt.refl s
  · split
    · split
      · exact NoAtt.refl s
      · exact NoAtt.trans (noAtt_onUpstreamReset c s) (noAtt_peTail c _ _)
    · exact noAtt_peTail c s _

theorem noAtt_reenter (s : S) (p : Phase) : NoAtt s (reenter s p) := by
  unfold reenter; split
  · exact NoAtt.of_trace rfl
  · simp only; split <;> split <;> exact NoAtt.of_trace rfl

/-- **`processError` creates no upstream attempt**: the end of every phase — answering an upstream reset, setting a retry
up, cleaning the stream after the client left — appends only resets and the access log -/
theorem noAtt_finishPhase (c : Cfg) (s : S) : NoAtt s (finishPhase c s) := by
  unfold finishPhase
  have h1 := noAtt_processError c s
  generalize processError c s = r at h1 ⊢
  obtain ⟨x, o⟩ := r
  cases o
  · exact NoAtt.trans h1 (NoAtt.of_trace rfl)
  · exact NoAtt.trans h1 (noAtt_reenter x _)

/-- **the regenerated guard of `upstreamRequest.appendHeaders`**: with `processDone()` — the client left (`downstreamReset`), an
upstream reset is pending, or the response is done — no `NewStream` is called: nothing changes -/
theorem upAppendHeaders_done (c : Cfg) (s : S) (eos : Bool) (h : processDone s = true) : upAppendHeaders c s eos = s := by
  unfold upAppendHeaders; rw [if_pos h]

/-- after its sleep `doRetry` creates no attempt — no `NewStream`, admitted or refused, no new client stream — when the client
has left meanwhile, an upstream reset (the global timeout) is pending, a local reply is pending, or the expiry of the
global timeout was recorded -/
theorem doRetry_no_attempt (c : Cfg) (s : S)
    (h : s.direct = true ∨ (s.globalExpired = true ∧ s.up.isSome = true) ∨ s.downReset = true ∨ s.upReset = true) :
    NoAtt s (doRetry c s) ∧ (doRetry c s).streams = s.streams := by
  rw [doRetry_eq]
  split
  · exact ⟨NoAtt.refl s, rfl⟩
  rename_i hdt
  split
  · exact ⟨NoAtt.of_trace (by simp [upOnResetStream]), by simp [upOnResetStream]⟩
  rename_i hex
  have hpd : processDone s = true := by
    rcases h with h | h | h | h
    · exact absurd h hdt
    · exact absurd (by simp [h.1, h.2]) hex
    · simp [processDone, h]
    · simp [processDone, h]
  unfold doRetryBody
  split
  · constructor
    · exact NoAtt.of_trace (by split <;> simp [sendHijack]) (by split <;> simp [sendHijack])
    · split <;> simp [sendHijack]
  · simp only
    have hp1 : processDone ({ s with up := some none, setupRetry := false } : S) = true := hpd
    rw [upAppendHeaders_done c _ _ hp1]
    -- the data / trailers calls are guarded the same way; the timers and flags touch neither trace nor streams
    have stepd : ∀ (x : S) (e : Nat → Ev), x.trace = s.trace ∧ x.streams = s.streams ∧ processDone x = true →
        ({ x with trace := dataTrace x e } : S).trace = s.trace ∧ ({ x with trace := dataTrace x e } : S).streams = s.streams ∧
        processDone ({ x with trace := dataTrace x e } : S) = true := by
      intro x e hx
      have : dataTrace x e = x.trace := by unfold dataTrace; rw [hx.2.2]
      rw [this]
      exact ⟨hx.1, hx.2.1, hx.2.2⟩
    have h0 : ({ s with up := some none, setupRetry := false } : S).trace = s.trace ∧
        ({ s with up := some none, setupRetry := false } : S).streams = s.streams ∧
        processDone ({ s with up := some none, setupRetry := false } : S) = true := ⟨rfl, rfl, hp1⟩
    generalize ({ s with up := some none, setupRetry := false } : S) = a at h0
    have h2 : (if c.hasData = true then upAppendData a (!c.hasTrailers) else a).trace = s.trace ∧
        (if c.hasData = true then upAppendData a (!c.hasTrailers) else a).streams = s.streams ∧
        processDone (if c.hasData = true then upAppendData a (!c.hasTrailers) else a) = true := by
      split
      · exact stepd a _ h0
      · exact h0
    generalize (if c.hasData = true then upAppendData a (!c.hasTrailers) else a) = b at h2
    have h3 : (if c.hasTrailers = true then upAppendTrailers b else b).trace = s.trace ∧
        (if c.hasTrailers = true then upAppendTrailers b else b).streams = s.streams := by
      split
      · exact ⟨(stepd b _ h2).1, (stepd b _ h2).2.1⟩
      · exact ⟨h2.1, h2.2.1⟩
    generalize (if c.hasTrailers = true then upAppendTrailers b else b) = d at h3
    have hst : ({ (if (!hasTimerObj d) = true then onUpstreamRequestSent c d else setupPerReqTimeout c d) with
        reqSent := true, recvDone := true } : S).streams = s.streams := by
      split <;> simpa [onUpstreamRequestSent, setupPerReqTimeout] using h3.2
    constructor
    · refine NoAtt.of_trace ?_ (by rw [hst])
      split <;> simpa [onUpstreamRequestSent, setupPerReqTimeout] using h3.1
    · exact hst

end MosnVerif.Model.Downstream
