import MosnVerif.Lemmas.Downstream.Worker5
/-! the worker label `work`: response data and trailers, the retry phase, the end -/
namespace MosnVerif.Model.Downstream
open MosnVerif.Gen.ProxyPhase MosnVerif.Gen.ProxyReason MosnVerif.Gen.ProxyRetry

/-- facts every phase after the response headers starts from -/
theorem up_started {c : Cfg} {ar aq : Nat} {s : S} (h : Inv c ar aq s) (hrun : s.running = true)
    (hp : s.phase = .UpRecvData ∨ s.phase = .UpRecvTrailer) :
    upPhase s.phase = true ∧ s.respStarted = true ∧ c.oneway = false ∧
    (snd s.trace).ended = false ∧ (snd s.trace).reset = false ∧ (snd s.trace).bad = false ∧ (snd s.trace).hdr = true := by
  have hupp : upPhase s.phase = true := by rcases hp with hp | hp <;> simp [hp, upPhase]
  have hcl := inv_not_cleaned h hrun
  obtain ⟨_, _, _, _, hrst0, _, _⟩ := h.k15 hcl hupp
  have hrst : s.respStarted = true := by rcases hp with hp | hp <;> (rw [hrst0, hp]; decide)
  have how : c.oneway = false := by
    cases ho : c.oneway with
    | false => rfl
    | true => have := (h.k32 hcl ho).1; rw [hupp] at this; cases this
  have hopen := snd_open h hcl
  exact ⟨hupp, hrst, how, hopen.1, hopen.2.1, hopen.2.2.1, by rw [hopen.2.2.2, hrst]⟩

/-- when the current upstream request owns no live client stream, no client stream is live at all -/
theorem not_open_dead {c : Cfg} {ar aq : Nat} {s : S} (h : Inv c ar aq s) (hno : bodyOpen s = false) :
    liveCount s.streams = 0 := by
  cases hc : curStream s with
  | none => exact allDead_liveCount (no_live_of_no_cur s h.k14 hc)
  | some k =>
    apply allDead_liveCount
    simp only [allDead, List.all_eq_true, Bool.not_eq_true']
    intro st hst
    obtain ⟨j, hj⟩ := List.getElem?_of_mem hst
    cases hl : st.live with
    | false => rfl
    | true =>
      have hj1 : streamLive s j = true := by simp [streamLive, hj, hl]
      have := (live_owned s h.k14 j hj1).2
      rw [hc] at this
      injection this with hjk
      subst hjk
      simp [bodyOpen, hc, hj1] at hno

/-- the worker does not wait for the body: the streamed upstream body has ended (no live client stream is left), or a
reset / the client's departure was signalled -/
theorem not_waiting {c : Cfg} {ar aq : Nat} {s : S} (h : Inv c ar aq s) (hrun : s.running = true)
    (hp : s.phase = .UpRecvData ∨ s.phase = .UpRecvTrailer) (hnw : bodyWait s = false) :
    liveCount s.streams = 0 ∨ processDone s = true := by
  cases hpd : processDone s with
  | true => exact Or.inr rfl
  | false =>
    left
    apply not_open_dead h
    cases hb : bodyOpen s with
    | false => rfl
    | true =>
      rcases hp with hp | hp <;> simp [bodyWait, hrun, hp, hb, hpd] at hnw

/-- a response without data: the data phase is skipped, also while an upstream reset is pending -/
theorem inv_skip_urd (c : Cfg) (ar aq : Nat) (s : S) (h : Inv c ar aq s) (hrun : s.running = true)
    (hp : s.phase = .UpRecvData) (ht : respHasTrailers s.resp = true) : Inv c ar aq { s with phase := .UpRecvTrailer } := by
  have hcl := inv_not_cleaned h hrun
  obtain ⟨k0, k1, k2, k3, k4, k5, k6, k7, k8, k9, k10, k11, k12, k13, k14, k15, k16, k17, k18, k19, k20, k21, k22, k23, k24, k25, k26, k27, k28, k29, k30, k31, k32, k33⟩ := h
  refine ⟨k0, k1, k2, k3, k4, k5, k6, ?_, ?_, k9, k10, k11, k12, k13, k14, ?_, ?_, ?_, ?_, ?_, k20, k21, k22, ?_, k24, k25, ?_, ?_, k28, ?_, ?_, k31, ?_, k33⟩
  · simp only [K7, Term, hp] at k7 ⊢; grind
  · simp only [K8, hp, upPhase] at k8 ⊢; grind
  · simp only [K15, hp, upPhase] at k15 ⊢; grind
  · simp only [K16, hp, upPhase] at k16 ⊢; grind
  · simp only [K17, hp, prePhase] at k17 ⊢; grind
  · simp only [K18, hp, fwdPhase] at k18 ⊢; grind
  · simp only [K19, hp] at k19 ⊢; grind
  · simp only [K23, hp] at k23 ⊢; grind
  · simp only [K26, hp] at k26 ⊢; grind
  · simp only [K27, hp, fwdPhase] at k27 ⊢; grind
  · simp only [K29, hp] at k29 ⊢; grind
  · simp only [K30, hp] at k30 ⊢; grind
  · simp only [K32, hp, upPhase] at k32 ⊢; grind

/-- phase `UpRecvData` -/
theorem inv_work_urd (c : Cfg) (ar aq : Nat) (s : S) (h : Inv c ar aq s) (hrun : s.running = true)
    (hp : s.phase = .UpRecvData) (hnw : bodyWait s = false) :
    Inv c ar aq (match s.resp with
      | some r =>
        if r.hasData then finishPhase c (if processDone s || s.setupRetry then s else onUpstreamData c s (!r.hasTrailers))
        else { s with phase := s.phase.next }
      | none => { s with phase := s.phase.next }) := by
  obtain ⟨hupp, hrst, how, ho1, ho2, ho3, ho4⟩ := up_started h hrun (Or.inl hp)
  obtain ⟨hcl, hpd, hsr, hdir, _, hlcd, htm⟩ := upCtx h hrun hupp
  obtain ⟨_, hresp, _, _, _, hmore, _⟩ := h.k15 hcl hupp
  obtain ⟨r, hr⟩ : ∃ r, s.resp = some r := by
    cases hh : s.resp with
    | none => simp [hh] at hresp
    | some r => exact ⟨r, rfl⟩
  have hmore' : r.hasData = true ∨ r.hasTrailers = true := by
    have := hmore hp; simpa [respHasMore, hr] using this
  have h8 := (h.k8 hcl).1
  by_cases hur1 : s.upReset = true
  · -- the streamed response was reset while the worker waited: `processError` resets the client
    rw [hr]
    simp only
    by_cases hd : r.hasData = true
    · rw [if_pos hd]
      have e : (processDone s || s.setupRetry) = true := by simp [processDone, hur1]
      rw [if_pos e]
      apply finish_inv c ar aq s h hrun (by rw [hp]; decide) (by intro hh; rw [hp] at hh; cases hh)
      intro h1 _; rw [hur1] at h1; cases h1
    · rw [if_neg hd]
      simp only [Bool.not_eq_true] at hd
      have ht : r.hasTrailers = true := by rcases hmore' with h1 | h1; · rw [hd] at h1; cases h1
                                           · exact h1
      have := inv_skip_urd c ar aq s h hrun hp (by simp [respHasTrailers, hr, ht])
      simpa [hp, Phase.next, hr] using this
  have hur : s.upReset = false := by simpa using hur1
  -- the state once the worker moves on to the trailers
  have toTrailers : ∀ s' : S, s'.phase = .UpRecvTrailer → Base c ar aq s' → s'.running = true → s'.cleaned = false → K3 s' → K6 s' →
      s'.procDone = false → s'.setupRetry = false → s'.direct = false → s'.pass ≤ 1 → s'.upReset = false →
      (liveCount s'.streams = 0 ∨ (s'.urr = true ∧ respHasMore s'.resp = true ∧ s'.rs.isSome = true)) →
      ((s'.perTry = false ∧ s'.global = false) ∨ s'.urr = true) → s'.resp = some r →
      s'.respStarted = true → r.hasTrailers = true → K24 c s' → K25 c s' → K28 s' → Inv c ar aq s' := by
    intro s' a1 a2 a3 a4 a5 a6 a7 a8 a9 a10 a11 a12 a13 a14 a15 a16 a17 a18 a19
    apply inv_up_state c ar aq s' .UpRecvTrailer a2 a3 a4 a5 a6 a7 a8 a9 a10 a11 a12 a13 _ a17 a18 a19 how
    refine ⟨a1, by simp [upPhase], by simp [a14], by rw [a15]; decide, fun hh => Phase.noConfusion hh, fun _ => by simp [respHasTrailers, a14, a16]⟩
  split
  rotate_left
  · rename_i hn; rw [hr] at hn; cases hn
  rename_i r' hr'
  have hrr : r' = r := by rw [hr] at hr'; injection hr' with hh; exact hh.symm
  rw [hrr]
  clear hr' hrr r'
  by_cases hd : r.hasData = true
  · rw [if_pos hd]
    by_cases hdr : s.downReset = true
    · have e : (processDone s || s.setupRetry) = true := by simp [processDone, hdr]
      rw [if_pos e]
      apply finish_inv c ar aq s h hrun (by rw [hp]; decide) (by intro hh; rw [hp] at hh; cases hh)
      intro _ h2; rw [hdr] at h2; cases h2
    · simp only [Bool.not_eq_true] at hdr
      have e : (processDone s || s.setupRetry) = false := by simp [processDone, hpd, hdr, hur, hsr]
      rw [if_neg (by simp [e])]
      have hlc : liveCount s.streams = 0 := by
        rcases not_waiting h hrun (Or.inl hp) hnw with h0 | h1
        · exact h0
        · simp [processDone, hpd, hdr, hur] at h1
      cases ht : r.hasTrailers with
      | false =>
        -- the data ends the response
        have e2 : onUpstreamData c s (!false) = endStream c
            { onUpstreamResponseRecvFinished c s with
              respStarted := (onUpstreamResponseRecvFinished c s).respStarted, procDone := true,
              trace := (onUpstreamResponseRecvFinished c s).trace ++ [Ev.dd true], downLive := false } := by
          unfold onUpstreamData dsAppendData emit
          simp only [Bool.not_false, if_true]
        rw [e2]
        obtain ⟨hb, hlc', _, _, _, hs, _⟩ := recvFinished_base c ar aq s h.base hcl hlc
        apply respond_eos c ar aq _ _ _ hb (by simpa using hcl) hlc'
        · simp [sndStep, hs, ho1, ho2, ho3, ho4]
        · simp [sndStep, hs, ho4, hrst]
        · rfl
        · simp [sndStep]
      | true =>
        have e2 : onUpstreamData c s (!true) = { s with procDone := false, trace := s.trace ++ [Ev.dd false] } := by
          unfold onUpstreamData dsAppendData emit
          simp only [Bool.not_true, Bool.false_eq_true, if_false]
        rw [e2]
        have hb := respond_more_base c ar aq s (Ev.dd false) s.respStarted h.base
          (by simp [sndStep, ho1, ho2, ho3, ho4]) (by simp [sndStep, ho4, hrst]) rfl
        have h3' : K3 { s with procDone := false, trace := s.trace ++ [Ev.dd false] } := by
          intro hh
          simp [snd_append, sndStep, ho1, ho2] at hh
        apply finish_plain c ar aq _ hb hrun hcl h3' h.k6 rfl hsr hdir
        · intro hh; simp [hur] at hh
        · intro hh; simp [hur] at hh
        · intro hh; simp [hur] at hh
        · intro _ _
          apply toTrailers { ({ s with procDone := false, trace := s.trace ++ [Ev.dd false] } : S) with phase := s.phase.next } (by simp [hp, Phase.next]) _ hrun hcl h3' h.k6 rfl hsr hdir h8 hur (Or.inl hlc) htm hr hrst ht h.k24 h.k25 h.k28
          obtain ⟨k1, k2, k4, k9, k10, k11, k12, k13, k14, k20, k21, k22, k31⟩ := hb
          exact ⟨k1, k2, k4, k9, k10, k11, k12, k13, k14, k20, k21, k22, k31⟩
  · rw [if_neg hd]
    simp only [Bool.not_eq_true] at hd
    have ht : r.hasTrailers = true := by rcases hmore' with h1 | h1; · rw [hd] at h1; cases h1
                                         · exact h1
    apply toTrailers { s with phase := s.phase.next } (by simp [hp, Phase.next]) _ hrun hcl h.k3 h.k6 hpd hsr hdir h8 hur hlcd htm hr hrst ht h.k24 h.k25 h.k28
    obtain ⟨k1, k2, k4, k9, k10, k11, k12, k13, k14, k20, k21, k22, k31⟩ := h.base
    exact ⟨k1, k2, k4, k9, k10, k11, k12, k13, k14, k20, k21, k22, k31⟩

/-- phase `UpRecvTrailer` -/
theorem inv_work_urt (c : Cfg) (ar aq : Nat) (s : S) (h : Inv c ar aq s) (hrun : s.running = true)
    (hp : s.phase = .UpRecvTrailer) (hnw : bodyWait s = false) :
    Inv c ar aq (match s.resp with
      | some r =>
        if r.hasTrailers then finishPhase c (if processDone s || s.setupRetry then s else onUpstreamTrailers c s)
        else { s with phase := s.phase.next }
      | none => { s with phase := s.phase.next }) := by
  obtain ⟨hupp, hrst, how, ho1, ho2, ho3, ho4⟩ := up_started h hrun (Or.inr hp)
  obtain ⟨hcl, hpd, hsr, hdir, _, _, htm⟩ := upCtx h hrun hupp
  obtain ⟨_, hresp, _, _, _, _, htr⟩ := h.k15 hcl hupp
  obtain ⟨r, hr⟩ : ∃ r, s.resp = some r := by
    cases hh : s.resp with
    | none => simp [hh] at hresp
    | some r => exact ⟨r, rfl⟩
  have ht : r.hasTrailers = true := by have := htr hp; simpa [respHasTrailers, hr] using this
  split
  rotate_left
  · rename_i hn; rw [hr] at hn; cases hn
  rename_i r' hr'
  have hrr : r' = r := by rw [hr] at hr'; injection hr' with hh; exact hh.symm
  rw [hrr]
  clear hr' hrr r'
  rw [if_pos ht]
  by_cases hur1 : s.upReset = true
  · have e : (processDone s || s.setupRetry) = true := by simp [processDone, hur1]
    rw [if_pos e]
    apply finish_inv c ar aq s h hrun (by rw [hp]; decide) (by intro hh; rw [hp] at hh; cases hh)
    intro h1 _; rw [hur1] at h1; cases h1
  have hur : s.upReset = false := by simpa using hur1
  by_cases hdr : s.downReset = true
  · have e : (processDone s || s.setupRetry) = true := by simp [processDone, hdr]
    rw [if_pos e]
    apply finish_inv c ar aq s h hrun (by rw [hp]; decide) (by intro hh; rw [hp] at hh; cases hh)
    intro _ h2; rw [hdr] at h2; cases h2
  · simp only [Bool.not_eq_true] at hdr
    have e : (processDone s || s.setupRetry) = false := by simp [processDone, hpd, hdr, hur, hsr]
    rw [if_neg (by simp [e])]
    have hlc : liveCount s.streams = 0 := by
      rcases not_waiting h hrun (Or.inr hp) hnw with h0 | h1
      · exact h0
      · simp [processDone, hpd, hdr, hur] at h1
    have e2 : onUpstreamTrailers c s = endStream c
        { onUpstreamResponseRecvFinished c s with
          respStarted := (onUpstreamResponseRecvFinished c s).respStarted, procDone := true,
          trace := (onUpstreamResponseRecvFinished c s).trace ++ [Ev.dt], downLive := false } := by
      unfold onUpstreamTrailers dsAppendTrailers emit
      rfl
    rw [e2]
    obtain ⟨hb, hlc', _, _, _, hs, _⟩ := recvFinished_base c ar aq s h.base hcl hlc
    apply respond_eos c ar aq _ _ _ hb (by simpa using hcl) hlc'
    · simp [sndStep, hs, ho1, ho2, ho3, ho4]
    · simp [sndStep, hs, ho4, hrst]
    · rfl
    · simp [sndStep]

/-- phase `End`: unreachable for a running worker -/
theorem inv_work_end (c : Cfg) (ar aq : Nat) (s : S) (h : Inv c ar aq s) (hrun : s.running = true)
    (hp : s.phase = .End) : Inv c ar aq { s with running := false } := by
  have hcl := inv_not_cleaned h hrun
  exact absurd hp (h.k19 hcl)

end MosnVerif.Model.Downstream
