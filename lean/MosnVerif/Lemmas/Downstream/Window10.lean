import MosnVerif.Lemmas.Downstream.Regen10
import MosnVerif.Lemmas.Downstream.UpReset
namespace MosnVerif.Model.Downstream
open MosnVerif.Gen.ProxyPhase MosnVerif.Gen.ProxyReason

/-- the global timer callback as the timer wheel runs it: the timer has fired (`global := false`), then the regenerated body -/
def gtCallback (c : Cfg) (x : S) : S := Gen.ProxyBackoff.globalCallback (gcOps c) { x with global := false }

theorem upOnResetStream_marked (x : S) (r : Reason) (hm : x.setupRetry = true) : upOnResetStream x r = x := by
  unfold upOnResetStream
  cases x
  simp_all

/-- the callback on a state whose upstream request is marked for a retry: the expiry is recorded; when the response slot is
free it is taken and the upstream request reset; the `OnResetStream` it raises is dropped -/
theorem gtCallback_marked (c : Cfg) (x : S) (hc : x.cleaned = false) (hm : x.setupRetry = true) (hu : x.up.isSome = true) :
    gtCallback c x = if x.urr then { x with global := false, globalExpired := true }
      else resetUpstream c { x with global := false, globalExpired := true, urr := true } := by
  have h1 : gtCallback c x = if x.urr then { x with global := false, globalExpired := true }
      else upOnResetStream (resetUpstream c { x with global := false, globalExpired := true, urr := true }) .UpstreamGlobalTimeout := by
    unfold gtCallback Gen.ProxyBackoff.globalCallback Gen.ProxyBackoff.onResponseTimeout
    cases hr : x.urr <;> simp only [gcOps, hc, hu, hr, Bool.false_eq_true, if_false, if_true, Bool.not_true, Bool.not_false]
  rw [h1]
  split
  · rfl
  · exact upOnResetStream_marked _ _ (by rw [resetUpstream_setupRetry]; exact hm)

/-- the regenerated `setupRetry` with something interleaved at the yield site AFTER the swing of the response slot: the
un-interleaved call, then that something -/
theorem gen_setupRetry_after (c : Cfg) (w2 : S → S) (eos : Bool) (s : S) (he : s.globalExpired = false) :
    Gen.ProxyBackoff.setupRetry (srOps c) id w2 eos s = (w2 (setupRetry c s eos).1, true) := by
  rw [setupRetry_regenerated]
  unfold Gen.ProxyBackoff.setupRetry
  simp only [srOps, he, Bool.false_eq_true, if_false, id]
  split <;> split <;> rfl

/-- **the global timer callback right after `setupRetry` swung `upstreamResponseReceived` back** (yield site 2): the timer has
fired, the expiry is recorded, the callback's compare-and-swap WINS (the slot was just freed) — the slot stays taken —, the
given-up upstream request is reset once more, and the `OnResetStream` it raises is dropped because the request is marked -/
theorem setupRetry_window_after_swing (c : Cfg) (s : S) (eos : Bool) (hc : s.cleaned = false) (he : s.globalExpired = false)
    (hu : s.up.isSome = true) :
    (Gen.ProxyBackoff.setupRetry (srOps c) id (gtCallback c) eos s).1 =
      resetUpstream c { (setupRetry c s eos).1 with global := false, globalExpired := true, urr := true } := by
  rw [gen_setupRetry_after c _ eos s he]
  have hck : setupRetryChecksExpiry = true := by decide
  have e : setupRetry c s eos = ({ (if !eos then resetUpstream c { s with setupRetry := true } else { s with setupRetry := true }) with
      perTry := (if !eos then resetUpstream c { s with setupRetry := true } else { s with setupRetry := true }).perTry && !Gen.ProxyTimers.setupRetryStopsPerTry,
      urr := false,
      global := (if !eos then resetUpstream c { s with setupRetry := true } else { s with setupRetry := true }).global && !Gen.ProxyTimers.setupRetryStopsGlobal }, true) := by
    unfold setupRetry
    simp only [hck, he, Bool.and_false, Bool.false_eq_true, if_false]
  have h1 : (setupRetry c s eos).1.cleaned = false := by rw [e]; cases eos <;> simp [hc]
  have h2 : (setupRetry c s eos).1.setupRetry = true := by rw [e]; cases eos <;> simp
  have h3 : (setupRetry c s eos).1.up.isSome = true := by rw [e]; cases eos <;> simp [hu]
  have h4 : (setupRetry c s eos).1.urr = false := by rw [e]
  rw [gtCallback_marked c _ h1 h2 h3, h4]
  simp only [Bool.false_eq_true, if_false]

/-- what `setupRetry` does after it marked the given-up request -/
def srRest (c : Cfg) (eos : Bool) (m : S) : S :=
  let m := if !eos then resetUpstream c m else m
  let m := if m.perTry then { m with perTry := false } else m
  { m with urr := false }

/-- the regenerated `setupRetry` with something interleaved at the yield site right after the mark -/
theorem gen_setupRetry_before (c : Cfg) (w1 : S → S) (eos : Bool) (s : S) (he : s.globalExpired = false) :
    Gen.ProxyBackoff.setupRetry (srOps c) w1 id eos s = (srRest c eos (w1 { s with setupRetry := true }), true) := by
  unfold Gen.ProxyBackoff.setupRetry srRest
  have hx : (srOps c).globalExpired s = false := he
  rw [if_neg (by rw [hx]; decide)]
  simp only [srOps, id]
  cases eos <;> simp only [Bool.not_false, Bool.not_true, Bool.false_eq_true, if_true, if_false] <;>
    split <;> rename_i hp <;> simp only [hp, ↓reduceIte, Bool.false_eq_true, if_false, if_true]

theorem srRest_eq (c : Cfg) (eos : Bool) (s : S) (he : s.globalExpired = false) :
    (setupRetry c s eos).1 = srRest c eos { s with setupRetry := true } := by
  have := gen_setupRetry_before c id eos s he
  rw [← setupRetry_regenerated] at this
  rw [this]
  rfl

/-- what the callback writes: timer fired / expiry / response slot -/
def setT (g e u : Bool) (x : S) : S := { x with global := g, globalExpired := e, urr := u }

theorem resetUpstream_setT (c : Cfg) (x : S) (g e u : Bool) : resetUpstream c (setT g e u x) = setT g e u (resetUpstream c x) := by
  unfold resetUpstream
  cases h : curStream x with
  | none =>
    have : curStream (setT g e u x) = none := h
    rw [this]
  | some k =>
    have : curStream (setT g e u x) = some k := h
    rw [this]
    rfl

theorem resetUpstream_mark (c : Cfg) (x : S) :
    resetUpstream c { x with setupRetry := true } = { resetUpstream c x with setupRetry := true } := by
  unfold resetUpstream
  cases h : curStream x with
  | none =>
    have : curStream { x with setupRetry := true } = none := h
    rw [this]
  | some k =>
    have : curStream { x with setupRetry := true } = some k := h
    rw [this]
    rfl

theorem srRest_setT (c : Cfg) (eos : Bool) (m : S) (g e u : Bool) :
    srRest c eos (setT g e u m) = { srRest c eos m with global := g, globalExpired := e } := by
  unfold srRest
  have h1 : (if (!eos) = true then resetUpstream c (setT g e u m) else setT g e u m) =
      setT g e u (if (!eos) = true then resetUpstream c m else m) := by
    cases eos
    · simp only [Bool.not_false, if_true]; exact resetUpstream_setT c m g e u
    · simp only [Bool.not_true, Bool.false_eq_true, if_false]
  simp only [h1]
  generalize (if (!eos) = true then resetUpstream c m else m) = m1
  have hq : (setT g e u m1).perTry = m1.perTry := rfl
  by_cases hp : m1.perTry = true
  · rw [if_pos (by rw [hq]; exact hp), if_pos hp]; rfl
  · rw [if_neg (by rw [hq]; exact hp), if_neg hp]; rfl

/-- **the global timer callback right after `setupRetry` marked the given-up request** (yield site 1, before the upstream
request is reset and the slot swung back): the timer has fired and the expiry is recorded; the callback's compare-and-swap wins
only if the slot was free (a retry after an upstream reset — it then resets the given-up request itself, its `OnResetStream` is
dropped); `setupRetry` goes on and swings the slot back: the slot ends up FREE either way -/
theorem setupRetry_window_after_mark (c : Cfg) (s : S) (eos : Bool) (hc : s.cleaned = false) (he : s.globalExpired = false)
    (hu : s.up.isSome = true) :
    (Gen.ProxyBackoff.setupRetry (srOps c) (gtCallback c) id eos s).1 =
      { (setupRetry c (if s.urr then s else resetUpstream c s) eos).1 with global := false, globalExpired := true } := by
  have hm := gtCallback_marked c { s with setupRetry := true } hc rfl hu
  rw [gen_setupRetry_before c _ eos s he, hm]
  have he2 : (if s.urr = true then s else resetUpstream c s).globalExpired = false := by split <;> simp [he]
  rw [srRest_eq c eos _ he2]
  by_cases hr : s.urr = true
  · rw [if_pos hr, if_pos hr]
    have e1 : ({ s with setupRetry := true, global := false, globalExpired := true } : S) =
        setT false true s.urr { s with setupRetry := true } := rfl
    rw [e1, srRest_setT]
  · rw [if_neg hr, if_neg hr]
    have e1 : ({ s with setupRetry := true, global := false, globalExpired := true, urr := true } : S) =
        setT false true true { s with setupRetry := true } := rfl
    rw [e1, resetUpstream_setT, resetUpstream_mark, srRest_setT]

/-! ### from the windows to the label `gtInSetup` -/

/-- forget the listener registration of client streams that are gone (nothing reads it: `upResetL` tests `live` first) -/
def normL (s : S) : S := { s with streams := s.streams.map (fun st => { st with listening := st.live && st.listening }) }

theorem map_unlisten_dead (l : List Stream) (k : Nat) (h : ∀ st, l[k]? = some st → st.live = false) :
    (setStream l k unlisten).map (fun st => { st with listening := st.live && st.listening }) =
      l.map (fun st => { st with listening := st.live && st.listening }) := by
  induction l generalizing k with
  | nil => simp [setStream]
  | cons x r ih =>
    cases k with
    | zero =>
      have hx : x.live = false := h x (by simp)
      simp [setStream, unlisten, hx]
    | succ k =>
      simp only [setStream, List.map_cons, List.cons.injEq, true_and]
      exact ih k (fun st hst => h st (by simpa using hst))

/-- resetting an upstream request whose client stream is gone changes nothing but that stream's listener registration -/
theorem normL_resetUpstream_dead (c : Cfg) (x : S) (h : ∀ k, curStream x = some k → streamLive x k = false) :
    normL (resetUpstream c x) = normL x := by
  unfold resetUpstream
  cases hk : curStream x with
  | none => rfl
  | some k =>
    have hl := h k hk
    have hst : ∀ st, x.streams[k]? = some st → st.live = false := by
      intro st hs
      simpa [streamLive, hs] using hl
    have hl1 : ∀ t : List Ev, streamLive { x with streams := setStream x.streams k unlisten, trace := t } k = false := by
      intro t
      simp only [streamLive, setStream_get, if_true]
      cases hs : x.streams[k]? with
      | none => rfl
      | some st => simp [unlisten, hst st hs]
    have hl2 : ∀ t : List Ev, streamLiveCounted { x with streams := setStream x.streams k unlisten, trace := t } k = false := by
      intro t
      simp only [streamLiveCounted, setStream_get, if_true]
      cases hs : x.streams[k]? with
      | none => rfl
      | some st => simp [unlisten, hst st hs]
    simp only [destroyStream, hl1, hl2, hl, Bool.false_eq_true, if_false, normL]
    rw [map_unlisten_dead x.streams k hst]

/-- the rest of the worker's phase once `setupRetry` has returned: `onUpstreamReset` clears `upstreamReset`, `processError`
finds the marked request, detaches it and hands back the phase `Retry`, `receive`'s loop re-enters there -/
def restOfPhase (c : Cfg) (x : S) (e : Bool) : S := finishOf (peTail c { x with upReset := false } e)

/-- the state the worker goes to sleep in -/
def toBackoff (x : S) : S := { x with upReset := false, up := some none, setupRetry := false, phase := .Retry, notify := false }

theorem restOfPhase_marked (c : Cfg) (x : S) (e : Bool) (hd : x.downReset = false) (hdi : x.direct = false)
    (hu : x.up.isSome = true) (hm : x.setupRetry = true) (hp : x.pass < Gen.ProxyPhase.loopBudget) :
    restOfPhase c x e = toBackoff x := by
  have hk : retryKeepsBudget = true := by decide
  unfold restOfPhase peTail finishOf reenter toBackoff
  simp [hd, hdi, hu, hm, hk, hp]

theorem normL_toBackoff (x : S) : normL (toBackoff x) = toBackoff (normL x) := rfl
theorem normL_setT (g e u : Bool) (x : S) : normL (setT g e u x) = setT g e u (normL x) := rfl

/-- **the label `gtInSetup true` is the callback at yield site 2**: run the regenerated `setupRetry` with the global timer
callback interleaved right after the swing of the response slot, then the rest of the worker's phase; the state the worker goes
to sleep in is — up to the listener registration of the client stream that is gone — the back-off state of the un-interleaved
run followed by the label `gtInSetup true` -/
theorem gtInSetup_after_swing (c : Cfg) (s : S) (eos e : Bool) (hc : s.cleaned = false) (he : s.globalExpired = false)
    (hu : s.up.isSome = true) (hd : s.downReset = false) (hdi : s.direct = false) (hg : s.global = true)
    (hrun : s.running = true) (hp : s.pass < Gen.ProxyPhase.loopBudget)
    (hdead : ∀ k, curStream (setupRetry c s eos).1 = some k → streamLive (setupRetry c s eos).1 k = false) :
    normL (restOfPhase c (Gen.ProxyBackoff.setupRetry (srOps c) id (gtCallback c) eos s).1 e) =
      normL (gtInSetup (restOfPhase c (setupRetry c s eos).1 e) true) := by
  rw [setupRetry_window_after_swing c s eos hc he hu]
  have hst : Gen.ProxyTimers.setupRetryStopsGlobal = false := by decide
  have hrec : globalCallbackRecordsExpiry = true := by decide
  have e0 := srRest_eq c eos s he
  generalize hN : (setupRetry c s eos).1 = N at hdead e0 ⊢
  have f1 : N.downReset = false := by rw [e0]; unfold srRest; cases eos <;> simp [hd] <;> split <;> simp [hd]
  have f2 : N.direct = false := by rw [e0]; unfold srRest; cases eos <;> simp [hdi] <;> split <;> simp [hdi]
  have f3 : N.up.isSome = true := by rw [e0]; unfold srRest; cases eos <;> simp [hu] <;> split <;> simp [hu]
  have f4 : N.setupRetry = true := by rw [e0]; unfold srRest; cases eos <;> simp <;> split <;> simp
  have f5 : N.pass = s.pass := by rw [e0]; unfold srRest; cases eos <;> simp <;> split <;> simp
  have f6 : N.running = true := by rw [e0]; unfold srRest; cases eos <;> simp [hrun] <;> split <;> simp [hrun]
  have f7 : N.global = true := by rw [e0]; unfold srRest; cases eos <;> simp [hg] <;> split <;> simp [hg]
  have e1 : ({ N with global := false, globalExpired := true, urr := true } : S) = setT false true true N := rfl
  rw [e1]
  have g1 : restOfPhase c (resetUpstream c (setT false true true N)) e = toBackoff (resetUpstream c (setT false true true N)) :=
    restOfPhase_marked c _ e (by simp [setT, f1]) (by simp [setT, f2]) (by simp [setT, f3]) (by simp [setT, f4])
      (by simp [setT, f5, hp])
  have g2 : restOfPhase c N e = toBackoff N := restOfPhase_marked c N e f1 f2 f3 f4 (by rw [f5]; exact hp)
  rw [g1, g2, normL_toBackoff, normL_resetUpstream_dead c (setT false true true N) hdead, normL_setT]
  have g3 : gtInSetup (toBackoff N) true = setT false true true (toBackoff N) := by
    unfold gtInSetup
    rw [if_neg (by simp [backoff, toBackoff, f6, f7])]
    simp [setT, hrec]
  rw [g3]
  rfl

theorem normL_srRest_true (c : Cfg) (m : S) : normL (srRest c true m) = srRest c true (normL m) := by
  unfold srRest
  simp only [Bool.not_true, Bool.false_eq_true, if_false]
  have hq : (normL m).perTry = m.perTry := rfl
  by_cases hp : m.perTry = true
  · rw [if_pos hp, if_pos (by rw [hq]; exact hp)]; rfl
  · rw [if_neg hp, if_neg (by rw [hq]; exact hp)]; rfl

theorem srRest_urr (c : Cfg) (eos : Bool) (m : S) : (srRest c eos m).urr = false := rfl

/-- **the label `gtInSetup false` is the callback at yield site 1** (right after the mark): with the response slot taken (a retry
decided on a response status) the callback only records the expiry; with the slot free (a retry decided on an upstream reset:
`setupRetry(true)`, the client stream is gone) it also resets the given-up request — and `setupRetry` then frees the slot
again.  Either way the state the worker goes to sleep in is — up to the listener registration of the client stream that is
gone — the back-off state of the un-interleaved run followed by the label `gtInSetup false` -/
theorem gtInSetup_after_mark (c : Cfg) (s : S) (eos e : Bool) (hc : s.cleaned = false) (he : s.globalExpired = false)
    (hu : s.up.isSome = true) (hd : s.downReset = false) (hdi : s.direct = false) (hg : s.global = true)
    (hrun : s.running = true) (hp : s.pass < Gen.ProxyPhase.loopBudget)
    (hcase : s.urr = true ∨ (eos = true ∧ ∀ k, curStream s = some k → streamLive s k = false)) :
    normL (restOfPhase c (Gen.ProxyBackoff.setupRetry (srOps c) (gtCallback c) id eos s).1 e) =
      normL (gtInSetup (restOfPhase c (setupRetry c s eos).1 e) false) := by
  rw [setupRetry_window_after_mark c s eos hc he hu]
  have hrec : globalCallbackRecordsExpiry = true := by decide
  -- the un-interleaved run
  have e0 := srRest_eq c eos s he
  have f1 : (setupRetry c s eos).1.downReset = false := by rw [e0]; unfold srRest; cases eos <;> simp [hd] <;> split <;> simp [hd]
  have f2 : (setupRetry c s eos).1.direct = false := by rw [e0]; unfold srRest; cases eos <;> simp [hdi] <;> split <;> simp [hdi]
  have f3 : (setupRetry c s eos).1.up.isSome = true := by rw [e0]; unfold srRest; cases eos <;> simp [hu] <;> split <;> simp [hu]
  have f4 : (setupRetry c s eos).1.setupRetry = true := by rw [e0]; unfold srRest; cases eos <;> simp <;> split <;> simp
  have f5 : (setupRetry c s eos).1.pass = s.pass := by rw [e0]; unfold srRest; cases eos <;> simp <;> split <;> simp
  have f6 : (setupRetry c s eos).1.running = true := by rw [e0]; unfold srRest; cases eos <;> simp [hrun] <;> split <;> simp [hrun]
  have f7 : (setupRetry c s eos).1.global = true := by rw [e0]; unfold srRest; cases eos <;> simp [hg] <;> split <;> simp [hg]
  have f8 : (setupRetry c s eos).1.urr = false := by rw [e0]; rfl
  have g2 : restOfPhase c (setupRetry c s eos).1 e = toBackoff (setupRetry c s eos).1 :=
    restOfPhase_marked c _ e f1 f2 f3 f4 (by rw [f5]; exact hp)
  have g3 : gtInSetup (toBackoff (setupRetry c s eos).1) false = setT false true false (toBackoff (setupRetry c s eos).1) := by
    unfold gtInSetup
    rw [if_neg (by simp [backoff, toBackoff, f6, f7])]
    simp [setT, hrec, toBackoff, f8]
  rw [g2, g3]
  rcases hcase with hr | ⟨heos, hdead⟩
  · rw [if_pos hr]
    have e1 : ({ (setupRetry c s eos).1 with global := false, globalExpired := true } : S) =
        setT false true false (setupRetry c s eos).1 := by
      unfold setT; rw [← f8]
    rw [e1]
    have g1 : restOfPhase c (setT false true false (setupRetry c s eos).1) e = toBackoff (setT false true false (setupRetry c s eos).1) :=
      restOfPhase_marked c _ e (by simp [setT, f1]) (by simp [setT, f2]) (by simp [setT, f3]) (by simp [setT, f4])
        (by simp [setT, f5, hp])
    rw [g1]
    rfl
  · subst heos
    by_cases hr : s.urr = true
    · rw [if_pos hr]
      have e1 : ({ (setupRetry c s true).1 with global := false, globalExpired := true } : S) =
          setT false true false (setupRetry c s true).1 := by
        unfold setT; rw [← f8]
      rw [e1]
      have g1 : restOfPhase c (setT false true false (setupRetry c s true).1) e = toBackoff (setT false true false (setupRetry c s true).1) :=
        restOfPhase_marked c _ e (by simp [setT, f1]) (by simp [setT, f2]) (by simp [setT, f3]) (by simp [setT, f4])
          (by simp [setT, f5, hp])
      rw [g1]
      rfl
    · rw [if_neg hr]
      have he' : (resetUpstream c s).globalExpired = false := by simp [he]
      have e0' := srRest_eq c true (resetUpstream c s) he'
      have e1 : ({ (setupRetry c (resetUpstream c s) true).1 with global := false, globalExpired := true } : S) =
          setT false true false (setupRetry c (resetUpstream c s) true).1 := by
        unfold setT; rw [e0']; rfl
      rw [e1]
      have g1 : restOfPhase c (setT false true false (setupRetry c (resetUpstream c s) true).1) e =
          toBackoff (setT false true false (setupRetry c (resetUpstream c s) true).1) := by
        refine restOfPhase_marked c _ e ?_ ?_ ?_ ?_ ?_ <;> rw [e0'] <;> unfold srRest setT <;>
          simp [hd, hdi, hu, hp] <;> split <;> simp [hd, hdi, hu, hp]
      rw [g1]
      have hm : normL ({ resetUpstream c s with setupRetry := true } : S) = normL ({ s with setupRetry := true } : S) := by
        have := normL_resetUpstream_dead c s hdead
        unfold normL at this ⊢
        simp only [S.mk.injEq] at this ⊢
        simp [this]
      have hNN : normL (setupRetry c (resetUpstream c s) true).1 = normL (setupRetry c s true).1 := by
        rw [e0', e0, normL_srRest_true, normL_srRest_true, hm]
      show toBackoff (setT false true false (normL (setupRetry c (resetUpstream c s) true).1)) =
        toBackoff (setT false true false (normL (setupRetry c s true).1))
      rw [hNN]

end MosnVerif.Model.Downstream
