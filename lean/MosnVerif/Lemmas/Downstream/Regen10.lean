import MosnVerif.Lemmas.Downstream.P3Base
/-!
proxy10 — the hand-written pieces of the machine that take part in the retry set-up and in the arming of the global timer are
the REGENERATED step programs of `Gen.ProxyBackoff` (each proved equal, so a change of the Go statements or of their order
changes what the theorems talk about), and the label `gtInSetup` is what the regenerated programs compute when the global timer
callback runs at one of the worker's two yield sites inside `setupRetry`.
-/
namespace MosnVerif.Model.Downstream
open MosnVerif.Gen.ProxyPhase MosnVerif.Gen.ProxyReason

/-- `upstreamRequest.OnResetStream(reason)` on the machine state -/
def rsOps (r : Reason) : Gen.ProxyBackoff.RSOps S where
  marked := fun s => s.setupRetry
  upstreamReset := fun s => s.upReset
  raiseReset := fun s => { s with upReset := true }
  storeReason := fun s => { s with resetReason := r }
  notify := sendNotify

/-- the machine's `upOnResetStream` is the regenerated `OnResetStream`: dropped when the request is marked `setupRetry`, else a
compare-and-swap on `upstreamReset`, the reason, the wake-up -/
theorem upOnResetStream_regenerated (s : S) (r : Reason) :
    upOnResetStream s r = Gen.ProxyBackoff.onResetStream (rsOps r) s := by
  unfold upOnResetStream Gen.ProxyBackoff.onResetStream
  cases h1 : s.setupRetry <;> cases h2 : s.upReset <;> simp [rsOps, sendNotify, h1, h2] <;> (cases s; simp_all)

/-- the global timer callback on the machine state -/
def gcOps (c : Cfg) : Gen.ProxyBackoff.GCOps S where
  cleaned := fun s => s.cleaned
  idMatches := fun _ => true
  responseReceived := fun s => s.urr
  hasUpstreamRequest := fun s => s.up.isSome
  marked := fun s => s.setupRetry
  recordExpiry := fun s => { s with globalExpired := true }
  takeSlot := fun s => { s with urr := true }
  resetUpstream := resetUpstream c
  onResetStream := fun s => upOnResetStream s .UpstreamGlobalTimeout

/-- the machine's `globalFire` is the regenerated callback (the timer fires once: `global := false` first) -/
theorem globalFire_regenerated (c : Cfg) (s : S) :
    globalFire c s = if !s.global then s else Gen.ProxyBackoff.globalCallback (gcOps c) { s with global := false } := by
  unfold globalFire Gen.ProxyBackoff.globalCallback Gen.ProxyBackoff.onResponseTimeout
  have hrec : globalCallbackRecordsExpiry = true := by decide
  cases hg : s.global <;> cases hc : s.cleaned <;> cases hu : s.urr <;> cases hup : s.up.isSome <;>
    simp [gcOps, hg, hc, hu, hup, hrec]

/-- `setupRetry` on the machine state -/
def srOps (c : Cfg) : Gen.ProxyBackoff.SROps S where
  globalExpired := fun s => s.globalExpired
  hasPerTryTimer := fun s => s.perTry
  hasGlobalTimer := fun s => s.gtObj
  mark := fun s => { s with setupRetry := true }
  resetUpstream := resetUpstream c
  stopPerTry := fun s => { s with perTry := false }
  stopGlobal := fun s => { s with global := false }
  forgetGlobal := fun s => { s with gtObj := false }
  freeSlot := fun s => { s with urr := false }

/-- the machine's `setupRetry` is the regenerated program with nothing interleaved at the two yield sites -/
theorem setupRetry_regenerated (c : Cfg) (s : S) (eos : Bool) :
    setupRetry c s eos = Gen.ProxyBackoff.setupRetry (srOps c) id id eos s := by
  rw [setupRetry_eq]
  have hck : setupRetryChecksExpiry = true := by decide
  cases hge : s.globalExpired <;> cases eos <;>
    simp [Gen.ProxyBackoff.setupRetry, srOps, hck, hge]

/-- `onUpstreamRequestSent` on the machine state -/
def sentOps (c : Cfg) : Gen.ProxyBackoff.SentOps S where
  hasUpstreamRequest := fun s => s.up.isSome
  oneway := fun _ => c.oneway
  globalPositive := fun _ => true
  hasGlobalTimer := fun s => s.gtObj
  setRequestSent := fun s => { s with reqSent := true }
  setupPerReqTimeout := setupPerReqTimeout c
  stopGlobal := fun s => { s with global := false }
  armGlobal := fun s => { s with global := true, gtGen := s.gtGen + 1, gtObj := true }

/-- the machine's `onUpstreamRequestSent` is the regenerated one: it is the ONLY function that creates the global timer
(`armSites`), and it does so exactly when an upstream request exists and the request is two-way -/
theorem onUpstreamRequestSent_regenerated (c : Cfg) (s : S) :
    onUpstreamRequestSent c s = Gen.ProxyBackoff.onUpstreamRequestSent (sentOps c) s := by
  unfold onUpstreamRequestSent Gen.ProxyBackoff.onUpstreamRequestSent
  cases hu : s.up.isSome <;> cases ho : c.oneway <;> cases hg : s.gtObj <;>
    simp [sentOps, setupPerReqTimeout, hu, ho, hg]

/-- where the global timer is created, forgotten, and who calls `onUpstreamRequestSent` (regenerated from pkg/proxy) -/
theorem global_timer_sites :
    Gen.ProxyBackoff.armSites = ["onUpstreamRequestSent"] ∧ Gen.ProxyBackoff.forgetSites = ["cleanUp"] ∧
    Gen.ProxyBackoff.requestSentCallers = ["doRetry", "receiveData", "receiveHeaders", "receiveTrailers"] := by decide

/-- the condition under which `cleanStream` resets the upstream request is the machine's (`cleanBody`): an upstream request
exists, its processing is not done, the request is two-way — whatever the phase, whether or not a retry is being set up -/
theorem cleanResets_regenerated (c : Cfg) (s : S) (p : Phase) (m : Bool) :
    Gen.ProxyBackoff.cleanResets (resetFlags c s) p m = (s.up.isSome && !s.procDone && !c.oneway) := by
  simp [Gen.ProxyBackoff.cleanResets, resetFlags]

end MosnVerif.Model.Downstream
