import MosnVerif.Lemmas.Downstream.Prov
import MosnVerif.Lemmas.Downstream.Parked
import MosnVerif.Lemmas.Downstream.Regen10
/-!
proxy10 — **the global timer is armed at most once per request** (`gtGen ≤ 1`), on every schedule.

`gtGen` counts the creations of the global timer (`s.responseTimer = utils.NewTimer(…)`): the regenerated `armSites` say that
`onUpstreamRequestSent` is the only function that creates it, the regenerated `requestSentCallers` that it is called by
`receiveHeaders`, `receiveData`, `receiveTrailers` (each only for the part that ends the request) and by `doRetry` (only when no
timer object exists).  The invariant: nothing is armed before the request is completely sent, the part that completes the
request is sent once (phase order), and a retry re-arms nothing (`lstep_doRetry`: while a retry is possible the timer of a sent
request is armed, has fired, or a local reply is pending — K24 — and `doRetry` returns early in the last two cases).
-/
namespace MosnVerif.Model.Downstream
open MosnVerif.Gen.ProxyPhase MosnVerif.Gen.ProxyReason MosnVerif.Gen.ProxyRetry

/-! ### where a worker step can lead -/

/-- the phases `processError` hands back with an error -/
def errPhase (p : Phase) : Bool := p == .End || p == .Oneway || p == .UpFilter || p == .Retry

theorem peTail_phase (c : Cfg) (s : S) (e : Bool) (p : Phase) (s' : S) (h : peTail c s e = (s', some p)) : errPhase p = true := by
  unfold peTail at h
  split at h
  · cases h; rfl
  · split at h
    · simp only [] at h
      split at h
      · cases h; rfl
      · split at h
        · cases h; rfl
        · cases h
    · split at h
      · cases h; rfl
      · split at h
        · cases h; rfl
        · cases h

theorem processError_phase (c : Cfg) (s s' : S) (p : Phase) (h : processError c s = (s', some p)) : errPhase p = true := by
  rw [processError_spec] at h
  split at h
  · cases h; rfl
  · split at h
    · split at h
      · cases h; rfl
      · exact peTail_phase c _ _ p s' h
    · exact peTail_phase c _ _ p s' h

/-- after `finishPhase` the worker is at the next phase or at a phase `processError` handed back -/
theorem finishPhase_phase (c : Cfg) (x : S) :
    (finishPhase c x).phase = x.phase.next ∨ errPhase (finishPhase c x).phase = true := by
  unfold finishPhase
  cases hr : processError c x with
  | mk s' o =>
    cases o with
    | none =>
      left
      simp only
      rw [finishOf_pe_none_phase c x s' hr]
    | some p =>
      right
      simp only
      rw [reenter_phase]
      exact processError_phase c x s' p hr

theorem upAppendHeaders_phase (c : Cfg) (s : S) (eos : Bool) : (upAppendHeaders c s eos).phase = s.phase := by
  unfold upAppendHeaders
  split
  · rfl
  · simp only; split <;> rfl

theorem receiveHeaders_phase (c : Cfg) (s : S) (eos : Bool) : (receiveHeaders c s eos).phase = s.phase := by
  unfold receiveHeaders
  simp only
  split <;> simp [onUpstreamRequestSent, upAppendHeaders_phase]

theorem receiveData_phase (c : Cfg) (s : S) (eos : Bool) : (receiveData c s eos).phase = s.phase := by
  unfold receiveData
  split
  · rfl
  · simp only
    have key : ∀ x : S, x.phase = s.phase → (if x.procDone = true then cleanStream c x else x).phase = s.phase := by
      intro x hx; split
      · rw [cleanStream_phase]; exact hx
      · exact hx
    apply key
    cases eos <;> simp [upAppendData, onUpstreamRequestSent]

theorem receiveTrailers_phase (c : Cfg) (s : S) : (receiveTrailers c s).phase = s.phase := by
  unfold receiveTrailers
  split
  · rfl
  · simp only
    have key : ∀ x : S, x.phase = s.phase → (if x.procDone = true then cleanStream c x else x).phase = s.phase := by
      intro x hx; split
      · rw [cleanStream_phase]; exact hx
      · exact hx
    apply key
    simp [upAppendTrailers, onUpstreamRequestSent]

theorem doRetry_phase (c : Cfg) (s : S) : (doRetry c s).phase = s.phase := by
  rw [doRetry_eq]
  split
  · rfl
  split
  · simp [upOnResetStream]
  unfold doRetryBody
  split
  · split <;> simp [sendHijack]
  · simp only
    cases hd : c.hasData <;> cases ht : c.hasTrailers <;>
      simp [upAppendData, upAppendTrailers, upAppendHeaders_phase] <;> split <;>
      simp [onUpstreamRequestSent, setupPerReqTimeout, upAppendHeaders_phase]

/-- **where one worker step leads**: nowhere (the worker has returned, is parked, or waits for a body), to the next phase, to a
phase `processError` handed back, or — from the one-way phase — to `WaitNotify`; or the worker returns -/
theorem work_phase (c : Cfg) (s : S) :
    work c s = s ∨ (work c s).running = false ∨ (work c s).phase = s.phase.next ∨ errPhase (work c s).phase = true ∨
    (work c s).phase = .WaitNotify := by
  unfold work
  by_cases hrun : s.running = true
  rotate_left
  · left; simp [hrun]
  rw [if_neg (by simp [hrun])]
  by_cases hbw : bodyWait s = true
  · left; rw [if_pos hbw]
  rw [if_neg hbw]
  have fin : ∀ x : S, x.phase = s.phase →
      (finishPhase c x).phase = s.phase.next ∨ errPhase (finishPhase c x).phase = true := by
    intro x hx; rw [← hx]; exact finishPhase_phase c x
  have lift : ∀ t : S, (t.phase = s.phase.next ∨ errPhase t.phase = true) →
      t = s ∨ t.running = false ∨ t.phase = s.phase.next ∨ errPhase t.phase = true ∨ t.phase = .WaitNotify := by
    intro t ht
    rcases ht with h | h
    · exact Or.inr (Or.inr (Or.inl h))
    · exact Or.inr (Or.inr (Or.inr (Or.inl h)))
  split
  · exact Or.inr (Or.inr (Or.inl rfl))
  · exact lift _ (fin s rfl)
  · exact lift _ (fin s rfl)
  · exact lift _ (fin s rfl)
  · exact lift _ (fin _ (chooseHost_phase c s))
  · exact lift _ (fin s rfl)
  · exact lift _ (fin _ (receiveHeaders_phase c s _))
  · split
    · exact lift _ (fin _ (receiveData_phase c s _))
    · exact Or.inr (Or.inr (Or.inl rfl))
  · split
    · exact lift _ (fin _ (receiveTrailers_phase c s))
    · exact Or.inr (Or.inr (Or.inl rfl))
  · have hn : onewayNext = Phase.WaitNotify := by decide
    split
    · cases hr : processError c (cleanStream c s) with
      | mk s' o =>
        cases o with
        | none => simp only; right; right; right; right; exact hn
        | some p =>
          simp only
          right; right; right; left
          rw [reenter_phase]; exact processError_phase c _ s' p hr
    · right; right; right; right; exact hn
  · exact lift _ (fin _ (doRetry_phase c s))
  · split
    · exact lift _ (fin _ rfl)
    · left; rfl
  · cases hr : processError c s with
    | mk s' o =>
      cases o with
      | none =>
        simp only
        right; right; left
        exact congrArg Phase.next (finishOf_pe_none_phase c s s' hr)
      | some p =>
        simp only
        right; right; right; left
        rw [reenter_phase]; exact processError_phase c _ s' p hr
  · split
    · refine lift _ (fin _ ?_)
      split
      · rfl
      · exact onUpstreamHeaders_phase c s _
    · exact Or.inr (Or.inr (Or.inl rfl))
  · split
    · split
      · refine lift _ (fin _ ?_)
        split
        · rfl
        · exact onUpstreamData_phase c s _
      · exact Or.inr (Or.inr (Or.inl rfl))
    · exact Or.inr (Or.inr (Or.inl rfl))
  · split
    · split
      · refine lift _ (fin _ ?_)
        split
        · rfl
        · exact onUpstreamTrailers_phase c s
      · exact Or.inr (Or.inr (Or.inl rfl))
    · exact Or.inr (Or.inr (Or.inl rfl))
  · right; left; rfl

/-! ### the timer invariant -/

/-- nothing is armed before the request is completely sent; at most one timer was armed; and while the request is being sent
for the first time it is not yet marked sent as long as a part is still to come -/
structure TInv (c : Cfg) (s : S) : Prop where
  unsent : s.reqSent = false → s.gtGen = 0
  once : s.gtGen ≤ 1
  data : s.running = true → s.phase = .DownRecvData → (c.hasData = true ∨ c.hasTrailers = true) → s.reqSent = false
  trl : s.running = true → s.phase = .DownRecvTrailer → c.hasTrailers = true → s.reqSent = false

theorem tinv_init (c : Cfg) (ar aq : Nat) : TInv c (init ar aq) :=
  ⟨fun _ => rfl, by simp [init], fun _ h => by simp [init] at h, fun _ h => by simp [init] at h⟩

/-- the labels of other goroutines touch neither the worker's position nor the timer count -/
theorem tinv_async (c : Cfg) (ar aq : Nat) (s : S) (l : Label) (hl : l ≠ .work) (h : Inv c ar aq s) (t : TInv c s)
    (hph : (step c s l).phase = s.phase ∧ (step c s l).running = s.running) : TInv c (step c s l) := by
  obtain ⟨_, _, a1, a2⟩ := step_async c ar aq s l hl h
  refine ⟨fun hq => ?_, by rw [a2]; exact t.once, fun hr hp hd => ?_, fun hr hp hd => ?_⟩
  · rw [a2]; exact t.unsent (by rw [← a1]; exact hq)
  · rw [a1]; exact t.data (by rw [← hph.2]; exact hr) (by rw [← hph.1]; exact hp) hd
  · rw [a1]; exact t.trl (by rw [← hph.2]; exact hr) (by rw [← hph.1]; exact hp) hd

/-- the labels of other goroutines leave phase and `running` alone -/
theorem async_phase (c : Cfg) (ar aq : Nat) (s : S) (l : Label) (hl : l ≠ .work) (h : Inv c ar aq s) :
    (step c s l).phase = s.phase ∧ (step c s l).running = s.running := by
  cases l with
  | work => exact absurd rfl hl
  | upResp k code d t =>
    simp only [step, upResp]
    cases hk : s.streams[k]? with
    | none => exact ⟨rfl, rfl⟩
    | some st => simp only; split <;> (try split) <;> simp
  | upRespS k code d t =>
    simp only [step, upRespS, upResp]
    split
    · cases hk : s.streams[k]? with
      | none => exact ⟨rfl, rfl⟩
      | some st => simp only; split <;> (try split) <;> simp
    · cases hk : s.streams[k]? with
      | none => exact ⟨rfl, rfl⟩
      | some st => simp only; split <;> (try split) <;> simp
  | upReset k r =>
    simp only [step, upResetL]
    cases hk : s.streams[k]? with
    | none => exact ⟨rfl, rfl⟩
    | some st => simp only; split <;> (try split) <;> simp [upOnResetStream]
  | upEnd k =>
    simp only [step, upEndL]
    cases hk : s.streams[k]? with
    | none => exact ⟨rfl, rfl⟩
    | some st => simp only; split <;> simp
  | poolFail f => exact ⟨rfl, rfl⟩
  | hostsGone => exact ⟨rfl, rfl⟩
  | perTryFire =>
    simp only [step, perTryFire]
    split
    · exact ⟨rfl, rfl⟩
    · split <;> (try split) <;> (try split) <;> first | exact ⟨rfl, rfl⟩ | simp [upOnResetStream, orFlag]
  | globalFire =>
    simp only [step, globalFire]
    split
    · exact ⟨rfl, rfl⟩
    · split <;> (try split) <;> (try split) <;> (try split) <;> first | exact ⟨rfl, rfl⟩ | simp [upOnResetStream]
  | downReset r =>
    simp only [step, downResetL]
    split
    · exact ⟨rfl, rfl⟩
    · exact ⟨rfl, rfl⟩
  | connClose =>
    simp only [step, connClose]
    split
    · exact ⟨rfl, rfl⟩
    · exact ⟨rfl, rfl⟩
  | terminate code =>
    simp only [step]; rw [terminateL_eq]
    split <;> (try split) <;> (try split) <;> (try split) <;> simp [terminateAcc]
  | terminateStale g code =>
    simp only [step]; rw [terminateStale_eq]
    split
    · rw [terminateL_eq]
      split <;> (try split) <;> (try split) <;> (try split) <;> simp [terminateAcc]
    · exact ⟨rfl, rfl⟩
  | terminateRaced code k d t =>
    simp only [step]; rw [terminateRaced_eq, terminateL_eq]
    split <;> (try split) <;> (try split) <;> (try split) <;> simp [terminateAcc]
  | lateResp k d t =>
    simp only [step]; rw [lateBackoff_noop c ar aq s k d t h]; exact ⟨rfl, rfl⟩
  | gtInSetup b =>
    simp only [step, gtInSetup]
    split <;> simp

theorem next_eq_drd (p : Phase) (h : p.next = .DownRecvData) : p = .DownRecvHeader := by
  cases p <;> simp [Phase.next] at h ⊢
theorem next_eq_drt (p : Phase) (h : p.next = .DownRecvTrailer) : p = .DownRecvData := by
  cases p <;> simp [Phase.next] at h ⊢

/-- `reqSent` after the first `receiveHeaders` / after `receiveData` -/
theorem receiveHeaders_reqSent (c : Cfg) (s : S) (eos : Bool) : (receiveHeaders c s eos).reqSent = (eos || s.reqSent) := by
  unfold receiveHeaders
  simp only
  have := (fr_upAppendHeaders c s eos).2.2.1
  cases eos <;> simp [onUpstreamRequestSent, this]

theorem receiveData_reqSent_open (c : Cfg) (s : S) : (receiveData c s false).reqSent = s.reqSent := by
  have h := lstep_receiveData c s false
  unfold receiveData at h ⊢
  split
  · rfl
  · simp only [Bool.false_eq_true, if_false]
    have key : ∀ x : S, x.reqSent = s.reqSent → (if x.procDone = true then cleanStream c x else x).reqSent = s.reqSent := by
      intro x hx; split
      · rw [(step_cleanStream c x).2.2.1]; exact hx
      · exact hx
    apply key
    simp [upAppendData]

/-- the worker label preserves the timer invariant -/
theorem tinv_work (c : Cfg) (ar aq : Nat) (s : S) (h : Inv c ar aq s) (t : TInv c s) : TInv c (work c s) := by
  have hl := lstep_work c ar aq s h
  by_cases hrun : s.running = true
  rotate_left
  · have : work c s = s := by unfold work; simp [hrun]
    rw [this]; exact t
  have hcl := inv_not_cleaned h hrun
  by_cases hbw : bodyWait s = true
  · have : work c s = s := by unfold work; simp [hrun, hbw]
    rw [this]; exact t
  -- the phases that are skipped when the request has no such part
  have skipD : s.phase = .DownRecvData → c.hasData = false → work c s = { s with phase := s.phase.next } := by
    intro hp hnd
    unfold work; rw [if_neg (by simp [hrun]), if_neg hbw]
    simp only [hp, hnd, Bool.false_eq_true, if_false]
  have skipT : s.phase = .DownRecvTrailer → c.hasTrailers = false → work c s = { s with phase := s.phase.next } := by
    intro hp hnd
    unfold work; rw [if_neg (by simp [hrun]), if_neg hbw]
    simp only [hp, hnd, Bool.false_eq_true, if_false]
  -- `reqSent` and the count, from the transition relation
  have hcount : ((work c s).reqSent = false → (work c s).gtGen = 0) ∧ (work c s).gtGen ≤ 1 := by
    cases hq : s.reqSent with
    | false =>
      have h0 := t.unsent hq
      rcases hl.2.2 with ⟨a1, a2⟩ | ⟨b1, b2, _⟩
      · exact ⟨fun _ => by rw [a2]; exact h0, by rw [a2, h0]; omega⟩
      · exact ⟨fun hh => (by rw [b1] at hh; cases hh), by omega⟩
    | true =>
      -- the request is marked sent: the part that completes it was sent, no phase sends it again, a retry re-arms nothing
      have key : (work c s).gtGen = s.gtGen ∧ (work c s).reqSent = true := by
        rcases hl.2.2 with ⟨a1, a2⟩ | ⟨b1, _, b3⟩
        · exact ⟨a2, by rw [a1]; exact hq⟩
        · refine ⟨?_, b1⟩
          have hsp := b3 hq
          simp only [sendingPhase, Bool.or_eq_true, beq_iff_eq] at hsp
          rcases hsp with (hp | hp) | hp
          · have := (h.k30 hcl (Or.inr hp)).2.1; rw [hq] at this; cases this
          · have hnd : c.hasData = false := by
              cases hd : c.hasData with
              | false => rfl
              | true => have := t.data hrun hp (Or.inl hd); rw [hq] at this; cases this
            rw [skipD hp hnd]
          · have hnt : c.hasTrailers = false := by
              cases hd : c.hasTrailers with
              | false => rfl
              | true => have := t.trl hrun hp hd; rw [hq] at this; cases this
            rw [skipT hp hnt]
      exact ⟨fun hh => (by rw [key.2] at hh; cases hh), by rw [key.1]; exact t.once⟩
  refine ⟨hcount.1, hcount.2, fun hr hp hd => ?_, fun hr hp hd => ?_⟩
  · -- the worker is now at DownRecvData: it came from DownRecvHeader
    rcases work_phase c s with e | e | e | e | e
    · rw [e] at hp ⊢; exact t.data hrun hp hd
    · rw [hr] at e; cases e
    · rw [hp] at e
      have hph := next_eq_drd s.phase e.symm
      have ew : work c s = finishPhase c (receiveHeaders c s (!c.hasData && !c.hasTrailers)) := by
        unfold work; rw [if_neg (by simp [hrun]), if_neg hbw]; simp only [hph]
      rw [ew, (step_finishPhase c _).2.2.1, receiveHeaders_reqSent]
      have hrq := (h.k30 hcl (Or.inr hph)).2.1
      rcases hd with hd | hd <;> simp [hd, hrq]
    · rw [hp] at e; cases e
    · rw [hp] at e; cases e
  · -- the worker is now at DownRecvTrailer: it came from DownRecvData
    rcases work_phase c s with e | e | e | e | e
    · rw [e] at hp ⊢; exact t.trl hrun hp hd
    · rw [hr] at e; cases e
    · rw [hp] at e
      have hph := next_eq_drt s.phase e.symm
      have hrq := t.data hrun hph (Or.inr hd)
      cases hdd : c.hasData with
      | false => rw [skipD hph hdd]; exact hrq
      | true =>
        have ew : work c s = finishPhase c (receiveData c s (!c.hasTrailers)) := by
          unfold work; rw [if_neg (by simp [hrun]), if_neg hbw]; simp only [hph, hdd, if_true]
        rw [ew, (step_finishPhase c _).2.2.1, hd]
        exact (receiveData_reqSent_open c s).trans hrq
    · rw [hp] at e; cases e
    · rw [hp] at e; cases e

/-- every label preserves the timer invariant -/
theorem tinv_step (c : Cfg) (ar aq : Nat) (s : S) (l : Label) (h : Inv c ar aq s) (t : TInv c s) : TInv c (step c s l) := by
  by_cases hl : l = .work
  · subst hl; exact tinv_work c ar aq s h t
  · exact tinv_async c ar aq s l hl h t (async_phase c ar aq s l hl h)

/-- **the timer invariant holds after every schedule** -/
theorem tinv_run (c : Cfg) (ar aq : Nat) (l : List Label) : TInv c (run c (init ar aq) l) := by
  have : ∀ (l : List Label) (s : S), Inv c ar aq s → TInv c s → TInv c (l.foldl (step c) s) := by
    intro l
    induction l with
    | nil => intro s _ t; exact t
    | cons a r ih => intro s hi t; exact ih _ (inv_step c ar aq s a hi) (tinv_step c ar aq s a hi t)
  exact this l _ (inv_init c ar aq) (tinv_init c ar aq)

end MosnVerif.Model.Downstream
