import MosnVerif.Lemmas.Downstream
/-!
# Body provenance of the downstream machine (proxy3 growth slice)

`store s` is the response the stream holds (`downstreamRespHeaders / DataBuf / Trailers` presence) with the token of the
answer each part belongs to.  Two facts, for every reachable state:

* `okS`: the stored response is ONE answer — held data and held trailers belong to the answer of the stored headers.  Every
  path that stores a response stores a complete answer: an accepted upstream response stores its three parts together, a
  local reply stores its headers and — as the REGENERATED effects of `sendHijackReply` / `sendHijackReplyWithBody` say — clears
  the held data / trailers or replaces them by its own (`okS_sendHijack`; this is the lemma a local-reply path that keeps a
  foreign body breaks).
* once response headers went downstream (`respStarted`), no label changes the stored response any more (`Step`): what the
  data / trailers phases write is what was stored when the headers were written.
-/
namespace MosnVerif.Model.Downstream
open MosnVerif.Gen.ProxyPhase MosnVerif.Gen.ProxyReason MosnVerif.Gen.ProxyRetry

/-- the stored response with the tokens of its parts -/
def store (s : S) : Option Resp × Tok × Tok × Tok := (s.resp, s.hTok, s.dTok, s.tTok)

/-- one answer: held data / trailers belong to the answer of the headers -/
def okV (v : Option Resp × Tok × Tok × Tok) : Prop :=
  ∀ r, v.1 = some r → (r.hasData = true → v.2.2.1 = v.2.1) ∧ (r.hasTrailers = true → v.2.2.2 = v.2.1)

/-- the stored response of `s` is one answer -/
def okS (s : S) : Prop := okV (store s)

/-- no global timer is armed along a transition: `reqSent` and the count of armed timers are untouched -/
def NA (s t : S) : Prop := t.reqSent = s.reqSent ∧ t.gtGen = s.gtGen

/-- an allowed transition from `s` to `t` that arms nothing: `respStarted` never goes back; either nothing stored is touched
or — only while no response headers went downstream — one complete answer is stored -/
def Step (s t : S) : Prop :=
  (t.respStarted = false → s.respStarted = false) ∧ (store t = store s ∨ (s.respStarted = false ∧ okS t)) ∧ NA s t

theorem Step.refl (s : S) : Step s s := ⟨id, Or.inl rfl, rfl, rfl⟩

theorem Step.trans {s t u : S} (h1 : Step s t) (h2 : Step t u) : Step s u := by
  refine ⟨fun h => h1.1 (h2.1 h), ?_, h2.2.2.1.trans h1.2.2.1, h2.2.2.2.trans h1.2.2.2⟩
  rcases h2.2.1 with e2 | ⟨r2, o2⟩
  · rcases h1.2.1 with e1 | ⟨r1, o1⟩
    · exact Or.inl (e2.trans e1)
    · exact Or.inr ⟨r1, by unfold okS at o1 ⊢; rw [e2]; exact o1⟩
  · exact Or.inr ⟨h1.1 r2, o2⟩

/-- the phases in which the worker sends the request upstream for the first time -/
def sendingPhase (p : Phase) : Bool := p == .DownRecvHeader || p == .DownRecvData || p == .DownRecvTrailer

/-- a transition of a whole label: like `Step`, but the request may become completely sent, arming at most one global timer —
and when the request had been sent before, only inside a sending phase (never in the retry phase, never by another goroutine) -/
def LStep (s t : S) : Prop :=
  (t.respStarted = false → s.respStarted = false) ∧ (store t = store s ∨ (s.respStarted = false ∧ okS t)) ∧
  (NA s t ∨ (t.reqSent = true ∧ t.gtGen ≤ s.gtGen + 1 ∧ (s.reqSent = true → sendingPhase s.phase = true)))

theorem Step.l {s t : S} (h : Step s t) : LStep s t := ⟨h.1, h.2.1, Or.inl h.2.2⟩

/-- a label transition followed by a transition that arms nothing -/
theorem LStep.then {s t u : S} (h1 : LStep s t) (h2 : Step t u) : LStep s u := by
  refine ⟨fun h => h1.1 (h2.1 h), ?_, ?_⟩
  · rcases h2.2.1 with e2 | ⟨r2, o2⟩
    · rcases h1.2.1 with e1 | ⟨r1, o1⟩
      · exact Or.inl (e2.trans e1)
      · exact Or.inr ⟨r1, by unfold okS at o1 ⊢; rw [e2]; exact o1⟩
    · exact Or.inr ⟨h1.1 r2, o2⟩
  · rcases h1.2.2 with ⟨a1, a2⟩ | ⟨b1, b2, b3⟩
    · exact Or.inl ⟨h2.2.2.1.trans a1, h2.2.2.2.trans a2⟩
    · exact Or.inr ⟨by rw [h2.2.2.1]; exact b1, by rw [h2.2.2.2]; exact b2, b3⟩

/-- a transition that arms nothing and keeps the phase, followed by a label transition -/
theorem Step.thenL {s t u : S} (h1 : Step s t) (hp : t.phase = s.phase) (h2 : LStep t u) : LStep s u := by
  refine ⟨fun h => h1.1 (h2.1 h), ?_, ?_⟩
  · rcases h2.2.1 with e2 | ⟨r2, o2⟩
    · rcases h1.2.1 with e1 | ⟨r1, o1⟩
      · exact Or.inl (e2.trans e1)
      · exact Or.inr ⟨r1, by unfold okS at o1 ⊢; rw [e2]; exact o1⟩
    · exact Or.inr ⟨h1.1 r2, o2⟩
  · rcases h2.2.2 with ⟨a1, a2⟩ | ⟨b1, b2, b3⟩
    · exact Or.inl ⟨a1.trans h1.2.2.1, a2.trans h1.2.2.2⟩
    · exact Or.inr ⟨b1, by rw [← h1.2.2.2]; exact b2, fun hs => by rw [← hp]; exact b3 (by rw [h1.2.2.1]; exact hs)⟩

/-- a function that touches neither the stored response, `respStarted`, `reqSent` nor the timer count -/
theorem Step.frame {s t : S} (h1 : store t = store s) (h2 : t.respStarted = s.respStarted)
    (h3 : t.reqSent = s.reqSent := by first | rfl | simp) (h4 : t.gtGen = s.gtGen := by first | rfl | simp) : Step s t :=
  ⟨fun h => by rw [← h2]; exact h, Or.inl h1, h3, h4⟩

/-- … or only raises `respStarted` -/
theorem Step.frameUp {s t : S} (h1 : store t = store s) (h2 : t.respStarted = true ∨ t.respStarted = s.respStarted)
    (h3 : t.reqSent = s.reqSent := by first | rfl | simp) (h4 : t.gtGen = s.gtGen := by first | rfl | simp) : Step s t := by
  refine ⟨fun h => ?_, Or.inl h1, h3, h4⟩
  rcases h2 with h2 | h2
  · rw [h2] at h; cases h
  · rw [← h2]; exact h

/-- `t` differs from `s` in none of the fields the transitions talk about -/
def Fr (s t : S) : Prop :=
  store t = store s ∧ t.respStarted = s.respStarted ∧ t.reqSent = s.reqSent ∧ t.gtGen = s.gtGen

theorem Fr.refl (s : S) : Fr s s := ⟨rfl, rfl, rfl, rfl⟩
theorem Fr.trans {s t u : S} (h1 : Fr s t) (h2 : Fr t u) : Fr s u :=
  ⟨h2.1.trans h1.1, h2.2.1.trans h1.2.1, h2.2.2.1.trans h1.2.2.1, h2.2.2.2.trans h1.2.2.2⟩
theorem Fr.step {s t : S} (h : Fr s t) : Step s t := Step.frame h.1 h.2.1 h.2.2.1 h.2.2.2

/-! ### the paths that store a response -/

/-- **a local reply stores one answer**: its own headers, and data / trailers that are its own or absent — by the
regenerated effects of `sendHijackReply[WithBody]` on the held parts -/
theorem okS_sendHijack (s : S) (code : Nat) (body : Bool) : okS (sendHijack s code body) := by
  rw [sendHijack_eq]
  intro r hr
  simp only [store] at hr
  cases hr
  cases body <;> simp [store]

theorem step_sendHijack (s : S) (code : Nat) (body : Bool) (h : s.respStarted = false) : Step s (sendHijack s code body) :=
  ⟨fun _ => h, Or.inr ⟨h, okS_sendHijack s code body⟩, rfl, rfl⟩

/-! ### helpers that store nothing -/

theorem step_cleanStream (c : Cfg) (s : S) : Step s (cleanStream c s) := by
  unfold cleanStream
  split
  · exact Step.refl s
  · exact Step.frame (by simp [store]) (by simp)

theorem step_cleanUp (c : Cfg) (s : S) : Step s (cleanUp c s) := Step.frame (by simp [store]) (by simp)

theorem step_rsReset (c : Cfg) (s : S) : Step s (rsReset c s) := Step.frame (by simp [store]) (by simp)

theorem step_rsRetry (c : Cfg) (s : S) (r : Option Reason) : Step s (rsRetry c s r).1 := Step.frame (by simp [store]) (by simp)

theorem step_orFlag (s : S) (f : Nat) : Step s (orFlag s f) := Step.frame rfl rfl

theorem step_resetUpstream (c : Cfg) (s : S) : Step s (resetUpstream c s) := Step.frame (by simp [store]) (by simp)

theorem step_setupRetry (c : Cfg) (s : S) (eos : Bool) : Step s (setupRetry c s eos).1 := by
  rw [setupRetry_eq]
  split
  · exact Step.refl s
  · simp only
    split
    · exact Step.frame (by simp [store]) (by simp)
    · exact Step.frame rfl rfl

theorem step_resetDownstream (c : Cfg) (s : S) : Step s (resetDownstream c s) := by
  unfold resetDownstream
  split
  · simp only
    split
    · exact Step.frame rfl rfl
    · exact Step.frame rfl rfl
  · exact Step.refl s

theorem step_dsResetStream (c : Cfg) (s : S) : Step s (dsResetStream c s) := by
  unfold dsResetStream
  exact Step.trans (Step.frame rfl rfl : Step s { s with respCode := TimeoutExceptionCode }) (step_cleanStream c _)

/-! ### `onUpstreamReset`, `processError`, the end of a phase -/

/-- the reply to an upstream reset is stored only when no response has started (the regenerated `resetNotReply`) -/
theorem step_onUpstreamResetFinish (c : Cfg) (s : S) (reason : Reason) : Step s (onUpstreamResetFinish c s reason) := by
  unfold onUpstreamResetFinish
  simp only [resetNotReply_eq]
  refine Step.trans (step_cleanUp c s) ?_
  generalize cleanUp c s = x
  by_cases h : x.respStarted = true
  · simp only [h, if_true]
    exact step_resetDownstream c x
  · simp only [h]
    have hx : x.respStarted = false := by simpa using h
    exact Step.trans (Step.frame rfl rfl : Step x { orFlag x (reasonToFlag reason) with upReset := false })
      (step_sendHijack _ _ _ hx)

theorem step_onUpstreamReset (c : Cfg) (s : S) : Step s (onUpstreamReset c s) := by
  unfold onUpstreamReset
  simp only
  split
  · have h1 := step_rsRetry c s (some s.resetReason)
    generalize rsRetry c s (some s.resetReason) = res at h1
    obtain ⟨s1, chk⟩ := res
    simp only at h1 ⊢
    split
    · have h2 := step_setupRetry c s1 true
      generalize setupRetry c s1 true = r2 at h2
      obtain ⟨s2, b⟩ := r2
      simp only at h2 ⊢
      cases b
      · exact Step.trans h1 (Step.trans h2 (step_onUpstreamResetFinish c s2 _))
      · exact Step.trans h1 (Step.trans h2 (Step.frame rfl rfl))
    · refine Step.trans h1 ?_
      split
      · exact Step.trans (step_orFlag s1 _) (step_onUpstreamResetFinish c _ _)
      · exact step_onUpstreamResetFinish c _ _
  · exact step_onUpstreamResetFinish c s _

theorem fr_abandonRetry (x : S) : Fr x (abandonRetry x) := by
  unfold abandonRetry; split
  · exact ⟨rfl, rfl, rfl, rfl⟩
  · exact Fr.refl x

theorem step_peTail (c : Cfg) (s : S) (e : Bool) : Step s (peTail c s e).1 := by
  unfold peTail
  split
  · exact step_dsResetStream c s
  · split
    · simp only
      have hs : Step s (abandonRetry { s with direct := false, rs := none, retries := (rsReset c s).retries }) :=
        Step.trans (Step.frame rfl rfl) (fr_abandonRetry _).step
      split
      · exact hs
      · split <;> exact hs
    · split
      · exact Step.frame rfl rfl
      · exact Step.refl s

theorem step_processError (c : Cfg) (s : S) : Step s (processError c s).1 := by
  rw [processError_spec]
  split
  · exact Step.refl s
  · split
    · split
      · exact Step.refl s
      · exact Step.trans (step_onUpstreamReset c s) (step_peTail c _ _)
    · exact step_peTail c s _

theorem step_reenter (s : S) (p : Phase) : Step s (reenter s p) := by
  have : store (reenter s p) = store s ∧ (reenter s p).respStarted = s.respStarted ∧
      (reenter s p).reqSent = s.reqSent ∧ (reenter s p).gtGen = s.gtGen := by
    unfold reenter; split
    · exact ⟨rfl, rfl, rfl, rfl⟩
    · simp only; split <;> split <;> exact ⟨rfl, rfl, rfl, rfl⟩
  exact Step.frame this.1 this.2.1 this.2.2.1 this.2.2.2

theorem step_finishOf (r : S × Option Phase) : Step r.1 (finishOf r) := by
  obtain ⟨x, o⟩ := r
  cases o
  · exact Step.frame rfl rfl
  · exact step_reenter x _

/-- the end of every phase body: `processError`, then the next phase or the re-entry -/
theorem step_finishPhase (c : Cfg) (s : S) : Step s (finishPhase c s) := by
  rw [finishPhase_eq]
  exact Step.trans (step_processError c s) (step_finishOf _)

/-! ### the phase bodies -/

/-- `chooseHost` answers itself (no route / no host / direct response) only before anything went downstream -/
theorem step_chooseHost (c : Cfg) (s : S) (h : s.respStarted = false) : Step s (chooseHost c s) := by
  unfold chooseHost
  simp only
  split
  · exact Step.trans (Step.frame rfl rfl) (step_sendHijack _ _ _ h)
  · exact Step.trans (Step.frame rfl rfl) (step_sendHijack _ _ _ h)
  · exact Step.trans (Step.frame rfl rfl) (step_sendHijack _ _ _ h)
  · split
    · exact Step.trans (Step.frame rfl rfl) (step_sendHijack _ _ _ h)
    · exact Step.frame rfl rfl

theorem fr_upAppendHeaders (c : Cfg) (s : S) (eos : Bool) : Fr s (upAppendHeaders c s eos) := by
  unfold upAppendHeaders
  split
  · exact Fr.refl s
  · simp only
    split <;> exact ⟨rfl, rfl, rfl, rfl⟩

theorem step_upAppendHeaders (c : Cfg) (s : S) (eos : Bool) : Step s (upAppendHeaders c s eos) :=
  (fr_upAppendHeaders c s eos).step

/-- `onUpstreamRequestSent`: the request is completely sent; at most one global timer is armed -/
theorem lstep_sent (c : Cfg) (s : S) (h : s.reqSent = true → sendingPhase s.phase = true) :
    LStep s (onUpstreamRequestSent c s) := by
  refine ⟨fun hh => hh, Or.inl rfl, Or.inr ⟨rfl, ?_, h⟩⟩
  simp only [onUpstreamRequestSent]
  split <;> omega

theorem lstep_receiveHeaders (c : Cfg) (s : S) (eos : Bool) (hp : s.phase = .DownRecvHeader) :
    LStep s (receiveHeaders c s eos) := by
  unfold receiveHeaders
  simp only
  have h1 := fr_upAppendHeaders c s eos
  have hph : (upAppendHeaders c s eos).phase = s.phase := by
    unfold upAppendHeaders
    split
    · rfl
    · simp only; split <;> rfl
  split
  · exact Step.thenL h1.step hph (lstep_sent c _ (fun _ => by rw [hph, hp]; rfl))
  · exact h1.step.l

theorem lstep_receiveData (c : Cfg) (s : S) (eos : Bool) (hp : s.phase = .DownRecvData) : LStep s (receiveData c s eos) := by
  unfold receiveData
  split
  · exact (Step.refl s).l
  · simp only
    have key : ∀ x : S, LStep s x → LStep s (if x.procDone = true then cleanStream c x else x) := by
      intro x hx; split
      · exact hx.then (step_cleanStream c x)
      · exact hx
    apply key
    cases eos
    · exact (Step.frame rfl rfl : Step s _).l
    · exact (Step.thenL (Step.frame rfl rfl : Step s { s with recvDone := true }) rfl
        (lstep_sent c _ (fun _ => by show sendingPhase s.phase = true; rw [hp]; rfl))).then (Step.frame rfl rfl)

theorem lstep_receiveTrailers (c : Cfg) (s : S) (hp : s.phase = .DownRecvTrailer) : LStep s (receiveTrailers c s) := by
  unfold receiveTrailers
  split
  · exact (Step.refl s).l
  · simp only
    have key : ∀ x : S, LStep s x → LStep s (if x.procDone = true then cleanStream c x else x) := by
      intro x hx; split
      · exact hx.then (step_cleanStream c x)
      · exact hx
    apply key
    exact (Step.thenL (Step.frame rfl rfl : Step s { s with recvDone := true }) rfl
      (lstep_sent c _ (fun _ => by show sendingPhase s.phase = true; rw [hp]; rfl))).then (Step.frame rfl rfl)

/-- the send calls of the upstream request touch neither the global timer nor its object -/
theorem upAppendHeaders_timer (c : Cfg) (s : S) (eos : Bool) :
    (upAppendHeaders c s eos).global = s.global ∧ (upAppendHeaders c s eos).gtObj = s.gtObj := by
  unfold upAppendHeaders
  split
  · exact ⟨rfl, rfl⟩
  · simp only; split <;> exact ⟨rfl, rfl⟩

/-- `doRetry` answers itself (no healthy host any more, the global timeout) only before anything went downstream; it arms
the global timer only when no timer object exists — never once the request was completely sent and its timer armed
(`h24`: while a retry is possible the timer of a sent request is armed, unless it fired or a local reply is pending) -/
theorem lstep_doRetry (c : Cfg) (s : S) (h : s.respStarted = false)
    (h24 : s.reqSent = true → s.direct = false → (s.globalExpired && s.up.isSome) = false → s.global = true) :
    LStep s (doRetry c s) := by
  rw [doRetry_eq]
  split
  · exact (Step.refl s).l
  rename_i hdt
  split
  · exact (Step.frame (by simp [store, upOnResetStream]) (by simp [upOnResetStream]) (by simp [upOnResetStream])
      (by simp [upOnResetStream]) : Step s _).l
  rename_i hex
  unfold doRetryBody
  split
  · have e : Step s (if s.up.isSome = true then { s with setupRetry := false } else s) := by
      split
      · exact Step.frame rfl rfl
      · exact Step.refl s
    have hrs : (if s.up.isSome = true then ({ s with setupRetry := false } : S) else s).respStarted = false := by
      split <;> exact h
    exact (Step.trans (Step.trans e (step_sendHijack _ NoHealthUpstreamCode false hrs)) (step_cleanUp c _)).l
  · simp only
    have f1 : Fr s (upAppendHeaders c { s with up := some none, setupRetry := false } (!c.hasData && !c.hasTrailers)) :=
      Fr.trans (⟨rfl, rfl, rfl, rfl⟩ : Fr s { s with up := some none, setupRetry := false }) (fr_upAppendHeaders c _ _)
    have t1 := upAppendHeaders_timer c { s with up := some none, setupRetry := false } (!c.hasData && !c.hasTrailers)
    generalize upAppendHeaders c { s with up := some none, setupRetry := false } (!c.hasData && !c.hasTrailers) = a at f1 t1
    have f2 : Fr s (if c.hasData = true then upAppendData a (!c.hasTrailers) else a) ∧
        (if c.hasData = true then upAppendData a (!c.hasTrailers) else a).global = s.global := by
      split
      · exact ⟨Fr.trans f1 ⟨rfl, rfl, rfl, rfl⟩, t1.1⟩
      · exact ⟨f1, t1.1⟩
    generalize (if c.hasData = true then upAppendData a (!c.hasTrailers) else a) = b at f2
    have f3 : Fr s (if c.hasTrailers = true then upAppendTrailers b else b) ∧
        (if c.hasTrailers = true then upAppendTrailers b else b).global = s.global := by
      split
      · exact ⟨Fr.trans f2.1 ⟨rfl, rfl, rfl, rfl⟩, f2.2⟩
      · exact f2
    generalize (if c.hasTrailers = true then upAppendTrailers b else b) = d at f3
    obtain ⟨f3, hgd⟩ := f3
    cases hq : s.reqSent with
    | true =>
      have hd : d.reqSent = true := by rw [f3.2.2.1]; exact hq
      have hg : d.global = true := by
        rw [hgd]
        exact h24 hq (by simpa using hdt) (by simpa using hex)
      have htm : hasTimerObj d = true := by simp [hasTimerObj, hg, hd]
      simp only [htm, Bool.not_true, Bool.false_eq_true, if_false]
      refine (Step.trans f3.step ?_).l
      exact Step.frame rfl rfl (by show true = d.reqSent; rw [hd]) rfl
    | false =>
      have hd : d.reqSent = false := by rw [f3.2.2.1]; exact hq
      have htm : hasTimerObj d = false := by simp [hasTimerObj, hd]
      simp only [htm, Bool.not_false, if_true]
      refine ⟨fun _ => h, Or.inl ?_, Or.inr ⟨rfl, ?_, fun hh => by rw [hq] at hh; cases hh⟩⟩
      · show store (onUpstreamRequestSent c d) = store s
        exact f3.1
      · show (onUpstreamRequestSent c d).gtGen ≤ s.gtGen + 1
        rw [← f3.2.2.2]
        simp only [onUpstreamRequestSent]
        split <;> omega

/-! ### the response pass: nothing is stored, `respStarted` goes up -/

theorem step_recvFinished (c : Cfg) (s : S) : Step s (onUpstreamResponseRecvFinished c s) :=
  Step.frame (by simp [store]) (by simp)

theorem step_dsAppend (c : Cfg) (s : S) :
    (∀ eos, Step s (dsAppendHeaders c s eos)) ∧ (∀ eos, Step s (dsAppendData c s eos)) ∧ Step s (dsAppendTrailers c s) := by
  refine ⟨fun eos => ?_, fun eos => ?_, ?_⟩
  · unfold dsAppendHeaders emit endStream; simp only; split
    · exact Step.trans (Step.frame rfl rfl) (step_cleanStream c _)
    · exact Step.frame rfl rfl
  · unfold dsAppendData emit endStream; simp only; split
    · exact Step.trans (Step.frame rfl rfl) (step_cleanStream c _)
    · exact Step.frame rfl rfl
  · unfold dsAppendTrailers emit endStream; simp only
    exact Step.trans (Step.frame rfl rfl) (step_cleanStream c _)

theorem step_headersFinish (c : Cfg) (s : S) (eos : Bool) : Step s (onUpstreamHeadersFinish c s eos) := by
  unfold onUpstreamHeadersFinish
  simp only
  have h0 : Step s { s with respStarted := true } := Step.frameUp rfl (Or.inl rfl)
  split
  · exact Step.trans h0 (Step.trans (step_recvFinished c _) ((step_dsAppend c _).1 eos))
  · exact Step.trans h0 ((step_dsAppend c _).1 eos)

theorem step_onUpstreamHeaders (c : Cfg) (s : S) (eos : Bool) : Step s (onUpstreamHeaders c s eos) := by
  unfold onUpstreamHeaders
  split
  · simp only
    have h1 := step_rsRetry c s none
    generalize rsRetry c s none = res at h1
    obtain ⟨s1, chk⟩ := res
    simp only at h1 ⊢
    by_cases hc : (chk == ShouldRetry) = true
    · simp only [hc, if_true]
      have h2 := step_setupRetry c s1 eos
      generalize setupRetry c s1 eos = r2 at h2
      obtain ⟨s2, b⟩ := r2
      simp only at h2 ⊢
      cases b
      · simp only [Bool.false_eq_true, if_false]
        refine Step.trans h1 (Step.trans h2 ?_)
        split
        · exact Step.trans (step_orFlag s2 _) (Step.trans (step_rsReset c _) (step_headersFinish c _ eos))
        · exact Step.trans (step_rsReset c _) (step_headersFinish c _ eos)
      · simp only [if_true]
        exact Step.trans h1 h2
    · simp only [hc, Bool.false_eq_true, if_false]
      refine Step.trans h1 ?_
      split
      · exact Step.trans (step_orFlag s1 _) (Step.trans (step_rsReset c _) (step_headersFinish c _ eos))
      · exact Step.trans (step_rsReset c _) (step_headersFinish c _ eos)
  · exact step_headersFinish c s eos

theorem step_onUpstreamData (c : Cfg) (s : S) (eos : Bool) : Step s (onUpstreamData c s eos) := by
  unfold onUpstreamData
  simp only
  split
  · exact Step.trans (step_recvFinished c s) ((step_dsAppend c _).2.1 eos)
  · exact (step_dsAppend c s).2.1 eos

theorem step_onUpstreamTrailers (c : Cfg) (s : S) : Step s (onUpstreamTrailers c s) := by
  unfold onUpstreamTrailers
  exact Step.trans (step_recvFinished c s) (step_dsAppend c _).2.2

/-! ### the labels -/


/-- the worker label: a reply is stored only by `chooseHost`, `doRetry` (both before the response pass) and by the answer
to an upstream reset that arrives before response headers went downstream -/
theorem lstep_work (c : Cfg) (ar aq : Nat) (s : S) (h : Inv c ar aq s) : LStep s (work c s) := by
  unfold work
  by_cases hrun : s.running = true
  · rw [if_neg (by simp [hrun])]
    have hcl := inv_not_cleaned h hrun
    split
    · exact (Step.refl s).l
    split
    · exact (Step.frame rfl rfl : Step s _).l
    · exact (step_finishPhase c s).l
    · exact (step_finishPhase c s).l
    · exact (step_finishPhase c s).l
    · rename_i hp
      exact (Step.trans (step_chooseHost c s (h.k16 hcl (by rw [hp]; rfl))) (step_finishPhase c _)).l
    · exact (step_finishPhase c s).l
    · rename_i hp
      exact (lstep_receiveHeaders c s _ hp).then (step_finishPhase c _)
    · rename_i hp
      split
      · exact (lstep_receiveData c s _ hp).then (step_finishPhase c _)
      · exact (Step.frame rfl rfl : Step s _).l
    · rename_i hp
      split
      · exact (lstep_receiveTrailers c s hp).then (step_finishPhase c _)
      · exact (Step.frame rfl rfl : Step s _).l
    · split
      · have h1 := Step.trans (step_cleanStream c s) (step_processError c (cleanStream c s))
        generalize processError c (cleanStream c s) = r at h1 ⊢
        obtain ⟨x, o⟩ := r
        cases o
        · exact (Step.trans h1 (Step.frame rfl rfl)).l
        · exact (Step.trans h1 (step_reenter x _)).l
      · exact (Step.frame rfl rfl : Step s _).l
    · rename_i hp
      refine (lstep_doRetry c s (h.k16 hcl (by rw [hp]; rfl)) ?_).then (step_finishPhase c _)
      intro hq hdt hex
      have hup : s.up.isSome = true := by rw [(h.k26 hcl hp).2.2.2]; rfl
      have hge : s.globalExpired = false := by simpa [hup] using hex
      have how : c.oneway = false := by
        cases ho : c.oneway with
        | false => rfl
        | true => exact absurd hp (h.k32 hcl ho).2.2
      have hrs : s.rs.isSome = true := by
        rcases h.k18 hcl (by rw [hp]; rfl) with ⟨ho, _, _⟩ | hm
        · rw [how] at ho; cases ho
        · exact hm.2.1
      rcases h.k24 hcl how hq hrs with h1 | h1 | h1
      · exact h1
      · rw [hge] at h1; cases h1
      · rw [hdt] at h1; cases h1
    · split
      · exact (Step.trans (Step.frame rfl rfl : Step s { s with notify := false }) (step_finishPhase c _)).l
      · exact (Step.refl s).l
    · have h1 := step_processError c s
      generalize processError c s = r at h1 ⊢
      obtain ⟨x, o⟩ := r
      cases o
      · exact (Step.trans h1 (Step.frame rfl rfl)).l
      · exact (Step.trans h1 (step_reenter x _)).l
    · split
      · refine (Step.trans ?_ (step_finishPhase c _)).l
        split
        · exact Step.refl s
        · exact step_onUpstreamHeaders c s _
      · exact (Step.frame rfl rfl : Step s _).l
    · split
      · split
        · refine (Step.trans ?_ (step_finishPhase c _)).l
          split
          · exact Step.refl s
          · exact step_onUpstreamData c s _
        · exact (Step.frame rfl rfl : Step s _).l
      · exact (Step.frame rfl rfl : Step s _).l
    · split
      · split
        · refine (Step.trans ?_ (step_finishPhase c _)).l
          split
          · exact Step.refl s
          · exact step_onUpstreamTrailers c s
        · exact (Step.frame rfl rfl : Step s _).l
      · exact (Step.frame rfl rfl : Step s _).l
    · exact (Step.frame rfl rfl : Step s _).l
  · rw [if_pos (by simpa using hrun)]
    exact (Step.refl s).l

/-- a live, counted client stream whose response can still be accepted: nothing went downstream yet -/
theorem not_started_of_answerable (c : Cfg) (ar aq : Nat) (s : S) (k : Nat) (h : Inv c ar aq s)
    (hlive : streamLiveCounted s k = true) (hurr : s.urr = false) : s.respStarted = false := by
  have hpos := liveCounted_pos s k hlive
  cases hr : s.respStarted with
  | false => rfl
  | true =>
    exfalso
    cases hcl : s.cleaned with
    | true => have := (h.k13 hcl).2.1; omega
    | false =>
      cases hup : upPhase s.phase with
      | false => have := h.k16 hcl hup; rw [hr] at this; cases this
      | true =>
        rcases (h.k15 hcl hup).1 with h0 | h1
        · omega
        · rw [hurr] at h1; cases h1.1

theorem step_upResp (c : Cfg) (ar aq : Nat) (s : S) (k code : Nat) (d t : Bool) (h : Inv c ar aq s) :
    Step s (upResp c s k code d t) := by
  unfold upResp
  cases hk : s.streams[k]? with
  | none => exact Step.refl s
  | some st =>
    simp only
    split
    · exact Step.refl s
    split
    · exact Step.refl s
    rename_i h1 h2
    have hurr : s.urr = false := by simpa using h2
    have hlive : streamLiveCounted s k = true := by
      simp only [streamLiveCounted, hk]
      cases hl : st.live <;> cases hc : st.counted <;> simp_all
    have hrs := not_started_of_answerable c ar aq s k h hlive hurr
    cases hacc : (!(processDone s || s.setupRetry) && !s.urr)
    · exact Step.frame (by simp [store]) (by simp)
    · refine ⟨fun _ => hrs, Or.inr ⟨hrs, ?_⟩, by simp, by simp⟩
      intro r hr
      simp only [store, if_true] at hr ⊢
      cases hr
      cases d <;> cases t <;> simp

theorem step_upRespS (c : Cfg) (ar aq : Nat) (s : S) (k code : Nat) (d t : Bool) (h : Inv c ar aq s) :
    Step s (upRespS c s k code d t) := by
  unfold upRespS
  split
  · exact step_upResp c ar aq s k code d t h
  cases hk : s.streams[k]? with
  | none => exact Step.refl s
  | some st =>
    simp only
    split
    · exact Step.refl s
    split
    · exact Step.refl s
    rename_i h1 h2
    have hurr : s.urr = false := by simpa using h2
    have hlive : streamLiveCounted s k = true := by
      simp only [streamLiveCounted, hk]
      cases hl : st.live <;> cases hc : st.counted <;> simp_all
    have hrs := not_started_of_answerable c ar aq s k h hlive hurr
    cases hacc : (!(processDone s || s.setupRetry))
    · exact Step.frame (by simp [store]) (by simp)
    · refine ⟨fun _ => hrs, Or.inr ⟨hrs, ?_⟩, by simp, by simp⟩
      intro r hr
      simp only [store, if_true] at hr ⊢
      cases hr
      cases d <;> cases t <;> simp

/-- an accepted `TerminateStream` stores its local reply while the worker is parked: before the response pass -/
theorem step_terminate (c : Cfg) (ar aq : Nat) (s : S) (code : Nat) (h : Inv c ar aq s) : Step s (terminateL c s code) := by
  rw [terminateL_eq]
  split
  · exact Step.refl s
  split
  · exact Step.refl s
  split
  · exact Step.refl s
  split
  · exact Step.refl s
  rename_i hpk _ hcl _
  have hcl' : s.cleaned = false := by simpa using hcl
  have hrs : s.respStarted = false := by
    simp only [asleep, parked, backoff, Bool.not_eq_true', Bool.not_eq_false, Bool.and_eq_true, Bool.or_eq_true, beq_iff_eq] at hpk
    rcases hpk with hpk | hpk
    · exact h.k16 hcl' (by rw [hpk.1.2]; rfl)
    · exact h.k16 hcl' (by rw [hpk.2]; rfl)
  refine ⟨fun _ => hrs, Or.inr ⟨hrs, ?_⟩, by simp [terminateAcc], by simp [terminateAcc]⟩
  intro r hr
  simp only [store, terminateAcc] at hr ⊢
  cases hr
  simp

/-- the labels of other goroutines store at most an accepted upstream response / a terminate reply, and arm nothing -/
theorem step_async (c : Cfg) (ar aq : Nat) (s : S) (l : Label) (hl : l ≠ .work) (h : Inv c ar aq s) :
    Step s (step c s l) := by
  cases l with
  | work => exact absurd rfl hl
  | lateResp k d t =>
    simp only [step]
    rw [lateBackoff_noop c ar aq s k d t h]
    exact Step.refl s
  | upResp k code d t => exact step_upResp c ar aq s k code d t h
  | upRespS k code d t => exact step_upRespS c ar aq s k code d t h
  | upReset k r =>
    simp only [step, upResetL]
    cases hk : s.streams[k]? with
    | none => exact Step.refl s
    | some st =>
      simp only
      split
      · exact Step.refl s
      split
      · exact Step.frame (by simp [store, upOnResetStream]) (by simp [upOnResetStream])
      · exact Step.frame (by simp [store]) (by simp)
  | upEnd k =>
    simp only [step, upEndL]
    cases hk : s.streams[k]? with
    | none => exact Step.refl s
    | some st =>
      simp only
      split
      · exact Step.refl s
      · exact Step.frame (by simp [store]) (by simp)
  | poolFail f => exact Step.frame rfl rfl
  | hostsGone => exact Step.frame rfl rfl
  | perTryFire =>
    simp only [step, perTryFire]
    split
    · exact Step.refl s
    split
    · exact Step.frame rfl rfl
    split
    · exact Step.frame rfl rfl
    split
    · exact Step.frame (by simp [store, upOnResetStream, orFlag]) (by simp [upOnResetStream, orFlag])
        (by simp [upOnResetStream, orFlag]) (by simp [upOnResetStream, orFlag])
    · exact Step.frame rfl rfl
  | globalFire =>
    have : Fr s (globalFire c s) := by
      unfold globalFire Fr
      split
      · exact ⟨rfl, rfl, rfl, rfl⟩
      simp only
      split
      · exact ⟨rfl, rfl, rfl, rfl⟩
      split <;> split <;> (try split) <;> simp [store, upOnResetStream]
    exact this.step
  | downReset r =>
    simp only [step, downResetL]
    split
    · exact Step.refl s
    · exact Step.frame rfl rfl
  | connClose =>
    simp only [step, connClose]
    split
    · exact Step.refl s
    · exact Step.frame rfl rfl
  | terminate code => exact step_terminate c ar aq s code h
  | terminateStale g code =>
    simp only [step]
    rw [terminateStale_eq]
    split
    · exact step_terminate c ar aq s code h
    · exact Step.refl s
  | terminateRaced code k d t =>
    simp only [step]
    rw [terminateRaced_eq]
    exact step_terminate c ar aq s code h
  | gtInSetup b =>
    simp only [step, gtInSetup]
    split
    · exact Step.refl s
    · exact Step.frame rfl rfl

/-- **every label is an allowed transition** -/
theorem lstep_label (c : Cfg) (ar aq : Nat) (s : S) (l : Label) (h : Inv c ar aq s) : LStep s (step c s l) := by
  by_cases hl : l = .work
  · subst hl; exact lstep_work c ar aq s h
  · exact (step_async c ar aq s l hl h).l

/-! ### along every schedule -/

theorem okS_of_step {s t : S} (h : LStep s t) (ho : okS s) : okS t := by
  rcases h.2.1 with e | ⟨_, o⟩
  · unfold okS at ho ⊢; rw [e]; exact ho
  · exact o

theorem frozen_of_step {s t : S} (h : LStep s t) (hr : s.respStarted = true) : store t = store s ∧ t.respStarted = true := by
  refine ⟨?_, ?_⟩
  · rcases h.2.1 with e | ⟨f, _⟩
    · exact e
    · rw [hr] at f; cases f
  · cases ht : t.respStarted with
    | true => rfl
    | false => have := h.1 ht; rw [hr] at this; cases this

theorem okS_init (ar aq : Nat) : okS (init ar aq) := by
  intro r hr
  simp [store, init] at hr

/-- the stored response is one answer in every reachable state -/
theorem okS_run (c : Cfg) (ar aq : Nat) (l : List Label) : okS (run c (init ar aq) l) := by
  have : ∀ (l : List Label) (s : S), Inv c ar aq s → okS s → okS (l.foldl (step c) s) := by
    intro l
    induction l with
    | nil => intro s _ h; exact h
    | cons a r ih =>
      intro s hi ho
      exact ih _ (inv_step c ar aq s a hi) (okS_of_step (lstep_label c ar aq s a hi) ho)
  exact this l _ (inv_init c ar aq) (okS_init ar aq)

/-- once response headers went downstream, no schedule changes the stored response any more -/
theorem store_frozen (c : Cfg) (ar aq : Nat) (s : S) (l : List Label) (hi : Inv c ar aq s) (hr : s.respStarted = true) :
    store (l.foldl (step c) s) = store s ∧ (l.foldl (step c) s).respStarted = true := by
  induction l generalizing s with
  | nil => exact ⟨rfl, hr⟩
  | cons a r ih =>
    have h1 := frozen_of_step (lstep_label c ar aq s a hi) hr
    have h2 := ih (step c s a) (inv_step c ar aq s a hi) h1.2
    exact ⟨h2.1.trans h1.1, h2.2⟩

/-! ### the global timer -/

/-- once the request has been completely sent and the worker is past the sending phases, no label arms a global timer again
(no retry pass, no callback of another goroutine): the count of armed timers stays, `reqSent` stays -/
theorem no_rearm (c : Cfg) (ar aq : Nat) (s : S) (l : Label) (h : Inv c ar aq s) (hq : s.reqSent = true)
    (hp : sendingPhase s.phase = false) : (step c s l).gtGen = s.gtGen ∧ (step c s l).reqSent = true := by
  rcases (lstep_label c ar aq s l h).2.2 with ⟨a1, a2⟩ | ⟨_, _, b3⟩
  · exact ⟨a2, by rw [a1]; exact hq⟩
  · rw [b3 hq] at hp; cases hp

/-- accepting a retry stops the per-try timer only: the global timer and the count of armed timers are left alone
(the regenerated `Gen.ProxyTimers.setupRetryStopsGlobal = false`) -/
theorem setupRetry_global (c : Cfg) (s : S) (eos : Bool) :
    (setupRetry c s eos).1.global = s.global ∧ (setupRetry c s eos).1.gtGen = s.gtGen ∧
    ((setupRetry c s eos).2 = true → (setupRetry c s eos).1.perTry = false) := by
  rw [setupRetry_eq]
  split
  · exact ⟨rfl, rfl, fun h => by cases h⟩
  · simp only
    split <;> simp

end MosnVerif.Model.Downstream
