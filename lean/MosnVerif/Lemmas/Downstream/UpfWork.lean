import MosnVerif.Lemmas.Downstream.Finish
/-! [proxy7] frame facts used by the `UpFilter` step of the worker when its `processError` handles an upstream reset -/
namespace MosnVerif.Model.Downstream
open MosnVerif.Gen.ProxyPhase MosnVerif.Gen.ProxyReason MosnVerif.Gen.ProxyRetry

theorem onUpstreamResetFinish_phase (c : Cfg) (s : S) (r : Reason) : (onUpstreamResetFinish c s r).phase = s.phase := by
  unfold onUpstreamResetFinish resetDownstream dsOnResetStream
  simp only []
  split
  · split
    · split <;> rfl
    · rfl
  · rfl

theorem onUpstreamReset_phase (c : Cfg) (s : S) : (onUpstreamReset c s).phase = s.phase := by
  unfold onUpstreamReset
  simp only []
  split
  · split
    · rw [setupRetry_eq]
      by_cases hexp : (setupRetryChecksExpiry && (rsRetry c s (some s.resetReason)).1.globalExpired) = true
      · simp only [hexp, if_true]; rw [onUpstreamResetFinish_phase]; rfl
      · simp only [hexp, Bool.false_eq_true, if_false, Bool.not_true]; rfl
    · split
      · rw [onUpstreamResetFinish_phase]; rfl
      · rw [onUpstreamResetFinish_phase]; rfl
  · exact onUpstreamResetFinish_phase c s _

/-- when `processError` finds nothing that ends the pass, the worker is still in the phase it was in -/
theorem finishOf_pe_none_phase (c : Cfg) (s s' : S) (h : processError c s = (s', none)) : s'.phase = s.phase := by
  rw [processError_spec] at h
  have tail : ∀ (g : S) (e : Bool), peTail c g e = (s', none) → s'.phase = g.phase := by
    intro g e hg
    unfold peTail at hg
    split at hg
    · cases hg
    · split at hg
      · simp only [] at hg
        split at hg
        · cases hg
        · split at hg
          · cases hg
          · cases hg
            unfold abandonRetry
            split <;> rfl
      · split at hg
        · cases hg
        · split at hg
          · cases hg
          · cases hg; rfl
  split at h
  · cases h
  · split at h
    · split at h
      · cases h
      · rw [tail _ _ h, onUpstreamReset_phase]
    · exact tail _ _ h

/-- the fake upstream request the `UpFilter` case installs when none exists (`maybe direct response`) -/
theorem inv_fake_up (c : Cfg) (ar aq : Nat) (x : S) (h : Inv c ar aq x) (hupp : upPhase x.phase = true) :
    Inv c ar aq { x with up := (if x.up.isNone then some none else x.up) } := by
  obtain ⟨hpre, hfw, _, hnr, _, _⟩ := phase_excl_up x.phase hupp
  obtain ⟨k0, k1, k2, k3, k4, k5, k6, k7, k8, k9, k10, k11, k12, k13, k14, k15, k16, k17, k18, k19, k20, k21, k22, k23, k24, k25, k26, k27, k28, k29, k30, k31, k32, k33⟩ := h
  refine ⟨k0, k1, k2, k3, k4, k5, k6, k7, k8, k9, k10, k11, k12, k13, ?_, k15, k16, ?_, ?_, k19, k20, k21, k22, k23, k24, k25, ?_, k27, k28, k29, k30, ?_, k32, k33⟩
  · rw [K14, streamsOk_iff] at k14 ⊢
    refine ⟨k14.1, ?_, ?_⟩
    · intro st hst hl
      have := k14.2.1 st hst hl
      simp only [this.1]
      exact ⟨by simp, this.2⟩
    · intro k hk
      apply k14.2.2 k
      cases hu : x.up with
      | none => simp [hu] at hk
      | some o => simpa [hu] using hk
  · intro _ hh; rw [hpre] at hh; cases hh
  · intro _ hh; rw [hfw] at hh; cases hh
  · intro _ hh; exact absurd hh hnr
  · intro hh
    have := k31 hh
    cases hu : x.up with
    | none => simp [hu] at this
    | some o => simp [hu]

end MosnVerif.Model.Downstream
