import MosnVerif.Lemmas.Downstream.Worker3
import MosnVerif.Lemmas.Downstream.UpfWork
/-! the worker label `work`: the response pass -/
namespace MosnVerif.Model.Downstream
open MosnVerif.Gen.ProxyPhase MosnVerif.Gen.ProxyReason MosnVerif.Gen.ProxyRetry

/-- `onUpstreamResponseRecvFinished` keeps `Base` and leaves every client stream dead -/
theorem recvFinished_base (c : Cfg) (ar aq : Nat) (s : S) (b : Base c ar aq s) (hcl : s.cleaned = false)
    (hlc : liveCount s.streams = 0) :
    Base c ar aq (onUpstreamResponseRecvFinished c s) ∧ liveCount (onUpstreamResponseRecvFinished c s).streams = 0 ∧
    rsHeld (onUpstreamResponseRecvFinished c s) = false ∧
    (onUpstreamResponseRecvFinished c s).perTry = false ∧ (onUpstreamResponseRecvFinished c s).global = false ∧
    snd (onUpstreamResponseRecvFinished c s).trace = snd s.trace ∧ nLog (onUpstreamResponseRecvFinished c s).trace = nLog s.trace := by
  obtain ⟨k1, k2, k4, k9, k10, k11, k12, k13, k14, k20, k21, k22, k31⟩ := b
  unfold onUpstreamResponseRecvFinished
  simp only
  -- the state after the optional `resetStream`
  have key : ∀ s1 : S, (s1 = s ∨ s1 = resetUpstream c s) →
      Base c ar aq (cleanUp c s1) ∧ liveCount (cleanUp c s1).streams = 0 ∧ rsHeld (cleanUp c s1) = false ∧
      (cleanUp c s1).perTry = false ∧ (cleanUp c s1).global = false ∧
      snd (cleanUp c s1).trace = snd s.trace ∧ nLog (cleanUp c s1).trace = nLog s.trace := by
    intro s1 hs1
    have hl1 : LedgerOk c aq s1 ∧ liveCount s1.streams = 0 ∧ K22 c s1 := by
      rcases hs1 with rfl | rfl
      · exact ⟨⟨k10, k11, k14⟩, hlc, k22⟩
      · have := resetUpstream_ledger c aq s ⟨k10, k11, k14⟩
        exact ⟨this.1, allDead_liveCount this.2, K22_resetUpstream c s k22⟩
    have hfr : s1.cleaned = false ∧ snd s1.trace = snd s.trace ∧ nLog s1.trace = nLog s.trace ∧ s1.respStarted = s.respStarted ∧
        s1.rs = s.rs ∧ s1.retries = s.retries ∧ s1.downActive = s.downActive ∧ s1.up = s.up := by
      rcases hs1 with rfl | rfl
      · exact ⟨hcl, rfl, rfl, rfl, rfl, rfl, rfl, rfl⟩
      · simp [hcl]
    obtain ⟨f1, f2, f3, f4, f5, f6, f7, f8⟩ := hfr
    have hcu := cleanUp_facts c s1
    refine ⟨⟨?_, ?_, ?_, ?_, hl1.1.1, hl1.1.2.1, ?_, ?_, hl1.1.2.2, ?_, ?_, hl1.2.2, ?_⟩, hl1.2.1, hcu.2.1, hcu.2.2.2.1, hcu.2.2.2.2, ?_, ?_⟩
    · simpa [K1, f2] using k1
    · simpa [K2, f2, f4] using k2
    · show nLog s1.trace = _
      rw [f3]; simpa [K4, f1, hcl] using k4
    · have h9 : s1.retries = (ar : Int) + heldRetry c s1 := by
        have e1 : heldRetry c s1 = heldRetry c s := by unfold heldRetry rsHeld; rw [f5]
        rw [e1, f6]; exact k9
      have := hcu.2.2.1
      show (cleanUp c s1).retries = (ar : Int) + heldRetry c (cleanUp c s1)
      omega
    · simpa [K12, f7, f1, hcl] using k12
    · intro hh; simp [f1] at hh
    · intro _; exact hl1.2.1
    · intro _; exact ⟨hcu.2.2.2.1, hcu.2.2.2.2⟩
    · intro hh
      rw [hcu.1] at hh
      show s1.up.isSome = true
      rw [f8]; apply k31; rw [← f5]; exact hh
    · exact f2
    · exact f3
  split
  · exact key _ (Or.inr rfl)
  · exact key _ (Or.inl rfl)

/-- a cleaned mid-state: `processError` returns `End` and the worker is gone -/
theorem finish_cleaned (c : Cfg) (ar aq : Nat) (s : S) (b : Base c ar aq s) (hcl : s.cleaned = true) (h33 : K33 c s) :
    Inv c ar aq (finishPhase c s) := by
  rw [finishPhase_eq, processError_spec]
  simp only [hcl, if_true, finishOf]
  rw [reenter_end]
  exact tail_clean c ar aq s b hcl h33 .End s.pass s.notify

/-- the last downstream-sender call of a response: the event is written with end of stream, the stream is cleaned and
the worker returns -/
theorem respond_eos (c : Cfg) (ar aq : Nat) (s : S) (e : Ev) (rst : Bool) (b : Base c ar aq s)
    (hcl : s.cleaned = false) (hlc : liveCount s.streams = 0)
    (hbad : (sndStep (snd s.trace) e).bad = false) (hhdr : (sndStep (snd s.trace) e).hdr = rst) (hlog : isLog e = false)
    (hend : (sndStep (snd s.trace) e).ended = true) :
    Inv c ar aq (finishPhase c (endStream c
      { s with respStarted := rst, procDone := true, trace := s.trace ++ [e], downLive := false })) := by
  have hb : Base c ar aq { s with respStarted := rst, procDone := true, trace := s.trace ++ [e], downLive := false } := by
    obtain ⟨k1, k2, k4, k9, k10, k11, k12, k13, k14, k20, k21, k22, k31⟩ := b
    refine ⟨?_, ?_, ?_, k9, k10, k11, k12, k13, k14, k20, k21, k22, k31⟩
    · simpa [K1, snd_append] using hbad
    · simpa [K2, snd_append] using hhdr
    · simpa [K4, nLog_append, hlog] using k4
  unfold endStream cleanStream
  simp only [hcl, Bool.false_eq_true, if_false]
  have hcb := cleanBody_base c ar aq _ hb hcl (fun _ => hlc)
  apply finish_cleaned c ar aq _ hcb.1 hcb.2
  intro _
  left
  have e1 : snd (cleanBody c { s with respStarted := rst, procDone := true, trace := s.trace ++ [e], downLive := false }).trace =
      sndStep (snd s.trace) e := by
    have := (cleanBody_snd c { s with respStarted := rst, procDone := true, trace := s.trace ++ [e], downLive := false })
    rw [this]; simp [snd_append]
  rw [e1]; exact hend

/-- a downstream-sender call that does not end the stream -/
theorem respond_more_base (c : Cfg) (ar aq : Nat) (s : S) (e : Ev) (rst : Bool) (b : Base c ar aq s)
    (hbad : (sndStep (snd s.trace) e).bad = false) (hhdr : (sndStep (snd s.trace) e).hdr = rst) (hlog : isLog e = false) :
    Base c ar aq { s with respStarted := rst, procDone := false, trace := s.trace ++ [e] } := by
  obtain ⟨k1, k2, k4, k9, k10, k11, k12, k13, k14, k20, k21, k22, k31⟩ := b
  refine ⟨?_, ?_, ?_, k9, k10, k11, k12, k13, k14, k20, k21, k22, k31⟩
  · simpa [K1, snd_append] using hbad
  · simpa [K2, snd_append] using hhdr
  · simpa [K4, nLog_append, hlog] using k4

/-- the client has seen neither an end of stream nor a reset while the stream is not cleaned -/
theorem snd_open {c : Cfg} {ar aq : Nat} {s : S} (h : Inv c ar aq s) (hcl : s.cleaned = false) :
    (snd s.trace).ended = false ∧ (snd s.trace).reset = false ∧ (snd s.trace).bad = false ∧ (snd s.trace).hdr = s.respStarted := by
  have h3 := h.k3
  refine ⟨?_, ?_, h.k1, h.k2⟩
  · cases he : (snd s.trace).ended with
    | false => rfl
    | true => have := h3 (Or.inl he); rw [hcl] at this; cases this
  · cases he : (snd s.trace).reset with
    | false => rfl
    | true => have := h3 (Or.inr he); rw [hcl] at this; cases this

/-- phase `UpFilter` (no stream filters in this model): `processError`, the fake upstream request, next phase -/
theorem inv_work_upfilter (c : Cfg) (ar aq : Nat) (s : S) (h : Inv c ar aq s) (hrun : s.running = true)
    (hp : s.phase = .UpFilter) :
    Inv c ar aq (match processError c s with
      | (s, some p) => reenter s p
      | (s, none) => { s with up := (if s.up.isNone then some none else s.up), phase := s.phase.next }) := by
  have hcl := inv_not_cleaned h hrun
  have hupp : upPhase s.phase = true := by simp [hp, upPhase]
  obtain ⟨hlc, hresp, hur0, htm, hrst, _, _⟩ := h.k15 hcl hupp
  by_cases hurT : s.upReset = true
  · -- [proxy7] the label `reset during UpFilter`: this `processError` handles an upstream reset raised while the sender
    -- filters ran — retried, or answered with the error reply and the pass goes on (repair a3a21969e)
    have hfin : Inv c ar aq (finishPhase c s) :=
      finish_inv c ar aq s h hrun (by rw [hp]; decide) (by rw [hp]; intro hh; cases hh)
        (fun hq => by rw [hurT] at hq; cases hq)
    rw [finishPhase_eq] at hfin
    cases hpe : processError c s with
    | mk s' o =>
      rw [hpe] at hfin
      cases o with
      | some p => exact hfin
      | none =>
        have hph' := finishOf_pe_none_phase c s s' hpe
        simp only [finishOf] at hfin ⊢
        exact inv_fake_up c ar aq _ hfin (by simp [hph', hp, Phase.next, upPhase])
  have hur : s.upReset = false := by simpa using hurT
  have hsr := (h.k7 hcl).1
  have hdir : s.direct = false := not_direct_of_phase h.k7 hcl (by rw [hp]; decide)
  have hpd : s.procDone = false := by
    cases hh : s.procDone with
    | false => rfl
    | true => have := h.k5 hh; rw [hcl] at this; cases this
  rw [processError_spec]
  simp only [hcl, hur, Bool.false_eq_true, if_false]
  unfold peTail
  by_cases hd : s.downReset = true
  · rw [if_pos hd]
    exact tail_down c ar aq s h.base hcl hd (fun hf => no_up_dead c ar aq s h.base hf hpd)
  · rw [if_neg hd, if_neg (by simp [hdir]), if_neg (by simp [hsr])]
    rw [show (false || s.procDone) = false from by simp [hpd]]
    simp only [Bool.false_eq_true, if_false]
    obtain ⟨k0, k1, k2, k3, k4, k5, k6, k7, k8, k9, k10, k11, k12, k13, k14, k15, k16, k17, k18, k19, k20, k21, k22, k23, k24, k25, k26, k27, k28, k29, k30, k31, k32, k33⟩ := h
    refine ⟨k0, k1, k2, k3, k4, k5, k6, k7_intro hsr hdir, ?_, k9, k10, k11, k12, k13, ?_, ?_, ?_, ?_, ?_, ?_, k20, k21, k22, ?_, k24, k25, ?_, ?_, k28, ?_, ?_, ?_, ?_, (fun hh => absurd hh (by simp [hcl]))⟩
    · intro _; exact ⟨(k8 hcl).1, Or.inr (Or.inl (by simp [hp, Phase.next, upPhase]))⟩
    · rw [K14, streamsOk_iff] at k14 ⊢
      refine ⟨k14.1, ?_, ?_⟩
      · intro st hst hl
        have := k14.2.1 st hst hl
        simp only [this.1]
        exact ⟨by simp, this.2⟩
      · intro k hk
        apply k14.2.2 k
        cases hu : s.up with
        | none => simp [hu] at hk
        | some o => simpa [hu] using hk
    · intro _ _
      refine ⟨hlc, hresp, fun hh => by simp [hur] at hh, htm, ?_, ?_, ?_⟩
      · have hr0 : s.respStarted = false := by rw [hrst, hp]; decide
        show s.respStarted = (s.phase.next == Phase.UpRecvData || s.phase.next == Phase.UpRecvTrailer)
        rw [hr0, hp]; decide
      · intro hh; simp [hp, Phase.next] at hh
      · intro hh; simp [hp, Phase.next] at hh
    · intro _ hh; simp [hp, Phase.next, upPhase] at hh
    · intro _ hh; simp [hp, Phase.next, prePhase] at hh
    · intro _ hh; simp [hp, Phase.next, fwdPhase] at hh
    · intro _; simp [hp, Phase.next]
    · intro _ hh; simp [hp, Phase.next, hur] at hh
    · intro _ hh; simp [hp, Phase.next] at hh
    · intro _ hh; simp [hp, Phase.next, fwdPhase] at hh
    · intro _ _ _
      refine ⟨?_, ?_, ?_⟩ <;> (intro hh; simp [hp, Phase.next] at hh)
    · intro _ hh; simp [hp, Phase.next] at hh
    · intro hh
      have := k31 hh
      cases hu : s.up with
      | none => simp [hu] at this
      | some o => simp [hu]
    · intro _ how
      have := (k32 hcl how).1
      rw [hp] at this; simp [upPhase] at this

end MosnVerif.Model.Downstream
