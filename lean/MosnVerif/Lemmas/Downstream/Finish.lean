import MosnVerif.Lemmas.Downstream.UpReset
/-! end of a phase body: `processError`, then re-enter or advance -/
namespace MosnVerif.Model.Downstream
open MosnVerif.Gen.ProxyPhase MosnVerif.Gen.ProxyReason MosnVerif.Gen.ProxyRetry

/-- without a current client stream (or one-way) nothing is live -/
theorem no_up_dead (c : Cfg) (ar aq : Nat) (s : S) (b : Base c ar aq s)
    (h : (s.up.isSome && !s.procDone && !c.oneway) = false) (hpd : s.procDone = false) : liveCount s.streams = 0 := by
  cases how : c.oneway with
  | true => exact b.k20 how
  | false =>
    have hu : s.up = none := by
      cases hu : s.up with
      | none => rfl
      | some o => simp [hu, hpd, how] at h
    exact allDead_liveCount (no_live_of_no_cur s b.k14 (by simp [curStream, hu]))

/-- the end of a phase whose body left neither a local reply, nor a retry, nor a cleaned stream -/
theorem finish_plain (c : Cfg) (ar aq : Nat) (s : S) (b : Base c ar aq s) (hrun : s.running = true) (hcl : s.cleaned = false)
    (h3 : K3 s) (h6 : K6 s) (hpd : s.procDone = false) (hsr : s.setupRetry = false) (hdir : s.direct = false)
    (hpass : s.upReset = true → s.pass = 0 ∧ s.respStarted = false)
    (h27 : s.upReset = true → c.oneway = true → s.urr = true → s.upReset = true ∨ (s.resp.isSome = true ∧ (liveCount s.streams = 0 ∨ respHasMore s.resp = true)))
    (hfw : s.upReset = true → c.oneway = false →
      s.up.isSome = true ∧ s.rs.isSome = true ∧ liveCount s.streams = 0 ∧ s.phase ≠ .UpFilter ∧
      (s.reqSent = true → s.global = true ∨ s.globalExpired = true))
    (hadv : s.upReset = false → s.downReset = false → Inv c ar aq { s with phase := s.phase.next }) :
    Inv c ar aq (finishPhase c s) := by
  rw [finishPhase_eq, processError_spec]
  simp only [hcl, Bool.false_eq_true, if_false]
  by_cases hur : s.upReset = true
  · simp only [hur, if_true]
    obtain ⟨hp0, hrst⟩ := hpass hur
    by_cases how : c.oneway = true
    · simp only [how, if_true, finishOf]
      have := tail_oneway c ar aq s b hrun hcl how h3 h6 hpd hsr hp0 hrst s.rs (Or.inl rfl) (h27 hur how)
      have e : ({ s with direct := false, rs := s.rs } : S) = s := by rw [← hdir]
      rw [e] at this
      exact this
    · simp only [how, Bool.false_eq_true, if_false]
      simp only [Bool.not_eq_true] at how
      obtain ⟨hup, hrs, hlc, hph, h24⟩ := hfw hur how
      exact upreset_branch c ar aq s b hrun hcl how h3 h6 hpd hsr (by omega) (fun _ => hp0) (fun _ => hp0) hlc hrst
        (fun hq => absurd hq hph) (fun _ => h24) (fun hh => by simp [hdir] at hh)
  · simp only [hur, Bool.false_eq_true, if_false]
    simp only [Bool.not_eq_true] at hur
    unfold peTail
    by_cases hd : s.downReset = true
    · rw [if_pos hd]
      exact tail_down c ar aq s b hcl hd (fun hf => no_up_dead c ar aq s b hf hpd)
    · rw [if_neg hd, if_neg (by simp [hdir]), if_neg (by simp [hsr])]
      rw [show (false || s.procDone) = false from by simp [hpd]]
      simp only [Bool.false_eq_true, if_false, finishOf]
      exact hadv hur (by simpa using hd)

/-- the end of a phase whose body left a local reply (and no upstream reset is pending) -/
theorem finish_direct (c : Cfg) (ar aq : Nat) (s : S) (b : Base c ar aq s) (hrun : s.running = true) (hcl : s.cleaned = false)
    (h3 : K3 s) (h6 : K6 s) (hpd : s.procDone = false) (hsr : s.setupRetry = false) (hdir : s.direct = true)
    (hur : s.upReset = false) (hpass : s.pass = 0) (hheld : rsHeld s = false) (hlc : liveCount s.streams = 0)
    (hresp : s.resp.isSome = true) (hpt : s.perTry = false) (hgt : s.global = false) (hrst : s.respStarted = false)
    (hph : s.phase ≠ .UpFilter)
    (h27 : s.urr = true → s.upReset = true ∨ (s.resp.isSome = true ∧ (liveCount s.streams = 0 ∨ respHasMore s.resp = true))) :
    Inv c ar aq (finishPhase c s) := by
  rw [finishPhase_eq, processError_spec]
  simp only [hcl, hur, Bool.false_eq_true, if_false]
  unfold peTail
  by_cases hd : s.downReset = true
  · rw [if_pos hd]
    exact tail_down c ar aq s b hcl hd (fun _ => hlc)
  · rw [if_neg hd, if_pos hdir]
    simp only []
    rw [abandonRetry_id (s := { s with direct := false, rs := none, retries := (rsReset c s).retries }) hsr,
      rsReset_retries_of_not_held c s hheld]
    by_cases how : c.oneway = true
    · rw [if_pos how]
      exact tail_oneway c ar aq s b hrun hcl how h3 h6 hpd hsr hpass hrst none (Or.inr ⟨rfl, hheld⟩) h27
    · rw [if_neg how, if_pos hph]
      simp only [Bool.not_eq_true] at how
      exact tail_direct c ar aq s b hrun hcl how h3 h6 hpd hsr hpass hheld hlc hresp hur hpt hgt hrst

/-- the same for a two-way request whose retry state may still hold a slot (the pending reply of `TerminateStream`):
`processError` gives the slot back before dropping the retry state -/
theorem finish_direct_gen (c : Cfg) (ar aq : Nat) (s : S) (b : Base c ar aq s) (hrun : s.running = true) (hcl : s.cleaned = false)
    (how : c.oneway = false)
    (h3 : K3 s) (h6 : K6 s) (hpd : s.procDone = false) (hsr : s.setupRetry = false) (hdir : s.direct = true)
    (hur : s.upReset = false) (hpass : s.pass = 0) (hlc : liveCount s.streams = 0)
    (hresp : s.resp.isSome = true) (hpt : s.perTry = false) (hgt : s.global = false) (hrst : s.respStarted = false)
    (hph : s.phase ≠ .UpFilter) :
    Inv c ar aq (finishPhase c s) := by
  rw [finishPhase_eq, processError_spec]
  simp only [hcl, hur, Bool.false_eq_true, if_false]
  unfold peTail
  by_cases hd : s.downReset = true
  · rw [if_pos hd]
    exact tail_down c ar aq s b hcl hd (fun _ => hlc)
  · rw [if_neg hd, if_pos hdir]
    simp only []
    rw [abandonRetry_id (s := { s with direct := false, rs := none, retries := (rsReset c s).retries }) hsr,
      if_neg (by simp [how]), if_pos hph]
    exact tail_direct_gen c ar aq s b hrun hcl how h3 h6 hpd hsr hpass hlc hresp hur hpt hgt hrst

/-- an upstream reset is seen after the response has started going downstream (the rest of a streamed response was
still in flight): the regenerated gate refuses the retry, the timers are stopped, the DOWNSTREAM stream is reset — the
client sees the head and then a reset, never a second response — and the stream is cleaned -/
theorem finish_started (c : Cfg) (ar aq : Nat) (s : S) (b : Base c ar aq s) (hcl : s.cleaned = false)
    (how : c.oneway = false) (h3 : K3 s) (h6 : K6 s) (hpd : s.procDone = false) (hur : s.upReset = true)
    (hrst : s.respStarted = true) (hlc : liveCount s.streams = 0) :
    Inv c ar aq (finishPhase c s) := by
  rw [finishPhase_eq, processError_spec]
  simp only [hcl, hur, how, Bool.false_eq_true, if_false, if_true]
  have hgate : Gen.ProxyReset.retryGate s.resetReason (resetFlags c s) = false := by
    rw [retryGate_eq]; simp [hrst]
  have e1 : onUpstreamReset c s = resetDownstream c (cleanUp c s) := by
    unfold onUpstreamReset
    simp only [hgate, Bool.false_eq_true, if_false]
    unfold onUpstreamResetFinish
    simp only [resetNotReply_eq, cleanUp_respStarted, hrst, if_true]
  rw [e1]
  have hcu := cleanUp_facts c s
  have hopen : (snd s.trace).ended = false ∧ (snd s.trace).reset = false := by
    constructor
    · cases he : (snd s.trace).ended with
      | false => rfl
      | true => have := h3 (Or.inl he); rw [hcl] at this; cases this
    · cases he : (snd s.trace).reset with
      | false => rfl
      | true => have := h3 (Or.inr he); rw [hcl] at this; cases this
  -- the state after `resetStream()`: upstream processing marked done, the downstream stream reset
  have key : ∀ g : S, g.cleaned = false → g.procDone = true → g.downReset = true → g.trace = s.trace ++ [Ev.dr] →
      g.respStarted = s.respStarted → g.streams = s.streams → g.requests = s.requests → g.upActive = s.upActive →
      g.up = s.up → g.downActive = s.downActive → g.rs = (cleanUp c s).rs → g.retries = (cleanUp c s).retries →
      Inv c ar aq (finishOf (peTail c g true)) := by
    intro g g_cl g_pd g_dr g_tr g_rst g_st g_rq g_ua g_up g_da g_rs g_ret
    have hb : Base c ar aq g := by
      obtain ⟨k1, k2, k4, k9, k10, k11, k12, k13, k14, k20, k21, k22, k31⟩ := b
      refine ⟨?_, ?_, ?_, ?_, ?_, ?_, ?_, ?_, ?_, ?_, ?_, ?_, ?_⟩
      · simp only [K1, g_tr, snd_append, sndStep, hopen.1, hopen.2, Bool.or_false]; exact k1
      · simp only [K2, g_tr, snd_append, sndStep, g_rst]; exact k2
      · simp only [K4, g_tr, nLog_append, isLog, g_cl]; simpa [K4, hcl] using k4
      · have e : heldRetry c g = heldRetry c (cleanUp c s) := by unfold heldRetry rsHeld; rw [g_rs]
        have := hcu.2.2.1
        simp only [K9] at k9 ⊢
        rw [e, g_ret]; omega
      · simpa [K10, heldRequests, g_rq, g_st] using k10
      · simpa [K11, g_ua, g_st] using k11
      · simpa [K12, g_da, g_cl, hcl] using k12
      · intro hh; rw [g_cl] at hh; cases hh
      · simpa [K14, streamsOk, g_st, g_up] using k14
      · simpa [K20, g_st] using k20
      · intro hh; rw [how] at hh; cases hh
      · simpa [K22, g_st] using k22
      · intro hh; rw [g_up]; apply k31; rw [g_rs, hcu.1] at hh; exact hh
    have : peTail c g true = (dsResetStream c g, some .End) := by unfold peTail; rw [if_pos g_dr]
    rw [this]
    exact tail_down c ar aq g hb g_cl g_dr (fun _ => by rw [g_st]; exact hlc)
  unfold resetDownstream
  simp only [how, cleanUp_procDone, hpd, Bool.not_false, Bool.and_self, if_true]
  cases hdl : s.downLive with
  | true =>
    simp only [cleanUp_downLive, hdl, if_true]
    apply key <;> simp [dsOnResetStream, hcl]
  | false =>
    simp only [cleanUp_downLive, hdl, Bool.false_eq_true, if_false]
    have hdr : s.downReset = true := by
      rcases h6 hdl with h | h
      · exact h
      · rw [hcl] at h; cases h
    apply key <;> simp [hcl, hdr]

/-- the end of a phase whose body kept the invariant (and is not the one-way clean phase) -/
theorem finish_inv (c : Cfg) (ar aq : Nat) (s : S) (h : Inv c ar aq s) (hrun : s.running = true)
    (hnw : ¬ (s.phase = .WaitNotify ∨ s.phase = .Retry)) (hph : s.phase = .Oneway → c.oneway = false)
    (hadv : s.upReset = false → s.downReset = false → Inv c ar aq { s with phase := s.phase.next }) :
    Inv c ar aq (finishPhase c s) := by
  have hcl : s.cleaned = false := by
    have := h.k0; simp only [K0, hrun] at this
    cases hc : s.cleaned with
    | false => rfl
    | true => simp [hc] at this
  have hpd : s.procDone = false := by
    cases hp : s.procDone with
    | false => rfl
    | true => have := h.k5 hp; rw [hcl] at this; cases this
  have hsr := (h.k7 hcl).1
  have hdir : s.direct = false := not_direct_of_phase h.k7 hcl hnw
  -- a pending upstream reset is seen while forwarding, or while the rest of a streamed response is awaited
  by_cases hstarted : s.upReset = true ∧ upPhase s.phase = true
  · obtain ⟨hur, hupp⟩ := hstarted
    obtain ⟨_, _, hwhere, _, hrst, _, _⟩ := h.k15 hcl hupp
    have how : c.oneway = false := by
      cases ho : c.oneway with
      | false => rfl
      | true => have := (h.k32 hcl ho).1; rw [hupp] at this; cases this
    by_cases hpf : s.phase = .UpFilter ∨ s.phase = .UpRecvHeader
    · -- [proxy7] the reset was raised while the sender filters ran ([proxy10] or before the head was forwarded): nothing went
      -- downstream yet, it may be retried
      have hurr : s.urr = true ∧ s.rs.isSome = true := by
        rcases hwhere hur with hp | hp | hp
        · rcases hpf with hpf | hpf <;> (rw [hpf] at hp; cases hp)
        · rcases hpf with hpf | hpf <;> (rw [hpf] at hp; cases hp)
        · exact hp.2
      have hrst0 : s.respStarted = false := by rcases hpf with hpf | hpf <;> (rw [hrst, hpf]; decide)
      rw [finishPhase_eq, processError_spec, if_neg (by simp [hcl]), if_pos hur, if_neg (by simp [how])]
      apply upreset_branch c ar aq s h.base hrun hcl how h.k3 h.k6 hpd hsr (h.k8 hcl).1 (fun _ => h.k25 hcl how hurr.2)
        (fun hq => h.k25 hcl how hq) (h.k23 hcl (Or.inl hur)) hrst0 (fun _ => hurr.1)
      · intro hrs hq
        rcases h.k24 hcl how hq hrs with hh | hh | hh
        · exact Or.inl hh
        · exact Or.inr hh
        · rw [hdir] at hh; cases hh
      · intro hh; rw [hdir] at hh; cases hh
    have hrst' : s.respStarted = true := by
      rw [hrst]
      rcases hwhere hur with hp | hp | hp
      · simp [hp]
      · simp [hp]
      · exact absurd hp.1 hpf
    exact finish_started c ar aq s h.base hcl how h.k3 h.k6 hpd hur hrst' (h.k23 hcl (Or.inl hur))
  have hfwd : s.upReset = true → fwdPhase s.phase = true := by
    intro hur
    rcases phase_cases s.phase with hp | hp | hp | hp
    · have := (h.k17 hcl hp).2.2.2.2.1; rw [hur] at this; cases this
    · exact hp
    · exact absurd ⟨hur, hp⟩ hstarted
    · exact absurd hp (h.k19 hcl)
  have hmain : s.upReset = true → s.up.isSome = true ∧ s.rs.isSome = true := by
    intro hur
    have hf := hfwd hur
    rcases h.k18 hcl hf with ⟨ho, hp, _⟩ | hm
    · have := hph hp; rw [ho] at this; cases this
    · exact ⟨hm.1, hm.2.1⟩
  apply finish_plain c ar aq s h.base hrun hcl h.k3 h.k6 hpd hsr hdir
  · intro hur
    have hf := hfwd hur
    obtain ⟨_, hup, _⟩ := phase_excl s.phase hf
    refine ⟨?_, h.k16 hcl hup⟩
    cases how : c.oneway with
    | false => exact h.k25 hcl how (hmain hur).2
    | true =>
      have hne : s.phase ≠ .Oneway := fun hp => by have := hph hp; rw [how] at this; cases this
      rcases (h.k8 hcl).2 with h0 | h0 | h0
      · exact h0
      · rw [hup] at h0; cases h0
      · exact absurd h0 hne
  · intro hur _ _
    exact Or.inl hur
  · intro hur how
    have hf := hfwd hur
    obtain ⟨hup, hrs⟩ := hmain hur
    refine ⟨hup, hrs, h.k23 hcl (Or.inl hur), ?_, ?_⟩
    · intro hp; rw [hp] at hf; simp [fwdPhase] at hf
    · intro hq
      rcases h.k24 hcl how hq hrs with hh | hh | hh
      · exact Or.inl hh
      · exact Or.inr hh
      · rw [hdir] at hh; cases hh
  · exact hadv

end MosnVerif.Model.Downstream
