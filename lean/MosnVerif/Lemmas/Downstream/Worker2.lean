import MosnVerif.Lemmas.Downstream.Worker1
/-! the worker label `work`: forwarding phases -/
namespace MosnVerif.Model.Downstream
open MosnVerif.Gen.ProxyPhase MosnVerif.Gen.ProxyReason MosnVerif.Gen.ProxyRetry

/-- close one clause of the invariant for a state that differs from `s` in the phase only -/
macro "phase_clause" k:ident hp:ident : tactic =>
  `(tactic| (simp only [$hp:ident, fwdPhase, upPhase, prePhase, Phase.next] at $k:ident ⊢ <;> grind))

/-- phase `DownFilterAfterChooseHost` -/
theorem inv_work_dfach (c : Cfg) (ar aq : Nat) (s : S) (h : Inv c ar aq s) (hrun : s.running = true)
    (hp : s.phase = .DownFilterAfterChooseHost) : Inv c ar aq (finishPhase c s) := by
  apply finish_inv c ar aq s h hrun
  · rw [hp]; decide
  · intro hh; rw [hp] at hh; cases hh
  · intro _ _
    have hcl := inv_not_cleaned h hrun
    obtain ⟨k0, k1, k2, k3, k4, k5, k6, k7, k8, k9, k10, k11, k12, k13, k14, k15, k16, k17, k18, k19, k20, k21, k22, k23, k24, k25, k26, k27, k28, k29, k30, k31, k32, k33⟩ := h
    refine ⟨k0, k1, k2, k3, k4, k5, k6, k7_frame k7 hcl (by rw [hp]; decide) rfl rfl, ?_, k9, k10, k11, k12, k13, k14, ?_, ?_, ?_, ?_, ?_, k20, k21, k22, ?_, k24, k25, ?_, ?_, k28, ?_, ?_, k31, ?_, k33⟩
    · simp only [K8, hp, fwdPhase, upPhase, prePhase, Phase.next] at k8 ⊢; grind
    · simp only [K15, hp, fwdPhase, upPhase, prePhase, Phase.next] at k15 ⊢; grind
    · simp only [K16, hp, fwdPhase, upPhase, prePhase, Phase.next] at k16 ⊢; grind
    · simp only [K17, hp, fwdPhase, upPhase, prePhase, Phase.next] at k17 ⊢; grind
    · simp only [K18, hp, fwdPhase, upPhase, prePhase, Phase.next] at k18 ⊢; grind
    · simp only [K19, hp, fwdPhase, upPhase, prePhase, Phase.next] at k19 ⊢; grind
    · simp only [K23, hp, fwdPhase, upPhase, prePhase, Phase.next] at k23 ⊢; grind
    · simp only [K26, hp, fwdPhase, upPhase, prePhase, Phase.next] at k26 ⊢; grind
    · simp only [K27, hp, fwdPhase, upPhase, prePhase, Phase.next] at k27 ⊢; grind
    · simp only [K29, hp, fwdPhase, upPhase, prePhase, Phase.next] at k29 ⊢; grind
    · simp only [K30, hp, fwdPhase, upPhase, prePhase, Phase.next] at k30 ⊢; grind
    · simp only [K32, hp, fwdPhase, upPhase, prePhase, Phase.next] at k32 ⊢; grind

/-- `Base` is insensitive to the flags and timers -/
theorem base_flags (c : Cfg) (ar aq : Nat) (s : S) (b : Base c ar aq s) (hcl : s.cleaned = false)
    (rq pt gt nt ur : Bool) (rr : Reason) (fn : List PoolFail) (hoff : c.oneway = true → pt = false ∧ gt = false)
    (gg : Nat := s.gtGen) (go : Bool := s.gtObj) :
    Base c ar aq { s with reqSent := rq, perTry := pt, global := gt, notify := nt, upReset := ur, resetReason := rr, failNext := fn,
                          gtGen := gg, gtObj := go } := by
  obtain ⟨k1, k2, k4, k9, k10, k11, k12, k13, k14, k20, k21, k22, k31⟩ := b
  refine ⟨k1, k2, k4, k9, k10, k11, k12, ?_, k14, k20, ?_, k22, k31⟩
  · intro hh; simp [hcl] at hh
  · exact hoff

/-- the state after the pool refused the first attempt (flags `rq pt gt` = reqSent/perTry/global afterwards) -/
def drhFail (s : S) (f : PoolFail) (rq pt gt : Bool) (gg : Nat) (go : Bool) : S :=
  { s with failNext := s.failNext.drop 1, streams := [(⟨false, false, false, false⟩ : Stream)],
           trace := s.trace ++ [Ev.uf 0 f], upReset := true, resetReason := failReason f, notify := true,
           reqSent := rq, perTry := pt, global := gt, gtGen := gg, gtObj := go }

/-- the state after the pool admitted the first attempt -/
def drhOk (c : Cfg) (s : S) (eos rq pt gt : Bool) (gg : Nat) (go : Bool) : S :=
  { s with failNext := s.failNext.drop 1, streams := [(⟨true, true, true, !c.oneway⟩ : Stream)],
           requests := if !c.oneway then Gen.Resource.increase c.maxRequests s.requests else s.requests,
           upActive := if !c.oneway then s.upActive + 1 else s.upActive,
           up := some (some 0), trace := (s.trace ++ [Ev.un 0]) ++ [Ev.uh 0 eos],
           reqSent := rq, perTry := pt, global := gt, gtGen := gg, gtObj := go }

/-- phase `DownRecvHeader`: the first `ConnectionPool.NewStream` -/
theorem inv_work_drh (c : Cfg) (ar aq : Nat) (s : S) (h : Inv c ar aq s) (hrun : s.running = true)
    (hp : s.phase = .DownRecvHeader) (eos : Bool) (heos : eos = (!c.hasData && !c.hasTrailers)) :
    Inv c ar aq (finishPhase c (receiveHeaders c s eos)) := by
  have hcl := inv_not_cleaned h hrun
  obtain ⟨hst, hrq, hpt, hgt, hurr, hur, hge⟩ := h.k30 hcl (Or.inr hp)
  have hsr := (h.k7 hcl).1
  have hdir : s.direct = false := not_direct_of_phase h.k7 hcl (by rw [hp]; decide)
  have hpd : s.procDone = false := by
    cases hh : s.procDone with
    | false => rfl
    | true => have := h.k5 hh; rw [hcl] at this; cases this
  have hrst : s.respStarted = false := h.k16 hcl (by simp [hp, upPhase])
  have hhdr : (snd s.trace).hdr = false := by rw [h.k2]; exact hrst
  have hfwd : fwdPhase s.phase = true := by simp [hp, fwdPhase]
  have h18 := h.k18 hcl hfwd
  have hmain : s.up.isSome = true ∧ s.rs.isSome = true := by
    rcases h18 with ⟨_, hh, _⟩ | hm
    · rw [hp] at hh; cases hh
    · exact ⟨hm.1, hm.2.1⟩
  obtain ⟨hup, hrs⟩ := hmain
  have hps : s.pass = 0 := by
    rcases (h.k8 hcl).2 with h0 | h0 | h0
    · exact h0
    · simp [hp, upPhase] at h0
    · rw [hp] at h0; cases h0
  have hb := h.base
  have h21 := h.k21
  have hupns : ∀ k, s.up ≠ some (some k) := by
    intro k hk
    have := ((streamsOk_iff s).mp h.k14).2.2 k hk
    rw [hst] at this; simp at this
  by_cases hdr : s.downReset = true
  · -- the client is already gone: nothing is sent (the timers may still be armed), the stream is cleaned
    have key : ∀ s1 : S, (s1 = s ∨ s1 = onUpstreamRequestSent c s) → Inv c ar aq (finishPhase c s1) := by
      intro s1 hs1
      have hb1 : Base c ar aq s1 := by
        rcases hs1 with rfl | rfl
        · exact hb
        · have := base_flags c ar aq s hb hcl true (s.perTry || (s.up.isSome && !c.oneway && c.tryTimeout))
            (s.global || (s.up.isSome && !c.oneway)) s.notify s.upReset s.resetReason s.failNext
            (fun ho => by simp [ho, hpt, hgt]) (if (s.up.isSome && !c.oneway) = true then s.gtGen + 1 else s.gtGen)
            (s.gtObj || (s.up.isSome && !c.oneway))
          exact this
      apply finish_plain c ar aq s1 hb1
      · rcases hs1 with rfl | rfl <;> simpa [onUpstreamRequestSent] using hrun
      · rcases hs1 with rfl | rfl <;> simpa [onUpstreamRequestSent] using hcl
      · rcases hs1 with rfl | rfl
        · exact h.k3
        · simpa [K3, onUpstreamRequestSent] using h.k3
      · rcases hs1 with rfl | rfl
        · exact h.k6
        · simpa [K6, onUpstreamRequestSent] using h.k6
      · rcases hs1 with rfl | rfl <;> simpa [onUpstreamRequestSent] using hpd
      · rcases hs1 with rfl | rfl <;> simpa [onUpstreamRequestSent] using hsr
      · rcases hs1 with rfl | rfl <;> simpa [onUpstreamRequestSent] using hdir
      · intro hh; rcases hs1 with rfl | rfl <;> simp [onUpstreamRequestSent, hur] at hh
      · intro hh; rcases hs1 with rfl | rfl <;> simp [onUpstreamRequestSent, hur] at hh
      · intro hh; rcases hs1 with rfl | rfl <;> simp [onUpstreamRequestSent, hur] at hh
      · intro _ hh; rcases hs1 with rfl | rfl <;> simp [onUpstreamRequestSent, hdr] at hh
    have e : upAppendHeaders c s eos = s := by simp [upAppendHeaders, processDone, hdr]
    unfold receiveHeaders
    rw [e]
    cases eos
    · exact key _ (Or.inl rfl)
    · exact key _ (Or.inr rfl)
  · simp only [Bool.not_eq_true] at hdr
    have hpdn : processDone s = false := by simp [processDone, hpd, hdr, hur]
    cases hout : poolOutcome c s with
    | some f =>
      -- the pool refused: `OnFailure` records an upstream reset
      have key : ∀ (rq pt gt : Bool) (gg : Nat) (go : Bool), (c.oneway = true → pt = false ∧ gt = false) →
          (rq = true → c.oneway = false → gt = true) →
          Inv c ar aq (finishPhase c (drhFail s f rq pt gt gg go)) := by
        intro rq pt gt gg go hoff hgl
        have hb1 : Base c ar aq (drhFail s f rq pt gt gg go) := by
          unfold drhFail
          obtain ⟨k1, k2, k4, k9, k10, k11, k12, k13, k14, k20, k21, k22, k31⟩ := hb
          refine ⟨?_, ?_, ?_, k9, ?_, ?_, k12, ?_, ?_, ?_, hoff, ?_, k31⟩
          · simpa [K1, snd_append, sndStep, hhdr] using k1
          · simpa [K2, snd_append, sndStep] using k2
          · simpa [K4, nLog_append, isLog] using k4
          · simpa [K10, heldRequests, hst, liveCount, liveCounted] using k10
          · simpa [K11, hst, liveCount, liveCounted] using k11
          · intro hh; simp [hcl] at hh
          · rw [K14, streamsOk_iff]
            refine ⟨by simp [allDead], ?_, ?_⟩
            · intro st hst' hl; simp at hst'; subst hst'; simp at hl
            · intro k hk; exact absurd hk (hupns k)
          · intro _; simp [liveCount, liveCounted]
          · intro _; simp
        apply finish_plain c ar aq _ hb1 hrun hcl
        · simpa [K3, drhFail, snd_append, sndStep] using h.k3
        · exact h.k6
        · exact hpd
        · exact hsr
        · exact hdir
        · intro _; exact ⟨hps, hrst⟩
        · intro _ _ hh; left; rfl
        · intro _ how
          refine ⟨hup, hrs, by simp [drhFail, liveCount, liveCounted], by simp [drhFail, hp], ?_⟩
          intro hq; left; exact hgl hq how
        · intro hh; simp [drhFail] at hh
      have e : upAppendHeaders c s eos = drhFail s f s.reqSent s.perTry s.global s.gtGen s.gtObj := by
        simp [upAppendHeaders, hpdn, hout, upOnResetStream, hsr, hur, hst, drhFail]
      unfold receiveHeaders
      rw [e]
      cases eos
      · simp only [Bool.false_eq_true, if_false]
        exact key s.reqSent s.perTry s.global s.gtGen s.gtObj (fun ho => h21 ho) (fun hq => by rw [hrq] at hq; cases hq)
      · simp only [if_true]
        have e2 : onUpstreamRequestSent c (drhFail s f s.reqSent s.perTry s.global s.gtGen s.gtObj) =
            drhFail s f true (s.perTry || (s.up.isSome && !c.oneway && c.tryTimeout)) (s.global || (s.up.isSome && !c.oneway))
              (if (s.up.isSome && !c.oneway) = true then s.gtGen + 1 else s.gtGen) (s.gtObj || (s.up.isSome && !c.oneway)) := by
          simp [onUpstreamRequestSent, drhFail]
        rw [e2]
        exact key true _ _ _ _ (fun ho => by simp [ho, hpt, hgt]) (fun _ ho => by simp [ho, hup])
    | none =>
      -- admitted: the client stream of attempt 0 exists now
      have key : ∀ (rq pt gt : Bool) (gg : Nat) (go : Bool), (c.oneway = true → pt = false ∧ gt = false) →
          (rq = true → c.oneway = false → gt = true) → (rq = eos) →
          Inv c ar aq (finishPhase c (drhOk c s eos rq pt gt gg go)) := by
        intro rq pt gt gg go hoff hgl hrqe
        have hb1 : Base c ar aq (drhOk c s eos rq pt gt gg go) := by
          unfold drhOk
          obtain ⟨k1, k2, k4, k9, k10, k11, k12, k13, k14, k20, k21, k22, k31⟩ := hb
          refine ⟨?_, ?_, ?_, k9, ?_, ?_, k12, ?_, ?_, ?_, hoff, ?_, ?_⟩
          · simpa [K1, snd_append, snd_append2, sndStep, hhdr] using k1
          · simpa [K2, snd_append, snd_append2, sndStep] using k2
          · simpa [K4, nLog_append, nLog_append2, isLog] using k4
          · simp only [K10, heldRequests, hst, liveCount_nil, increase_eq] at k10 ⊢
            cases ho : c.oneway <;> by_cases hm : c.maxRequests = 0 <;> simp [ho, hm, liveCount, liveCounted] at k10 ⊢ <;> omega
          · simp only [K11, hst, liveCount_nil] at k11 ⊢
            cases ho : c.oneway <;> simp [ho, liveCount, liveCounted] at k11 ⊢ <;> omega
          · intro hh; simp [hcl] at hh
          · rw [K14, streamsOk_iff]
            refine ⟨by simp [allDead], ?_, ?_⟩
            · intro st hst' _; simp at hst'; subst hst'; simp
            · intro k hk; simp at hk; subst hk; simp
          · intro ho; simp [liveCount, liveCounted, ho]
          · intro ho; simp [ho]
          · intro _; rfl
        apply finish_plain c ar aq _ hb1 hrun hcl
        · simpa [K3, drhOk, snd_append, snd_append2, sndStep] using h.k3
        · exact h.k6
        · exact hpd
        · exact hsr
        · exact hdir
        · intro hh; simp [drhOk, hur] at hh
        · intro hh; simp [drhOk, hur] at hh
        · intro hh; simp [drhOk, hur] at hh
        · intro _ hdr'
          have hdr' : s.downReset = false := hdr'
          have h3' : K3 (drhOk c s eos rq pt gt gg go) := by simpa [K3, drhOk, snd_append, snd_append2, sndStep] using h.k3
          unfold drhOk at hb1 h3' ⊢
          obtain ⟨k0, k1, k2, k3, k4, k5, k6, k7, k8, k9, k10, k11, k12, k13, k14, k15, k16, k17, k18, k19, k20, k21, k22, k23, k24, k25, k26, k27, k28, k29, k30, k31, k32, k33⟩ := h
          refine ⟨k0, hb1.k1, hb1.k2, h3', hb1.k4, k5, k6, k7_intro hsr hdir, ?_, k9, hb1.k10, hb1.k11, k12, hb1.k13, hb1.k14, ?_, ?_, ?_, ?_, ?_, hb1.k20, hoff, hb1.k22, ?_, ?_, ?_, ?_, ?_, ?_, ?_, ?_, hb1.k31, ?_, (fun hh => absurd hh (by simp [hcl]))⟩
          · intro _; exact ⟨by show s.pass ≤ 1; omega, Or.inl hps⟩
          · intro _ hh; simp [hp, Phase.next, upPhase] at hh
          · intro _ _; exact hrst
          · intro _ hh; simp [hp, Phase.next, prePhase] at hh
          · intro _ _
            right
            refine ⟨rfl, hrs, ?_, ?_, ?_, ?_⟩
            · intro hh; simp [hurr, hur, hdr'] at hh
            · intro hh; simp [hge] at hh
            · intro how hq; left; exact hgl hq how
            · intro hh; simp [hp, Phase.next] at hh
          · intro _; simp [hp, Phase.next]
          · intro _ hh; simp [hur, hp, Phase.next] at hh
          · intro _ how hq _; left; exact hgl hq how
          · intro _ _ _; exact hps
          · intro _ hh; simp [hp, Phase.next] at hh
          · intro _ _ hh; simp [hurr] at hh
          · intro _ hh
            have := k28 hcl hh
            simpa [hurr, hur, hdr'] using this
          · intro _ _ _
            refine ⟨?_, ?_, ?_⟩
            · intro _
              cases hd : c.hasData <;> cases ht : c.hasTrailers <;> simp [hd, ht] at heos ⊢
              rw [hrqe, heos]
            · intro hh; simp [hp, Phase.next] at hh
            · intro hh; simp [hp, Phase.next] at hh
          · intro _ hh; simp [hp, Phase.next] at hh
          · intro _ _; simp [hp, Phase.next, upPhase]
      have e : upAppendHeaders c s eos = drhOk c s eos s.reqSent s.perTry s.global s.gtGen s.gtObj := by
        simp [upAppendHeaders, hpdn, hout, hst, drhOk]
      unfold receiveHeaders
      rw [e]
      cases eos
      · simp only [Bool.false_eq_true, if_false]
        exact key s.reqSent s.perTry s.global s.gtGen s.gtObj (fun ho => h21 ho) (fun hq => by rw [hrq] at hq; cases hq) hrq
      · simp only [if_true]
        have e2 : onUpstreamRequestSent c (drhOk c s true s.reqSent s.perTry s.global s.gtGen s.gtObj) =
            drhOk c s true true (s.perTry || (true && !c.oneway && c.tryTimeout)) (s.global || (true && !c.oneway))
              (if (true && !c.oneway) = true then s.gtGen + 1 else s.gtGen) (s.gtObj || (true && !c.oneway)) := by
          simp [onUpstreamRequestSent, drhOk]
        rw [e2]
        exact key true _ _ _ _ (fun ho => by simp [ho, hpt, hgt]) (fun _ ho => by simp [ho]) rfl

end MosnVerif.Model.Downstream
