import MosnVerif.Model.DownstreamSpec
/-! list-level facts about client streams (no machine state involved) -/
namespace MosnVerif.Model.Downstream

@[simp] theorem setStream_length (l : List Stream) (k : Nat) (f : Stream → Stream) : (setStream l k f).length = l.length := by
  induction l generalizing k with
  | nil => simp [setStream]
  | cons x r ih => cases k <;> simp [setStream, ih]

theorem setStream_get (l : List Stream) (k j : Nat) (f : Stream → Stream) :
    (setStream l k f)[j]? = if j = k then (l[j]?).map f else l[j]? := by
  induction l generalizing k j with
  | nil => simp [setStream]
  | cons x r ih =>
    cases k with
    | zero => cases j <;> simp [setStream]
    | succ k => cases j <;> simp [setStream, ih]

theorem liveCount_cons (x : Stream) (r : List Stream) :
    liveCount (x :: r) = (if x.live && x.counted then 1 else 0) + liveCount r := by
  simp only [liveCount, List.filter_cons, liveCounted]
  by_cases h : (x.live && x.counted) = true
  · simp [h]; omega
  · simp [h]

@[simp] theorem liveCount_nil : liveCount [] = 0 := rfl

theorem allDead_cons (x : Stream) (r : List Stream) : allDead (x :: r) = (!x.live && allDead r) := by
  simp [allDead]

theorem allDead_liveCount {l : List Stream} (h : allDead l = true) : liveCount l = 0 := by
  induction l with
  | nil => rfl
  | cons x r ih =>
    rw [allDead_cons] at h
    simp only [Bool.and_eq_true, Bool.not_eq_true'] at h
    rw [liveCount_cons, ih h.2]
    simp [h.1]

theorem allDead_get {l : List Stream} (h : allDead l = true) {k : Nat} {st : Stream} (hk : l[k]? = some st) : st.live = false := by
  have hm : st ∈ l := List.mem_of_getElem? hk
  simp only [allDead, List.all_eq_true, Bool.not_eq_true'] at h
  exact h st hm

/-- a live stream of a list whose initial part is dead is the last one -/
theorem live_is_last {l : List Stream} (h : allDead l.dropLast = true) {k : Nat} {st : Stream}
    (hk : l[k]? = some st) (hl : st.live = true) : k + 1 = l.length := by
  have hlt : k < l.length := by
    rcases Nat.lt_or_ge k l.length with h1 | h1
    · exact h1
    · rw [List.getElem?_eq_none h1] at hk; cases hk
  rcases Nat.lt_or_ge (k + 1) l.length with h2 | h2
  · exfalso
    have : l.dropLast[k]? = some st := by
      rw [List.getElem?_dropLast]; simp [hk]
      omega
    have := allDead_get h this
    simp [hl] at this
  · omega

theorem allDead_setStream_kill_last {l : List Stream} (h : allDead l.dropLast = true) :
    allDead (setStream l (l.length - 1) kill) = true := by
  simp only [allDead, List.all_eq_true, Bool.not_eq_true']
  intro st hst
  obtain ⟨j, hj⟩ := List.getElem?_of_mem hst
  rw [setStream_get] at hj
  split at hj
  · cases hlj : l[j]? with
    | none => simp [hlj] at hj
    | some x => simp [hlj] at hj; subst hj; rfl
  · rename_i hne
    have hlt : j < l.length := by
      rcases Nat.lt_or_ge j l.length with h1 | h1
      · exact h1
      · rw [List.getElem?_eq_none h1] at hj; cases hj
    have : l.dropLast[j]? = some st := by
      rw [List.getElem?_dropLast]
      have : j < l.length - 1 := by omega
      simp [this, hj]
    exact allDead_get h this

theorem allDead_setStream {l : List Stream} (h : allDead l = true) (k : Nat) (f : Stream → Stream)
    (hf : ∀ st, st.live = false → (f st).live = false) : allDead (setStream l k f) = true := by
  simp only [allDead, List.all_eq_true, Bool.not_eq_true']
  intro st hst
  obtain ⟨j, hj⟩ := List.getElem?_of_mem hst
  rw [setStream_get] at hj
  split at hj
  · cases hlj : l[j]? with
    | none => simp [hlj] at hj
    | some x => simp [hlj] at hj; subst hj; exact hf x (allDead_get h hlj)
  · exact allDead_get h hj

theorem setStream_dropLast (l : List Stream) (k : Nat) (f : Stream → Stream) :
    (setStream l k f).dropLast = setStream l.dropLast k f := by
  induction l generalizing k with
  | nil => simp [setStream]
  | cons x r ih =>
    cases r with
    | nil => cases k <;> simp [setStream]
    | cons y r' =>
      cases k with
      | zero => simp [setStream]
      | succ k =>
        have := ih k
        simp only [setStream] at this ⊢
        cases k <;> simp_all [setStream, List.dropLast]

theorem liveCount_setStream_unlisten (l : List Stream) (k : Nat) : liveCount (setStream l k unlisten) = liveCount l := by
  induction l generalizing k with
  | nil => simp [setStream]
  | cons x r ih =>
    cases k with
    | zero => simp [setStream, liveCount_cons, unlisten]
    | succ k => simp [setStream, liveCount_cons, ih k]

theorem allDead_setStream_unlisten (l : List Stream) (k : Nat) : allDead (setStream l k unlisten) = allDead l := by
  induction l generalizing k with
  | nil => simp [setStream]
  | cons x r ih =>
    cases k with
    | zero => simp [setStream, allDead_cons, unlisten]
    | succ k => simp [setStream, allDead_cons, ih k]

/-- killing stream k lowers the live count by one exactly when it was live and counted -/
theorem liveCount_setStream_kill (l : List Stream) (k : Nat) (st : Stream) (hk : l[k]? = some st) :
    liveCount (setStream l k kill) + (if st.live && st.counted then 1 else 0) = liveCount l := by
  induction l generalizing k with
  | nil => simp at hk
  | cons x r ih =>
    cases k with
    | zero =>
      simp at hk; subst hk
      simp only [setStream, liveCount_cons, kill]
      simp; omega
    | succ k =>
      simp at hk
      have := ih k hk
      simp only [setStream, liveCount_cons]
      omega

theorem getLast?_setStream (l : List Stream) (k : Nat) (f : Stream → Stream) :
    (setStream l k f).getLast? = if k + 1 = l.length then l.getLast?.map f else l.getLast? := by
  cases l with
  | nil => simp [setStream]
  | cons x r =>
    rw [List.getLast?_eq_getElem?, List.getLast?_eq_getElem?, setStream_length, setStream_get]
    by_cases h : k + 1 = (x :: r).length
    · have h1 : r.length = k := by simp at h; omega
      simp [h1]
    · have h1 : ¬ r.length = k := by simp at h; omega
      have h2 : ¬ k = r.length := fun e => h1 e.symm
      simp [h1, h2]

def liveAreCounted (l : List Stream) : Bool := l.all (fun st => !st.live || st.counted)

theorem liveAreCounted_setStream (l : List Stream) (k : Nat) (f : Stream → Stream)
    (hf : ∀ st, (!st.live || st.counted) = true → (!(f st).live || (f st).counted) = true)
    (h : liveAreCounted l = true) : liveAreCounted (setStream l k f) = true := by
  induction l generalizing k with
  | nil => simpa [setStream] using h
  | cons x r ih =>
    simp only [liveAreCounted, List.all_cons, Bool.and_eq_true] at h
    cases k with
    | zero => simp only [setStream, liveAreCounted, List.all_cons, Bool.and_eq_true]; exact ⟨hf x h.1, h.2⟩
    | succ k =>
      simp only [setStream, liveAreCounted, List.all_cons, Bool.and_eq_true]
      exact ⟨h.1, ih k h.2⟩

theorem liveAreCounted_append (l : List Stream) (st : Stream) (h : liveAreCounted l = true)
    (hs : (!st.live || st.counted) = true) : liveAreCounted (l ++ [st]) = true := by
  simp only [liveAreCounted, List.all_append, List.all_cons, List.all_nil, Bool.and_true, Bool.and_eq_true] at h ⊢
  exact ⟨h, hs⟩

end MosnVerif.Model.Downstream
